# per-property configuration of ./check (also the source of MANIFEST.json, see mkmanifest.py)
BASE_NOTE = ("Trusted: Lean 4.33.0 kernel; axioms per theorem are printed into the evidence (at most propext, Classical.choice, Quot.sound; "
             "no native_decide/bv_decide/sorry/own axioms); the Go->Lean translator tools/gen; the correspondence harness, which is differential "
             "testing and bounds rather than proves model<->code agreement. ")
PROPS = {
 "C06": dict(
   gen=["Bool3"],
   claim="The four truth tables are translated from booleans.go on every run and proved equal to the FHIRPath tables for all operands; "
         "singleton evaluation, commutativity, De Morgan and implies = not-or are theorems for all operand collections; the operand-form matrix is "
         "run exhaustively end to end against the model.",
   note=BASE_NOTE + "Hand-modelled (tied by exhaustive correspondence over operand forms): Collection.ToSingletonBoolean/ToBool, BooleanExpression.Evaluate, impl.Not; "
        "operand items are abstracted to {Boolean, other} as observed on the real operands.",
   trusted=["hand model of Collection.ToSingletonBoolean/ToBool and BooleanExpression.Evaluate (tied by correspondence)"],
   assumptions=["operand items are abstracted to {Boolean b, other}; system.From maps FHIR boolean elements to Booleans (observed by the harness on each operand)"],
 ),
}
_NY = "check not built yet (work in progress; see DESIGN.md section 8 for the build order)"
NOT_CLAIMED = {p: _NY for p in ["C01","C02","C03","C04","C05","C07","C08","C09","C10","C11","C12","C13","C14","C15","C16","C17","C18","C19","C20"]}
