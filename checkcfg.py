# per-property configuration of ./check: one JSON file per claimed property in cfg/ (also the source of MANIFEST.json)
import glob, json, os
_D = os.path.dirname(os.path.abspath(__file__))
BASE_NOTE = ("Trusted: Lean 4.33.0 kernel; axioms per theorem are printed into the evidence (at most propext, Classical.choice, Quot.sound; "
             "no native_decide/bv_decide/sorry/own axioms); the Go->Lean translator tools/gen; the correspondence harness, which is differential "
             "testing and bounds rather than proves model<->code agreement. ")
PROPS = {}
for f in sorted(glob.glob(_D + "/cfg/C*.json")):
    c = json.load(open(f))
    c["note"] = BASE_NOTE + c.get("note", "")
    PROPS[os.path.basename(f)[:-5]] = c
_NY = "check not built yet (work in progress; see DESIGN.md section 8 for the build order)"
NOT_CLAIMED = {("C%02d" % i): _NY for i in range(1, 21)}
try:
    NOT_CLAIMED.update(json.load(open(_D + "/cfg/not_claimed.json")))
except FileNotFoundError:
    pass
