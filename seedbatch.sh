#!/bin/bash
# seedbatch.sh <prop> <worktree> <outdir> : confirm and run the three seeded changes of a round
p=$1; wt=$2; out=$3
for i in 1 2 3; do
  [ -d $out/$i ] || continue
  c=$(./seedtool.sh confirm $wt $out/$i 2>&1 | tail -1)
  echo "== $p/$i confirm: $c"
  r=$(./seedtool.sh run $p $out/$i/patch.diff 2>&1 | grep -E "^VIOLATION|check-exit|does not apply" | tr '\n' ' ' | cut -c1-220)
  echo "   run: $r"
  python3 showreplay.py $p 2>/dev/null | sed -n 1,3p | cut -c1-260 | sed 's/^/   /'
done
git -C /repo status --short | head -3
