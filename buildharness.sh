#!/bin/bash
# Builds the harness INTO the repo module through a build overlay (no file is written under /repo).
# usage: buildharness.sh <out-binary> [extra go build flags...]
set -e
export GOFLAGS=-mod=mod GOPROXY=off GOSUMDB=off GOTOOLCHAIN=local
OUT="$(realpath -m "$1")"; shift
HERE="$(cd "$(dirname "$0")" && pwd)"
REPO="${VERIF_REPO:-/repo}"
OV="$(mktemp /dev/shm/verif-ov.XXXXXX.json 2>/dev/null || mktemp)"
python3 - "$REPO" "$HERE" > "$OV" <<'PY'
import json,os,sys,glob
repo=sys.argv[1]; here=sys.argv[2]
rep={}
for f in sorted(glob.glob(here+'/harness/*.go')):
    rep[os.path.join(repo,'fhirpath/zz_verifharness',os.path.basename(f))]=f
# verif-tagged hook files injected into packages of the repository (harness/hooks/<pkg path with __>/file.go)
for f in sorted(glob.glob(here+'/harness/hooks/*/*.go')):
    pkg=os.path.basename(os.path.dirname(f)).replace('__','/')
    rep[os.path.join(repo,pkg,os.path.basename(f))]=f
print(json.dumps({"Replace":rep}))
PY
cd "$REPO"
go build -tags verif -overlay "$OV" "$@" -o "$OUT" ./fhirpath/zz_verifharness
rm -f "$OV"
