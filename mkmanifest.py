#!/usr/bin/env python3
"""Regenerates MANIFEST.json from checkcfg.py (claimed checks) and NOT_CLAIMED below."""
import json, sys
sys.path.insert(0, __import__('os').path.dirname(__import__('os').path.abspath(__file__)))
from checkcfg import PROPS, NOT_CLAIMED
ids = [json.loads(l)["id"] for l in open(__import__('os').path.dirname(__import__('os').path.abspath(__file__)) + '/properties.jsonl')]
checks = []
for pid in ids:
    if pid not in PROPS:
        continue
    c = PROPS[pid]
    checks.append(dict(
        property_id=pid,
        quick_cmd=f"./check {pid} quick",
        thorough_cmd=f"./check {pid} thorough",
        evidence_file=f"/verif/evidence/{pid}.json",
        replay_cmd_template=f"./check {pid} quick --replay {{path}}",
        engine="lean-proof+correspondence",
        level_claimed=dict(category="proof", text=c["claim"], design_ref=f"DESIGN.md section 5, {pid}"),
        level_note=c["note"],
        technique=c.get("technique", "Lean 4 theorems (kernel-checked) about a model regenerated from / corresponded with the Go source"),
    ))
na = [dict(property_id=p, reason=NOT_CLAIMED[p]) for p in ids if p not in PROPS]
m = dict(
    version=1,
    setup_cmd="./setup.sh",
    hooks=dict(guard="verif", enable="harness is compiled into the repo module by `go build -tags verif -overlay` ; hook files under /verif/harness/hooks/<package>/ (build tag verif) are injected into the named repository packages by the same overlay and never written to /repo: fhirpath/patch/zz_verif_hook.go exposes VerifEvaluate (LastResult, BeforeLastResult, result of a patch expression)",
               baseline_off_cmd="cd /repo && GOFLAGS=-mod=mod go test -vet=off -count=1 ./...", source_commits=[], add_only=True),
    engines=[dict(name="lean-proof+correspondence", path="/verif/check", serves_properties=[c["property_id"] for c in checks],
                  kind_free_text="Lean 4 proofs over a model that is regenerated from the Go source (tools/gen) and tied to the running code by a differential line protocol (harness + compiled Lean driver)")],
    checks=checks,
    not_applicable=na,
    notes="See DESIGN.md. Every check: regenerate Gen/*.lean from /repo, lake build FP.Props.<id>, audit axioms, build harness by overlay from the current tree, run correspondence + direct law oracles, decide.",
)
json.dump(m, open(__import__('os').path.dirname(__import__('os').path.abspath(__file__)) + '/MANIFEST.json', 'w'), indent=1)
print("checks:", [c["property_id"] for c in checks], "not claimed:", [n["property_id"] for n in na])
