package main

import (
	"fmt"
	"go/ast"
	"os"
	"path/filepath"
	"sort"
	"strings"
)

func init() { extraGens = append(extraGens, extraGen{"ArgEval", genArgEval}) }

// genArgEval: for every function of funcs/impl (non-test files), the calls `<expression>.Evaluate(ctx, <collection>)`
// in source order — which argument a function implementation evaluates, and on what: the function's own input, or
// a one-item collection per input item (criteria and projections).
func genArgEval() error {
	dir := "fhirpath/internal/funcs/impl"
	ents, err := os.ReadDir(filepath.Join(repo, dir))
	if err != nil {
		return err
	}
	type row struct{ fn, sub, coll string }
	var rows []row
	var text func(e ast.Expr) string
	text = func(e ast.Expr) string {
		switch x := e.(type) {
		case *ast.Ident:
			return x.Name
		case *ast.SelectorExpr:
			return text(x.X) + "." + x.Sel.Name
		case *ast.IndexExpr:
			return text(x.X) + "[" + text(x.Index) + "]"
		case *ast.BasicLit:
			return x.Value
		case *ast.CompositeLit:
			var parts []string
			for _, el := range x.Elts {
				parts = append(parts, text(el))
			}
			return text(x.Type) + "{" + strings.Join(parts, ",") + "}"
		case *ast.CallExpr:
			var parts []string
			for _, a := range x.Args {
				parts = append(parts, text(a))
			}
			return text(x.Fun) + "(" + strings.Join(parts, ",") + ")"
		}
		return "?"
	}
	for _, ent := range ents {
		if ent.IsDir() || !strings.HasSuffix(ent.Name(), ".go") || strings.HasSuffix(ent.Name(), "_test.go") {
			continue
		}
		_, f, err := parseFile(filepath.Join(dir, ent.Name()))
		if err != nil {
			return err
		}
		for _, d := range f.Decls {
			fd, ok := d.(*ast.FuncDecl)
			if !ok || fd.Body == nil {
				continue
			}
			ast.Inspect(fd.Body, func(n ast.Node) bool {
				ce, ok := n.(*ast.CallExpr)
				if !ok {
					return true
				}
				sel, ok := ce.Fun.(*ast.SelectorExpr)
				if !ok || sel.Sel.Name != "Evaluate" || len(ce.Args) != 2 {
					return true
				}
				rows = append(rows, row{fd.Name.Name, text(sel.X), text(ce.Args[1])})
				return true
			})
		}
	}
	if len(rows) < 10 {
		return fmt.Errorf("only %d argument evaluations found in %s", len(rows), dir)
	}
	sort.SliceStable(rows, func(i, j int) bool { return rows[i].fn < rows[j].fn })
	var b strings.Builder
	b.WriteString(header("ArgEval", dir+"/*.go"))
	b.WriteString("/-- (implementation function, evaluated expression, collection it is evaluated on), per function in source order -/\ndef argEvals : List (String × String × String) := [\n")
	for i, r := range rows {
		if i > 0 {
			b.WriteString(",\n")
		}
		fmt.Fprintf(&b, "  (%s, %s, %s)", leanStr(r.fn), leanStr(r.sub), leanStr(r.coll))
	}
	b.WriteString("\n]\n\nend FP.Gen.ArgEval\n")
	emit("ArgEval", b.String())
	return nil
}
