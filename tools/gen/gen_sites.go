package main

import (
	"fmt"
	"go/ast"
	"go/token"
	"os"
	"path/filepath"
	"sort"
	"strings"
)

func init() { extraGens = append(extraGens, extraGen{"Sites", genSites}) }

// evaluator packages: everything Evaluate can reach (not patch, which is the one mutating API)
var evaluatorDirs = []string{"fhirpath", "fhirpath/internal/expr", "fhirpath/internal/funcs", "fhirpath/internal/funcs/impl",
	"fhirpath/system", "fhirpath/internal/reflection", "fhirpath/evalopts", "fhirpath/internal/opts"}

// genSites: inventories that the C03/C04 theorems are decided over:
//  * every append(x, …) with the provenance of x inside its function: "fresh" when x is a local
//    variable whose every definition in that function is a composite literal / make / nil var
//    declaration / an append to itself; otherwise the syntactic class of its origin;
//  * every method called on protoreflect/proto values (by method name), per package;
//  * every call into the wall clock / process time zone.
func genSites() error {
	type site struct{ pkg, fn, target, prov, pos string }
	var appends []site
	protoCalls := map[string]map[string]bool{}
	var clock []site
	for _, dir := range evaluatorDirs {
		ents, err := os.ReadDir(filepath.Join(repo, dir))
		if err != nil {
			return err
		}
		for _, e := range ents {
			if !strings.HasSuffix(e.Name(), ".go") || strings.HasSuffix(e.Name(), "_test.go") {
				continue
			}
			fset, f, err := parseFile(dir + "/" + e.Name())
			if err != nil {
				return err
			}
			for _, d := range f.Decls {
				fd, ok := d.(*ast.FuncDecl)
				if !ok || fd.Body == nil {
					continue
				}
				fresh := freshLocals(fd)
				ast.Inspect(fd.Body, func(n ast.Node) bool {
					c, ok := n.(*ast.CallExpr)
					if !ok {
						return true
					}
					name := selName(c.Fun)
					if name == "append" && len(c.Args) > 0 {
						tgt := exprText(c.Args[0])
						prov := "other"
						if id, ok := c.Args[0].(*ast.Ident); ok {
							if fresh[id.Name] {
								prov = "fresh"
							} else {
								prov = "not-fresh-local-or-param"
							}
						} else if cl, ok := c.Args[0].(*ast.CompositeLit); ok && len(cl.Elts) >= 0 {
							prov = "fresh"
						}
						appends = append(appends, site{dir, fd.Name.Name, tgt, prov, fmt.Sprintf("%s:%d", e.Name(), fset.Position(c.Pos()).Line)})
					}
					if s, ok := c.Fun.(*ast.SelectorExpr); ok {
						switch s.Sel.Name {
						case "Set", "Clear", "Mutable", "NewField", "Append", "Truncate", "AppendMutable", "SetUnknown", "Reset", "Merge", "ClearOneof",
							"Get", "Has", "WhichOneof", "Range", "List", "Len", "Descriptor", "Interface", "Message", "IsValid", "ProtoReflect", "Fields", "Oneofs", "ByName",
							"Kind", "IsList", "Enum", "String", "Name", "FullName", "Values", "ByNumber", "New", "Type", "UnmarshalTo", "Map", "Bool", "Int", "Bytes":
							if protoCalls[dir] == nil {
								protoCalls[dir] = map[string]bool{}
							}
							protoCalls[dir][s.Sel.Name] = true
						}
						if name == "time.Now" || name == "time.LoadLocation" || strings.HasSuffix(name, ".Local") && strings.HasPrefix(name, "time.") {
							clock = append(clock, site{dir, fd.Name.Name, name, "", fmt.Sprintf("%s:%d", e.Name(), fset.Position(c.Pos()).Line)})
						}
					}
					return true
				})
			}
		}
	}
	if len(appends) == 0 {
		return fmt.Errorf("no append sites found")
	}
	var b strings.Builder
	b.WriteString(header("Sites", strings.Join(evaluatorDirs, ", ")))
	b.WriteString("structure AppendSite where\n  pkg : String\n  fn : String\n  target : String\n  prov : String\n  pos : String\nderiving DecidableEq, Repr\n\n")
	b.WriteString("def appends : List AppendSite := [\n")
	for i, s := range appends {
		sep := ","
		if i == len(appends)-1 {
			sep = ""
		}
		b.WriteString(fmt.Sprintf("  ⟨%s, %s, %s, %s, %s⟩%s\n", leanStr(s.pkg), leanStr(s.fn), leanStr(s.target), leanStr(s.prov), leanStr(s.pos), sep))
	}
	b.WriteString("]\n\n")
	b.WriteString("/-- method names called on values in each evaluator package (protoreflect API surface and look-alikes) -/\ndef methodCalls : List (String × List String) := [\n")
	pk := []string{}
	for k := range protoCalls {
		pk = append(pk, k)
	}
	sort.Strings(pk)
	for i, k := range pk {
		ms := []string{}
		for m := range protoCalls[k] {
			ms = append(ms, leanStr(m))
		}
		sort.Strings(ms)
		sep := ","
		if i == len(pk)-1 {
			sep = ""
		}
		b.WriteString(fmt.Sprintf("  (%s, [%s])%s\n", leanStr(k), strings.Join(ms, ", "), sep))
	}
	b.WriteString("]\n\n")
	b.WriteString("def clockCalls : List (String × String × String) := [\n")
	for i, s := range clock {
		sep := ","
		if i == len(clock)-1 {
			sep = ""
		}
		b.WriteString(fmt.Sprintf("  (%s, %s, %s)%s\n", leanStr(s.pkg), leanStr(s.fn), leanStr(s.target), sep))
	}
	b.WriteString("]\n\nend FP.Gen.Sites\n")
	emit("Sites", b.String())
	return nil
}

func exprText(e ast.Expr) string {
	switch x := e.(type) {
	case *ast.Ident:
		return x.Name
	case *ast.SelectorExpr:
		return exprText(x.X) + "." + x.Sel.Name
	case *ast.CompositeLit:
		return selName(x.Type) + "{…}"
	case *ast.CallExpr:
		return exprText(x.Fun) + "(…)"
	case *ast.IndexExpr:
		return exprText(x.X) + "[…]"
	case *ast.SliceExpr:
		return exprText(x.X) + "[:]"
	}
	return "?"
}

// freshLocals: local variables all of whose definitions in the function create a new backing
// array (composite literal, make, `var x T` / nil) or append to the variable itself.
func freshLocals(fd *ast.FuncDecl) map[string]bool {
	defs := map[string][]ast.Expr{}
	declared := map[string]bool{}
	params := map[string]bool{}
	if fd.Recv != nil {
		for _, f := range fd.Recv.List {
			for _, n := range f.Names {
				params[n.Name] = true
			}
		}
	}
	for _, f := range fd.Type.Params.List {
		for _, n := range f.Names {
			params[n.Name] = true
		}
	}
	if fd.Type.Results != nil {
		for _, f := range fd.Type.Results.List {
			for _, n := range f.Names {
				declared[n.Name] = true // named results start nil
			}
		}
	}
	ast.Inspect(fd.Body, func(n ast.Node) bool {
		switch x := n.(type) {
		case *ast.AssignStmt:
			if len(x.Lhs) == len(x.Rhs) {
				for i, l := range x.Lhs {
					if id, ok := l.(*ast.Ident); ok {
						defs[id.Name] = append(defs[id.Name], x.Rhs[i])
					}
				}
			} else {
				for _, l := range x.Lhs {
					if id, ok := l.(*ast.Ident); ok {
						defs[id.Name] = append(defs[id.Name], &ast.Ident{Name: "<multi>"})
					}
				}
			}
		case *ast.DeclStmt:
			if gd, ok := x.Decl.(*ast.GenDecl); ok && gd.Tok == token.VAR {
				for _, s := range gd.Specs {
					vs := s.(*ast.ValueSpec)
					for i, n := range vs.Names {
						if i < len(vs.Values) {
							defs[n.Name] = append(defs[n.Name], vs.Values[i])
						} else {
							declared[n.Name] = true
						}
					}
				}
			}
		case *ast.RangeStmt:
			for _, e := range []ast.Expr{x.Key, x.Value} {
				if id, ok := e.(*ast.Ident); ok {
					defs[id.Name] = append(defs[id.Name], &ast.Ident{Name: "<range>"})
				}
			}
		}
		return true
	})
	fresh := map[string]bool{}
	for name := range declared {
		if !params[name] {
			fresh[name] = true
		}
	}
	for name, ds := range defs {
		if params[name] {
			fresh[name] = false
			continue
		}
		ok := true
		for _, d := range ds {
			switch y := d.(type) {
			case *ast.CompositeLit:
			case *ast.CallExpr:
				n := selName(y.Fun)
				if n == "make" {
					continue
				}
				if n == "append" && len(y.Args) > 0 {
					if id, isId := y.Args[0].(*ast.Ident); isId && id.Name == name {
						continue
					}
					if _, isLit := y.Args[0].(*ast.CompositeLit); isLit {
						continue
					}
				}
				ok = false
			case *ast.Ident:
				if y.Name != "nil" {
					ok = false
				}
			default:
				ok = false
			}
		}
		if ok {
			fresh[name] = true
		} else {
			fresh[name] = false
		}
	}
	return fresh
}
