package main

import (
	"fmt"
	"go/ast"
	"go/token"
	"os"
	"path/filepath"
	"sort"
	"strings"
)

func init() { extraGens = append(extraGens, extraGen{"Sites", genSites}) }

// evaluator packages: everything Evaluate can reach (not patch, which is the one mutating API)
var evaluatorDirs = []string{"fhirpath", "fhirpath/internal/expr", "fhirpath/internal/funcs", "fhirpath/internal/funcs/impl",
	"fhirpath/system", "fhirpath/internal/reflection", "fhirpath/evalopts", "fhirpath/internal/opts"}

// genSites: inventories that the C03/C04 theorems are decided over:
//  * every append(x, …) with the provenance of x inside its function: "fresh" when x is a local
//    variable whose every definition in that function is a composite literal / make / nil var
//    declaration / an append to itself; otherwise the syntactic class of its origin;
//  * every method called on protoreflect/proto values (by method name), per package;
//  * every call into the wall clock / process time zone.
func genSites() error {
	type site struct{ pkg, fn, target, prov, pos string }
	var appends []site
	protoCalls := map[string]map[string]bool{}
	var clock []site
	var writes []site
	for _, dir := range evaluatorDirs {
		ents, err := os.ReadDir(filepath.Join(repo, dir))
		if err != nil {
			return err
		}
		for _, e := range ents {
			if !strings.HasSuffix(e.Name(), ".go") || strings.HasSuffix(e.Name(), "_test.go") {
				continue
			}
			fset, f, err := parseFile(dir + "/" + e.Name())
			if err != nil {
				return err
			}
			for _, d := range f.Decls {
				fd, ok := d.(*ast.FuncDecl)
				if !ok || fd.Body == nil {
					continue
				}
				fresh := freshLocals(fd)
				roots := rootClasses(fd)
				ast.Inspect(fd.Body, func(n ast.Node) bool {
					as, ok := n.(*ast.AssignStmt)
					if !ok {
						return true
					}
					for _, l := range as.Lhs {
						switch l.(type) {
						case *ast.SelectorExpr, *ast.IndexExpr, *ast.StarExpr:
							root := rootIdent(l)
							cls, known := roots[root]
							if !known {
								cls = "package-variable-or-unknown"
							}
							if cls == "local" && fresh[root] {
								cls = "local-fresh" // every definition of the local creates a new backing store
							}
							writes = append(writes, site{dir, fd.Name.Name, exprText(l), cls, fmt.Sprintf("%s:%d", e.Name(), fset.Position(as.Pos()).Line)})
						}
					}
					return true
				})
				// outermost method applied to each time.Now() call chain (time.Now().Local().UTC() -> UTC)
				chainEnd := map[*ast.CallExpr]string{}
				ast.Inspect(fd.Body, func(n ast.Node) bool {
					c, ok := n.(*ast.CallExpr)
					if !ok {
						return true
					}
					inner := c
					for {
						s, ok := inner.Fun.(*ast.SelectorExpr)
						if !ok {
							break
						}
						x, ok := s.X.(*ast.CallExpr)
						if !ok {
							break
						}
						inner = x
					}
					if inner != c && selName(inner.Fun) == "time.Now" {
						if _, seen := chainEnd[inner]; !seen {
							chainEnd[inner] = c.Fun.(*ast.SelectorExpr).Sel.Name
						}
					}
					return true
				})
				ast.Inspect(fd.Body, func(n ast.Node) bool {
					c, ok := n.(*ast.CallExpr)
					if !ok {
						return true
					}
					name := selName(c.Fun)
					if name == "append" && len(c.Args) > 0 {
						tgt := exprText(c.Args[0])
						prov := "other"
						if id, ok := c.Args[0].(*ast.Ident); ok {
							if fresh[id.Name] {
								prov = "fresh"
							} else {
								prov = "not-fresh-local-or-param"
							}
						} else if cl, ok := c.Args[0].(*ast.CompositeLit); ok && len(cl.Elts) >= 0 {
							prov = "fresh"
						}
						appends = append(appends, site{dir, fd.Name.Name, tgt, prov, fmt.Sprintf("%s:%d", e.Name(), fset.Position(c.Pos()).Line)})
					}
					if s, ok := c.Fun.(*ast.SelectorExpr); ok {
						switch s.Sel.Name {
						case "Set", "Clear", "Mutable", "NewField", "Append", "Truncate", "AppendMutable", "SetUnknown", "Reset", "Merge", "ClearOneof",
							"Get", "Has", "WhichOneof", "Range", "List", "Len", "Descriptor", "Interface", "Message", "IsValid", "ProtoReflect", "Fields", "Oneofs", "ByName",
							"Kind", "IsList", "Enum", "String", "Name", "FullName", "Values", "ByNumber", "New", "Type", "UnmarshalTo", "Map", "Bool", "Int", "Bytes":
							if protoCalls[dir] == nil {
								protoCalls[dir] = map[string]bool{}
							}
							protoCalls[dir][s.Sel.Name] = true
						}
						if name == "time.Now" || name == "time.LoadLocation" || strings.HasSuffix(name, ".Local") && strings.HasPrefix(name, "time.") {
							tgt := name
							if name == "time.Now" {
								end := chainEnd[c]
								if end == "" {
									end = "as-is"
								}
								tgt = name + " -> " + end
							}
							clock = append(clock, site{dir, fd.Name.Name, tgt, "", fmt.Sprintf("%s:%d", e.Name(), fset.Position(c.Pos()).Line)})
						}
					}
					return true
				})
			}
		}
	}
	if len(appends) == 0 {
		return fmt.Errorf("no append sites found")
	}
	var b strings.Builder
	b.WriteString(header("Sites", strings.Join(evaluatorDirs, ", ")))
	b.WriteString("structure AppendSite where\n  pkg : String\n  fn : String\n  target : String\n  prov : String\n  pos : String\nderiving DecidableEq, Repr\n\n")
	b.WriteString("def appends : List AppendSite := [\n")
	for i, s := range appends {
		sep := ","
		if i == len(appends)-1 {
			sep = ""
		}
		b.WriteString(fmt.Sprintf("  ⟨%s, %s, %s, %s, %s⟩%s\n", leanStr(s.pkg), leanStr(s.fn), leanStr(s.target), leanStr(s.prov), leanStr(s.pos), sep))
	}
	b.WriteString("]\n\n")
	b.WriteString("/-- method names called on values in each evaluator package (protoreflect API surface and look-alikes) -/\ndef methodCalls : List (String × List String) := [\n")
	pk := []string{}
	for k := range protoCalls {
		pk = append(pk, k)
	}
	sort.Strings(pk)
	for i, k := range pk {
		ms := []string{}
		for m := range protoCalls[k] {
			ms = append(ms, leanStr(m))
		}
		sort.Strings(ms)
		sep := ","
		if i == len(pk)-1 {
			sep = ""
		}
		b.WriteString(fmt.Sprintf("  (%s, [%s])%s\n", leanStr(k), strings.Join(ms, ", "), sep))
	}
	b.WriteString("]\n\n")
	b.WriteString("/-- assignments through a selector, index or pointer, with the class of the root identifier:\n    local (declared in the function), param:<name>, receiver -/\ndef writes : List AppendSite := [\n")
	for i, s := range writes {
		sep := ","
		if i == len(writes)-1 {
			sep = ""
		}
		b.WriteString(fmt.Sprintf("  ⟨%s, %s, %s, %s, %s⟩%s\n", leanStr(s.pkg), leanStr(s.fn), leanStr(s.target), leanStr(s.prov), leanStr(s.pos), sep))
	}
	b.WriteString("]\n\n")
	// shape of funcs.Clone: a new map filled from baseTable
	cs, err := cloneShape()
	if err != nil {
		return err
	}
	b.WriteString(fmt.Sprintf("/-- `funcs.Clone` allocates a new table and copies the base entries into it (shape read from table.go) -/\ndef cloneCopies : Bool := %v\n\n", cs))
	b.WriteString("def clockCalls : List (String × String × String) := [\n")
	for i, s := range clock {
		sep := ","
		if i == len(clock)-1 {
			sep = ""
		}
		b.WriteString(fmt.Sprintf("  (%s, %s, %s)%s\n", leanStr(s.pkg), leanStr(s.fn), leanStr(s.target), sep))
	}
	b.WriteString("]\n\nend FP.Gen.Sites\n")
	emit("Sites", b.String())
	return nil
}

func exprText(e ast.Expr) string {
	switch x := e.(type) {
	case *ast.Ident:
		return x.Name
	case *ast.SelectorExpr:
		return exprText(x.X) + "." + x.Sel.Name
	case *ast.CompositeLit:
		return selName(x.Type) + "{…}"
	case *ast.CallExpr:
		return exprText(x.Fun) + "(…)"
	case *ast.IndexExpr:
		return exprText(x.X) + "[…]"
	case *ast.SliceExpr:
		return exprText(x.X) + "[:]"
	}
	return "?"
}

// freshLocals: local variables all of whose definitions in the function create a new backing
// array (composite literal, make, `var x T` / nil) or append to the variable itself.
func freshLocals(fd *ast.FuncDecl) map[string]bool {
	defs := map[string][]ast.Expr{}
	declared := map[string]bool{}
	params := map[string]bool{}
	if fd.Recv != nil {
		for _, f := range fd.Recv.List {
			for _, n := range f.Names {
				params[n.Name] = true
			}
		}
	}
	for _, f := range fd.Type.Params.List {
		for _, n := range f.Names {
			params[n.Name] = true
		}
	}
	if fd.Type.Results != nil {
		for _, f := range fd.Type.Results.List {
			for _, n := range f.Names {
				declared[n.Name] = true // named results start nil
			}
		}
	}
	ast.Inspect(fd.Body, func(n ast.Node) bool {
		switch x := n.(type) {
		case *ast.AssignStmt:
			if len(x.Lhs) == len(x.Rhs) {
				for i, l := range x.Lhs {
					if id, ok := l.(*ast.Ident); ok {
						defs[id.Name] = append(defs[id.Name], x.Rhs[i])
					}
				}
			} else {
				for _, l := range x.Lhs {
					if id, ok := l.(*ast.Ident); ok {
						defs[id.Name] = append(defs[id.Name], &ast.Ident{Name: "<multi>"})
					}
				}
			}
		case *ast.DeclStmt:
			if gd, ok := x.Decl.(*ast.GenDecl); ok && gd.Tok == token.VAR {
				for _, s := range gd.Specs {
					vs := s.(*ast.ValueSpec)
					for i, n := range vs.Names {
						if i < len(vs.Values) {
							defs[n.Name] = append(defs[n.Name], vs.Values[i])
						} else {
							declared[n.Name] = true
						}
					}
				}
			}
		case *ast.RangeStmt:
			for _, e := range []ast.Expr{x.Key, x.Value} {
				if id, ok := e.(*ast.Ident); ok {
					defs[id.Name] = append(defs[id.Name], &ast.Ident{Name: "<range>"})
				}
			}
		}
		return true
	})
	fresh := map[string]bool{}
	for name := range declared {
		if !params[name] {
			fresh[name] = true
		}
	}
	for name, ds := range defs {
		if params[name] {
			fresh[name] = false
			continue
		}
		ok := true
		for _, d := range ds {
			switch y := d.(type) {
			case *ast.CompositeLit:
			case *ast.CallExpr:
				n := selName(y.Fun)
				if n == "make" {
					continue
				}
				if n == "append" && len(y.Args) > 0 {
					if id, isId := y.Args[0].(*ast.Ident); isId && id.Name == name {
						continue
					}
					if _, isLit := y.Args[0].(*ast.CompositeLit); isLit {
						continue
					}
				}
				ok = false
			case *ast.Ident:
				if y.Name != "nil" {
					ok = false
				}
			default:
				ok = false
			}
		}
		if ok {
			fresh[name] = true
		} else {
			fresh[name] = false
		}
	}
	return fresh
}


func rootIdent(e ast.Expr) string {
	switch x := e.(type) {
	case *ast.Ident:
		return x.Name
	case *ast.SelectorExpr:
		return rootIdent(x.X)
	case *ast.IndexExpr:
		return rootIdent(x.X)
	case *ast.StarExpr:
		return rootIdent(x.X)
	case *ast.ParenExpr:
		return rootIdent(x.X)
	case *ast.CallExpr:
		return rootIdent(x.Fun)
	}
	return "?"
}

// rootClasses: identifiers declared in the function (locals), its parameters and receiver.
func rootClasses(fd *ast.FuncDecl) map[string]string {
	out := map[string]string{}
	if fd.Recv != nil {
		for _, f := range fd.Recv.List {
			for _, n := range f.Names {
				out[n.Name] = "receiver"
			}
		}
	}
	for _, f := range fd.Type.Params.List {
		for _, n := range f.Names {
			out[n.Name] = "param:" + n.Name
		}
	}
	ast.Inspect(fd.Body, func(n ast.Node) bool {
		switch x := n.(type) {
		case *ast.AssignStmt:
			if x.Tok == token.DEFINE {
				for _, l := range x.Lhs {
					if id, ok := l.(*ast.Ident); ok {
						if _, have := out[id.Name]; !have {
							out[id.Name] = "local"
						}
					}
				}
			}
		case *ast.DeclStmt:
			if gd, ok := x.Decl.(*ast.GenDecl); ok && gd.Tok == token.VAR {
				for _, s := range gd.Specs {
					for _, n := range s.(*ast.ValueSpec).Names {
						out[n.Name] = "local"
					}
				}
			}
		case *ast.RangeStmt:
			for _, e := range []ast.Expr{x.Key, x.Value} {
				if id, ok := e.(*ast.Ident); ok && x.Tok == token.DEFINE {
					out[id.Name] = "local"
				}
			}
		case *ast.FuncLit:
			for _, f := range x.Type.Params.List {
				for _, n := range f.Names {
					out[n.Name] = "param:" + n.Name
				}
			}
		}
		return true
	})
	return out
}

// cloneShape: funcs.Clone must be `table := make(FunctionTable); for k, v := range baseTable { table[k] = v }; return table`.
func cloneShape() (bool, error) {
	_, f, err := parseFile("fhirpath/internal/funcs/table.go")
	if err != nil {
		return false, err
	}
	fd := findFunc(f, "", "Clone")
	if fd == nil {
		return false, fmt.Errorf("funcs.Clone not found")
	}
	madeNew, copied, returned := "", false, false
	for _, st := range fd.Body.List {
		switch x := st.(type) {
		case *ast.AssignStmt:
			if len(x.Rhs) == 1 {
				if c, ok := x.Rhs[0].(*ast.CallExpr); ok && selName(c.Fun) == "make" {
					madeNew = x.Lhs[0].(*ast.Ident).Name
				}
				if cl, ok := x.Rhs[0].(*ast.CompositeLit); ok && len(cl.Elts) == 0 {
					madeNew = x.Lhs[0].(*ast.Ident).Name
				}
			}
		case *ast.RangeStmt:
			if selName(x.X) == "baseTable" && len(x.Body.List) == 1 {
				if as, ok := x.Body.List[0].(*ast.AssignStmt); ok && len(as.Lhs) == 1 {
					if ie, ok := as.Lhs[0].(*ast.IndexExpr); ok && selName(ie.X) == madeNew && madeNew != "" {
						copied = true
					}
				}
			}
		case *ast.ReturnStmt:
			if len(x.Results) == 1 && selName(x.Results[0]) == madeNew && madeNew != "" {
				returned = true
			}
		}
	}
	return madeNew != "" && copied && returned, nil
}
