package main

// A small translator from straight-line Go (the fragment used by booleans.go,
// primitives.go, narrow.go, type_specifier.go, ...) to Lean 4 terms over FP.Go.
//
// Every Go expression becomes either a *pure* Lean term of the corresponding type or a
// term of type `G τ` (= Option τ) when it can trap (indexing, integer division).
// Statement lists become one Lean term of type `G R` (R = result type), translated in
// continuation style so that `if c { ...; return }` followed by more statements nests
// the remainder in the `else` branch.  Anything outside the fragment is a hard error
// (the extractor reports gen-failure, it never guesses).

import (
	"fmt"
	"go/ast"
	"go/token"
	"strconv"
	"strings"
)

type ty int

const (
	tUnknown ty = iota
	tInt32
	tInt64
	tUint64
	tInt // Go int / untyped integer constant
	tBool
	tString
	tBoolList
	tSpec // reflection.TypeSpecifier
)

type val struct {
	s    string // Lean text
	t    ty
	pure bool // true: s : τ ; false: s : G τ
}

type trErr struct {
	pos token.Pos
	msg string
}

func (e *trErr) Error() string { return e.msg }

type translator struct {
	fset    *token.FileSet
	env     map[string]ty
	consts  map[string]string // Go const ident -> Lean literal (strings/ints of the package)
	calls   map[string]string // Go callee (as written, e.g. "strcase.ToLowerCamel") -> Lean function
	callTy  map[string]ty     // result type of those callees
	resultT string            // Lean result type text (for documentation only)
	errRet  bool              // function returns (T, error)
	int32Ty map[string]bool   // Go type names that are int32-like (Integer, int32)
}

func (t *translator) fail(n ast.Node, f string, a ...any) {
	panic(&trErr{n.Pos(), fmt.Sprintf("%s: %s", t.fset.Position(n.Pos()), fmt.Sprintf(f, a...))})
}

func (t *translator) goType(e ast.Expr) ty {
	switch x := e.(type) {
	case *ast.Ident:
		switch x.Name {
		case "int32", "Integer":
			return tInt32
		case "int64":
			return tInt64
		case "uint64":
			return tUint64
		case "int":
			return tInt
		case "bool", "Boolean":
			return tBool
		case "string":
			return tString
		case "TypeSpecifier":
			return tSpec
		}
	case *ast.SelectorExpr:
		return t.goType(x.Sel)
	case *ast.ArrayType:
		if x.Len == nil && t.goType(x.Elt) == tBool {
			return tBoolList
		}
	}
	return tUnknown
}

var leanKeywords = map[string]bool{"namespace": true, "end": true, "open": true, "from": true, "at": true, "do": true, "then": true,
	"fun": true, "have": true, "show": true, "match": true, "with": true, "in": true, "section": true, "variable": true, "theorem": true,
	"def": true, "instance": true, "structure": true, "class": true, "where": true, "deriving": true, "import": true, "universe": true,
	"mutual": true, "private": true, "protected": true, "local": true, "prefix": true, "infix": true, "notation": true, "macro": true,
	"syntax": true, "let": true, "if": true, "else": true, "by": true, "calc": true, "export": true, "abbrev": true, "axiom": true,
	"example": true, "inductive": true, "set_option": true, "attribute": true, "to": false}

// li renders a Go identifier as a Lean identifier (keywords get a trailing underscore).
func li(name string) string {
	if leanKeywords[name] {
		return name + "_"
	}
	return name
}

func leanTy(t ty) string {
	switch t {
	case tInt32, tInt64, tUint64, tInt:
		return "Int"
	case tBool:
		return "Bool"
	case tString:
		return "String"
	case tBoolList:
		return "List Bool"
	case tSpec:
		return "TypeSpecifier"
	}
	return "?"
}

func isIntTy(t ty) bool { return t == tInt32 || t == tInt64 || t == tUint64 || t == tInt }

func wrapFor(t ty, s string) string {
	switch t {
	case tInt32:
		return "(wrap32 (" + s + "))"
	case tInt64:
		return "(wrap64 (" + s + "))"
	case tUint64:
		return "(wrapU64 (" + s + "))"
	}
	return "(" + s + ")"
}

func asG(v val) string {
	if v.pure {
		return "(some " + v.s + ")"
	}
	return v.s
}

// bind2 sequences two possibly-impure operands left to right.
func bind2(a, b val, f func(x, y string) string, rt ty) val {
	if a.pure && b.pure {
		return val{f(a.s, b.s), rt, true}
	}
	return val{fmt.Sprintf("((%s).bind fun _a => (%s).bind fun _b => some %s)", asG(a), asG(b), f("_a", "_b")), rt, false}
}

func bind1(a val, f func(x string) string, rt ty) val {
	if a.pure {
		return val{f(a.s), rt, true}
	}
	return val{fmt.Sprintf("((%s).bind fun _a => some %s)", a.s, f("_a")), rt, false}
}

var mathConsts = map[string]string{
	"math.MaxUint8": "255", "math.MaxUint16": "65535", "math.MaxUint32": "4294967295",
	"math.MaxUint64": "18446744073709551615", "math.MaxUint": "18446744073709551615",
	"math.MaxInt8": "127", "math.MinInt8": "(-128)", "math.MaxInt16": "32767", "math.MinInt16": "(-32768)",
	"math.MaxInt32": "2147483647", "math.MinInt32": "(-2147483648)",
	"math.MaxInt64": "9223372036854775807", "math.MinInt64": "(-9223372036854775808)",
	"math.MaxInt": "9223372036854775807", "math.MinInt": "(-9223372036854775808)",
}

func selName(e ast.Expr) string {
	switch x := e.(type) {
	case *ast.Ident:
		return x.Name
	case *ast.SelectorExpr:
		return selName(x.X) + "." + x.Sel.Name
	}
	return ""
}

func unify(a, b ty) ty {
	if a == tInt {
		return b
	}
	return a
}

func (t *translator) expr(e ast.Expr) val {
	switch x := e.(type) {
	case *ast.ParenExpr:
		return t.expr(x.X)
	case *ast.BasicLit:
		switch x.Kind {
		case token.INT:
			return val{"(" + x.Value + " : Int)", tInt, true}
		case token.STRING:
			s, err := strconv.Unquote(x.Value)
			if err != nil {
				t.fail(x, "bad string literal")
			}
			return val{leanStr(s), tString, true}
		}
		t.fail(x, "unsupported literal %s", x.Value)
	case *ast.Ident:
		switch x.Name {
		case "true", "false":
			return val{x.Name, tBool, true}
		}
		if ty, ok := t.env[x.Name]; ok {
			return val{li(x.Name), ty, true}
		}
		if c, ok := t.consts[x.Name]; ok {
			if strings.HasPrefix(c, "\"") {
				return val{c, tString, true}
			}
			return val{c, tInt, true}
		}
		t.fail(x, "unknown identifier %s", x.Name)
	case *ast.SelectorExpr:
		name := selName(x)
		if c, ok := mathConsts[name]; ok {
			return val{"(" + c + " : Int)", tInt, true}
		}
		if id, ok := x.X.(*ast.Ident); ok {
			if t.env[id.Name] == tSpec {
				fld := x.Sel.Name
				if fld == "namespace" {
					fld = "ns"
				}
				return val{"(" + li(id.Name) + "." + fld + ")", tString, true}
			}
		}
		if c, ok := t.consts[name]; ok {
			return val{c, tString, true}
		}
		t.fail(x, "unsupported selector %s", name)
	case *ast.UnaryExpr:
		a := t.expr(x.X)
		switch x.Op {
		case token.NOT:
			return bind1(a, func(s string) string { return "(!" + s + ")" }, tBool)
		case token.SUB:
			return bind1(a, func(s string) string { return wrapFor(a.t, "-"+s) }, a.t)
		}
		t.fail(x, "unsupported unary %s", x.Op)
	case *ast.BinaryExpr:
		if x.Op == token.LAND || x.Op == token.LOR {
			a, b := t.expr(x.X), t.expr(x.Y)
			op, g := "&&", "gand"
			if x.Op == token.LOR {
				op, g = "||", "gor"
			}
			if a.pure && b.pure {
				return val{"(" + a.s + " " + op + " " + b.s + ")", tBool, true}
			}
			return val{"(" + g + " " + asG(a) + " " + asG(b) + ")", tBool, false}
		}
		a, b := t.expr(x.X), t.expr(x.Y)
		ot := unify(a.t, b.t)
		switch x.Op {
		case token.ADD, token.SUB, token.MUL:
			if ot == tString && x.Op == token.ADD {
				return bind2(a, b, func(p, q string) string { return "(" + p + " ++ " + q + ")" }, tString)
			}
			if !isIntTy(ot) {
				t.fail(x, "arithmetic on non-integer")
			}
			return bind2(a, b, func(p, q string) string { return wrapFor(ot, p+" "+x.Op.String()+" "+q) }, ot)
		case token.QUO, token.REM:
			if ot != tInt32 {
				t.fail(x, "division only modelled for int32")
			}
			fn := "gdiv32"
			if x.Op == token.REM {
				fn = "gmod32"
			}
			if a.pure && b.pure {
				return val{"(" + fn + " " + a.s + " " + b.s + ")", ot, false}
			}
			return val{fmt.Sprintf("((%s).bind fun _a => (%s).bind fun _b => %s _a _b)", asG(a), asG(b), fn), ot, false}
		case token.LSS, token.GTR, token.LEQ, token.GEQ:
			lop := map[token.Token]string{token.LSS: "<", token.GTR: ">", token.LEQ: "≤", token.GEQ: "≥"}[x.Op]
			if ot == tString {
				t.fail(x, "string ordering not modelled")
			}
			return bind2(a, b, func(p, q string) string { return "(decide (" + p + " " + lop + " " + q + "))" }, tBool)
		case token.EQL, token.NEQ:
			neg := x.Op == token.NEQ
			return bind2(a, b, func(p, q string) string {
				var s string
				if ot == tBool {
					s = "(" + p + " == " + q + ")"
				} else {
					s = "(decide (" + p + " = " + q + "))"
				}
				if neg {
					s = "(!" + s + ")"
				}
				return s
			}, tBool)
		}
		t.fail(x, "unsupported binary %s", x.Op)
	case *ast.IndexExpr:
		a, i := t.expr(x.X), t.expr(x.Index)
		if a.t != tBoolList || !a.pure || !i.pure {
			t.fail(x, "unsupported index expression")
		}
		return val{"(gidx " + a.s + " " + i.s + ")", tBool, false}
	case *ast.CallExpr:
		name := selName(x.Fun)
		switch name {
		case "len":
			a := t.expr(x.Args[0])
			return bind1(a, func(s string) string { return "(" + s + ".length : Int)" }, tInt)
		case "system.Boolean", "Boolean", "bool":
			return t.expr(x.Args[0])
		case "int32", "Integer", "system.Integer":
			a := t.expr(x.Args[0])
			return bind1(a, func(s string) string { return wrapFor(tInt32, s) }, tInt32)
		case "int64":
			a := t.expr(x.Args[0])
			return bind1(a, func(s string) string { return wrapFor(tInt64, s) }, tInt64)
		case "uint64", "uintptr":
			a := t.expr(x.Args[0])
			return bind1(a, func(s string) string { return wrapFor(tUint64, s) }, tUint64)
		}
		if lf, ok := t.calls[name]; ok {
			args := []string{}
			for _, a := range x.Args {
				v := t.expr(a)
				if !v.pure {
					t.fail(x, "impure argument to %s", name)
				}
				args = append(args, v.s)
			}
			return val{"(" + lf + " " + strings.Join(args, " ") + ")", t.callTy[name], true}
		}
		t.fail(x, "unsupported call %s", name)
	case *ast.CompositeLit:
		tn := selName(x.Type)
		switch tn {
		case "system.Collection", "Collection":
			elts := []val{}
			allPure := true
			for _, el := range x.Elts {
				v := t.expr(el)
				elts = append(elts, v)
				allPure = allPure && v.pure
			}
			if len(elts) == 0 {
				return val{"([] : List Bool)", tBoolList, true}
			}
			if len(elts) == 1 {
				return bind1(elts[0], func(s string) string { return "[" + s + "]" }, tBoolList)
			}
			t.fail(x, "collection literal with >1 element")
		case "TypeSpecifier":
			var ns, tn val
			if len(x.Elts) != 2 {
				t.fail(x, "TypeSpecifier literal needs 2 fields")
			}
			if kv, ok := x.Elts[0].(*ast.KeyValueExpr); ok {
				for _, el := range x.Elts {
					kv = el.(*ast.KeyValueExpr)
					switch kv.Key.(*ast.Ident).Name {
					case "namespace":
						ns = t.expr(kv.Value)
					case "typeName":
						tn = t.expr(kv.Value)
					}
				}
			} else {
				ns, tn = t.expr(x.Elts[0]), t.expr(x.Elts[1])
			}
			return val{"({ ns := " + ns.s + ", typeName := " + tn.s + " } : TypeSpecifier)", tSpec, true}
		}
		t.fail(x, "unsupported composite literal %s", tn)
	}
	t.fail(e, "unsupported expression %T", e)
	return val{}
}

func leanStr(s string) string {
	var b strings.Builder
	b.WriteByte('"')
	for _, r := range s {
		switch {
		case r == '"':
			b.WriteString("\\\"")
		case r == '\\':
			b.WriteString("\\\\")
		case r == '\n':
			b.WriteString("\\n")
		case r == '\r':
			b.WriteString("\\r")
		case r == '\t':
			b.WriteString("\\t")
		case r < 0x20 || r == 0x7f:
			fmt.Fprintf(&b, "\\x%02x", r)
		default:
			b.WriteRune(r)
		}
	}
	b.WriteByte('"')
	return b.String()
}

// ret translates the operands of a return statement.
func (t *translator) ret(r *ast.ReturnStmt) string {
	if !t.errRet {
		if len(r.Results) != 1 {
			t.fail(r, "expected single result")
		}
		return asG(t.expr(r.Results[0]))
	}
	if len(r.Results) != 2 {
		t.fail(r, "expected (value, error)")
	}
	if id, ok := r.Results[1].(*ast.Ident); ok && id.Name == "nil" {
		v := t.expr(r.Results[0])
		if v.pure {
			return "(some (Except.ok " + v.s + "))"
		}
		return "((" + v.s + ").bind fun _r => some (Except.ok _r))"
	}
	return "(some (Except.error " + leanStr(errName(r.Results[1])) + "))"
}

// errName names the sentinel a Go error expression wraps (identifier, or the first
// identifier argument of fmt.Errorf).
func errName(e ast.Expr) string {
	switch x := e.(type) {
	case *ast.Ident:
		return x.Name
	case *ast.SelectorExpr:
		return x.Sel.Name
	case *ast.CallExpr:
		for _, a := range x.Args[1:] {
			if n := errName(a); strings.HasPrefix(n, "Err") || strings.HasPrefix(n, "err") {
				return n
			}
		}
		return "error"
	}
	return "error"
}

func terminates(stmts []ast.Stmt) bool {
	if len(stmts) == 0 {
		return false
	}
	switch s := stmts[len(stmts)-1].(type) {
	case *ast.ReturnStmt:
		return true
	case *ast.IfStmt:
		if s.Else == nil {
			return false
		}
		eb, ok := s.Else.(*ast.BlockStmt)
		return ok && terminates(s.Body.List) && terminates(eb.List)
	}
	return false
}

// stmts translates a statement list followed by continuation k ("" = none; falling off
// the end without k is an error).
func (t *translator) stmts(list []ast.Stmt, k string, ind string) string {
	if len(list) == 0 {
		if k == "" {
			panic(&trErr{0, "function may fall off its end"})
		}
		return k
	}
	rest := func() string { return t.stmts(list[1:], k, ind) }
	switch s := list[0].(type) {
	case *ast.ReturnStmt:
		return t.ret(s)
	case *ast.AssignStmt:
		if len(s.Lhs) != 1 || len(s.Rhs) != 1 || (s.Tok != token.DEFINE && s.Tok != token.ASSIGN) {
			t.fail(s, "unsupported assignment")
		}
		name := s.Lhs[0].(*ast.Ident).Name
		v := t.expr(s.Rhs[0])
		t.env[name] = v.t
		if v.pure {
			return "(let " + li(name) + " : " + leanTy(v.t) + " := " + v.s + ";\n" + ind + rest() + ")"
		}
		return "((" + v.s + ").bind fun " + li(name) + " =>\n" + ind + rest() + ")"
	case *ast.DeclStmt:
		// `var v To` in narrow.go: ignored (only used by the type switch)
		return rest()
	case *ast.IfStmt:
		if s.Init != nil {
			t.fail(s, "if with init not supported")
		}
		c := t.expr(s.Cond)
		var thenK, elseS string
		if terminates(s.Body.List) {
			thenK = ""
		} else {
			thenK = rest()
		}
		a := t.stmts(s.Body.List, thenK, ind+"  ")
		if s.Else != nil {
			eb, ok := s.Else.(*ast.BlockStmt)
			if !ok {
				eb = &ast.BlockStmt{List: []ast.Stmt{s.Else}}
			}
			ek := ""
			if !terminates(eb.List) {
				ek = rest()
			}
			elseS = t.stmts(eb.List, ek, ind+"  ")
		} else {
			elseS = rest()
		}
		if c.pure {
			return "(if " + c.s + " then\n" + ind + "  " + a + "\n" + ind + "else\n" + ind + "  " + elseS + ")"
		}
		return "((" + c.s + ").bind fun _c => if _c then\n" + ind + "  " + a + "\n" + ind + "else\n" + ind + "  " + elseS + ")"
	case *ast.SwitchStmt:
		if s.Init != nil || s.Tag == nil {
			t.fail(s, "unsupported switch form")
		}
		tag := t.expr(s.Tag)
		if !tag.pure {
			t.fail(s, "impure switch tag")
		}
		return t.cases(s.Body.List, func(e ast.Expr) string {
			v := t.expr(e)
			return "(decide (" + tag.s + " = " + v.s + "))"
		}, rest, ind)
	case *ast.TypeSwitchStmt:
		// only the `switch any(v).(type)` over the generic parameter of narrow.go:
		// the static type becomes the string parameter `to`.
		return t.cases(s.Body.List, func(e ast.Expr) string {
			return "(decide (to = " + leanStr(selName(e)) + "))"
		}, rest, ind)
	}
	t.fail(list[0], "unsupported statement %T", list[0])
	return ""
}

func (t *translator) cases(clauses []ast.Stmt, test func(ast.Expr) string, rest func() string, ind string) string {
	var def *ast.CaseClause
	var out strings.Builder
	closers := 0
	for _, c := range clauses {
		cc := c.(*ast.CaseClause)
		if cc.List == nil {
			def = cc
			continue
		}
		conds := []string{}
		for _, e := range cc.List {
			conds = append(conds, test(e))
		}
		k := ""
		if !terminates(cc.Body) {
			k = rest()
		}
		body := t.stmts(cc.Body, k, ind+"  ")
		out.WriteString("(if " + strings.Join(conds, " || ") + " then\n" + ind + "  " + body + "\n" + ind + "else ")
		closers++
	}
	if def != nil {
		k := ""
		if !terminates(def.Body) {
			k = rest()
		}
		out.WriteString(t.stmts(def.Body, k, ind+"  "))
	} else {
		out.WriteString(rest())
	}
	out.WriteString(strings.Repeat(")", closers))
	return out.String()
}

// fn translates a whole function declaration into a Lean `def`.
// extraParams are prepended (e.g. "(to : String)" for generic functions).
func (t *translator) fn(fd *ast.FuncDecl, leanName string, extraParams string, resultLean string) (out string, err error) {
	defer func() {
		if r := recover(); r != nil {
			if te, ok := r.(*trErr); ok {
				err = te
				return
			}
			panic(r)
		}
	}()
	t.env = map[string]ty{}
	params := extraParams
	addParam := func(names []*ast.Ident, typ ast.Expr) {
		gt := t.goType(typ)
		if gt == tUnknown {
			t.fail(typ, "unsupported parameter type")
		}
		for _, n := range names {
			t.env[n.Name] = gt
			params += " (" + li(n.Name) + " : " + leanTy(gt) + ")"
		}
	}
	if fd.Recv != nil {
		for _, f := range fd.Recv.List {
			addParam(f.Names, f.Type)
		}
	}
	for _, f := range fd.Type.Params.List {
		addParam(f.Names, f.Type)
	}
	t.errRet = fd.Type.Results != nil && len(fd.Type.Results.List) == 2
	body := t.stmts(fd.Body.List, "", "  ")
	pos := t.fset.Position(fd.Pos())
	return fmt.Sprintf("/-- translated from %s:%d `%s` -/\ndef %s%s : G (%s) :=\n  %s\n", shortPath(pos.Filename), pos.Line, fd.Name.Name, leanName, params, resultLean, body), nil
}

func shortPath(p string) string {
	if i := strings.Index(p, "/repo/"); i >= 0 {
		return p[i+6:]
	}
	return p
}
