package main

import (
	"fmt"
	"go/ast"
	"go/token"
	"strconv"
	"strings"
)

func init() { extraGens = append(extraGens, extraGen{"Layouts", genLayouts}) }

// genLayouts: layout constants and the three layout->precision maps of system/layouts.go.
func genLayouts() error {
	src := "fhirpath/system/layouts.go"
	_, f, err := parseFile(src)
	if err != nil {
		return err
	}
	strs := map[string]string{} // const name -> string literal
	nums := map[string]int{}    // iota enumerators
	for _, d := range f.Decls {
		gd, ok := d.(*ast.GenDecl)
		if !ok || gd.Tok != token.CONST {
			continue
		}
		iotaBlock := false
		for i, s := range gd.Specs {
			vs := s.(*ast.ValueSpec)
			if len(vs.Values) == 1 {
				if id, ok := vs.Values[0].(*ast.Ident); ok && id.Name == "iota" {
					iotaBlock = true
				}
				if bl, ok := vs.Values[0].(*ast.BasicLit); ok && bl.Kind == token.STRING {
					v, _ := strconv.Unquote(bl.Value)
					strs[vs.Names[0].Name] = v
					continue
				}
			}
			if iotaBlock {
				for _, n := range vs.Names {
					nums[n.Name] = i
				}
			}
		}
	}
	var b strings.Builder
	b.WriteString(header("Layouts", src))
	for _, mname := range []string{"dateMap", "timeMap", "dateTimeMap"} {
		var cl *ast.CompositeLit
		for _, d := range f.Decls {
			gd, ok := d.(*ast.GenDecl)
			if !ok || gd.Tok != token.VAR {
				continue
			}
			for _, s := range gd.Specs {
				vs := s.(*ast.ValueSpec)
				if len(vs.Names) == 1 && vs.Names[0].Name == mname && len(vs.Values) == 1 {
					cl, _ = vs.Values[0].(*ast.CompositeLit)
				}
			}
		}
		if cl == nil {
			return fmt.Errorf("%s: map %s not found", src, mname)
		}
		b.WriteString("def " + mname + " : List (String × Nat) := [\n")
		for i, el := range cl.Elts {
			kv, ok := el.(*ast.KeyValueExpr)
			if !ok {
				return fmt.Errorf("%s: unkeyed element", mname)
			}
			k, v := selName(kv.Key), selName(kv.Value)
			ks, ok1 := strs[k]
			vn, ok2 := nums[v]
			if !ok1 || !ok2 {
				return fmt.Errorf("%s: cannot resolve %s -> %s", mname, k, v)
			}
			sep := ","
			if i == len(cl.Elts)-1 {
				sep = ""
			}
			b.WriteString(fmt.Sprintf("  (%s, %d)%s\n", leanStr(ks), vn, sep))
		}
		b.WriteString("]\n\n")
	}
	b.WriteString("def precOf (m : List (String × Nat)) (layout : String) : Option Nat := (m.find? (fun p => p.1 == layout)).map (·.2)\n\n")
	b.WriteString("end FP.Gen.Layouts\n")
	emit("Layouts", b.String())
	return nil
}
