package main

import (
	"fmt"
	"go/ast"
	"go/token"
	"strconv"
	"strings"
)

func init() { extraGens = append(extraGens, extraGen{"Layouts", genLayouts}) }

// genLayouts: layout constants and the three layout->precision maps of system/layouts.go.
func genLayouts() error {
	src := "fhirpath/system/layouts.go"
	_, f, err := parseFile(src)
	if err != nil {
		return err
	}
	strs := map[string]string{} // const name -> string literal
	nums := map[string]int{}    // iota enumerators
	for _, d := range f.Decls {
		gd, ok := d.(*ast.GenDecl)
		if !ok || gd.Tok != token.CONST {
			continue
		}
		iotaBlock := false
		for i, s := range gd.Specs {
			vs := s.(*ast.ValueSpec)
			if len(vs.Values) == 1 {
				if id, ok := vs.Values[0].(*ast.Ident); ok && id.Name == "iota" {
					iotaBlock = true
				}
				if bl, ok := vs.Values[0].(*ast.BasicLit); ok && bl.Kind == token.STRING {
					v, _ := strconv.Unquote(bl.Value)
					strs[vs.Names[0].Name] = v
					continue
				}
			}
			if iotaBlock {
				for _, n := range vs.Names {
					nums[n.Name] = i
				}
			}
		}
	}
	var b strings.Builder
	b.WriteString(header("Layouts", src))
	for _, mname := range []string{"dateMap", "timeMap", "dateTimeMap"} {
		var cl *ast.CompositeLit
		for _, d := range f.Decls {
			gd, ok := d.(*ast.GenDecl)
			if !ok || gd.Tok != token.VAR {
				continue
			}
			for _, s := range gd.Specs {
				vs := s.(*ast.ValueSpec)
				if len(vs.Names) == 1 && vs.Names[0].Name == mname && len(vs.Values) == 1 {
					cl, _ = vs.Values[0].(*ast.CompositeLit)
				}
			}
		}
		if cl == nil {
			return fmt.Errorf("%s: map %s not found", src, mname)
		}
		b.WriteString("def " + mname + " : List (String × Nat) := [\n")
		for i, el := range cl.Elts {
			kv, ok := el.(*ast.KeyValueExpr)
			if !ok {
				return fmt.Errorf("%s: unkeyed element", mname)
			}
			k, v := selName(kv.Key), selName(kv.Value)
			ks, ok1 := strs[k]
			vn, ok2 := nums[v]
			if !ok1 || !ok2 {
				return fmt.Errorf("%s: cannot resolve %s -> %s", mname, k, v)
			}
			sep := ","
			if i == len(cl.Elts)-1 {
				sep = ""
			}
			b.WriteString(fmt.Sprintf("  (%s, %d)%s\n", leanStr(ks), vn, sep))
		}
		b.WriteString("]\n\n")
	}
	// the layout lists the parsers try, in order (ParseDate / ParseDateTime / ParseTime)
	for _, pl := range []struct{ file, fn, v, out string }{
		{"fhirpath/system/date.go", "ParseDate", "dateLayouts", "parseDateLayouts"},
		{"fhirpath/system/date_time.go", "ParseDateTime", "dateTimeLayouts", "parseDateTimeLayouts"},
		{"fhirpath/system/time.go", "ParseTime", "timeLayouts", "parseTimeLayouts"},
	} {
		_, pf, err := parseFile(pl.file)
		if err != nil {
			return err
		}
		var names []string
		var prefix string
		found := false
		for _, d := range pf.Decls {
			fd, ok := d.(*ast.FuncDecl)
			if !ok || fd.Name.Name != pl.fn || fd.Body == nil {
				continue
			}
			ast.Inspect(fd.Body, func(n ast.Node) bool {
				switch x := n.(type) {
				case *ast.AssignStmt:
					if len(x.Lhs) == 1 && len(x.Rhs) == 1 {
						if id, ok := x.Lhs[0].(*ast.Ident); ok && id.Name == pl.v {
							if cl, ok := x.Rhs[0].(*ast.CompositeLit); ok {
								found = true
								for _, el := range cl.Elts {
									names = append(names, selName(el))
								}
							}
						}
					}
				case *ast.CallExpr:
					if selName(x.Fun) == "strings.TrimPrefix" && len(x.Args) == 2 {
						if bl, ok := x.Args[1].(*ast.BasicLit); ok {
							prefix, _ = strconv.Unquote(bl.Value)
						}
					}
				}
				return true
			})
		}
		if !found {
			return fmt.Errorf("%s: layout list %s not found in %s", pl.file, pl.v, pl.fn)
		}
		b.WriteString(fmt.Sprintf("/-- %s tries these layouts in this order, after trimming the prefix %q -/\ndef %s : List String := [", pl.fn, prefix, pl.out))
		for i, n := range names {
			v, ok := strs[n]
			if !ok {
				return fmt.Errorf("%s: cannot resolve layout constant %s", pl.fn, n)
			}
			if i > 0 {
				b.WriteString(", ")
			}
			b.WriteString(leanStr(v))
		}
		b.WriteString(fmt.Sprintf("]\ndef %sPrefix : String := %s\n\n", pl.out, leanStr(prefix)))
	}
	// Date.ToDateTime: date layout -> dateTime layout
	{
		_, pf, err := parseFile("fhirpath/system/date.go")
		if err != nil {
			return err
		}
		var pairs [][2]string
		for _, d := range pf.Decls {
			fd, ok := d.(*ast.FuncDecl)
			if !ok || fd.Name.Name != "ToDateTime" || fd.Body == nil {
				continue
			}
			ast.Inspect(fd.Body, func(n ast.Node) bool {
				if cl, ok := n.(*ast.CompositeLit); ok {
					if _, isMap := cl.Type.(*ast.MapType); isMap {
						for _, el := range cl.Elts {
							if kv, ok := el.(*ast.KeyValueExpr); ok {
								pairs = append(pairs, [2]string{strs[selName(kv.Key)], strs[selName(kv.Value)]})
							}
						}
					}
				}
				return true
			})
		}
		if len(pairs) == 0 {
			return fmt.Errorf("date.go: ToDateTime layout map not found")
		}
		b.WriteString("/-- Date.ToDateTime: the dateTime layout a date layout becomes -/\ndef dateToDateTime : List (String × String) := [")
		for i, pr := range pairs {
			if i > 0 {
				b.WriteString(", ")
			}
			b.WriteString(fmt.Sprintf("(%s, %s)", leanStr(pr[0]), leanStr(pr[1])))
		}
		b.WriteString("]\n\n")
	}
	b.WriteString("def precOf (m : List (String × Nat)) (layout : String) : Option Nat := (m.find? (fun p => p.1 == layout)).map (·.2)\n\n")
	b.WriteString("end FP.Gen.Layouts\n")
	emit("Layouts", b.String())
	return nil
}
