package main

import (
	"fmt"
	"go/ast"
	"go/token"
	"sort"
	"strings"
)

func init() { extraGens = append(extraGens, extraGen{"Visitor", genVisitor}) }

// genVisitor: the shape of parser/visitor.go that the assembled evaluator model (FP.Model.Eval.compile) mirrors —
// for every Visit* method of FHIRPathVisitor, in source order: which child is visited by the visitor itself
// ("self") and which by a clone ("clone"); whether the method writes the visitedRoot flag; whether it gives
// errNotSupported at once; and the field assignments of clone() itself.
func genVisitor() error {
	src := "fhirpath/internal/parser/visitor.go"
	fset, f, err := parseFile(src)
	if err != nil {
		return err
	}
	_ = fset
	type visit struct{ who, child string }
	type method struct {
		name       string
		visits     []visit
		writesRoot bool
		unsupported bool
	}
	var methods []method
	var cloneFields []string
	exprText := func(e ast.Expr) string {
		var b strings.Builder
		var w func(e ast.Expr)
		w = func(e ast.Expr) {
			switch x := e.(type) {
			case *ast.Ident:
				b.WriteString(x.Name)
			case *ast.SelectorExpr:
				w(x.X)
				b.WriteString("." + x.Sel.Name)
			case *ast.CallExpr:
				w(x.Fun)
				b.WriteString("(")
				for i, a := range x.Args {
					if i > 0 {
						b.WriteString(",")
					}
					w(a)
				}
				b.WriteString(")")
			case *ast.BasicLit:
				b.WriteString(x.Value)
			default:
				b.WriteString("?")
			}
		}
		w(e)
		return b.String()
	}
	for _, d := range f.Decls {
		fd, ok := d.(*ast.FuncDecl)
		if !ok || fd.Recv == nil || len(fd.Recv.List) != 1 || fd.Body == nil {
			continue
		}
		st, ok := fd.Recv.List[0].Type.(*ast.StarExpr)
		if !ok {
			continue
		}
		if id, ok := st.X.(*ast.Ident); !ok || id.Name != "FHIRPathVisitor" {
			continue
		}
		if fd.Name.Name == "clone" {
			ast.Inspect(fd.Body, func(n ast.Node) bool {
				if cl, ok := n.(*ast.CompositeLit); ok {
					for _, el := range cl.Elts {
						if kv, ok := el.(*ast.KeyValueExpr); ok {
							cloneFields = append(cloneFields, exprText(kv.Key)+"="+exprText(kv.Value))
						}
					}
				}
				return true
			})
			continue
		}
		if !strings.HasPrefix(fd.Name.Name, "Visit") || fd.Name.Name == "Visit" {
			continue
		}
		m := method{name: fd.Name.Name}
		// a method whose whole body is `return &VisitResult{nil, errNotSupported}`
		if len(fd.Body.List) == 1 {
			if rs, ok := fd.Body.List[0].(*ast.ReturnStmt); ok && len(rs.Results) == 1 && strings.Contains(exprTextAny(rs.Results[0]), "errNotSupported") {
				m.unsupported = true
			}
		}
		ast.Inspect(fd.Body, func(n ast.Node) bool {
			switch x := n.(type) {
			case *ast.AssignStmt:
				for _, l := range x.Lhs {
					if exprText(l) == "v.visitedRoot" {
						m.writesRoot = true
					}
				}
			case *ast.CallExpr:
				sel, ok := x.Fun.(*ast.SelectorExpr)
				if !ok || len(x.Args) != 1 {
					return true
				}
				recv := exprText(sel.X)
				switch {
				case sel.Sel.Name == "Visit" && recv == "v":
					m.visits = append(m.visits, visit{"self", exprText(x.Args[0])})
				case sel.Sel.Name == "Visit" && recv == "v.clone()":
					m.visits = append(m.visits, visit{"clone", exprText(x.Args[0])})
				case sel.Sel.Name == "Accept" && exprText(x.Args[0]) == "v":
					m.visits = append(m.visits, visit{"self", recv})
				case sel.Sel.Name == "Accept" && exprText(x.Args[0]) == "v.clone()":
					m.visits = append(m.visits, visit{"clone", recv})
				case sel.Sel.Name == "Visit" || sel.Sel.Name == "Accept":
					m.visits = append(m.visits, visit{"other:" + recv, exprText(x.Args[0])})
				}
			}
			return true
		})
		methods = append(methods, m)
	}
	if len(methods) == 0 || len(cloneFields) == 0 {
		return fmt.Errorf("no Visit methods or no clone() found in %s", src)
	}
	sort.SliceStable(methods, func(i, j int) bool { return methods[i].name < methods[j].name })
	var b strings.Builder
	b.WriteString(header("Visitor", src))
	b.WriteString("structure Method where\n  name : String\n  visits : List (String × String)\n  writesRoot : Bool\n  unsupported : Bool\nderiving DecidableEq, Repr\n\n")
	b.WriteString("/-- every Visit* method: (who visits, which child) in source order -/\ndef methods : List Method := [\n")
	for i, m := range methods {
		if i > 0 {
			b.WriteString(",\n")
		}
		var vs []string
		for _, v := range m.visits {
			vs = append(vs, fmt.Sprintf("(%s, %s)", leanStr(v.who), leanStr(v.child)))
		}
		fmt.Fprintf(&b, "  ⟨%s, [%s], %v, %v⟩", leanStr(m.name), strings.Join(vs, ", "), m.writesRoot, m.unsupported)
	}
	b.WriteString("\n]\n\n/-- the composite literal of clone(): field=value -/\ndef cloneFields : List String := [")
	for i, c := range cloneFields {
		if i > 0 {
			b.WriteString(", ")
		}
		b.WriteString(leanStr(c))
	}
	b.WriteString("]\n\nend FP.Gen.Visitor\n")
	emit("Visitor", b.String())
	return nil
}

func exprTextAny(e ast.Expr) string {
	var b strings.Builder
	ast.Inspect(e, func(n ast.Node) bool {
		if id, ok := n.(*ast.Ident); ok {
			b.WriteString(id.Name + " ")
		}
		return true
	})
	return b.String()
}

var _ = token.NoPos
