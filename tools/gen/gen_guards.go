package main

import (
	"fmt"
	"go/ast"
	"go/token"
	"os"
	"path/filepath"
	"sort"
	"strings"
)

func init() { extraGens = append(extraGens, extraGen{"ImplGuards", genImplGuards}) }

// genImplGuards: for every function of package impl with the FHIRPath signature
// (ctx, input system.Collection, args ...expr.Expression), decide syntactically whether an
// "input is empty → return empty collection, nil" return is reached before the first use of
// input[i], args[i] or .Evaluate( — i.e. whether empty input provably short-circuits.
func genImplGuards() error {
	dir := "fhirpath/internal/funcs/impl"
	ents, err := os.ReadDir(filepath.Join(repo, dir))
	if err != nil {
		return err
	}
	type row struct {
		name  string
		guard bool
		loop  bool // no guard, but input is only ranged over / passed on (loop-only)
	}
	var rows []row
	for _, e := range ents {
		if !strings.HasSuffix(e.Name(), ".go") || strings.HasSuffix(e.Name(), "_test.go") {
			continue
		}
		_, f, err := parseFile(dir + "/" + e.Name())
		if err != nil {
			return err
		}
		for _, d := range f.Decls {
			fd, ok := d.(*ast.FuncDecl)
			if !ok || fd.Recv != nil || fd.Type.Params == nil || len(fd.Type.Params.List) != 3 || !fd.Name.IsExported() {
				continue
			}
			if _, ok := fd.Type.Params.List[2].Type.(*ast.Ellipsis); !ok {
				continue
			}
			inputName := ""
			if len(fd.Type.Params.List[1].Names) == 1 {
				inputName = fd.Type.Params.List[1].Names[0].Name
			}
			g, l := guardBeforeUse(fd.Body, inputName)
			rows = append(rows, row{fd.Name.Name, g, l})
		}
	}
	if len(rows) == 0 {
		return fmt.Errorf("no implementation functions found in %s", dir)
	}
	sort.Slice(rows, func(i, j int) bool { return rows[i].name < rows[j].name })
	var b strings.Builder
	b.WriteString(header("ImplGuards", dir+"/*.go"))
	b.WriteString("/-- (implementation, empty-input guard precedes every use of input[i]/args[i]/Evaluate, input only ranged over) -/\n")
	b.WriteString("def guards : List (String × Bool × Bool) := [\n")
	for i, r := range rows {
		sep := ","
		if i == len(rows)-1 {
			sep = ""
		}
		b.WriteString(fmt.Sprintf("  (%s, %v, %v)%s\n", leanStr("impl."+r.name), r.guard, r.loop, sep))
	}
	b.WriteString("]\n\nend FP.Gen.ImplGuards\n")
	emit("ImplGuards", b.String())
	return nil
}

func isEmptyTest(e ast.Expr, input string, lenVars map[string]bool) bool {
	switch x := e.(type) {
	case *ast.ParenExpr:
		return isEmptyTest(x.X, input, lenVars)
	case *ast.CallExpr:
		if s, ok := x.Fun.(*ast.SelectorExpr); ok && s.Sel.Name == "IsEmpty" {
			if id, ok := s.X.(*ast.Ident); ok && id.Name == input {
				return true
			}
		}
	case *ast.BinaryExpr:
		if x.Op == token.EQL {
			if bl, ok := x.Y.(*ast.BasicLit); ok && bl.Value == "0" {
				if c, ok := x.X.(*ast.CallExpr); ok && selName(c.Fun) == "len" && len(c.Args) == 1 && selName(c.Args[0]) == input {
					return true
				}
				if id, ok := x.X.(*ast.Ident); ok && lenVars[id.Name] {
					return true
				}
			}
		}
	}
	return false
}

func returnsEmpty(b *ast.BlockStmt) bool {
	if len(b.List) != 1 {
		return false
	}
	r, ok := b.List[0].(*ast.ReturnStmt)
	if !ok || len(r.Results) != 2 || selName(r.Results[1]) != "nil" {
		return false
	}
	cl, ok := r.Results[0].(*ast.CompositeLit)
	return ok && len(cl.Elts) == 0 && strings.HasSuffix(selName(cl.Type), "Collection")
}

func usesInput(n ast.Node, input string) bool {
	found := false
	ast.Inspect(n, func(x ast.Node) bool {
		switch y := x.(type) {
		case *ast.IndexExpr:
			if nm := selName(y.X); nm == input || nm == "args" {
				found = true
			}
		case *ast.CallExpr:
			if s, ok := y.Fun.(*ast.SelectorExpr); ok && s.Sel.Name == "Evaluate" {
				found = true
			}
		}
		return !found
	})
	return found
}

// guardBeforeUse walks the top-level statements in order.
func guardBeforeUse(body *ast.BlockStmt, input string) (guard bool, loopOnly bool) {
	lenVars := map[string]bool{}
	for _, st := range body.List {
		if ifs, ok := st.(*ast.IfStmt); ok {
			if as, ok := ifs.Init.(*ast.AssignStmt); ok && len(as.Lhs) == 1 && len(as.Rhs) == 1 {
				if c, ok := as.Rhs[0].(*ast.CallExpr); ok && selName(c.Fun) == "len" && len(c.Args) == 1 && selName(c.Args[0]) == input {
					lenVars[as.Lhs[0].(*ast.Ident).Name] = true
				}
			}
			// walk the if / else-if chain
			var cur ast.Stmt = ifs
			for cur != nil {
				i, ok := cur.(*ast.IfStmt)
				if !ok {
					break
				}
				if usesInput(i.Cond, input) {
					return false, false
				}
				if isEmptyTest(i.Cond, input, lenVars) && returnsEmpty(i.Body) {
					return true, false
				}
				if usesInput(i.Body, input) {
					return false, false
				}
				cur = i.Else
			}
			continue
		}
		if usesInput(st, input) {
			// no guard so far: loop-only if the only input-dependent constructs are `range input`
			return false, onlyRanges(body, input)
		}
	}
	return false, onlyRanges(body, input)
}

// onlyRanges: input is never indexed; it is only ranged over, measured with len() or passed on.
func onlyRanges(body *ast.BlockStmt, input string) bool {
	ok := true
	ast.Inspect(body, func(x ast.Node) bool {
		if ie, is := x.(*ast.IndexExpr); is && selName(ie.X) == input {
			ok = false
		}
		if se, is := x.(*ast.SliceExpr); is && selName(se.X) == input {
			ok = false
		}
		return ok
	})
	return ok
}
