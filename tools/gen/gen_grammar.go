package main

import (
	"fmt"
	"os"
	"path/filepath"
	"regexp"
	"strings"
)

func init() { extraGens = append(extraGens, extraGen{"Grammar", genGrammar}) }

// genGrammar: the alternatives of the left-recursive `expression` rule of fhirpath.g4, in order
// (ANTLR gives earlier alternatives higher precedence), with their operator tokens.
func genGrammar() error {
	src := "fhirpath/internal/grammar/fhirpath.g4"
	data, err := os.ReadFile(filepath.Join(repo, src))
	if err != nil {
		return err
	}
	text := string(data)
	i := strings.Index(text, "\nexpression\n")
	if i < 0 {
		return fmt.Errorf("%s: rule `expression` not found", src)
	}
	rest := text[i+1:]
	j := strings.Index(rest, "\n        ;")
	if j < 0 {
		return fmt.Errorf("%s: end of rule `expression` not found", src)
	}
	body := rest[:j]
	lit := regexp.MustCompile(`'([^']+)'`)
	type alt struct {
		label, shape string
		ops          []string
	}
	var alts []alt
	for _, line := range strings.Split(body, "\n") {
		t := strings.TrimSpace(line)
		if strings.HasPrefix(t, "//") || !(strings.HasPrefix(t, ":") || strings.HasPrefix(t, "|")) {
			continue
		}
		t = strings.TrimSpace(t[1:])
		label := ""
		if k := strings.Index(t, "#"); k >= 0 {
			label = strings.TrimSpace(t[k+1:])
			t = strings.TrimSpace(t[:k])
		}
		var ops []string
		for _, m := range lit.FindAllStringSubmatch(t, -1) {
			ops = append(ops, m[1])
		}
		noLit := strings.Join(strings.Fields(lit.ReplaceAllString(t, "")), " ")
		noLit = strings.NewReplacer("(", "", ")", "", "|", "").Replace(noLit)
		noLit = strings.Join(strings.Fields(noLit), " ")
		shape := "other"
		switch noLit {
		case "term":
			shape = "term"
		case "expression invocation":
			shape = "postfix-invocation"
		case "expression expression":
			if len(ops) == 2 && ops[0] == "[" {
				shape = "postfix-index"
			} else {
				shape = "binary"
			}
		case "expression":
			shape = "prefix"
		case "expression typeSpecifier":
			shape = "type"
		}
		alts = append(alts, alt{label, shape, ops})
	}
	if len(alts) < 10 {
		return fmt.Errorf("%s: only %d alternatives recognised", src, len(alts))
	}
	var b strings.Builder
	b.WriteString(header("Grammar", src))
	b.WriteString("/-- alternatives of `expression`, in grammar order: (label, shape, operator tokens) -/\ndef alternatives : List (String × String × List String) := [\n")
	for k, a := range alts {
		var os []string
		for _, o := range a.ops {
			os = append(os, leanStr(o))
		}
		sep := ","
		if k == len(alts)-1 {
			sep = ""
		}
		b.WriteString(fmt.Sprintf("  (%s, %s, [%s])%s\n", leanStr(a.label), leanStr(a.shape), strings.Join(os, ", "), sep))
	}
	b.WriteString("]\n\n")
	b.WriteString("/-- binary and type levels, loosest first: (operators, is the type level) -/\ndef levels : List (List String × Bool) :=\n  (alternatives.filter fun a => a.2.1 == \"binary\" || a.2.1 == \"type\").reverse.map fun a => (a.2.2, a.2.1 == \"type\")\n\n")
	b.WriteString("end FP.Gen.Grammar\n")
	emit("Grammar", b.String())
	return nil
}
