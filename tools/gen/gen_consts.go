package main

import (
	"fmt"
	"go/ast"
	"go/token"
	"strconv"
	"strings"
)

func init() { extraGens = append(extraGens, extraGen{"Consts", genConsts}) }

// genConsts: the exported resource type constants of internal/resource/consts.go, as (name, value) pairs in
// declaration order.
func genConsts() error {
	src := "internal/resource/consts.go"
	_, f, err := parseFile(src)
	if err != nil {
		return err
	}
	var b strings.Builder
	b.WriteString(header("Consts", src))
	b.WriteString("/-- (constant name, string value) of every `Type` constant -/\ndef typeConsts : List (String × String) := [\n")
	n := 0
	for _, d := range f.Decls {
		gd, ok := d.(*ast.GenDecl)
		if !ok || gd.Tok != token.CONST {
			continue
		}
		for _, s := range gd.Specs {
			vs := s.(*ast.ValueSpec)
			id, isType := vs.Type.(*ast.Ident)
			if !isType || id.Name != "Type" {
				continue
			}
			if len(vs.Names) != 1 || len(vs.Values) != 1 {
				return fmt.Errorf("constant declaration of unexpected shape at %v", vs.Names)
			}
			bl, ok := vs.Values[0].(*ast.BasicLit)
			if !ok || bl.Kind != token.STRING {
				return fmt.Errorf("constant %s is not a string literal", vs.Names[0].Name)
			}
			v, _ := strconv.Unquote(bl.Value)
			if n > 0 {
				b.WriteString(",\n")
			}
			fmt.Fprintf(&b, "  (%s, %s)", leanStr(vs.Names[0].Name), leanStr(v))
			n++
		}
	}
	if n == 0 {
		return fmt.Errorf("no Type constants found")
	}
	b.WriteString("\n]\n\nend FP.Gen.Consts\n")
	emit("Consts", b.String())
	return nil
}
