package main

import (
	"fmt"
	"go/ast"
	"go/token"
	"io/fs"
	"os"
	"path/filepath"
	"sort"
	"strings"
)

func init() { extraGens = append(extraGens, extraGen{"Globals", genGlobals}) }

// genGlobals: process-wide state of the whole module (every non-test package):
//   - every package-level variable with the kind of value it holds (read off its type / initialiser);
//   - every place in a function body that may change process-wide state: an assignment or ++/-- whose target is
//     rooted at a package-level variable, a state-changing method (Store, Delete, Lock, Do, ...) called on one,
//     delete()/clear() of one, and an assignment to a variable of another package (pkg.Var = ...).
//
// The C04 theorems compare both inventories with audited lists: a new cache, memo table, counter or a tuned
// third-party global shows up as a difference before any evaluation is run.
func genGlobals() error {
	type pvar struct{ pkg, name, kind string }
	type wsite struct{ pkg, fn, target, how, pos string }
	var vars []pvar
	var sites []wsite
	var dirs []string
	err := filepath.WalkDir(repo, func(p string, d fs.DirEntry, err error) error {
		if err != nil {
			return err
		}
		if d.IsDir() {
			n := d.Name()
			if strings.HasPrefix(n, ".") || n == "testdata" || n == "zz_verifharness" {
				return filepath.SkipDir
			}
			dirs = append(dirs, p)
		}
		return nil
	})
	if err != nil {
		return err
	}
	sort.Strings(dirs)
	stateMethods := map[string]bool{"Store": true, "Delete": true, "LoadOrStore": true, "LoadAndDelete": true, "Swap": true, "CompareAndSwap": true, "CompareAndDelete": true,
		"Lock": true, "Unlock": true, "RLock": true, "RUnlock": true, "Do": true, "Add": true, "Range": false, "Load": false, "Put": true, "Get": false, "Set": true, "Reset": true}
	for _, dir := range dirs {
		rel, _ := filepath.Rel(repo, dir)
		ents, err := os.ReadDir(dir)
		if err != nil {
			return err
		}
		var files []*ast.File
		var fsets []*token.FileSet
		var names []string
		for _, e := range ents {
			if e.IsDir() || !strings.HasSuffix(e.Name(), ".go") || strings.HasSuffix(e.Name(), "_test.go") {
				continue
			}
			fset, f, err := parseFile(filepath.Join(rel, e.Name()))
			if err != nil {
				return err
			}
			if strings.HasSuffix(f.Name.Name, "_test") {
				continue
			}
			files = append(files, f)
			fsets = append(fsets, fset)
			names = append(names, e.Name())
		}
		if len(files) == 0 {
			continue
		}
		pkgVars := map[string]bool{}
		for _, f := range files {
			for _, d := range f.Decls {
				gd, ok := d.(*ast.GenDecl)
				if !ok || gd.Tok != token.VAR {
					continue
				}
				for _, s := range gd.Specs {
					vs := s.(*ast.ValueSpec)
					for i, n := range vs.Names {
						if n.Name == "_" {
							continue
						}
						var init ast.Expr
						if i < len(vs.Values) {
							init = vs.Values[i]
						}
						pkgVars[n.Name] = true
						vars = append(vars, pvar{rel, n.Name, varKind(vs.Type, init)})
					}
				}
			}
		}
		for fi, f := range files {
			imports := map[string]bool{}
			for _, im := range f.Imports {
				path := strings.Trim(im.Path.Value, `"`)
				name := path[strings.LastIndex(path, "/")+1:]
				if im.Name != nil {
					name = im.Name.Name
				}
				imports[name] = true
			}
			for _, d := range f.Decls {
				fd, ok := d.(*ast.FuncDecl)
				if !ok || fd.Body == nil {
					continue
				}
				roots := rootClasses(fd)
				pos := func(p token.Pos) string { return fmt.Sprintf("%s:%d", names[fi], fsets[fi].Position(p).Line) }
				global := func(e ast.Expr) (string, bool) {
					root := rootIdent(e)
					if root == "" {
						return "", false
					}
					if _, local := roots[root]; local {
						return "", false
					}
					if pkgVars[root] {
						return "package-variable", true
					}
					if imports[root] {
						if _, isSel := e.(*ast.SelectorExpr); isSel {
							return "foreign-variable", true
						}
					}
					return "", false
				}
				ast.Inspect(fd.Body, func(n ast.Node) bool {
					switch x := n.(type) {
					case *ast.AssignStmt:
						if x.Tok == token.DEFINE {
							return true
						}
						for _, l := range x.Lhs {
							if how, ok := global(l); ok {
								sites = append(sites, wsite{rel, fd.Name.Name, exprText(l), "assign " + how, pos(x.Pos())})
							}
						}
					case *ast.IncDecStmt:
						if how, ok := global(x.X); ok {
							sites = append(sites, wsite{rel, fd.Name.Name, exprText(x.X), "incdec " + how, pos(x.Pos())})
						}
					case *ast.CallExpr:
						if id, ok := x.Fun.(*ast.Ident); ok && (id.Name == "delete" || id.Name == "clear") && len(x.Args) > 0 {
							if how, ok := global(x.Args[0]); ok {
								sites = append(sites, wsite{rel, fd.Name.Name, exprText(x.Args[0]), id.Name + " " + how, pos(x.Pos())})
							}
						}
						if sel, ok := x.Fun.(*ast.SelectorExpr); ok && stateMethods[sel.Sel.Name] {
							root := rootIdent(sel.X)
							if _, local := roots[root]; !local && pkgVars[root] {
								sites = append(sites, wsite{rel, fd.Name.Name, exprText(sel.X), "method " + sel.Sel.Name, pos(x.Pos())})
							}
						}
					}
					return true
				})
			}
		}
	}
	var b strings.Builder
	b.WriteString(header("Globals", "every non-test package of the module"))
	b.WriteString("structure PkgVar where\n  pkg : String\n  name : String\n  kind : String\nderiving DecidableEq, Repr\n\n")
	b.WriteString("structure GlobalWrite where\n  pkg : String\n  fn : String\n  target : String\n  how : String\n  pos : String\nderiving DecidableEq, Repr\n\n")
	b.WriteString("/-- every package-level variable, with the kind of value it holds -/\ndef pkgVars : List PkgVar := [\n")
	for i, v := range vars {
		sep := ","
		if i == len(vars)-1 {
			sep = ""
		}
		fmt.Fprintf(&b, "  ⟨%s, %s, %s⟩%s\n", leanStr(v.pkg), leanStr(v.name), leanStr(v.kind), sep)
	}
	b.WriteString("]\n\n/-- every statement of a function body that may change process-wide state -/\ndef globalWrites : List GlobalWrite := [\n")
	for i, s := range sites {
		sep := ","
		if i == len(sites)-1 {
			sep = ""
		}
		fmt.Fprintf(&b, "  ⟨%s, %s, %s, %s, %s⟩%s\n", leanStr(s.pkg), leanStr(s.fn), leanStr(s.target), leanStr(s.how), leanStr(s.pos), sep)
	}
	b.WriteString("]\n\nend FP.Gen.Globals\n")
	emit("Globals", b.String())
	return nil
}

// varKind classifies a package-level variable by what it can hold.
func varKind(typ, init ast.Expr) string {
	t := ""
	if typ != nil {
		t = typeText(typ)
	}
	switch x := init.(type) {
	case *ast.CallExpr:
		fn := exprText(x.Fun)
		switch {
		case fn == "errors.New" || fn == "fmt.Errorf":
			return "error-value"
		case strings.HasPrefix(fn, "regexp.MustCompile"):
			return "regexp"
		case fn == "make" && len(x.Args) > 0:
			return "make " + typeText(x.Args[0])
		}
		return "call " + fn
	case *ast.CompositeLit:
		return "literal " + typeText(x.Type)
	case *ast.FuncLit:
		return "func"
	case *ast.UnaryExpr:
		if cl, ok := x.X.(*ast.CompositeLit); ok {
			return "literal &" + typeText(cl.Type)
		}
	case *ast.BasicLit:
		return "basic"
	case *ast.Ident, *ast.SelectorExpr:
		return "alias " + exprText(x)
	}
	if t != "" {
		return "zero " + t
	}
	return "other"
}

// typeText renders a type expression (maps, slices, arrays, pointers, qualified and generic names).
func typeText(e ast.Expr) string {
	switch x := e.(type) {
	case nil:
		return ""
	case *ast.Ident:
		return x.Name
	case *ast.SelectorExpr:
		return typeText(x.X) + "." + x.Sel.Name
	case *ast.StarExpr:
		return "*" + typeText(x.X)
	case *ast.ArrayType:
		if x.Len == nil {
			return "[]" + typeText(x.Elt)
		}
		return "[n]" + typeText(x.Elt)
	case *ast.MapType:
		return "map[" + typeText(x.Key) + "]" + typeText(x.Value)
	case *ast.IndexExpr:
		return typeText(x.X) + "[" + typeText(x.Index) + "]"
	case *ast.InterfaceType:
		return "interface"
	case *ast.StructType:
		return "struct"
	case *ast.FuncType:
		return "func"
	}
	return "?"
}
