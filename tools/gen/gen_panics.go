package main

import (
	"fmt"
	"go/ast"
	"os"
	"path/filepath"
	"sort"
	"strings"
)

func init() { extraGens = append(extraGens, extraGen{"Panics", genPanics}) }

// genPanics: inventory of the constructs that can end a call with a Go panic by design, in the
// packages Compile / Evaluate / Patch run through: explicit panic(...) calls, calls of Must*
// helpers, and type assertions without the comma-ok form.
func genPanics() error {
	dirs := []string{"fhirpath", "fhirpath/compopts", "fhirpath/evalopts", "fhirpath/internal/compile", "fhirpath/internal/expr", "fhirpath/internal/funcs", "fhirpath/internal/funcs/impl",
		"fhirpath/internal/opts", "fhirpath/internal/parser", "fhirpath/internal/reflection", "fhirpath/patch", "fhirpath/system",
		"internal/fhirconv", "internal/protofields", "internal/containedresource", "internal/slices", "internal/element/reference", "internal/element/canonical", "internal/resource", "internal/narrow"}
	type site struct{ pkg, fn, kind, text string }
	var sites []site
	for _, dir := range dirs {
		entries, err := os.ReadDir(filepath.Join(repo, dir))
		if err != nil {
			return fmt.Errorf("%s: %v", dir, err)
		}
		for _, e := range entries {
			if e.IsDir() || !strings.HasSuffix(e.Name(), ".go") || strings.HasSuffix(e.Name(), "_test.go") {
				continue
			}
			_, f, err := parseFile(filepath.Join(dir, e.Name()))
			if err != nil {
				return err
			}
			for _, d := range f.Decls {
				fd, ok := d.(*ast.FuncDecl)
				if !ok || fd.Body == nil {
					continue
				}
				// comma-ok assertions: collect the assertion nodes that appear as the single RHS of a 2-LHS assignment
				okForm := map[*ast.TypeAssertExpr]bool{}
				ast.Inspect(fd.Body, func(n ast.Node) bool {
					switch x := n.(type) {
					case *ast.AssignStmt:
						if len(x.Lhs) == 2 && len(x.Rhs) == 1 {
							if ta, ok := x.Rhs[0].(*ast.TypeAssertExpr); ok {
								okForm[ta] = true
							}
						}
					case *ast.ValueSpec:
						if len(x.Names) == 2 && len(x.Values) == 1 {
							if ta, ok := x.Values[0].(*ast.TypeAssertExpr); ok {
								okForm[ta] = true
							}
						}
					case *ast.TypeSwitchStmt:
						ast.Inspect(x.Assign, func(m ast.Node) bool {
							if ta, ok := m.(*ast.TypeAssertExpr); ok {
								okForm[ta] = true
							}
							return true
						})
					}
					return true
				})
				ast.Inspect(fd.Body, func(n ast.Node) bool {
					switch x := n.(type) {
					case *ast.CallExpr:
						name := selName(x.Fun)
						if name == "panic" {
							sites = append(sites, site{dir, fd.Name.Name, "panic", ""})
						}
						short := name
						if i := strings.LastIndex(short, "."); i >= 0 {
							short = short[i+1:]
						}
						if strings.HasPrefix(short, "Must") {
							arg := ""
							if len(x.Args) > 0 {
								if bl, ok := x.Args[0].(*ast.BasicLit); ok {
									arg = bl.Value
								} else {
									arg = "<expr>"
								}
							}
							sites = append(sites, site{dir, fd.Name.Name, "must", name + "(" + arg + ")"})
						}
					case *ast.TypeAssertExpr:
						if x.Type != nil && !okForm[x] {
							sites = append(sites, site{dir, fd.Name.Name, "assert", exprText(x.X) + ".(" + exprTextT(x.Type) + ")"})
						}
					}
					return true
				})
			}
		}
	}
	sort.Slice(sites, func(i, j int) bool {
		a, b := sites[i], sites[j]
		if a.pkg != b.pkg {
			return a.pkg < b.pkg
		}
		if a.fn != b.fn {
			return a.fn < b.fn
		}
		if a.kind != b.kind {
			return a.kind < b.kind
		}
		return a.text < b.text
	})
	var b strings.Builder
	b.WriteString(header("Panics", "the evaluator, system, patch and helper packages"))
	b.WriteString("/-- (package, function, kind, text): panic calls, Must* calls, unchecked type assertions -/\ndef sites : List (String × String × String × String) := [\n")
	for i, s := range sites {
		sep := ","
		if i == len(sites)-1 {
			sep = ""
		}
		b.WriteString(fmt.Sprintf("  (%s, %s, %s, %s)%s\n", leanStr(s.pkg), leanStr(s.fn), leanStr(s.kind), leanStr(s.text), sep))
	}
	b.WriteString("]\n\nend FP.Gen.Panics\n")
	emit("Panics", b.String())
	return nil
}

func exprTextT(e ast.Expr) string {
	switch x := e.(type) {
	case *ast.StarExpr:
		return "*" + exprTextT(x.X)
	case *ast.ArrayType:
		return "[]" + exprTextT(x.Elt)
	case *ast.InterfaceType:
		return "interface{}"
	case *ast.FuncType:
		return "func"
	}
	return exprText(e)
}
