package main

import (
	"fmt"
	"go/ast"
	"sort"
	"strings"
)

func init() { extraGens = append(extraGens, extraGen{"EvalShape", genEvalShape}) }

// genEvalShape: for every `Evaluate` method (and the package-level sequence loop) of expr/expressions.go, the calls
// `<sub-expression>.Evaluate(<context>, <collection>)` in source order: which sub-expression is evaluated, with which
// context (the caller's or a clone) and on which collection (the method's own input or something computed).
// FP.Model.Eval.eval is written after exactly this shape.
func genEvalShape() error {
	src := "fhirpath/internal/expr/expressions.go"
	_, f, err := parseFile(src)
	if err != nil {
		return err
	}
	type call struct{ sub, ctx, coll string }
	type method struct {
		name  string
		calls []call
	}
	var methods []method
	text := func(e ast.Expr) string {
		var b strings.Builder
		var w func(e ast.Expr)
		w = func(e ast.Expr) {
			switch x := e.(type) {
			case *ast.Ident:
				b.WriteString(x.Name)
			case *ast.SelectorExpr:
				w(x.X)
				b.WriteString("." + x.Sel.Name)
			case *ast.CallExpr:
				w(x.Fun)
				b.WriteString("(")
				for i, a := range x.Args {
					if i > 0 {
						b.WriteString(",")
					}
					w(a)
				}
				b.WriteString(")")
			case *ast.IndexExpr:
				w(x.X)
				b.WriteString("[")
				w(x.Index)
				b.WriteString("]")
			default:
				b.WriteString("?")
			}
		}
		w(e)
		return b.String()
	}
	for _, d := range f.Decls {
		fd, ok := d.(*ast.FuncDecl)
		if !ok || fd.Body == nil {
			continue
		}
		name := fd.Name.Name
		if fd.Recv != nil && len(fd.Recv.List) == 1 {
			if fd.Name.Name != "Evaluate" {
				continue
			}
			t := fd.Recv.List[0].Type
			if st, ok := t.(*ast.StarExpr); ok {
				t = st.X
			}
			id, ok := t.(*ast.Ident)
			if !ok {
				continue
			}
			name = id.Name
		}
		m := method{name: name}
		ast.Inspect(fd.Body, func(n ast.Node) bool {
			ce, ok := n.(*ast.CallExpr)
			if !ok {
				return true
			}
			sel, ok := ce.Fun.(*ast.SelectorExpr)
			if !ok || sel.Sel.Name != "Evaluate" || len(ce.Args) != 2 {
				return true
			}
			m.calls = append(m.calls, call{text(sel.X), text(ce.Args[0]), text(ce.Args[1])})
			return true
		})
		if fd.Recv == nil && len(m.calls) == 0 {
			continue
		}
		methods = append(methods, m)
	}
	if len(methods) < 10 {
		return fmt.Errorf("only %d Evaluate methods found in %s", len(methods), src)
	}
	sort.SliceStable(methods, func(i, j int) bool { return methods[i].name < methods[j].name })
	var b strings.Builder
	b.WriteString(header("EvalShape", src))
	b.WriteString("/-- (method or function, [(sub-expression, context argument, collection argument)]) -/\ndef methods : List (String × List (String × String × String)) := [\n")
	for i, m := range methods {
		if i > 0 {
			b.WriteString(",\n")
		}
		var cs []string
		for _, c := range m.calls {
			cs = append(cs, fmt.Sprintf("(%s, %s, %s)", leanStr(c.sub), leanStr(c.ctx), leanStr(c.coll)))
		}
		fmt.Fprintf(&b, "  (%s, [%s])", leanStr(m.name), strings.Join(cs, ", "))
	}
	b.WriteString("\n]\n\nend FP.Gen.EvalShape\n")
	emit("EvalShape", b.String())
	return nil
}
