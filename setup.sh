#!/bin/bash
# Offline setup after a fresh restore: build the translator, regenerate Gen, warm the Lean build
# (all property modules + the driver executable) and the Go build cache for the harness.
set -e
cd /verif
export GOFLAGS=-mod=mod GOPROXY=off GOSUMDB=off GOTOOLCHAIN=local
mkdir -p .bin .work evidence/replay
(cd tools/gen && go build -o /verif/.bin/gen .)
./.bin/gen /repo /verif/lean/FP/Gen /verif/.work/gen.json || true
(cd lean && lake build FP driver)
./buildharness.sh /verif/.bin/harness
echo setup-ok
