#!/bin/bash
# Offline setup after a fresh restore: build the translator, regenerate Gen, warm the Lean build
# (all property modules + the driver executable) and the Go build cache for the harness.
set -e
cd "$(dirname "$0")"
V="$(pwd)"
export GOFLAGS=-mod=mod GOPROXY=off GOSUMDB=off GOTOOLCHAIN=local
mkdir -p .bin .work evidence/replay
(cd tools/gen && go build -o $V/.bin/gen .)
./.bin/gen ${VERIF_REPO:-/repo} $V/lean/FP/Gen $V/.work/gen.json || true
python3 lean/mkall.py
./buildharness.sh $V/.bin/harness
mkdir -p .work/schema && ./.bin/harness schema quick 0 .work/schema && cp .work/schema/Schema.lean lean/FP/Gen/Schema.lean && cp .work/schema/NavSchema.lean lean/FP/Gen/NavSchema.lean
(cd lean && lake build FP driver)
echo setup-ok
