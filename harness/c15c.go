package main

// C15: a Quantity survives the FHIR element it is converted to (value and unit), and the element carries the unit
// where a reader of FHIR looks for it (`code`, with `unit` as its human-readable twin).

import (
	"fmt"

	"github.com/shopspring/decimal"
	"github.com/verily-src/fhirpath-go/fhirpath/system"
)

func runC15Quantities(c *Ctx) {
	for _, num := range []string{"0", "1", "-1.50", "2.5", "100.00", "0.001", "12345678901234567890.123"} {
		for _, unit := range []string{"mg", "kg", "mg/dL", "1", "year", "days", "a", "mm[Hg]", "%", "{score}", ""} {
			q, err := system.ParseQuantity(num, unit)
			if err != nil {
				continue
			}
			in := fmt.Sprintf("%s '%s'", num, unit)
			var back system.Any
			var err2 error
			_, pan, _ := safeErr(func() error { back, err2 = system.From(q.ToProtoQuantity()); return nil })
			c.Observe("quantity system-element-system "+in, true)
			if pan || err2 != nil {
				c.Law(false, "C15/system-element-system", "System -> element -> System preserves the value and the unit of a Quantity", in, fmt.Sprint("panic=", pan, " err=", err2))
				continue
			}
			bq, ok := back.(system.Quantity)
			good := ok
			obs := fmt.Sprint(back)
			if ok {
				d0, u0 := quantityParts(q)
				d1, u1 := quantityParts(bq)
				good = decimal.Decimal(d0).Equal(decimal.Decimal(d1)) && u0 == u1
				obs = fmt.Sprintf("%s '%s' came back as %s '%s'", d0, u0, d1, u1)
			}
			c.Law(good, "C15/system-element-system", "System -> element -> System preserves the value and the unit of a Quantity", in, obs)
		}
	}
}
