//go:build verif

package main

import (
	"encoding/base64"
	"fmt"
	"strings"

	"github.com/verily-src/fhirpath-go/fhirpath"
	"github.com/verily-src/fhirpath-go/fhirpath/system"
	"github.com/verily-src/fhirpath-go/internal/fhir"
)

// runC02TemporalValues: the `value` member of time, dateTime, instant and date elements reads as the
// element's JSON text — for fractions of every supported length, fractions that end in zeros included,
// and every offset form.
func runC02TemporalValues(c *Ctx) {
	fracs := []string{"", ".000", ".120", ".100", ".007", ".999", ".000000", ".120000", ".123450", ".100000", ".000001", ".999999", ".500", ".050"}
	zones := []string{"Z", "+00:00", "+05:30", "-08:00", "+14:00", "-00:30"}
	n := 40
	if c.thorough {
		n = 400
	}
	readT := fhirpath.MustCompile("Observation.value.value")
	readDT := fhirpath.MustCompile("Observation.effective.value")
	readI := fhirpath.MustCompile("Observation.issued.value")
	readD := fhirpath.MustCompile("Patient.birthDate.value")
	check := func(e *fhirpath.Expression, js, text, what string) {
		var res fhir.Resource
		_, pan, _ := safeErr(func() error { res = mustResource(js); return nil })
		if pan || res == nil {
			c.Count("temporal-value:not-parsed:" + what)
			return
		}
		o := safeEval(func() (system.Collection, error) { return e.Evaluate([]fhir.Resource{res}) })
		c.Observe("temporal-value "+what+" "+text, true)
		got := canonOutcome(o, nil)
		ok := !o.Panicked && o.Err == nil && len(o.Coll) == 1
		if ok {
			s, isStr := o.Coll[0].(system.String)
			// "Z" and "+00:00" are the same offset
			canon := func(x string) string {
				if strings.HasSuffix(x, "Z") {
					return strings.TrimSuffix(x, "Z") + "+00:00"
				}
				return x
			}
			ok = isStr && canon(string(s)) == canon(text)
		}
		c.Law(ok, "C02/value", "elements come in document order with the JSON values (strings exactly, numbers numerically, dates and times as the same instant, precision and offset)", what+".value of "+text, got)
	}
	// years far from the epoch (value_us is an int64 count of microseconds: 0001..9999 all fit)
	for _, y := range []int{1, 99, 1000, 1500, 1600, 1677, 1678, 1899, 2261, 2262, 2263, 2300, 5000, 9999} {
		for _, md := range []string{"01-01", "02-28", "06-15", "12-31"} {
			d := fmt.Sprintf("%04d-%s", y, md)
			check(readD, `{"resourceType":"Patient","birthDate":"`+d+`"}`, d, "date")
			check(readD, `{"resourceType":"Patient","birthDate":"`+d[:7]+`"}`, d[:7], "date")
			check(readD, `{"resourceType":"Patient","birthDate":"`+d[:4]+`"}`, d[:4], "date")
			for _, z := range []string{"Z", "+05:30", "-08:00"} {
				if (y == 1 && md == "01-01") || (y == 9999 && md == "12-31") {
					continue // the offset would move the instant out of the representable years
				}
				dt := d + "T23:59:59" + z
				check(readDT, `{"resourceType":"Observation","status":"final","code":{"text":"c"},"effectiveDateTime":"`+dt+`"}`, dt, "dateTime")
				check(readI, `{"resourceType":"Observation","status":"final","code":{"text":"c"},"issued":"`+dt+`"}`, dt, "instant")
			}
		}
	}
	// base64Binary: the value is the element's JSON text (standard alphabet, padded) for every byte pattern
	{
		readB := fhirpath.MustCompile("Patient.photo.data.value")
		payloads := [][]byte{{0xFB, 0xFF}, {0xFF}, {0xFF, 0xD8, 0xFF, 0xE0, 0x3E, 0x3E}, {0x00}, {0x3E}, {0x3F}, {0xFA, 0xFB, 0xFC, 0xFD, 0xFE, 0xFF}, []byte("hello world"), {0xF8}, {0xFC, 0x00}}
		for i := 0; i < 40; i++ {
			b := make([]byte, 1+c.rng.Intn(9))
			for k := range b {
				b[k] = byte(c.rng.Intn(256))
			}
			payloads = append(payloads, b)
		}
		for _, b := range payloads {
			txt := base64.StdEncoding.EncodeToString(b)
			check(readB, `{"resourceType":"Patient","photo":[{"data":"`+txt+`"}]}`, txt, "base64Binary")
		}
	}
	for i := 0; i < n; i++ {
		h, m, s := c.rng.Intn(24), c.rng.Intn(60), c.rng.Intn(60)
		f := fracs[(i+c.rng.Intn(3))%len(fracs)]
		t := fmt.Sprintf("%02d:%02d:%02d%s", h, m, s, f)
		check(readT, `{"resourceType":"Observation","status":"final","code":{"text":"c"},"valueTime":"`+t+`"}`, t, "time")
		y, mo, d := 1900+c.rng.Intn(200), 1+c.rng.Intn(12), 1+c.rng.Intn(28)
		z := zones[c.rng.Intn(len(zones))]
		dt := fmt.Sprintf("%04d-%02d-%02dT%s%s", y, mo, d, t, z)
		check(readDT, `{"resourceType":"Observation","status":"final","code":{"text":"c"},"effectiveDateTime":"`+dt+`"}`, dt, "dateTime")
		check(readI, `{"resourceType":"Observation","status":"final","code":{"text":"c"},"issued":"`+dt+`"}`, dt, "instant")
		for _, part := range []string{fmt.Sprintf("%04d", y), fmt.Sprintf("%04d-%02d", y, mo), fmt.Sprintf("%04d-%02d-%02d", y, mo, d)} {
			check(readDT, `{"resourceType":"Observation","status":"final","code":{"text":"c"},"effectiveDateTime":"`+part+`"}`, part, "dateTime")
			check(readD, `{"resourceType":"Patient","birthDate":"`+part+`"}`, part, "date")
		}
	}
}
