package main

// Type-directed generator of FHIRPath programs over every node kind and every function of the
// table, so that most programs evaluate (a separate byte-mutation stream covers the rest).
// Paths are taken from the FHIR JSON tree of the resource at hand.

import (
	"encoding/json"
	"fmt"
	"sort"
	"strings"
)

type ProgGen struct {
	r      *RNG
	root   string   // resource type name
	paths  []string // dotted element paths of the JSON tree (without root)
	depth  int
	vars   []string // collection-valued environment variables available (without %)
	counts map[string]int
}

// jsonPaths lists the dotted paths (arrays flattened) occurring in a FHIR JSON document.
func jsonPaths(js []byte) (string, []string) {
	var tree map[string]any
	if json.Unmarshal(js, &tree) != nil {
		return "", nil
	}
	root, _ := tree["resourceType"].(string)
	seen := map[string]bool{}
	var rec func(prefix string, v any, depth int)
	rec = func(prefix string, v any, depth int) {
		switch x := v.(type) {
		case map[string]any:
			for k, sub := range x {
				if k == "resourceType" || strings.HasPrefix(k, "_") || k == "contained" || k == "div" {
					continue
				}
				p := k
				if prefix != "" {
					p = prefix + "." + k
				}
				seen[p] = true
				if depth < 5 {
					rec(p, sub, depth+1)
				}
			}
		case []any:
			for _, sub := range x {
				rec(prefix, sub, depth)
			}
		}
	}
	rec("", tree, 0)
	out := make([]string, 0, len(seen))
	for p := range seen {
		out = append(out, p)
	}
	sort.Strings(out)
	return root, out
}

func NewProgGen(r *RNG, js []byte, vars []string) *ProgGen {
	root, paths := jsonPaths(js)
	return &ProgGen{r: r, root: root, paths: paths, vars: vars, counts: map[string]int{}}
}

func (g *ProgGen) note(k string) { g.counts[k]++ }

func (g *ProgGen) pick(xs ...string) string { return xs[g.r.Intn(len(xs))] }

func (g *ProgGen) path() string {
	if len(g.paths) == 0 || g.r.Intn(8) == 0 {
		return g.root
	}
	return g.root + "." + g.paths[g.r.Intn(len(g.paths))]
}

// relPath: a path relative to an item (inside where/select): last segment(s) of a known path
func (g *ProgGen) relPath() string {
	if len(g.paths) == 0 {
		return "id"
	}
	p := g.paths[g.r.Intn(len(g.paths))]
	segs := strings.Split(p, ".")
	return segs[len(segs)-1]
}

func (g *ProgGen) Coll(d int) string {
	if d <= 0 {
		switch g.r.Intn(5) {
		case 0:
			if len(g.vars) > 0 {
				g.note("ExternalConstant")
				return "%" + g.vars[g.r.Intn(len(g.vars))]
			}
		case 1:
			g.note("Literal")
			return "{}"
		}
		g.note("Path")
		return g.path()
	}
	c := func() string { return g.Coll(d - 1) }
	switch g.r.Intn(22) {
	case 0:
		g.note("where")
		return c() + ".where(" + g.Crit(d-1) + ")"
	case 1:
		g.note("select")
		return c() + ".select(" + g.pick(g.relPath(), "$this", g.Int(d-1), g.Str(d-1)) + ")"
	case 2:
		g.note("first")
		return c() + ".first()"
	case 3:
		g.note("last")
		return c() + ".last()"
	case 4:
		g.note("tail")
		return c() + ".tail()"
	case 5:
		g.note("skip")
		return c() + ".skip(" + g.Int(d-1) + ")"
	case 6:
		g.note("take")
		return c() + ".take(" + g.Int(d-1) + ")"
	case 7:
		g.note("distinct")
		return c() + ".distinct()"
	case 8:
		g.note("children")
		return c() + ".children()"
	case 9:
		g.note("descendants")
		return g.path() + ".descendants()"
	case 10:
		g.note("extension")
		return c() + ".extension('http://example.org/ext/" + g.pick("a", "b", "c") + "')"
	case 11:
		g.note("intersect")
		return c() + ".intersect(" + c() + ")"
	case 12:
		g.note("exclude")
		return c() + ".exclude(" + c() + ")"
	case 13:
		g.note("Index")
		return c() + "[" + g.Int(d-1) + "]"
	case 14:
		g.note("as")
		return c() + ".first() as " + g.pick("HumanName", "string", "Patient", "Quantity", "code", "Element", "System.String")
	case 15:
		g.note("iif")
		return "iif(" + g.Bool(d-1) + ", " + c() + ", " + c() + ")"
	case 16:
		g.note("toChars")
		return g.Str(d-1) + ".toChars()"
	case 17:
		g.note("Paren")
		return "(" + c() + ")"
	}
	return c()
}

// Crit: a criterion evaluated per item
func (g *ProgGen) Crit(d int) string {
	switch g.r.Intn(7) {
	case 0:
		return "true"
	case 1:
		return g.relPath() + ".exists()"
	case 2:
		return "$this.exists()"
	case 3:
		return g.relPath() + " = " + g.pick("'a'", "1", "true", "'official'")
	case 4:
		return "$this is " + g.pick("HumanName", "string", "Element", "code")
	case 5:
		return g.relPath() + ".empty()"
	}
	return g.Bool(d)
}

func (g *ProgGen) Bool(d int) string {
	if d <= 0 {
		g.note("Literal")
		return g.pick("true", "false", "{}")
	}
	b := func() string { return g.Bool(d - 1) }
	switch g.r.Intn(22) {
	case 0:
		g.note("exists")
		return g.Coll(d-1) + ".exists()"
	case 1:
		g.note("empty")
		return g.Coll(d-1) + ".empty()"
	case 2:
		g.note("exists")
		return g.Coll(d-1) + ".exists(" + g.Crit(d-1) + ")"
	case 3:
		g.note("all")
		return g.Coll(d-1) + ".all(" + g.Crit(d-1) + ")"
	case 4:
		g.note("Boolean")
		return b() + " " + g.pick("and", "or", "xor", "implies") + " " + b()
	case 5:
		g.note("not")
		return "(" + b() + ").not()"
	case 6:
		g.note("Comparison")
		return g.Int(d-1) + " " + g.pick("<", "<=", ">", ">=") + " " + g.Int(d-1)
	case 7:
		g.note("Equality")
		return g.Coll(d-1) + " " + g.pick("=", "!=") + " " + g.Coll(d-1)
	case 8:
		g.note("Equality")
		return g.Str(d-1) + " = " + g.Str(d-1)
	case 9:
		g.note("startsWith")
		return g.Str(d-1) + "." + g.pick("startsWith", "endsWith", "contains", "matches") + "(" + g.Str(d-1) + ")"
	case 10:
		g.note("isDistinct")
		return g.Coll(d-1) + ".isDistinct()"
	case 11:
		g.note("is")
		return g.Coll(d-1) + ".first() is " + g.pick("HumanName", "string", "Patient", "Resource", "System.Integer", "boolean")
	case 12:
		g.note("allTrue")
		return g.Coll(d-1) + "." + g.pick("allTrue", "anyTrue", "allFalse", "anyFalse") + "()"
	case 13:
		g.note("convertsTo")
		return g.Any(d-1) + "." + g.pick("convertsToBoolean", "convertsToInteger", "convertsToDecimal", "convertsToString", "convertsToDate", "convertsToDateTime", "convertsToTime", "convertsToQuantity") + "()"
	case 14:
		g.note("Comparison")
		return g.Date(d-1) + " " + g.pick("<", ">", "=", "<=") + " " + g.Date(d-1)
	case 15:
		g.note("Comparison")
		return g.Dec(d-1) + " " + g.pick("<", ">", "=", ">=") + " " + g.Dec(d-1)
	}
	return g.pick("true", "false")
}

func (g *ProgGen) Int(d int) string {
	if d <= 0 {
		g.note("Literal")
		return g.pick("0", "1", "2", "3", "10", "2147483647", "(-1)", "(-2147483647)")
	}
	i := func() string { return g.Int(d - 1) }
	switch g.r.Intn(12) {
	case 0:
		g.note("count")
		return g.Coll(d-1) + ".count()"
	case 1:
		g.note("Arithmetic")
		return "(" + i() + " " + g.pick("+", "-", "*", "div", "mod") + " " + i() + ")"
	case 2:
		g.note("length")
		return g.Str(d-1) + ".length()"
	case 3:
		g.note("indexOf")
		return g.Str(d-1) + ".indexOf(" + g.Str(d-1) + ")"
	case 4:
		g.note("Negation")
		return "(-" + i() + ")"
	case 5:
		g.note("abs")
		return i() + "." + g.pick("abs", "floor", "ceiling", "truncate") + "()"
	case 6:
		g.note("toInteger")
		return g.Str(d-1) + ".toInteger()"
	case 7:
		g.note("power")
		return i() + ".power(" + g.pick("0", "1", "2", "3", "31", "(-1)") + ")"
	}
	return i()
}

func (g *ProgGen) Dec(d int) string {
	if d <= 0 {
		g.note("Literal")
		return g.pick("0.0", "1.5", "2.50", "100.001", "0.5", "(-3.25)", "12345678901234567890.12345")
	}
	x := func() string { return g.Dec(d - 1) }
	switch g.r.Intn(8) {
	case 0:
		g.note("Arithmetic")
		return "(" + x() + " " + g.pick("+", "-", "*", "/") + " " + g.pick(x(), g.Int(d-1)) + ")"
	case 1:
		g.note("round")
		return x() + ".round(" + g.pick("0", "1", "2") + ")"
	case 2:
		g.note("sqrt")
		return x() + "." + g.pick("sqrt", "exp", "ln", "abs") + "()"
	case 3:
		g.note("log")
		return x() + ".log(" + g.pick("2", "10", "0.5", "1", "0") + ")"
	case 4:
		g.note("toDecimal")
		return g.Str(d-1) + ".toDecimal()"
	}
	return x()
}

func (g *ProgGen) Str(d int) string {
	if d <= 0 {
		g.note("Literal")
		return g.pick("'a'", "'abc'", "''", "'é日😀'", "'1'", "'2020-01-01'", "'true'", "'x y'", "'\\''", "'5 \\'mg\\''")
	}
	s := func() string { return g.Str(d - 1) }
	switch g.r.Intn(12) {
	case 0:
		g.note("Concat")
		l, r := s(), g.pick(s(), "{}")
		if len(g.vars) > 0 && g.r.Intn(3) == 0 {
			// an environment collection as operand (possibly empty with spare capacity)
			v := "%" + g.vars[g.r.Intn(len(g.vars))]
			if g.r.Bool() {
				l = v
			} else {
				r = v
			}
		}
		return "(" + l + " & " + r + ")"
	case 1:
		g.note("upper")
		return s() + "." + g.pick("upper", "lower") + "()"
	case 2:
		g.note("toString")
		return g.Any(d-1) + ".toString()"
	case 3:
		g.note("substring")
		return s() + ".substring(" + g.Int(d-1) + ")"
	case 4:
		g.note("substring")
		return s() + ".substring(" + g.Int(d-1) + ", " + g.Int(d-1) + ")"
	case 5:
		g.note("replace")
		return s() + ".replace(" + s() + ", " + s() + ")"
	case 6:
		g.note("Arithmetic")
		return "(" + s() + " + " + s() + ")"
	case 7:
		g.note("replaceMatches")
		return s() + ".replaceMatches(" + g.pick("'a'", "'[a-z]'", "'('", "''") + ", " + s() + ")"
	case 8:
		g.note("join")
		return g.Coll(d-1) + ".first().toString()"
	}
	return s()
}

func (g *ProgGen) Date(d int) string {
	lit := g.pick("@2020", "@2020-02", "@2020-02-29", "@2019-12-31", "@2020-01-01T", "@2020-01-01T10", "@2020-01-01T10:30", "@2020-01-01T10:30:00", "@2020-01-01T10:30:00.000Z",
		"@2020-01-01T10:30:00+05:30", "@0001-01-01", "@9999-12-31", "@T10", "@T10:30", "@T23:59:59.999", "now()", "today()", "timeOfDay()")
	if d <= 0 {
		g.note("Literal")
		return lit
	}
	switch g.r.Intn(4) {
	case 0:
		g.note("Arithmetic")
		q := g.pick("1", "2", "12", "24", "60", "366", "1.5", "0") + " " + g.pick("year", "years", "month", "months", "week", "day", "days", "hour", "hours", "minute", "second", "seconds", "millisecond", "'mg'", "'s'")
		return "(" + lit + " " + g.pick("+", "-") + " " + q + ")"
	case 1:
		g.note("toDate")
		return g.pick(lit, g.Str(d-1)) + "." + g.pick("toDate", "toDateTime", "toTime") + "()"
	}
	return lit
}

func (g *ProgGen) Quantity(d int) string {
	g.note("Quantity")
	q := g.pick("1 'mg'", "2.5 'kg'", "1 year", "3 days", "0 'mg'", "(-1) 'mg'")
	if d > 0 && g.r.Intn(3) == 0 {
		return "(" + q + " " + g.pick("+", "-") + " " + g.pick("1 'mg'", "1 'kg'", "2 days") + ")"
	}
	if g.r.Intn(4) == 0 {
		return g.pick(g.Str(d), g.Int(d), g.Dec(d)) + ".toQuantity()"
	}
	return q
}

// Any: an expression of any kind
func (g *ProgGen) Any(d int) string {
	switch g.r.Intn(8) {
	case 0:
		return g.Coll(d)
	case 1:
		return g.Bool(d)
	case 2:
		return g.Int(d)
	case 3:
		return g.Dec(d)
	case 4:
		return g.Str(d)
	case 5:
		return g.Date(d)
	case 6:
		return g.Quantity(d)
	}
	return g.Coll(d)
}

func (g *ProgGen) Stats() string { return fmt.Sprint(g.counts) }
