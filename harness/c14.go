package main

// C14 — string functions on characters.  Strings over an alphabet mixing ASCII, 2-, 3- and
// 4-byte code points and a combining mark, length 0..12; all start in [-2, len+2], length in
// [-1, len+2] plus int32 boundaries; substrings and near-misses as patterns; FHIR string-like
// elements as receivers.  Direct oracle: the four consequence laws + UTF-8 validity.

import (
	ppb "github.com/google/fhir/go/proto/google/fhir/proto/r4/core/resources/patient_go_proto"
	"fmt"
	"sort"
	"strings"
	"unicode/utf8"

	dtpb "github.com/google/fhir/go/proto/google/fhir/proto/r4/core/datatypes_go_proto"
	"github.com/verily-src/fhirpath-go/fhirpath"
	"github.com/verily-src/fhirpath-go/fhirpath/evalopts"
	"github.com/verily-src/fhirpath-go/fhirpath/system"
	"github.com/verily-src/fhirpath-go/internal/fhir"
)

func init() { props["C14"] = runC14 }

var strAlphabet = []string{"a", "b", "Z", " ", "é", "ß", "日", "語", "😀", "é", "x", "ǆ", "i", "İ"}

func randStr(r *RNG, maxLen int) string {
	n := r.Intn(maxLen + 1)
	var b strings.Builder
	for i := 0; i < n; i++ {
		b.WriteString(Pick(r, strAlphabet))
	}
	return b.String()
}

// string-like FHIR elements of every kind as receivers (values fixed by the element type: enum
// codes cannot carry arbitrary text)
func c14ElementReceivers(c *Ctx) {
	res := mustResource(`{"resourceType":"Patient","id":"pat-1","meta":{"profile":["http://example.org/fhir/StructureDefinition/p"],"source":"urn:src:é"},"text":{"status":"generated","div":"<div xmlns=\"http://www.w3.org/1999/xhtml\">x</div>"},"gender":"female","name":[{"use":"official","family":"Ünal","given":["Zoë"]}],"telecom":[{"system":"phone","value":"555","use":"mobile"}],"address":[{"use":"home","type":"postal","city":"Zürich"}],"link":[{"other":{"reference":"Patient/2"},"type":"seealso"}],"communication":[{"language":{"coding":[{"system":"urn:ietf:bcp:47","code":"de-CH"}]}}],"photo":[{"contentType":"Image/X_Png+É","url":"http://example.org/p.png"}]}`)
	paths := map[string]string{
		"Patient.gender": "female", "Patient.name.use": "official", "Patient.telecom.system": "phone", "Patient.telecom.use": "mobile", "Patient.address.use": "home", "Patient.address.type": "postal",
		"Patient.link.type": "seealso", "Patient.text.status": "generated", "Patient.id": "pat-1", "Patient.meta.profile": "http://example.org/fhir/StructureDefinition/p", "Patient.meta.source": "urn:src:é",
		"Patient.name.family": "Ünal", "Patient.name.given": "Zoë", "Patient.address.city": "Zürich", "Patient.communication.language.coding.code": "de-CH", "Patient.communication.language.coding.system": "urn:ietf:bcp:47",
		"Patient.photo.contentType": "Image/X_Png+É", "Patient.photo.url": "http://example.org/p.png", "Patient.telecom.value": "555",
	}
	// string-like elements whose value is the empty string (a legal proto; the JSON form cannot carry it) are the empty
	// string, not an error and not "no value"
	{
		empties := &ppb.Patient{Id: &dtpb.Id{Value: ""}, Language: &dtpb.Code{Value: ""}, ImplicitRules: &dtpb.Uri{Value: ""},
			Name: []*dtpb.HumanName{{Family: &dtpb.String{Value: ""}, Text: &dtpb.String{Value: "t"}}}, Text: &dtpb.Narrative{Div: &dtpb.Xhtml{Value: ""}},
			Meta: &dtpb.Meta{Profile: []*dtpb.Canonical{{Value: ""}}, Source: &dtpb.Uri{Value: ""}}, Photo: []*dtpb.Attachment{{Url: &dtpb.Url{Value: ""}, Title: &dtpb.String{Value: ""}}}}
		for _, p := range []string{"Patient.id", "Patient.language", "Patient.implicitRules", "Patient.name.family", "Patient.meta.profile", "Patient.meta.source", "Patient.photo.url", "Patient.photo.title"} {
			for src, want := range map[string]string{p + ".length()": "ok:[I:0]", p + ".toChars().count()": "ok:[I:0]", p + ".contains('')": "ok:[B:true]", p + ".startsWith('')": "ok:[B:true]", p + ".endsWith('')": "ok:[B:true]",
				p + ".indexOf('')": "ok:[I:0]", p + ".upper() = ''": "ok:[B:true]", p + ".substring(0).empty()": "ok:[B:true]", p + " & 'x'": "ok:[S:x78]", p + ".replace('', 'y')": "ok:[S:x79]"} {
				o := compileEval(src, []fhir.Resource{empties})
				got := outTokens(o)
				if o.Panicked {
					got = "panic " + o.PanicMsg
				} else if o.Err != nil {
					got = "err " + o.Err.Error()
				}
				c.Observe("empty-valued element "+src, true)
				c.Law(got == want, "C14/element-receiver", "string functions work on every string-like FHIR element (code, enum code, id, uri, canonical, url, markdown, string) as on its string value", src+" on an element whose value is ''", got+" vs "+want)
			}
		}
	}
	var keys []string
	for k := range paths {
		keys = append(keys, k)
	}
	sort.Strings(keys)
	for _, p := range keys {
		want := []rune(paths[p])
		lit := func(rs []rune) string { return "'" + string(rs) + "'" }
		checks := map[string]string{
			p + ".length()":                                  fmt.Sprintf("ok:[I:%d]", len(want)),
			p + ".toChars().count()":                         fmt.Sprintf("ok:[I:%d]", len(want)),
			p + ".upper().lower() = " + lit([]rune(strings.ToLower(string(want)))): "ok:[B:true]",
			p + ".substring(1).length()":                     fmt.Sprintf("ok:[I:%d]", len(want)-1),
			p + ".substring(1, 2) = " + lit(want[1:3]):       "ok:[B:true]",
			p + ".startsWith(" + lit(want[:2]) + ")":         "ok:[B:true]",
			p + ".endsWith(" + lit(want[1:]) + ")":           "ok:[B:true]",
			p + ".indexOf(" + lit(want[1:2]) + ")":           "",
			p + ".contains(" + lit(want[2:3]) + ")":          "ok:[B:true]",
			p + ".replace(" + lit(want) + ", 'x')":           "ok:[S:x78]",
		}
		var cks []string
		for k := range checks {
			cks = append(cks, k)
		}
		sort.Strings(cks)
		for _, src := range cks {
			o := compileEval(src, []fhir.Resource{res})
			got := outTokens(o)
			if o.Panicked {
				got = "panic " + o.PanicMsg
			} else if o.Err != nil {
				got = "err " + o.Err.Error()
			}
			c.Observe("element-receiver "+src, true)
			// indexOf counts characters: recompute for non-ASCII
			want := checks[src]
			if strings.Contains(src, ".indexOf(") {
				rs := []rune(paths[p])
				idx := -1
				for i := range rs {
					if rs[i] == rs[1] {
						idx = i
						break
					}
				}
				want = fmt.Sprintf("ok:[I:%d]", idx)
			}
			c.Law(got == want, "C14/element-receiver", "string functions work on every string-like FHIR element (code, enum code, id, uri, canonical, url, markdown, string) as on its string value", src, got+" vs "+want)
		}
	}
}

func runC14(c *Ctx) {
	c14ElementReceivers(c)
	c.meta.Rule = "strings of 0..12 alphabet symbols (ASCII, 2-/3-/4-byte code points, combining mark, special-casing letters); substring over all start in [-2, len+2] x length in [-1, len+2] and int32 boundaries; patterns = every kind of substring, one-edit near-misses, empty; receivers as System String or FHIR string/code/markdown/uri elements; non-trivial = receiver contains a multi-byte character; distinct by operation line"
	input := []fhir.Resource{mustResource(`{"resourceType":"Patient","id":"p"}`)}
	cache := map[string]*fhirpath.Expression{}
	eval := func(src string, s any, args ...any) Outcome {
		e, ok := cache[src]
		if !ok {
			var err error
			e, err = fhirpath.Compile(src)
			if err != nil {
				panic(src + ": " + err.Error())
			}
			cache[src] = e
		}
		return safeEval(func() (system.Collection, error) {
			opts := []fhirpath.EvaluateOption{evalopts.EnvVariable("s", s)}
			for i, a := range args {
				opts = append(opts, evalopts.EnvVariable(fmt.Sprintf("a%d", i), a))
			}
			return e.Evaluate(input, opts...)
		})
	}
	recv := func(s string) any {
		switch c.rng.Intn(6) {
		case 0:
			return fhir.String(s)
		case 1:
			return &dtpb.Markdown{Value: s}
		case 2:
			return &dtpb.Code{Value: s}
		case 3:
			return &dtpb.Uri{Value: s}
		}
		return system.String(s)
	}
	checkUTF8 := func(o Outcome, what string) {
		if o.Err != nil || o.Panicked {
			return
		}
		for _, it := range o.Coll {
			if s, ok := it.(system.String); ok {
				c.Law(utf8.ValidString(string(s)), "C14/invalid-utf8", "every returned string is valid UTF-8", what, fmt.Sprintf("%q", string(s)))
			}
		}
	}
	caseMap := func(f func(string) string, str string) string {
		parts := []string{}
		seen := map[rune]bool{}
		for _, sym := range []string{str} {
			for _, r := range sym {
				if !seen[r] {
					seen[r] = true
					parts = append(parts, hexs(string(r))+"="+hexs(f(string(r))))
				}
			}
		}
		if len(parts) == 0 {
			return "-"
		}
		return strings.Join(parts, ";")
	}
	n := 250
	if c.thorough {
		n = 4000
	}
	// (title-case digraphs, Greek with iota adscript, Roman numerals, circled letters: characters that are neither
	// "upper-case letters" nor "lower-case letters" in Unicode's categories but have case mappings; combining marks)
	strs := []string{"", "a", "é", "日本語", "a😀b", "éé", "héllo", "ǆİß", "ǅ", "ǈǋǲ", "ᾈᾘᾨ", "Ⅳⅷ", "ⒶⒷⓐ", "ῼ", "xǅy", "ño", "à́b", "́"}
	for i := 0; i < n; i++ {
		strs = append(strs, randStr(c.rng, 12))
	}
	for _, s := range strs {
		runes := []rune(s)
		L := len(runes)
		nt := len(s) != L
		r := recv(s)
		hs := hexs(s)
		o := eval("%s.length()", r)
		c.Emit("slen "+hs, outTokens(o), nt)
		lenOut := outTokens(o)
		o = eval("%s.toChars()", r)
		c.Emit("schars "+hs, outTokens(o), nt)
		checkUTF8(o, "toChars of "+s)
		c.Law(o.Err != nil || lenOut == fmt.Sprintf("ok:[I:%d]", len(o.Coll)) || (L == 0), "C14/tochars-count", "s.toChars().count() = s.length()", s, lenOut+fmt.Sprintf(" vs %d chars", len(o.Coll)))
		o = eval("%s.upper()", r)
		c.Emit("smap "+hs+" "+caseMap(strings.ToUpper, s), outTokens(o), nt)
		c.Law(o.Err == nil && (L == 0 || (len(o.Coll) == 1 && o.Coll[0] == system.String(strings.ToUpper(s)))), "C14/upper-lower", "upper() maps every character to its upper-case form", fmt.Sprintf("%q.upper()", s), outTokens(o))
		o = eval("%s.lower()", r)
		c.Emit("smap "+hs+" "+caseMap(strings.ToLower, s), outTokens(o), nt)
		c.Law(o.Err == nil && (L == 0 || (len(o.Coll) == 1 && o.Coll[0] == system.String(strings.ToLower(s)))), "C14/upper-lower", "lower() maps every character to its lower-case form", fmt.Sprintf("%q.lower()", s), outTokens(o))
		// substring
		starts := []int64{-2, -1, 2147483647, -2147483648, -2147483647, 2147483646, -2147483646, -65536, 65536}
		for k := 0; k <= L+2; k++ {
			starts = append(starts, int64(k))
		}
		for _, st := range starts {
			o := eval("%s.substring(%a0)", r, system.Integer(int32(st)))
			c.Emit(fmt.Sprintf("ssub1 %s %d", hs, st), outTokens(o), nt)
			if st < 0 || st >= int64(L) {
				c.Law(outTokens(o) == "ok:[]", "C14/out-of-range-not-empty", "out-of-range positions yield empty", fmt.Sprintf("%q.substring(%d)", s, st), outTokens(o))
			} else if o.Err == nil && len(o.Coll) == 1 {
				c.Law(o.Coll[0] == system.String(string(runes[st:])), "C14/substring-characters", "positions count characters", fmt.Sprintf("%q.substring(%d)", s, st), outTokens(o))
			}
			checkUTF8(o, fmt.Sprintf("%q.substring(%d)", s, st))
			// the same position written as a literal in the source (a negative literal is a sign applied to digits)
			if (st < 0 || st > 60000) && st != -2147483648 {
				lo := compileEval(fmt.Sprintf("%%s.substring(%d)", st), nil, envVar("s", r))
				c.Law(outTokens(lo) == outTokens(o), "C14/literal-argument", "a position written as a literal means what the same number supplied as a value means", fmt.Sprintf("%q.substring(%d)", s, st), outTokens(lo)+" vs "+outTokens(o))
				lo2 := compileEval(fmt.Sprintf("%%s.substring(0, %d)", st), nil, envVar("s", r))
				o2 := eval("%s.substring(0, %a0)", r, system.Integer(int32(st)))
				c.Law(outTokens(lo2) == outTokens(o2), "C14/literal-argument", "a length written as a literal means what the same number supplied as a value means", fmt.Sprintf("%q.substring(0, %d)", s, st), outTokens(lo2)+" vs "+outTokens(o2))
			}
			lens := []int64{-1, 2147483647, -2147483648, -2147483647, 2147483646}
			for k := 0; k <= L+2; k++ {
				lens = append(lens, int64(k))
			}
			for _, ln := range lens {
				if L > 6 && c.rng.Intn(3) != 0 {
					continue
				}
				o := eval("%s.substring(%a0, %a1)", r, system.Integer(int32(st)), system.Integer(int32(ln)))
				c.Emit(fmt.Sprintf("ssub2 %s %d %d", hs, st, ln), outTokens(o), nt)
				c.Law(!o.Panicked, "C14/panic", "string functions return a value, empty or an error", fmt.Sprintf("%q.substring(%d,%d)", s, st, ln), o.PanicMsg)
				if st >= 0 && st < int64(L) && ln >= 0 && !o.Panicked {
					end := st + ln
					if end > int64(L) {
						end = int64(L)
					}
					good := o.Err == nil && len(o.Coll) == 1 && o.Coll[0] == system.String(string(runes[st:end]))
					c.Law(good, "C14/substring-characters", "positions and lengths count characters; a length beyond the end yields the rest", fmt.Sprintf("%q.substring(%d,%d)", s, st, ln), outTokens(o))
				}
				checkUTF8(o, fmt.Sprintf("%q.substring(%d,%d)", s, st, ln))
			}
		}
		// s.substring(0,k) & s.substring(k) = s
		for k := 0; k <= L; k++ {
			o := eval("%s.substring(0, %a0) & %s.substring(%a0)", r, system.Integer(int32(k)))
			ok := o.Err == nil && len(o.Coll) == 1 && o.Coll[0] == system.String(s)
			c.Law(ok, "C14/substring-split", "s.substring(0,k) & s.substring(k) = s", fmt.Sprintf("%q k=%d", s, k), outTokens(o))
		}
		// patterns
		pats := []string{"", s}
		for k := 0; k < 6 && L > 0; k++ {
			a := c.rng.Intn(L)
			b := a + 1 + c.rng.Intn(L-a)
			sub := string(runes[a:b])
			pats = append(pats, sub)
			// one-edit near-miss
			rs := []rune(sub)
			rs[c.rng.Intn(len(rs))] = []rune(Pick(c.rng, strAlphabet))[0]
			pats = append(pats, string(rs))
		}
		pats = append(pats, randStr(c.rng, 3))
		// patterns longer than the receiver (by one byte, one character, several)
		pats = append(pats, s+"a", "a"+s, s+s+"é", s+"é", "😀"+s, s+"ab")
		for _, p := range pats {
			hp := hexs(p)
			pv := system.String(p)
			oi := eval("%s.indexOf(%a0)", r, pv)
			c.Emit("sidx "+hs+" "+hp, outTokens(oi), nt)
			oc := eval("%s.contains(%a0)", r, pv)
			c.Emit("scontains "+hs+" "+hp, outTokens(oc), nt)
			ost := eval("%s.startsWith(%a0)", r, pv)
			oen := eval("%s.endsWith(%a0)", r, pv)
			c.Emit("sstarts "+hs+" "+hp, outTokens(ost), nt)
			c.Emit("sends "+hs+" "+hp, outTokens(oen), nt)
			if L > 0 {
				c.Law(outTokens(ost) == fmt.Sprintf("ok:[B:%v]", strings.HasPrefix(s, p)), "C14/prefix-suffix", "startsWith(t) holds exactly when the receiver begins with the characters of t", fmt.Sprintf("%q.startsWith(%q)", s, p), outTokens(ost))
				c.Law(outTokens(oen) == fmt.Sprintf("ok:[B:%v]", strings.HasSuffix(s, p)), "C14/prefix-suffix", "endsWith(t) holds exactly when the receiver ends with the characters of t", fmt.Sprintf("%q.endsWith(%q)", s, p), outTokens(oen))
				wantIdx := -1
				if bi := strings.Index(s, p); bi >= 0 {
					wantIdx = utf8.RuneCountInString(s[:bi])
				}
				c.Law(outTokens(oi) == fmt.Sprintf("ok:[I:%d]", wantIdx), "C14/indexof-oracle", "indexOf(t) is the position, counted in characters, of the first occurrence of t (-1 if there is none)", fmt.Sprintf("%q.indexOf(%q)", s, p), outTokens(oi))
			}
			rep := randStr(c.rng, 2)
			if c.rng.Intn(3) == 0 { // a substitution is text, never a template: '$' groups and back-references mean themselves
				rep = Pick(c.rng, []string{"$5", "$$", "$0", "${1}", "$name", "$1x", "\\1", "$", "a$0b", "${0}", "$$$"})
			}
			orp := eval("%s.replace(%a0, %a1)", r, pv, system.String(rep))
			c.Emit("srepl "+hs+" "+hp+" "+hexs(rep), outTokens(orp), nt)
			checkUTF8(orp, "replace")
			if !orp.Panicked && orp.Err == nil {
				c.Law(len(orp.Coll) == 1 && orp.Coll[0] == system.String(strings.ReplaceAll(s, p, rep)), "C14/replace-oracle", "replace(p, r) substitutes every non-overlapping occurrence of p from the left (an empty p matches before every character and at the end)", fmt.Sprintf("%q.replace(%q, %q)", s, p, rep), outTokens(orp))
			}
			// laws
			if oi.Err == nil && len(oi.Coll) == 1 && oc.Err == nil && len(oc.Coll) == 1 {
				idx := int32(oi.Coll[0].(system.Integer))
				c.Law((idx >= 0) == bool(oc.Coll[0].(system.Boolean)), "C14/contains-indexof", "s.contains(t) iff s.indexOf(t) >= 0", fmt.Sprintf("%q %q", s, p), fmt.Sprint(idx, oc.Coll[0]))
				if idx >= 0 && int(idx) < L {
					o := eval("%s.substring(%a0).startsWith(%a1)", r, system.Integer(idx), pv)
					c.Law(outTokens(o) == "ok:[B:true]", "C14/indexof-startswith", "s.indexOf(t) = i >= 0 implies s.substring(i).startsWith(t)", fmt.Sprintf("%q %q i=%d", s, p, idx), outTokens(o))
				}
			}
		}
	}
}
