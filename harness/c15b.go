package main

// C15, parts 2-4: string literals, and the representations of System values.
//  * string literals over an alphabet with every escape, quote, backslash and non-ASCII characters
//    (length 0..10): system.ParseString against the Lean decoder, and the literal evaluated through
//    Compile/Evaluate against the string it was written for;
//  * System <-> proto element conversions for every precision enum and zone;
//  * the repository's FHIR primitive helpers (internal/fhir Parse*, fhirconv *ToString): parse after
//    format is the identity, and the format agrees with google/fhir's JSON rendering.

import (
	"encoding/json"
	"fmt"
	"sort"
	"strings"
	"time"

	dtpb "github.com/google/fhir/go/proto/google/fhir/proto/r4/core/datatypes_go_proto"
	ppb "github.com/google/fhir/go/proto/google/fhir/proto/r4/core/resources/patient_go_proto"
	"github.com/shopspring/decimal"
	"github.com/verily-src/fhirpath-go/fhirpath"
	"github.com/verily-src/fhirpath-go/fhirpath/system"
	"github.com/verily-src/fhirpath-go/internal/fhir"
	"github.com/verily-src/fhirpath-go/internal/fhirconv"
	"google.golang.org/protobuf/proto"
)

// writeLiteral: the FHIRPath string literal for s (backslash and quote escaped)
func writeLiteral(s string) string {
	var b strings.Builder
	b.WriteByte('\'')
	for _, r := range s {
		if r == '\\' || r == '\'' {
			b.WriteByte('\\')
		}
		b.WriteRune(r)
	}
	b.WriteByte('\'')
	return b.String()
}

func runC15Literals(c *Ctx) {
	pieces := []string{"\\'", "\\\"", "\\`", "\\\\", "\\/", "\\f", "\\n", "\\r", "\\t", "\\u0041", "\\u00e9", "\\u65E5", "\\uD83D", "\\u12", "\\uZZZZ", "\\x", "\\", "'", "\"", "`", "/", "a", "b", " ", "é", "日", "😀", "u", "0041", "\n", "%"}
	n := 3000
	if c.thorough {
		n = 60000
	}
	for i := 0; i < n; i++ {
		var b strings.Builder
		k := c.rng.Intn(8)
		for j := 0; j < k; j++ {
			b.WriteString(Pick(c.rng, pieces))
		}
		body := b.String()
		if len([]rune(body)) > 12 {
			continue
		}
		src := "'" + body + "'"
		if c.rng.Intn(6) == 0 {
			src = body // no quotes: ParseString is also handed unquoted text
		}
		var got system.String
		_, pan, _ := safeErr(func() error { got, _ = system.ParseString(src); return nil })
		out := hexs(string(got))
		if pan {
			out = "panic"
		}
		c.Emit("unesc "+hexs(src), out, strings.Contains(body, "\\"))
		c.Count("literal:parse")
	}
	// the literal a writer produces evaluates to the string it was written for
	alphabet := []string{"a", "'", "\\", "\"", "`", "/", "é", "日", "😀", " ", "\n", "\t", "u0041", "%", "$", "@"}
	m := 600
	if c.thorough {
		m = 8000
	}
	for i := 0; i < m; i++ {
		var b strings.Builder
		for j := 0; j < c.rng.Intn(9); j++ {
			b.WriteString(Pick(c.rng, alphabet))
		}
		s := b.String()
		lit := writeLiteral(s)
		c.Observe("lit "+lit, s != "")
		e, err := fhirpath.Compile(lit)
		if err != nil {
			c.Law(false, "C15/literal-compile", "a string literal with escaped backslashes and quotes compiles", lit, err.Error())
			continue
		}
		o := safeEval(func() (system.Collection, error) { return e.Evaluate(nil) })
		good := o.Err == nil && !o.Panicked && len(o.Coll) == 1 && o.Coll[0] == system.String(s)
		c.Law(good, "C15/literal-value", "a string literal evaluates to the string it denotes; other characters are left intact", lit, canonOutcome(o, nil))
		c.Count("literal:evaluate")
	}
	// each escape of the specification
	bs := string(rune(92)) // one backslash
	escapes := map[string]string{bs + "'": "'", bs + "\"": "\"", bs + "`": "`", bs + bs: bs, bs + "/": "/", bs + "f": "\f", bs + "n": "\n", bs + "r": "\r", bs + "t": "\t",
		bs + "u0041": "A", bs + "u00e9": string(rune(0xe9)), bs + "u65E5": string(rune(0x65e5)), bs + "u65e5": string(rune(0x65e5)), bs + "uFFFF": string(rune(0xffff)), bs + "u0000": string(rune(0)), bs + "u007f": string(rune(0x7f))}
	var escKeys []string
	for k := range escapes {
		escKeys = append(escKeys, k)
	}
	sort.Strings(escKeys)
	for _, esc := range escKeys {
		want := escapes[esc]
		// in the middle, at the start, at the very end, alone, doubled, before a quote-like character
		for _, fr := range [][2]string{{"x", "y"}, {"", "y"}, {"x", ""}, {"", ""}, {esc, ""}, {"", esc}, {"x", "0"}, {"x", "u"}, {"é", "日"}} {
			src := "'" + fr[0] + esc + fr[1] + "'"
			exp := strings.ReplaceAll(fr[0], esc, want) + want + strings.ReplaceAll(fr[1], esc, want)
			e, err := fhirpath.Compile(src)
			c.Observe("escape "+src, true)
			if err != nil {
				c.Law(false, "C15/escape", "every FHIRPath escape is decoded", src, err.Error())
				continue
			}
			o := safeEval(func() (system.Collection, error) { return e.Evaluate(nil) })
			good := o.Err == nil && len(o.Coll) == 1 && o.Coll[0] == system.String(exp)
			c.Law(good, "C15/escape", "every FHIRPath escape is decoded, wherever it stands in the literal", src, canonOutcome(o, nil))
		}
	}
	// reference decoder over random mixtures of valid escapes and plain characters
	validPieces := append(append([]string{}, escKeys...), "a", "b", " ", "é", "日", "😀", "u", "0041", "\n", "%", "\"", "`", "/")
	k := 2000
	if c.thorough {
		k = 40000
	}
	for i := 0; i < k; i++ {
		var src, exp strings.Builder
		for j := c.rng.Intn(7); j > 0; j-- {
			p := Pick(c.rng, validPieces)
			src.WriteString(p)
			if w, ok := escapes[p]; ok {
				exp.WriteString(w)
			} else {
				exp.WriteString(p)
			}
		}
		lit := "'" + src.String() + "'"
		got, err := system.ParseString(lit)
		c.Observe("decode "+lit, strings.Contains(lit, bs))
		c.Law(err == nil && string(got) == exp.String(), "C15/escape", "a literal made of valid escapes and plain characters decodes piece by piece", lit, fmt.Sprintf("%q vs %q", string(got), exp.String()))
	}
}

func jsonOf(field string, el proto.Message) (string, bool) {
	p := &ppb.Patient{}
	switch v := el.(type) {
	case *dtpb.Date:
		p.BirthDate = v
	case *dtpb.DateTime:
		p.Deceased = &ppb.Patient_DeceasedX{Choice: &ppb.Patient_DeceasedX_DateTime{DateTime: v}}
	default:
		return "", false
	}
	js, err := marshalJSON(p)
	if err != nil {
		return "", false
	}
	var m map[string]any
	if json.Unmarshal(js, &m) != nil {
		return "", false
	}
	s, ok := m[field].(string)
	return s, ok
}

func runC15Representations(c *Ctx) {
	zones := []string{"UTC", "+05:30", "-11:00", "-03:30", "+14:00", "-00:30", "+00:30", "-00:01", "-00:59", "+00:00", "-12:00"}
	days := []time.Time{}
	for i := 0; i < 12; i++ {
		days = append(days, timeDate(1900+c.rng.Intn(200), 1+c.rng.Intn(12), 1+c.rng.Intn(28), c.rng.Intn(24), c.rng.Intn(60), c.rng.Intn(60), c.rng.Intn(1000000), Pick(c.rng, zones)))
	}
	days = append(days, timeDate(2024, 2, 29, 23, 59, 59, 999999, "-11:00"), timeDate(2000, 1, 1, 0, 0, 0, 0, "UTC"), timeDate(1, 1, 1, 0, 0, 0, 0, "UTC"), timeDate(9999, 12, 31, 23, 59, 59, 0, "+14:00"))
	same := func(a, b system.Any) bool {
		return observeTemporal(a) == observeTemporal(b)
	}
	for _, t := range days {
		_, off := t.Zone()
		tz := "UTC"
		if off != 0 {
			sign := "+"
			o := off
			if o < 0 {
				sign, o = "-", -o
			}
			tz = fmt.Sprintf("%s%02d:%02d", sign, o/3600, o%3600/60)
		}
		// ---- DateTime elements of every precision
		for _, p := range []dtpb.DateTime_Precision{dtpb.DateTime_YEAR, dtpb.DateTime_MONTH, dtpb.DateTime_DAY, dtpb.DateTime_SECOND, dtpb.DateTime_MILLISECOND, dtpb.DateTime_MICROSECOND} {
			e := fhir.DateTime(t)
			e.Precision, e.Timezone = p, tz
			in := fmt.Sprintf("DateTime element %v %s %s", p, tz, t.Format(time.RFC3339Nano))
			c.Observe(in, true)
			// helpers: parse after format is the identity; format agrees with the JSON rendering
			str := fhirconv.DateTimeToString(e)
			if js, ok := jsonOf("deceasedDateTime", e); ok {
				c.Law(js == str, "C15/helper-json", "the helpers' string form agrees with google/fhir's JSON rendering", in, str+" vs JSON "+js)
			}
			back, err := fhir.ParseDateTime(str)
			c.Law(err == nil && fhirconv.DateTimeToString(back) == str, "C15/helper-inverse", "parse after format is the identity", in, fmt.Sprintf("%v -> %q -> %v (%v)", e, str, back, err))
			// element -> System -> element keeps value, precision and offset (as far as the precision goes)
			sv, err := system.DateTimeFromProto(e)
			if err != nil {
				c.Law(false, "C15/element-system", "element -> System value succeeds", in, err.Error())
				continue
			}
			if js, ok := jsonOf("deceasedDateTime", e); ok {
				// the System value denotes what the element denotes: its text is the element's JSON text
				// (a partial dateTime is written with a trailing T)
				// same offset spelt Z or +00:00; a System value has no microsecond precision of its own:
				// six fraction digits ending in 000 are the millisecond value
				zulu := func(x string) string {
					x = strings.TrimSuffix(strings.TrimSuffix(x, "+00:00"), "Z")
					if i := strings.IndexByte(x, '.'); i >= 0 && len(x) >= i+7 && x[i+4:i+7] == "000" && (len(x) == i+7 || x[i+7] == '+' || x[i+7] == '-') {
						x = x[:i+4] + x[i+7:]
					}
					return x
				}
				c.Law(zulu(strings.TrimSuffix(sv.String(), "T")) == zulu(js), "C15/element-system-value", "element -> System value keeps the value, the precision and the offset (same text as the element's JSON rendering)", in, sv.String()+" vs JSON "+js)
			}
			again, err2 := system.DateTimeFromProto(sv.ToProtoDateTime())
			c.Law(err2 == nil && same(sv, again), "C15/system-element-system", "System -> element -> System preserves value, precision and offset", in, observeTemporal(sv)+" vs "+observeTemporal(again))
			// the System value's canonical string re-parses to an equal value
			re, err3 := system.ParseDateTime(sv.String())
			c.Law(err3 == nil && same(sv, re), "C15/canonical-string", "the canonical string form re-parses to an equal value", in, fmt.Sprintf("%s -> %q -> %s", observeTemporal(sv), sv.String(), observeTemporal(re)))
		}
		// ---- Date elements
		for _, p := range []dtpb.Date_Precision{dtpb.Date_YEAR, dtpb.Date_MONTH, dtpb.Date_DAY} {
			e := fhir.Date(t)
			e.Precision, e.Timezone = p, tz
			in := fmt.Sprintf("Date element %v %s %s", p, tz, t.Format("2006-01-02"))
			c.Observe(in, true)
			str := fhirconv.DateToString(e)
			if js, ok := jsonOf("birthDate", e); ok {
				c.Law(js == str, "C15/helper-json", "the helpers' string form agrees with google/fhir's JSON rendering", in, str+" vs JSON "+js)
			}
			back, err := fhir.ParseDate(str)
			c.Law(err == nil && fhirconv.DateToString(back) == str, "C15/helper-inverse", "parse after format is the identity", in, fmt.Sprintf("%q (%v)", str, err))
			sv, err := system.DateFromProto(e)
			if err != nil {
				c.Law(false, "C15/element-system", "element -> System value succeeds", in, err.Error())
				continue
			}
			if js, ok := jsonOf("birthDate", e); ok {
				c.Law(sv.String() == js, "C15/element-system-value", "element -> System value keeps the value and the precision (same text as the element's JSON rendering)", in, sv.String()+" vs JSON "+js)
			}
			again, err2 := system.DateFromProto(sv.ToProtoDate())
			c.Law(err2 == nil && same(sv, again), "C15/system-element-system", "System -> element -> System preserves value, precision and offset", in, observeTemporal(sv)+" vs "+observeTemporal(again))
			re, err3 := system.ParseDate(sv.String())
			c.Law(err3 == nil && same(sv, re), "C15/canonical-string", "the canonical string form re-parses to an equal value", in, sv.String())
		}
		// ---- Instant
		for _, p := range []dtpb.Instant_Precision{dtpb.Instant_SECOND, dtpb.Instant_MILLISECOND, dtpb.Instant_MICROSECOND} {
			e := fhir.Instant(t)
			e.Precision, e.Timezone = p, tz
			in := fmt.Sprintf("Instant element %v %s", p, tz)
			c.Observe(in, true)
			str := fhirconv.InstantToString(e)
			back, err := fhir.ParseInstant(str)
			c.Law(err == nil && fhirconv.InstantToString(back) == str, "C15/helper-inverse", "parse after format is the identity", in, fmt.Sprintf("%q (%v)", str, err))
			// element -> System value: the same instant, the same offset, the element's fraction digits
			sv, ferr := system.From(e)
			if ferr != nil {
				c.Law(false, "C15/element-system", "element -> System value succeeds", in, ferr.Error())
				continue
			}
			z := func(x string) string {
				x = strings.TrimSuffix(strings.TrimSuffix(x, "+00:00"), "Z")
				if i := strings.IndexByte(x, '.'); i >= 0 && len(x) >= i+7 && x[i+4:i+7] == "000" && (len(x) == i+7 || x[i+7] == '+' || x[i+7] == '-') {
					x = x[:i+4] + x[i+7:]
				}
				return x
			}
			if dtv, isDT := sv.(system.DateTime); isDT {
				c.Law(z(dtv.String()) == z(str), "C15/element-system-value", "element -> System value keeps the value, the precision and the offset (same text as the element's JSON rendering)", in, dtv.String()+" vs "+str)
			} else {
				c.Law(false, "C15/element-system-value", "an instant element is a DateTime value", in, fmt.Sprintf("%T", sv))
			}
		}
		// ---- Time of day
		us := int64(t.Hour()*3600+t.Minute()*60+t.Second())*1000000 + int64(t.Nanosecond()/1000)
		for _, p := range []dtpb.Time_Precision{dtpb.Time_SECOND, dtpb.Time_MILLISECOND, dtpb.Time_MICROSECOND} {
			e := &dtpb.Time{ValueUs: us, Precision: p}
			in := fmt.Sprintf("Time element %v %d", p, us)
			c.Observe(in, true)
			str := fhirconv.TimeToString(e)
			back, err := fhir.ParseTime(str)
			c.Law(err == nil && fhirconv.TimeToString(back) == str, "C15/helper-inverse", "parse after format is the identity", in, fmt.Sprintf("%q (%v)", str, err))
			sv := system.TimeFromProto(e)
			{
				// the System value denotes what the element denotes: hh:mm:ss with the element's fraction digits
				// (a microsecond element whose last three digits are 000 is the millisecond value)
				tt := time.UnixMicro(us).UTC()
				want := map[dtpb.Time_Precision]string{dtpb.Time_SECOND: tt.Format("15:04:05"), dtpb.Time_MILLISECOND: tt.Format("15:04:05.000"), dtpb.Time_MICROSECOND: tt.Format("15:04:05.000000")}[p]
				if p == dtpb.Time_MICROSECOND && strings.HasSuffix(want, "000") {
					want = want[:len(want)-3]
				}
				c.Law(sv.String() == want, "C15/element-system-value", "element -> System value keeps the value and the precision", in, sv.String()+" vs "+want)
			}
			again := system.TimeFromProto(sv.ToProtoTime())
			c.Law(same(sv, again), "C15/system-element-system", "System -> element -> System preserves value and precision", in, observeTemporal(sv)+" vs "+observeTemporal(again))
			re, err3 := system.ParseTime(sv.String())
			c.Law(err3 == nil && same(sv, re), "C15/canonical-string", "the canonical string form re-parses to an equal value", in, sv.String())
		}
	}
	// ---- starting from literal texts (every layout, with and without an offset, fractions of one to six
	// digits, values below a millisecond included): text -> System -> element -> System, and text -> System -> text
	{
		fr := []string{"", ".0", ".5", ".12", ".000", ".120", ".999", ".0004", ".0010", ".000400", ".123456", ".000001", ".100000", ".00040"}
		offs := []string{"", "Z", "+05:30", "-11:00", "+00:00", "-00:30", "-00:01", "+00:30"}
		for _, d := range []string{"2020-01-01", "1999-12-31", "2024-02-29", "1600-02-29", "0001-01-01", "9999-12-31", "2300-06-15", "1500-03-01", "1677-09-21", "2262-04-12"} {
			for _, hms := range []string{"10:00:00", "23:59:59", "00:00:00"} {
				for _, f := range fr {
					for _, o := range offs {
						txt := d + "T" + hms + f + o
						sv, err := system.ParseDateTime(txt)
						in := "DateTime literal @" + txt
						c.Observe(in, true)
						if err != nil {
							c.Law(false, "C15/literal-read", "a valid date/time literal is read", in, err.Error())
							continue
						}
						again, err2 := system.DateTimeFromProto(sv.ToProtoDateTime())
						c.Law(err2 == nil && same(sv, again), "C15/system-element-system", "System -> element -> System preserves value, precision and offset", in, observeTemporal(sv)+" vs "+observeTemporal(again))
						re, err3 := system.ParseDateTime(sv.String())
						c.Law(err3 == nil && same(sv, re), "C15/canonical-string", "the canonical string form re-parses to an equal value", in, fmt.Sprintf("%s -> %q", observeTemporal(sv), sv.String()))
					}
				}
			}
			for _, part := range []string{d, d[:7], d[:4]} {
				for _, mk := range []string{"", "T"} {
					in := "literal @" + part + mk
					if mk == "T" {
						sv, err := system.ParseDateTime(part + mk)
						if err != nil {
							c.Law(false, "C15/literal-read", "a valid date/time literal is read", in, err.Error())
							continue
						}
						again, err2 := system.DateTimeFromProto(sv.ToProtoDateTime())
						c.Law(err2 == nil && same(sv, again), "C15/system-element-system", "System -> element -> System preserves value, precision and offset", in, observeTemporal(sv)+" vs "+observeTemporal(again))
					} else {
						sv, err := system.ParseDate(part)
						if err != nil {
							c.Law(false, "C15/literal-read", "a valid date/time literal is read", in, err.Error())
							continue
						}
						again, err2 := system.DateFromProto(sv.ToProtoDate())
						c.Law(err2 == nil && same(sv, again), "C15/system-element-system", "System -> element -> System preserves value and precision", in, observeTemporal(sv)+" vs "+observeTemporal(again))
					}
				}
			}
		}
		for _, hms := range []string{"10:00:00", "23:59:59", "00:00:00"} {
			for _, f := range fr {
				txt := hms + f
				in := "Time literal @T" + txt
				c.Observe(in, true)
				sv, err := system.ParseTime(txt)
				if err != nil {
					c.Law(false, "C15/literal-read", "a valid date/time literal is read", in, err.Error())
					continue
				}
				again := system.TimeFromProto(sv.ToProtoTime())
				c.Law(same(sv, again), "C15/system-element-system", "System -> element -> System preserves value and precision", in, observeTemporal(sv)+" vs "+observeTemporal(again))
				re, err3 := system.ParseTime(sv.String())
				c.Law(err3 == nil && same(sv, re), "C15/canonical-string", "the canonical string form re-parses to an equal value", in, fmt.Sprintf("%s -> %q", observeTemporal(sv), sv.String()))
			}
		}
	}
	// ---- Integer literals: decimal digits, leading zeros allowed, nothing else
	for _, n := range []int64{0, 1, 7, 8, 9, 10, 64, 100, 777, 2147483647} {
		for zeros := 0; zeros <= 3; zeros++ {
			lit := strings.Repeat("0", zeros) + fmt.Sprint(n)
			o := compileEval(lit, nil)
			c.Observe("integer literal "+lit, true)
			c.Law(outTokens(o) == fmt.Sprintf("ok:[I:%d]", n), "C15/integer-literal", "an Integer literal evaluates to the value its decimal digits denote", lit, outTokens(o))
			v, err := system.ParseInteger(lit)
			c.Law(err == nil && int64(v) == n, "C15/integer-literal", "an Integer text is read as decimal digits", "ParseInteger("+lit+")", fmt.Sprint(v, err))
			o2 := compileEval("'"+lit+"'.toInteger()", nil)
			c.Law(outTokens(o2) == fmt.Sprintf("ok:[I:%d]", n), "C15/integer-literal", "an Integer text is read as decimal digits", "'"+lit+"'.toInteger()", outTokens(o2))
		}
	}
	for _, bad := range []string{"0x10", "0b1", "0o7", "1_000", "1e3", "٣"} {
		_, err := system.ParseInteger(bad)
		c.Law(err != nil, "C15/integer-literal", "only decimal digits are an Integer text", "ParseInteger("+bad+")", "accepted")
	}
	// ---- decimals: leading / trailing zeros, up to 30 digits
	for i := 0; i < 300; i++ {
		d := randDecimal(c.rng)
		txt := d.String()
		if c.rng.Intn(3) == 0 {
			txt = "00" + strings.TrimPrefix(txt, "-")
		}
		if c.rng.Intn(3) == 0 && strings.Contains(txt, ".") {
			txt += "00"
		}
		c.Observe("decimal "+txt, true)
		sv, err := system.ParseDecimal(txt)
		if err != nil {
			c.Law(false, "C15/decimal-literal", "a valid decimal text parses", txt, err.Error())
			continue
		}
		want, _ := decimal.NewFromString(txt)
		c.Law(decimal.Decimal(sv).Equal(want), "C15/decimal-literal", "a decimal literal denotes its value", txt, sv.String())
		re, err2 := system.ParseDecimal(sv.String())
		c.Law(err2 == nil && decimal.Decimal(re).Equal(decimal.Decimal(sv)), "C15/canonical-string", "the canonical string form re-parses to an equal value", txt, sv.String())
		back, err3 := system.From(sv.ToProtoDecimal())
		bd, _ := back.(system.Decimal)
		c.Law(err3 == nil && decimal.Decimal(bd).Equal(decimal.Decimal(sv)), "C15/system-element-system", "System -> element -> System preserves the value", txt, fmt.Sprint(back))
	}
}
