package main

// Tokens for temporal System values: layout (hex), the components the component-wise path
// reads, and the instant as its UTC tuple.

import (
	"fmt"
	"strings"
	"time"
	"unsafe"

	"github.com/verily-src/fhirpath-go/fhirpath/system"
)

type tmpParts struct {
	t time.Time
	l string
}

func dateParts(d system.Date) tmpParts         { return *(*tmpParts)(unsafe.Pointer(&d)) }
func dateTimeParts(d system.DateTime) tmpParts { return *(*tmpParts)(unsafe.Pointer(&d)) }
func timeParts(d system.Time) tmpParts         { return *(*tmpParts)(unsafe.Pointer(&d)) }

func csv(xs ...int64) string {
	parts := make([]string, len(xs))
	for i, x := range xs {
		parts[i] = fmt.Sprint(x)
	}
	return strings.Join(parts, ",")
}

func utcTuple(t time.Time) string {
	u := t.UTC()
	return csv(int64(u.Year()), int64(u.Month()), int64(u.Day()), int64(u.Hour()), int64(u.Minute()), int64(u.Second())*1000000000+int64(u.Nanosecond()))
}

func temporalToken(v system.Any) (string, bool) {
	switch x := v.(type) {
	case system.Date:
		p := dateParts(x)
		return "Da:" + hexs(p.l) + ":" + csv(int64(p.t.Year()), int64(p.t.Month()), int64(p.t.Day())) + ":" + utcTuple(p.t), true
	case system.DateTime:
		p := dateTimeParts(x)
		_, off := p.t.Zone()
		return "DT:" + hexs(p.l) + ":" + utcTuple(p.t) + ":" + utcTuple(p.t) + ":" + fmt.Sprint(off), true
	case system.Time:
		p := timeParts(x)
		return "T:" + hexs(p.l) + ":" + csv(int64(p.t.Hour()), int64(p.t.Minute()), int64(p.t.Second())*1000000000+int64(p.t.Nanosecond())) + ":" + utcTuple(p.t), true
	}
	return "", false
}
