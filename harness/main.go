// Package main is the correspondence harness.  It is compiled INTO the repository module
// through a build overlay (see /verif/check), so it can call fhirpath/internal/... and
// internal/... in-process without any change to /repo.
//
// usage: harness <property> <tier> <seed> <outdir>
//   writes <outdir>/ops.txt   one model operation per line (input of the Lean driver)
//          <outdir>/impl.txt  the implementation's canonical outcome for the same line
//          <outdir>/meta.json counts, input distribution, samples, direct law failures
package main

import (
	"regexp"
	"bufio"
	"encoding/json"
	"fmt"
	"hash/fnv"
	"os"
	"path/filepath"
	"sort"
	"strconv"
)

type LawFailure struct {
	Class  string `json:"class"`  // stable identifier of the kind of failure (matched against known_findings.json)
	Law    string `json:"law"`    // the law instance that fails, in words
	Input  string `json:"input"`  // concrete replayable input (expression / operands)
	Detail string `json:"detail"` // observed outcomes
}

type Meta struct {
	Property     string         `json:"property"`
	Tier         string         `json:"tier"`
	Seed         uint64         `json:"seed"`
	Evaluations  int            `json:"evaluations"`
	Distinct     int            `json:"distinct_nontrivial"`
	Rule         string         `json:"rule"`
	Exhaustive   bool           `json:"exhaustive"`
	Dist         map[string]int `json:"distribution"`
	Samples      []string       `json:"samples"`
	LawsChecked  int            `json:"laws_checked"`
	LawFailures  []LawFailure   `json:"law_failures"`
	LawFailCount map[string]int `json:"law_failure_counts"`
	Notes        []string       `json:"notes"`
}

type Ctx struct {
	prop, tier string
	seed       uint64
	rng        *RNG
	ops, impl  *bufio.Writer
	meta       Meta
	seen       map[uint64]struct{}
	thorough   bool
}

// Emit records one correspondence line: the operation for the model and what the real
// code produced.  nontrivial says whether the case counts for distinct_nontrivial.
func (c *Ctx) Emit(op, implOut string, nontrivial bool) {
	fmt.Fprintln(c.ops, op)
	fmt.Fprintln(c.impl, implOut)
	c.meta.Evaluations++
	if nontrivial {
		h := fnv.New64a()
		h.Write([]byte(op))
		k := h.Sum64()
		if _, ok := c.seen[k]; !ok {
			c.seen[k] = struct{}{}
			c.meta.Distinct++
		}
	}
	if len(c.meta.Samples) < 12 && (c.meta.Evaluations%97 == 1 || len(c.meta.Samples) < 3) {
		c.meta.Samples = append(c.meta.Samples, op+"  =>  "+implOut)
	}
}

// Observe counts one evaluation of a direct oracle (no model line): used where the tie to the
// source is a regenerated inventory and the property is observed on the implementation itself.
func (c *Ctx) Observe(key string, nontrivial bool) {
	c.meta.Evaluations++
	if nontrivial {
		h := fnv.New64a()
		h.Write([]byte(key))
		k := h.Sum64()
		if _, ok := c.seen[k]; !ok {
			c.seen[k] = struct{}{}
			c.meta.Distinct++
		}
	}
	if len(c.meta.Samples) < 12 && (c.meta.Evaluations%211 == 1 || len(c.meta.Samples) < 3) {
		c.meta.Samples = append(c.meta.Samples, key)
	}
}

func (c *Ctx) Count(key string) { c.meta.Dist[key]++ }

func (c *Ctx) Law(ok bool, class, law, input, detail string) {
	c.meta.LawsChecked++
	if ok {
		return
	}
	c.meta.LawFailCount[class]++
	if c.meta.LawFailCount[class] <= 5 {
		c.meta.LawFailures = append(c.meta.LawFailures, LawFailure{class, law, input, detail})
		lawShapes[class+"\x00"+lawShape(input)] = true
		return
	}
	// beyond the first five of a class: one more per new SHAPE of input (the words of the input, whatever stands between
	// them), so that failures which a recorded finding accounts for cannot crowd out a failure of another kind
	key := class + "\x00" + lawShape(input)
	if !lawShapes[key] && lawExtra[class] < 60 {
		lawShapes[key] = true
		lawExtra[class]++
		c.meta.LawFailures = append(c.meta.LawFailures, LawFailure{class, law, input, detail})
	}
}

var lawShapes = map[string]bool{}
var lawExtra = map[string]int{}
var lawShapeRe = regexp.MustCompile(`[^A-Za-z]+`)

func lawShape(input string) string {
	if len(input) > 200 {
		input = input[:200]
	}
	return lawShapeRe.ReplaceAllString(input, " ")
}

var props = map[string]func(*Ctx){}

func main() {
	if len(os.Args) < 5 {
		fmt.Fprintln(os.Stderr, "usage: harness <property> <tier> <seed> <outdir>")
		os.Exit(2)
	}
	prop, tier := os.Args[1], os.Args[2]
	seed, _ := strconv.ParseUint(os.Args[3], 10, 64)
	out := os.Args[4]
	os.MkdirAll(out, 0o755)
	f, ok := props[prop]
	if !ok {
		names := []string{}
		for k := range props {
			names = append(names, k)
		}
		sort.Strings(names)
		fmt.Fprintf(os.Stderr, "unknown property %s (have %v)\n", prop, names)
		os.Exit(2)
	}
	of, _ := os.Create(filepath.Join(out, "ops.txt"))
	inf, _ := os.Create(filepath.Join(out, "impl.txt"))
	c := &Ctx{prop: prop, tier: tier, seed: seed, rng: NewRNG(seed), ops: bufio.NewWriterSize(of, 1<<20), impl: bufio.NewWriterSize(inf, 1<<20),
		seen: map[uint64]struct{}{}, thorough: tier == "thorough"}
	c.meta = Meta{Property: prop, Tier: tier, Seed: seed, Dist: map[string]int{}, LawFailCount: map[string]int{}, LawFailures: []LawFailure{}, Samples: []string{}, Notes: []string{}}
	f(c)
	c.ops.Flush()
	c.impl.Flush()
	of.Close()
	inf.Close()
	data, _ := json.MarshalIndent(c.meta, "", " ")
	os.WriteFile(filepath.Join(out, "meta.json"), data, 0o644)
}
