package main

// sources whose tokens touch: where one token ends and the next begins is the lexer's decision
var c11Fused = []string{
	"$thiscontains 2", "$indexx", "$totalis Integer", "$this.name", "$thisname", "%vcontains 2", "@T10:00div 2", "1div 2", "1.5e", "1.e", "2 'mg'in 3", "'a'&'b'", "1and 2",
	"@2020-01-01T10:00:00Zand true", "@2020-01-01T10:00:00+05:00.x", "@2020-007", "@2020-1", "@2020-12-1", "@2020-12-01T", "@2020-12-01T1", "@T1", "@T10:0", "@T10:00:00.5x", "@2020T10",
	"1.name", "1..2", "1.5.6", "name.`given`name", "`a``b`", "''''", "'a''b'", "5'mg'", "5days", "5 daysx", "5 day s", "trueand false", "true1", "{}{}", "{ }", "%`a`", "%'a'b", "% v", "%%v",
	"a/*c*/b", "a//c", "a/ /b", "a<=b", "a< =b", "a!=b", "a! =b", "a!~b", "a~b", "a|b", "a||b", "a&&b", "-1", "--1", "+-1", "1-1", "1 -1", "1- 1", "a.b.c", "a . b . c", "a.(b)", "a.[0]", "a[0][1]", "a[]",
	"@2020-01-01T10:00:00.123+05:30-1", "@2020-01-01T10:00:00.123-05:30", "@2020-01-01T10:00:00.123 -05:30", "@2020-01-01T10:00:00Z.x", "@T10:00:00.123.x", "@T10:00+1", "@2020-01+1", "@2020-01-01-1",
}
