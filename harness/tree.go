package main

// Access to the compiled expression tree of a *fhirpath.Expression (unexported field, read
// through reflect+unsafe; nothing is modified) and naming of function/operator closures.

import (
	"reflect"
	"runtime"
	"strings"
	"unsafe"

	"github.com/verily-src/fhirpath-go/fhirpath"
	"github.com/verily-src/fhirpath-go/fhirpath/internal/expr"
)

func exprTree(e *fhirpath.Expression) expr.Expression {
	f := reflect.ValueOf(e).Elem().FieldByName("expression")
	if !f.IsValid() {
		return nil
	}
	v := reflect.NewAt(f.Type(), unsafe.Pointer(f.UnsafeAddr())).Elem()
	x, _ := v.Interface().(expr.Expression)
	return x
}

// funcName returns the short qualified Go name of a function value, e.g. "impl.Power",
// "funcs.unimplemented", "expr.EvaluateAdd".
func funcName(fn any) string {
	rv := reflect.ValueOf(fn)
	if rv.Kind() != reflect.Func || rv.IsNil() {
		return "nil"
	}
	f := runtime.FuncForPC(rv.Pointer())
	if f == nil {
		return "?"
	}
	n := f.Name()
	if i := strings.LastIndex(n, "/"); i >= 0 {
		n = n[i+1:]
	}
	return n
}

// firstFunction finds the outermost FunctionExpression of a compiled tree.
func lastFunction(e expr.Expression) *expr.FunctionExpression {
	switch x := e.(type) {
	case *expr.FunctionExpression:
		return x
	case *expr.ExpressionSequence:
		for i := len(x.Expressions) - 1; i >= 0; i-- {
			if f := lastFunction(x.Expressions[i]); f != nil {
				return f
			}
		}
	}
	return nil
}
