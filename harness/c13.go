package main

// C13 — conversion functions are mutually consistent and round-trip through strings.
// Every item of a pool of System values (every type, precision, boundary), FHIR primitive and
// complex elements, and strings from a grammar of valid / near-valid renderings (plus byte-mutated
// neighbours) x all eight target types, through Compile/Evaluate of `%x.toT()` and
// `%x.convertsToT()`; compared with the Lean model and checked against the laws directly.

import (
	"google.golang.org/protobuf/reflect/protoreflect"
	"google.golang.org/protobuf/proto"
	"strconv"
	"regexp"
	"fmt"
	"strings"
	"time"

	dtpb "github.com/google/fhir/go/proto/google/fhir/proto/r4/core/datatypes_go_proto"
	ppb "github.com/google/fhir/go/proto/google/fhir/proto/r4/core/resources/patient_go_proto"
	cpb "github.com/google/fhir/go/proto/google/fhir/proto/r4/core/codes_go_proto"
	"github.com/shopspring/decimal"
	"github.com/verily-src/fhirpath-go/fhirpath"
	"github.com/verily-src/fhirpath-go/fhirpath/system"
	"github.com/verily-src/fhirpath-go/internal/fhir"
)

func init() { props["C13"] = runC13 }

var convTypes = []string{"Boolean", "Integer", "Decimal", "String", "Date", "DateTime", "Time", "Quantity"}

func wallOf(t time.Time) string {
	_, off := t.Zone()
	return csv(int64(t.Year()), int64(t.Month()), int64(t.Day()), int64(t.Hour()), int64(t.Minute()), int64(t.Second()), int64(t.Nanosecond()), int64(off))
}

// cvToken: the model's token for an item as the conversion functions see it (after system.From).
func cvToken(item any) (tok string, ty string) {
	v, err := system.From(item)
	if err != nil {
		return "C", "none"
	}
	switch x := v.(type) {
	case system.Boolean:
		return fmt.Sprintf("B:%v", bool(x)), "Boolean"
	case system.Integer:
		return fmt.Sprintf("I:%d", int32(x)), "Integer"
	case system.Decimal:
		return "D:" + rawDec(decimal.Decimal(x)), "Decimal"
	case system.String:
		return "S:" + hexs(string(x)), "String"
	case system.Quantity:
		d, u := quantityParts(x)
		return "Q:" + rawDec(d) + ":" + hexs(u), "Quantity"
	case system.Date:
		p := dateParts(x)
		return "Da:" + hexs(p.l) + ":" + wallOf(p.t), "Date"
	case system.DateTime:
		p := dateTimeParts(x)
		return "DT:" + hexs(p.l) + ":" + wallOf(p.t), "DateTime"
	case system.Time:
		p := timeParts(x)
		return "T:" + hexs(p.l) + ":" + wallOf(p.t), "Time"
	}
	return "C", "none"
}

func convOut(o Outcome) (string, any) {
	switch {
	case o.Panicked || o.TimedOut:
		return "panic", nil
	case o.Err != nil:
		return "err", nil
	case len(o.Coll) == 0:
		return "ok:-", nil
	case len(o.Coll) > 1:
		return "ok:many", nil
	}
	t, _ := cvToken(o.Coll[0])
	return "ok:" + t, o.Coll[0]
}

// tableAllows: the FHIRPath conversion table (from -> to), written independently of the model.
func tableAllows(from, to string) bool {
	switch from {
	case "Boolean", "Integer":
		return to == "Boolean" || to == "Integer" || to == "Decimal" || to == "String" || to == "Quantity"
	case "Decimal":
		return to == "Boolean" || to == "Decimal" || to == "String" || to == "Quantity"
	case "String":
		return true
	case "Quantity":
		return to == "Quantity" || to == "String"
	case "Date", "DateTime":
		return to == "Date" || to == "DateTime" || to == "String"
	case "Time":
		return to == "Time" || to == "String"
	}
	return false
}

func c13Strings(c *Ctx) []string {
	out := []string{"1.0", " 1", "+1", "1e3", "T", "yes", "2020-13-01", "24:00", "5 'mg'", "5", "5 days", "", " ", "1", "0", "-1", "-0", "+0", "00", "007", "1.", ".5", "-.5", "1.5.2",
		"1E3", "1e-2", "1e", "e1", "1e+2", "1e2147483648", "1e-2147483649", "2147483647", "2147483648", "-2147483648", "-2147483649", "99999999999999999999", "1_000", "0x10", "१",
		"010", "0010", "0x10", "0X1F", "0b11", "0o17", "017", "1_000", "+010", "-08", "00", "0", "-0", "+0", "2147483648", "-2147483649", "１２", "true", "TRUE", "tRuE", "t", "f", "Y", "N", "no", "NO", "yes ", "1.00", "0.0", "0.00", "İ", "ｔｒｕｅ", "on", "off", "null",
		"2020", "2020-01", "2020-01-01", "2020-02-29", "2019-02-29", "2020-02-30", "2020-00-10", "2020-04-31", "@2020", "@2020-01", "20200101", "2020-1-1", "02020", "0000", "0000-01-01", "9999-12-31", "2020-01-01T", "2020T", "2020-01T", "@2020T",
		"2020-01-01T10", "2020-01-01T5", "2020-01-01T24", "2020-01-01T10:30", "2020-01-01T10:60", "2020-01-01T10:30:59", "2020-01-01T10:30:60", "2020-01-01T10:30:00.000", "2020-01-01T10:30:00.1", "2020-01-01T10:30:00.12", "2020-01-01T10:30:00.1234",
		"2020-01-01T10:30:00.123456", "2020-01-01T10:30:00.123456789", "2020-01-01T10:30:00.1234567891", "2020-01-01T10:30:00,123", "2020-01-01T10:30:00.+12", "2020-01-01T10:30:00.-12", "2020-01-01T10:30:00.-00", "2020-01-01T10:30:00.",
		"2020-01-01T10:30:00Z", "2020-01-01T10:30:00z", "2020-01-01T10:30:00+05:30", "2020-01-01T10:30:00-11:00", "2020-01-01T10:30:00-00:00", "2020-01-01T10:30:00+00:00", "2020-01-01T10:30:00+24:60", "2020-01-01T10:30:00+25:00", "2020-01-01T10:30:00+05:61",
		"2020-01-01T10:30:00+0530", "2020-01-01T10:30:00+05", "2020-01-01T10:30:00.000Z", "2020-01-01T10:30:00.000+05:30", "2020-01-01T10:30:00.5Z", "2020-01-01T10:30:00.123456+05:30", "2020-01-01T10:30Z", "2020-01-01T10:30+05:30", "2020-01-01T10Z", "2020-01-01T10+05:30",
		"2020-01-01T10:30:00 Z", "2020-01-01 10:30:00", "2020-01-01t10:30:00", "2020-02-30T10:30:00Z", "2020-01-01T10:30:00Zx",
		"24:00", "23:59", "23:59:59", "23:59:59.999", "23:59:59.9999", "23:59:60", "00:00:00.000", "5:04", "10", "1", "10:5", "T10:00", "@T10:00", "@T10", "TT10", "@10:30", "T@T10:30:00.000", "@@T10", "T10:30:00", "@T@T10", "@2020-01-01T10:30:00Z", "@@2020", "T2020", "@T2020-01-01", "10:00:00,5", "10:00:00.+12", "10:00Z", "10:00:00+01:00",
		// integer texts longer than the longest int32 text (leading zeros), characters that only Unicode case folding maps to ASCII letters
		"000000000042", "+00000000042", "-000000000007", "00000000000000000001", "0000000000000", "-00000000000", "+2147483647", "+02147483647", "-02147483648", "yeſ", "falſe", "ſ", "noſ", "YEſ", "\u212a", "truе",
		"5 'mg'", "5 mg", "5mg", "5'mg'", "5  'mg'", "5\t'mg'", "5 \n'mg'",
		// white space that starts with a tab / newline / form feed / carriage return and goes on with a blank; no white space
		// before a quoted unit that contains a blank
		"5\t 'mg'", "5\n days", "-1.5\r 'kg'", "5\f 'mg'", "5\t\t 'mg'", "5\t mg", "5'a b'", "0.5'mm Hg'", "5' '", "5\n 'a b'", "5 mg/dL", "5 'mg/dL'", "+5.0 'a b'", "5 ''", "5 'mg' x", "1.5e3 'mg'", " 5 'mg'", "5 'mg' ", "5 days", "5 day", "5.5 years", "5.'mg'", "5. 'mg'", "-5.25 '1'", "5 '", "5 'a'b'", "5 'é'", "5 é", "100           km", "5 kg m", "5 '  '", "٥ 'mg'",
	}
	// generated renderings: every layout x values x offsets x fraction digits
	offs := []string{"", "Z", "+05:30", "-11:00", "+00:00", "-03:30", "+14:00"}
	for i := 0; i < 150; i++ {
		y, mo, d := c.rng.Intn(10000), 1+c.rng.Intn(12), 1+c.rng.Intn(31)
		h, mi, s := c.rng.Intn(25), c.rng.Intn(61), c.rng.Intn(61)
		date := fmt.Sprintf("%04d-%02d-%02d", y, mo, d)
		var str string
		switch c.rng.Intn(9) {
		case 0:
			str = fmt.Sprintf("%04d", y)
		case 1:
			str = fmt.Sprintf("%04d-%02d", y, mo)
		case 2:
			str = date
		case 3:
			str = fmt.Sprintf("%sT%02d%s", date, h, Pick(c.rng, offs))
		case 4:
			str = fmt.Sprintf("%sT%02d:%02d%s", date, h, mi, Pick(c.rng, offs))
		case 5:
			str = fmt.Sprintf("%sT%02d:%02d:%02d%s", date, h, mi, s, Pick(c.rng, offs))
		case 6:
			frac := fmt.Sprintf("%09d", c.rng.Intn(1000000000))[:c.rng.Intn(10)]
			str = fmt.Sprintf("%sT%02d:%02d:%02d.%s%s", date, h, mi, s, frac, Pick(c.rng, offs))
		case 7:
			frac := fmt.Sprintf("%09d", c.rng.Intn(1000000000))[:c.rng.Intn(7)]
			str = fmt.Sprintf("%02d:%02d:%02d.%s", h, mi, s, frac)
		default:
			str = Pick(c.rng, []string{fmt.Sprintf("%02d:%02d:%02d", h, mi, s), fmt.Sprintf("%02d:%02d", h, mi), fmt.Sprintf("%02d", h), date + "T", fmt.Sprintf("%04d-%02dT", y, mo), fmt.Sprintf("%04dT", y)})
		}
		out = append(out, str)
	}
	for i := 0; i < 60; i++ {
		d := randDecimal(c.rng)
		out = append(out, d.String(), d.String()+" '"+Pick(c.rng, []string{"mg", "1", "kg/m2", "a b"})+"'", d.String()+" "+Pick(c.rng, []string{"days", "year", "mg", "ms"}), fmt.Sprint(randInt32(c.rng)))
	}
	// byte-mutated neighbours
	n := len(out)
	for i := 0; i < n; i++ {
		if c.rng.Intn(2) == 0 || out[i] == "" {
			continue
		}
		bs := []byte(out[i])
		k := c.rng.Intn(len(bs))
		switch c.rng.Intn(5) {
		case 0:
			bs[k] = "0123456789+-.:TZ' ,e"[c.rng.Intn(20)]
		case 1:
			bs = append(bs[:k], bs[k+1:]...)
		case 2:
			bs = append(bs[:k], append([]byte{"0+-.:TZ' "[c.rng.Intn(9)]}, bs[k:]...)...)
		case 3:
			bs[k] = byte(c.rng.Intn(256))
		default:
			bs = append(bs, "0Z' .e"[c.rng.Intn(6)])
		}
		out = append(out, string(bs))
	}
	return out
}

func runC13(c *Ctx) {
	c.meta.Rule = "items: Booleans; Integers (boundaries, random); Decimals (signs, leading/trailing zeros, positive and negative exponents, 30+ digits); Quantities over units {mg, 1, '', mg/dL, 'a b', days, kg.m2}; Date/DateTime/Time values of every layout x offsets {none, Z, +05:30, -11:00, -03:30, +14:00} from literals and from proto elements of every precision (incl. microseconds); FHIR primitive elements of 15 kinds; complex elements and resources; strings from a grammar of valid / near-valid renderings of every target type (~260 fixed, ~450 generated) plus byte-mutated neighbours; x 8 target types x {toT, convertsToT}; non-trivial = conversion yields a value; distinct by line"
	type compiledPair struct{ to, cvt, idem, rt *fhirpath.Expression }
	exprs := map[string]compiledPair{}
	derived := map[string]*fhirpath.Expression{}
	for _, t := range convTypes {
		mk := func(src string) *fhirpath.Expression {
			e, err := fhirpath.Compile(src)
			if err != nil {
				c.meta.Notes = append(c.meta.Notes, "does not compile: "+src+": "+err.Error())
				return nil
			}
			return e
		}
		exprs[t] = compiledPair{mk("%x.to" + t + "()"), mk("%x.convertsTo" + t + "()"), mk("%x.to" + t + "().to" + t + "()"), mk("%x.toString().to" + t + "() = %x")}
		derived[t] = mk("%x.to" + t + "().toString().to" + t + "() = %x.to" + t + "()")
	}
	input := []fhir.Resource{mustResource(`{"resourceType":"Patient","id":"p"}`)}
	eval := func(e *fhirpath.Expression, x any) Outcome {
		if e == nil {
			return Outcome{Err: fmt.Errorf("not compiled")}
		}
		return safeEval(func() (system.Collection, error) { return e.Evaluate(input, envVar("x", x)) })
	}

	var items []any
	var descs []string
	add := func(x any, d string) { items = append(items, x); descs = append(descs, d) }
	add(system.Boolean(true), "true")
	add(system.Boolean(false), "false")
	for _, i := range intBoundary {
		add(system.Integer(i), fmt.Sprint(i))
	}
	for i := 0; i < 20; i++ {
		v := randInt32(c.rng)
		add(system.Integer(v), fmt.Sprint(v))
	}
	for _, s := range []string{"0", "0.0", "1.0", "1", "1.50", "-0.5", "100", "0.001", "-0.000", "123456789012345678901234567890.123", "0.10", "10", "1.00", "-1.0", "2147483648", "0.5"} {
		add(system.MustParseDecimal(s), s)
	}
	for _, d := range []decimal.Decimal{decimal.New(1, 2), decimal.New(-15, -1), decimal.New(0, -3), decimal.New(5, 0), decimal.New(0, 5), decimal.New(-7, 3), decimal.New(10, -1), decimal.New(100, -2), decimal.New(1, -20)} {
		add(system.Decimal(d), "decimal.New "+rawDec(d))
	}
	for i := 0; i < 30; i++ {
		d := randDecimal(c.rng)
		add(system.Decimal(d), d.String())
	}
	for _, u := range []string{"mg", "1", "", "mg/dL", "a b", "days", "day", "kg.m2", "years", "'", "é"} {
		for _, n := range []string{"5", "-0.50", "100", "1.5"} {
			q, err := system.ParseQuantity(n, u)
			if err == nil {
				add(q, n+" '"+u+"'")
			}
		}
	}
	temporal := []string{"2020", "2020-03", "2020-03-09", "0001-01-01", "9999-12-31", "2024-02-29"}
	for _, s := range temporal {
		if d, err := system.ParseDate(s); err == nil {
			add(d, "@"+s)
		} else {
			c.Law(false, "C13/valid-literal", "a valid Date text is read", s, err.Error())
		}
	}
	for _, s := range []string{"2020T", "2020-03T", "2020-03-09T", "2020-03-09T10", "2020-03-09T10Z", "2020-03-09T10:30", "2020-03-09T10:30+05:30", "2020-03-09T10:30:59", "2020-03-09T10:30:59Z", "2020-03-09T10:30:59-11:00",
		"2020-03-09T10:30:59.000", "2020-03-09T10:30:59.123Z", "2020-03-09T10:30:59.120-03:30", "2020-03-09T23:59:59.999+14:00", "0001-01-01T00:00:00.000Z", "9999-12-31T23:59:59.999-11:00", "2024-02-29T00:00:00+00:00", "2020-03-09T10:30:59.123456Z"} {
		if d, err := system.ParseDateTime(s); err == nil {
			add(d, "@"+s)
		} else {
			c.meta.Notes = append(c.meta.Notes, "pool literal does not parse: "+s)
			c.Law(false, "C13/valid-literal", "a valid DateTime text (every precision, offsets up to +14:00) is read", s, err.Error())
		}
	}
	for _, s := range []string{"10", "10:30", "10:30:59", "10:30:59.123", "00:00:00.000", "23:59:59.999", "10:30:59.120"} {
		if d, err := system.ParseTime(s); err == nil {
			add(d, "@T"+s)
		} else {
			c.Law(false, "C13/valid-literal", "a valid Time text is read", s, err.Error())
		}
	}
	// every accepted spelling of a Boolean in every letter case, and integer strings around the int32 range
	boolSpellings := map[string]bool{"true": true, "t": true, "yes": true, "y": true, "1": true, "1.0": true, "false": false, "f": false, "no": false, "n": false, "0": false, "0.0": false}
	toB, cvB := fhirpath.MustCompile("%x.toBoolean()"), fhirpath.MustCompile("%x.convertsToBoolean()")
	for sp, want := range boolSpellings {
		variants := []string{sp, strings.ToUpper(sp), strings.ToUpper(sp[:1]) + sp[1:], sp[:1] + strings.ToUpper(sp[1:])}
		if len(sp) > 2 {
			variants = append(variants, sp[:2]+strings.ToUpper(sp[2:3])+sp[3:], strings.ToUpper(sp[:2])+sp[2:])
		}
		for _, v := range variants {
			o := safeEval(func() (system.Collection, error) { return toB.Evaluate(nil, envVar("x", system.String(v))) })
			o2 := safeEval(func() (system.Collection, error) { return cvB.Evaluate(nil, envVar("x", system.String(v))) })
			c.Observe("boolean spelling "+v, true)
			good := o.Err == nil && len(o.Coll) == 1 && o.Coll[0] == system.Boolean(want) && o2.Err == nil && len(o2.Coll) == 1 && o2.Coll[0] == system.Boolean(true)
			c.Law(good, "C13/boolean-spellings", "the Boolean spellings true/t/yes/y/1/1.0 and false/f/no/n/0/0.0 convert in every letter case", fmt.Sprintf("%q", v), canonOutcome(o, nil)+" / convertsToBoolean "+canonOutcome(o2, nil))
		}
	}
	// strings that are NOT one of the twelve spellings, however a case-insensitive comparison is done (Unicode simple
	// folding maps U+017F to 's' and U+212A to 'k'; full-width and Cyrillic look-alikes; blanks)
	for _, v := range []string{"yeſ", "falſe", "YEſ", "FALſE", "ｔｒｕｅ", "truе", "уes", " yes", "no ", "tr ue", "ye", "fals", "tru", "10", "1.00", "0.00", "01", "+1", "-0", "yes\n", "İ", "\u212a"} {
		o := safeEval(func() (system.Collection, error) { return toB.Evaluate(nil, envVar("x", system.String(v))) })
		o2 := safeEval(func() (system.Collection, error) { return cvB.Evaluate(nil, envVar("x", system.String(v))) })
		c.Observe("boolean near miss "+v, true)
		good := o.Err == nil && len(o.Coll) == 0 && o2.Err == nil && len(o2.Coll) == 1 && o2.Coll[0] == system.Boolean(false)
		c.Law(good, "C13/boolean-spellings", "only the twelve Boolean spellings (ASCII letters, any case) convert to a Boolean", fmt.Sprintf("%q", v), canonOutcome(o, nil)+" / convertsToBoolean "+canonOutcome(o2, nil))
	}
	// elements
	mk := func(y, mo, d, h, mi, s, us int, tz string) time.Time { return timeDate(y, mo, d, h, mi, s, us, tz) }
	for _, tz := range []string{"UTC", "+05:30", "-11:00", "+14:00", "-12:00", "+12:45", "Z", "+00:00", "-00:30"} {
		t := mk(2020, 3, 9, 10, 30, 59, 123456, tz)
		for _, p := range []dtpb.DateTime_Precision{dtpb.DateTime_YEAR, dtpb.DateTime_MONTH, dtpb.DateTime_DAY, dtpb.DateTime_SECOND, dtpb.DateTime_MILLISECOND, dtpb.DateTime_MICROSECOND} {
			e := fhir.DateTime(t)
			e.Precision = p
			e.Timezone = tz
			add(e, fmt.Sprintf("DateTime element %v %s", p, tz))
		}
		for _, p := range []dtpb.Instant_Precision{dtpb.Instant_SECOND, dtpb.Instant_MILLISECOND, dtpb.Instant_MICROSECOND} {
			e := fhir.Instant(t)
			e.Precision = p
			e.Timezone = tz
			add(e, fmt.Sprintf("Instant element %v %s", p, tz))
		}
		for _, p := range []dtpb.Date_Precision{dtpb.Date_YEAR, dtpb.Date_MONTH, dtpb.Date_DAY} {
			e := fhir.Date(t)
			e.Precision = p
			e.Timezone = tz
			add(e, fmt.Sprintf("Date element %v %s", p, tz))
		}
	}
	for _, p := range []dtpb.Time_Precision{dtpb.Time_SECOND, dtpb.Time_MILLISECOND, dtpb.Time_MICROSECOND} {
		add(&dtpb.Time{ValueUs: (10*3600+30*60+59)*1000000 + 123456, Precision: p}, fmt.Sprintf("Time element %v", p))
	}
	add(fhir.String("5 'mg'"), "String element")
	add(fhir.String("true"), "String element true")
	add(fhir.Integer(5), "Integer element")
	add(&dtpb.PositiveInt{Value: 7}, "PositiveInt element")
	add(&dtpb.UnsignedInt{Value: 0}, "UnsignedInt element")
	add(&dtpb.Decimal{Value: "1.50"}, "Decimal element 1.50")
	add(&dtpb.Decimal{Value: "1e2"}, "Decimal element 1e2")
	add(fhir.Boolean(true), "Boolean element")
	add(fhir.Code("final"), "Code element")
	add(&ppb.Patient_GenderCode{Value: cpb.AdministrativeGenderCode_FEMALE}, "enum code element")
	add(&dtpb.Xhtml{Value: "<div xmlns=\"http://www.w3.org/1999/xhtml\">x</div>"}, "Xhtml element")
	add(&dtpb.Markdown{Value: "**m**"}, "Markdown element")
	add(&dtpb.Canonical{Value: "http://x|1"}, "Canonical element")
	add(&dtpb.Base64Binary{Value: []byte{0xFB, 0xFF}}, "Base64Binary element")
	add(&dtpb.Oid{Value: "urn:oid:1.2"}, "Oid element")
	add(&dtpb.Uuid{Value: "urn:uuid:53fefa32-fcbb-4ff8-8a92-55ee120877b7"}, "Uuid element")
	add(&dtpb.Url{Value: "http://u"}, "Url element")
	add(fhir.URI("http://x"), "Uri element")
	add(fhir.ID("abc"), "Id element")
	add(&dtpb.Quantity{Value: &dtpb.Decimal{Value: "5.0"}, Code: &dtpb.Code{Value: "mg"}}, "Quantity element")
	add(&dtpb.Quantity{Value: &dtpb.Decimal{Value: "5"}, Unit: fhir.String("days")}, "Quantity element without code")
	add(&dtpb.Quantity{Unit: fhir.String("mg")}, "Quantity element without value")
	add(&dtpb.HumanName{Family: fhir.String("Smith")}, "HumanName")
	add(&dtpb.CodeableConcept{Text: fhir.String("x")}, "CodeableConcept")
	add(&dtpb.Coding{Code: fhir.Code("x")}, "Coding")
	add(&dtpb.Period{}, "Period")
	add(input[0], "Patient resource")
	for _, s := range c13Strings(c) {
		add(system.String(s), fmt.Sprintf("%q", s))
	}

	for k, x := range items {
		tok, ty := cvToken(x)
		c.Count("item:" + ty)
		for _, t := range convTypes {
			ex := exprs[t]
			oTo := eval(ex.to, x)
			oCvt := eval(ex.cvt, x)
			toOut, val := convOut(oTo)
			c.Emit("conv "+t+" "+tok, toOut, val != nil)
			cvtOut := "err"
			if oCvt.Err == nil && !oCvt.Panicked && len(oCvt.Coll) == 1 {
				if b, ok := oCvt.Coll[0].(system.Boolean); ok {
					cvtOut = fmt.Sprint(bool(b))
				}
			}
			c.Emit("cvt "+t+" "+tok, cvtOut, cvtOut == "true")
			in := fmt.Sprintf("%s.to%s() with %%x = %s [%s]", "%x", t, descs[k], tok)
			// L2: never an error / panic
			failClass := "C13/to-fails"
			if t == "Integer" && ty == "String" {
				failClass = "C13/toInteger-string-error"
			}
			c.Law(toOut != "err" && toOut != "panic" && toOut != "ok:many", failClass, "toT() on an unconvertible item is empty, not an error", in, canonOutcome(oTo, nil))
			c.Law(cvtOut != "err", "C13/converts-fails", "convertsToT() always answers", in, canonOutcome(oCvt, nil))
			// the result of a conversion is a System value, never the FHIR element it was given
			if val != nil {
				_, isMsg := val.(proto.Message)
				c.Law(!isMsg, "C13/result-type", "the result of toT() is of type T", in, fmt.Sprintf("the result is the element %T itself", val))
			}
			// a String converts to an Integer only if it is an optional sign and decimal digits, and then to the number they denote
			if str, isStr := x.(system.String); isStr && val != nil && t == "Integer" {
				want, perr := strconv.ParseInt(string(str), 10, 32)
				got, isInt := val.(system.Integer)
				c.Law(integerShape.MatchString(string(str)) && perr == nil && isInt && int64(got) == want, "C13/string-shape", "a String that is not an Integer text does not convert to one, and an Integer text converts to the number its decimal digits denote", in, toOut)
			}
			// a String converts to a date / time only if it has the shape of one (an independent, deliberately
			// permissive description of the accepted texts: optional '@' / '@T' marker, digit groups, offset)
			if str, isStr := x.(system.String); isStr && val != nil {
				if re, ok := temporalShapes[t]; ok {
					c.Law(re.MatchString(string(str)), "C13/string-shape", "a String that is not a date / time text does not convert to one", in, toOut)
				}
			}
			// number, white space, a unit in quotes: the quantity has that number and exactly the text between the quotes as its unit
			if str, isStr := x.(system.String); isStr && val != nil && t == "Quantity" {
				if m := quotedQuantity.FindStringSubmatch(string(str)); m != nil {
					q, isQ := val.(system.Quantity)
					want, err := system.ParseQuantity(m[1], m[2])
					c.Law(isQ && err == nil && q.String() == want.String(), "C13/quantity-quoted-unit", "number, white space and a quoted unit convert to the quantity with that number and that unit", in, toOut)
				}
			}
			// L1: convertsTo iff non-empty
			if cvtOut != "err" && toOut != "err" && toOut != "panic" {
				class := "C13/converts-iff"
				if complexItem(x) && t == "String" {
					class = "C13/toString-complex"
				}
				c.Law((cvtOut == "true") == (val != nil), class, "convertsToT() is true exactly when toT() is non-empty", in, "convertsTo="+cvtOut+" to="+toOut)
			}
			if toOut == "err" && cvtOut != "err" {
				// toT() fails (the recorded toInteger finding): it yields no value, so convertsToT() must say false
				c.Law(cvtOut == "false", "C13/converts-iff", "convertsToT() is true exactly when toT() is non-empty", in, "convertsTo="+cvtOut+" while to"+t+"() fails")
			}
			if val == nil {
				c.Count("outcome:" + t + ":" + map[bool]string{true: "empty", false: "error"}[toOut == "ok:-"])
				continue
			}
			c.Count("outcome:" + t + ":value")
			// L3: result type
			_, rty := cvToken(val)
			class := "C13/result-type"
			if complexItem(x) && t == "String" {
				class = "C13/toString-complex"
			}
			c.Law(rty == t, class, "the result of toT() is of type T", in, "result is "+rty+": "+toOut)
			// L4: converting twice equals converting once
			o2 := eval(ex.idem, x)
			out2, _ := convOut(o2)
			if rty == t {
				c.Law(out2 == toOut, "C13/idempotent", "converting twice equals converting once", in, out2+" vs "+toOut)
			}
			// L5': the converted value itself round-trips through its string form
			if rty == t && t != "String" {
				class := "C13/roundtrip"
				if q, ok := val.(system.Quantity); ok {
					if _, u := quantityParts(q); !isLetters(u) {
						class = "C13/roundtrip-quantity-unit"
					}
				}
				o := eval(derived[t], x)
				good := o.Err == nil && !o.Panicked && len(o.Coll) == 1 && o.Coll[0] == system.Boolean(true)
				c.Law(good, class, "x.toString().toT() = x for x already of type T", fmt.Sprintf("y.toString().to%s() = y with y = %%x.to%s(), %%x = %s [%s]", t, t, descs[k], tok), canonOutcome(o, nil)+" (y = "+toOut+")")
			}
			// L6: conversion table
			if ty != "none" {
				c.Law(tableAllows(ty, t), "C13/table", "which conversions succeed follows the FHIRPath conversion table", in, ty+" -> "+t+" succeeded: "+toOut)
			}
		}
		// L5: x.toString().toT() = x for x already of type T
		if ty != "none" && ty != "String" {
			ex := exprs[ty]
			o := eval(ex.rt, x)
			class := "C13/roundtrip"
			if ty == "Quantity" {
				_, u := quantityParts(mustFrom(x).(system.Quantity))
				if !isLetters(u) {
					class = "C13/roundtrip-quantity-unit"
				}
			}
			good := o.Err == nil && !o.Panicked && len(o.Coll) == 1 && o.Coll[0] == system.Boolean(true)
			c.Law(good, class, "x.toString().toT() = x for x already of type T", fmt.Sprintf("%%x.toString().to%s() = %%x with %%x = %s [%s]", ty, descs[k], tok), canonOutcome(o, nil)+" (toString: "+canonOutcome(eval(exprs["String"].to, x), nil)+")")
			c.Observe("roundtrip "+tok, true)
		}
		// L7: Date <-> DateTime keep the precision: a Date widened to a DateTime and narrowed again is the same Date
		if ty == "Date" || ty == "DateTime" {
			o := eval(dateThere, x)
			good := o.Err == nil && !o.Panicked && len(o.Coll) == 1 && o.Coll[0] == system.Boolean(true)
			c.Law(good, "C13/date-datetime-date", "toDate().toDateTime().toDate() = toDate(): widening a Date to a DateTime keeps its precision", fmt.Sprintf("%%x = %s [%s]", descs[k], tok),
				canonOutcome(o, nil)+" (toDate: "+canonOutcome(eval(dateOnly, x), nil)+", then toDateTime: "+canonOutcome(eval(dateWide, x), nil)+")")
		}
	}
}

var (
	dateThere = fhirpath.MustCompile("%x.toDate().toDateTime().toDate() = %x.toDate()")
	dateOnly  = fhirpath.MustCompile("%x.toDate()")
	dateWide  = fhirpath.MustCompile("%x.toDate().toDateTime()")
)

func mustFrom(x any) system.Any {
	v, _ := system.From(x)
	return v
}

func isLetters(s string) bool {
	for _, r := range s {
		if !(r >= 'a' && r <= 'z' || r >= 'A' && r <= 'Z') {
			return false
		}
	}
	return s != ""
}

var _ = strings.TrimSpace

// (Go's time.Parse, which the implementation relies on, also takes a one-digit hour, a comma before the
// fraction and a signed fraction; the model reproduces that and the shapes allow it)
var temporalShapes = map[string]*regexp.Regexp{
	"Time":     regexp.MustCompile(`^(@T)?\d{1,2}(:\d\d(:\d\d([.,][+-]?\d+)?)?)?$`),
	"Date":     regexp.MustCompile(`^@?\d{4}(-\d\d(-\d\d)?)?$`),
	"DateTime": regexp.MustCompile(`^@?\d{4}(-\d\d(-\d\d)?)?(T(\d{1,2}(:\d\d(:\d\d([.,][+-]?\d+)?)?)?)?(Z|[+-]\d\d:\d\d)?)?$`),
}

var quotedQuantity = regexp.MustCompile(`^([+-]?\d+(?:\.\d+)?)\s*'([^']+)'$`)

var integerShape = regexp.MustCompile(`^[+-]?[0-9]+$`)

// complexItem: a FHIR element that is not a primitive (decided from its structure definition kind, not from what the
// implementation can convert): the items the recorded toString() finding is about.
func complexItem(x any) bool {
	m, ok := x.(proto.Message)
	if !ok {
		return false
	}
	d := m.ProtoReflect().Descriptor()
	if q, isQ := x.(*dtpb.Quantity); isQ {
		return q.GetValue() == nil // a quantity without a value has no text either (same recorded finding)
	}
	if isPrimitiveDesc(d) {
		return false
	}
	if vf := d.Fields().ByName("value"); vf != nil && vf.Kind() == protoreflect.EnumKind {
		return false // a code bound to a required value set
	}
	return true
}
