package main

// System value tokens of the line protocol and the shared value pools.

import (
	"fmt"
	"math/big"
	"unsafe"

	dtpb "github.com/google/fhir/go/proto/google/fhir/proto/r4/core/datatypes_go_proto"
	"github.com/shopspring/decimal"
	"github.com/verily-src/fhirpath-go/fhirpath/system"
	"github.com/verily-src/fhirpath-go/internal/fhir"
)

// quantityParts reads the unexported fields of a system.Quantity (same memory layout).
func quantityParts(q system.Quantity) (decimal.Decimal, string) {
	p := (*struct {
		value system.Decimal
		unit  string
	})(unsafe.Pointer(&q))
	return decimal.Decimal(p.value), p.unit
}

func rawDec(d decimal.Decimal) string {
	return fmt.Sprintf("%se%d", d.Coefficient().String(), d.Exponent())
}

// valToken renders a System value as the model's input token (raw coefficient/exponent).
func valToken(v system.Any) string {
	switch x := v.(type) {
	case system.Boolean:
		return fmt.Sprintf("B:%v", bool(x))
	case system.Integer:
		return fmt.Sprintf("I:%d", int32(x))
	case system.Decimal:
		return "D:" + rawDec(decimal.Decimal(x))
	case system.String:
		return "S:" + hexs(string(x))
	case system.Quantity:
		d, u := quantityParts(x)
		return "Q:" + rawDec(d) + ":" + hexs(u)
	case system.Date, system.DateTime, system.Time:
		t, _ := temporalToken(v)
		return t
	}
	return "O:unknown"
}

// outToken renders a result item in the canonical output form (normalised decimals).
func outToken(it any) string {
	switch x := it.(type) {
	case system.Boolean:
		return fmt.Sprintf("B:%v", bool(x))
	case system.Integer:
		return fmt.Sprintf("I:%d", int32(x))
	case system.Decimal:
		return "D:" + canonDec(decimal.Decimal(x))
	case system.String:
		return "S:" + hexs(string(x))
	case system.Quantity:
		d, u := quantityParts(x)
		return "Q:" + canonDec(d) + ":" + hexs(u)
	}
	return canonItem(it, nil)
}

func outTokens(o Outcome) string {
	switch {
	case o.TimedOut:
		return "timeout"
	case o.Panicked:
		return "panic"
	case o.Err != nil:
		return "err:" + errClass(o.Err)
	}
	s := "ok:["
	for i, it := range o.Coll {
		if i > 0 {
			s += ","
		}
		s += outToken(it)
	}
	return s + "]"
}

const (
	maxI32 = 2147483647
	minI32 = -2147483648
)

var intBoundary = []int32{0, 1, -1, 2, -2, 46340, -46340, 46341, -46341, 65536, -65536, maxI32 - 1, maxI32, minI32 + 1, minI32, 3, 7, -7, 10, 100}

func randInt32(r *RNG) int32 {
	switch r.Intn(4) {
	case 0:
		return Pick(r, intBoundary)
	case 1:
		return int32(r.Intn(201) - 100)
	}
	return int32(uint32(r.Next()))
}

// randDecimal: 0..30 fractional digits, up to 40 significant digits, both signs, zero, ties.
func randDecimal(r *RNG) decimal.Decimal {
	switch r.Intn(10) {
	case 0:
		return decimal.New(0, int32(-r.Intn(5)))
	case 1:
		return decimal.New(int64(r.Intn(2001)-1000)*10+5, -1) // x.5 ties
	case 2:
		return decimal.New(int64(Pick(r, intBoundary)), int32(-r.Intn(3)))
	case 3:
		// around the powers of two where 32/64-bit conversions wrap: k*2^p + small (+ fraction)
		p := Pick(r, []uint{31, 32, 63, 64, 64, 65, 128})
		base := new(big.Int).Lsh(big.NewInt(int64(1+r.Intn(3))), p)
		base.Add(base, big.NewInt(int64(r.Intn(21)-10)))
		if r.Bool() {
			base.Neg(base)
		}
		d := decimal.NewFromBigInt(base, 0)
		if r.Bool() {
			d = d.Add(decimal.New(int64(r.Intn(1000)), -3))
		}
		return d
	}
	nd := 1 + r.Intn(40)
	digits := make([]byte, nd)
	for i := range digits {
		digits[i] = byte('0' + r.Intn(10))
	}
	if digits[0] == '0' {
		digits[0] = '1'
	}
	s := string(digits)
	if r.Bool() {
		s = "-" + s
	}
	d, _ := decimal.NewFromString(s)
	frac := r.Intn(31)
	return d.Shift(int32(-frac))
}

// asElement wraps a System number as a FHIR element of a random compatible kind (or keeps it).
func asElement(r *RNG, v system.Any) any {
	switch x := v.(type) {
	case system.Integer:
		switch r.Intn(5) {
		case 0:
			return fhir.Integer(int32(x))
		case 1:
			if x > 0 {
				return &dtpb.PositiveInt{Value: uint32(x)}
			}
		case 2:
			if x >= 0 {
				return &dtpb.UnsignedInt{Value: uint32(x)}
			}
		}
	case system.Decimal:
		if r.Intn(4) == 0 {
			return &dtpb.Decimal{Value: decimal.Decimal(x).String()}
		}
	}
	return v
}
