package main

// C20 — wrappers are inverses for every R4 type.  Exhaustive over the 146 resource types and
// the extension value types; random extension lists x every mutator; extraction with paths
// on generated resources (direct oracle: found exactly once, label resolves in the JSON tree).

import (
	"encoding/json"
	"fmt"
	"go/ast"
	"go/parser"
	"go/token"
	"os"
	"regexp"
	"sort"
	"strconv"
	"strings"

	dtpb "github.com/google/fhir/go/proto/google/fhir/proto/r4/core/datatypes_go_proto"
	bcrpb "github.com/google/fhir/go/proto/google/fhir/proto/r4/core/resources/bundle_and_contained_resource_go_proto"
	opb "github.com/google/fhir/go/proto/google/fhir/proto/r4/core/resources/observation_go_proto"
	ppb "github.com/google/fhir/go/proto/google/fhir/proto/r4/core/resources/patient_go_proto"
	"github.com/verily-src/fhirpath-go/fhirpath"
	"github.com/verily-src/fhirpath-go/fhirpath/system"
	"github.com/verily-src/fhirpath-go/internal/bundle"
	"github.com/verily-src/fhirpath-go/internal/containedresource"
	"github.com/verily-src/fhirpath-go/internal/element"
	"github.com/verily-src/fhirpath-go/internal/element/extension"
	"github.com/verily-src/fhirpath-go/internal/fhir"
	"github.com/verily-src/fhirpath-go/internal/protofields"
	"github.com/verily-src/fhirpath-go/internal/resource"
	"google.golang.org/protobuf/proto"
)

func init() { props["C20"] = runC20 }

func extsToken(exts []*dtpb.Extension) string {
	if len(exts) == 0 {
		return "-"
	}
	parts := []string{}
	for _, e := range exts {
		parts = append(parts, fmt.Sprintf("%s=%d", e.GetUrl().GetValue(), e.GetValue().GetInteger().GetValue()))
	}
	return strings.Join(parts, ",")
}

func mkExt(u string, v int) *dtpb.Extension { return extension.New(u, fhir.Integer(int32(v))) }

// runC20WrapperHistory: a wrapper is a mutable holder; after its owner points it at another resource (or at none), unwrapping
// it — directly, through the bundle helpers, or through a path over `entry.resource` — yields the resource it holds NOW.
func runC20WrapperHistory(c *Ctx) {
	mk := func(js string) fhir.Resource { return mustResource(js) }
	pairs := [][2]string{
		{`{"resourceType":"Patient","id":"first"}`, `{"resourceType":"Observation","id":"second","status":"final","code":{"text":"x"}}`},
		{`{"resourceType":"Patient","id":"first"}`, `{"resourceType":"Patient","id":"second"}`},
		{`{"resourceType":"Binary","id":"first","contentType":"text/plain"}`, `{"resourceType":"Patient","id":"second"}`},
		{`{"resourceType":"Organization","id":"first"}`, `{"resourceType":"Location","id":"second"}`},
	}
	for _, pr := range pairs {
		a, b := mk(pr[0]), mk(pr[1])
		what := pr[0] + " then " + pr[1]
		var w *bcrpb.ContainedResource
		_, pan, _ := safeErr(func() error { w = containedresource.Wrap(a); return nil })
		if pan || w == nil {
			c.Law(false, "C20/wrap-unwrap", "wrapping a resource succeeds", what, "panic or nil")
			continue
		}
		entry := &bcrpb.Bundle_Entry{Resource: w}
		bun := &bcrpb.Bundle{Entry: []*bcrpb.Bundle_Entry{entry}}
		idPath := fhirpath.MustCompile("Bundle.entry.resource.id")
		readID := func() string {
			o := safeEval(func() (system.Collection, error) { return idPath.Evaluate([]fhir.Resource{bun}) })
			return canonOutcome(o, nil)
		}
		for round := 0; round < 2; round++ { // twice: whatever the first unwrapping left behind is met by the second
			c.Observe("wrapper history first "+what, true)
			c.Law(containedresource.Unwrap(w) == a, "C20/wrap-unwrap", "unwrapping a wrapped resource returns the very same resource", what+" (before the wrapper is changed)", "another resource")
			c.Law(len(bundle.Unwrap(bun)) == 1 && bundle.Unwrap(bun)[0] == a, "C20/wrapper-history", "a wrapper yields the resource it holds now", "bundle.Unwrap before the change: "+what, "another resource")
		}
		idBefore := readID()
		// the owner points the same wrapper object at the other resource
		w.OneofResource = containedresource.Wrap(b).OneofResource
		got := containedresource.Unwrap(w)
		c.Observe("wrapper history second "+what, true)
		c.Law(got == b, "C20/wrapper-history", "a wrapper yields the resource it holds now", "containedresource.Unwrap after the wrapper was pointed at the second resource: "+what, fmt.Sprintf("%T id %v", got, containedresource.ID(w)))
		us := bundle.Unwrap(bun)
		c.Law(len(us) == 1 && us[0] == b, "C20/wrapper-history", "a wrapper yields the resource it holds now", "bundle.Unwrap after the entry's wrapper was pointed at the second resource: "+what, fmt.Sprint(len(us)))
		idAfter := readID()
		c.Law(idBefore != idAfter && strings.Contains(idAfter, hexs("second")[1:]), "C20/wrapper-history", "a wrapper yields the resource it holds now", "Bundle.entry.resource.id after the entry's wrapper was pointed at the second resource: "+what, idBefore+" then "+idAfter)
		// ... and at none
		w.OneofResource = nil
		c.Law(containedresource.Unwrap(w) == nil, "C20/wrapper-history", "a wrapper yields the resource it holds now", "containedresource.Unwrap after the wrapper was emptied: "+what, "a resource")
	}
}

func runC20(c *Ctx) {
	runC20WrapperHistory(c)
	c.meta.Rule = "exhaustive: all 146 resource types (create by name, TypeOf, contained wrap/unwrap identity, bundle entry wrap/unwrap, bundle order) and all Extension.ValueX member types (FromElement/Unwrap identity, field hit); snake-casing on every table row plus random CamelCase strings; random extension lists (length 0..6 over 3 URLs) x {upsert, setByURL, appendInto, overwrite}; ExtractAllWithPath on generated resources for 6 element types; distinct by operation line"
	// ---- snake casing
	cr := (&bcrpb.ContainedResource{}).ProtoReflect().Descriptor()
	snake := func(name string) {
		got := string(protofields.TypeToContainedResourceOneOfFieldName(name))
		c.Emit("snake "+hexs(name), "ok:"+hexs(got), true)
	}
	for _, n := range resourceNames() {
		snake(n)
	}
	for k := range protofields.Elements {
		snake(k)
	}
	alpha := []string{"A", "B", "Ab", "abc", "X", "Id", "URL", "2", "50", "x", "Base64", "HTTP", "aB", "Zz"}
	for i := 0; i < 3000; i++ {
		var b strings.Builder
		for k := 0; k < 1+c.rng.Intn(5); k++ {
			b.WriteString(Pick(c.rng, alpha))
		}
		snake(b.String())
	}
	// ---- every R4 resource type, enumerated from the ContainedResource oneof (not from the repository's
	// own table): it can be created by name and reports that type
	{
		members := cr.Oneofs().Get(0).Fields()
		for i := 0; i < members.Len(); i++ {
			n := string(members.Get(i).Message().Name())
			var res fhir.Resource
			var nerr error
			_, pan, msg := safeErr(func() error {
				t, err := resource.NewType(n)
				if err != nil {
					nerr = err
					return nil
				}
				res = resource.New(t)
				return nil
			})
			c.Observe("create "+n, true)
			c.Law(!pan && nerr == nil && res != nil && string(resource.TypeOf(res)) == n && resource.IsType(n), "C20/create-by-name", "a new instance of every R4 resource type can be created by name and reports that type", n, fmt.Sprint(nerr, " ", msg))
		}
	}
	// ---- resources: create, TypeOf, wrap/unwrap
	var all []fhir.Resource
	for _, n := range resourceNames() {
		var res fhir.Resource
		_, pan, _ := safeErr(func() error {
			t, err := resource.NewType(n)
			if err != nil {
				return err
			}
			res = resource.New(t)
			return nil
		})
		if pan || res == nil {
			c.Emit("wrap "+n, "panic", true)
			continue
		}
		c.Law(string(resource.TypeOf(res)) == n, "C20/typeof", "a resource created by name reports that type", n, string(resource.TypeOf(res)))
		var w *bcrpb.ContainedResource
		_, pan, _ = safeErr(func() error { w = containedresource.Wrap(res); return nil })
		if pan {
			c.Emit("wrap "+n, "panic", true)
			continue
		}
		fd := w.ProtoReflect().WhichOneof(cr.Oneofs().Get(0))
		field := "none"
		if fd != nil {
			field = string(fd.Name())
		}
		c.Emit("wrap "+n, "ok:"+field, true)
		back := containedresource.Unwrap(w)
		c.Law(back == res, "C20/wrap-unwrap", "unwrapping a wrapped resource returns the very same resource", n, fmt.Sprintf("%p vs %p", back, res))
		e := bundle.NewCollectionEntry(res)
		c.Law(bundle.UnwrapEntry(e) == res, "C20/entry-unwrap", "unwrapping a bundle entry returns the very same resource", n, "")
		for kind, mk := range map[string]func() *bcrpb.Bundle_Entry{
			"POST entry": func() *bcrpb.Bundle_Entry { return bundle.NewPostEntry(res) },
			"PUT entry":  func() *bcrpb.Bundle_Entry { return bundle.NewPutEntry(res) },
			"POST entry with a full URL": func() *bcrpb.Bundle_Entry { return bundle.NewPostEntry(res, bundle.WithGeneratedFullURL()) },
		} {
			var en *bcrpb.Bundle_Entry
			_, epan, _ := safeErr(func() error { en = mk(); return nil })
			if epan {
				c.Count("entry-constructor-panic:" + kind)
				continue
			}
			c.Law(bundle.UnwrapEntry(en) == res, "C20/entry-unwrap", "unwrapping a bundle entry returns the very same resource", n+" in a "+kind, "")
			got := bundle.Unwrap(bundle.NewTransaction(bundle.WithEntries(en)))
			c.Law(len(got) == 1 && got[0] == res, "C20/bundle-order", "a bundle unwraps to its entries' resources in order", n+" in a "+kind+" of a transaction bundle", fmt.Sprint(len(got)))
		}
		all = append(all, res)
	}
	// the exported type constants: each denotes the resource type it is named after (read from the source of
	// internal/resource/consts.go, which is what programs using the package are written against)
	{
		repo := os.Getenv("VERIF_REPO")
		if repo == "" {
			repo = "/repo"
		}
		fset := token.NewFileSet()
		f, err := parser.ParseFile(fset, repo+"/internal/resource/consts.go", nil, 0)
		if err != nil {
			c.meta.Notes = append(c.meta.Notes, "consts.go not read: "+err.Error())
		} else {
			n := 0
			for _, d := range f.Decls {
				gd, ok := d.(*ast.GenDecl)
				if !ok || gd.Tok != token.CONST {
					continue
				}
				for _, sp := range gd.Specs {
					vs, ok := sp.(*ast.ValueSpec)
					if !ok || len(vs.Names) != 1 || len(vs.Values) != 1 {
						continue
					}
					if id, ok := vs.Type.(*ast.Ident); !ok || id.Name != "Type" {
						continue
					}
					lit, ok := vs.Values[0].(*ast.BasicLit)
					if !ok || lit.Kind != token.STRING {
						continue
					}
					val, _ := strconv.Unquote(lit.Value)
					name := vs.Names[0].Name
					n++
					made := "?"
					_, _, _ = safeErr(func() error {
						if r := resource.Type(val).New(); r != nil {
							made = string(r.ProtoReflect().Descriptor().Name())
						}
						return nil
					})
					c.Law(val == name && made == name, "C20/create-by-name", "a new instance of every R4 resource type can be created by name and reports that type", "the constant resource."+name, fmt.Sprintf("has the value %q; Type.New() makes a %s", val, made))
				}
			}
			c.Observe(fmt.Sprintf("type constants of consts.go: %d", n), true)
			c.Law(n >= cr.Oneofs().Get(0).Fields().Len(), "C20/create-by-name", "a new instance of every R4 resource type can be created by name and reports that type", "constants of consts.go", fmt.Sprintf("%d constants for %d resource types", n, cr.Oneofs().Get(0).Fields().Len()))
		}
	}
	// bundle order
	for trial := 0; trial < 20; trial++ {
		n := c.rng.Intn(12)
		var picked []fhir.Resource
		var entries []*bcrpb.Bundle_Entry
		for i := 0; i < n; i++ {
			if c.rng.Intn(4) == 0 {
				// an entry without a resource (e.g. a delete request) unwraps to nil IN PLACE
				picked = append(picked, nil)
				if c.rng.Bool() {
					entries = append(entries, &bcrpb.Bundle_Entry{})
				} else {
					entries = append(entries, bundle.NewDeleteEntry("Patient", "x"))
				}
				continue
			}
			r := Pick(c.rng, all)
			picked = append(picked, r)
			entries = append(entries, bundle.NewCollectionEntry(r))
		}
		b := bundle.NewCollection(bundle.WithEntries(entries...))
		got := bundle.Unwrap(b)
		ok := len(got) == len(picked)
		for i := 0; ok && i < len(got); i++ {
			if picked[i] == nil {
				ok = got[i] == nil || isNilResource(got[i])
			} else {
				ok = got[i] == picked[i]
			}
		}
		c.Law(ok, "C20/bundle-order", "a bundle unwraps to its entries' resources in order", fmt.Sprint(n, " entries"), "")
		// the map form is the same list split by resource type, each part in entry order
		hasNil := false
		for _, p := range picked {
			hasNil = hasNil || p == nil
		}
		// (entries without a resource — a DELETE request entry, an outcome-only entry — have no type: the map holds the others)
		var withResource []fhir.Resource
		for _, p := range picked {
			if p != nil {
				withResource = append(withResource, p)
			}
		}
		what := fmt.Sprint(n, " entries")
		if hasNil {
			what += ", some without a resource"
		}
		c.Law(unwrapMapIsPartition(b, withResource), "C20/bundle-order", "a bundle unwraps to its entries' resources in order (UnwrapMap: the same resources by type, each list in entry order)", what, "")
	}
	// several versions of one resource (a history bundle) and the same resource twice: every entry is kept
	{
		mk := func(id, v string) fhir.Resource {
			return &ppb.Patient{Id: fhir.ID(id), Meta: &dtpb.Meta{VersionId: fhir.ID(v)}}
		}
		p1, p2, p3, q := mk("123", "1"), mk("123", "2"), mk("123", "3"), mk("456", "1")
		o := &opb.Observation{Id: fhir.ID("123")}
		picked := []fhir.Resource{p1, o, p2, q, p3, p1}
		var entries []*bcrpb.Bundle_Entry
		for _, r := range picked {
			entries = append(entries, bundle.NewCollectionEntry(r))
		}
		b := bundle.NewCollection(bundle.WithEntries(entries...))
		got := bundle.Unwrap(b)
		ok := len(got) == len(picked)
		for i := 0; ok && i < len(got); i++ {
			ok = got[i] == picked[i]
		}
		c.Law(ok, "C20/bundle-order", "a bundle unwraps to its entries' resources in order", "history bundle: Patient/123 v1, Observation/123, Patient/123 v2, Patient/456, Patient/123 v3, Patient/123 v1 again", "")
		c.Law(unwrapMapIsPartition(b, picked), "C20/bundle-order", "a bundle unwraps to its entries' resources in order (UnwrapMap: the same resources by type, each list in entry order)", "history bundle: Patient/123 v1, Observation/123, Patient/123 v2, Patient/456, Patient/123 v3, Patient/123 v1 again", "")
	}
	// ---- extension value types
	vx := (&dtpb.Extension_ValueX{}).ProtoReflect().Descriptor().Oneofs().Get(0)
	for i := 0; i < vx.Fields().Len(); i++ {
		fd := vx.Fields().Get(i)
		name := string(fd.Message().Name())
		refs, ok := protofields.Elements[name]
		if !ok {
			c.Emit("extfield "+name, "unregistered", true)
			continue
		}
		el := refs.New().(fhir.Element)
		ext, err := extension.FromElement("http://example.org/e", el)
		if err != nil {
			c.Emit("extfield "+name, "err", true)
			continue
		}
		set := ext.GetValue().ProtoReflect().WhichOneof(vx)
		field := "none"
		if set != nil {
			field = string(set.Name())
		}
		c.Emit("extfield "+name, "ok:"+field, true)
		c.Law(extension.Unwrap(ext) == el, "C20/extension-unwrap", "unwrapping an extension returns the same element", name, "")
		c.Law(ext.GetUrl().GetValue() == "http://example.org/e", "C20/extension-url", "extension carries the url", name, "")
	}
	// ---- upsert substitutes the whole value: nothing of the old value survives, whatever the new value leaves unset
	{
		vx := func(x *dtpb.Extension_ValueX) *dtpb.Extension { return &dtpb.Extension{Url: fhir.URI("u"), Value: x} }
		fullCoding := &dtpb.Coding{System: fhir.URI("s"), Code: fhir.Code("c"), Display: fhir.String("d")}
		vals := map[string]func() *dtpb.Extension_ValueX{
			"Boolean true":  func() *dtpb.Extension_ValueX { return &dtpb.Extension_ValueX{Choice: &dtpb.Extension_ValueX_Boolean{Boolean: fhir.Boolean(true)}} },
			"Boolean false": func() *dtpb.Extension_ValueX { return &dtpb.Extension_ValueX{Choice: &dtpb.Extension_ValueX_Boolean{Boolean: fhir.Boolean(false)}} },
			"Integer 42":    func() *dtpb.Extension_ValueX { return &dtpb.Extension_ValueX{Choice: &dtpb.Extension_ValueX_Integer{Integer: fhir.Integer(42)}} },
			"Integer 0":     func() *dtpb.Extension_ValueX { return &dtpb.Extension_ValueX{Choice: &dtpb.Extension_ValueX_Integer{Integer: fhir.Integer(0)}} },
			"String abc":    func() *dtpb.Extension_ValueX { return &dtpb.Extension_ValueX{Choice: &dtpb.Extension_ValueX_StringValue{StringValue: fhir.String("abc")}} },
			"String empty":  func() *dtpb.Extension_ValueX { return &dtpb.Extension_ValueX{Choice: &dtpb.Extension_ValueX_StringValue{StringValue: fhir.String("")}} },
			"Coding full":   func() *dtpb.Extension_ValueX { return &dtpb.Extension_ValueX{Choice: &dtpb.Extension_ValueX_Coding{Coding: proto.Clone(fullCoding).(*dtpb.Coding)}} },
			"Coding code only": func() *dtpb.Extension_ValueX {
				return &dtpb.Extension_ValueX{Choice: &dtpb.Extension_ValueX_Coding{Coding: &dtpb.Coding{Code: fhir.Code("z")}}}
			},
			"CodeableConcept 2 codings": func() *dtpb.Extension_ValueX {
				return &dtpb.Extension_ValueX{Choice: &dtpb.Extension_ValueX_CodeableConcept{CodeableConcept: &dtpb.CodeableConcept{Coding: []*dtpb.Coding{{Code: fhir.Code("a")}, {Code: fhir.Code("b")}}, Text: fhir.String("t")}}}
			},
			"CodeableConcept 1 coding": func() *dtpb.Extension_ValueX {
				return &dtpb.Extension_ValueX{Choice: &dtpb.Extension_ValueX_CodeableConcept{CodeableConcept: &dtpb.CodeableConcept{Coding: []*dtpb.Coding{{Code: fhir.Code("c")}}}}}
			},
		}
		var names []string
		for n := range vals {
			names = append(names, n)
		}
		sort.Strings(names)
		for _, a := range names {
			for _, b := range names {
				p := &ppb.Patient{Extension: []*dtpb.Extension{{Url: fhir.URI("other"), Value: vals["Integer 42"]()}, vx(vals[a]()), {Url: fhir.URI("v"), Value: vals["String abc"]()}}}
				want := vals[b]()
				extension.Upsert(p, vx(vals[b]()))
				ok := len(p.Extension) == 3 && p.Extension[1].GetUrl().GetValue() == "u" && proto.Equal(p.Extension[1].GetValue(), want) &&
					proto.Equal(p.Extension[0].GetValue(), vals["Integer 42"]()) && proto.Equal(p.Extension[2].GetValue(), vals["String abc"]())
				c.Observe("upsert value "+a+" -> "+b, true)
				c.Law(ok, "C20/upsert-locality", "upsert changes only extensions with that URL (and gives them exactly the new value)", "upsert "+b+" over "+a, fmt.Sprint(p.Extension[1].GetValue()))
			}
		}
	}
	// ---- mutators
	urls := []string{"u1", "u2", "u3", "http://x/flag", "http://x/flag/", "http://x/flag2", "http://x/flag/sub", "HTTP://x/flag"}
	trials := 1500
	if c.thorough {
		trials = 20000
	}
	for t := 0; t < trials; t++ {
		n := c.rng.Intn(7)
		p := &ppb.Patient{}
		for i := 0; i < n; i++ {
			p.Extension = append(p.Extension, mkExt(Pick(c.rng, urls), c.rng.Intn(100)))
		}
		before := extsToken(p.Extension)
		switch c.rng.Intn(4) {
		case 0:
			u, v := Pick(c.rng, urls), 100+c.rng.Intn(100)
			old := append([]*dtpb.Extension{}, p.Extension...)
			extension.Upsert(p, mkExt(u, v))
			c.Emit(fmt.Sprintf("upsert %s %s=%d", before, u, v), "ok:"+extsToken(p.Extension), true)
			c.Law(othersUnchanged(old, p.Extension, u), "C20/upsert-locality", "upsert changes only extensions with that URL", before+" upsert "+u, extsToken(p.Extension))
		case 1:
			u := Pick(c.rng, urls)
			k := c.rng.Intn(3)
			vals := []*dtpb.Integer{}
			vs := []string{}
			for i := 0; i < k; i++ {
				v := 200 + c.rng.Intn(100)
				vals = append(vals, fhir.Integer(int32(v)))
				vs = append(vs, strconv.Itoa(v))
			}
			old := append([]*dtpb.Extension{}, p.Extension...)
			extension.SetByURL(p, u, vals...)
			{
				var withURL []string
				for _, e := range p.Extension {
					if e.GetUrl().GetValue() == u {
						withURL = append(withURL, fmt.Sprint(e.GetValue().GetInteger().GetValue()))
					}
				}
				c.Law(othersUnchanged(old, p.Extension, u) && strings.Join(withURL, ",") == strings.Join(vs, ","), "C20/setbyurl-locality",
					"setByURL leaves other URLs untouched and holds exactly the new values for that URL", before+" setByURL "+u+" "+strings.Join(vs, ","), extsToken(p.Extension))
			}
			vt := "-"
			if k > 0 {
				vt = strings.Join(vs, ",")
			}
			c.Emit(fmt.Sprintf("setbyurl %s %s %s", before, u, vt), "ok:"+extsToken(p.Extension), true)
		case 2:
			k := c.rng.Intn(3)
			add := []*dtpb.Extension{}
			for i := 0; i < k; i++ {
				add = append(add, mkExt(Pick(c.rng, urls), 300+c.rng.Intn(100)))
			}
			extension.AppendInto(p, add...)
			c.Emit(fmt.Sprintf("append %s %s", before, extsToken(add)), "ok:"+extsToken(p.Extension), true)
		default:
			k := c.rng.Intn(3)
			add := []*dtpb.Extension{}
			for i := 0; i < k; i++ {
				add = append(add, mkExt(Pick(c.rng, urls), 400+c.rng.Intn(100)))
			}
			extension.Overwrite(p, add...)
			c.Emit(fmt.Sprintf("overwrite %s %s", before, extsToken(add)), "ok:"+extsToken(p.Extension), true)
		}
	}
	// ---- extraction with locating paths (direct oracle on the implementation)
	g := &ResGen{r: c.rng, maxDepth: 3, density: 50}
	per := 1
	if c.thorough {
		per = 4
	}
	idx := regexp.MustCompile(`^(.*)\[(\d+)\]$`)
	for _, rn := range append(resourceNames(), "deep:QuestionnaireResponse", "deep:Questionnaire", "deep:Contract") {
		for k := 0; k < per; k++ {
			var res fhir.Resource
			var js []byte
			if strings.HasPrefix(rn, "deep:") {
				// hand-made, deeply nested: items within items (eight levels), each with an extension and a coded answer
				js = []byte(deepResourceJSON(strings.TrimPrefix(rn, "deep:"), 8))
				res = mustResource(string(js))
				if k > 0 {
					continue
				}
			} else {
				res, js = g.GenValid(rn, c)
			}
			rn := strings.TrimPrefix(rn, "deep:")
			if res == nil {
				continue
			}
			var tree any
			json.Unmarshal(js, &tree)
			check := func(kind string, found []string, elems []proto.Message, err error) {
				if err != nil {
					c.Count("extract-err:" + kind)
					return
				}
				// every element of that type, exactly once
				want := map[proto.Message]int{}
				walkElements(res, func(e Elem) {
					if string(e.Msg.ProtoReflect().Descriptor().FullName()) == kind {
						want[e.Msg]++
					}
				})
				got := map[proto.Message]int{}
				for _, m := range elems {
					got[m]++
				}
				ok := len(got) == len(want)
				for m, n := range got {
					ok = ok && n == 1 && want[m] == 1
				}
				c.Law(ok, "C20/extract-once", "every element of the type is extracted exactly once", rn+" "+kind+" "+string(js), fmt.Sprintf("got %d distinct of %d extracted, want %d", len(got), len(elems), len(want)))
				// labels locate a node in the JSON tree
				for i, label := range found {
					node, okk := jsonAt(tree, label, idx)
					c.Law(okk, "C20/extract-label", "the label locates the element in the FHIR JSON tree", label+" in "+string(js), fmt.Sprint(node))
					c.Count("extract-labels")
					// through FHIRPath evaluation where no choice-typed step is involved
					// (`reference` of a Reference is a oneof too: FHIRPath synthesises the string, see C02)
					if okk && !hasChoiceStep(label, elems[i]) && !strings.HasSuffix(label, ".reference") && (c.rng.Intn(4) == 0 || strings.Contains(label, "Date") || strings.Contains(label, "date") || strings.Contains(label, "issued") || strings.Contains(label, "ime") || strings.Contains(label, "instant") || strings.Contains(label, "lastUpdated")) {
						o := compileEval(label, []fhir.Resource{res})
						c.Count("extract-evaluated")
						if o.Err == nil && !o.Panicked {
							same := len(o.Coll) == 1 && o.Coll[0] == any(elems[i])
							c.Law(same, "C20/extract-evaluate", "evaluating the label yields that very element", label, fmt.Sprintf("%d items", len(o.Coll)))
						} else {
							c.Count("extract-eval-error")
							c.Law(false, "C20/extract-evaluate", "evaluating the label yields that very element", label, "evaluation fails: "+fmt.Sprint(o.Err, o.PanicMsg))
						}
					}
				}
			}
			{
				r, err := element.ExtractAllWithPath[*dtpb.Reference](res)
				ls, ms := []string{}, []proto.Message{}
				for _, e := range r {
					ls, ms = append(ls, e.FHIRPath), append(ms, e.Element)
				}
				check("google.fhir.r4.core.Reference", ls, ms, err)
			}
			{
				r, err := element.ExtractAllWithPath[*dtpb.Identifier](res)
				ls, ms := []string{}, []proto.Message{}
				for _, e := range r {
					ls, ms = append(ls, e.FHIRPath), append(ms, e.Element)
				}
				check("google.fhir.r4.core.Identifier", ls, ms, err)
			}
			{
				r, err := element.ExtractAllWithPath[*dtpb.Coding](res)
				ls, ms := []string{}, []proto.Message{}
				for _, e := range r {
					ls, ms = append(ls, e.FHIRPath), append(ms, e.Element)
				}
				check("google.fhir.r4.core.Coding", ls, ms, err)
			}
			{
				r, err := element.ExtractAllWithPath[*dtpb.Extension](res)
				ls, ms := []string{}, []proto.Message{}
				for _, e := range r {
					ls, ms = append(ls, e.FHIRPath), append(ms, e.Element)
				}
				check("google.fhir.r4.core.Extension", ls, ms, err)
			}
			{
				r, err := element.ExtractAllWithPath[*dtpb.String](res)
				ls, ms := []string{}, []proto.Message{}
				for _, e := range r {
					ls, ms = append(ls, e.FHIRPath), append(ms, e.Element)
				}
				check("google.fhir.r4.core.String", ls, ms, err)
			}
			{
				r, err := element.ExtractAllWithPath[*dtpb.DateTime](res)
				ls, ms := []string{}, []proto.Message{}
				for _, e := range r {
					ls, ms = append(ls, e.FHIRPath), append(ms, e.Element)
				}
				check("google.fhir.r4.core.DateTime", ls, ms, err)
			}
		}
	}
	_ = sort.Strings
	_ = fhirpath.Compile
	_ = system.Collection{}
}

func isNilResource(r fhir.Resource) bool {
	defer func() { recover() }()
	return r == nil || !r.ProtoReflect().IsValid()
}

// othersUnchanged: the sub-list of extensions whose URL is not u is the same (same pointers, same order).
func othersUnchanged(before, after []*dtpb.Extension, u string) bool {
	var a, b []*dtpb.Extension
	for _, e := range before {
		if e.GetUrl().GetValue() != u {
			a = append(a, e)
		}
	}
	for _, e := range after {
		if e.GetUrl().GetValue() != u {
			b = append(b, e)
		}
	}
	if len(a) != len(b) {
		return false
	}
	for i := range a {
		if a[i] != b[i] {
			return false
		}
	}
	return true
}

// jsonAt resolves a label like Patient.name[0].given[1] / Patient.deceasedBoolean in the JSON tree.
func jsonAt(tree any, label string, idx *regexp.Regexp) (any, bool) {
	steps := strings.Split(label, ".")
	cur := tree
	if m, ok := cur.(map[string]any); !ok || m["resourceType"] != steps[0] {
		return nil, false
	}
	for si, st := range steps[1:] {
		name, k := st, -1
		if mm := idx.FindStringSubmatch(st); mm != nil {
			name = mm[1]
			k, _ = strconv.Atoi(mm[2])
		}
		m, ok := cur.(map[string]any)
		if !ok {
			return nil, false
		}
		v, ok := m[name]
		last := si == len(steps)-2
		isPrim := func(x any) bool {
			switch x.(type) {
			case map[string]any, []any:
				return false
			}
			return true
		}
		pick := func(x any) (any, bool) {
			if k < 0 {
				return x, true
			}
			l, ok := x.([]any)
			if !ok || k >= len(l) {
				return nil, false
			}
			return l[k], true
		}
		var got any
		if ok {
			got, ok = pick(v)
		}
		// a primitive's id/extension live in the `_name` sibling (index-aligned for lists)
		if !ok || (!last && isPrim(got)) || got == nil {
			u, ok2 := m["_"+name]
			if !ok2 {
				if ok && last {
					cur = got
					continue
				}
				return nil, false
			}
			got, ok = pick(u)
			if !ok {
				return nil, false
			}
		}
		cur = got
	}
	return cur, true
}

// hasChoiceStep: the label goes through a choice-typed element (valueString, deceasedBoolean, …);
// recognised structurally: some ancestor of the element is a choice wrapper.
func hasChoiceStep(label string, _ proto.Message) bool {
	for _, st := range strings.Split(label, ".")[1:] {
		for _, suf := range choiceSuffixes {
			if strings.HasSuffix(strings.TrimRight(st, "]0123456789["), suf) && len(st) > len(suf) {
				return true
			}
		}
	}
	return false
}

var choiceSuffixes = func() []string {
	out := []string{}
	vx := (&dtpb.Extension_ValueX{}).ProtoReflect().Descriptor().Oneofs().Get(0)
	for i := 0; i < vx.Fields().Len(); i++ {
		j := vx.Fields().Get(i).JSONName()
		out = append(out, strings.ToUpper(j[:1])+j[1:])
	}
	return out
}()

func unwrapMapIsPartition(b *bcrpb.Bundle, picked []fhir.Resource) bool {
	var m map[resource.Type][]fhir.Resource
	_, pan, _ := safeErr(func() error { m = bundle.UnwrapMap(b); return nil })
	if pan {
		return false
	}
	want := map[resource.Type][]fhir.Resource{}
	for _, r := range picked {
		t := resource.TypeOf(r)
		want[t] = append(want[t], r)
	}
	if len(m) != len(want) {
		return false
	}
	for t, ws := range want {
		gs := m[t]
		if len(gs) != len(ws) {
			return false
		}
		for i := range ws {
			if gs[i] != ws[i] {
				return false
			}
		}
	}
	return true
}

// deepResourceJSON: items nested `depth` levels deep, every level with an extension, a coded answer / code and text.
func deepResourceJSON(rn string, depth int) string {
	var item func(d int) string
	switch rn {
	case "QuestionnaireResponse":
		item = func(d int) string {
			inner := ""
			if d > 1 {
				inner = `,"item":[` + item(d-1) + `]`
			}
			return fmt.Sprintf(`{"extension":[{"url":"http://example.org/l%d","valueString":"s%d"}],"linkId":"l%d","text":"t%d","answer":[{"valueCoding":{"extension":[{"url":"http://example.org/c%d","valueString":"deep%d"}],"system":"http://s","code":"c%d"}}]%s}`, d, d, d, d, d, d, d, inner)
		}
		return `{"resourceType":"QuestionnaireResponse","id":"deep","status":"completed","item":[` + item(depth) + `]}`
	case "Questionnaire":
		item = func(d int) string {
			inner := ""
			if d > 1 {
				inner = `,"item":[` + item(d-1) + `,` + fmt.Sprintf(`{"linkId":"x%d","type":"string","text":"leaf"}`, d) + `]`
			}
			return fmt.Sprintf(`{"extension":[{"url":"http://example.org/l%d","valueCoding":{"system":"http://s","code":"e%d"}}],"linkId":"l%d","code":[{"system":"http://s","code":"c%d","display":"d%d"}],"type":"group","text":"t%d"%s}`, d, d, d, d, d, d, inner)
		}
		return `{"resourceType":"Questionnaire","id":"deep","status":"draft","item":[` + item(depth) + `]}`
	default:
		term := func(d int) string { return "" }
		term = func(d int) string {
			inner := ""
			if d > 1 {
				inner = `,"group":[` + term(d-1) + `]`
			}
			return fmt.Sprintf(`{"extension":[{"url":"http://example.org/l%d","valueString":"s%d"}],"identifier":{"system":"http://s","value":"v%d"},"text":"t%d","offer":{"text":"o%d","party":[{"reference":[{"reference":"Patient/p%d"}],"role":{"coding":[{"system":"http://s","code":"r%d"}]}}]}%s}`, d, d, d, d, d, d, d, inner)
		}
		return `{"resourceType":"Contract","id":"deep","term":[` + term(depth) + `]}`
	}
}
