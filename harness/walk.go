package main

// Walking populated resources: every message-valued element with the schema facts of its position.

import (
	apb "github.com/google/fhir/go/proto/google/fhir/proto/annotations_go_proto"

	bcrpb "github.com/google/fhir/go/proto/google/fhir/proto/r4/core/resources/bundle_and_contained_resource_go_proto"
	"github.com/verily-src/fhirpath-go/internal/containedresource"
	"google.golang.org/protobuf/proto"
	"google.golang.org/protobuf/reflect/protoreflect"
	"google.golang.org/protobuf/types/known/anypb"
)

type Elem struct {
	Msg    proto.Message // the element as stored (possibly a choice wrapper)
	Parent proto.Message
	Field  protoreflect.FieldDescriptor
	Index  int // -1 if not in a list
	Depth  int
}

// walkElements visits every message element below root (depth-first, document order).
func walkElements(root proto.Message, f func(Elem)) {
	var rec func(m proto.Message, depth int)
	rec = func(m proto.Message, depth int) {
		r := m.ProtoReflect()
		fields := r.Descriptor().Fields()
		for i := 0; i < fields.Len(); i++ {
			fd := fields.Get(i)
			if fd.Kind() != protoreflect.MessageKind || !r.Has(fd) {
				continue
			}
			visit := func(v protoreflect.Value, idx int) {
				sub := v.Message().Interface()
				if a, ok := sub.(*anypb.Any); ok {
					cr := &bcrpb.ContainedResource{}
					if a.UnmarshalTo(cr) == nil {
						if res := containedresource.Unwrap(cr); res != nil {
							f(Elem{res, m, fd, idx, depth + 1})
							rec(res, depth+1)
						}
					}
					return
				}
				if cr, ok := sub.(*bcrpb.ContainedResource); ok {
					if res := containedresource.Unwrap(cr); res != nil {
						f(Elem{res, m, fd, idx, depth + 1})
						rec(res, depth+1)
					}
					return
				}
				f(Elem{sub, m, fd, idx, depth + 1})
				rec(sub, depth+1)
			}
			if fd.IsList() {
				l := r.Get(fd).List()
				for k := 0; k < l.Len(); k++ {
					visit(l.Get(k), k)
				}
			} else {
				visit(r.Get(fd), -1)
			}
		}
	}
	rec(root, 0)
}

// throughChoice looks through a choice wrapper (a message whose oneof is named `choice`).
func throughChoice(m proto.Message) proto.Message {
	r := m.ProtoReflect()
	oo := r.Descriptor().Oneofs().ByName("choice")
	if oo == nil {
		return m
	}
	fd := r.WhichOneof(oo)
	if fd == nil || fd.Kind() != protoreflect.MessageKind {
		return m
	}
	return r.Get(fd).Message().Interface()
}

// typeFacts renders the schema facts of an element as the model's item token.
func typeFacts(m proto.Message) string {
	inner := throughChoice(m)
	d := inner.ProtoReflect().Descriptor()
	name := string(d.Name())
	// declared `code`: the structure-definition annotation says the message profiles FHIR's code
	// (independent of the message's name, which the implementation keys on)
	isCode := false
	if opts := d.Options(); opts != nil {
		if bases, ok := proto.GetExtension(opts, apb.E_FhirProfileBase).([]string); ok {
			for _, b := range bases {
				if b == "http://hl7.org/fhir/StructureDefinition/code" {
					isCode = true
				}
			}
		}
	}
	if string(d.FullName()) == "google.fhir.r4.core.Code" {
		isCode = true
	}
	_, nested := d.Parent().(protoreflect.MessageDescriptor)
	modext := d.Fields().ByName("modifier_extension") != nil
	b := func(x bool) string {
		if x {
			return "1"
		}
		return "0"
	}
	return "msg:" + name + ":" + b(isCode) + ":" + b(nested) + ":" + b(modext)
}
