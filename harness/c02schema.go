//go:build verif

package main

import (
	"errors"
	"sort"
	"strings"

	"github.com/verily-src/fhirpath-go/fhirpath/internal/expr"
	"github.com/verily-src/fhirpath-go/fhirpath/system"
	"google.golang.org/protobuf/proto"
	"google.golang.org/protobuf/reflect/protoreflect"
	"google.golang.org/protobuf/reflect/protoregistry"
)

// runC02SchemaSweep: every message-valued element of every R4 message type, reached by its FHIR (JSON) name on a
// message that has just that element: the step never answers "no such element" (exhaustive over the compiled
// descriptors — the generated resources only ever hold a sample of the 1221 types' elements).
func runC02SchemaSweep(c *Ctx) {
	var types []protoreflect.MessageType
	protoregistry.GlobalTypes.RangeMessages(func(mt protoreflect.MessageType) bool {
		if strings.HasPrefix(string(mt.Descriptor().FullName()), "google.fhir.r4.core.") {
			types = append(types, mt)
		}
		return true
	})
	sort.Slice(types, func(i, j int) bool { return types[i].Descriptor().FullName() < types[j].Descriptor().FullName() })
	n := 0
	for ti, mt := range types {
		d := mt.Descriptor()
		if d.Oneofs().Len() > 0 && d.Fields().Len() == d.Oneofs().Get(0).Fields().Len() {
			continue // a choice / resource wrapper: its members are reached through the element that holds it
		}
		fields := d.Fields()
		for i := 0; i < fields.Len(); i++ {
			fd := fields.Get(i)
			if fd.Kind() != protoreflect.MessageKind || fd.IsMap() || fd.ContainingOneof() != nil {
				continue
			}
			// quick tier: every element whose name has a digit or two adjacent capitals (what a case conversion may
			// not survive), the others on a rotating third of the types
			name := fd.JSONName()
			odd := strings.ContainsAny(name, "0123456789") || hasAdjacentCapitals(name)
			if !c.thorough && !odd && (ti+int(c.seed))%3 != 0 {
				continue
			}
			m := mt.New()
			child := m.NewField(fd)
			if fd.IsList() {
				child.List().Append(protoreflect.ValueOfMessage(child.List().NewElement().Message()))
				m.Set(fd, child)
			} else {
				m.Set(fd, child)
			}
			msg := m.Interface()
			coll := system.Collection{msg}
			var err error
			_, pan, pmsg := safeErr(func() error {
				_, err = (&expr.FieldExpression{FieldName: name}).Evaluate(expr.InitializeContext(coll), coll)
				return nil
			})
			n++
			in := string(d.FullName()) + " . " + name
			c.Law(!pan, "C02/panic", "navigation never crashes", in, pmsg)
			c.Law(pan || !(err != nil && errors.Is(err, expr.ErrInvalidField)), "C02/element-unreachable", "every element of every R4 type is reached by its FHIR name", in, "ErrInvalidField")
		}
	}
	c.Observe("schema sweep: message-valued elements stepped into", true)
	c.Count("schema-sweep-steps")
	_ = n
	_ = proto.Equal
}

func hasAdjacentCapitals(s string) bool {
	for i := 1; i < len(s); i++ {
		if s[i] >= 'A' && s[i] <= 'Z' && s[i-1] >= 'A' && s[i-1] <= 'Z' {
			return true
		}
	}
	return false
}
