//go:build verif

package main

import (
	"errors"
	"fmt"
	"sort"
	"strings"

	"github.com/verily-src/fhirpath-go/fhirpath"
	"github.com/verily-src/fhirpath-go/fhirpath/evalopts"
	"github.com/verily-src/fhirpath-go/internal/fhir"
	"github.com/verily-src/fhirpath-go/internal/resource"

	"github.com/verily-src/fhirpath-go/fhirpath/internal/expr"
	"github.com/verily-src/fhirpath-go/fhirpath/system"
	"google.golang.org/protobuf/proto"
	"google.golang.org/protobuf/reflect/protoreflect"
	"google.golang.org/protobuf/reflect/protoregistry"
)

// runC02SchemaSweep: every message-valued element of every R4 message type, reached by its FHIR (JSON) name on a
// message that has just that element: the step never answers "no such element" (exhaustive over the compiled
// descriptors — the generated resources only ever hold a sample of the 1221 types' elements).
func runC02SchemaSweep(c *Ctx) {
	var types []protoreflect.MessageType
	protoregistry.GlobalTypes.RangeMessages(func(mt protoreflect.MessageType) bool {
		if strings.HasPrefix(string(mt.Descriptor().FullName()), "google.fhir.r4.core.") {
			types = append(types, mt)
		}
		return true
	})
	sort.Slice(types, func(i, j int) bool { return types[i].Descriptor().FullName() < types[j].Descriptor().FullName() })
	n := 0
	for ti, mt := range types {
		d := mt.Descriptor()
		if d.Oneofs().Len() > 0 && d.Fields().Len() == d.Oneofs().Get(0).Fields().Len() {
			continue // a choice / resource wrapper: its members are reached through the element that holds it
		}
		fields := d.Fields()
		for i := 0; i < fields.Len(); i++ {
			fd := fields.Get(i)
			if fd.Kind() != protoreflect.MessageKind || fd.IsMap() || fd.ContainingOneof() != nil {
				continue
			}
			// quick tier: every element whose name has a digit or two adjacent capitals (what a case conversion may
			// not survive), the others on a rotating third of the types
			name := fd.JSONName()
			odd := strings.ContainsAny(name, "0123456789") || hasAdjacentCapitals(name) || fpKeywords[name] || bareKeywordNames[name]
			if !c.thorough && !odd && (ti+int(c.seed))%3 != 0 {
				continue
			}
			// a message in which every message-valued element is present (one fresh child each), so that a step that
			// looks at a neighbouring field (min / minValue ...) returns the wrong child
			m := mt.New()
			var own protoreflect.Message
			for j := 0; j < fields.Len(); j++ {
				f2 := fields.Get(j)
				if f2.Kind() != protoreflect.MessageKind || f2.IsMap() || f2.ContainingOneof() != nil {
					continue
				}
				ch := m.NewField(f2)
				var cm protoreflect.Message
				if f2.IsList() {
					cm = ch.List().NewElement().Message()
					ch.List().Append(protoreflect.ValueOfMessage(cm))
				} else {
					cm = ch.Message()
				}
				m.Set(f2, ch)
				if j == i {
					own = cm
				}
			}
			msg := m.Interface()
			coll := system.Collection{msg}
			var err error
			var out system.Collection
			_, pan, pmsg := safeErr(func() error {
				out, err = (&expr.FieldExpression{FieldName: name}).Evaluate(expr.InitializeContext(coll), coll)
				return nil
			})
			if !pan && err == nil && own != nil {
				cd := own.Descriptor()
				wrapper := cd.Name() == "ContainedResource" || cd.FullName() == "google.protobuf.Any" || (cd.Oneofs().Len() > 0 && cd.Fields().Len() == cd.Oneofs().Get(0).Fields().Len())
				if !wrapper {
					okOwn := len(out) == 1
					if okOwn {
						pm, isMsg := out[0].(proto.Message)
						okOwn = isMsg && pm.ProtoReflect() == own
					}
					c.Law(okOwn, "C02/wrong-element", "a step yields exactly the elements of that name", string(d.FullName())+" . "+name+" (every element of the message present)", fmt.Sprintf("%d items: %v", len(out), out))
				}
			}
			n++
			in := string(d.FullName()) + " . " + name
			c.Law(!pan, "C02/panic", "navigation never crashes", in, pmsg)
			c.Law(pan || !(err != nil && errors.Is(err, expr.ErrInvalidField)), "C02/element-unreachable", "every element of every R4 type is reached by its FHIR name", in, "ErrInvalidField")
			// the same step written in an expression: the name as the grammar allows it (keywords that are identifiers bare,
			// other keywords in back-ticks)
			spellings := []string{fpName(name)}
			if bareKeywordNames[name] {
				spellings = append(spellings, name)
			}
			for _, sp := range spellings {
				src := "%x." + sp
				o := safeEval(func() (system.Collection, error) {
					e, err := fhirpath.Compile(src)
					if err != nil {
						return nil, fmt.Errorf("compile: %w", err)
					}
					return e.Evaluate(nil, evalopts.EnvVariable("x", msg))
				})
				bad := o.Panicked || (o.Err != nil && (errors.Is(o.Err, expr.ErrInvalidField) || strings.HasPrefix(o.Err.Error(), "compile:")))
				c.Law(!bad, "C02/element-unreachable", "every element of every R4 type is reached by its FHIR name", in+" written "+src, canonOutcome(o, nil))
			}
		}
	}
	c.Observe("schema sweep: message-valued elements stepped into", true)
	c.Count("schema-sweep-steps")
	_ = n
}

// keywords of the grammar that are also identifiers (identifier: IDENTIFIER | DELIMITEDIDENTIFIER | 'as' | 'contains' | 'in' | 'is')
var bareKeywordNames = map[string]bool{"as": true, "contains": true, "in": true, "is": true}

// runC02ForeignRoots: a root type name selects resources of exactly that type — for every pair of resource type names
// of which one is part of the other (Person / RelatedPerson, Group / RequestGroup, Medication / MedicationRequest ...)
// and a rotating sample of the other pairs.
func runC02ForeignRoots(c *Ctx) {
	types := resourceNames()
	for ti, tn := range types {
		res := resource.New(resource.Type(tn), resource.WithID("x1"))
		if res == nil {
			continue
		}
		for ri, rn := range types {
			related := strings.Contains(strings.ToLower(tn), strings.ToLower(rn)) || strings.Contains(strings.ToLower(rn), strings.ToLower(tn))
			if !related && !c.thorough && (ti*31+ri+int(c.seed))%40 != 0 {
				continue
			}
			src := rn + ".id"
			o := compileEval(src, []fhir.Resource{res})
			want := 0
			if rn == tn {
				want = 1
			}
			c.Observe("root "+rn+" on a "+tn, true)
			c.Law(!o.Panicked && o.Err == nil && len(o.Coll) == want, "C02/foreign-root", "a root type name that does not match the resource yields empty", tn+" :: "+src, canonOutcome(o, nil))
		}
	}
}

func hasAdjacentCapitals(s string) bool {
	for i := 1; i < len(s); i++ {
		if s[i] >= 'A' && s[i] <= 'Z' && s[i-1] >= 'A' && s[i-1] <= 'Z' {
			return true
		}
	}
	return false
}
