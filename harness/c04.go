package main

// C04 — immutable, deterministic, goroutine-safe.  (1) histories of Compile calls with random
// option sets vs the model's tables; (2) G goroutines x E shared compiled expressions x R shared
// resources, results compared with isolated sequential evaluation (built with -race in the
// thorough tier); (3) one instant per evaluation; (4) re-execution under four process time zones.

import (
	"google.golang.org/protobuf/proto"
	"hash/fnv"
	"fmt"
	"os"
	"os/exec"
	"runtime"
	"sort"
	"strings"
	"sync"
	"time"

	dtpb "github.com/google/fhir/go/proto/google/fhir/proto/r4/core/datatypes_go_proto"
	opb "github.com/google/fhir/go/proto/google/fhir/proto/r4/core/resources/observation_go_proto"
	ppb "github.com/google/fhir/go/proto/google/fhir/proto/r4/core/resources/patient_go_proto"
	"github.com/verily-src/fhirpath-go/fhirpath"
	"github.com/verily-src/fhirpath-go/fhirpath/compopts"
	"github.com/verily-src/fhirpath-go/fhirpath/evalopts"
	"github.com/verily-src/fhirpath-go/fhirpath/system"
	"github.com/verily-src/fhirpath-go/internal/fhir"
)

func init() {
	props["C04"] = runC04
	props["tzprobe"] = runTZProbe
	props["orderprobe"] = runOrderProbe
}

var tzPrograms = []string{
	"@2020-03-01T10:00:00-03:30 + 1 month", "@2020-03-01T10:00:00-03:30 + 744 hours", "@2020-04-04T10:00:00+13:45 + 1 day", "@2020-03-08T01:30:00-05:00 + 1 hour",
	"@2020-10-25T00:30:00+01:00 + 2 hours", "@2021-03-28T00:30:00+05:30 + 1 day", "@2020-01-01T10:00:00Z + 1 year", "@2020-01-01 + 1 month", "@T10:00 + 1 hour",
	"@2020-03-01T10:00:00-03:30 = @2020-03-01T13:30:00Z", "@2020-03-29T01:30:00+00:00 + 1 hour", "@2020-11-01T01:30:00-04:00 + 1 hour", "@2020-03-01T10:00:00-03:30.toString()",
	"Patient.birthDate", "Patient.birthDate + 1 day", "Patient.extension.value", "Patient.extension.value + 1 month", "Patient.extension.value.toString()",
}

func tzInput() []fhir.Resource {
	return []fhir.Resource{mustResource(`{"resourceType":"Patient","id":"p","birthDate":"1980-03-09","extension":[{"url":"u","valueDateTime":"2020-03-08T01:30:00-05:00"},{"url":"v","valueDateTime":"2020-04-04T10:00:00+13:45"}]}`)}
}

// elements built in code, whose zone string is empty
func tzBuiltInput() []fhir.Resource {
	day := time.Date(2000, 3, 22, 0, 0, 0, 0, time.UTC).UnixMicro()
	sec := time.Date(2000, 3, 22, 1, 30, 5, 0, time.UTC).UnixMicro()
	return []fhir.Resource{&ppb.Patient{Id: fhir.ID("b"), BirthDate: &dtpb.Date{ValueUs: day, Precision: dtpb.Date_DAY},
		Deceased: &ppb.Patient_DeceasedX{Choice: &ppb.Patient_DeceasedX_DateTime{DateTime: &dtpb.DateTime{ValueUs: sec, Precision: dtpb.DateTime_SECOND}}},
		Meta:     &dtpb.Meta{LastUpdated: &dtpb.Instant{ValueUs: sec, Precision: dtpb.Instant_SECOND}},
		Extension: []*dtpb.Extension{{Url: fhir.URI("m"), Value: &dtpb.Extension_ValueX{Choice: &dtpb.Extension_ValueX_DateTime{DateTime: &dtpb.DateTime{ValueUs: day, Precision: dtpb.DateTime_MONTH}}}},
			{Url: fhir.URI("d"), Value: &dtpb.Extension_ValueX{Choice: &dtpb.Extension_ValueX_Date{Date: &dtpb.Date{ValueUs: day, Precision: dtpb.Date_YEAR}}}}}}}
}

var tzBuiltPrograms = []string{"Patient.birthDate", "Patient.birthDate.toString()", "Patient.birthDate = @2000-03-22", "Patient.birthDate.value", "Patient.birthDate + 1 day", "Patient.deceased", "Patient.deceased.toString()",
	"Patient.deceased.value", "Patient.deceased.toDate()", "Patient.deceased = @2000-03-22T01:30:05Z", "Patient.deceased < @2000-03-22T02:00:00+00:00", "Patient.meta.lastUpdated", "Patient.meta.lastUpdated.toString()", "Patient.meta.lastUpdated.value",
	"Patient.extension.value", "Patient.extension.value.toString()", "Patient.extension.value.value", "Patient.extension.value.toDateTime()", "Patient.descendants().toString()"}

func runTZProbe(c *Ctx) {
	in := tzInput()
	for _, src := range tzPrograms {
		o := compileEval(src, in)
		fmt.Printf("TZPROBE\t%s\t%s\n", src, canonOutcome(o, nil))
	}
	for _, src := range tzBuiltPrograms {
		o := compileEval(src, tzBuiltInput())
		fmt.Printf("TZPROBE\t(elements without a zone) %s\t%s\n", src, canonOutcome(o, nil))
	}
	// un-overridden clock: the readings must be UTC readings whatever the process zone is
	for try := 0; try < 3; try++ {
		t0 := time.Now().UTC()
		now := compileEval("now().toString()", in)
		today := compileEval("today().toString()", in)
		tod := compileEval("timeOfDay().toString()", in)
		t1 := time.Now().UTC()
		if t0.Minute() != t1.Minute() {
			continue // straddled a minute boundary; read again
		}
		str := func(o Outcome) string {
			if o.Err != nil || o.Panicked || len(o.Coll) != 1 {
				return "?"
			}
			s, _ := o.Coll[0].(system.String)
			return string(s)
		}
		n := str(now)
		fmt.Printf("TZPROBE\tnow() offset\t%v\n", strings.HasSuffix(n, "Z") || strings.HasSuffix(n, "+00:00"))
		fmt.Printf("TZPROBE\tnow() is the UTC reading\t%v\n", strings.HasPrefix(n, t0.Format("2006-01-02T15:04")))
		fmt.Printf("TZPROBE\ttoday() is the UTC date\t%v\n", str(today) == t0.Format("2006-01-02"))
		fmt.Printf("TZPROBE\ttimeOfDay() is the UTC time\t%v\n", strings.HasPrefix(str(tod), t0.Format("15:04")))
		break
	}
	c.Emit("noop", "x", false)
}

// orderJobs: (expression, resource) pairs over resources of many types that share element names
// (contact, link, entry, participant ... are nested components of several resource types).
// orderExtra: jobs whose outcome must not depend on earlier ones although they reach the same code with
// different values of one message type: value[x] holders handed over as variables, and navigation that
// keeps the holder (Permissive).
type extraJob struct {
	src   string
	in    []fhir.Resource
	env   []fhirpath.EvaluateOption
	copts []fhirpath.CompileOption
	label string
}

func orderExtra() []extraJob {
	obs := func(js string) []fhir.Resource { return []fhir.Resource{mustResource(js)} }
	oq := obs(`{"resourceType":"Observation","status":"final","code":{"text":"c"},"valueQuantity":{"value":1,"unit":"mg"}}`)
	os_ := obs(`{"resourceType":"Observation","status":"final","code":{"text":"c"},"valueString":"s"}`)
	ob := obs(`{"resourceType":"Observation","status":"final","code":{"text":"c"},"valueBoolean":true}`)
	holders := map[string]fhir.Base{
		"Observation.value[x]=Quantity": &opb.Observation_ValueX{Choice: &opb.Observation_ValueX_Quantity{Quantity: &dtpb.Quantity{Value: &dtpb.Decimal{Value: "1"}}}},
		"Observation.value[x]=string":   &opb.Observation_ValueX{Choice: &opb.Observation_ValueX_StringValue{StringValue: fhir.String("s")}},
		"Extension.value[x]=boolean":    &dtpb.Extension_ValueX{Choice: &dtpb.Extension_ValueX_Boolean{Boolean: fhir.Boolean(true)}},
		"Extension.value[x]=Coding":     &dtpb.Extension_ValueX{Choice: &dtpb.Extension_ValueX_Coding{Coding: &dtpb.Coding{Code: fhir.Code("c")}}},
		"Patient.deceased[x]=boolean":   &ppb.Patient_DeceasedX{Choice: &ppb.Patient_DeceasedX_Boolean{Boolean: fhir.Boolean(false)}},
		"Patient.deceased[x]=dateTime":  &ppb.Patient_DeceasedX{Choice: &ppb.Patient_DeceasedX_DateTime{DateTime: &dtpb.DateTime{ValueUs: 1, Timezone: "Z", Precision: dtpb.DateTime_SECOND}}},
	}
	var hn []string
	for n := range holders {
		hn = append(hn, n)
	}
	sort.Strings(hn)
	var out []extraJob
	for _, n := range hn {
		for _, src := range []string{"%v is Quantity", "%v is string", "%v is boolean", "%v is Coding", "%v is dateTime", "(%v as Quantity).exists()", "%v.ofType(string).exists()", "%v.ofType(boolean)", "%v.toString()", "%v = %v", "%v.children().count()"} {
			out = append(out, extraJob{src: src, in: oq, env: []fhirpath.EvaluateOption{evalopts.EnvVariable("v", holders[n])}, label: "%v=" + n})
		}
	}
	for _, src := range []string{"1.0 / 3.0", "1.0 / 3.00000000000000000000", "2.0 / 7.0", "10 / 3", "1 / 3.0000000000000000000000001", "(1.0 / 3.0).toString()", "7.0 div 0.3", "7.0 mod 0.3", "1.0 / 3.0 = 0.3333333333333333",
		"(2.0 / 3).round(4)", "100 / 7.000000000000000000", "1 / 7"} {
		out = append(out, extraJob{src: src, in: oq, label: "arithmetic"})
	}
	for li, in := range [][]fhir.Resource{oq, os_, ob} {
		for _, src := range []string{"Observation.value is Quantity", "Observation.value is string", "Observation.value is boolean", "Observation.value as Quantity", "Observation.value.ofType(string)", "Observation.value", "Observation.value.toString()",
			"Observation.children().select($this is Quantity)", "Observation.descendants().ofType(Quantity).count()"} {
			out = append(out, extraJob{src: src, in: in, copts: []fhirpath.CompileOption{compopts.Permissive()}, label: fmt.Sprintf("permissive, observation %d", li)})
			out = append(out, extraJob{src: src, in: in, label: fmt.Sprintf("observation %d", li)})
		}
	}
	return out
}

func orderJobs() (srcs []string, inputs [][]fhir.Resource) {
	r := &RNG{s: 424242}
	g := &ResGen{r: r, maxDepth: 2, density: 70}
	types := []string{"TestScript", "CompartmentDefinition", "CapabilityStatement", "OperationDefinition", "SearchParameter", "GraphDefinition", "Patient", "Organization", "Person", "Bundle", "Practitioner", "RelatedPerson", "Encounter", "Appointment", "CareTeam", "Group", "Location", "HealthcareService", "Endpoint", "Observation", "DiagnosticReport", "Composition", "List", "Questionnaire", "QuestionnaireResponse", "ValueSet", "ConceptMap", "CodeSystem", "StructureDefinition", "Claim", "ExplanationOfBenefit", "Contract", "Medication", "MedicationKnowledge", "PlanDefinition", "ActivityDefinition",
		// resources whose short name is also the short name of a component nested in another type of this list
		// (Patient.communication, Encounter.location / diagnosis, CareTeam.participant ...)
		"Communication", "Substance", "Specimen", "Account", "Coverage", "Immunization", "Procedure"}
	dummy := &Ctx{rng: r, meta: Meta{Dist: map[string]int{}, LawFailCount: map[string]int{}}, seen: map[uint64]struct{}{}}
	for _, tn := range types {
		for k := 0; k < 2; k++ {
			res, _ := g.GenValid(tn, dummy)
			if res == nil {
				continue
			}
			for _, e := range []string{"descendants().count()", "children().count()", "children().children().count()", "descendants().where($this is BackboneElement).children().count()", "descendants()", "children().children()",
				"where($this is BackboneElement).count()", "where($this is DomainResource).count()", "descendants().where($this is DomainResource).count()",
				"descendants().where($this is Element).count()", "children().where($this is BackboneElement or $this is Resource).count()"} {
				srcs = append(srcs, tn+"."+e)
				inputs = append(inputs, []fhir.Resource{res})
			}
		}
	}
	return
}

// runOrderProbe evaluates the jobs in the order named by the seed argument (0 forward, 1 backward,
// n>1 a permutation) in this fresh process and prints one line per job.
func runOrderProbe(c *Ctx) {
	srcs, inputs := orderJobs()
	extra := orderExtra()
	nPlain := len(srcs)
	for _, x := range extra {
		srcs = append(srcs, x.src+" ["+x.label+"]")
		inputs = append(inputs, x.in)
	}
	order := make([]int, len(srcs))
	for i := range order {
		order[i] = i
	}
	switch {
	case c.seed == 1:
		for i, j := 0, len(order)-1; i < j; i, j = i+1, j-1 {
			order[i], order[j] = order[j], order[i]
		}
	case c.seed > 1:
		order = (&RNG{s: c.seed * 7919}).Perm(len(order))
	}
	for _, j := range order {
		var o Outcome
		if j >= nPlain {
			x := extra[j-nPlain]
			o = safeEval(func() (system.Collection, error) {
				e, err := fhirpath.Compile(x.src, x.copts...)
				if err != nil {
					return nil, fmt.Errorf("compile: %w", err)
				}
				return e.Evaluate(x.in, x.env...)
			})
		} else {
			o = compileEval(srcs[j], inputs[j])
		}
		out := canonOutcome(o, nil)
		if o.Err == nil && !o.Panicked && len(o.Coll) > 1 {
			// a digest of the VALUES reached (the System value of every primitive), not only of the shape
			h := fnv.New64a()
			for _, it := range o.Coll {
				if v, err := system.From(it); err == nil {
					fmt.Fprintf(h, "%T|%v;", v, v)
				} else if m, ok := it.(proto.Message); ok {
					fmt.Fprintf(h, "%s;", m.ProtoReflect().Descriptor().FullName())
				}
			}
			out = fmt.Sprintf("ok:%d items digest %x", len(o.Coll), h.Sum64())
		}
		fmt.Printf("ORDERPROBE\t%d\t%s\t%s\n", j, srcs[j], out)
	}
	c.Emit("noop", "x", false)
}

// runC04OptionHistory: one compiled expression evaluated again and again with DIFFERENT evaluate options: each result is a
// function of the expression, the input and the options of THAT call — what an earlier call was given (a variable's value,
// the clock) is gone.  The oracle is a freshly compiled expression evaluated once with the same options.
func runC04OptionHistory(c *Ctx) {
	res := mustResource(`{"resourceType":"Patient","id":"p1","active":true,"birthDate":"1980-02-29","name":[{"family":"Smith","given":["Ann","Bea"]},{"family":"Jones","given":["Cy"]},{"family":"Smythe"}]}`)
	in := []fhir.Resource{res}
	type val struct {
		tag string
		v   system.Collection
	}
	strs := []val{{"'^S'", system.Collection{system.String("^S")}}, {"'^J'", system.Collection{system.String("^J")}}, {"'e$'", system.Collection{system.String("e$")}}, {"'Smith'", system.Collection{system.String("Smith")}}, {"{}", system.Collection{}}}
	ints := []val{{"0", system.Collection{system.Integer(0)}}, {"2", system.Collection{system.Integer(2)}}, {"1", system.Collection{system.Integer(1)}}, {"{}", system.Collection{}}}
	bools := []val{{"true", system.Collection{system.Boolean(true)}}, {"false", system.Collection{system.Boolean(false)}}, {"{}", system.Collection{}}}
	progs := []struct {
		src  string
		vals []val
	}{
		{"Patient.name.family.select($this.matches(%v))", strs}, {"Patient.name.where(family.matches(%v)).family", strs}, {"Patient.name.family.select($this.replaceMatches(%v, 'X'))", strs},
		{"Patient.name.family.select($this.replaceMatches('S', %v))", strs}, {"Patient.name.family.select($this.replace(%v, 'X'))", strs}, {"Patient.name.family.select($this.indexOf(%v))", strs},
		{"Patient.name.family.select($this.startsWith(%v))", strs}, {"Patient.name.where(family = %v).given", strs}, {"Patient.name.family.select($this & %v)", strs}, {"Patient.name.family.intersect(%v)", strs},
		{"'Smith'.matches(%v)", strs}, {"(%v).matches('^S')", strs}, {"Patient.name.family.first().toString().matches(%v)", strs},
		{"Patient.name[%v].family", ints}, {"Patient.name[%v + 0].family", ints}, {"Patient.name.skip(%v).family", ints}, {"Patient.name.take(%v).family", ints}, {"Patient.name.family.select($this.substring(%v))", ints},
		{"Patient.name.family.select($this.substring(0, %v))", ints}, {"Patient.name.given.count() + %v", ints}, {"1.5.round(%v)", ints}, {"Patient.name.select(given[%v])", ints}, {"-%v", ints},
		{"iif(%v, 'a', 'b')", bools}, {"Patient.name.where(%v).count()", bools}, {"Patient.name.all(%v)", bools}, {"Patient.name.exists(%v)", bools}, {"%v and Patient.active", bools}, {"%v.not()", bools},
	}
	clocks := []time.Time{time.Date(2020, 2, 29, 10, 30, 0, 0, time.UTC), time.Date(1999, 12, 31, 23, 59, 59, 0, time.FixedZone("", 5*3600+1800))}
	for _, pr := range progs {
		e, err := fhirpath.Compile(pr.src)
		if err != nil {
			c.Law(false, "C04/option-history", "the programs of the option-history law compile", pr.src, err.Error())
			continue
		}
		order := []int{}
		for round := 0; round < 2; round++ {
			for i := range pr.vals {
				order = append(order, i)
			}
		}
		order = append(order, 0, 0, len(pr.vals)-1, 0)
		hist := []string{}
		for _, i := range order {
			v := pr.vals[i]
			got := canonOutcome(safeEval(func() (system.Collection, error) { return e.Evaluate(in, evalopts.EnvVariable("v", v.v)) }), nil)
			fresh := canonOutcome(safeEval(func() (system.Collection, error) { return fhirpath.MustCompile(pr.src).Evaluate(in, evalopts.EnvVariable("v", v.v)) }), nil)
			c.Observe("option history "+pr.src+" "+strings.Join(hist, ",")+" "+v.tag, true)
			c.Law(got == fresh, "C04/option-history", "an evaluation depends on its own options only: what an earlier evaluation of the same expression was given is gone", pr.src+" with %v = "+v.tag+" after evaluations with %v = ["+strings.Join(hist, ", ")+"]", got+" vs freshly compiled "+fresh)
			hist = append(hist, v.tag)
		}
	}
	for _, src := range []string{"now()", "today()", "timeOfDay()", "Patient.name.select(now())", "now() = now()", "today() > Patient.birthDate", "Patient.name.where(now() > @2000)"} {
		e, err := fhirpath.Compile(src)
		if err != nil {
			continue
		}
		for k := 0; k < 5; k++ {
			t := clocks[k%2]
			got := canonOutcome(safeEval(func() (system.Collection, error) { return e.Evaluate(in, evalopts.OverrideTime(t)) }), nil)
			fresh := canonOutcome(safeEval(func() (system.Collection, error) { return fhirpath.MustCompile(src).Evaluate(in, evalopts.OverrideTime(t)) }), nil)
			c.Observe("clock history "+src+" "+fmt.Sprint(k), true)
			c.Law(got == fresh, "C04/option-history", "an evaluation depends on its own options only: what an earlier evaluation of the same expression was given is gone", src+" with OverrideTime("+t.String()+"), evaluation "+fmt.Sprint(k+1)+" of the same expression", got+" vs freshly compiled "+fresh)
		}
	}
}

func runC04(c *Ctx) {
	runC04OptionHistory(c)
	c.meta.Rule = "(1) random Compile histories (1..5 calls, 0..3 options each over AddFunction fresh/duplicate/built-in/bad-signature, WithExperimentalFuncs, Permissive) with function visibility probed after each call; (2) goroutines x shared expressions x shared resources under random start order, GOMAXPROCS 1..16, compared with sequential evaluation; (3) now()/today()/timeOfDay() agree within one evaluation and with OverrideTime; (4) the same programs re-executed under TZ in {UTC, Asia/Kolkata, America/St_Johns, Pacific/Chatham}; (5) 240 (expression, resource) jobs over 30 resource types that share nested element names, evaluated in four different orders in fresh processes; non-trivial = history with at least one option / concurrent evaluation; distinct by line"
	// ---- (1) Compile histories
	good := func(in system.Collection) (system.Collection, error) { return in, nil }
	bad := func(x int) int { return x }
	names := []string{"f1", "f2", "where", "count", "join"}
	probes := []string{"f1", "f2", "join", "where"}
	nHist := 300
	if c.thorough {
		nHist = 3000
	}
	for h := 0; h < nHist; h++ {
		ncalls := 1 + c.rng.Intn(5)
		var callToks, outs []string
		for k := 0; k < ncalls; k++ {
			var opts []fhirpath.CompileOption
			var toks []string
			for j := 0; j < c.rng.Intn(4); j++ {
				switch c.rng.Intn(5) {
				case 0, 1:
					n := Pick(c.rng, names)
					opts = append(opts, fhirpath.WithFunction(n, good))
					toks = append(toks, "A:"+n+":1")
				case 2:
					n := Pick(c.rng, names)
					opts = append(opts, fhirpath.WithFunction(n, bad))
					toks = append(toks, "A:"+n+":0")
				case 3:
					opts = append(opts, compopts.WithExperimentalFuncs())
					toks = append(toks, "X")
				default:
					opts = append(opts, compopts.Permissive())
					toks = append(toks, "P")
				}
			}
			tok := "-"
			if len(toks) > 0 {
				tok = strings.Join(toks, ",")
			}
			callToks = append(callToks, tok)
			// which probe names does THIS compile see?
			_, err := fhirpath.Compile("1", opts...)
			if err != nil {
				outs = append(outs, "E")
				continue
			}
			vis := []string{}
			for _, p := range probes {
				args := ""
				if p == "where" {
					args = "true"
				}
				_, err := fhirpath.Compile("Patient.name.given."+p+"("+args+")", opts...)
				if err == nil {
					vis = append(vis, p)
				}
				// MustCompile is Compile that panics on error: same visibility, same isolation
				_, mpan, _ := safeErr(func() error { fhirpath.MustCompile("Patient.name.given."+p+"("+args+")", opts...); return nil })
				c.Law(mpan == (err != nil), "C04/mustcompile-differs", "MustCompile accepts exactly what Compile with the same options accepts", "history "+strings.Join(callToks, "|")+": Patient.name.given."+p+"("+args+")", fmt.Sprintf("MustCompile panicked=%v, Compile error=%v", mpan, err))
			}
			outs = append(outs, strings.Join(vis, ","))
		}
		c.Emit("hist "+strings.Join(probes, ",")+" "+strings.Join(callToks, "|"), strings.Join(outs, "|"), true)
		// direct oracle: a plain Compile afterwards sees no registered function
		for _, p := range []string{"f1", "f2", "join"} {
			_, err := fhirpath.Compile("Patient." + p + "()")
			c.Law(err != nil, "C04/function-leaked", "a function registered through an option exists only in the expression being compiled", "after history "+strings.Join(callToks, "|")+": Patient."+p+"()", "compiled")
		}
		for _, p := range []string{"f1", "f2", "join"} {
			_, mpan, _ := safeErr(func() error { fhirpath.MustCompile("Patient.name.given." + p + "()"); return nil })
			c.Law(mpan, "C04/function-leaked", "a function registered through an option exists only in the expression being compiled", "after history "+strings.Join(callToks, "|")+": MustCompile(Patient.name.given."+p+"())", "compiled")
		}
		// ... and so does a later Compile that enables the experimental table
		for _, p := range []string{"f1", "f2"} {
			_, err := fhirpath.Compile("Patient."+p+"()", compopts.WithExperimentalFuncs())
			c.Law(err != nil, "C04/function-leaked", "a function registered through an option exists only in the expression being compiled", "after history "+strings.Join(callToks, "|")+": Compile(Patient."+p+"(), WithExperimentalFuncs())", "compiled")
		}
		if e, err := fhirpath.Compile("Patient.name.given.join(',')", compopts.WithExperimentalFuncs()); err == nil {
			o := safeEval(func() (system.Collection, error) { return e.Evaluate([]fhir.Resource{mustResource(`{"resourceType":"Patient","name":[{"given":["a","b"]}]}`)})
			})
			c.Law(canonOutcome(o, nil) == canonOutcome(Outcome{Coll: system.Collection{system.String("a,b")}}, nil), "C04/experimental-altered", "the experimental table is the same in every Compile", "after history "+strings.Join(callToks, "|")+": Patient.name.given.join(',') with WithExperimentalFuncs()", canonOutcome(o, nil))
		} else {
			c.Law(false, "C04/experimental-altered", "the experimental table is the same in every Compile", "after history "+strings.Join(callToks, "|")+": Compile(Patient.name.given.join(','), WithExperimentalFuncs())", err.Error())
		}
	}
	// built-ins can be neither replaced nor altered
	_, err := fhirpath.Compile("1", fhirpath.WithFunction("where", good))
	c.Law(err != nil, "C04/builtin-replaced", "built-in functions cannot be replaced", "WithFunction(\"where\", …)", "accepted")
	// ---- (2) concurrency
	g := &ResGen{r: c.rng, maxDepth: 3, density: 60}
	var resources []fhir.Resource
	var jss [][]byte
	for _, rn := range []string{"Patient", "Observation", "Encounter", "Bundle"} {
		if r, js := g.GenValid(rn, c); r != nil {
			resources = append(resources, r)
			jss = append(jss, js)
		}
	}
	type job struct {
		e   *fhirpath.Expression
		src string
		ri  int
	}
	var jobs []job
	nE := 40
	if c.thorough {
		nE = 200
	}
	fixedNow := time.Date(2024, 2, 29, 23, 59, 58, 123000000, time.FixedZone("", 5*3600+1800))
	for ri := range resources {
		pg := NewProgGen(c.rng, jss[ri], []string{"v"})
		for k := 0; k < nE; k++ {
			src := pg.Any(1 + c.rng.Intn(3))
			e, err := fhirpath.Compile(src)
			if err != nil {
				continue
			}
			jobs = append(jobs, job{e, src, ri})
		}
	}
	// the same compiled expression against resources of different types (relative paths)
	for _, src := range []string{"id", "meta.versionId", "text.status", "identifier.value", "extension.url", "name", "status", "contained.id", "meta.lastUpdated.toString()", "descendants().count()"} {
		e, err := fhirpath.Compile(src)
		if err != nil {
			continue
		}
		for ri := range resources {
			jobs = append(jobs, job{e, src, ri})
		}
	}
	// a resource with many equal and distinct strings (order-sensitive functions over 40 items), and programs that
	// project, subset and combine the shared variable
	{
		var given []string
		for i := 0; i < 40; i++ {
			given = append(given, fmt.Sprintf("\"g%02d\"", (i*7)%33))
		}
		many := mustResource(`{"resourceType":"Patient","id":"many","name":[{"given":[` + strings.Join(given, ",") + `]},{"given":["x","y"]},{"given":["z"]}]}`)
		resources = append(resources, many)
		ri := len(resources) - 1
		for _, src := range []string{"Patient.name.given.distinct()", "Patient.name.given.distinct().first()", "Patient.name.given.distinct().last()", "Patient.name.given.distinct().take(5)", "Patient.name.given.distinct().count()",
			"Patient.name.given.distinct().skip(10).first()", "Patient.name.select(%v.take(1))", "Patient.name.select(%v.take(2))", "Patient.name.given.select(%v.skip(1).take(1))", "Patient.name.select(%v.take(1)).count()",
			"%big.where($this > 0).first()", "%big.where($this > 0).take(3)", "%big.where($this mod 2 = 0)[10]", "%big.select($this + 1).last()", "%big.where($this > 500).first()", "%big.distinct().skip(700).first()",
			"%big.where($this > 0).count()", "%big.exists($this = 999)", "%big.all($this > 0)", "%big.skip(300).take(2)", "%big.tail().first()", "%big.where($this > 0) = %big",
			"%v.select(%v.take(1))", "%v", "%v.last()", "%v.count()", "%v.tail()", "%v.take(1) & 'x'", "%v.skip(2).take(1) & %v.last()", "Patient.name.given.intersect(%v)", "%v.intersect(Patient.name.given)", "%v.exclude(%v.take(1))",
			"%v.where($this != %v.first())", "%v.distinct()", "%v.isDistinct()", "Patient.name.given.exclude(%v)", "1.0 / 3.0", "1.0 / 3.00000000000000000000", "2.0 / 7.0", "10 / 3", "(1.0 / 3.0).toString()", "1.0 / 3.0 = 2.0 / 6.0",
			"1.00000000000000000001 * 3", "7.0 div 0.30000000000000000001", "1 / 3.0000000000000000000000001", "(10.0 / 3).round(3)"} {
			e, err := fhirpath.Compile(src)
			if err != nil {
				continue
			}
			jobs = append(jobs, job{e, src, ri})
		}
	}
	shared := system.Collection{system.Integer(1), fhir.String("s"), system.String("t"), fhir.Code("u"), system.Integer(1)}
	sharedBefore := snapshotSlice(shared)
	big := make(system.Collection, 1000)
	for i := range big {
		big[i] = system.Integer(i + 1)
	}
	// the wall-clock budget of one evaluation is a guard against hangs, not part of the property: eight goroutines on one
	// processor (under the race detector in the thorough tier, on a loaded machine) can exceed ten seconds on the quadratic
	// jobs.  A job that runs out of time is evaluated again with a budget that only a hang exceeds.
	evalJob := func(j job) string {
		run := func() (system.Collection, error) {
			return j.e.Evaluate([]fhir.Resource{resources[j.ri]}, evalopts.EnvVariable("v", shared), evalopts.EnvVariable("big", big), evalopts.OverrideTime(fixedNow))
		}
		o := safeEval(run)
		if o.TimedOut {
			o = safeEvalWithin(15*time.Minute, run)
		}
		return canonOutcome(o, nil)
	}
	want := make([]string, len(jobs))
	for i, j := range jobs {
		want[i] = evalJob(j)
	}
	// large collections keep their order (whatever an implementation does to process them faster)
	expected := map[string]string{"%big.where($this > 0).first()": "ok:[I:1]", "%big.where($this > 0) = %big": "ok:[B:true]", "%big.where($this > 500).first()": "ok:[I:501]", "%big.select($this + 1).last()": "ok:[I:1001]",
		"%big.where($this mod 2 = 0)[10]": "ok:[I:22]", "%big.skip(300).take(2)": "ok:[I:301,I:302]", "%big.distinct().skip(700).first()": "ok:[I:701]", "%big.where($this > 0).take(3)": "ok:[I:1,I:2,I:3]", "%big.where($this > 0).count()": "ok:[I:1000]"}
	for i, j := range jobs {
		if w, ok := expected[j.src]; ok {
			c.Law(want[i] == w, "C04/order-of-items", "the items of a result come in the order of the input, for collections of any size", j.src+" with %big = 1..1000", want[i]+" want "+w)
		}
	}
	// evaluated again, after all the others, in the reverse order: the same results
	for i := len(jobs) - 1; i >= 0; i-- {
		again := evalJob(jobs[i])
		c.Law(again == want[i], "C04/repeat-differs", "repeating an evaluation on the same inputs gives the same result, whatever was evaluated in between", jobs[i].src, again+" vs "+want[i])
	}
	c.Law(sameSnapshot(sharedBefore, shared), "C04/shared-variable-modified", "an environment collection shared by evaluations is left as supplied", "%v after the sequential pass", fmt.Sprint(shared))
	for _, procs := range []int{1, 2, 4, 16} {
		old := runtime.GOMAXPROCS(procs)
		G := 8
		got := make([][]string, G)
		var wg sync.WaitGroup
		start := make(chan struct{})
		for gi := 0; gi < G; gi++ {
			order := make([]int, len(jobs))
			for i := range order {
				order[i] = i
			}
			for i := len(order) - 1; i > 0; i-- {
				k := c.rng.Intn(i + 1)
				order[i], order[k] = order[k], order[i]
			}
			got[gi] = make([]string, len(jobs))
			wg.Add(1)
			go func(gi int, order []int) {
				defer wg.Done()
				<-start
				for _, i := range order {
					got[gi][i] = evalJob(jobs[i])
				}
			}(gi, order)
		}
		close(start)
		wg.Wait()
		runtime.GOMAXPROCS(old)
		for gi := range got {
			for i := range jobs {
				c.Observe(fmt.Sprintf("concurrent %s", jobs[i].src), true)
				c.Law(got[gi][i] == want[i], "C04/concurrent-differs", "concurrent evaluation on shared inputs gives the sequential result", fmt.Sprintf("GOMAXPROCS=%d goroutine %d: %s", procs, gi, jobs[i].src), got[gi][i]+" vs "+want[i])
			}
		}
		c.Count(fmt.Sprintf("gomaxprocs:%d", procs))
	}
	// repeating gives the same result
	for i, j := range jobs {
		c.Law(evalJob(j) == want[i], "C04/repeat-differs", "repeating an evaluation gives the same result", j.src, "")
	}
	// ---- (2b) custom functions keep nothing between calls: nested in their own argument, and
	// evaluated concurrently with different inputs
	{
		withSuffix := func(in system.Collection, suffix system.String) (system.Collection, error) {
			if len(in) != 1 {
				return nil, fmt.Errorf("want one input item, got %d", len(in))
			}
			s, _ := in[0].(system.String)
			return system.Collection{system.String(string(s) + "-" + string(suffix))}, nil
		}
		for _, tc := range []struct{ src, want string }{{"'alice'.withSuffix('bob'.withSuffix('x'))", "alice-bob-x"}, {"'a'.withSuffix('b'.withSuffix('c'.withSuffix('d')))", "a-b-c-d"}} {
			e, err := fhirpath.Compile(tc.src, fhirpath.WithFunction("withSuffix", withSuffix))
			if err != nil {
				continue
			}
			r, err := e.Evaluate([]fhir.Resource{})
			c.Law(err == nil && len(r) == 1 && r[0] == system.String(tc.want), "C04/custom-function-state", "a custom function keeps no state between calls", tc.src, fmt.Sprint(r, err)+" want "+tc.want)
		}
		e, err := fhirpath.Compile("%who.withSuffix(%suffix)", fhirpath.WithFunction("withSuffix", withSuffix))
		if err == nil {
			var wg sync.WaitGroup
			bad := make(chan string, 64)
			for g := 0; g < 8; g++ {
				wg.Add(1)
				go func(g int) {
					defer wg.Done()
					who, suf := fmt.Sprintf("w%d", g), fmt.Sprintf("s%d", g)
					for k := 0; k < 300; k++ {
						r, err := e.Evaluate([]fhir.Resource{}, evalopts.EnvVariable("who", system.String(who)), evalopts.EnvVariable("suffix", system.String(suf)))
						if err != nil || len(r) != 1 || r[0] != system.String(who+"-"+suf) {
							select {
							case bad <- fmt.Sprintf("goroutine %d: %v %v", g, r, err):
							default:
							}
							return
						}
					}
				}(g)
			}
			wg.Wait()
			close(bad)
			msg := ""
			for m := range bad {
				msg = m
			}
			c.Observe("custom function, 8 goroutines x 300 evaluations", true)
			c.Law(msg == "", "C04/custom-function-state", "a custom function keeps no state between calls", "%who.withSuffix(%suffix) from 8 goroutines with different variables", msg)
		}
	}
	// ---- (3) one instant
	in := []fhir.Resource{resources[0]}
	o := compileEval("now() = now() and today() = today() and timeOfDay() = timeOfDay()", in)
	c.Law(canonOutcome(o, nil) == "ok:[B:true]", "C04/two-instants", "now(), today(), timeOfDay() denote one instant within an evaluation", "now() = now() …", canonOutcome(o, nil))
	for _, t := range []time.Time{fixedNow, time.Date(1999, 12, 31, 23, 59, 59, 999000000, time.UTC), time.Date(2030, 6, 1, 0, 0, 0, 0, time.FixedZone("", -11*3600)),
		// the extremes and the zero value of time.Time are override values like any other
		{}, time.Date(1, 1, 1, 5, 30, 0, 0, time.FixedZone("", 5*3600+1800)), time.Unix(0, 0).UTC(), time.Date(9999, 12, 31, 23, 59, 59, 999000000, time.UTC), time.Date(1, 1, 1, 0, 0, 0, 1000000, time.UTC)} {
		e := fhirpath.MustCompile("now().toString() & '|' & today().toString() & '|' & timeOfDay().toString()")
		r, err := e.Evaluate(in, evalopts.OverrideTime(t))
		wantS := t.Format("2006-01-02T15:04:05.000Z07:00") + "|" + t.Format("2006-01-02") + "|" + t.Format("15:04:05.000")
		okk := err == nil && len(r) == 1 && r[0] == system.String(wantS)
		c.Law(okk, "C04/override-time", "now/today/timeOfDay are the OverrideTime value", t.String(), fmt.Sprint(r, err)+" want "+wantS)
	}
	// ---- (5) order of evaluations: the same jobs in fresh processes, in different orders
	var oref map[string]string
	for _, ord := range []string{"0", "1", "2", "3"} {
		cmd := exec.Command(os.Args[0], "orderprobe", "quick", ord, os.Args[4]+"/order")
		out, err := cmd.Output()
		if err != nil {
			c.meta.Notes = append(c.meta.Notes, "orderprobe "+ord+" failed: "+err.Error())
			continue
		}
		got := map[string]string{}
		for _, line := range strings.Split(string(out), "\n") {
			f := strings.Split(line, "\t")
			if len(f) == 4 && f[0] == "ORDERPROBE" {
				got[f[1]+" "+f[2]] = f[3]
			}
		}
		if oref == nil {
			oref = got
			continue
		}
		for job, v := range got {
			c.Observe("order "+ord+" "+job, true)
			c.Law(v == oref[job], "C04/order-dependence", "the result of an evaluation does not depend on which evaluations the process ran before", "job "+job+" in evaluation order "+ord, v+" vs (forward order) "+oref[job])
		}
	}
	// ---- (4) process time zone: re-execute under each zone and compare
	var ref map[string]string
	for _, tz := range []string{"UTC", "Asia/Kolkata", "America/St_Johns", "Pacific/Chatham"} {
		cmd := exec.Command(os.Args[0], "tzprobe", "quick", "0", os.Args[4]+"/tz")
		cmd.Env = append(os.Environ(), "TZ="+tz)
		out, err := cmd.Output()
		if err != nil {
			c.meta.Notes = append(c.meta.Notes, "tzprobe failed under "+tz+": "+err.Error())
			continue
		}
		got := map[string]string{}
		for _, line := range strings.Split(string(out), "\n") {
			f := strings.Split(line, "\t")
			if len(f) == 3 && f[0] == "TZPROBE" {
				got[f[1]] = f[2]
			}
		}
		if ref == nil {
			ref = got
			continue
		}
		for src, v := range got {
			c.Observe("tz "+tz+" "+src, true)
			c.Law(v == ref[src], "C04/process-timezone", "nothing depends on the process time zone", "TZ="+tz+" "+src, v+" vs (UTC) "+ref[src])
		}
	}
}
