package main

// C09 — date/time arithmetic matches calendar arithmetic and preserves precision.
// Days of a 4-year leap cycle (quick: month ends, leap days, a random sample; thorough: every
// day) plus the year 0001 / 9999 edges x every Date / DateTime / Time precision x offsets
// {none, Z, +05:30, -11:00} x every calendar keyword (singular and plural) and UCUM-style unit x
// amounts {0, 1, 11, 12, 13, 23, 24, 25, 59, 60, 61, 365, 366, 1000, fractional, negative},
// through `%x + %q` and `%x - %q`; compared with the Lean calendar model (an independent
// proleptic-Gregorian computation) and checked against the laws directly.

import (
	"fmt"
	"time"

	"github.com/shopspring/decimal"
	"github.com/verily-src/fhirpath-go/fhirpath"
	"github.com/verily-src/fhirpath-go/fhirpath/system"
	"github.com/verily-src/fhirpath-go/internal/fhir"
)

func init() {
	props["C09"] = func(c *Ctx) { runC09(c); runC09Fractions(c) }
}

type tval struct {
	v      system.Any
	kind   string // date, datetime, time
	layout string
	t      time.Time
	desc   string
}

func mkTval(v system.Any, desc string) tval {
	switch x := v.(type) {
	case system.Date:
		p := dateParts(x)
		return tval{v, "date", p.l, p.t, desc}
	case system.DateTime:
		p := dateTimeParts(x)
		return tval{v, "datetime", p.l, p.t, desc}
	case system.Time:
		p := timeParts(x)
		return tval{v, "time", p.l, p.t, desc}
	}
	return tval{}
}

var c09Amounts = []string{"0", "1", "11", "12", "13", "23", "24", "25", "59", "60", "61", "365", "366", "1000", "1.5", "0.9", "2.999", "59.9996", "-1", "-12", "-24", "-25", "-365", "-0.5", "-1000", "7", "30", "31", "100000"}
var c09Units = []string{"year", "years", "month", "months", "week", "weeks", "day", "days", "hour", "hours", "minute", "minutes", "second", "seconds", "millisecond", "milliseconds",
	"a", "mo", "wk", "d", "h", "min", "s", "ms", "mg", "1", "", "Years", "yr"}

func runC09(c *Ctx) {
	c.meta.Rule = "values: days of the leap cycle 2019-01-01..2022-12-31 (quick: all month ends, leap day and neighbours, 120 random days; thorough: every day) plus 0001-01-01 / 9999-12-31 edges x {Date year/month/day, DateTime of all 11 layouts with offsets none/Z/+05:30/-11:00, Time hour/minute/second/millisecond} x 29 units (16 calendar keywords singular and plural, 8 UCUM-style, mg, 1, '', capitalised) x 29 amounts (0, 1, 11..13, 23..25, 59..61, 365, 366, 1000, fractional, negative, 100000) x {+, -}; quick samples units x amounts per value; non-trivial = the operation yields a value different from its operand; distinct by line"
	add, _ := fhirpath.Compile("%x + %q")
	sub, _ := fhirpath.Compile("%x - %q")
	inv, _ := fhirpath.Compile("(%x + %q) - %q = %x")
	le, _ := fhirpath.Compile("(%x + %q) <= (%x + %r)")
	eqw, _ := fhirpath.Compile("(%x + %q) = (%x + %r)")
	input := []fhir.Resource{mustResource(`{"resourceType":"Patient","id":"p"}`)}
	ev := func(e *fhirpath.Expression, vars map[string]any) Outcome {
		var opts []fhirpath.EvaluateOption
		for k, v := range vars {
			opts = append(opts, envVar(k, v))
		}
		return safeEval(func() (system.Collection, error) { return e.Evaluate(input, opts...) })
	}
	// ---- days
	var days []time.Time
	start := time.Date(2019, 1, 1, 0, 0, 0, 0, time.UTC)
	for i := 0; i < 1461; i++ {
		d := start.AddDate(0, 0, i)
		next := d.AddDate(0, 0, 1)
		special := next.Day() == 1 || d.Day() == 1 || (d.Month() == 2 && d.Day() >= 27) || (d.Month() == 3 && d.Day() <= 2) || d.Day() == 30 || d.Day() == 29
		if c.thorough || special {
			days = append(days, d)
		}
	}
	if !c.thorough {
		for i := 0; i < 120; i++ {
			days = append(days, start.AddDate(0, 0, c.rng.Intn(1461)))
		}
	}
	days = append(days, time.Date(1, 1, 1, 0, 0, 0, 0, time.UTC), time.Date(1, 3, 31, 0, 0, 0, 0, time.UTC), time.Date(9999, 12, 31, 0, 0, 0, 0, time.UTC), time.Date(9998, 2, 28, 0, 0, 0, 0, time.UTC), time.Date(2000, 2, 29, 0, 0, 0, 0, time.UTC), time.Date(1900, 2, 28, 0, 0, 0, 0, time.UTC), time.Date(2100, 3, 1, 0, 0, 0, 0, time.UTC),
		time.Date(1996, 2, 29, 0, 0, 0, 0, time.UTC), time.Date(2004, 2, 29, 0, 0, 0, 0, time.UTC), time.Date(1896, 2, 29, 0, 0, 0, 0, time.UTC), time.Date(2096, 2, 29, 0, 0, 0, 0, time.UTC), time.Date(2396, 2, 29, 0, 0, 0, 0, time.UTC), time.Date(1604, 2, 29, 0, 0, 0, 0, time.UTC))
	offs := []string{"", "Z", "+05:30", "-11:00"}
	var vals []tval
	addv := func(v system.Any, err error, desc string) {
		if err != nil {
			c.meta.Notes = append(c.meta.Notes, "pool value does not parse: "+desc)
			return
		}
		vals = append(vals, mkTval(v, desc))
	}
	for _, d := range days {
		ds := d.Format("2006-01-02")
		pick := c.rng.Intn(6)
		if c.thorough {
			pick = -1
		}
		h, mi, s, ms := c.rng.Intn(24), c.rng.Intn(60), c.rng.Intn(60), c.rng.Intn(1000)
		forms := []string{ds[:4], ds[:7], ds}
		for i, f := range forms {
			if pick < 0 || pick == i || c.rng.Intn(4) == 0 {
				v, err := system.ParseDate(f)
				addv(v, err, "@"+f)
			}
		}
		dtForms := []string{ds[:4] + "T", ds[:7] + "T", ds + "T"}
		for _, o := range offs {
			dtForms = append(dtForms, fmt.Sprintf("%sT%02d%s", ds, h, o), fmt.Sprintf("%sT%02d:%02d%s", ds, h, mi, o), fmt.Sprintf("%sT%02d:%02d:%02d%s", ds, h, mi, s, o), fmt.Sprintf("%sT%02d:%02d:%02d.%03d%s", ds, h, mi, s, ms, o))
		}
		dtForms = append(dtForms, ds+"T23:59:59.999+05:30", ds+"T00:00:00-11:00", ds+"T23:30Z")
		for _, f := range dtForms {
			if pick < 0 || c.rng.Intn(5) == 0 {
				v, err := system.ParseDateTime(f)
				addv(v, err, "@"+f)
			}
		}
	}
	for _, f := range []string{"00", "23", "12", "00:00", "23:59", "08:30", "00:00:00", "23:59:59", "08:30:15", "00:00:00.000", "23:59:59.999", "08:30:15.250", "12:00:00.001"} {
		v, err := system.ParseTime(f)
		addv(v, err, "@T"+f)
	}
	nOps := 10
	if c.thorough {
		nOps = 40
	}
	mkq := func(a, u string) (system.Quantity, bool) {
		q, err := system.ParseQuantity(a, u)
		return q, err == nil
	}
	for _, x := range vals {
		c.Count("value:" + x.kind + ":" + x.layout)
		var picks [][2]string
		for k := 0; k < nOps; k++ {
			a, u := Pick(c.rng, c09Amounts), Pick(c.rng, c09Units)
			if c.rng.Intn(10) < 7 {
				u = c09Units[c.rng.Intn(16)] // mostly the calendar keywords
			}
			picks = append(picks, [2]string{a, u})
		}
		// amounts a hair below a whole unit of the value's precision: fractions are dropped, never rounded up
		if c.rng.Intn(4) == 0 || x.kind == "time" {
			for _, a := range []string{"3599.9996", "59.9996", "0.9996", "1.9996", "0.0004", "0.0005", "0.0009", "-0.9996", "-3599.9996", "86399.9995"} {
				picks = append(picks, [2]string{a, "seconds"})
			}
		}
		// leap days: whole-year and whole-month shifts that land in century years (1900 and 2100 are
		// common years, 1600, 2000 and 2400 leap years) and in ordinary leap / common years
		if x.kind != "time" && x.t.Month() == 2 && x.t.Day() == 29 && precRank(x.layout) >= 3 {
			for _, target := range []int{1600, 1900, 2000, 2100, 2400, x.t.Year() + 4, x.t.Year() + 1, x.t.Year() + 100, x.t.Year() + 400} {
				d := target - x.t.Year()
				if d < 0 {
					d = -d
				}
				if d == 0 || x.t.Year()+d > 9999 || x.t.Year()-d < 1 {
					continue
				}
				picks = append(picks, [2]string{fmt.Sprint(d), "years"}, [2]string{fmt.Sprint(d * 12), "months"})
			}
		}
		for _, pk := range picks {
			a, u := pk[0], pk[1]
			q, ok := mkq(a, u)
			if !ok {
				continue
			}
			d, _ := decimal.NewFromString(a)
			for _, sg := range []string{"+", "-"} {
				e := add
				if sg == "-" {
					e = sub
				}
				o := ev(e, map[string]any{"x": x.v, "q": q})
				in := fmt.Sprintf("%s %s %s '%s'", x.desc, sg, a, u)
				out := "err:other"
				var res tval
				switch {
				case o.Panicked || o.TimedOut:
					out = "panic"
				case o.Err != nil:
					out = "err:" + errClass(o.Err)
				case len(o.Coll) == 1:
					if sv, ok2 := o.Coll[0].(system.Any); ok2 {
						res = mkTval(sv, "")
						if res.kind != "" {
							out = "ok:" + wallOf(res.t)
						}
					}
				}
				c.Emit(fmt.Sprintf("shift %s %s %s %s %s %s", x.kind, hexs(x.layout), wallOf(x.t), rawDec(d), hexs(u), sg), out, res.kind != "" && !res.t.Equal(x.t))
				c.Law(out != "panic", "C09/panic", "arithmetic never crashes", in, o.PanicMsg)
				if res.kind != "" {
					c.Count("outcome:value")
					_, o1 := x.t.Zone()
					_, o2 := res.t.Zone()
					c.Law(res.kind == x.kind && res.layout == x.layout && o1 == o2, "C09/type-precision-offset", "the result has the same type, precision and UTC offset", in, fmt.Sprintf("%s %q offset %d -> %s %q offset %d", x.kind, x.layout, o1, res.kind, res.layout, o2))
				} else {
					c.Count("outcome:" + out)
				}
				// a non-temporal or unsupported unit is an error rather than a silently unchanged value
				if cls, known := calendarUnits[u]; !known || (x.kind == "time" && cls <= 3) {
					c.Law(res.kind == "", "C09/unsupported-unit", "a non-temporal or unsupported unit is an error", in, out)
				}
				// an amount in a unit finer than the value's precision that is less than one unit of that
				// precision changes nothing: the result is the operand, with nothing hidden below the precision
				if cls, known := calendarUnits[u]; known && res.kind != "" && cls >= 4 && cls > precRank(x.layout) && precRank(x.layout) >= 3 {
					perUnit := map[int]float64{4: 3600, 5: 60, 6: 1, 7: 0.001}[cls]                   // seconds per unit
					precSecs := map[int]float64{3: 86400, 4: 3600, 5: 60, 7: 0.001}[precRank(x.layout)] // seconds per unit of the precision
					amt, _ := d.Abs().Float64()
					if amt*perUnit < precSecs*0.999 {
						c.Law(res.t.Equal(x.t), "C09/finer-unit-truncates", "an amount finer than the value's precision and smaller than one unit of it leaves the value unchanged (nothing is kept below the precision)", in, out+" from "+wallOf(x.t))
					}
				}
				// years and months: the month count moves by exactly the amount, the day is kept or clamped
				if cls, known := calendarUnits[u]; known && cls <= 1 && res.kind != "" && precRank(x.layout) >= 3 && d.Equal(d.Truncate(0)) {
					k := d.IntPart()
					if cls == 0 {
						k *= 12
					}
					if sg == "-" {
						k = -k
					}
					m0 := int64(x.t.Year())*12 + int64(x.t.Month()) - 1
					m1 := int64(res.t.Year())*12 + int64(res.t.Month()) - 1
					dim := []int{31, 28, 31, 30, 31, 30, 31, 31, 30, 31, 30, 31}[res.t.Month()-1]
					if y := res.t.Year(); res.t.Month() == 2 && y%4 == 0 && (y%100 != 0 || y%400 == 0) {
						dim = 29
					}
					wantDay := x.t.Day()
					if wantDay > dim {
						wantDay = dim
					}
					c.Law(m1 == m0+k && res.t.Day() == wantDay, "C09/month-clamp", "years and months move the month count exactly and clamp the day to the end of the month", in, out)
				}
			}
			// fractions are dropped toward zero: adding a negative amount is subtracting the positive one
			if d.IsNegative() {
				if qp, ok3 := mkq(d.Neg().String(), u); ok3 {
					o1 := ev(add, map[string]any{"x": x.v, "q": q})
					o2 := ev(sub, map[string]any{"x": x.v, "q": qp})
					c.Law(canonOutcome(o1, nil) == canonOutcome(o2, nil), "C09/negative-amount", "x + (-q) = x - q (fractions of a unit are dropped toward zero)", fmt.Sprintf("%s + %s '%s' vs %s - %s '%s'", x.desc, a, u, x.desc, d.Neg().String(), u), canonOutcome(o1, nil)+" vs "+canonOutcome(o2, nil))
				}
			}
			// (x + q) - q = x whenever no clamping or truncation occurs
			if cls, known := calendarUnits[u]; known && d.Equal(d.Truncate(0)) && x.kind != "time" {
				noClamp := !(cls <= 1 && x.t.Day() > 28)
				if cls <= precRank(x.layout) && noClamp && !(x.kind == "date" && cls > 3) && x.t.Year() > 10 && x.t.Year() < 9000 {
					o := ev(inv, map[string]any{"x": x.v, "q": q})
					good := o.Err == nil && !o.Panicked && len(o.Coll) == 1 && o.Coll[0] == system.Boolean(true)
					c.Law(good, "C09/inverse", "(x + q) - q = x whenever no month-end clamping or truncation occurs", fmt.Sprintf("(%s + %s '%s') - %s '%s'", x.desc, a, u, a, u), canonOutcome(o, nil))
				}
			}
			// monotone in the amount
			if _, known := calendarUnits[u]; known && x.kind != "time" {
				b := Pick(c.rng, c09Amounts)
				r, ok2 := mkq(b, u)
				db, _ := decimal.NewFromString(b)
				if ok2 && d.LessThan(db) && !(x.t.Year() > 9000 || x.t.Year() < 10) {
					o := ev(le, map[string]any{"x": x.v, "q": q, "r": r})
					good := o.Err == nil && !o.Panicked && len(o.Coll) == 1 && o.Coll[0] == system.Boolean(true)
					if !(o.Err != nil && (u == "hour" || u == "hours" || u == "minute" || u == "minutes" || u == "second" || u == "seconds" || u == "millisecond" || u == "milliseconds") && x.kind == "date") {
						c.Law(good, "C09/monotone", "the result is monotone in the amount", fmt.Sprintf("%s + %s '%s' <= %s + %s '%s'", x.desc, a, u, x.desc, b, u), canonOutcome(o, nil))
					}
				}
			}
		}
		// a week is seven days
		if x.kind != "time" {
			n := 1 + c.rng.Intn(9)
			q, _ := mkq(fmt.Sprint(n), "weeks")
			r, _ := mkq(fmt.Sprint(7*n), "days")
			o := ev(eqw, map[string]any{"x": x.v, "q": q, "r": r})
			good := o.Err == nil && !o.Panicked && len(o.Coll) == 1 && o.Coll[0] == system.Boolean(true)
			c.Law(good, "C09/week", "a week is seven days", fmt.Sprintf("%s + %d weeks = %s + %d days", x.desc, n, x.desc, 7*n), canonOutcome(o, nil))
		}
	}
	// quantities add, subtract and compare only within one unit
	for _, pr := range [][2]string{{"mg", "mg"}, {"mg", "kg"}, {"days", "day"}, {"1", "1"}, {"", "1"}, {"year", "month"}, {"months", "days"}, {"seconds", "minutes"}, {"mg", "Mg"}, {"year", "year"}, {"a", "year"}, {"kg", "kg"}} {
		for _, am := range [][2]string{{"5", "2"}, {"5", "5"}, {"1", "1"}, {"0", "0"}, {"1.0", "1"}, {"60", "60"}, {"2", "5"}, {"12", "12.00"}} {
			q1, ok1 := mkq(am[0], pr[0])
			q2, ok2 := mkq(am[1], pr[1])
			if !ok1 || !ok2 {
				continue
			}
			for _, src := range []string{"%x + %q", "%x - %q", "%x < %q", "%x <= %q", "%x > %q", "%x >= %q"} {
				e, err := fhirpath.Compile(src)
				if err != nil {
					continue
				}
				o := ev(e, map[string]any{"x": q1, "q": q2})
				same := pr[0] == pr[1]
				in := fmt.Sprintf("%s '%s' %s %s '%s'", am[0], pr[0], src, am[1], pr[1])
				c.Observe("quantity-unit "+in, true)
				if same {
					c.Law(o.Err == nil && len(o.Coll) == 1, "C09/quantity-unit", "quantities add, subtract and compare within one unit", in, canonOutcome(o, nil))
				} else {
					c.Law(o.Err != nil || len(o.Coll) == 0, "C09/quantity-unit", "quantities of different units do not add, subtract or compare", in, canonOutcome(o, nil))
				}
			}
		}
	}
}

// calendar keyword -> rank (0 year, 1 month, 2 week, 3 day, 4 hour, 5 minute, 6 second, 7 millisecond)
var calendarUnits = map[string]int{"year": 0, "years": 0, "month": 1, "months": 1, "week": 2, "weeks": 2, "day": 3, "days": 3, "hour": 4, "hours": 4, "minute": 5, "minutes": 5, "second": 6, "seconds": 6, "millisecond": 7, "milliseconds": 7}

// precRank: the rank of the finest unit a value of this layout carries
func precRank(layout string) int {
	switch layout {
	case "2006", "2006T":
		return 0
	case "2006-01", "2006-01T":
		return 1
	case "2006-01-02", "2006-01-02T":
		return 3
	case "2006-01-02T15", "2006-01-02T15Z07:00", "15":
		return 4
	case "2006-01-02T15:04", "2006-01-02T15:04Z07:00", "15:04":
		return 5
	}
	return 7
}


// runC09Fractions: an amount in a unit finer than the value's precision is converted to whole units with the
// fraction DROPPED: x + (whole unit - a little) = x + (the next smaller whole amount).  Seconds and milliseconds are ONE
// precision in the implementation's tables (as in FHIRPath), so a fraction of a second added to a value written to the second
// is not "finer than its precision" and is not among the cases.
func runC09Fractions(c *Ctx) {
	cases := []struct{ x, frac, whole string }{
		{"@T08", "3599.9996 seconds", "0 hours"}, {"@T08", "7199.9996 seconds", "1 hour"}, {"@T08:30", "59.9996 seconds", "0 minutes"}, {"@T08:30", "119.9999 seconds", "1 minute"},
		{"@T08:30:15.250", "0.0009 seconds", "0 milliseconds"}, {"@T08:30:15.250", "0.0019 seconds", "1 millisecond"},
		{"@2020-02-29T10", "3599.9996 seconds", "0 hours"}, {"@2020-02-29T10:30", "59.9996 seconds", "0 minutes"}, {"@2020-02-29T10:30:00.000", "0.0009 seconds", "0 milliseconds"},
		{"@2020-02-29T", "86399.9996 seconds", "0 days"}, {"@T08", "59.9996 minutes", "0 hours"}, {"@T08:30", "59999.9 milliseconds", "0 minutes"},
	}
	for _, k := range cases {
		for _, sg := range []string{"+", "-"} {
			a := compileEval(k.x+" "+sg+" "+k.frac, nil)
			b := compileEval(k.x+" "+sg+" "+k.whole, nil)
			c.Observe("fraction "+k.x+sg+k.frac, true)
			c.Law(canonOutcome(a, nil) == canonOutcome(b, nil), "C09/fraction-dropped", "an amount in a finer unit is converted to whole units of the value's precision, fractions dropped (never rounded up)",
				k.x+" "+sg+" "+k.frac+"  vs  "+k.x+" "+sg+" "+k.whole, canonOutcome(a, nil)+" vs "+canonOutcome(b, nil))
		}
	}
}
