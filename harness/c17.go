package main

// C17 — environment variables and custom functions.  Exhaustive over option lists of length
// 0..3 (quick) / 0..4 (thorough) over 11 variable kinds in every order, programs referencing a
// variable at the root, inside a function argument and inside where/select criteria; custom
// functions with good and bad signatures.

import (
	dtpb "github.com/google/fhir/go/proto/google/fhir/proto/r4/core/datatypes_go_proto"
	"github.com/verily-src/fhirpath-go/fhirpath/compopts"
	"errors"
	"fmt"
	"sort"
	"strings"

	"github.com/verily-src/fhirpath-go/fhirpath"
	"github.com/verily-src/fhirpath-go/fhirpath/evalopts"
	"github.com/verily-src/fhirpath-go/fhirpath/internal/expr"
	"github.com/verily-src/fhirpath-go/fhirpath/system"
	"github.com/verily-src/fhirpath-go/internal/fhir"
	"google.golang.org/protobuf/proto"
)

func init() { props["C17"] = runC17 }

type envKind struct {
	name  string
	val   any
	shape string
}

func runC17(c *Ctx) {
	c.meta.Rule = "exhaustive: all option lists of length 0..3 (quick) or 0..4 (thorough) over 11 variable kinds {valid System value, valid element, valid collection, nested collection, empty collection, duplicate name, predefined `context`, predefined `ucum`, unsupported Go int, unsupported nested in a collection, nil} in every order x programs reading each variable at the root; plus positions (function argument, where/select criteria) and custom function signatures; non-trivial = list non-empty; distinct by operation line"
	c.meta.Exhaustive = true
	pat := mustResource(`{"resourceType":"Patient","id":"p1","active":true,"name":[{"family":"A"},{"family":"B"}]}`)
	input := []fhir.Resource{pat}
	el1 := fhir.String("x")
	ids := map[any]string{}
	kinds := []envKind{
		{"a", system.Integer(7), "s1"},
		{"b", el1, "e1"},
		{"k", system.Collection{system.Integer(1), system.String("z")}, "c(s2,s3)"},
		{"n", system.Collection{system.Integer(1), system.Collection{system.Integer(2)}}, "c(s2,c(s4))"},
		{"m", system.Collection{}, "c()"},
		{"a", system.String("dup"), "s5"},
		{"context", system.Integer(1), "s2"},
		{"ucum", system.String("u"), "s6"},
		{"u", 42, "b"},
		{"w", system.Collection{system.Integer(1), system.Collection{3.14}}, "c(s2,c(b))"},
		{"z", nil, "b"},
	}
	_ = ids
	shapeOf := func(items system.Collection) string {
		parts := []string{}
		for _, it := range items {
			switch v := it.(type) {
			case system.Integer:
				switch int(v) {
				case 7:
					parts = append(parts, "s1")
				case 1:
					parts = append(parts, "s2")
				case 2:
					parts = append(parts, "s4")
				default:
					parts = append(parts, "s?")
				}
			case system.String:
				switch string(v) {
				case "z":
					parts = append(parts, "s3")
				case "dup":
					parts = append(parts, "s5")
				case "u":
					parts = append(parts, "s6")
				case "http://unitsofmeasure.org":
					parts = append(parts, "s0")
				default:
					parts = append(parts, "s?")
				}
			case system.Collection:
				inner := []string{}
				for _, x := range v {
					if i, ok := x.(system.Integer); ok && i == 2 {
						inner = append(inner, "s4")
					} else {
						inner = append(inner, "?")
					}
				}
				parts = append(parts, "c("+strings.Join(inner, ",")+")")
			case proto.Message:
				if v == proto.Message(el1) {
					parts = append(parts, "e1")
				} else if v == proto.Message(pat) {
					parts = append(parts, "e999")
				} else {
					parts = append(parts, "e?")
				}
			default:
				parts = append(parts, "?")
			}
		}
		return strings.Join(parts, ",")
	}
	vars := []string{"a", "b", "k", "n", "m", "context", "ucum", "u", "q"}
	exprs := map[string]*fhirpath.Expression{}
	for _, v := range vars {
		exprs[v] = fhirpath.MustCompile("%" + v)
	}
	maxLen := 3
	if c.thorough {
		maxLen = 4
	}
	var rec func(prefix []int)
	run := func(list []int) {
		opts := []fhirpath.EvaluateOption{}
		toks := []string{}
		for _, i := range list {
			k := kinds[i]
			opts = append(opts, evalopts.EnvVariable(k.name, k.val))
			toks = append(toks, k.name+"="+k.shape)
		}
		tok := "-"
		if len(toks) > 0 {
			tok = strings.Join(toks, ";")
		}
		// read two variables per list (all of them for short lists)
		vs := vars
		if len(list) >= 3 {
			vs = []string{vars[c.rng.Intn(len(vars))], "context"}
		}
		for _, v := range vs {
			o := safeEval(func() (system.Collection, error) { return exprs[v].Evaluate(input, opts...) })
			var out string
			switch {
			case o.Panicked:
				out = "panic"
			case o.Err != nil:
				u, e := errors.Is(o.Err, fhirpath.ErrUnsupportedType), errors.Is(o.Err, fhirpath.ErrExistingConstant)
				if u || e {
					out = "err:"
					if u {
						out += "U"
					}
					if e {
						out += "E"
					}
				} else {
					out = "err:" + errClass(o.Err)
				}
			default:
				out = "ok:" + shapeOf(o.Coll)
			}
			c.Emit("env "+v+" "+tok, out, len(list) > 0)
			// direct oracle: which error classes must be present (independent re-statement of the property)
			wantU, wantE := false, false
			seenNames := map[string]bool{"context": true, "ucum": true}
			for _, i := range list {
				k := kinds[i]
				// unsupported: a value that is neither a System value nor a FHIR element, wherever it
				// sits, and a collection inside a collection (collections do not nest)
				if strings.Contains(k.shape, "b") || strings.Count(k.shape, "c(") >= 2 {
					wantU = true
					continue
				}
				if seenNames[k.name] {
					wantE = true
				}
				seenNames[k.name] = true
			}
			gotU, gotE := o.Err != nil && errors.Is(o.Err, fhirpath.ErrUnsupportedType), o.Err != nil && errors.Is(o.Err, fhirpath.ErrExistingConstant)
			c.Law(gotU == wantU && gotE == wantE, "C17/option-error-classes", "unsupported values fail with ErrUnsupportedType and duplicate/predefined names with ErrExistingConstant, whatever else is in the list", "options "+tok+" reading %"+v, fmt.Sprintf("unsupported=%v existing=%v err=%v", gotU, gotE, o.Err))
			if wantU || wantE {
				c.Law(o.Err != nil, "C17/failing-option-ignored", "if any option fails Evaluate returns that error", "options "+tok, out)
			}
			c.Count("outcome:" + strings.SplitN(out, ":", 2)[0])
		}
	}
	rec = func(prefix []int) {
		run(prefix)
		if len(prefix) == maxLen {
			return
		}
		for i := range kinds {
			rec(append(append([]int{}, prefix...), i))
		}
	}
	rec(nil)
	// a failing option prevents evaluation: the instrumented custom function must not run
	calls := 0
	probe := func(in system.Collection) (system.Collection, error) { calls++; return in, nil }
	pe, err := fhirpath.Compile("probe()", fhirpath.WithFunction("probe", probe))
	if err == nil {
		for _, bad := range [][]fhirpath.EvaluateOption{
			{evalopts.EnvVariable("x", 1)},
			{evalopts.EnvVariable("ok", system.Integer(1)), evalopts.EnvVariable("x", 1)},
			{evalopts.EnvVariable("x", 1), evalopts.EnvVariable("ok", system.Integer(1))},
			{evalopts.EnvVariable("ok", system.Integer(1)), evalopts.EnvVariable("ok", system.Integer(2))},
			{evalopts.EnvVariable("context", system.Integer(1)), evalopts.EnvVariable("ok", system.Integer(2))},
		} {
			calls = 0
			_, err := pe.Evaluate(input, bad...)
			c.Law(err != nil && calls == 0, "C17/evaluated-despite-failing-option", "if any option fails nothing is evaluated", "probe() with a failing option", fmt.Sprint(err, calls))
		}
		calls = 0
		_, err := pe.Evaluate(input, evalopts.EnvVariable("ok", system.Integer(1)))
		c.Law(err == nil && calls == 1, "C17/not-evaluated", "with valid options the expression is evaluated once", "probe()", fmt.Sprint(err, calls))
	}
	// variable positions: root, function argument, where / select criteria
	pos := []struct{ src, want string }{
		{"%v", "ok:[I:7]"}, {"(1 | 2).where($this < %v).count()", ""}, {"Patient.name.where(family = %f).family", "ok:[F(String)S:x41]"},
		{"Patient.name.select(%v)", "ok:[I:7,I:7]"}, {"'a7b'.indexOf(%v.toString())", "ok:[I:1]"}, {"Patient.name.family.exists($this = %f)", "ok:[B:true]"},
		{"iif(%t, %v, 0)", "ok:[I:7]"}, {"%context.id", "ok:[F(Id)S:x7031]"}, {"%ucum", "ok:[S:x687474703a2f2f756e6974736f666d6561737572652e6f7267]"},
	}
	// a variable evaluates to exactly the supplied value: an element or resource is the very same one
	// (not a copy), directly, inside a collection, and when navigated from
	{
		nm := &dtpb.HumanName{Family: fhir.String("Z"), Given: []*dtpb.String{fhir.String("g")}}
		for _, tc := range []struct {
			src  string
			opt  fhirpath.EvaluateOption
			want proto.Message
		}{
			{"%el", evalopts.EnvVariable("el", nm), nm}, {"%res", evalopts.EnvVariable("res", pat), pat}, {"%coll", evalopts.EnvVariable("coll", system.Collection{nm}), nm},
			{"%el.family", evalopts.EnvVariable("el", nm), nm.Family}, {"%el.given", evalopts.EnvVariable("el", nm), nm.Given[0]}, {"%res.where(true)", evalopts.EnvVariable("res", pat), pat},
		} {
			o := safeEval(func() (system.Collection, error) { return fhirpath.MustCompile(tc.src).Evaluate(input, tc.opt) })
			same := o.Err == nil && len(o.Coll) == 1
			if same {
				m, ok := o.Coll[0].(proto.Message)
				same = ok && m == tc.want
			}
			c.Observe("variable identity "+tc.src, true)
			c.Law(same, "C17/variable-identity", "a variable evaluates to exactly the supplied value (the same element, not a copy)", tc.src, canonOutcome(o, nil))
		}
	}
	for _, p := range pos {
		o := safeEval(func() (system.Collection, error) {
			e, err := fhirpath.Compile(p.src)
			if err != nil {
				return nil, fmt.Errorf("compile: %w", err)
			}
			return e.Evaluate(input, evalopts.EnvVariable("v", system.Integer(7)), evalopts.EnvVariable("f", system.String("A")), evalopts.EnvVariable("t", system.Boolean(true)))
		})
		if p.want != "" {
			c.Law(canonOutcome(o, nil) == p.want || outTokens(o) == p.want, "C17/variable-position", "a variable evaluates to the supplied value wherever it is referenced", p.src, canonOutcome(o, nil))
		} else {
			c.Count("position-unsupported:" + errClass(o.Err))
		}
	}
	// custom functions
	type fnCase struct {
		name string
		fn   any
		line string
	}
	good := func(in system.Collection) (system.Collection, error) { return system.Collection{system.Integer(len(in))}, nil }
	typed := func(in system.Collection, s system.String, i system.Integer) (system.Collection, error) {
		return system.Collection{s, i}, nil
	}
	failing := func(in system.Collection) (system.Collection, error) {
		return system.Collection{system.String("partial")}, errors.New("boom")
	}
	cases := []fnCase{
		{"good", good, "reg good 1 C C,E 0"},
		{"typed", typed, "reg typed 1 C,String,Integer C,E 0"},
		{"firstp", func(x int) (system.Collection, error) { return nil, nil }, "reg firstp 1 int C,E 0"},
		{"noargs", func() (system.Collection, error) { return nil, nil }, "reg noargs 1 - C,E 0"},
		{"oneres", func(in system.Collection) system.Collection { return in }, "reg oneres 1 C C 0"},
		{"badres", func(in system.Collection) (int, error) { return 0, nil }, "reg badres 1 C int,E 0"},
		{"noterr", func(in system.Collection) (system.Collection, string) { return in, "" }, "reg noterr 1 C C,string 0"},
		{"errptr", func(in system.Collection) (system.Collection, *c17Err) { return in, nil }, "reg errptr 1 C C,errptr 0"},
		{"errval", func(in system.Collection) (system.Collection, c17ErrVal) { return in, c17ErrVal{} }, "reg errval 1 C C,errval 0"},
		{"errlast3", func(in system.Collection) (system.Collection, error, error) { return in, nil, nil }, "reg errlast3 1 C C,E,E 0"},
		{"notfn", 42, "reg notfn 0 - - 0"},
		{"where", good, "reg where 1 C C,E 1"},
		{"count", good, "reg count 1 C C,E 1"},
	}
	for _, fc := range cases {
		var cerr error
		_, pan, _ := safeErr(func() error { _, cerr = fhirpath.Compile("1", fhirpath.WithFunction(fc.name, fc.fn)); return nil })
		out := "registered"
		switch {
		case pan:
			out = "panic"
		case cerr != nil && strings.Contains(cerr.Error(), "already exists"):
			out = "exists"
		case cerr != nil:
			out = "bad-signature"
		}
		if out == "registered" {
			// arity is the number of parameters after the input
			ar := map[string]int{"good": 0, "typed": 2}[fc.name]
			out = fmt.Sprintf("registered:%d", ar)
			for n := 0; n <= 3; n++ {
				args := strings.TrimSuffix(strings.Repeat("'s', ", n), ", ")
				_, err := fhirpath.Compile("Patient."+fc.name+"("+args+")", fhirpath.WithFunction(fc.name, fc.fn))
				c.Law((err == nil) == (n == ar), "C17/custom-arity", "a custom function is accepted at Compile only with its declared argument count", fmt.Sprintf("%s with %d args", fc.name, n), fmt.Sprint(err))
			}
		}
		c.Emit(fc.line, out, true)
		if map[string]bool{"firstp": true, "noargs": true, "oneres": true, "badres": true, "noterr": true, "errptr": true, "errval": true, "errlast3": true, "notfn": true}[fc.name] {
			c.Law(out == "bad-signature", "C17/bad-signature-accepted", "only func(Collection, ...) (Collection, error) values are accepted as custom functions", fc.line, out)
		}
	}
	// every entry point hands the options on: Evaluate and the typed helpers see the same variables and report the same
	// option failures
	{
		in := []fhir.Resource{mustResource(`{"resourceType":"Patient","id":"p1"}`)}
		type helper struct {
			name string
			src  string
			val  any
			call func(e *fhirpath.Expression, opts ...fhirpath.EvaluateOption) (string, error)
		}
		hs := []helper{
			{"Evaluate", "%x", system.Integer(7), func(e *fhirpath.Expression, opts ...fhirpath.EvaluateOption) (string, error) {
				r, err := e.Evaluate(in, opts...)
				return fmt.Sprint(r), err
			}},
			{"EvaluateAsBool", "%x", system.Boolean(true), func(e *fhirpath.Expression, opts ...fhirpath.EvaluateOption) (string, error) {
				r, err := e.EvaluateAsBool(in, opts...)
				return fmt.Sprint(r), err
			}},
			{"EvaluateAsString", "%x", system.String("s"), func(e *fhirpath.Expression, opts ...fhirpath.EvaluateOption) (string, error) {
				r, err := e.EvaluateAsString(in, opts...)
				return fmt.Sprint(r), err
			}},
			{"EvaluateAsInt32", "%x", system.Integer(7), func(e *fhirpath.Expression, opts ...fhirpath.EvaluateOption) (string, error) {
				r, err := e.EvaluateAsInt32(in, opts...)
				return fmt.Sprint(r), err
			}},
		}
		for _, h := range hs {
			e, err := fhirpath.Compile(h.src)
			if err != nil {
				continue
			}
			var got string
			var gerr error
			_, pan, _ := safeErr(func() error { got, gerr = h.call(e, evalopts.EnvVariable("x", h.val)); return nil })
			want := map[string]string{"Evaluate": "[7]", "EvaluateAsBool": "true", "EvaluateAsString": "s", "EvaluateAsInt32": "7"}[h.name]
			c.Observe("helper options "+h.name, true)
			c.Law(!pan && gerr == nil && got == want, "C17/variable-position", "a variable evaluates to the supplied value wherever it is referenced", h.name+"(%x) with %x supplied", fmt.Sprint(got, " ", gerr))
			for what, bad := range map[string][]fhirpath.EvaluateOption{
				"a duplicate name":    {evalopts.EnvVariable("x", h.val), evalopts.EnvVariable("x", h.val)},
				"a predefined name":   {evalopts.EnvVariable("x", h.val), evalopts.EnvVariable("ucum", system.String("u"))},
				"an unsupported type": {evalopts.EnvVariable("x", h.val), evalopts.EnvVariable("y", struct{}{})},
			} {
				var berr error
				_, pan, _ := safeErr(func() error { _, berr = h.call(e, bad...); return nil })
				c.Law(!pan && berr != nil, "C17/failing-option-ignored", "if any option fails Evaluate returns that error", h.name+" with "+what, fmt.Sprint(berr))
			}
		}
	}
	// an unknown variable is an evaluation error wherever it is evaluated — on either side of every operator, whatever
	// the other operand is (the empty collection included), at the root, in arguments and in criteria over items;
	// a custom function's error comes through from the same positions
	{
		in := []fhir.Resource{mustResource(`{"resourceType":"Patient","id":"p1","name":[{"given":["a"]},{"given":["b"],"family":"F"}]}`)}
		boom := func(c system.Collection) (system.Collection, error) { return nil, errors.New("boom") }
		for _, op := range []string{"=", "!=", "<", "<=", ">", ">=", "+", "-", "*", "/", "div", "mod", "&", "and", "or", "xor", "implies"} {
			for _, t := range []string{"{} %s X", "X %s {}", "false %s X", "true %s X", "X %s true", "1 %s X", "Patient.name.where(family %s X)", "Patient.name.select(family %s X)", "Patient.name.exists(family %s X)",
				"Patient.name.where(X %s family)", "Patient.name.first().select(family %s X)", "Patient.name.all(family %s X)", "Patient.photo.url %s X", "(Patient.name.family %s X).exists()"} {
				for _, x := range []string{"%nope", "boom()"} {
					src := strings.ReplaceAll(fmt.Sprintf(t, op), "X", x)
					o := safeEval(func() (system.Collection, error) {
						e, err := fhirpath.Compile(src, fhirpath.WithFunction("boom", boom))
						if err != nil {
							return nil, fmt.Errorf("compile: %w", err)
						}
						return e.Evaluate(in)
					})
					if o.Err != nil && strings.HasPrefix(o.Err.Error(), "compile:") {
						continue
					}
					c.Observe("unknown-variable "+src, true)
					if x == "%nope" {
						c.Law(!o.Panicked && o.Err != nil && errors.Is(o.Err, expr.ErrConstantNotFound), "C17/unknown-variable", "an unknown variable is an evaluation error", src, canonOutcome(o, nil))
					} else {
						c.Law(!o.Panicked && o.Err != nil && strings.Contains(o.Err.Error(), "boom"), "C17/custom-error", "the error a custom function returns is passed through", src, canonOutcome(o, nil))
					}
				}
			}
		}
		// the FHIR-defined names are ordinary names here: supplied, they are the supplied value; not supplied, unknown
		for _, name := range []string{"resource", "rootResource", "resources", "Context", "sct", "loinc", "vs-x", "ext-y"} {
			ref := "%" + name
			if strings.Contains(name, "-") {
				ref = "%`" + name + "`"
			}
			for _, src := range []string{ref, "Patient.name.select(" + ref + ")", "Patient.name.where(" + ref + " = 'v')", "(1).select(" + ref + " & 'x')"} {
				e, err := fhirpath.Compile(src)
				if err != nil {
					continue
				}
				o := safeEval(func() (system.Collection, error) { return e.Evaluate(in) })
				c.Observe("fhir-defined name "+src, true)
				c.Law(!o.Panicked && o.Err != nil && errors.Is(o.Err, expr.ErrConstantNotFound), "C17/unknown-variable", "an unknown variable is an evaluation error", src+" without the variable", canonOutcome(o, nil))
			}
			if strings.Contains(name, "-") {
				continue // (a delimited name is looked up with its back-ticks: observed, not required)
			}
			e, err := fhirpath.Compile(ref)
			if err != nil {
				continue
			}
			o := safeEval(func() (system.Collection, error) { return e.Evaluate(in, evalopts.EnvVariable(name, system.String("v"))) })
			c.Law(outTokens(o) == "ok:[S:x76]", "C17/variable-position", "a variable evaluates to the supplied value wherever it is referenced", ref+" with "+name+" = 'v'", canonOutcome(o, nil))
		}
		// select() hands on an item's error (other than "no such element" on a mixed collection) whatever the other items do
		failOdd := func(c system.Collection, s *dtpb.String) (system.Collection, error) {
			if s.GetValue() == "b" {
				return nil, errors.New("boom")
			}
			return system.Collection{system.String(s.GetValue())}, nil
		}
		for _, src := range []string{"Patient.name.select(failOdd(given.first()))", "Patient.name.given.select(failOdd($this))", "Patient.name.select(failOdd(given.first())).count()", "Patient.name.where(failOdd(given.first()) = 'a')",
			"Patient.name.exists(failOdd(given.first()) = 'a')", "Patient.name.all(failOdd(given.first()) = 'a')"} {
			o := safeEval(func() (system.Collection, error) {
				e, err := fhirpath.Compile(src, fhirpath.WithFunction("failOdd", failOdd))
				if err != nil {
					return nil, fmt.Errorf("compile: %w", err)
				}
				return e.Evaluate(in)
			})
			c.Observe("item error "+src, true)
			c.Law(!o.Panicked && o.Err != nil && strings.Contains(o.Err.Error(), "boom"), "C17/custom-error", "the error a custom function returns is passed through", src+" (fails for the second item only)", canonOutcome(o, nil))
		}
	}
	// one name, two registrations in the same Compile: rejected (the later one does not silently win), also
	// for a name that only the experimental table defines
	for _, tc := range []struct {
		what string
		opts []fhirpath.CompileOption
	}{
		{"AddFunction(myFn), AddFunction(myFn)", []fhirpath.CompileOption{fhirpath.WithFunction("myFn", good), fhirpath.WithFunction("myFn", failing)}},
		{"AddFunction(myFn), AddFunction(other), AddFunction(myFn)", []fhirpath.CompileOption{fhirpath.WithFunction("myFn", good), fhirpath.WithFunction("other", good), fhirpath.WithFunction("myFn", good)}},
		{"WithExperimentalFuncs, AddFunction(join)", []fhirpath.CompileOption{compopts.WithExperimentalFuncs(), fhirpath.WithFunction("join", good)}},
	} {
		_, err := fhirpath.Compile("1", tc.opts...)
		c.Observe("duplicate registration "+tc.what, true)
		c.Law(err != nil, "C17/duplicate-function-name", "a function name can be registered once per Compile; a second registration is an error", tc.what, "accepted")
	}
	// variables are values: filtering, projecting or subsetting a variable leaves it as supplied
	{
		v := system.Collection{system.String("a"), system.String("b"), system.String("c")}
		pat := []fhir.Resource{mustResource(`{"resourceType":"Patient","id":"p1"}`), mustResource(`{"resourceType":"Patient","id":"p2"}`), mustResource(`{"resourceType":"Patient","id":"p3"}`)}
		for _, src := range []string{"%v.where($this != 'a').count() = 2 and %v.first() = 'a' and %v.count() = 3", "%v.where($this = 'c') = 'c' and %v.first() = 'a' and %v[1] = 'b' and %v.last() = 'c'", "%v.select($this & 'x').first() = 'ax' and %v.first() = 'a'",
			"%v.tail().where($this = 'c').count() = 1 and %v[1] = 'b'", "%v.exclude('a').count() = 2 and %v.first() = 'a'", "%v.distinct().count() = 3 and %v.last() = 'c'", "%v.skip(1).where($this != 'b') = 'c' and %v[1] = 'b'",
			"%context.where(id != 'p1').count() = 2 and %context.first().id = 'p1' and %context.count() = 3", "where(id != 'p1').count() = 2 and %context.first().id = 'p1'", "%context.where(id = 'p3').id = 'p3' and %context[0].id = 'p1'"} {
			o := safeEval(func() (system.Collection, error) {
				e, err := fhirpath.Compile(src)
				if err != nil {
					return nil, err
				}
				return e.Evaluate(pat, evalopts.EnvVariable("v", v))
			})
			c.Observe("variable unchanged "+src, true)
			c.Law(outTokens(o) == "ok:[B:true]", "C17/variable-position", "a variable evaluates to the supplied value wherever it is referenced", src, canonOutcome(o, nil))
			c.Law(len(v) == 3 && v[0] == system.String("a") && v[1] == system.String("b") && v[2] == system.String("c"), "C17/variable-identity", "a variable keeps the supplied value: evaluation does not write to it", src, fmt.Sprint(v))
		}
	}
	// invocation: input collection and single-item typed arguments; result and error passed through
	ev := func(src string, fn any, name string) Outcome {
		return safeEval(func() (system.Collection, error) {
			e, err := fhirpath.Compile(src, fhirpath.WithFunction(name, fn))
			if err != nil {
				return nil, fmt.Errorf("compile: %w", err)
			}
			return e.Evaluate(input)
		})
	}
	o := ev("Patient.name.good()", good, "good")
	c.Law(outTokens(o) == "ok:[I:2]", "C17/custom-input", "a custom function receives the current input collection", "Patient.name.good()", outTokens(o))
	o = ev("Patient.typed('s', 3)", typed, "typed")
	c.Law(outTokens(o) == "ok:[S:x73,I:3]", "C17/custom-args", "a custom function receives its evaluated single-item arguments", "Patient.typed('s', 3)", outTokens(o))
	o = ev("Patient.typed(3, 's')", typed, "typed")
	c.Law(o.Err != nil && !o.Panicked, "C17/custom-arg-type", "arguments are checked against the parameter types", "Patient.typed(3, 's')", outTokens(o))
	for _, src := range []string{"Patient.typed({}, 3)", "Patient.typed('s', {})", "Patient.typed(Patient.gender, 3)", "Patient.typed('s', Patient.name.where(false).count().where($this > 5))"} {
		o = ev(src, typed, "typed")
		c.Observe("custom empty argument "+src, true)
		c.Law(o.Err != nil && !o.Panicked, "C17/custom-arg-singleton", "arguments must be single items: an empty argument is an error, the function is not skipped", src, outTokens(o))
	}
	// a custom function named like an experimental one, registered before WithExperimentalFuncs: if Compile
	// accepts the options, the call reaches the custom function and its result is passed through
	{
		customJoin := func(in system.Collection, sep system.String) (system.Collection, error) {
			return system.Collection{system.String("custom")}, nil
		}
		for _, order := range []string{"custom-first", "experimental-first"} {
			opts := []fhirpath.CompileOption{fhirpath.WithFunction("join", customJoin), compopts.WithExperimentalFuncs()}
			if order == "experimental-first" {
				opts = []fhirpath.CompileOption{compopts.WithExperimentalFuncs(), fhirpath.WithFunction("join", customJoin)}
			}
			e, err := fhirpath.Compile("Patient.name.family.join('-')", opts...)
			c.Observe("custom join "+order, true)
			if err != nil {
				continue // rejected as an existing name: allowed
			}
			r, err := e.Evaluate(input)
			c.Law(err == nil && len(r) == 1 && r[0] == system.String("custom"), "C17/custom-shadowed", "a custom function that Compile accepted is the one that is called", "join registered "+order, fmt.Sprint(r, err))
		}
	}
	o = ev("Patient.typed(Patient.name.family, 3)", typed, "typed")
	c.Law(o.Err != nil && !o.Panicked, "C17/custom-arg-singleton", "arguments must be single items", "Patient.typed(Patient.name.family, 3)", outTokens(o))
	// every parameter type x every argument type, one and two parameters: the call succeeds exactly
	// when each argument has its parameter's type, and then hands the values over unchanged
	type argForm struct{ src, ty, tok string }
	forms := []argForm{{"'s'", "String", "S:x73"}, {"65", "Integer", "I:65"}, {"true", "Boolean", "B:true"}, {"1.5", "Decimal", "D:15e-1"}, {"(1 + 1)", "Integer", "I:2"}, {"Patient.id", "element", ""}}
	one := map[string]any{
		"String":  func(in system.Collection, a system.String) (system.Collection, error) { return system.Collection{a}, nil },
		"Integer": func(in system.Collection, a system.Integer) (system.Collection, error) { return system.Collection{a}, nil },
		"Boolean": func(in system.Collection, a system.Boolean) (system.Collection, error) { return system.Collection{a}, nil },
		"Decimal": func(in system.Collection, a system.Decimal) (system.Collection, error) { return system.Collection{a}, nil },
	}
	for _, pt := range []string{"String", "Integer", "Boolean", "Decimal"} {
		for _, a := range forms {
			src := "Patient.one" + pt + "(" + a.src + ")"
			o := ev(src, one[pt], "one"+pt)
			c.Observe("custom "+src, true)
			if a.ty == pt {
				c.Law(outTokens(o) == "ok:["+a.tok+"]", "C17/custom-args", "a custom function receives its evaluated single-item arguments", src+" (parameter "+pt+")", outTokens(o))
			} else {
				c.Law(o.Err != nil && !o.Panicked, "C17/custom-arg-type", "arguments are checked against the parameter types", src+" (parameter "+pt+", argument "+a.ty+")", outTokens(o))
			}
		}
	}
	two := map[string]any{
		"String,Integer":  func(in system.Collection, a system.String, b system.Integer) (system.Collection, error) { return system.Collection{a, b}, nil },
		"Integer,String":  func(in system.Collection, a system.Integer, b system.String) (system.Collection, error) { return system.Collection{a, b}, nil },
		"String,String":   func(in system.Collection, a system.String, b system.String) (system.Collection, error) { return system.Collection{a, b}, nil },
		"Boolean,Decimal": func(in system.Collection, a system.Boolean, b system.Decimal) (system.Collection, error) { return system.Collection{a, b}, nil },
	}
	var twoKeys []string
	for k := range two {
		twoKeys = append(twoKeys, k)
	}
	sort.Strings(twoKeys)
	for ki, k := range twoKeys {
		pts := strings.Split(k, ",")
		for _, a := range forms {
			for _, b := range forms {
				name := fmt.Sprintf("two%d", ki)
				src := "Patient." + name + "(" + a.src + ", " + b.src + ")"
				o := ev(src, two[k], name)
				c.Observe("custom "+src, true)
				if a.ty == pts[0] && b.ty == pts[1] {
					c.Law(outTokens(o) == "ok:["+a.tok+","+b.tok+"]", "C17/custom-args", "a custom function receives its evaluated single-item arguments", src+" (parameters "+k+")", outTokens(o))
				} else {
					c.Law(o.Err != nil && !o.Panicked, "C17/custom-arg-type", "arguments are checked against the parameter types", src+" (parameters "+k+", arguments "+a.ty+","+b.ty+")", outTokens(o))
				}
			}
		}
	}
	// a custom function inside its own argument: each call sees its own input and arguments
	withSuffix := func(in system.Collection, suffix system.String) (system.Collection, error) {
		if len(in) != 1 {
			return nil, fmt.Errorf("want one input item, got %d", len(in))
		}
		s, _ := in[0].(system.String)
		return system.Collection{system.String(string(s) + "-" + string(suffix))}, nil
	}
	for _, tc := range []struct{ src, want string }{
		{"'alice'.withSuffix('bob'.withSuffix('x'))", "alice-bob-x"},
		{"'a'.withSuffix('b'.withSuffix('c'.withSuffix('d')))", "a-b-c-d"},
		{"'a'.withSuffix('b').withSuffix('c'.withSuffix('d'))", "a-b-c-d"},
		{"('a' | 'b').select($this.withSuffix($this.withSuffix('z'))).first()", ""},
	} {
		o := ev(tc.src, withSuffix, "withSuffix")
		c.Observe("custom nested "+tc.src, true)
		if tc.want != "" {
			c.Law(o.Err == nil && len(o.Coll) == 1 && o.Coll[0] == system.String(tc.want), "C17/custom-nested", "a custom function called inside its own argument receives its own input and arguments", tc.src, canonOutcome(o, nil)+" want "+tc.want)
		}
	}
	o = ev("Patient.failing()", failing, "failing")
	c.Law(o.Err != nil && strings.Contains(o.Err.Error(), "boom"), "C17/custom-error", "the error a custom function returns is passed through", "Patient.failing()", fmt.Sprint(o.Err))
	o = ev("failing()", failing, "failing")
	c.Law(len(o.Coll) == 1 && o.Coll[0] == system.String("partial"), "C17/custom-result-with-error", "the collection a custom function returns is passed through unchanged, also next to an error", "failing()", fmt.Sprint(o.Coll))
}

type c17Err struct{}

func (*c17Err) Error() string { return "c17" }

type c17ErrVal struct{}

func (c17ErrVal) Error() string { return "c17" }
