package main

// Schema-driven generator of populated R4 resources over the google/fhir proto descriptors:
// every resource type, choice types, enumerated codes, typed / untyped / fragment references,
// contained resources (Any-packed), Bundle entries, primitive extensions, every date/time
// precision.  All randomness comes from the caller's RNG.

import (
	"fmt"
	"sort"
	"strings"
	"time"

	apb "github.com/google/fhir/go/proto/google/fhir/proto/annotations_go_proto"
	"github.com/google/fhir/go/fhirversion"
	"github.com/google/fhir/go/jsonformat"
	bcrpb "github.com/google/fhir/go/proto/google/fhir/proto/r4/core/resources/bundle_and_contained_resource_go_proto"
	"github.com/verily-src/fhirpath-go/internal/containedresource"
	"github.com/verily-src/fhirpath-go/internal/fhir"
	"github.com/verily-src/fhirpath-go/internal/protofields"
	"google.golang.org/protobuf/proto"
	"google.golang.org/protobuf/reflect/protoreflect"
	"google.golang.org/protobuf/types/known/anypb"
)

type ResGen struct {
	r        *RNG
	maxDepth int
	density  int // percent chance to populate an optional field at depth 0
	NoExt    bool
}

func resourceNames() []string {
	names := make([]string, 0, len(protofields.Resources))
	for k := range protofields.Resources {
		names = append(names, k)
	}
	sort.Strings(names)
	return names
}

func sdKind(d protoreflect.MessageDescriptor) apb.StructureDefinitionKindValue {
	opts := d.Options()
	if opts == nil {
		return apb.StructureDefinitionKindValue_KIND_UNKNOWN
	}
	v, _ := proto.GetExtension(opts, apb.E_StructureDefinitionKind).(apb.StructureDefinitionKindValue)
	return v
}

func isChoiceMsg(d protoreflect.MessageDescriptor) bool {
	opts := d.Options()
	if opts == nil {
		return false
	}
	b, _ := proto.GetExtension(opts, apb.E_IsChoiceType).(bool)
	return b
}

var idAlphabet = "abcdefghijklmnopqrstuvwxyzABCDEFGHIJKLMNOPQRSTUVWXYZ0123456789-."

func (g *ResGen) ident(n int) string {
	b := make([]byte, 1+g.r.Intn(n))
	for i := range b {
		b[i] = idAlphabet[g.r.Intn(len(idAlphabet))]
	}
	return string(b)
}

var sampleStrings = []string{"a", "Smith", "x y", "é", "日本", "O'Neil", "line1\nline2", "100%", "ünï", "z"}
var tzs = []string{"UTC", "Z", "+05:30", "-11:00", "+00:00", "-03:30"}

func loc(tz string) *time.Location {
	switch tz {
	case "UTC", "Z":
		return time.UTC
	}
	sign := 1
	if tz[0] == '-' {
		sign = -1
	}
	var h, m int
	fmt.Sscanf(tz[1:], "%d:%d", &h, &m)
	return time.FixedZone(tz, sign*(h*3600+m*60))
}

func timeDate(y, m, d, h, mi, s, us int, tz string) time.Time {
	return time.Date(y, time.Month(m), d, h, mi, s, us*1000, loc(tz))
}

// fillPrimitive sets the scalar payload of a FHIR primitive message; returns false if the
// message is not a primitive it knows.
func (g *ResGen) fillPrimitive(m protoreflect.Message) bool {
	d := m.Descriptor()
	f := func(n string) protoreflect.FieldDescriptor { return d.Fields().ByName(protoreflect.Name(n)) }
	name := string(d.Name())
	vf := f("value")
	switch name {
	case "Date", "DateTime", "Instant":
		tz := Pick(g.r, tzs)
		l := loc(tz)
		y, mo, dd := 1900+g.r.Intn(200), 1+g.r.Intn(12), 1+g.r.Intn(28)
		hh, mi, ss, us := g.r.Intn(24), g.r.Intn(60), g.r.Intn(60), g.r.Intn(1000)*1000
		pf := f("precision")
		vals := pf.Enum().Values()
		p := vals.Get(1 + g.r.Intn(vals.Len()-1)) // skip PRECISION_UNSPECIFIED
		switch string(p.Name()) {
		case "YEAR":
			mo, dd, hh, mi, ss, us = 1, 1, 0, 0, 0, 0
		case "MONTH":
			dd, hh, mi, ss, us = 1, 0, 0, 0, 0
		case "DAY":
			hh, mi, ss, us = 0, 0, 0, 0
		case "SECOND":
			us = 0
		case "MILLISECOND":
		case "MICROSECOND":
			us += g.r.Intn(1000)
		}
		t := time.Date(y, time.Month(mo), dd, hh, mi, ss, us*1000, l)
		m.Set(f("value_us"), protoreflect.ValueOfInt64(t.UnixMicro()))
		m.Set(f("timezone"), protoreflect.ValueOfString(tz))
		m.Set(pf, protoreflect.ValueOfEnum(p.Number()))
		return true
	case "Time":
		pf := f("precision")
		vals := pf.Enum().Values()
		p := vals.Get(1 + g.r.Intn(vals.Len()-1))
		us := int64(g.r.Intn(24))*3600e6 + int64(g.r.Intn(60))*60e6 + int64(g.r.Intn(60))*1e6
		switch string(p.Name()) {
		case "MILLISECOND":
			us += int64(g.r.Intn(1000)) * 1000
		case "MICROSECOND":
			us += int64(g.r.Intn(1000000))
		}
		m.Set(f("value_us"), protoreflect.ValueOfInt64(us))
		m.Set(pf, protoreflect.ValueOfEnum(p.Number()))
		return true
	}
	if vf == nil || vf.IsList() {
		return false
	}
	switch vf.Kind() {
	case protoreflect.BoolKind:
		m.Set(vf, protoreflect.ValueOfBool(g.r.Bool()))
	case protoreflect.Int32Kind, protoreflect.Sint32Kind:
		m.Set(vf, protoreflect.ValueOfInt32(int32(g.r.Intn(2001)-1000)))
	case protoreflect.Uint32Kind:
		v := uint32(g.r.Intn(1000))
		if name == "PositiveInt" {
			v++
		}
		m.Set(vf, protoreflect.ValueOfUint32(v))
	case protoreflect.BytesKind:
		m.Set(vf, protoreflect.ValueOfBytes([]byte(Pick(g.r, sampleStrings))))
	case protoreflect.EnumKind:
		vals := vf.Enum().Values()
		if vals.Len() < 2 {
			return false
		}
		m.Set(vf, protoreflect.ValueOfEnum(vals.Get(1+g.r.Intn(vals.Len()-1)).Number()))
	case protoreflect.StringKind:
		var s string
		switch name {
		case "Decimal":
			s = Pick(g.r, []string{"0", "1", "-1", "1.0", "1.50", "0.001", "123456789.123456789", "-0.5", "100"})
		case "Id":
			s = g.ident(12)
		case "Uri", "Url", "Canonical":
			s = Pick(g.r, []string{"http://example.org/x", "urn:uuid:53fefa32-fcbb-4ff8-8a92-55ee120877b7", "http://hl7.org/fhir/StructureDefinition/Patient", "http://example.org/cs|1.0"})
		case "Oid":
			s = "urn:oid:1.2.3." + fmt.Sprint(g.r.Intn(100))
		case "Uuid":
			s = "urn:uuid:53fefa32-fcbb-4ff8-8a92-55ee120877b" + fmt.Sprint(g.r.Intn(10))
		case "Code":
			s = Pick(g.r, []string{"a", "b-c", "final", "en-US"})
		case "Xhtml":
			s = "<div xmlns=\"http://www.w3.org/1999/xhtml\">" + Pick(g.r, []string{"x", "y z"}) + "</div>"
		default:
			if strings.HasSuffix(name, "Code") {
				s = Pick(g.r, []string{"text/plain", "en", "kg", "application/json"})
			} else {
				s = Pick(g.r, sampleStrings)
			}
		}
		m.Set(vf, protoreflect.ValueOfString(s))
	default:
		return false
	}
	return true
}

func isPrimitiveLike(d protoreflect.MessageDescriptor) bool {
	if sdKind(d) == apb.StructureDefinitionKindValue_KIND_PRIMITIVE_TYPE {
		return true
	}
	// code wrappers: message with a scalar `value` field (enum or string) named ...Code
	vf := d.Fields().ByName("value")
	return vf != nil && !vf.IsList() && vf.Kind() != protoreflect.MessageKind && strings.HasSuffix(string(d.Name()), "Code")
}

// Fill populates message m (already allocated) recursively.
func (g *ResGen) Fill(m protoreflect.Message, depth int) {
	d := m.Descriptor()
	if isPrimitiveLike(d) {
		g.fillPrimitive(m)
		if !g.NoExt && depth < g.maxDepth && g.r.Intn(12) == 0 {
			if ef := d.Fields().ByName("extension"); ef != nil && ef.IsList() {
				g.addExtension(m, ef, depth+1)
			}
		}
		return
	}
	switch string(d.FullName()) {
	case "google.fhir.r4.core.Reference":
		g.fillReference(m, depth)
		return
	case "google.fhir.r4.core.Extension":
		g.fillExtension(m, depth)
		return
	case "google.fhir.r4.core.ContainedResource":
		g.fillContained(m, depth)
		return
	case "google.protobuf.Any":
		return
	}
	// oneofs: choose one member each (choice types)
	done := map[protoreflect.FullName]bool{}
	for i := 0; i < d.Oneofs().Len(); i++ {
		oo := d.Oneofs().Get(i)
		if oo.Fields().Len() == 0 {
			continue
		}
		fd := oo.Fields().Get(g.r.Intn(oo.Fields().Len()))
		for j := 0; j < oo.Fields().Len(); j++ {
			done[oo.Fields().Get(j).FullName()] = true
		}
		if fd.Kind() == protoreflect.MessageKind {
			sub := m.Mutable(fd).Message()
			g.Fill(sub, depth+1)
		}
	}
	chance := g.density >> uint(depth)
	if chance < 6 {
		chance = 6
	}
	isChoice := isChoiceMsg(d)
	for i := 0; i < d.Fields().Len(); i++ {
		fd := d.Fields().Get(i)
		if done[fd.FullName()] || isChoice {
			continue
		}
		name := string(fd.Name())
		if fd.Kind() != protoreflect.MessageKind {
			continue // resources/complex types only have message fields
		}
		switch name {
		case "extension", "modifier_extension":
			if !g.NoExt && depth < g.maxDepth && g.r.Intn(10) == 0 {
				g.addExtension(m, fd, depth+1)
			}
			continue
		case "contained":
			if depth == 0 && g.r.Intn(3) == 0 {
				g.addContained(m, fd)
			}
			continue
		case "id":
			if depth == 0 || g.r.Intn(8) == 0 {
				g.Fill(m.Mutable(fd).Message(), depth+1)
			}
			continue
		case "meta", "text", "implicit_rules", "language":
			if g.r.Intn(6) != 0 {
				continue
			}
		}
		if depth >= g.maxDepth && !isPrimitiveLike(fd.Message()) {
			continue
		}
		if g.r.Intn(100) >= chance {
			continue
		}
		if fd.IsList() {
			n := 1 + g.r.Intn(3)
			l := m.Mutable(fd).List()
			for k := 0; k < n; k++ {
				e := l.NewElement()
				g.Fill(e.Message(), depth+1)
				if g.nonEmpty(e.Message()) {
					l.Append(e)
				}
			}
			if l.Len() == 0 {
				m.Clear(fd)
			}
			continue
		}
		sub := m.Mutable(fd).Message()
		g.Fill(sub, depth+1)
		if !g.nonEmpty(sub) {
			m.Clear(fd)
		}
	}
}

func (g *ResGen) nonEmpty(m protoreflect.Message) bool {
	n := 0
	m.Range(func(protoreflect.FieldDescriptor, protoreflect.Value) bool { n++; return false })
	return n > 0
}

func (g *ResGen) fillReference(m protoreflect.Message, depth int) {
	d := m.Descriptor()
	oo := d.Oneofs().ByName("reference")
	switch g.r.Intn(6) {
	case 0: // untyped URI
		fd := d.Fields().ByName("uri")
		s := m.Mutable(fd).Message()
		s.Set(s.Descriptor().Fields().ByName("value"), protoreflect.ValueOfString(Pick(g.r, []string{"urn:uuid:53fefa32-fcbb-4ff8-8a92-55ee120877b7", "http://example.org/fhir/Patient/1", "urn:oid:1.2.3"})))
	case 1: // fragment
		fd := d.Fields().ByName("fragment")
		s := m.Mutable(fd).Message()
		s.Set(s.Descriptor().Fields().ByName("value"), protoreflect.ValueOfString(g.ident(6)))
	case 2: // display only
		fd := d.Fields().ByName("display")
		s := m.Mutable(fd).Message()
		s.Set(s.Descriptor().Fields().ByName("value"), protoreflect.ValueOfString(Pick(g.r, sampleStrings)))
	default: // typed id, optionally versioned
		var ids []protoreflect.FieldDescriptor
		for i := 0; i < oo.Fields().Len(); i++ {
			if strings.HasSuffix(string(oo.Fields().Get(i).Name()), "_id") {
				ids = append(ids, oo.Fields().Get(i))
			}
		}
		fd := ids[g.r.Intn(len(ids))]
		rid := m.Mutable(fd).Message()
		rid.Set(rid.Descriptor().Fields().ByName("value"), protoreflect.ValueOfString(g.ident(10)))
		if g.r.Intn(4) == 0 {
			h := rid.Mutable(rid.Descriptor().Fields().ByName("history")).Message()
			h.Set(h.Descriptor().Fields().ByName("value"), protoreflect.ValueOfString(g.ident(4)))
		}
		if g.r.Intn(4) == 0 {
			dd := d.Fields().ByName("display")
			s := m.Mutable(dd).Message()
			s.Set(s.Descriptor().Fields().ByName("value"), protoreflect.ValueOfString(Pick(g.r, sampleStrings)))
		}
	}
}

func (g *ResGen) fillExtension(m protoreflect.Message, depth int) {
	d := m.Descriptor()
	u := m.Mutable(d.Fields().ByName("url")).Message()
	u.Set(u.Descriptor().Fields().ByName("value"), protoreflect.ValueOfString("http://example.org/ext/"+Pick(g.r, []string{"a", "b", "c"})))
	vx := m.Mutable(d.Fields().ByName("value")).Message()
	oo := vx.Descriptor().Oneofs().Get(0)
	// prefer primitive-valued extensions
	var cands []protoreflect.FieldDescriptor
	for i := 0; i < oo.Fields().Len(); i++ {
		fd := oo.Fields().Get(i)
		if isPrimitiveLike(fd.Message()) || depth < g.maxDepth {
			cands = append(cands, fd)
		}
	}
	fd := cands[g.r.Intn(len(cands))]
	sub := vx.Mutable(fd).Message()
	save := g.NoExt
	g.NoExt = true
	g.Fill(sub, depth+1)
	g.NoExt = save
	if !g.nonEmpty(sub) {
		// fall back to a string value
		sf := vx.Descriptor().Fields().ByName("string_value")
		s := vx.Mutable(sf).Message()
		s.Set(s.Descriptor().Fields().ByName("value"), protoreflect.ValueOfString("v"))
	}
}

func (g *ResGen) addExtension(m protoreflect.Message, fd protoreflect.FieldDescriptor, depth int) {
	l := m.Mutable(fd).List()
	n := 1 + g.r.Intn(2)
	for i := 0; i < n; i++ {
		e := l.NewElement()
		g.fillExtension(e.Message(), depth)
		l.Append(e)
	}
}

var smallContained = []string{"Patient", "Organization", "Practitioner", "Observation", "Medication", "Location"}

func (g *ResGen) fillContained(m protoreflect.Message, depth int) {
	name := Pick(g.r, smallContained)
	res := g.NewResource(name, depth+1)
	cr := containedresource.Wrap(res)
	proto.Merge(m.Interface(), cr)
}

func (g *ResGen) addContained(m protoreflect.Message, fd protoreflect.FieldDescriptor) {
	l := m.Mutable(fd).List()
	n := 1 + g.r.Intn(2)
	for i := 0; i < n; i++ {
		cr := &bcrpb.ContainedResource{}
		g.fillContained(cr.ProtoReflect(), 1)
		a, err := anypb.New(cr)
		if err != nil {
			continue
		}
		l.Append(protoreflect.ValueOfMessage(a.ProtoReflect()))
	}
}

// NewResource creates a populated resource of the named R4 type.
func (g *ResGen) NewResource(name string, depth int) fhir.Resource {
	refs := protofields.Resources[name]
	msg := refs.New()
	g.Fill(msg.ProtoReflect(), depth)
	res := msg.(fhir.Resource)
	return res
}

var jsonMarshaller, _ = jsonformat.NewMarshaller(false, "", "", fhirversion.R4)

// marshalJSON renders the resource with google/fhir's jsonformat.
// A resource that is not a valid proto rendering of a FHIR resource (an enum number outside its value set, say)
// makes the marshaller panic: that is reported as an error, so that the laws judge it instead of the run ending.
func marshalJSON(res fhir.Resource) (b []byte, err error) {
	defer func() {
		if p := recover(); p != nil {
			b, err = nil, fmt.Errorf("panic in the JSON marshaller: %v", p)
		}
	}()
	return jsonMarshaller.Marshal(containedresource.Wrap(res))
}

// GenValid generates resources until one marshals (invalid ones are counted and dropped).
func (g *ResGen) GenValid(name string, c *Ctx) (fhir.Resource, []byte) {
	for try := 0; try < 20; try++ {
		var res fhir.Resource
		_, pan, _ := safeErr(func() error { res = g.NewResource(name, 0); return nil })
		if pan || res == nil {
			c.Count("gen-panic")
			continue
		}
		js, err := marshalJSON(res)
		if err != nil {
			c.Count("gen-unmarshalable")
			continue
		}
		return res, js
	}
	return nil, nil
}
