package main

// C19 — reference and identity parsing/formatting are mutual inverses.
// Generated space: resource type names x ids/versions over the id alphabet (valid and invalid
// lengths/characters) x base URLs x forms (relative, absolute, versioned, fragment, '#', URN
// uuid/oid, canonical with |version and #fragment, '') + byte-mutated neighbours.

import (
	"fmt"
	"strings"

	dtpb "github.com/google/fhir/go/proto/google/fhir/proto/r4/core/datatypes_go_proto"
	"github.com/verily-src/fhirpath-go/internal/element/canonical"
	"github.com/verily-src/fhirpath-go/internal/element/reference"
	"github.com/verily-src/fhirpath-go/internal/fhir"
	"github.com/verily-src/fhirpath-go/internal/resource"
	"google.golang.org/protobuf/proto"
)

func init() { props["C19"] = runC19 }

func litOut(l *reference.LiteralInfo, err error, pan bool) string {
	if pan {
		return "panic"
	}
	if err != nil {
		return "err"
	}
	parts := []string{}
	if f, ok := l.FragmentID(); ok {
		parts = append(parts, "frag="+hexs(f))
	}
	if id, ok := l.Identity(); ok {
		v, _ := id.VersionID()
		parts = append(parts, "ident="+hexs(string(id.Type()))+"/"+hexs(id.ID())+"/"+hexs(v))
	}
	if l.ServiceBaseURL() != "" {
		parts = append(parts, "base="+hexs(l.ServiceBaseURL()))
	}
	if n, ok := l.NonRESTURI(); ok {
		parts = append(parts, "nonrest="+hexs(n))
	}
	parts = append(parts, "uri="+hexs(l.URIString()))
	return "ok:" + strings.Join(parts, "|")
}

func modelledURI(s string) bool {
	for _, r := range s {
		switch {
		case r >= 'a' && r <= 'z', r >= 'A' && r <= 'Z', r >= '0' && r <= '9':
		case strings.ContainsRune("-._:/+#|", r):
		default:
			return false
		}
	}
	return true
}

func runC19(c *Ctx) {
	c.meta.Rule = "strings: all 146 resource types x ids/versions over the id alphabet (lengths 1, 2, 64 valid; 0, 65 and foreign characters invalid) x bases {none, http/https, port, nested path, trailing slash, double slash} x forms {relative, absolute, versioned, fragment, '#', urn:uuid, urn:oid, canonical |version #fragment, ''} plus byte-mutated neighbours; references: typed, weak, fragment, logical with and without display; non-trivial = non-empty string; distinct by operation line"
	types := resourceNames()
	idAlpha := "abcXYZ019-."
	mkID := func(n int) string {
		b := make([]byte, n)
		for i := range b {
			b[i] = idAlpha[c.rng.Intn(len(idAlpha))]
		}
		return string(b)
	}
	ids := func() string {
		switch c.rng.Intn(9) {
		case 0:
			return mkID(1)
		case 1:
			return mkID(64)
		case 2:
			return mkID(65) // too long
		case 3:
			return "" // too short
		case 4:
			return mkID(3) + "_" + mkID(2) // invalid character
		case 5:
			return "_history"
		case 6:
			return Pick(c.rng, []string{".", "..", "...", "-", "a.", ".a", "1", "--", "a..b"}) // valid ids a path cleaner would mangle
		}
		return mkID(2 + c.rng.Intn(10))
	}
	bases := []string{"", "http://example.org/fhir", "https://a.b-c.org:8080/x/y", "http://h/", "http://h//", "ftp://x/y", "http://", "http:/x", "https://ex_ample/a", "HTTP://up.case/fhir", "http://a/Patient/1"}
	var uris []string
	add := func(s string) { uris = append(uris, s) }
	for _, s := range []string{"", "#", "#frag1", "#bad frag", "#" + mkID(65), "urn:uuid:53fefa32-fcbb-4ff8-8a92-55ee120877b7", "urn:oid:1.2.3", "urn:", "x:", "mailto:a", "Patient", "Patient/", "/Patient/1",
		"Patient/1/", "Patient/1/_history", "Patient/1/_history/", "Patient/1/_history/2/3", "patient/1", "Foo/1", "http://x|a|b", "http://x/Patient/1#f", "http://x/Patient/1|2", "://x", "1:x", "a:b:c", "http://h:port/x", "http://h:80/x", "http://h:/x", "http://h", "http://h/", "a/b", "+x:y"} {
		add(s)
	}
	nGen := 1500
	if c.thorough {
		nGen = 20000
	}
	// resource type names are case-sensitive everywhere a name is turned into a type
	for _, t := range types {
		for _, v := range []string{strings.ToLower(t[:1]) + t[1:], strings.ToLower(t), strings.ToUpper(t), t + "s", t[:len(t)-1]} {
			if v == t {
				continue
			}
			_, e1 := resource.NewType(v)
			_, e2 := resource.NewIdentity(v, "1", "")
			_, e3 := reference.IdentityFromRelativeURI(v + "/1")
			isOther := false
			for _, o := range types {
				isOther = isOther || o == v
			}
			if isOther {
				continue
			}
			c.Law(e1 != nil && e2 != nil && e3 != nil, "C19/type-name-accepted", "a string that is not a resource type name is rejected, never rewritten into one", v, fmt.Sprint(e1 == nil, e2 == nil, e3 == nil))
		}
	}
	for _, t := range types {
		add(t + "/" + mkID(5))
		add("http://example.org/fhir/" + t + "/" + mkID(5) + "/_history/" + mkID(2))
	}
	for i := 0; i < nGen; i++ {
		t := Pick(c.rng, types)
		if c.rng.Intn(10) == 0 {
			t = Pick(c.rng, []string{"patient", "Foo", "_history", "Resource", ""})
		}
		rel := t + "/" + ids()
		if c.rng.Intn(3) == 0 {
			rel += "/_history/" + ids()
		}
		b := Pick(c.rng, bases)
		u := rel
		if b != "" {
			u = b + "/" + rel
		}
		add(u)
		// byte-mutated neighbour
		if len(u) > 0 && c.rng.Intn(2) == 0 {
			bs := []byte(u)
			k := c.rng.Intn(len(bs))
			switch c.rng.Intn(4) {
			case 0:
				bs[k] = "/#|:_. -"[c.rng.Intn(8)]
			case 1:
				bs = append(bs[:k], bs[k+1:]...)
			case 2:
				bs = append(bs[:k], append([]byte{"/:#x"[c.rng.Intn(4)]}, bs[k:]...)...)
			default:
				bs[k] = byte(c.rng.Intn(256))
			}
			add(string(bs))
		}
	}
	for _, u := range uris {
		var l *reference.LiteralInfo
		var err error
		_, pan, _ := safeErr(func() error { l, err = reference.LiteralInfoFromURI(u); return nil })
		out := litOut(l, err, pan)
		c.Law(!pan, "C19/parse-panics", "rejected strings produce an error, never a crash", fmt.Sprintf("LiteralInfoFromURI(%q)", u), "panic")
		if modelledURI(u) {
			c.Emit("lit "+hexs(u), out, u != "")
		} else {
			c.Observe("lit-unmodelled "+hexs(u), false)
		}
		c.Count("lit:" + strings.SplitN(out, ":", 2)[0])
		// the identity of the untyped reference with this URI is the identity the literal parse finds: the one
		// succeeds exactly when the other finds a resource identity, with the same type, id and version
		if !pan {
			var idn *resource.Identity
			var ierr error
			_, ipan, _ := safeErr(func() error { idn, ierr = reference.IdentityOf(&dtpb.Reference{Reference: &dtpb.Reference_Uri{Uri: fhir.String(u)}}); return nil })
			c.Law(!ipan, "C19/parse-panics", "rejected strings produce an error, never a crash", fmt.Sprintf("IdentityOf(uri %q)", u), "panic")
			if !ipan {
				var lid *resource.Identity
				if err == nil {
					if x, ok := l.Identity(); ok {
						lid = x
					}
				}
				got, want := "none", "none"
				if ierr == nil && idn != nil {
					v, _ := idn.VersionID()
					got = string(idn.Type()) + "/" + idn.ID() + "/" + v
				}
				if lid != nil {
					v, _ := lid.VersionID()
					want = string(lid.Type()) + "/" + lid.ID() + "/" + v
				}
				c.Law(got == want, "C19/identity-literal-agree", "the identity of an untyped reference is the identity its literal parse finds (rejected strings have none)", fmt.Sprintf("%q", u), got+" vs literal "+want)
			}
		}
		// the relative-URI parser: whatever it accepts formats back to the very same string (no silent rewriting of the
		// type name, the id or the version)
		{
			var rid *resource.Identity
			var rerr error
			_, rpan, _ := safeErr(func() error { rid, rerr = reference.IdentityFromRelativeURI(u); return nil })
			c.Law(!rpan, "C19/parse-panics", "rejected strings produce an error, never a crash", fmt.Sprintf("IdentityFromRelativeURI(%q)", u), "panic")
			if !rpan && rerr == nil && rid != nil && !strings.Contains(u, "//") && !strings.HasSuffix(u, "/") {
				c.Law(rid.PreferRelativeVersionedURIString() == u, "C19/format-canonical", "formatting an accepted reference without redundant slashes returns the input", fmt.Sprintf("IdentityFromRelativeURI(%q)", u), rid.PreferRelativeVersionedURIString())
			}
		}
		if pan || err != nil {
			continue
		}
		// parse-format-parse returns the same information; canonical form identical for inputs without redundant slashes
		f := l.URIString()
		var l2 *reference.LiteralInfo
		var err2 error
		_, pan2, _ := safeErr(func() error { l2, err2 = reference.LiteralInfoFromURI(f); return nil })
		c.Law(!pan2 && err2 == nil && litOut(l2, nil, false) == out, "C19/parse-format-parse", "parse-format-parse returns the same information", fmt.Sprintf("%q -> %q", u, f), litOut(l2, err2, pan2)+" vs "+out)
		if !strings.Contains(strings.TrimPrefix(strings.TrimPrefix(u, "http://"), "https://"), "//") && !strings.HasSuffix(u, "/") {
			c.Law(f == u, "C19/format-canonical", "formatting an accepted reference without redundant slashes returns the input", u, f)
		}
	}
	// identity format -> parse
	for i := 0; i < 600; i++ {
		t, id, v := Pick(c.rng, types), mkID(1+c.rng.Intn(64)), ""
		if c.rng.Bool() {
			v = mkID(1 + c.rng.Intn(64))
		}
		ident, err := resource.NewIdentity(t, id, v)
		if err != nil {
			continue
		}
		s := ident.PreferRelativeVersionedURIString()
		back, err := reference.IdentityFromURL(s)
		c.Law(err == nil && back.Equal(ident), "C19/identity-roundtrip", "formatting an identity and parsing it back returns the same components", s, fmt.Sprint(err))
		b := Pick(c.rng, []string{"http://example.org/fhir", "https://h:8080/a/b"})
		back2, err := reference.IdentityFromAbsoluteURL(b + "/" + s)
		c.Law(err == nil && back2.Equal(ident), "C19/identity-roundtrip-absolute", "absolute url round trip", b+"/"+s, fmt.Sprint(err))
		// typed (strong) and weak references naming the same resource
		strong := reference.TypedFromIdentity(ident)
		weak := reference.Weak(ident.Type(), s)
		ls, e1 := reference.LiteralInfoOf(strong)
		lw, e2 := reference.LiteralInfoOf(weak)
		c.Law(e1 == nil && e2 == nil && litOut(ls, nil, false) == litOut(lw, nil, false), "C19/strong-weak-info", "a typed reference and the untyped URI reference naming the same resource parse to equal information", s, fmt.Sprint(e1, e2))
		// every constructor of a typed reference formats the same identity: Typed(type, id) is TypedFromIdentity without a version
		if _, hasVersion := ident.VersionID(); !hasVersion {
			tr, terr := reference.Typed(ident.Type(), ident.ID())
			c.Observe("Typed "+s, true)
			c.Law(terr == nil && proto.Equal(tr, strong), "C19/typed-constructor", "Typed(type, id) formats the reference TypedFromIdentity formats, for every valid id", s, fmt.Sprint(terr, " ", tr))
		}
		// the same literal under another service base URL: same type and identity, and its formatted form parses back to it
		for _, nb := range []string{"http://other.example.org/r4", "https://h:8080/a/b", ""} {
			for _, l := range []*reference.LiteralInfo{ls, lw} {
				if l == nil {
					continue
				}
				l2, err := l.WithServiceBaseURL(nb)
				if err != nil {
					c.Count("rebase:error")
					continue
				}
				t1, ok1 := l.Type()
				t2, ok2 := l2.Type()
				i1, _ := l.Identity()
				i2, _ := l2.Identity()
				back, berr := reference.LiteralInfoFromURI(l2.URIString())
				good := ok1 == ok2 && t1 == t2 && (i1 == nil) == (i2 == nil) && (i1 == nil || i1.Equal(i2)) && l2.ServiceBaseURL() == nb && berr == nil && litOut(back, nil, false) == litOut(l2, nil, false)
				c.Law(good, "C19/rebase", "a literal placed under another service base URL keeps its type and identity, and formatting it and parsing it back returns the same components", fmt.Sprintf("%s under %q", s, nb), litOut(l2, nil, false)+" reparsed "+litOut(back, berr, false))
			}
		}
		// the strong reference with and without its `type` element, against the URI form: the same resource type
		{
			bare := proto.Clone(strong).(*dtpb.Reference)
			bare.Type = nil
			lb, eb := reference.LiteralInfoOf(bare)
			if eb == nil && lw != nil && ls != nil {
				tb, okb := lb.Type()
				tw, okw := lw.Type()
				ts, oks := ls.Type()
				c.Law(okb == okw && tb == tw && oks == okw && ts == tw, "C19/strong-weak-info", "a typed reference and the untyped URI reference naming the same resource parse to equal information", s+" (resource type of the strong form, with and without Reference.type, and of the URI form)", fmt.Sprintf("%q/%v %q/%v %q/%v", tb, okb, ts, oks, tw, okw))
				c.Law(litOut(lb, nil, false) == litOut(lw, nil, false), "C19/strong-weak-info", "a typed reference and the untyped URI reference naming the same resource parse to equal information", s+" (strong form without Reference.type)", litOut(lb, nil, false))
			} else if eb != nil {
				c.Law(false, "C19/strong-weak-info", "a typed reference and the untyped URI reference naming the same resource parse to equal information", s+" (strong form without Reference.type)", eb.Error())
			}
		}
		c.Law(reference.Is(strong, weak) && reference.Is(weak, strong), "C19/strong-weak-is", "strong and weak references to the same resource compare as the same reference", s, "")
		// read back through FHIRPath `reference`
		for _, r := range []*dtpb.Reference{strong, weak} {
			o := compileEval("%r.reference", []fhir.Resource{mustResource(`{"resourceType":"Patient","id":"p"}`)}, envVar("r", r))
			okk := o.Err == nil && len(o.Coll) == 1
			if okk {
				str, _ := o.Coll[0].(*dtpb.String)
				okk = str.GetValue() == s
			}
			c.Law(okk, "C19/fhirpath-reference", "the FHIRPath `reference` element reads back the same string", s, canonOutcome(o, nil))
		}
	}
	// fragment references, the bare '#' included: the strong form and the URI form carry the same information and
	// read back through FHIRPath as the same string
	for _, fid := range []string{"", "c1", "a-1.b", mkID(64), "x"} {
		strong := &dtpb.Reference{Reference: &dtpb.Reference_Fragment{Fragment: fhir.String(fid)}}
		weak := &dtpb.Reference{Reference: &dtpb.Reference_Uri{Uri: fhir.String("#" + fid)}}
		ls, e1 := reference.LiteralInfoOf(strong)
		lw, e2 := reference.LiteralInfoOf(weak)
		c.Law((e1 == nil) == (e2 == nil) && (e1 != nil || litOut(ls, nil, false) == litOut(lw, nil, false)), "C19/strong-weak-info", "a typed reference and the untyped URI reference naming the same resource parse to equal information", "#"+fid, fmt.Sprint(e1, e2))
		var outs []string
		for _, r := range []*dtpb.Reference{strong, weak} {
			o := compileEval("%r.reference", []fhir.Resource{mustResource(`{"resourceType":"Patient","id":"p"}`)}, envVar("r", r))
			outs = append(outs, canonOutcome(o, nil))
			okk := o.Err == nil && len(o.Coll) == 1
			if okk {
				str, _ := o.Coll[0].(*dtpb.String)
				okk = str.GetValue() == "#"+fid
			}
			c.Law(okk, "C19/fhirpath-reference", "the FHIRPath `reference` element reads back the same string", "#"+fid, canonOutcome(o, nil))
		}
		c.Observe("fragment #"+fid, true)
	}
	// reference identity comparison: an equivalence on a pool
	var pool []*dtpb.Reference
	id1, _ := resource.NewIdentity("Patient", "a", "")
	id2, _ := resource.NewIdentity("Patient", "a", "2")
	id3, _ := resource.NewIdentity("Observation", "a", "")
	id0, _ := resource.NewIdentity("Patient", "a", "1") // another version of the same resource (id1 has none, id2 has version 2)
	id4, _ := resource.NewIdentity("Patient", "A", "1") // ids are case-sensitive
	for _, id := range []*resource.Identity{id1, id2, id3, id0, id4} {
		pool = append(pool, reference.TypedFromIdentity(id), reference.Weak(id.Type(), id.PreferRelativeVersionedURIString()), reference.Weak(id.Type(), "http://x/fhir/"+id.PreferRelativeVersionedURIString()))
		// the same identity under a second service base: identity comparison looks at type / id / version only
		pool = append(pool, reference.Weak(id.Type(), "https://other.example/base/r4/"+id.PreferRelativeVersionedURIString()))
	}
	// parsing has no memory: a URI without a type of its own, read under different explicit types and bare, in sequence
	for _, uri := range []string{"urn:uuid:53fefa32-fcbb-4ff8-8a92-55ee120877b7", "urn:oid:1.2.840.113619", "http://example.org/fhir/ValueSet/vs", "urn:uuid:00000000-0000-0000-0000-000000000000"} {
		mk := func(t string) *dtpb.Reference {
			r := &dtpb.Reference{Reference: &dtpb.Reference_Uri{Uri: fhir.String(uri)}}
			if t != "" {
				r.Type = fhir.URI(t)
			}
			return r
		}
		lit := func(t string) (*reference.LiteralInfo, string) {
			var l *reference.LiteralInfo
			var err error
			_, pan, _ := safeErr(func() error { l, err = reference.LiteralInfoOf(mk(t)); return nil })
			return l, litOut(l, err, pan)
		}
		held, bare0 := lit("")
		_, pat0 := lit("Patient")
		_, obs0 := lit("Observation")
		_, bare1 := lit("")
		_, pat1 := lit("Patient")
		_, obs1 := lit("Observation")
		c.Observe("literal history "+uri, true)
		c.Law(bare0 == bare1 && pat0 == pat1 && obs0 == obs1, "C19/history-dependent", "parsing a reference gives the same information whatever was parsed before", uri+" bare / as Patient / as Observation, twice",
			fmt.Sprintf("bare %s then %s; Patient %s then %s; Observation %s then %s", bare0, bare1, pat0, pat1, obs0, obs1))
		c.Law(strings.HasPrefix(pat0, "err") == strings.HasPrefix(obs0, "err"), "C19/history-dependent", "an explicit type is accepted or refused alike for Patient and Observation on a URI that names no type", uri, "Patient: "+pat0+" Observation: "+obs0)
		if held != nil {
			c.Law(litOut(held, nil, false) == bare0, "C19/history-dependent", "information handed out by an earlier parse does not change under its holder", uri, bare0+" became "+litOut(held, nil, false))
		}
	}
	withDisplay := proto.Clone(pool[0]).(*dtpb.Reference)
	withDisplay.Display = fhir.String("d")
	pool = append(pool, withDisplay, reference.Logical("Patient", "sys", "v"), reference.Logical("Patient", "sys", "w"), &dtpb.Reference{},
		&dtpb.Reference{Reference: &dtpb.Reference_Fragment{Fragment: fhir.String("f")}, Type: fhir.URI("Patient")},
		&dtpb.Reference{Reference: &dtpb.Reference_Fragment{Fragment: fhir.String("f")}},
		&dtpb.Reference{Reference: &dtpb.Reference_Uri{Uri: fhir.String("urn:uuid:1")}}, &dtpb.Reference{Display: fhir.String("only")},
		// the URI layout of the fragment references above, and one with a display
		&dtpb.Reference{Reference: &dtpb.Reference_Uri{Uri: fhir.String("#f")}, Type: fhir.URI("Patient")},
		&dtpb.Reference{Reference: &dtpb.Reference_Uri{Uri: fhir.String("#f")}, Type: fhir.URI("Patient"), Display: fhir.String("d")},
		&dtpb.Reference{Reference: &dtpb.Reference_Uri{Uri: fhir.String("#g")}, Type: fhir.URI("Patient")})
	// a typed fragment reference and the URI reference naming the same contained resource compare as the same reference
	for _, fid := range []string{"f", "c1", "a-b.c"} {
		for _, typ := range []string{"Patient", "Observation"} {
			strong := &dtpb.Reference{Reference: &dtpb.Reference_Fragment{Fragment: fhir.String(fid)}, Type: fhir.URI(typ)}
			weak := &dtpb.Reference{Reference: &dtpb.Reference_Uri{Uri: fhir.String("#" + fid)}, Type: fhir.URI(typ)}
			weakD := &dtpb.Reference{Reference: &dtpb.Reference_Uri{Uri: fhir.String("#" + fid)}, Type: fhir.URI(typ), Display: fhir.String("shown")}
			other := &dtpb.Reference{Reference: &dtpb.Reference_Uri{Uri: fhir.String("#" + fid + "x")}, Type: fhir.URI(typ)}
			var a, b, cc, d bool
			_, pan, _ := safeErr(func() error {
				a, b, cc, d = reference.Is(strong, weak), reference.Is(weak, strong), reference.Is(weak, weakD), reference.Is(weak, other)
				return nil
			})
			c.Observe("fragment is "+typ+"#"+fid, true)
			c.Law(!pan && a && b && cc && !d, "C19/strong-weak-is", "a typed reference and the URI reference naming the same resource compare as the same reference (fragments included); a display changes nothing; another id differs",
				typ+" #"+fid, fmt.Sprintf("Is(strong,weak)=%v Is(weak,strong)=%v Is(weak,weak+display)=%v Is(weak,other)=%v panic=%v", a, b, cc, d, pan))
		}
	}
	wholeClass := func(r *dtpb.Reference) int {
		for i, p := range pool {
			if proto.Equal(p, r) {
				return i
			}
		}
		return -1
	}
	identClass := func(r *dtpb.Reference) string {
		if r.GetIdentifier() == nil {
			return "-"
		}
		for i, p := range pool {
			if proto.Equal(p.GetIdentifier(), r.GetIdentifier()) {
				return fmt.Sprint(i)
			}
		}
		return "?"
	}
	abs := func(r *dtpb.Reference) string {
		idt := "-"
		if id, err := reference.IdentityOf(r); err == nil {
			v, _ := id.VersionID()
			idt = hexs(string(id.Type())) + "/" + hexs(id.ID()) + "/" + hexs(v)
		}
		return fmt.Sprintf("%d,%s,%v,%s", wholeClass(r), identClass(r), r.Reference != nil, idt)
	}
	is := make([][]bool, len(pool))
	for i, a := range pool {
		is[i] = make([]bool, len(pool))
		for j, b := range pool {
			var got bool
			_, pan, _ := safeErr(func() error { got = reference.Is(a, b); return nil })
			is[i][j] = got
			out := fmt.Sprint(got)
			if pan {
				out = "panic"
			}
			c.Emit("refis "+abs(a)+" "+abs(b), out, true)
		}
	}
	for i := range pool {
		c.Law(is[i][i], "C19/is-reflexive", "reference identity comparison is reflexive", fmt.Sprint(pool[i]), "")
		for j := range pool {
			c.Law(is[i][j] == is[j][i], "C19/is-symmetric", "reference identity comparison is symmetric", fmt.Sprint(pool[i], " vs ", pool[j]), "")
			for k := range pool {
				if is[i][j] && is[j][k] {
					c.Law(is[i][k], "C19/is-transitive", "reference identity comparison is transitive", fmt.Sprint(pool[i], " ; ", pool[j], " ; ", pool[k]), "")
				}
			}
		}
	}
	// canonical
	canon := []string{"http://hl7.org/fhir/", "https://example.org:8443/base/fhir/|4.0.1", "http://x/#f", "http://x//|1#f", "urn:x:/", "http://example.com/fhir/ValueSet/my%20set|1.0.0", "http://x/%41|v#f", "http://x/100%|1", "http://x/a%sb#frag", "http://x/%d|1#f", "http://x/%v#f", "urn:x%25y|1.0", "http://x/%!s|1", "", "#frag", "|1", "http://x", "http://x|1.0", "http://x#f", "http://x|1.0#f", "http://x|a|b", "http://x#f|1", "http://x|", "http://x#", "urn:x|v_1-2.3#a.b", "x|1#" + mkID(64), "x|1#" + mkID(65)}
	for i := 0; i < 300; i++ {
		u := Pick(c.rng, []string{"http://example.org/sd/" + mkID(4), "urn:oid:1.2." + mkID(2), mkID(5)})
		if c.rng.Bool() {
			u += "|" + mkID(1+c.rng.Intn(5))
		}
		if c.rng.Bool() {
			u += "#" + mkID(1+c.rng.Intn(8))
		}
		canon = append(canon, u)
	}
	for _, s := range canon {
		var ci *resource.CanonicalIdentity
		var err error
		_, pan, _ := safeErr(func() error { ci, err = canonical.IdentityFromReference(&dtpb.Canonical{Value: s}); return nil })
		out := "err"
		switch {
		case pan:
			out = "panic"
		case err == nil:
			out = "ok:" + hexs(ci.Url) + "|" + hexs(ci.Version) + "|" + hexs(ci.Fragment)
		}
		c.Law(!pan, "C19/parse-panics", "rejected strings produce an error, never a crash", fmt.Sprintf("canonical.IdentityFromReference(%q)", s), "panic")
		c.Emit("canon "+hexs(s), out, s != "")
		if err == nil && !pan && strings.Count(s, "|") <= 1 && strings.Count(s, "#") <= 1 && !strings.HasSuffix(s, "|") && !strings.HasSuffix(s, "#") && (strings.Index(s, "#") < 0 || strings.Index(s, "|") < strings.Index(s, "#")) && len(ci.Fragment) < 64 {
			re := canonical.New(ci.Url, canonical.WithVersion(ci.Version), canonical.WithFragment(ci.Fragment)).GetValue()
			c.Law(re == s, "C19/canonical-reassemble", "well-formed canonical URLs split into url|version#fragment and reassemble unchanged", s, re)
			var str string
			_, span, _ := safeErr(func() error { str = ci.String(); return nil })
			c.Law(!span && str == s, "C19/canonical-reassemble", "well-formed canonical URLs split into url|version#fragment and reassemble unchanged", "CanonicalIdentity.String() of "+s, str)
		}
	}
}
