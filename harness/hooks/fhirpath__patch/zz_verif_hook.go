//go:build verif

package patch

// Verification hook (build tag verif, injected through a build overlay; never part of a normal build):
// exposes what the patch operations read from the evaluation context.

import (
	"github.com/verily-src/fhirpath-go/fhirpath"
	"github.com/verily-src/fhirpath-go/fhirpath/system"
	"github.com/verily-src/fhirpath-go/internal/fhir"
)

// VerifEvaluate runs the path evaluation the operations run and returns LastResult,
// BeforeLastResult, the result and the evaluation error.
func (e *Expression) VerifEvaluate(res fhir.Resource, options ...fhirpath.EvaluateOption) (last, beforeLast, result system.Collection, err error) {
	ctx, result, err := e.evaluate(res, options...)
	if ctx != nil {
		last, beforeLast = ctx.LastResult, ctx.BeforeLastResult
	}
	return last, beforeLast, result, err
}
