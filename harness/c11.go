package main

// C11 — parsing respects FHIRPath precedence, associativity and token boundaries.
// Random expression trees (depth <= 6) over all 13 precedence levels, function arguments and
// indexers; each rendered with minimal parentheses (per the FHIRPath precedence table, written
// here independently of the grammar), fully parenthesised, and both again with random token-gap
// decorations.  The real ANTLR parse tree (parentheses dropped) is compared with the Lean
// lexer/parser model and with the generated tree itself; compiled renderings are evaluated and
// compared; trailing tokens must be rejected; String() must return the source.

import (
	"fmt"
	"strings"

	"github.com/antlr4-go/antlr/v4"
	"github.com/verily-src/fhirpath-go/fhirpath"
	"github.com/verily-src/fhirpath-go/fhirpath/internal/compile"
	"github.com/verily-src/fhirpath-go/fhirpath/internal/grammar"
	"github.com/verily-src/fhirpath-go/fhirpath/system"
	"github.com/verily-src/fhirpath-go/internal/fhir"
)

func init() { props["C11"] = runC11 }

// ---------------------------------------------------------------- generated trees

type gx struct {
	kind string // atom, dot, idx, pol, bin, typ, call
	text string // atom token text / operator / function name / type name
	kids []*gx
	toks []string // for atoms made of several tokens (quantities, %x)
}

// precedence of the FHIRPath spec (higher binds tighter); written from the specification's table
var specPrec = map[string]int{
	"implies": 1, "or": 2, "xor": 2, "and": 3, "in": 4, "contains": 4, "=": 5, "~": 5, "!=": 5, "!~": 5,
	"<": 6, "<=": 6, ">": 6, ">=": 6, "|": 7, "is": 8, "as": 8, "+": 9, "-": 9, "&": 9, "*": 10, "/": 10, "div": 10, "mod": 10,
}

const (
	precPolarity = 11
	precPostfix  = 12
	precAtom     = 13
)

func (g *gx) prec() int {
	switch g.kind {
	case "bin", "typ":
		return specPrec[g.text]
	case "pol":
		return precPolarity
	case "dot", "idx":
		return precPostfix
	}
	return precAtom
}

func hx(s string) string { return hexs(s) }

func (g *gx) canon() string {
	switch g.kind {
	case "atom":
		return g.text // already canonical
	case "call":
		s := "(call " + hx(g.text)
		for _, k := range g.kids {
			s += " " + k.canon()
		}
		return s + ")"
	case "dot":
		return "(. " + g.kids[0].canon() + " " + g.kids[1].canon() + ")"
	case "idx":
		return "(idx " + g.kids[0].canon() + " " + g.kids[1].canon() + ")"
	case "pol":
		return "(pol " + hx(g.text) + " " + g.kids[0].canon() + ")"
	case "bin":
		return "(bin " + hx(g.text) + " " + g.kids[0].canon() + " " + g.kids[1].canon() + ")"
	case "typ":
		return "(typ " + hx(g.text) + " " + g.kids[0].canon() + " " + hx(g.toks[0]) + ")"
	}
	return "?"
}

// tokens renders the tree; full=true parenthesises every operator application, otherwise only
// where the precedence table and left associativity require it.
// parenAtoms: the fully parenthesised rendering also wraps literals, variables and member names that are
// operands (redundant parentheses are transparent around any term).
var parenAtoms bool

func (g *gx) tokens(full bool, ctx int) []string {
	var out []string
	wrap := func(inner []string, need bool) []string {
		if need {
			return append(append([]string{"("}, inner...), ")")
		}
		return inner
	}
	switch g.kind {
	case "atom":
		// third rendering: redundant parentheses around the atoms too (not in invocation position)
		if full && parenAtoms && ctx > 0 && ctx != precAtom {
			return wrap(append(out, g.toks...), true)
		}
		return append(out, g.toks...)
	case "call":
		out = append(out, g.text, "(")
		for i, k := range g.kids {
			if i > 0 {
				out = append(out, ",")
			}
			out = append(out, k.tokens(full, 0)...)
		}
		return append(out, ")")
	case "dot":
		inner := append(g.kids[0].tokens(full, precPostfix), ".")
		inner = append(inner, g.kids[1].tokens(full, precAtom)...)
		return wrap(inner, full && ctx > 0 || g.prec() < ctx)
	case "idx":
		inner := append(g.kids[0].tokens(full, precPostfix), "[")
		inner = append(inner, g.kids[1].tokens(full, 0)...)
		inner = append(inner, "]")
		return wrap(inner, full && ctx > 0 || g.prec() < ctx)
	case "pol":
		inner := append([]string{g.text}, g.kids[0].tokens(full, precPolarity)...)
		return wrap(inner, full && ctx > 0 || g.prec() < ctx)
	case "bin":
		p := g.prec()
		inner := append(g.kids[0].tokens(full, p), g.text)
		inner = append(inner, g.kids[1].tokens(full, p+1)...)
		return wrap(inner, full && ctx > 0 || p < ctx)
	case "typ":
		p := g.prec()
		inner := append(g.kids[0].tokens(full, p), g.text)
		inner = append(inner, strings.Split(g.toks[0], ".")...)
		// a.b is rendered as identifier . identifier
		if strings.Contains(g.toks[0], ".") {
			parts := strings.Split(g.toks[0], ".")
			inner = append(g.kids[0].tokens(full, p), g.text)
			for i, pt := range parts {
				if i > 0 {
					inner = append(inner, ".")
				}
				inner = append(inner, pt)
			}
		}
		return wrap(inner, full && ctx > 0 || p < ctx)
	}
	return out
}

func wordLike(s string) bool {
	if s == "" {
		return false
	}
	c := s[0]
	e := s[len(s)-1]
	w := func(b byte) bool {
		return b == '_' || b >= '0' && b <= '9' || b >= 'a' && b <= 'z' || b >= 'A' && b <= 'Z' || b == '$' || b == '@' || b == '\'' || b == '.'
	}
	return w(c) || w(e)
}

var gapDecor = []string{"", " ", "\n", "\t", "/* c */", "// c\n", "  ", " /* a */ /* b */ "}

// join puts a gap between every two tokens: the decoration chosen by pick, and at least a blank
// where both neighbours are word-like (or would otherwise fuse: `/` `*`, `<` `=`, `!` `=` ...).
func join(toks []string, pick func() string) string {
	var b []byte
	put := func(p string) {
		if p == "" {
			return
		}
		if n := len(b); n > 0 {
			last := b[n-1]
			// never create a comment opener or a two-character operator out of two pieces
			if last == '/' && (p[0] == '/' || p[0] == '*') || (last == '<' || last == '>' || last == '!') && (p[0] == '=' || p[0] == '~') {
				b = append(b, ' ')
			}
		}
		b = append(b, p...)
	}
	for i, t := range toks {
		if i > 0 {
			gap := pick()
			if gap == "" && wordLike(toks[i-1]) && wordLike(t) {
				gap = " "
			}
			// a date/time literal is lexed greedily: `@2020` `-` `07` written without a gap is the
			// single token `@2020-07` (and `@2020-007` is `@2020-00` `7`); keep the tokens apart
			if gap == "" && strings.HasPrefix(toks[i-1], "@") && t != "" && strings.ContainsRune("+-.:", rune(t[0])) {
				gap = " "
			}
			put(gap)
		}
		put(t)
	}
	return string(b)
}

type treeGen struct {
	r         *RNG
	supported bool // only constructs the evaluator supports
}

func (tg *treeGen) atom() *gx {
	r := tg.r
	lit := func(txt string) *gx { return &gx{kind: "atom", text: "(lit " + hx(txt) + ")", toks: []string{txt}} }
	switch r.Intn(12) {
	case 0, 1:
		if r.Intn(8) == 0 {
			// the boundaries of the Integer range (the literal carries no sign: -2147483648 is polarity applied to 2147483648)
			return lit(Pick(r, []string{"2147483647", "2147483648", "2147483649", "4294967296", "99999999999"}))
		}
		return lit(fmt.Sprint(r.Intn(20)))
	case 2:
		return lit(Pick(r, []string{"'a'", "'b c'", "''", "'x\\'y'", "'/* no */'", "'// no'"}))
	case 3:
		return lit(Pick(r, []string{"true", "false"}))
	case 4:
		return &gx{kind: "atom", text: "(ext " + hx("v") + ")", toks: []string{"%", "v"}}
	case 5:
		return &gx{kind: "atom", text: "(sp " + hx("$this") + ")", toks: []string{"$this"}}
	case 6:
		n := Pick(r, []string{"name", "given", "id", "active", "`div`", "contains", "as", "Patient", "Patient"})
		return &gx{kind: "atom", text: "(m " + hx(n) + ")", toks: []string{n}}
	case 7:
		n, u := fmt.Sprint(1+r.Intn(9)), Pick(r, []string{"'mg'", "days", "year"})
		return &gx{kind: "atom", text: "(qty " + hx(n) + " " + hx(u) + ")", toks: []string{n, u}}
	case 8:
		return lit(Pick(r, []string{"@2020-01-01", "@2020", "@T10:00", "@2020-01-01T10:00:00Z", "1.5", "007"}))
	case 9:
		return &gx{kind: "atom", text: "(lit " + hx("{}") + ")", toks: []string{"{", "}"}}
	}
	return lit(fmt.Sprint(r.Intn(5)))
}

func (tg *treeGen) invocation(d int) *gx {
	r := tg.r
	switch r.Intn(5) {
	case 0:
		return &gx{kind: "call", text: Pick(r, []string{"count", "exists", "first", "empty"})}
	case 1:
		return &gx{kind: "call", text: Pick(r, []string{"where", "select", "exists", "all"}), kids: []*gx{tg.gen(d - 1)}}
	case 2:
		return &gx{kind: "call", text: Pick(r, []string{"substring", "iif", "replace"}), kids: []*gx{tg.gen(d - 1), tg.gen(d - 1)}}
	}
	n := Pick(r, []string{"name", "given", "family", "id", "value"})
	return &gx{kind: "atom", text: "(m " + hx(n) + ")", toks: []string{n}}
}

// ---- trees that evaluate: paths rooted at the resource type name or relative to the focus,
// criteria functions whose arguments mention the type name again, comparisons and connectives.
// (The random trees above mostly fail to evaluate; these reach the evaluator's handling of
// parentheses, operand position and function arguments.)
func mAtom(n string) *gx { return &gx{kind: "atom", text: "(m " + hx(n) + ")", toks: []string{n}} }
func litAtom(t string) *gx {
	return &gx{kind: "atom", text: "(lit " + hx(t) + ")", toks: []string{t}}
}
func dotOf(l, inv *gx) *gx { return &gx{kind: "dot", kids: []*gx{l, inv}} }

func (tg *treeGen) semPath(d int) *gx {
	r := tg.r
	var cur *gx
	kind := "Patient"
	switch r.Intn(4) {
	case 0:
		cur, kind = mAtom("name"), "name"
	case 1:
		cur, kind = &gx{kind: "atom", text: "(sp " + hx("$this") + ")", toks: []string{"$this"}}, "any"
	default:
		cur = mAtom("Patient")
	}
	for k := r.Intn(3); k >= 0; k-- {
		switch kind {
		case "Patient":
			n := Pick(r, []string{"name", "name", "active", "id"})
			cur, kind = dotOf(cur, mAtom(n)), n
		case "name":
			n := Pick(r, []string{"given", "family"})
			cur, kind = dotOf(cur, mAtom(n)), "string"
		}
	}
	if d > 0 && r.Intn(2) == 0 {
		switch r.Intn(5) {
		case 0:
			cur = dotOf(cur, &gx{kind: "call", text: Pick(r, []string{"first", "exists", "count", "empty"})})
		case 1:
			cur = dotOf(cur, &gx{kind: "call", text: Pick(r, []string{"where", "exists", "all"}), kids: []*gx{tg.semPred(d - 1)}})
		case 2:
			cur = dotOf(cur, &gx{kind: "call", text: "select", kids: []*gx{tg.semPath(d - 1)}})
		case 3:
			cur = &gx{kind: "idx", kids: []*gx{cur, litAtom(fmt.Sprint(r.Intn(2)))}}
		default:
			cur = dotOf(cur, &gx{kind: "call", text: "exists", kids: []*gx{dotOf(mAtom("Patient"), mAtom(Pick(r, []string{"active", "id", "name"})))}})
		}
	}
	return cur
}

func (tg *treeGen) semPred(d int) *gx {
	r := tg.r
	if d <= 0 || r.Intn(3) == 0 {
		switch r.Intn(4) {
		case 0:
			return dotOf(tg.semPath(0), &gx{kind: "call", text: Pick(r, []string{"exists", "empty"})})
		case 1:
			return &gx{kind: "bin", text: Pick(r, []string{"=", "!="}), kids: []*gx{tg.semPath(0), litAtom(Pick(r, []string{"'a'", "'Smith'", "true", "'p'"}))}}
		case 2:
			return dotOf(mAtom("Patient"), mAtom("active"))
		}
		return litAtom(Pick(r, []string{"true", "false"}))
	}
	switch r.Intn(5) {
	case 0:
		return &gx{kind: "bin", text: Pick(r, []string{"and", "or", "xor", "implies"}), kids: []*gx{tg.semPred(d - 1), tg.semPred(d - 1)}}
	case 1:
		return &gx{kind: "bin", text: Pick(r, []string{"=", "!="}), kids: []*gx{tg.semPath(d - 1), tg.semPath(d - 1)}}
	case 2:
		return dotOf(tg.semPath(d-1), &gx{kind: "call", text: Pick(r, []string{"exists", "all"}), kids: []*gx{tg.semPred(d - 1)}})
	case 3:
		return &gx{kind: "call", text: "iif", kids: []*gx{tg.semPred(d - 1), tg.semPred(d - 1)}}
	}
	return &gx{kind: "bin", text: Pick(r, []string{"and", "or"}), kids: []*gx{dotOf(tg.semPath(d-1), &gx{kind: "call", text: "exists"}), tg.semPred(d - 1)}}
}

var binOps = []string{"implies", "or", "xor", "and", "in", "contains", "=", "~", "!=", "!~", "<", "<=", ">", ">=", "|", "+", "-", "&", "*", "/", "div", "mod"}
var supportedOps = []string{"implies", "or", "xor", "and", "=", "!=", "<", "<=", ">", ">=", "+", "-", "&", "*", "/", "div", "mod"}

func (tg *treeGen) gen(d int) *gx {
	r := tg.r
	if d <= 0 || r.Intn(6) == 0 {
		if r.Intn(4) == 0 {
			return tg.invocation(0)
		}
		return tg.atom()
	}
	switch r.Intn(10) {
	case 0:
		return &gx{kind: "dot", kids: []*gx{tg.gen(d - 1), tg.invocation(d)}}
	case 1:
		return &gx{kind: "idx", kids: []*gx{tg.gen(d - 1), tg.gen(d - 1)}}
	case 2:
		return &gx{kind: "pol", text: Pick(r, []string{"-", "+"}), kids: []*gx{tg.gen(d - 1)}}
	case 3:
		return &gx{kind: "typ", text: Pick(r, []string{"is", "as"}), kids: []*gx{tg.gen(d - 1)}, toks: []string{Pick(r, []string{"Integer", "System.String", "FHIR.Patient", "Quantity"})}}
	}
	ops := binOps
	if tg.supported {
		ops = supportedOps
	}
	return &gx{kind: "bin", text: Pick(r, ops), kids: []*gx{tg.gen(d - 1), tg.gen(d - 1)}}
}

// ---------------------------------------------------------------- the real parse tree

func dumpTree(t antlr.Tree) string {
	switch x := t.(type) {
	case *grammar.ProgContext:
		return dumpTree(x.Expression())
	case *grammar.TermExpressionContext:
		return dumpTree(x.Term())
	case *grammar.InvocationExpressionContext:
		return "(. " + dumpTree(x.Expression()) + " " + dumpTree(x.Invocation()) + ")"
	case *grammar.IndexerExpressionContext:
		return "(idx " + dumpTree(x.Expression(0)) + " " + dumpTree(x.Expression(1)) + ")"
	case *grammar.PolarityExpressionContext:
		return "(pol " + hx(x.GetChild(0).(antlr.TerminalNode).GetText()) + " " + dumpTree(x.Expression()) + ")"
	case *grammar.TypeExpressionContext:
		return "(typ " + hx(x.GetChild(1).(antlr.TerminalNode).GetText()) + " " + dumpTree(x.Expression()) + " " + hx(x.TypeSpecifier().GetText()) + ")"
	case *grammar.ParenthesizedTermContext:
		return dumpTree(x.Expression())
	case *grammar.InvocationTermContext:
		return dumpTree(x.Invocation())
	case *grammar.LiteralTermContext:
		return dumpTree(x.Literal())
	case *grammar.ExternalConstantTermContext:
		txt := x.ExternalConstant().GetText()
		return "(ext " + hx(strings.TrimPrefix(txt, "%")) + ")"
	case *grammar.QuantityLiteralContext:
		q := x.Quantity().(*grammar.QuantityContext)
		n := q.GetChild(0).(antlr.TerminalNode).GetText()
		if q.Unit() == nil {
			return "(lit " + hx(n) + ")"
		}
		return "(qty " + hx(n) + " " + hx(q.Unit().GetText()) + ")"
	case *grammar.NullLiteralContext:
		return "(lit " + hx("{}") + ")"
	case *grammar.BooleanLiteralContext, *grammar.StringLiteralContext, *grammar.NumberLiteralContext, *grammar.DateLiteralContext, *grammar.DateTimeLiteralContext, *grammar.TimeLiteralContext:
		return "(lit " + hx(x.(antlr.ParserRuleContext).GetText()) + ")"
	case *grammar.MemberInvocationContext:
		return "(m " + hx(x.Identifier().GetText()) + ")"
	case *grammar.ThisInvocationContext, *grammar.IndexInvocationContext, *grammar.TotalInvocationContext:
		return "(sp " + hx(x.(antlr.ParserRuleContext).GetText()) + ")"
	case *grammar.FunctionInvocationContext:
		f := x.Function().(*grammar.FunctionContext)
		s := "(call " + hx(f.Identifier().GetText())
		if pl := f.ParamList(); pl != nil {
			for _, e := range pl.(*grammar.ParamListContext).AllExpression() {
				s += " " + dumpTree(e)
			}
		}
		return s + ")"
	}
	// binary alternatives: expression op expression
	if prc, ok := t.(antlr.ParserRuleContext); ok && prc.GetChildCount() == 3 {
		if op, ok := prc.GetChild(1).(antlr.TerminalNode); ok {
			l, lok := prc.GetChild(0).(antlr.ParserRuleContext)
			r, rok := prc.GetChild(2).(antlr.ParserRuleContext)
			if lok && rok {
				return "(bin " + hx(op.GetText()) + " " + dumpTree(l) + " " + dumpTree(r) + ")"
			}
		}
	}
	return fmt.Sprintf("?%T", t)
}

func synDump(src string) string {
	var out string
	_, pan, _ := safeErr(func() error {
		tree, err := compile.Tree(src)
		if err != nil {
			out = "err"
			return nil
		}
		out = "ok " + dumpTree(tree)
		return nil
	})
	if pan {
		return "panic"
	}
	return out
}

func runC11(c *Ctx) {
	c.meta.Rule = "random expression trees of depth <= 6 (one third of them built to evaluate: paths rooted at the type name or the focus, criteria functions whose arguments mention the type name again, connectives) over all 13 precedence levels (invocation, indexer, polarity, multiplicative, additive incl. &, type, union, inequality, equality, membership, and, or/xor, implies), function arguments, indexers, quantities, dates, delimited and keyword identifiers; renderings: minimal parentheses, full parentheses, each with token-gap decorations from {'', ' ', newline, tab, block comment, line comment, doubled}; plus trailing tokens, byte-mutated sources and 38 sources in which a type operator is followed by a tighter operator, an indexer or an invocation (ANTLR treats it as a suffix), and 78 sources whose tokens touch (token boundaries); non-trivial = source with at least one operator; distinct by line"
	nEv := 4000
	if c.thorough {
		nEv = 20000
	}
	evStream(c, nEv)
	n := 500
	if c.thorough {
		n = 6000
	}
	input := []fhir.Resource{mustResource(`{"resourceType":"Patient","id":"p","active":true,"name":[{"family":"Smith","given":["a","b"]},{"given":["c"]}]}`)}
	shared := system.Collection{system.Integer(3), system.String("s")}
	evalSrc := func(src string) (string, bool) {
		e, err := fhirpath.Compile(src)
		if err != nil {
			return "compile-err", false
		}
		o := safeEval(func() (system.Collection, error) { return e.Evaluate(input, envVar("v", shared)) })
		return canonOutcome(o, nil), true
	}
	// the two operands of a binary operator are compiled independently (the index of an indexer is evaluated on the indexed
	// collection by this implementation, so a type-rooted path there is not comparable): an operand that
	// starts at the resource type means the same on the right as on the left, whatever the left operand visited
	{
		operands := []string{"Patient.id", "Patient.active", "Patient.name.given.count()", "Patient.name.first().family", "Patient.name.count() - 1", "Patient.name.given.first()", "Patient.active.not()"}
		ops := []string{"+", "-", "*", "/", "div", "mod", "&", "=", "!=", "<", ">", "<=", ">=", "and", "or", "xor", "implies"}
		for _, a := range operands {
			for _, b := range operands {
				oa, ob := compileEval(a, input), compileEval(b, input)
				if oa.Err != nil || ob.Err != nil || oa.Panicked || ob.Panicked {
					continue
				}
				for _, op := range ops {
					whole := compileEval("("+a+") "+op+" ("+b+")", input)
					bare := compileEval(a+" "+op+" "+b, input)
					parts := compileEval("%l "+op+" %r", input, envVar("l", oa.Coll), envVar("r", ob.Coll))
					c.Observe("operands "+op, true)
					c.Law(canonOutcome(whole, nil) == canonOutcome(parts, nil), "C11/operand-independent", "a binary operator applies to what its two operands evaluate to on their own", "("+a+") "+op+" ("+b+")", canonOutcome(whole, nil)+" vs operands evaluated apart: "+canonOutcome(parts, nil))
					if op != "-" && op != "+" && !strings.Contains(a, " - ") && !strings.Contains(b, " - ") { // bare: only where no precedence change arises
						c.Law(canonOutcome(bare, nil) == canonOutcome(parts, nil), "C11/operand-independent", "a binary operator applies to what its two operands evaluate to on their own", a+" "+op+" "+b, canonOutcome(bare, nil)+" vs operands evaluated apart: "+canonOutcome(parts, nil))
					}
				}
			}
		}
	}
	// bare dotted paths — also with a resource type name in a later position — against the same path written with
	// parentheses, blanks, comments: a shortcut taken for "simple" sources must not read them differently
	{
		bundle := mustResource(`{"resourceType":"Bundle","type":"collection","entry":[{"resource":{"resourceType":"Patient","id":"q","name":[{"family":"Jones"}]}},{"resource":{"resourceType":"Observation","id":"o","status":"final","code":{"text":"x"}}}]}`)
		for _, in := range [][]fhir.Resource{input, {bundle}} {
			for _, p := range []string{"name.Patient", "entry.resource.Patient", "entry.resource.Patient.name.family", "entry.resource.Observation.id", "name.given.Patient", "Patient.name.Patient", "Patient.name.given", "name.family", "entry.resource", "Bundle.entry.resource.Patient", "id.Patient", "active.Patient.name"} {
				segs := strings.Split(p, ".")
				variants := []string{"(" + p + ")", strings.Join(segs, " . "), p + " ", " " + p, p + " // c", "/* c */" + p, strings.Join(segs, "\n."), "(" + strings.Join(segs[:len(segs)-1], ".") + ")." + segs[len(segs)-1], segs[0] + "." + strings.Join(segs[1:], " ."), "`" + segs[0] + "`." + strings.Join(segs[1:], ".")}
				outOf := func(src string) string {
					e, err := fhirpath.Compile(src)
					if err != nil {
						return "compile-err"
					}
					return canonOutcome(safeEval(func() (system.Collection, error) { return e.Evaluate(in) }), NewIDTable())
				}
				base := outOf(p)
				for _, v := range variants {
					v = strings.ReplaceAll(v, "\\n", "\n")
					got := outOf(v)
					c.Observe("bare path "+v, true)
					c.Law(got == base, "C11/same-outcome", "all renderings of a tree compile alike and evaluate identically", fmt.Sprintf("%q vs %q", p, v), base+" vs "+got)
				}
			}
		}
	}
	// what a source means does not depend on what was compiled before it: sources that differ only in the white space
	// INSIDE a string literal, or in where a line comment ends, are different programs
	{
		seq := []struct{ src, want string }{
			{"'Dr. Smith'.length()", "ok:[I:9]"}, {"'Dr.  Smith'.length()", "ok:[I:10]"}, {"'Dr.\tSmith'.length()", "ok:[I:9]"}, {"'Dr. Smith' = 'Dr.  Smith'", "ok:[B:false]"},
			{"73001 // c + 2", "ok:[I:73001]"}, {"73001 // c\n+ 2", "ok:[I:73003]"}, {"73001 // c\n + 2", "ok:[I:73003]"}, {"73001 /* c */ + 2", "ok:[I:73003]"}, {"73001 // c /* + 2", "ok:[I:73001]"},
			{"'a b'.length()", "ok:[I:3]"}, {"'a  b'.length()", "ok:[I:4]"}, {"'a\nb'.length()", "ok:[I:3]"}, {"'a \n b'.length()", "ok:[I:5]"},
		}
		for round := 0; round < 2; round++ {
			order := make([]int, len(seq))
			for i := range order {
				order[i] = i
				if round == 1 {
					order[i] = len(seq) - 1 - i
				}
			}
			for _, i := range order {
				src := strings.ReplaceAll(strings.ReplaceAll(seq[i].src, "\\n", "\n"), "\\t", "\t")
				got, _ := evalSrc(src)
				c.Observe("history "+src, true)
				c.Law(got == seq[i].want, "C11/history-dependent", "a source compiles to what its own tokens say, whatever was compiled before", fmt.Sprintf("%q", src), got+" want "+seq[i].want)
			}
		}
	}
	for _, src := range c11Suffix {
		for _, s := range []string{src, strings.ReplaceAll(src, " ", " /* c */ ")} {
			c.Emit("syn "+hexs(s), synDump(s), true)
			c.Count("render:suffix-operator")
		}
	}
	// every operator means what it says: one witness per operator whose value tells it from the other
	// operators of its level (and from its neighbours)
	for _, w := range []struct{ src, want string }{
		{"false implies false", "ok:[B:true]"}, {"true implies false", "ok:[B:false]"}, {"true or false", "ok:[B:true]"}, {"true xor true", "ok:[B:false]"}, {"true xor false", "ok:[B:true]"}, {"true and false", "ok:[B:false]"},
		{"1 = 1", "ok:[B:true]"}, {"1 != 1", "ok:[B:false]"}, {"1 < 1", "ok:[B:false]"}, {"1 <= 1", "ok:[B:true]"}, {"1 > 1", "ok:[B:false]"}, {"1 >= 1", "ok:[B:true]"}, {"2 > 1", "ok:[B:true]"}, {"1 < 2", "ok:[B:true]"},
		{"1 + 2", "ok:[I:3]"}, {"3 - 1", "ok:[I:2]"}, {"'a' & 'b'", "ok:[S:x6162]"}, {"'a' & {}", "ok:[S:x61]"}, {"{} & 'b'", "ok:[S:x62]"}, {"'a' + {}", "ok:[]"}, {"'a' + 'b'", "ok:[S:x6162]"},
		{"2 * 3", "ok:[I:6]"}, {"6 / 4", "ok:[D:15e-1]"}, {"7 div 2", "ok:[I:3]"}, {"7 mod 2", "ok:[I:1]"}, {"7 div 7", "ok:[I:1]"}, {"7 mod 7", "ok:[I:0]"},
		{"1 is Integer", "ok:[B:true]"}, {"1 is String", "ok:[B:false]"}, {"(1 as Integer) = 1", "ok:[B:true]"}, {"(1 as String).empty()", "ok:[B:true]"}, {"-(1) = 0 - 1", "ok:[B:true]"}, {"+1 = 1", "ok:[B:true]"}, {"-1 * 2", "ok:[I:-2]"},
		{"-1073741824 * 2", "ok:[I:-2147483648]"}, {"(-1073741824) * 2", "ok:[I:-2147483648]"}, {"-(1073741824 * 2)", "ok:[]"}, {"-7 div 2", "ok:[I:-3]"}, {"-7 mod 2", "ok:[I:-1]"}, {"-6 / 4", "ok:[D:-15e-1]"},
		{"Patient.name[0].given[1]", "ok:[F(String)S:x62]"}, {"Patient.name.given[1]", "ok:[F(String)S:x62]"}, {"(Patient.name.given)[2]", "ok:[F(String)S:x63]"}, {"-Patient.name.count()", "ok:[I:-2]"},
	} {
		o := compileEval(w.src, input)
		got := outTokens(o)
		c.Observe("operator "+w.src, true)
		c.Law(got == w.want, "C11/operator-meaning", "every operator token is compiled to its own operation (and polarity binds tighter than the binary operators)", w.src, got+" want "+w.want)
	}
	// a tree whose one rendering compiles also compiles in the other: an invocation directly on an Integer literal
	// (`1.toString()`: the literal ends before the dot), a sign at the start of a function argument
	for _, pair := range [][2]string{{"1.toString()", "(1).toString()"}, {"1.toString()", "1 .toString()"}, {"12.toString() = '12'", "(12).toString() = '12'"}, {"2 + 3.select($this * 2)", "2 + (3).select($this * 2)"},
		{"1.select($this)", "1/* c */.select($this)"}, {"10.toString().length()", "(10).toString().length()"}, {"1.5.toString()", "(1.5).toString()"}, {"0.exists()", "(0).exists()"}, {"7.combine(8)", "(7).combine(8)"},
		{"(5).select(+$this)", "(5).select((+$this))"}, {"'abcdef'.substring(+2)", "'abcdef'.substring((+2))"}, {"iif(+1 = 1, 'y', 'n')", "iif((+1) = 1, 'y', 'n')"}, {"(5).select(-$this)", "(5).select((-$this))"},
		{"'abcdef'.substring(1, +2)", "'abcdef'.substring(1, (+2))"}, {"Patient.name.where(+1 = 1).count()", "Patient.name.where((+1) = 1).count()"}, {"(1).select(+ 1)", "(1).select((+ 1))"}} {
		a, _ := evalSrc(pair[0])
		b, _ := evalSrc(pair[1])
		c.Observe("literal receiver / signed argument "+pair[0], true)
		c.Law(a == b, "C11/same-outcome", "all renderings of a tree compile alike and evaluate identically", fmt.Sprintf("%q vs %q", pair[0], pair[1]), a+" vs "+b)
	}
	// a tree whose one rendering compiles also compiles in the other: the Integer boundary under polarity
	for _, pair := range [][2]string{{"-2147483648", "-(2147483648)"}, {"-2147483648", "(-(2147483648))"}, {"- 2147483648", "-(2147483648)"}, {"-2147483648 + 1", "-(2147483648) + 1"}, {"-2147483647", "-(2147483647)"},
		{"+2147483648", "+(2147483648)"}, {"-2147483648.0", "-(2147483648.0)"}, {"1 - 2147483648", "1 - (2147483648)"}, {"-2147483648 'mg'", "-(2147483648 'mg')"}, {"(-2147483648).abs()", "(-(2147483648)).abs()"}} {
		a, _ := evalSrc(pair[0])
		b, _ := evalSrc(pair[1])
		c.Observe("integer boundary "+pair[0], true)
		c.Law(a == b, "C11/same-outcome", "all renderings of a tree compile alike and evaluate identically", fmt.Sprintf("%q vs %q", pair[0], pair[1]), a+" vs "+b)
	}
	// whitespace, newlines and comments before the first and after the last token change nothing, and
	// String() returns the source as it was given
	for _, body := range []string{"1 + 2", "Patient.name.given", "true and false", "'a' & 'b'"} {
		base := canonOutcome(compileEval(body, input), nil)
		for _, pre := range []string{"", " ", "\n", "\t", "/* c */", "// c\n", "\r\n"} {
			for _, post := range []string{"", " ", "\n", "\n\n", "\r\n", "\t", " /* c */", " // c", " // c\n", "/* c */\n"} {
				src := pre + body + post
				e, err := fhirpath.Compile(src)
				c.Observe("edge decoration "+fmt.Sprintf("%q", src), true)
				if err != nil {
					c.Law(false, "C11/same-outcome", "decorations around the expression never change the outcome", fmt.Sprintf("%q", src), "compile error: "+err.Error())
					continue
				}
				o := safeEval(func() (system.Collection, error) { return e.Evaluate(input) })
				c.Law(canonOutcome(o, nil) == base, "C11/same-outcome", "decorations around the expression never change the outcome", fmt.Sprintf("%q", src), canonOutcome(o, nil)+" vs "+base)
				c.Law(e.String() == src, "C11/string", "Expression.String() returns the source text", fmt.Sprintf("%q", src), fmt.Sprintf("%q", e.String()))
			}
		}
	}
	for _, src := range c11Fused {
		c.Emit("syn "+hexs(src), synDump(src), true)
		c.Count("render:fused-tokens")
	}
	for i := 0; i < n; i++ {
		tg := &treeGen{r: c.rng, supported: i%2 == 0}
		t := tg.gen(1 + c.rng.Intn(6))
		if i%3 == 2 {
			// an evaluating tree
			if c.rng.Bool() {
				t = tg.semPath(1 + c.rng.Intn(3))
			} else {
				t = tg.semPred(1 + c.rng.Intn(3))
			}
			c.Count("tree:evaluating")
		}
		minT, fullT := t.tokens(false, 0), t.tokens(true, 0)
		parenAtoms = true
		fullA := t.tokens(true, 0)
		parenAtoms = false
		plain := func() string { return "" }
		deco := func() string { return Pick(c.rng, gapDecor) }
		srcs := []struct{ name, s string }{{"min", join(minT, plain)}, {"full", join(fullT, plain)}, {"min+gaps", join(minT, deco)}, {"full+gaps", join(fullT, deco)}, {"full+atoms", join(fullA, plain)}}
		want := "ok " + t.canon()
		nontrivial := t.kind != "atom"
		var evals []string
		for _, s := range srcs {
			got := synDump(s.s)
			c.Emit("syn "+hexs(s.s), got, nontrivial)
			c.Law(got == want, "C11/precedence", "the "+s.name+" rendering parses to the tree it was rendered from (precedence, left associativity, token boundaries)", fmt.Sprintf("%q", s.s), got+" vs "+want)
			c.Count("render:" + s.name)
			ev, ok := evalSrc(s.s)
			evals = append(evals, ev)
			if ok {
				c.Count("compiled")
				e, _ := fhirpath.Compile(s.s)
				c.Law(e.String() == s.s, "C11/string", "Expression.String() returns the source text", fmt.Sprintf("%q", s.s), e.String())
			}
		}
		for k := 1; k < len(evals); k++ {
			c.Law(evals[k] == evals[0], "C11/same-outcome", "all renderings of a tree compile alike and evaluate identically", fmt.Sprintf("%q vs %q", srcs[0].s, srcs[k].s), evals[0]+" vs "+evals[k])
		}
		// trailing tokens: the whole source must be consumed
		if c.rng.Intn(3) == 0 {
			tr := srcs[c.rng.Intn(2)].s + Pick(c.rng, []string{" )", " ]", " ,", " }", ")", " 'x' 'y'", " $this $this"})
			got := synDump(tr)
			c.Emit("syn "+hexs(tr), got, false)
			_, err := fhirpath.Compile(tr)
			c.Law(got == "err" && err != nil, "C11/trailing", "no accepted expression has unparsed trailing text", fmt.Sprintf("%q", tr), got)
			c.Count("render:trailing")
		}
		// byte-mutated neighbour: syntax verdict and tree must agree with the model
		if c.rng.Intn(2) == 0 {
			bs := []byte(srcs[c.rng.Intn(4)].s)
			if len(bs) > 0 {
				k := c.rng.Intn(len(bs))
				switch c.rng.Intn(4) {
				case 0:
					alpha := "()[].,+-*/&|<>=!~'`@%$ 0aT:{}\n"
					bs[k] = alpha[c.rng.Intn(len(alpha))]
				case 1:
					bs = append(bs[:k], bs[k+1:]...)
				case 2:
					alpha := "()[].,+-*/'` 1a"
					bs = append(bs[:k], append([]byte{alpha[c.rng.Intn(len(alpha))]}, bs[k:]...)...)
				default:
					alpha := " )/*'`"
					bs = append(bs, alpha[c.rng.Intn(len(alpha))])
				}
				ms := string(bs)
				if !strings.ContainsRune(ms, 0) && validUTF8(ms) {
					c.Emit("syn "+hexs(ms), synDump(ms), false)
					c.Count("render:mutated")
				}
			}
		}
	}
}

// sources in which a type operator (a suffix in ANTLR's precedence loop) is followed by an
// operator tighter than it, by an indexer or by an invocation
var c11Suffix = []string{
	"x is T * y", "1 + x is T * 2", "x as T[0]", "a = x is T + 1", "1 is Integer + 2", "1 is Integer * 2 + 3", "x is T * 1 is U",
	"1 + x is T * 2 | 3", "x as T[0].z", "a = x is T * 2 + 1 is U", "x is T.U.V - 1", "1 + 2 * 3 is Integer", "x is T & 'a'", "x is T div 2 mod 3",
	"x is T | y", "x is T = y", "x is T and y", "x is T in y", "x is T implies y", "-x is T * 2", "x is T - -1", "(x is T) * y", "x is (T) * y",
	"x is T * y is U * z", "x as T as U", "x is T.where(a)", "x is T.y(1)", "x is T * ", "x is * y", "x is T[", "x is T[1", "x is T * * y", "name.given is System.String & 'x'",
	"1 > 2 is Boolean", "1 is Integer > 2", "1 is Integer = 2 is Integer", "a or b is T and c", "a is T or b is U",
}

func validUTF8(s string) bool {
	for _, r := range s {
		if r == 0xFFFD {
			return false
		}
	}
	return true
}
