package main

// C12 — `is` / `as` vs. the type hierarchies.  Every element of generated resources of every
// R4 type (facts of its schema position read off the descriptors) x a sample of type names
// that always contains its own declared type, the abstract bases and System names.

import (
	bcrpb "github.com/google/fhir/go/proto/google/fhir/proto/r4/core/resources/bundle_and_contained_resource_go_proto"
	"google.golang.org/protobuf/reflect/protoregistry"
	"google.golang.org/protobuf/reflect/protoreflect"
	"sort"
	"fmt"
	"strings"

	"github.com/verily-src/fhirpath-go/fhirpath"
	"github.com/verily-src/fhirpath-go/fhirpath/evalopts"
	"github.com/verily-src/fhirpath-go/fhirpath/system"
	"github.com/verily-src/fhirpath-go/internal/fhir"
	"github.com/verily-src/fhirpath-go/internal/protofields"
	"google.golang.org/protobuf/proto"
)

func init() { props["C12"] = runC12 }

func runC12(c *Ctx) {
	c.meta.Rule = "every message element of generated resources (all 146 R4 types; quick: one resource per type, thorough: five) x {own name, Element, BackboneElement, Resource, DomainResource, 8 random FHIR type names, 2 System names, qualified/unqualified, occasionally an invalid name}; plus System values from literals and functions x all System names and some FHIR names; `is` and `as`; distinct by (item facts, specifier)"
	var fhirNames []string
	for k := range protofields.Elements {
		fhirNames = append(fhirNames, k)
	}
	fhirNames = append(fhirNames, resourceNames()...)
	prims := []string{"instant", "time", "date", "dateTime", "base64Binary", "decimal", "boolean", "url", "code", "string", "integer", "uri", "canonical", "markdown", "id", "oid", "uuid", "unsignedInt", "positiveInt"}
	fhirNames = append(fhirNames, prims...)
	bases := []string{"Element", "BackboneElement", "Resource", "DomainResource"}
	sysNames := []string{"Boolean", "String", "Integer", "Decimal", "Date", "DateTime", "Time", "Quantity", "Any"}
	invalid := []string{"patient", "STRING", "Foo", "humanName", "Xyz"}
	type key struct{ op, ns, t string }
	cache := map[key]*fhirpath.Expression{}
	cerr := map[key]bool{}
	compile := func(op, ns, t string) (*fhirpath.Expression, bool) {
		k := key{op, ns, t}
		if e, ok := cache[k]; ok {
			return e, true
		}
		if cerr[k] {
			return nil, false
		}
		spec := t
		if ns != "-" {
			spec = ns + "." + t
		}
		e, err := fhirpath.Compile("%x " + op + " " + spec)
		if err != nil {
			cerr[k] = true
			return nil, false
		}
		cache[k] = e
		return e, true
	}
	input := []fhir.Resource{mustResource(`{"resourceType":"Patient","id":"p"}`)}
	probe := func(item any, facts string, ns, t string) {
		for _, op := range []string{"is", "as"} {
			e, ok := compile(op, ns, t)
			out := "compile-err"
			if ok {
				o := safeEval(func() (system.Collection, error) { return e.Evaluate(input, evalopts.EnvVariable("x", item)) })
				switch {
				case o.Panicked:
					out = "panic"
				case o.Err != nil:
					out = "err:" + errClass(o.Err)
				case op == "is":
					out = "ok:" + boolAbs(o.Coll)
				default:
					switch {
					case len(o.Coll) == 0:
						out = "ok:empty"
					case len(o.Coll) == 1:
						same := false
						if pm, ok := item.(proto.Message); ok {
							rm, ok2 := o.Coll[0].(proto.Message)
							same = ok2 && (rm == pm || rm == throughChoice(pm))
						} else {
							same = fmt.Sprint(o.Coll[0]) == fmt.Sprint(item)
						}
						if same {
							out = "ok:self"
						} else {
							out = "ok:other"
						}
					default:
						out = "ok:many"
					}
				}
			}
			c.Emit(op+" "+facts+" "+ns+" "+t, out, true)
			c.Count("outcome:" + strings.SplitN(out, ":", 2)[0] + ":" + op)
		}
	}
	// type specifiers of one to four parts over a pool of namespace / type / element / unknown names:
	// the verdict of Compile (`1 is <parts>`) against the model's resolution
	{
		words := []string{"fhir", "system", "Fhir", "SYSTEM", "FHIR", "System", "Patient", "Integer", "string", "String", "HumanName", "Quantity", "Foo", "name", "value", "code", "Any", "integer", "Element", "Resource"}
		emitSpec := func(parts []string) {
			src := "1 is " + strings.Join(parts, ".")
			_, err := fhirpath.Compile(src)
			out := "ok"
			if err != nil {
				out = "compile-err"
			}
			c.Emit("tspec "+strings.Join(parts, " "), out, len(parts) > 1)
			c.Count(fmt.Sprintf("tspec-parts:%d", len(parts)))
		}
		for _, a := range words {
			emitSpec([]string{a})
			for _, b := range words {
				emitSpec([]string{a, b})
			}
		}
		for i := 0; i < 200; i++ {
			n := 3 + c.rng.Intn(2)
			parts := make([]string, n)
			for k := range parts {
				parts[k] = Pick(c.rng, words)
			}
			emitSpec(parts)
		}
	}
	// a type specifier has one or two parts: anything longer names no type and is rejected by Compile
	for _, src := range []string{"1 is System.Integer.value", "Patient is FHIR.Patient.name", "Patient.name[0] as FHIR.HumanName.given", "1 is a.b.c", "1.is(System.Integer.value)",
		"1.as(System.Integer.value)", "Patient is FHIR.Patient.name.given", "1 is System.System.Integer", "Patient is FHIR.FHIR.Patient", "1 is Integer.System", "'s' as System.String.length",
		// namespaces and type names are case-sensitive; `as`, `is`, `is()` and `as()` reject the same specifiers
		"Patient is fhir.Patient", "1 is system.Integer", "Patient.active as fhir.boolean", "1 is SYSTEM.Integer", "Patient is Fhir.Patient", "1 is System.integer", "Patient is FHIR.patient", "1 is integer.System",
		"Patient as Hospital", "Patient as patient", "Patient.gender as Code", "Patient.active as FHIR.Boolean", "1 as System.Patient", "Patient as Enrichments.Patient", "Patient as FHIR.Patient.name", "Patient.as(Hospital)", "Patient.is(Hospital)",
		"1 as Strin", "Patient.name as humanName", "Patient.name.ofType(Hospital).exists() or (Patient as Hospital).exists()"} {
		_, err := fhirpath.Compile(src)
		c.Observe("qualifier-count "+src, true)
		c.Law(err != nil, "C12/unknown-type-accepted", "a type specifier that names no type is rejected by Compile", src, "compiled")
	}
	// values computed from FHIR primitives are System values: every conversion function applied to an
	// element yields the System type, never the element itself
	{
		res := mustResource(`{"resourceType":"Observation","id":"o","status":"final","code":{"text":"c"},"effectiveDateTime":"2020-01-02T10:00:00Z","issued":"2020-01-02T10:00:00.000Z","valueQuantity":{"value":1.5,"unit":"mg"},
		  "extension":[{"url":"d","valueDate":"2020-03-04"},{"url":"t","valueTime":"10:00:00"},{"url":"i","valueInteger":3},{"url":"b","valueBoolean":true},{"url":"x","valueDecimal":2.50},{"url":"s","valueString":"7"},{"url":"p","valuePositiveInt":4}]}`)
		type conv struct{ path, fn, sys, fhirT string }
		for _, w := range []conv{
			{"Observation.extension.where(url='d').value", "toDate()", "Date", "date"}, {"Observation.extension.where(url='d').value", "toDateTime()", "DateTime", "dateTime"}, {"Observation.extension.where(url='d').value", "toString()", "String", "string"},
			{"Observation.effective", "toDateTime()", "DateTime", "dateTime"}, {"Observation.effective", "toDate()", "Date", "date"}, {"Observation.effective", "toString()", "String", "string"},
			{"Observation.issued", "toDateTime()", "DateTime", "instant"}, {"Observation.extension.where(url='t').value", "toTime()", "Time", "time"}, {"Observation.extension.where(url='t').value", "toString()", "String", "string"},
			{"Observation.extension.where(url='i').value", "toInteger()", "Integer", "integer"}, {"Observation.extension.where(url='i').value", "toDecimal()", "Decimal", "decimal"}, {"Observation.extension.where(url='i').value", "toString()", "String", "string"},
			{"Observation.extension.where(url='i').value", "toQuantity()", "Quantity", "Quantity"}, {"Observation.extension.where(url='p').value", "toInteger()", "Integer", "positiveInt"},
			{"Observation.extension.where(url='b').value", "toBoolean()", "Boolean", "boolean"}, {"Observation.extension.where(url='b').value", "toString()", "String", "string"},
			{"Observation.extension.where(url='x').value", "toDecimal()", "Decimal", "decimal"}, {"Observation.extension.where(url='x').value", "toString()", "String", "string"},
			{"Observation.extension.where(url='s').value", "toString()", "String", "string"}, {"Observation.extension.where(url='s').value", "toInteger()", "Integer", "integer"},
			{"Observation.value", "toQuantity()", "Quantity", "Quantity"}, {"Observation.value", "toString()", "String", "string"}, {"Observation.status", "toString()", "String", "code"}, {"Observation.id", "toString()", "String", "id"},
		} {
			for _, q := range []struct{ src, want string }{
				{w.path + "." + w.fn + " is System." + w.sys, "ok:t"}, {w.path + "." + w.fn + " is FHIR." + w.fhirT, "ok:f"}, {w.path + "." + w.fn + " is Element", "ok:f"},
				{"(" + w.path + "." + w.fn + " as System." + w.sys + ").exists()", "ok:t"},
			} {
				o := compileEval(q.src, []fhir.Resource{res})
				got := boolOut(o)
				c.Observe("converted "+q.src, true)
				c.Law(got == q.want, "C12/converted-type", "a value computed from a FHIR primitive is a System value of the corresponding type", q.src, got)
			}
		}
	}
	// a narrative xhtml element, always (generated resources carry one only sometimes)
	{
		res := mustResource(`{"resourceType":"Patient","id":"x","text":{"status":"generated","div":"<div xmlns=\"http://www.w3.org/1999/xhtml\">x</div>"}}`)
		for _, w := range []struct{ src, want string }{{"Patient.text.`div` is Element", "ok:t"}, {"Patient.text.`div` is DomainResource", "ok:f"}, {"Patient.text.`div` is Resource", "ok:f"}, {"Patient.text.`div` is BackboneElement", "ok:f"},
			{"Patient.text.`div`.exists()", "ok:t"}, {"Patient.descendants().all($this is Element)", "ok:t"},
			// its type name is xhtml, a primitive that specialises nothing but Element — in particular it is no string
			{"Patient.text.`div` is xhtml", "ok:t"}, {"Patient.text.`div` is FHIR.xhtml", "ok:t"}, {"Patient.text.`div` is string", "ok:f"}, {"Patient.text.`div` is FHIR.string", "ok:f"},
			{"Patient.text.`div` is markdown", "ok:f"}, {"Patient.text.`div` is uri", "ok:f"}, {"Patient.text.`div` is code", "ok:f"}, {"Patient.text.`div` is System.String", "ok:f"}, {"Patient.text.`div` is String", "ok:f"},
			{"(Patient.text.`div` as string).empty()", "ok:t"}, {"(Patient.text.`div` as xhtml).exists()", "ok:t"}, {"Patient.text.`div` is Xhtml", "err"}, {"Patient.text.`div` is FHIR.Xhtml", "err"},
			{"Patient.text.status is string", "ok:t"}, {"Patient.id is string", "ok:t"}, {"Patient.id is xhtml", "ok:f"}, {"Patient.text is Narrative", "ok:t"}, {"Patient.text.status is code", "ok:t"}, {"(Patient.text.`div` as Element).exists()", "ok:t"}} {
			o := compileEval(w.src, []fhir.Resource{res})
			got := "err"
			if o.Err == nil && !o.Panicked {
				got = "ok:" + boolAbs(o.Coll)
			}
			c.Observe("xhtml "+w.src, true)
			c.Law(got == w.want, "C12/xhtml", "the narrative xhtml element is an Element and no resource or backbone type", w.src, got)
		}
	}
	g := &ResGen{r: c.rng, maxDepth: 3, density: 45}
	per := 1
	if c.thorough {
		per = 5
	}
	for _, rn := range resourceNames() {
		for k := 0; k < per; k++ {
			res, _ := g.GenValid(rn, c)
			if res == nil {
				c.Count("gen-failed")
				continue
			}
			// the resource itself
			elems := []proto.Message{res}
			walkElements(res, func(e Elem) {
				// ReferenceId is google/fhir's internal carrier of a typed reference, not a FHIR element
				if string(e.Msg.ProtoReflect().Descriptor().Name()) != "ReferenceId" {
					elems = append(elems, e.Msg)
				}
			})
			c.Count("resources")
			for _, m := range elems {
				facts := typeFacts(m)
				c.Count("kind:" + strings.Join(strings.Split(facts, ":")[2:], ""))
				own := strings.Split(facts, ":")[1]
				if own == "Xhtml" {
					// the narrative's xhtml is outside the reference type table (google/fhir names it Xhtml):
					// it is an Element and nothing else of the hierarchy
					for _, w := range []struct {
						t    string
						want string
					}{{"Element", "ok:t"}, {"Resource", "ok:f"}, {"DomainResource", "ok:f"}, {"BackboneElement", "ok:f"}, {"Patient", "ok:f"}, {"Quantity", "ok:f"}} {
						e, ok := compile("is", "-", w.t)
						if !ok {
							continue
						}
						o := safeEval(func() (system.Collection, error) { return e.Evaluate(input, evalopts.EnvVariable("x", m)) })
						got := "err"
						if o.Err == nil && !o.Panicked {
							got = "ok:" + boolAbs(o.Coll)
						}
						c.Observe("xhtml is "+w.t, true)
						c.Law(got == w.want, "C12/xhtml", "the narrative xhtml element is an Element and no resource or backbone type", "Narrative.div is "+w.t, got)
					}
				}
				names := []string{own, strings.ToLower(own[:1]) + own[1:]}
				names = append(names, bases...)
				names = append(names, "code", "string", "integer", "uri", "Quantity") // targets of the specialisation rules
				for i := 0; i < 8; i++ {
					names = append(names, Pick(c.rng, fhirNames))
				}
				for _, t := range names {
					ns := "-"
					if c.rng.Intn(4) == 0 {
						ns = "FHIR"
					}
					probe(m, facts, ns, t)
				}
				probe(m, facts, Pick(c.rng, []string{"-", "System"}), Pick(c.rng, sysNames))
				if c.rng.Intn(6) == 0 {
					probe(m, facts, Pick(c.rng, []string{"-", "FHIR", "System", "Foo"}), Pick(c.rng, invalid))
				}
			}
		}
	}
	// every message type of the compiled R4 descriptors, as an empty instance, against the names that tell the kinds
	// of element apart (code / component / datatype / resource) — forward and then backward, so that no answer can
	// depend on which type was looked at first (several unrelated types share a short message name, e.g. CodeType)
	{
		var mts []protoreflect.MessageType
		protoregistry.GlobalTypes.RangeMessages(func(mt protoreflect.MessageType) bool {
			d := mt.Descriptor()
			n := string(d.Name())
			if strings.HasPrefix(string(d.FullName()), "google.fhir.r4.core.") && n != "ReferenceId" && n != "Xhtml" && n != "ContainedResource" && d.Fields().Len() > 0 && // (messages without fields only hold the enum of a value set)
				!(d.Oneofs().Len() > 0 && d.Fields().Len() == d.Oneofs().Get(0).Fields().Len()) {
				mts = append(mts, mt)
			}
			return true
		})
		// only types that can occur in an R4 resource: reachable from the ContainedResource oneof through message-valued
		// fields (the core package also holds profile artefacts such as CodingWithFixedCode, which are no FHIR types)
		reach := map[protoreflect.FullName]bool{}
		var visit func(d protoreflect.MessageDescriptor)
		visit = func(d protoreflect.MessageDescriptor) {
			if reach[d.FullName()] {
				return
			}
			reach[d.FullName()] = true
			for i := 0; i < d.Fields().Len(); i++ {
				if f := d.Fields().Get(i); f.Kind() == protoreflect.MessageKind && f.Message() != nil {
					visit(f.Message())
				}
			}
		}
		visit((&bcrpb.ContainedResource{}).ProtoReflect().Descriptor())
		kept := mts[:0:0]
		for _, mt := range mts {
			if reach[mt.Descriptor().FullName()] {
				kept = append(kept, mt)
			}
		}
		mts = kept
		sort.Slice(mts, func(i, j int) bool { return mts[i].Descriptor().FullName() < mts[j].Descriptor().FullName() })
		shortCount := map[string]int{}
		for _, mt := range mts {
			shortCount[string(mt.Descriptor().Name())]++
		}
		sweep := func(order []protoreflect.MessageType) {
			for ti, mt := range order {
				// quick tier: every type whose short name is shared with another type, the rest on a rotating fifth
				if !c.thorough && shortCount[string(mt.Descriptor().Name())] < 2 && (ti+int(c.seed))%5 != 0 {
					continue
				}
				m := mt.New().Interface()
				facts := typeFacts(m)
				own := strings.Split(facts, ":")[1]
				for _, t := range []string{"code", "BackboneElement", "Element", "string", "Resource", own, strings.ToLower(own[:1]) + own[1:]} {
					probe(m, facts, "-", t)
				}
				c.Count("schema-type-sweep")
			}
		}
		sweep(mts)
		// the type of an element REACHED BY NAVIGATION is the type declared at that position of the schema: a message
		// with every message-valued element present, each element stepped into by name and tested against the own type
		// name of the child the schema puts there (types with look-alike sibling names such as min / minValue always,
		// the others on a rotating sample in the quick tier)
		for ti, mt := range mts {
			d := mt.Descriptor()
			fields := d.Fields()
			collide := false
			for j := 0; j < fields.Len(); j++ {
				if fields.ByName(fields.Get(j).Name()+"_value") != nil {
					collide = true
				}
			}
			if !c.thorough && !collide && (ti+int(c.seed))%11 != 0 {
				continue
			}
			m := mt.New()
			kids := map[int]proto.Message{}
			for j := 0; j < fields.Len(); j++ {
				f2 := fields.Get(j)
				if f2.Kind() != protoreflect.MessageKind || f2.IsMap() || f2.ContainingOneof() != nil {
					continue
				}
				ch := m.NewField(f2)
				var cm protoreflect.Message
				if f2.IsList() {
					cm = ch.List().NewElement().Message()
					ch.List().Append(protoreflect.ValueOfMessage(cm))
				} else {
					cm = ch.Message()
				}
				m.Set(f2, ch)
				cd := cm.Descriptor()
				if cd.Name() == "ContainedResource" || cd.FullName() == "google.protobuf.Any" || cd.Name() == "Xhtml" || cd.Name() == "ReferenceId" || (cd.Oneofs().Len() > 0 && cd.Fields().Len() == cd.Oneofs().Get(0).Fields().Len()) {
					continue
				}
				kids[j] = cm.Interface()
			}
			for j := 0; j < fields.Len(); j++ {
				kid, ok := kids[j]
				if !ok {
					continue
				}
				facts := typeFacts(kid)
				own := strings.Split(facts, ":")[1]
				for _, t := range []string{own, strings.ToLower(own[:1]) + own[1:], "code", "BackboneElement", "Element"} {
					src := "%x." + fpName(fields.Get(j).JSONName()) + " is " + t
					e, err := fhirpath.Compile(src)
					out := "compile-err"
					if err == nil {
						o := safeEval(func() (system.Collection, error) { return e.Evaluate(input, evalopts.EnvVariable("x", m.Interface())) })
						switch {
						case o.Panicked:
							out = "panic"
						case o.Err != nil:
							out = "err:" + errClass(o.Err)
						default:
							out = "ok:" + boolAbs(o.Coll)
						}
					}
					c.Emit("is "+facts+" - "+t, out, true)
					c.Count("navigated-type")
				}
			}
		}
		rev := make([]protoreflect.MessageType, len(mts))
		for i, mt := range mts {
			rev[len(mts)-1-i] = mt
		}
		sweep(rev)
	}
	// System values from literals and functions
	sysExprs := []string{"1", "'s'", "true", "1.5", "@2020", "@2020-01", "@2020-01-01T10:00:00Z", "@T10:00", "1 'mg'", "(1 + 1)", "'a'.length()", "(1 = 1)", "'1'.toInteger()", "1.toString()", "now()", "today()"}
	for _, src := range sysExprs {
		o := compileEval(src, input)
		if o.Err != nil || len(o.Coll) != 1 {
			c.meta.Notes = append(c.meta.Notes, "system operand does not evaluate: "+src)
			continue
		}
		v, ok := o.Coll[0].(system.Any)
		if !ok {
			continue
		}
		facts := "sys:" + v.Name()
		for _, t := range sysNames {
			probe(v, facts, "-", t)
			probe(v, facts, "System", t)
		}
		for _, t := range []string{"string", "integer", "boolean", "Element", "Patient", "Quantity", "date"} {
			probe(v, facts, "-", t)
			probe(v, facts, "FHIR", t)
		}
		probe(v, facts, "-", Pick(c.rng, invalid))
	}
}
