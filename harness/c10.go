package main

// C10 — collection algebra.  Collections come from generated resources (paths yielding
// primitive, complex and mixed collections, with duplicates) and from environment variables;
// criteria from a fixed list evaluated per item through the compiled criterion node; positions
// n in [-3, count+3] plus int32 boundaries; set functions on pairs with controlled overlap.

import (
	"errors"
	"fmt"
	"strings"

	dtpb "github.com/google/fhir/go/proto/google/fhir/proto/r4/core/datatypes_go_proto"
	"github.com/verily-src/fhirpath-go/fhirpath"
	"github.com/verily-src/fhirpath-go/fhirpath/evalopts"
	"github.com/verily-src/fhirpath-go/fhirpath/internal/expr"
	"github.com/verily-src/fhirpath-go/fhirpath/system"
	"github.com/verily-src/fhirpath-go/internal/fhir"
	"google.golang.org/protobuf/proto"
)

func init() { props["C10"] = runC10 }

func sameItem(a, b any) bool {
	pa, ok1 := a.(proto.Message)
	pb, ok2 := b.(proto.Message)
	if ok1 && ok2 {
		return pa == pb
	}
	if ok1 != ok2 {
		return false
	}
	return fmt.Sprintf("%T|%v", a, a) == fmt.Sprintf("%T|%v", b, b)
}

// indicesOf maps a result collection to positions in base (by identity, in order); -1 if foreign.
func indicesOf(res, base system.Collection) string {
	if len(res) == 0 {
		return "-"
	}
	parts := []string{}
	for _, r := range res {
		// identity of System values is not observable: name an item by the FIRST position holding an
		// identical item (pointer for elements, type and value for System values); the driver
		// canonicalises the model's positions with the same map (token R:...)
		idx := -1
		for i, b := range base {
			if sameItem(r, b) {
				idx = i
				break
			}
		}
		if r == nil {
			parts = append(parts, "NIL")
		} else {
			parts = append(parts, fmt.Sprint(idx))
		}
	}
	return strings.Join(parts, ",")
}

// repToken: for each position the first position holding an identical item.
func repToken(base system.Collection) string {
	if len(base) == 0 {
		return "R:-"
	}
	parts := make([]string, len(base))
	for i := range base {
		for j := 0; j <= i; j++ {
			if sameItem(base[i], base[j]) {
				parts[i] = fmt.Sprint(j)
				break
			}
		}
	}
	return "R:" + strings.Join(parts, ",")
}

func runC10(c *Ctx) {
	c.meta.Rule = "collections: 12 path shapes on generated resources of 6 types plus 8 environment-variable collections (System values with duplicates and scale variants, FHIR primitives, complex elements, mixed); criteria: 10 expressions evaluated per item; positions [-3, count+3] and int32 boundaries; set functions on (c, d) with d drawn from c, from another collection or mixed; non-trivial = collection non-empty; distinct by operation line"
	g := &ResGen{r: c.rng, maxDepth: 3, density: 70}
	type coll struct {
		desc  string
		items system.Collection
		input []fhir.Resource
	}
	var colls []coll
	paths := map[string][]string{
		"Patient":     {"Patient.name", "Patient.name.given", "Patient.telecom", "Patient.identifier", "Patient.address.line", "Patient.contact", "Patient.name.family", "Patient.telecom.value", "Patient.descendants()", "Patient.children()"},
		"Observation": {"Observation.category", "Observation.category.coding", "Observation.component", "Observation.performer", "Observation.identifier.value", "Observation.children()"},
		"Bundle":      {"Bundle.entry", "Bundle.entry.resource", "Bundle.link"},
		"Encounter":   {"Encounter.participant", "Encounter.identifier", "Encounter.type.coding.code"},
		"CarePlan":    {"CarePlan.activity", "CarePlan.category.coding", "CarePlan.goal"},
		"Practitioner": {"Practitioner.name.given", "Practitioner.qualification", "Practitioner.telecom"},
	}
	reps := 2
	if c.thorough {
		reps = 12
	}
	for rn, ps := range paths {
		for k := 0; k < reps; k++ {
			res, _ := g.GenValid(rn, c)
			if res == nil {
				continue
			}
			for _, p := range ps {
				o := compileEval(p, []fhir.Resource{res})
				if o.Err != nil || o.Panicked {
					c.Count("path-error")
					continue
				}
				colls = append(colls, coll{p, o.Coll, []fhir.Resource{res}})
			}
		}
	}
	// hand-made collections: criteria that are FHIR boolean ELEMENTS (true / false / absent), names whose
	// later item has a multi-item `given`, extension URLs that are slash / prefix / case variants
	hand := mustResource(`{"resourceType":"Patient","id":"h","active":false,"_active":{"extension":[{"url":"http://example.org/fhir/ext/a","valueString":"on-active"}]},"birthDate":"1980-02-29","_birthDate":{"extension":[{"url":"http://example.org/fhir/ext/a","valueDateTime":"1980-02-29T10:00:00Z"},{"url":"http://example.org/fhir/ext","valueString":"x"}]},"deceasedDateTime":"2020-01-01T10:00:00Z","_deceasedDateTime":{"extension":[{"url":"http://example.org/fhir/ext/a/","valueString":"y"}]},"meta":{"lastUpdated":"2020-01-01T10:00:00.000Z","_lastUpdated":{"extension":[{"url":"http://example.org/fhir/ext/a","valueString":"z"}]}},"communication":[{"language":{"text":"a"},"preferred":false},{"language":{"text":"b"},"preferred":true},{"language":{"text":"c"}},{"language":{"text":"d"},"preferred":false}],
	  "name":[{"given":["Ann"],"family":"A"},{"given":["Bea","Bo"],"family":"B"},{"family":"C"}],
	  "extension":[{"url":"http://example.org/fhir/ext/a","valueString":"1"},{"url":"http://example.org/fhir/ext/a/","valueString":"2"},{"url":"http://example.org/fhir/ext/a/b","valueString":"3"},{"url":"HTTP://example.org/fhir/ext/a","valueString":"4"},{"url":"http://example.org/fhir/ext/a","valueString":"5"}]}`)
	for _, p := range []string{"Patient.communication", "Patient.name", "Patient.extension", "Patient.communication.preferred", "Patient"} {
		if o := compileEval(p, []fhir.Resource{hand}); o.Err == nil && !o.Panicked {
			colls = append(colls, coll{"hand-made " + p, o.Coll, []fhir.Resource{hand}})
		}
	}
	// mixed-type collections: bundled resources of different types, some without the element asked for
	mixed := mustResource(`{"resourceType":"Bundle","type":"collection","entry":[{"resource":{"resourceType":"Patient","id":"a"}},{"resource":{"resourceType":"Observation","id":"o","status":"final","code":{"text":"c"}}},
	  {"resource":{"resourceType":"Patient","id":"b","active":true}},{"resource":{"resourceType":"Encounter","id":"e","status":"planned","class":{"code":"x"}}}]}`)
	for _, p := range []string{"Bundle.entry.resource", "Bundle.entry.resource.take(2)", "Bundle.entry.resource.skip(1).take(2)", "Bundle.entry.resource.skip(2)", "Bundle.entry.resource | Bundle.entry"} {
		if o := compileEval(p, []fhir.Resource{mixed}); o.Err == nil && !o.Panicked {
			colls = append(colls, coll{"mixed bundle " + p, o.Coll, []fhir.Resource{mixed}})
		}
	}
	pat := mustResource(`{"resourceType":"Patient","id":"p"}`)
	hn := func(f string) any { return mustElementHumanName(f) }
	a1 := hn("A")
	envs := []system.Collection{
		{system.Integer(1), system.Integer(2), system.Integer(1), system.Integer(3), system.Integer(2)},
		{system.Decimal(mustDec("1.0")), system.Decimal(mustDec("1.00")), system.Integer(1), system.Decimal(mustDec("2.5"))},
		{system.String("a"), system.String("b"), system.String("a"), fhir.String("a"), fhir.String("c")},
		{a1, hn("B"), hn("A"), a1},
		{system.Integer(1), system.String("1"), system.Boolean(true), hn("A"), system.Integer(1)},
		{system.Boolean(true), system.Boolean(false), system.Boolean(true)},
		{system.Integer(1), system.Decimal(mustDec("1.0")), system.Integer(2), system.Decimal(mustDec("2")), fhir.Integer(1), fhir.Decimal(1)},
		{system.Decimal(mustDec("1.5")), system.Integer(2), system.Decimal(mustDec("1.50")), mustElementDecimal("1.5"), mustElementDecimal("1.50")},
		{hn("A"), hn("A"), hn("B"), hn("A")},
		{},
		{system.Integer(7)},
		// items whose comparison has no answer (different precisions, different units) are not equal: they stay apart
		{c10Date("2020"), c10Date("2020-01"), c10Date("2020"), c10Date("2020-01-15"), c10Date("2020-01")},
		{c10Qty("5", "mg"), c10Qty("7", "kg"), c10Qty("5", "mg"), c10Qty("5", "kg"), c10Qty("5.0", "mg")},
		{c10DT("2020-01-01T10"), c10DT("2020-01-01T10:00"), c10DT("2020-01-01T10"), c10DT("2020-01-01T10:00:00Z")},
		// a Date and the DateTime it is implicitly converted to are equal under `=`: one class for distinct / intersect / exclude
		{c10Date("2020-01-01"), c10DT("2020-01-01T"), c10Date("2020-01-02"), c10DT("2020-01-01T")},
		{c10DT("2020T"), c10Date("2020"), c10DT("2020-03T"), c10Date("2020-03"), c10Date("2021")},
		{fhir.MustParseDate("2020-01-01"), fhir.MustParseDateTime("2020-01-01"), c10Date("2020-01-01"), fhir.MustParseDateTime("2020-01-02")},
		// the same value as a FHIR element first and as a System value later, and the other way round
		{fhir.String("a"), system.String("a"), &dtpb.Code{Value: "a"}, system.String("b"), &dtpb.Uri{Value: "b"}, system.String("a")},
		{fhir.Integer(1), system.Integer(1), fhir.Boolean(true), system.Boolean(true), mustElementDecimal("1.0"), system.Decimal(mustDec("1.0"))},
		{&dtpb.Id{Value: "x"}, system.String("x"), system.String("y"), &dtpb.Markdown{Value: "y"}},
	}
	for i, e := range envs {
		colls = append(colls, coll{fmt.Sprintf("%%e%d", i), e, []fhir.Resource{pat}})
	}
	crits := []string{"birthDate", "status", "id", "active.exists()", "true", "false", "{}", "$this.exists()", "family.exists()", "use = 'official'", "given", "$this is HumanName", "1", "$this = 1", "system.exists()", "(true | false)", "preferred", "active", "preferred.not()", "$this", "given.startsWith('A')", "url"}
	type compiled struct {
		src string
		e   expr.Expression
	}
	var cc []compiled
	for _, src := range crits {
		e, err := fhirpath.Compile(src)
		if err != nil {
			c.meta.Notes = append(c.meta.Notes, "criterion does not compile: "+src)
			continue
		}
		cc = append(cc, compiled{src, exprTree(e)})
	}
	evalOn := func(src string, cl coll) Outcome {
		return safeEval(func() (system.Collection, error) {
			e, err := fhirpath.Compile("%c." + src)
			if err != nil {
				return nil, fmt.Errorf("compile: %w", err)
			}
			return e.Evaluate(cl.input, evalopts.EnvVariable("c", cl.items), evalopts.EnvVariable("d", system.Collection{}))
		})
	}
	evalOn2 := func(src string, cl coll, d system.Collection) Outcome {
		return safeEval(func() (system.Collection, error) {
			e, err := fhirpath.Compile("%c." + src)
			if err != nil {
				return nil, fmt.Errorf("compile: %w", err)
			}
			return e.Evaluate(cl.input, evalopts.EnvVariable("c", cl.items), evalopts.EnvVariable("d", d))
		})
	}
	idxOut := func(o Outcome, base system.Collection) string {
		switch {
		case o.Panicked:
			return "panic"
		case o.TimedOut:
			return "timeout"
		case o.Err != nil:
			return "err"
		}
		return "ok:" + indicesOf(o.Coll, base)
	}
	for _, cl := range colls {
		n := len(cl.items)
		c.Count(fmt.Sprintf("coll-size:%d", min2(n, 9)))
		// select() is the concatenation of the projections of the items — content and order, also when the
		// projection hands back (parts of) a longer-lived collection; and the collection itself is left as supplied
		if n >= 1 && n <= 10 {
			before := append(system.Collection{}, cl.items...)
			for _, proj := range []string{"%c.take(1)", "%c.skip(1).take(2)", "iif($this = %c.first(), %c.take(1), %c.skip(2))", "%c.tail()", "iif($index = 0, %c.take(2), {})", "$this", "%c.last()", "%c.where($this = %c.first())"} {
				whole := evalOn("select("+proj+")", cl)
				var want system.Collection
				okItems := whole.Err == nil && !whole.Panicked
				for i := 0; okItems && i < n; i++ {
					p := strings.ReplaceAll(proj, "$index", fmt.Sprint(i))
					one := evalOn(fmt.Sprintf("skip(%d).take(1).select(%s)", i, p), cl)
					if one.Err != nil || one.Panicked {
						okItems = false
						break
					}
					want = append(want, one.Coll...)
				}
				if okItems {
					same := len(want) == len(whole.Coll)
					for i := 0; same && i < len(want); i++ {
						same = sameItem(want[i], whole.Coll[i]) || fmt.Sprintf("%T|%v", want[i], want[i]) == fmt.Sprintf("%T|%v", whole.Coll[i], whole.Coll[i])
					}
					c.Law(same, "C10/select-spec", "select() is the concatenation, in order, of the projections of the items", fmt.Sprintf("%s = %v .select(%s)", cl.desc, before, proj), fmt.Sprintf("%v want %v", whole.Coll, want))
					c.Count("select-content")
				}
				unchanged := len(cl.items) == len(before)
				for i := 0; unchanged && i < len(before); i++ {
					unchanged = sameItem(before[i], cl.items[i]) || fmt.Sprintf("%T|%v", before[i], before[i]) == fmt.Sprintf("%T|%v", cl.items[i], cl.items[i])
				}
				c.Law(unchanged, "C10/input-modified", "collection functions leave the collection they are applied to as supplied", fmt.Sprintf("%s .select(%s)", cl.desc, proj), fmt.Sprintf("%v was %v", cl.items, before))
				if !unchanged {
					copy(cl.items, before)
				}
			}
		}
		// --- criteria
		for _, cr := range cc {
			outs := make([]string, n)
			lens := make([]string, n)
			simple := true
			for i, it := range cl.items {
				item := it
				o := safeEval(func() (system.Collection, error) {
					return cr.e.Evaluate(expr.InitializeContext(system.Collection{item}), system.Collection{item})
				})
				if o.Err != nil || o.Panicked {
					outs[i], lens[i] = "E", "E"
					if !o.Panicked && errors.Is(o.Err, expr.ErrInvalidField) {
						lens[i] = "F"
					}
					simple = false
				} else {
					outs[i] = boolAbs(o.Coll)
					lens[i] = fmt.Sprint(len(o.Coll))
				}
			}
			tok := "_" // the empty collection ("-" is an empty criterion result of one item)
			ltok := "_"
			if n > 0 {
				tok, ltok = strings.Join(outs, ";"), strings.Join(lens, ";")
			}
			w := evalOn("where("+cr.src+")", cl)
			c.Emit("where "+tok+" "+repToken(cl.items), idxOut(w, cl.items), n > 0)
			ex := evalOn("exists("+cr.src+")", cl)
			c.Emit("exists "+tok, boolOutE(ex), n > 0)
			al := evalOn("all("+cr.src+")", cl)
			c.Emit("all "+tok, boolOutE(al), n > 0)
			se := evalOn("select("+cr.src+")", cl)
			if simple {
				so := "err"
				if se.Err == nil && !se.Panicked {
					so = fmt.Sprintf("ok:%d", len(se.Coll))
				}
				c.Emit("select "+ltok, so, n > 0)
			} else if n > 0 {
				// mixed collections: an element name that some items do not have contributes nothing for
				// those items; it is an error only when no item has it
				other, field, sum := false, 0, 0
				for _, l := range lens {
					switch l {
					case "E":
						other = true
					case "F":
						field++
					default:
						k := 0
						fmt.Sscan(l, &k)
						sum += k
					}
				}
				if !other {
					want := fmt.Sprintf("ok:%d", sum)
					if field == n {
						want = "err"
					}
					so := "err"
					if se.Err == nil && !se.Panicked {
						so = fmt.Sprintf("ok:%d", len(se.Coll))
					}
					c.Law(so == want, "C10/select-spec", "select() concatenates the projections of the items; an element that only some items of a mixed collection lack contributes nothing for them", fmt.Sprintf("%s .select(%s) with per-item results %s", cl.desc, cr.src, ltok), so+" want "+want)
					c.Count("select-mixed")
				}
			}
			c.Count("crit:" + cr.src)
			// direct laws on the per-item criterion values (t / f / - single items only)
			clean := n > 0
			allTrue, kept := true, 0
			for _, o := range outs {
				switch o {
				case "t":
					kept++
				case "f", "-":
					allTrue = false
				default:
					clean = false
				}
			}
			if clean {
				c.Law(boolOutE(al) == map[bool]string{true: "ok:t", false: "ok:f"}[allTrue], "C10/all-spec", "all(p) is true iff p is true for every item", cl.desc+".all("+cr.src+") with per-item criteria "+tok, boolOutE(al))
				c.Law(w.Err == nil && !w.Panicked && len(w.Coll) == kept, "C10/where-spec", "where(p) keeps exactly the items for which p is true", cl.desc+".where("+cr.src+") with per-item criteria "+tok, fmt.Sprintf("%d items kept, want %d", len(w.Coll), kept))
			}
			// direct law: exists(p) = where(p).exists()
			we := evalOn("where("+cr.src+").exists()", cl)
			c.Law(boolOutE(ex) == boolOutE(we), "C10/exists-where", "exists(p) = where(p).exists()", cl.desc+" "+cr.src, boolOutE(ex)+" vs "+boolOutE(we))
			// no null items
			if w.Err == nil && !w.Panicked {
				for _, it := range w.Coll {
					c.Law(it != nil, "C10/null-item", "no null items", cl.desc+".where("+cr.src+")", "nil")
				}
			}
		}
		// --- subsetting
		ns := []int64{-3, -2, -1, 0, 1, 2, 3, int64(n) - 1, int64(n), int64(n) + 1, int64(n) + 2, int64(n) + 3, 2147483647, -2147483648, 2147483646}
		for _, k := range ns {
			tk := evalOn(fmt.Sprintf("take(%%n)"), cl)
			_ = tk
			tko := evalOnN("take(%n)", cl, k)
			sko := evalOnN("skip(%n)", cl, k)
			ixo := evalOnN("select($this)[%n]", cl, k)
			c.Emit(fmt.Sprintf("take %d %d %s", k, n, repToken(cl.items)), idxOut(tko, cl.items), n > 0)
			c.Emit(fmt.Sprintf("skip %d %d %s", k, n, repToken(cl.items)), idxOut(sko, cl.items), n > 0)
			c.Emit(fmt.Sprintf("index %d %d %s", k, n, repToken(cl.items)), idxOut(ixo, cl.items), n > 0)
			if tko.Err == nil && sko.Err == nil && !tko.Panicked && !sko.Panicked {
				joined := append(append(system.Collection{}, tko.Coll...), sko.Coll...)
				same := len(joined) == n
				for i := 0; same && i < n; i++ {
					same = sameItem(joined[i], cl.items[i])
				}
				c.Law(same, "C10/take-skip-partition", "take(n) followed by skip(n) partitions c", fmt.Sprintf("%s n=%d", cl.desc, k), idxOut(tko, cl.items)+" ++ "+idxOut(sko, cl.items))
			}
		}
		for _, f := range []string{"first", "last", "tail"} {
			c.Emit(fmt.Sprintf("%s %d %s", f, n, repToken(cl.items)), idxOut(evalOn(f+"()", cl), cl.items), n > 0)
		}
		c.Emit(fmt.Sprintf("count %d", n), outTokens(evalOn("count()", cl)), n > 0)
		c.Emit(fmt.Sprintf("empty %d", n), boolOutE(evalOn("empty()", cl)), n > 0)
		// --- set functions: eq matrix from the `=` operator evaluated through the public API (not from
		// Collection.Contains, which the set functions themselves use)
		mk := func(all system.Collection) string {
			var b strings.Builder
			for i := range all {
				for j := range all {
					if eqByOperator(all[i], all[j]) {
						b.WriteByte('1')
					} else {
						b.WriteByte('0')
					}
				}
			}
			if b.Len() == 0 {
				return "-"
			}
			return b.String()
		}
		c.Emit(fmt.Sprintf("distinct %d %s %s", n, mk(cl.items), repToken(cl.items)), idxOut(evalOn("distinct()", cl), cl.items), n > 0)
		c.Emit(fmt.Sprintf("isdistinct %d %s", n, mk(cl.items)), boolOutE(evalOn("isDistinct()", cl)), n > 0)
		if do := evalOn("distinct()", cl); do.Err == nil && !do.Panicked && n <= 14 {
			dupFree := true
			for i := range do.Coll {
				for j := i + 1; j < len(do.Coll); j++ {
					if eqByOperator(do.Coll[i], do.Coll[j]) {
						dupFree = false
					}
				}
			}
			covers := true
			for _, it := range cl.items {
				found := false
				for _, r := range do.Coll {
					if sameItem(it, r) || eqByOperator(it, r) {
						found = true
					}
				}
				covers = covers && found
			}
			c.Law(dupFree && covers, "C10/distinct-spec", "distinct() keeps one representative of each class of equal items", fmt.Sprintf("%s = %v .distinct()", cl.desc, cl.items), fmt.Sprintf("%d of %d items kept; duplicate-free=%v, every item represented=%v", len(do.Coll), n, dupFree, covers))
			if io := evalOn("isDistinct()", cl); io.Err == nil && len(io.Coll) == 1 {
				c.Law((io.Coll[0] == system.Boolean(true)) == (len(do.Coll) == n), "C10/isdistinct-spec", "isDistinct() iff count() = distinct().count()", cl.desc, fmt.Sprintf("isDistinct=%v, distinct keeps %d of %d", io.Coll[0], len(do.Coll), n))
			}
		}
		// second collection with controlled overlap
		for t := 0; t < 3; t++ {
			var d system.Collection
			switch t {
			case 0: // sub-multiset of c
				for _, it := range cl.items {
					if c.rng.Bool() {
						d = append(d, it)
					}
				}
			case 1: // another collection
				d = Pick(c.rng, colls).items
				if len(d) > 8 {
					d = d[:8]
				}
			default: // mixed
				for _, it := range cl.items {
					if c.rng.Intn(3) == 0 {
						d = append(d, it)
					}
				}
				o := Pick(c.rng, colls).items
				if len(o) > 0 {
					d = append(d, o[c.rng.Intn(len(o))])
				}
			}
			if n > 14 || len(d) > 14 {
				continue
			}
			all := append(append(system.Collection{}, cl.items...), d...)
			for _, op := range []string{"intersect", "exclude"} {
				o := evalOn2(op+"(%d)", cl, d)
				out := "err"
				if o.Panicked {
					out = "panic"
				} else if o.Err == nil {
					// intersect reports primitives as System values: compare by equality class position in `all`
					parts := []string{}
					for _, r := range o.Coll {
						if r == nil {
							parts = append(parts, "NIL")
							continue
						}
						idx := -1
						for i, b := range all {
							if sameItem(r, b) || (system.IsPrimitive(r) && sameSystem(r, b)) {
								idx = i
								break
							}
						}
						parts = append(parts, fmt.Sprint(idx))
					}
					out = "ok:-"
					if len(parts) > 0 {
						out = "ok:" + strings.Join(parts, ",")
					}
				}
				c.Emit(fmt.Sprintf("%s %d %d %s %s", op, n, len(all), mk(all), repTokenSys(all)), out, n > 0)
				c.Count("setop:" + op)
				if o.Err == nil && !o.Panicked {
					for _, it := range o.Coll {
						c.Law(it != nil, "C10/null-item", "no null items", cl.desc+"."+op, "nil item")
					}
					if op == "intersect" {
						dupFree := true
						for i := range o.Coll {
							for j := i + 1; j < len(o.Coll); j++ {
								if eqByOperator(o.Coll[i], o.Coll[j]) {
									dupFree = false
								}
							}
						}
						member := func(x any, coll system.Collection) bool {
							for _, y := range coll {
								if sameItem(x, y) || eqByOperator(x, y) {
									return true
								}
							}
							return false
						}
						sound, complete := true, true
						for _, r := range o.Coll {
							sound = sound && member(r, cl.items) && member(r, d)
						}
						for _, it := range cl.items {
							if member(it, d) {
								complete = complete && member(it, o.Coll)
							}
						}
						c.Law(dupFree && sound && complete, "C10/intersect-spec", "intersect(d) is the duplicate-free set of items of c equal to some item of d", fmt.Sprintf("%s = %v intersect %v", cl.desc, cl.items, d),
							fmt.Sprintf("%d items; duplicate-free=%v, all in both=%v, nothing missing=%v", len(o.Coll), dupFree, sound, complete))
					}
					if op == "exclude" {
						// property: exactly the items of c equal to no item of d, order and duplicates preserved
						var want system.Collection
						for _, it := range cl.items {
							if !d.Contains(it) {
								want = append(want, it)
							}
						}
						same := len(want) == len(o.Coll) || n == 0
						for i := 0; same && i < len(want) && n > 0; i++ {
							same = sameItem(want[i], o.Coll[i])
						}
						c.Law(same, "C10/exclude-spec", "exclude(d) keeps precisely the items of c equal to no item of d", fmt.Sprintf("%s exclude %d items", cl.desc, len(d)), fmt.Sprintf("got %d items, want %d", len(o.Coll), len(want)))
					}
				}
			}
		}
	}
	// extension(u) = extension.where(url = u)
	for k := 0; k < 41; k++ {
		res, _ := g.GenValid(Pick(c.rng, []string{"Patient", "Observation", "Encounter"}), c)
		urls := []string{"http://example.org/ext/a", "http://example.org/ext/b", "http://nope"}
		if k == 40 {
			res = hand
			urls = []string{"http://example.org/fhir/ext/a", "http://example.org/fhir/ext/a/", "http://example.org/fhir/ext/a/b", "HTTP://example.org/fhir/ext/a", "http://example.org/fhir/ext", "http://example.org/fhir/ext/", ""}
		}
		if res == nil {
			continue
		}
		for _, u := range urls {
			for _, base := range []string{"", ".name", ".identifier", ".descendants()", ".birthDate", ".deceased", ".active", ".name.family", ".name.given", ".telecom.value", ".meta.lastUpdated", ".effective", ".issued",
				".period.start", ".period.end", ".status", ".gender", ".id", ".value", ".identifier.value", ".extension.value"} {
				rt := string(res.ProtoReflect().Descriptor().Name())
				l := compileEval(rt+base+".extension('"+u+"')", []fhir.Resource{res})
				r := compileEval(rt+base+".extension.where(url = '"+u+"')", []fhir.Resource{res})
				if r.Err != nil || r.Panicked {
					// right-hand side undefined (non-extendable items): the left-hand side must then be empty or an error
					// (over descendants() the right-hand side legitimately fails on the narrative's xhtml, which has no extensions)
					c.Law(base == ".descendants()" || l.Err != nil || len(l.Coll) == 0, "C10/extension-where", "extension(u) = extension.where(url = u)", rt+base+" "+u, fmt.Sprintf("extension(u) finds %d items while .extension fails: %v", len(l.Coll), r.Err))
					continue
				}
				ok := l.Err == nil && len(l.Coll) == len(r.Coll)
				for i := 0; ok && i < len(l.Coll); i++ {
					// (items reached through an Any-packed contained resource are unpacked afresh by
					// every evaluation: compare those by content)
					ok = sameItem(l.Coll[i], r.Coll[i])
					if !ok {
						pa, ok1 := l.Coll[i].(proto.Message)
						pb, ok2 := r.Coll[i].(proto.Message)
						ok = ok1 && ok2 && proto.Equal(pa, pb)
					}
				}
				c.Law(ok, "C10/extension-where", "extension(u) = extension.where(url = u)", rt+base+" "+u, fmt.Sprintf("%d vs %d: %s vs %s", len(l.Coll), len(r.Coll), canonOutcome(l, nil), canonOutcome(r, nil)))
			}
		}
	}
}

// repTokenSys: like repToken, but primitives are identified by their System value (intersect
// reports primitives as System values).
func repTokenSys(base system.Collection) string {
	if len(base) == 0 {
		return "R:-"
	}
	parts := make([]string, len(base))
	for i := range base {
		for j := 0; j <= i; j++ {
			if sameItem(base[i], base[j]) || (system.IsPrimitive(base[i]) && sameSystem(base[i], base[j])) {
				parts[i] = fmt.Sprint(j)
				break
			}
		}
	}
	return "R:" + strings.Join(parts, ",")
}

func min2(a, b int) int {
	if a < b {
		return a
	}
	return b
}

func boolOutE(o Outcome) string {
	if o.Err != nil && !o.Panicked {
		return "err"
	}
	return boolOut(o)
}

var eqExpr = fhirpath.MustCompile("%a = %b")

// eqByOperator: `a = b` is true (empty and false both count as "not equal")
func eqByOperator(a, b any) bool {
	o := safeEval(func() (system.Collection, error) {
		return eqExpr.Evaluate([]fhir.Resource{}, evalopts.EnvVariable("a", a), evalopts.EnvVariable("b", b))
	})
	return o.Err == nil && !o.Panicked && len(o.Coll) == 1 && o.Coll[0] == system.Boolean(true)
}

func sameSystem(a, b any) bool {
	x, e1 := system.From(a)
	y, e2 := system.From(b)
	if e1 != nil || e2 != nil {
		return false
	}
	return fmt.Sprintf("%T|%v", x, x) == fmt.Sprintf("%T|%v", y, y)
}

func evalOnN(src string, cl struct {
	desc  string
	items system.Collection
	input []fhir.Resource
}, n int64) Outcome {
	return safeEval(func() (system.Collection, error) {
		e, err := fhirpath.Compile("%c." + src)
		if err != nil {
			return nil, fmt.Errorf("compile: %w", err)
		}
		return e.Evaluate(cl.input, evalopts.EnvVariable("c", cl.items), evalopts.EnvVariable("n", system.Integer(int32(n))))
	})
}

func c10Date(t string) system.Any {
	d, err := system.ParseDate(t)
	if err != nil {
		panic(err)
	}
	return d
}

func c10DT(t string) system.Any {
	d, err := system.ParseDateTime(t)
	if err != nil {
		panic(err)
	}
	return d
}

func c10Qty(v, u string) system.Any {
	q, err := system.ParseQuantity(v, u)
	if err != nil {
		panic(err)
	}
	return q
}
