package main

// C16 — every built-in function is callable under its specification name and arity.
// Exhaustive sweep: every name of the N1 list and of the base/experimental tables x argument
// counts 0..4 x {default, WithExperimentalFuncs}, with well-typed arguments.

import (
	"time"
	"errors"
	"fmt"
	"sort"
	"strings"

	"github.com/verily-src/fhirpath-go/fhirpath"
	"github.com/verily-src/fhirpath-go/fhirpath/compopts"
	"github.com/verily-src/fhirpath-go/fhirpath/evalopts"
	"github.com/verily-src/fhirpath-go/fhirpath/internal/funcs"
	"github.com/verily-src/fhirpath-go/fhirpath/internal/funcs/impl"
	"github.com/verily-src/fhirpath-go/fhirpath/system"
	"github.com/verily-src/fhirpath-go/internal/fhir"
)

func init() { props["C16"] = runC16 }

// callShape: a receiver and well-typed arguments per the specification signature.
type callShape struct {
	recv string
	args []string
}

var n1Shapes = map[string]callShape{
	"empty": {"Patient.name", nil}, "exists": {"Patient.name", []string{"family.exists()"}}, "all": {"Patient.name", []string{"family.exists()"}},
	"allTrue": {"(true)", nil}, "anyTrue": {"(true)", nil}, "allFalse": {"(true)", nil}, "anyFalse": {"(true)", nil},
	"subsetOf": {"Patient.name", []string{"Patient.name"}}, "supersetOf": {"Patient.name", []string{"Patient.name"}},
	"count": {"Patient.name", nil}, "distinct": {"Patient.name.given", nil}, "isDistinct": {"Patient.name.given", nil},
	"where": {"Patient.name", []string{"family.exists()"}}, "select": {"Patient.name", []string{"family"}},
	"repeat": {"Patient", []string{"name"}}, "ofType": {"Patient.name", []string{"HumanName"}},
	"single": {"Patient.name.first()", nil}, "first": {"Patient.name", nil}, "last": {"Patient.name", nil}, "tail": {"Patient.name", nil},
	"skip": {"Patient.name", []string{"1"}}, "take": {"Patient.name", []string{"1"}},
	"intersect": {"Patient.name.given", []string{"Patient.name.given"}}, "exclude": {"Patient.name.given", []string{"Patient.name.given"}},
	"union": {"Patient.name", []string{"Patient.name"}}, "combine": {"Patient.name", []string{"Patient.name"}},
	"iif": {"Patient", []string{"true", "1", "2"}},
	"toBoolean": {"'true'", nil}, "convertsToBoolean": {"'true'", nil}, "toInteger": {"'1'", nil}, "convertsToInteger": {"'1'", nil},
	"toDate": {"'2020-01-01'", nil}, "convertsToDate": {"'2020-01-01'", nil}, "toDateTime": {"'2020-01-01T10:00:00Z'", nil}, "convertsToDateTime": {"'2020-01-01T10:00:00Z'", nil},
	"toDecimal": {"'1.5'", nil}, "convertsToDecimal": {"'1.5'", nil}, "toQuantity": {"(1 'mg')", []string{"'mg'"}}, "convertsToQuantity": {"(1 'mg')", []string{"'mg'"}},
	"toString": {"1", nil}, "convertsToString": {"1", nil}, "toTime": {"'10:00:00'", nil}, "convertsToTime": {"'10:00:00'", nil},
	"indexOf": {"'abc'", []string{"'b'"}}, "substring": {"'abc'", []string{"1", "1"}}, "startsWith": {"'abc'", []string{"'a'"}}, "endsWith": {"'abc'", []string{"'c'"}},
	"contains": {"'abc'", []string{"'b'"}}, "upper": {"'abc'", nil}, "lower": {"'abc'", nil}, "replace": {"'abc'", []string{"'b'", "'x'"}},
	"matches": {"'abc'", []string{"'a.c'"}}, "replaceMatches": {"'abc'", []string{"'b'", "'x'"}}, "length": {"'abc'", nil}, "toChars": {"'abc'", nil},
	"abs": {"(-2)", nil}, "ceiling": {"1.5", nil}, "exp": {"1", nil}, "floor": {"1.5", nil}, "ln": {"2", nil}, "log": {"8", []string{"2"}}, "power": {"2", []string{"3"}},
	"round": {"1.55", []string{"1"}}, "sqrt": {"4", nil}, "truncate": {"1.5", nil},
	"children": {"Patient", nil}, "descendants": {"Patient", nil},
	"trace": {"Patient.name", []string{"'x'", "family"}}, "now": {"Patient", nil}, "timeOfDay": {"Patient", nil}, "today": {"Patient", nil},
	"not": {"(true)", nil}, "extension": {"Patient", []string{"'http://example.org/e'"}},
	"join": {"Patient.name.given", []string{"','"}},
}

// argument counts per specification (N1 §5–6, FHIR extension(), and the experimental join)
var specArities = map[string][]int{
	"empty": {0}, "exists": {0, 1}, "all": {1}, "allTrue": {0}, "anyTrue": {0}, "allFalse": {0}, "anyFalse": {0}, "subsetOf": {1}, "supersetOf": {1}, "count": {0}, "distinct": {0}, "isDistinct": {0},
	"where": {1}, "select": {1}, "repeat": {1}, "ofType": {1}, "single": {0}, "first": {0}, "last": {0}, "tail": {0}, "skip": {1}, "take": {1}, "intersect": {1}, "exclude": {1}, "union": {1}, "combine": {1},
	"iif": {2, 3}, "toBoolean": {0}, "convertsToBoolean": {0}, "toInteger": {0}, "convertsToInteger": {0}, "toDate": {0}, "convertsToDate": {0}, "toDateTime": {0}, "convertsToDateTime": {0},
	"toDecimal": {0}, "convertsToDecimal": {0}, "toQuantity": {0, 1}, "convertsToQuantity": {0, 1}, "toString": {0}, "convertsToString": {0}, "toTime": {0}, "convertsToTime": {0},
	"indexOf": {1}, "substring": {1, 2}, "startsWith": {1}, "endsWith": {1}, "contains": {1}, "upper": {0}, "lower": {0}, "replace": {2}, "matches": {1}, "replaceMatches": {2}, "length": {0}, "toChars": {0},
	"abs": {0}, "ceiling": {0}, "exp": {0}, "floor": {0}, "ln": {0}, "log": {1}, "power": {1}, "round": {0, 1}, "sqrt": {0}, "truncate": {0}, "children": {0}, "descendants": {0},
	"trace": {1, 2}, "now": {0}, "timeOfDay": {0}, "today": {0}, "not": {0}, "extension": {1}, "join": {0, 1},
}

// optionalArgWitnesses: for every function with an optional argument, a call in which that argument decides
// the result (so an implementation that drops it is told apart from one that uses it).
var optionalArgWitnesses = []struct{ with, without, wantWith, wantWithout string }{
	{"Patient.name.exists(false)", "Patient.name.exists()", "ok:[B:false]", "ok:[B:true]"},
	{"iif(false, 1, 2)", "iif(false, 1)", "ok:[I:2]", "ok:[]"},
	{"'2 days'.toQuantity('lightyears')", "'2 days'.toQuantity()", "", "ok:[Q:x322064617973]"},
	{"'2 days'.convertsToQuantity('lightyears')", "'2 days'.convertsToQuantity()", "ok:[B:false]", "ok:[B:true]"},
	{"5.convertsToQuantity(1)", "5.convertsToQuantity()", "ok:[B:false]", "ok:[B:true]"},
	{"'abc'.substring(1, 1)", "'abc'.substring(1)", "ok:[S:x62]", "ok:[S:x6263]"},
	{"1.2345.round(2)", "1.2345.round()", "ok:[D:123e-2]", "ok:[D:1e0]"},
	{"Patient.name.given.take(2).join(',')", "Patient.name.given.take(2).join()", "ok:[S:x782c79]", "ok:[S:x7879]"},
}

func runC16Witnesses(c *Ctx, input []fhir.Resource) {
	for _, w := range optionalArgWitnesses {
		for _, q := range []struct{ src, want string }{{w.with, w.wantWith}, {w.without, w.wantWithout}} {
			e, err := fhirpath.Compile(q.src, compopts.WithExperimentalFuncs())
			if err != nil {
				c.Law(false, "C16/spec-arity-rejected", "every function is reachable with each argument count its specification allows", q.src, err.Error())
				continue
			}
			o := safeEval(func() (system.Collection, error) { return e.Evaluate(input) })
			got := canonOutcome(o, nil)
			c.Observe("optional-argument witness "+q.src, true)
			if q.want == "" {
				c.Count("witness-observed:" + got)
				continue
			}
			c.Law(got == q.want, "C16/argument-ignored", "an accepted argument is handed to the function's own implementation and evaluated", q.src, got+" want "+q.want)
		}
	}
}

// runC16Custom: a function added with an option takes exactly as many arguments as its Go signature has
// parameters after the input collection.
// runC16Arguments: an argument that does not compile makes the call not compile, at every argument position; and a
// function gives the same answer on an empty receiver however that empty collection came about.
func runC16Arguments(c *Ctx, input []fhir.Resource) {
	table := funcs.AddExperimentalFuncs(funcs.Clone())
	var names []string
	for n := range table {
		names = append(names, n)
	}
	sort.Strings(names)
	for _, name := range names {
		f := table[name]
		shape, ok := n1Shapes[name]
		if !ok {
			shape = callShape{"Patient.name", nil}
		}
		for n := f.MinArity; n <= f.MaxArity; n++ {
			args := make([]string, n)
			for i := range args {
				if i < len(shape.args) {
					args[i] = shape.args[i]
				} else {
					args[i] = "1"
				}
			}
			for pos := 0; pos < n; pos++ {
				for _, bad := range []string{"bogus()", "count(1)", "name.single(1)", "nosuch(1, 2)", "1.toString(2)"} {
					a2 := append([]string{}, args...)
					a2[pos] = bad
					src := shape.recv + "." + name + "(" + strings.Join(a2, ", ") + ")"
					_, err := fhirpath.Compile(src, compopts.WithExperimentalFuncs())
					c.Observe("bad argument "+src, true)
					c.Law(err != nil, "C16/bad-argument-accepted", "a call whose argument does not compile (unknown function, wrong argument count) does not compile, whatever the argument's position", src, "compiled")
				}
			}
			// empty receivers produced in different ways are the same receiver
			call := "." + name + "(" + strings.Join(args, ", ") + ")"
			ref := ""
			for ri, recv := range []string{"{}", "Patient.extension('http://none')", "(1).exclude(1)", "{}.distinct()", "Patient.name.where(false)", "Patient.nosuchElementHere", "Patient.name.skip(9)", "Patient.name.take(1).tail()", "(1).intersect(2)", "Patient.deceased", "%ve"} {
				src := recv + call
				if recv == "Patient.nosuchElementHere" {
					src = "Patient.photo" + call
				}
				e, err := fhirpath.Compile(src, compopts.WithExperimentalFuncs())
				if err != nil {
					continue
				}
				o := safeEval(func() (system.Collection, error) { return e.Evaluate(input, evalopts.EnvVariable("ve", system.Collection{}), evalopts.OverrideTime(time.Date(2024, 2, 29, 12, 0, 0, 0, time.UTC)))
				})
				got := canonOutcome(o, nil)
				if o.Err != nil {
					got = "err:" + errClass(o.Err)
				}
				if ri == 0 {
					ref = got
					continue
				}
				c.Observe("empty receiver "+src, true)
				c.Law(got == ref, "C16/empty-receiver-route", "a function gives one answer on an empty receiver, however the empty collection was produced", src, got+" vs {}"+call+" = "+ref)
			}
		}
	}
}

func runC16Custom(c *Ctx, input []fhir.Resource) {
	fns := map[string]any{
		"zero": func(in system.Collection) (system.Collection, error) { return in, nil },
		"one":  func(in system.Collection, a system.Collection) (system.Collection, error) { return a, nil },
		"two":  func(in system.Collection, a, b system.Collection) (system.Collection, error) { return b, nil },
		"three": func(in system.Collection, a, b, d system.Collection) (system.Collection, error) { return d, nil },
	}
	arity := map[string]int{"zero": 0, "one": 1, "two": 2, "three": 3}
	for _, name := range []string{"zero", "one", "two", "three"} {
		for n := 0; n <= 5; n++ {
			args := make([]string, n)
			for i := range args {
				args[i] = fmt.Sprint(i + 1)
			}
			src := "'x'." + name + "(" + strings.Join(args, ", ") + ")"
			e, err := fhirpath.Compile(src, fhirpath.WithFunction(name, fns[name]))
			c.Observe("custom "+src, true)
			if n == arity[name] {
				c.Law(err == nil, "C16/spec-arity-rejected", "every function is reachable with each argument count its specification allows", src+" (custom function of "+fmt.Sprint(arity[name])+" arguments)", fmt.Sprint(err))
			} else {
				c.Law(err != nil, "C16/extra-arity-accepted", "Compile accepts no argument count the function does not take", src+" (custom function of "+fmt.Sprint(arity[name])+" arguments)", "accepted")
			}
			if err == nil {
				o := safeEval(func() (system.Collection, error) { return e.Evaluate(input) })
				c.Law(!o.Panicked && !(o.Err != nil && (errors.Is(o.Err, impl.ErrWrongArity) || strings.Contains(o.Err.Error(), "arity"))), "C16/arity-complaint-after-accept", "an accepted call never fails with an arity complaint", src, fmt.Sprint(o.Err, o.PanicMsg))
			}
		}
	}
}

func runC16(c *Ctx) {
	// the two tables as the package defines them, read before anything is compiled
	pristine := funcs.Clone()
	pristineExp := funcs.AddExperimentalFuncs(funcs.Clone())
	c.meta.Rule = "exhaustive: (N1 names ∪ base table ∪ experimental table ∪ 3 unknown names) x argument counts 0..4 x {default, WithExperimentalFuncs}; receiver and arguments well-typed per specification signature (extra arguments are the literal 1); non-trivial = the name exists in the table used; distinct by (options, name, count)"
	c.meta.Exhaustive = true
	input := []fhir.Resource{mustResource(`{"resourceType":"Patient","id":"p1","active":true,"name":[{"family":"A","given":["x","y","x"]},{"family":"B"}],
	  "extension":[{"url":"http://example.org/e","valueString":"v"}]}`)}
	runC16Witnesses(c, input)
	runC16Custom(c, input)
	runC16Arguments(c, input)
	names := map[string]bool{"nosuch": true, "Where": true, "toquantity": true}
	base := funcs.Clone()
	for k := range base {
		names[k] = true
	}
	for k := range funcs.AddExperimentalFuncs(funcs.Clone()) {
		names[k] = true
	}
	for k := range n1Shapes {
		names[k] = true
	}
	sorted := []string{}
	for k := range names {
		sorted = append(sorted, k)
	}
	sort.Strings(sorted)
	// the two tables as they are before anything is compiled with options; the default pass is run again after the
	// experimental one (what one Compile enables must not be there for the next)
	for pass, exp := range []bool{false, true, false} {
		var copts []fhirpath.CompileOption
		tag := "0"
		table := pristine
		if exp {
			copts = append(copts, compopts.WithExperimentalFuncs())
			tag = "1"
			table = pristineExp
		}
		_ = pass
		for _, name := range sorted {
			shape, ok := n1Shapes[name]
			if !ok {
				shape = callShape{"Patient.name", nil}
			}
			for n := 0; n <= 4; n++ {
				args := []string{}
				for i := 0; i < n; i++ {
					if i < len(shape.args) {
						args = append(args, shape.args[i])
					} else {
						args = append(args, "1")
					}
				}
				src := shape.recv + "." + name + "(" + strings.Join(args, ", ") + ")"
				var e *fhirpath.Expression
				var cerr error
				_, pan, _ := safeErr(func() error {
					e, cerr = fhirpath.Compile(src, copts...)
					return nil
				})
				out := ""
				switch {
				case pan:
					out = "panic"
				case cerr == nil:
					fe := lastFunction(exprTree(e))
					impln := "?"
					if fe != nil {
						impln = funcName(fe.Fn)
					}
					if impln == "funcs.unimplemented" {
						impln = "unimplemented"
					}
					out = "accepted:" + impln
				case errors.Is(cerr, impl.ErrWrongArity):
					out = "arity"
				case strings.Contains(cerr.Error(), "unresolved function") || strings.Contains(cerr.Error(), "unknown function") || strings.Contains(cerr.Error(), "function"):
					out = "unresolved"
				default:
					out = "compile-other"
					c.meta.Notes = append(c.meta.Notes, fmt.Sprintf("%s: %v", src, cerr))
				}
				_, inTable := table[name]
				c.Emit(fmt.Sprintf("fcall %s %s %d", tag, name, n), out, inTable)
				if !inTable {
					c.Law(out == "unresolved", "C16/unknown-accepted", "a name that is not a function of the table in force is rejected by Compile", src+" (experimental functions "+tag+fmt.Sprintf(", pass %d", pass)+")", out)
				}
				// specification arities (N1 and the experimental functions): a call with an allowed
				// argument count of a function that is in the table is accepted
				if ar, ok := specArities[name]; ok && inTable {
					allowed := false
					for _, k := range ar {
						allowed = allowed || k == n
					}
					c.Law(!allowed || strings.HasPrefix(out, "accepted:"), "C16/spec-arity-rejected", "every function is reachable with each argument count its specification allows", src+" (experimental functions "+tag+")", out)
					c.Law(allowed || !strings.HasPrefix(out, "accepted:"), "C16/extra-arity-accepted", "Compile accepts no argument count the specification does not allow", src+" (experimental functions "+tag+")", out)
				}
				c.Count("outcome:" + strings.SplitN(out, ":", 2)[0])
				// whether a call is accepted depends on the NUMBER of arguments, not on what they are: the null literal {} is
				// an argument like any other
				if n >= 1 {
					for _, variant := range [][]string{append(append([]string{}, args[:n-1]...), "{}"), repeatStr("{}", n), append([]string{"{}"}, args[1:]...)} {
						vsrc := shape.recv + "." + name + "(" + strings.Join(variant, ", ") + ")"
						_, verr := fhirpath.Compile(vsrc, copts...)
						vout := "accepted"
						if verr != nil {
							vout = "rejected"
						}
						base := "rejected"
						if cerr == nil && !pan {
							base = "accepted"
						}
						c.Law(vout == base, "C16/arity-depends-on-argument", "Compile accepts or rejects a call by its argument count, whatever the arguments are", vsrc+" vs "+src+" (experimental functions "+tag+")", vout+" vs "+base)
					}
				}
				if cerr != nil || pan {
					continue
				}
				// an accepted call is accepted wherever an expression may stand (right-hand operand, function
				// argument, parentheses, indexer), under the same options
				for _, wrap := range []string{"(1 = 1) and (%s).exists()", "{} = %s", "iif(true, %s)", "(%s)", "Patient.name.where((%s).exists())", "1 + (%s).count()", "Patient.name[(%s).count()]"} {
					wsrc := fmt.Sprintf(wrap, src)
					_, werr := fhirpath.Compile(wsrc, copts...)
					c.Law(werr == nil, "C16/position-dependent", "a call Compile accepts is accepted in every expression position", wsrc+" (experimental functions "+tag+")", fmt.Sprint(werr))
				}
				// accepted: evaluation must never fail with an arity complaint
				o := safeEval(func() (system.Collection, error) { return e.Evaluate(input) })
				c.Law(!(o.Err != nil && errors.Is(o.Err, impl.ErrWrongArity)), "C16/arity-complaint-after-accept",
					"an accepted call never fails with an arity complaint", src, fmt.Sprint(o.Err))
				// ... whatever the receiver holds (several items, none) and whatever the arguments evaluate to (nothing,
				// several items): how many ARGUMENTS were written is all an arity complaint may be about
				{
					alts := []string{"Patient.name.given." + name + "(" + strings.Join(args, ", ") + ")", "%v." + name + "(" + strings.Join(args, ", ") + ")"}
					if n >= 1 {
						alts = append(alts, shape.recv+"."+name+"("+strings.Join(repeatStr("{}", n), ", ")+")", shape.recv+"."+name+"("+strings.Join(repeatStr("Patient.name.given", n), ", ")+")",
							"'abc'."+name+"("+strings.Join(repeatStr("{}", n), ", ")+")", "'abc'."+name+"("+strings.Join(repeatStr("('a' | 'b')", n), ", ")+")")
					}
					// ... and whatever TYPE the single receiver has (an implementation that handles one receiver type by
					// calling another function's implementation with its own arguments hands on that function's arity check)
					for _, recv := range []string{"true", "false", "(1 = 1)", "1", "0", "1.5", "'1'", "'true'", "@2020-01-01", "@2020-01-01T10:00:00Z", "@T10:00", "(1 'mg')", "(1 year)", "Patient.active", "Patient.birthDate", "Patient.name.first()"} {
						alts = append(alts, recv+"."+name+"("+strings.Join(args, ", ")+")")
					}
					for _, asrc := range alts {
						ae, aerr := fhirpath.Compile(asrc, copts...)
						if aerr != nil {
							continue
						}
						ao := safeEval(func() (system.Collection, error) {
							return ae.Evaluate(input, envVar("v", system.Collection{system.String("a"), system.String("b")}))
						})
						c.Law(!(ao.Err != nil && errors.Is(ao.Err, impl.ErrWrongArity)), "C16/arity-complaint-after-accept",
							"an accepted call never fails with an arity complaint", asrc, fmt.Sprint(ao.Err))
					}
				}
				if strings.HasSuffix(out, ":unimplemented") {
					// also on an empty input collection: the explicit error, not a silent empty result
					esrc := "{}." + name + "(" + strings.Join(args, ", ") + ")"
					if ee, eerr := fhirpath.Compile(esrc, copts...); eerr == nil {
						eo := safeEval(func() (system.Collection, error) { return ee.Evaluate(input) })
						c.Law(eo.Err != nil && strings.Contains(eo.Err.Error(), "not yet implemented"), "C16/unimplemented-not-explicit",
							"a not-implemented function fails with the explicit not-implemented error", esrc, fmt.Sprintf("%v / %v", eo.Coll, eo.Err))
					}
					c.Law(o.Err != nil && strings.Contains(o.Err.Error(), "not yet implemented"), "C16/unimplemented-not-explicit",
						"a not-implemented function fails with the explicit not-implemented error", src, fmt.Sprintf("%v / %v", o.Coll, o.Err))
				}
				if o.Panicked {
					c.Count("eval-panic")
				}
				// every accepted argument reaches the function: with an argument that cannot be evaluated (an
				// undefined variable) the call fails -- for the functions that evaluate their arguments eagerly
				if o.Err == nil && !o.Panicked && n >= 1 && !lazyArgs[name] {
					for i := 0; i < n; i++ {
						a2 := append([]string{}, args...)
						a2[i] = "%undefinedVariable"
						usrc := shape.recv + "." + name + "(" + strings.Join(a2, ", ") + ")"
						ue, uerr := fhirpath.Compile(usrc, copts...)
						if uerr != nil {
							continue
						}
						uo := safeEval(func() (system.Collection, error) { return ue.Evaluate(input) })
						c.Law(uo.Err != nil || uo.Panicked, "C16/argument-ignored", "an accepted argument is handed to the function's own implementation and evaluated", usrc+" (experimental functions "+tag+")", canonOutcome(uo, nil))
						c.Count("argument-used")
					}
				}
			}
		}
	}
}

// functions whose arguments are criteria / projections / branches evaluated per item or on demand
// (iif evaluates only the branch it takes; convertsToQuantity reports a failing conversion as false)
var lazyArgs = map[string]bool{"iif": true, "convertsToQuantity": true}

func repeatStr(x string, n int) []string {
	out := make([]string, n)
	for i := range out {
		out[i] = x
	}
	return out
}
