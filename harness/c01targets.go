package main

// Targeted totality probes: non-finite intermediate results, huge scales, partial-precision
// dates, out-of-range positions, malformed sources, unimplemented constructs.
var c01Targeted = []string{
	"2.power(2147483647)", "(-1).power(2147483647)", "2.power(31)", "2.power(30)", "2.power(-2147483648)", "0.power(0)", "(-2).power(31)", "46341.power(2)",
	"1000.exp()", "1000000.exp()", "0.ln()", "(-1).ln()", "(-1).sqrt()", "1.5.round(100)", "1.5.round(-1)", "1.5.round(2147483647)", "2.power(1000)", "2.power(0.5)", "(-8).power(0.3333)", "0.power(-1)", "10.power(-400)",
	"0.log(0)", "1.log(1)", "8.log(-2)", "2147483647.abs()", "(-2147483648).abs()", "1.truncate()", "99999999999999999999.9.truncate()", "99999999999999999999.9.floor()", "99999999999999999999.9.ceiling()",
	"1 / 0.0000000000000000000000001", "99999999999999999999 * 99999999999999999999", "@2020T.toDate()", "@2020-02T + 1 day", "@2020T - 100000 years", "@9999-12-31 + 1 year", "@0001-01-01 - 1 year", "@T23:59:59.999 + 1 millisecond",
	"'abc'.substring(-1)", "'abc'.substring(5)", "'abc'.substring(1, -5)", "'abc'.substring(2147483647, 2147483647)", "''.toChars()", "'a'.replace('', 'x')", "'a'.matches('(')", "'a'.replaceMatches('(', 'x')", "'a'.indexOf('')",
	"Patient.name.skip(-5)", "Patient.name.take(-1)", "Patient.name.skip(2147483647)", "Patient.name[2147483647]", "Patient.name[-1]", "Patient.name['a']", "Patient.name[1.5]", "Patient.name[{}]",
	"((((((((((((((((((((1))))))))))))))))))))", "-+-+-+-+-+-+-+-+1", "1 1", "", " ", "\n", "''''", `'\\'`, `'\u12'`, "`", "@", "@T", "%", "%''", "$", "1.", ".1", "1..2", "Patient..name", "Patient.name.", "iif()", "iif(true)", "iif(1, 2, 3, 4)",
	"1 ~ 1", "1 !~ 1", "(1 | 2).count()", "1 in (1 | 2)", "Patient.name.all()", "Patient.name.all(1)", "Patient.name.where()", "Patient.name.where(1)", "Patient.name.select()", "Patient.name.repeat(given)", "Patient.name.ofType(HumanName)", "Patient.name.aggregate($total + 1, 0)",
	"now() - now()", "today() + 1", "timeOfDay() + 1 day", "5 'mg' + 3", "5 'mg' * 2", "5 'mg' / 0", "5 days + @2020", "true + 1", "{} + {}", "Patient.name + Patient.name", "Patient.name.given + 1", "%e + 1", "%e.given", "%v.family",
	"Patient.birthDate + 1000000000 years", "@2020-01-01 + 9223372036854775807 days", "@2020-01-01T00:00:00Z + 9223372036854775807 hours", "@T00:00 + 9223372036854775807 hours", "1.0e400", "'x'.toQuantity('days')", "'5 days'.toQuantity('years')", "5.toQuantity('mg')",
	"``", "Patient.``", "Patient.``.x", "Patient.where(`` = 1)", "%``", "` `", "Patient.` `", "```", "%''", "%' '", "``()", "Patient.``()", "`a`.``",
	"Patient.extension.value.value", "Patient.extension.value.unit", "Patient.extension.value > 1 'mg'", "Patient.extension.value + 1 'mg'", "Patient.extension.value.toString()",
}
