//go:build verif

package main

import (
	"fmt"
	"sort"
	"strings"

	cpb "github.com/google/fhir/go/proto/google/fhir/proto/r4/core/codes_go_proto"
	dtpb "github.com/google/fhir/go/proto/google/fhir/proto/r4/core/datatypes_go_proto"
	opb "github.com/google/fhir/go/proto/google/fhir/proto/r4/core/resources/observation_go_proto"
	ppb "github.com/google/fhir/go/proto/google/fhir/proto/r4/core/resources/patient_go_proto"
	"github.com/verily-src/fhirpath-go/fhirpath"
	"github.com/verily-src/fhirpath-go/fhirpath/internal/funcs"
	"github.com/verily-src/fhirpath-go/fhirpath/system"
	"github.com/verily-src/fhirpath-go/internal/fhir"
)

// illFormed returns messages that are legal protos but whose primitive elements have no System value (or
// an unusual one): a quantity without a value, decimals whose text is not a number, temporal elements
// whose time zone cannot be read or whose precision is unset, enum codes outside the value set (proto3
// enums are open).  Each comes with the paths of the elements concerned.
func illFormed() (map[string]func() fhir.Resource, map[string][]string) {
	res := map[string]func() fhir.Resource{
		"Observation(quantity without value)": func() fhir.Resource {
			return &opb.Observation{Id: &dtpb.Id{Value: "o"},
				Value: &opb.Observation_ValueX{Choice: &opb.Observation_ValueX_Quantity{Quantity: &dtpb.Quantity{Unit: fhir.String("mg"), Code: &dtpb.Code{Value: "mg"}}}},
				ReferenceRange: []*opb.Observation_ReferenceRange{{Low: &dtpb.SimpleQuantity{Value: &dtpb.Decimal{Value: ""}, Unit: fhir.String("mg")},
					High: &dtpb.SimpleQuantity{Value: &dtpb.Decimal{Value: "abc"}}}},
				Status: &opb.Observation_StatusCode{Value: cpb.ObservationStatusCode_Value(77)},
				Effective: &opb.Observation_EffectiveX{Choice: &opb.Observation_EffectiveX_DateTime{DateTime: &dtpb.DateTime{ValueUs: 1, Timezone: "nowhere/none", Precision: dtpb.DateTime_SECOND}}},
				Issued:    &dtpb.Instant{ValueUs: 1, Timezone: "+99:99", Precision: dtpb.Instant_SECOND},
			}
		},
		"Patient(codes and dates out of range)": func() fhir.Resource {
			return &ppb.Patient{Id: &dtpb.Id{Value: "p"},
				Gender:    &ppb.Patient_GenderCode{Value: cpb.AdministrativeGenderCode_Value(99)},
				BirthDate: &dtpb.Date{ValueUs: 1, Timezone: "x", Precision: dtpb.Date_Precision(9)},
				Name:      []*dtpb.HumanName{{Use: &dtpb.HumanName_UseCode{Value: cpb.NameUseCode_Value(-3)}, Family: fhir.String("F")}},
				Telecom:   []*dtpb.ContactPoint{{Rank: &dtpb.PositiveInt{Value: 0}, System: &dtpb.ContactPoint_SystemCode{Value: cpb.ContactPointSystemCode_Value(1000)}}},
				Deceased:  &ppb.Patient_DeceasedX{Choice: &ppb.Patient_DeceasedX_DateTime{DateTime: &dtpb.DateTime{ValueUs: -1 << 62, Timezone: "UTC", Precision: dtpb.DateTime_Precision(42)}}},
				Extension: []*dtpb.Extension{
					{Url: fhir.URI("u1"), Value: &dtpb.Extension_ValueX{Choice: &dtpb.Extension_ValueX_Decimal{Decimal: &dtpb.Decimal{Value: "1e"}}}},
					{Url: fhir.URI("u2"), Value: &dtpb.Extension_ValueX{Choice: &dtpb.Extension_ValueX_Time{Time: &dtpb.Time{ValueUs: -5, Precision: dtpb.Time_Precision(7)}}}},
					{Url: fhir.URI("u3"), Value: &dtpb.Extension_ValueX{Choice: &dtpb.Extension_ValueX_Quantity{Quantity: &dtpb.Quantity{Value: &dtpb.Decimal{Value: "--1"}}}}},
					{Url: fhir.URI("u4"), Value: &dtpb.Extension_ValueX{Choice: &dtpb.Extension_ValueX_Age{Age: &dtpb.Age{}}}},
				},
			}
		},
	}
	paths := map[string][]string{
		"Observation(quantity without value)": {"Observation.value", "Observation.referenceRange.low", "Observation.referenceRange.low.value", "Observation.referenceRange.high",
			"Observation.referenceRange.high.value", "Observation.status", "Observation.effective", "Observation.issued"},
		"Patient(codes and dates out of range)": {"Patient.gender", "Patient.birthDate", "Patient.name.use", "Patient.telecom.rank", "Patient.telecom.system", "Patient.deceased",
			"Patient.extension[0].value", "Patient.extension[1].value", "Patient.extension[2].value", "Patient.extension[3].value", "Patient.extension.value"},
	}
	return res, paths
}

// runC01Ill evaluates, for every ill-formed element, every operator against it (both sides), every
// function of the table that takes no or one argument, and the typed evaluation helpers.
func runC01Ill(c *Ctx, run func(class, src string, in []fhir.Resource)) {
	// (nil entries inside the input slice and typed-nil resources are caller errors, outside the property)
	for _, src := range []string{"Patient.id", "true", "%context.count()", "count()", "id", "descendants().count()", "$this", "%resource", "exists()", "first().id"} {
		run("nil-input-slice", src, nil)
		run("empty-input-slice", src, []fhir.Resource{})
	}
	// strings with unusual white space handed to the conversions
	{
		in := []fhir.Resource{&ppb.Patient{Id: &dtpb.Id{Value: "p"}}}
		ws := []string{"\t", "\n", "\r", "\f", " ", "\t ", " \t", "\n ", "\r\n", "  ", "\u00A0", "\u2003"}
		for _, a := range ws {
			for _, b := range ws {
				for _, body := range []string{"5%smg", "5%s'mg'", "12.5%skg", "+5%sdays", "5%s", "%s5 mg", "5 mg%s", "1%syear", "true%s", "%strue", "2020-01-01%s", "10:00%s", "1%s.5", "-%s5"} {
					s := "'" + strings.ReplaceAll(fmt.Sprintf(body, a+b), "'", "\\'") + "'"
					for _, fn := range []string{"toQuantity()", "convertsToQuantity()", "toInteger()", "toDecimal()", "toBoolean()", "toDate()", "toDateTime()", "toTime()", "convertsToDecimal()", "convertsToDate()"} {
						run("ws-string", s+"."+fn, in)
					}
				}
			}
		}
	}
	// custom functions with typed parameters x arguments of every System type (an argument of another type is an
	// error, never a crash)
	{
		in := []fhir.Resource{&ppb.Patient{Id: &dtpb.Id{Value: "p"}}}
		fns := map[string]any{
			"pStr":  func(c system.Collection, s system.String) (system.Collection, error) { return system.Collection{s}, nil },
			"pInt":  func(c system.Collection, i system.Integer) (system.Collection, error) { return system.Collection{i}, nil },
			"pBool": func(c system.Collection, b system.Boolean) (system.Collection, error) { return system.Collection{b}, nil },
			"pDec":  func(c system.Collection, d system.Decimal) (system.Collection, error) { return system.Collection{d}, nil },
			"pDate": func(c system.Collection, d system.Date) (system.Collection, error) { return system.Collection{d}, nil },
			"pQty":  func(c system.Collection, q system.Quantity) (system.Collection, error) { return system.Collection{q}, nil },
			"pAny":  func(c system.Collection, a system.Any) (system.Collection, error) { return system.Collection{a}, nil },
			"pColl": func(c system.Collection, a system.Collection) (system.Collection, error) { return a, nil },
			"pTwo":  func(c system.Collection, s system.String, i system.Integer) (system.Collection, error) { return system.Collection{s, i}, nil },
		}
		var fnames []string
		for n := range fns {
			fnames = append(fnames, n)
		}
		sort.Strings(fnames)
		args := []string{"1", "'s'", "true", "1.5", "@2020-01-01", "@2020-01-01T10:00:00Z", "@T10:00", "1 'mg'", "{}", "Patient.id", "Patient", "(1 | 2)", "%nope", "2147483647", "-1", "''"}
		for _, fn := range fnames {
			for _, a := range args {
				for _, b := range []string{"", ", 1", ", 's'"} {
					if (b != "") != (fn == "pTwo") {
						continue
					}
					src := "Patient." + fn + "(" + a + b + ")"
					var e *fhirpath.Expression
					var cerr error
					_, pan, msg := safeErr(func() error { e, cerr = fhirpath.Compile(src, fhirpath.WithFunction(fn, fns[fn])); return nil })
					c.Observe("custom-typed "+src, false)
					c.Law(!pan, "C01/compile-panic", "Compile returns an expression or an error", src, msg)
					if pan || cerr != nil {
						continue
					}
					o := safeEval(func() (system.Collection, error) { return e.Evaluate(in) })
					c.Law(!o.Panicked, "C01/evaluate-panic", "Evaluate returns a collection or an error", src+" (custom function with a typed parameter)", o.PanicMsg)
					c.Law(!o.TimedOut, "C01/evaluate-hang", "Evaluate terminates", src, "no result within the budget")
				}
			}
		}
	}
	res, paths := illFormed()
	var names []string
	for n := range res {
		names = append(names, n)
	}
	sort.Strings(names)
	table := funcs.Clone()
	var fns []string
	for n := range table {
		fns = append(fns, n)
	}
	sort.Strings(fns)
	others := []string{"'male'", "1", "1.5", "5 'mg'", "@2020-01-01", "@2020-01-01T10:00:00Z", "@T10:00", "true", "{}"}
	ops := []string{"=", "!=", "~", "!~", "<", "<=", ">", ">=", "|", "in", "contains", "&", "+", "-", "*", "/", "div", "mod", "and", "or", "xor", "implies"}
	for _, n := range names {
		for _, p := range paths[n] {
			in := func() []fhir.Resource { return []fhir.Resource{res[n]()} }
			run("ill", p, in())
			run("ill", p+" = "+p, in())
			run("ill", p+" ~ "+p, in())
			run("ill", "("+p+" | "+p+").count()", in())
			run("ill", p+".combine("+p+").distinct().count()", in())
			run("ill", p+".combine("+p+").isDistinct()", in())
			run("ill", p+".intersect("+p+")", in())
			run("ill", p+".exclude("+p+")", in())
			run("ill", p+".subsetOf("+p+")", in())
			run("ill", p+".where($this = $this)", in())
			run("ill", p+".select($this & 'x')", in())
			run("ill", p+".all($this != 'x')", in())
			run("ill", "iif("+p+" = 'male', 1, 2)", in())
			run("ill", "-"+p, in())
			run("ill", p+"[0]", in())
			for _, o := range others {
				for _, op := range ops {
					run("ill", p+" "+op+" "+o, in())
					run("ill", o+" "+op+" "+p, in())
				}
			}
			for _, ty := range []string{"System.String", "Quantity", "System.Quantity", "code", "FHIR.decimal", "System.DateTime", "dateTime", "Element"} {
				run("ill", p+" is "+ty, in())
				run("ill", p+" as "+ty, in())
				run("ill", p+".ofType("+ty+")", in())
			}
			for _, fn := range fns {
				f := table[fn]
				if f.MinArity == 0 {
					run("ill", p+"."+fn+"()", in())
				}
				if f.MinArity <= 1 && f.MaxArity >= 1 {
					for _, a := range []string{"'m'", "1", "$this", p} {
						run("ill", p+"."+fn+"("+a+")", in())
					}
				}
			}
			// the typed helpers
			for _, h := range []string{"string", "bool", "int32"} {
				src := p
				_, pan, msg := safeErr(func() error {
					e, err := fhirpath.Compile(src)
					if err != nil {
						return err
					}
					switch h {
					case "string":
						_, _ = e.EvaluateAsString(in())
					case "bool":
						_, _ = e.EvaluateAsBool(in())
					case "int32":
						_, _ = e.EvaluateAsInt32(in())
					}
					return nil
				})
				c.Observe("ill-helper "+h+" "+src, false)
				c.Law(!pan, "C01/evaluate-panic", "Evaluate returns a collection or an error", fmt.Sprintf("EvaluateAs(%s) %s on %s", h, src, n), msg)
			}
			// the element as an environment variable and as the value compared through the System API
			coll, err := func() (system.Collection, error) {
				e, err := fhirpath.Compile(p)
				if err != nil {
					return nil, err
				}
				return e.Evaluate(in())
			}()
			if err == nil && len(coll) > 0 {
				_, pan, msg := safeErr(func() error {
					_, _ = coll.TryEqual(coll)
					_, _ = coll.TryEqual(system.Collection{system.String("male")})
					_, _ = system.Collection{system.String("male")}.TryEqual(coll)
					_ = coll.Contains(coll[0])
					for _, it := range coll {
						if v, err := system.From(it); err == nil && v != nil {
							_, _ = system.TryEqual(v, v)
						}
					}
					return nil
				})
				c.Law(!pan, "C01/evaluate-panic", "the System comparison API returns a result or an error", "Collection.TryEqual / Contains on "+p+" of "+n, msg)
			}
		}
	}
}
