package main

// C07 — empty propagation.  Exhaustive: every binary/unary operator x each operand position and
// every name of the function table (base and experimental) x every accepted arity x every
// argument position, with the empty collection supplied as `{}`, as an absent element path and
// as an empty environment variable.

import (
	"fmt"
	"sort"
	"strings"

	"github.com/verily-src/fhirpath-go/fhirpath"
	"github.com/verily-src/fhirpath-go/fhirpath/compopts"
	"github.com/verily-src/fhirpath-go/fhirpath/evalopts"
	"github.com/verily-src/fhirpath-go/fhirpath/internal/funcs"
	"github.com/verily-src/fhirpath-go/fhirpath/system"
	"github.com/verily-src/fhirpath-go/internal/fhir"
)

func init() { props["C07"] = runC07 }

func runC07(c *Ctx) {
	c.meta.Rule = "exhaustive: {+ - * / div mod, < <= > >=, = !=, is, as, unary -, indexer, &} x each operand position x 3 empty forms ({} literal, absent path, empty variable) x 6 non-empty partner operands; every table name (base + experimental) x every accepted arity x empty receiver in 3 forms; and x every argument position with an empty argument on a well-typed non-empty receiver; non-trivial = all cases; distinct by program text"
	c.meta.Exhaustive = true
	input := []fhir.Resource{mustResource(`{"resourceType":"Patient","id":"p1","active":true,"name":[{"family":"A","given":["x","y"]}]}`)}
	empties := []string{"{}", "Patient.gender", "%e"}
	partners := []string{"1", "1.5", "'s'", "@2020-01-01", "1 'mg'", "true", "Patient.name.first()"}
	evalSrc := func(src string, copts ...fhirpath.CompileOption) Outcome {
		return safeEval(func() (system.Collection, error) {
			e, err := fhirpath.Compile(src, copts...)
			if err != nil {
				return nil, fmt.Errorf("compile: %w", err)
			}
			return e.Evaluate(input, evalopts.EnvVariable("e", system.Collection{}))
		})
	}
	binops := []string{"+", "-", "*", "/", "div", "mod", "<", "<=", ">", ">=", "=", "!="}
	for _, op := range binops {
		for _, em := range empties {
			for _, p := range partners {
				for _, src := range []string{em + " " + op + " " + p, p + " " + op + " " + em, em + " " + op + " " + em} {
					o := evalSrc(src)
					out := outTokens(o)
					c.Emit("emptyop "+opName(op), out, true)
					c.Count("op:" + op)
					c.Law(out == "ok:[]", "C07/operator-empty", "an empty operand yields an empty result", src, out)
				}
			}
		}
	}
	// an empty operand against a MULTI-item operand: still empty for the comparison and equality
	// operators (the emptiness check comes before the singleton check)
	for _, op := range []string{"<", "<=", ">", ">=", "=", "!="} {
		for _, em := range empties {
			for _, multi := range []string{"Patient.name.given", "%m"} {
				for _, src := range []string{em + " " + op + " " + multi, multi + " " + op + " " + em} {
					o := safeEval(func() (system.Collection, error) {
						e, err := fhirpath.Compile(src)
						if err != nil {
							return nil, fmt.Errorf("compile: %w", err)
						}
						return e.Evaluate(input, evalopts.EnvVariable("e", system.Collection{}), evalopts.EnvVariable("m", system.Collection{system.Integer(1), system.Integer(2)}))
					})
					out := outTokens(o)
					c.Observe("operator-empty-multi "+src, true)
					c.Law(out == "ok:[]", "C07/operator-empty", "an empty operand yields an empty result", src, out)
				}
			}
		}
	}
	// string functions with an empty argument, for receivers shorter and longer than the other argument
	for _, recv := range []string{"''", "'a'", "'ab'", "'abcdef'", "Patient.name.family"} {
		for _, other := range []string{"'a'", "'abc'", "'zzzzzzzz'", "''"} {
			for _, em := range empties {
				for _, src := range []string{recv + ".replace(" + other + ", " + em + ")", recv + ".replace(" + em + ", " + other + ")", recv + ".replaceMatches(" + other + ", " + em + ")", recv + ".replaceMatches(" + em + ", " + other + ")",
					recv + ".substring(" + em + ", 1)", recv + ".substring(0, " + em + ")", recv + ".indexOf(" + em + ")", recv + ".startsWith(" + em + ")", recv + ".endsWith(" + em + ")", recv + ".contains(" + em + ")", recv + ".matches(" + em + ")"} {
					o := evalSrc(src)
					out := outTokens(o)
					c.Observe("string-empty-argument "+src, true)
					c.Law(out == "ok:[]" || strings.HasPrefix(out, "err:"), "C07/empty-argument-fabricates", "an empty argument where a single value is required yields empty or an error", src, out)
				}
			}
		}
	}
	for _, em := range empties {
		for _, src := range []string{em + " is Patient", em + " is System.String", em + " as Patient", em + " as HumanName", "-" + "(" + em + ")", "(" + em + ")[0]", "Patient.name[" + em + "]", "(" + em + ")[" + em + "]"} {
			if strings.HasPrefix(src, "-") && em == "{}" {
				src = "-{}"
			}
			o := evalSrc(src)
			out := outTokens(o)
			c.Emit("emptyop unary", out, true)
			c.Law(out == "ok:[]", "C07/operator-empty", "an empty operand yields an empty result", src, out)
		}
		// & treats empty as ''
		for _, src := range []string{em + " & 'x'", "'x' & " + em} {
			o := evalSrc(src)
			out := outTokens(o)
			c.Emit("emptyop concat", strings.Replace(out, "S:x78", "S:x", 1), true)
			c.Law(out == "ok:[S:x78]", "C07/concat-empty", "& treats empty as the empty string", src, out)
		}
		o := evalSrc(em + " & " + em)
		c.Emit("emptyop concat", outTokens(o), true)
		c.Law(outTokens(o) == "ok:[S:x]", "C07/concat-empty", "& treats empty as the empty string", em+" & "+em, outTokens(o))
	}
	// functions
	aggregates := map[string]bool{"exists": true, "empty": true, "count": true, "all": true, "allTrue": true, "anyTrue": true, "allFalse": true, "anyFalse": true,
		"isDistinct": true, "iif": true, "now": true, "today": true, "timeOfDay": true}
	for _, exp := range []bool{false, true} {
		table := funcs.Clone()
		var copts []fhirpath.CompileOption
		tag := "0"
		if exp {
			table = funcs.AddExperimentalFuncs(table)
			copts = append(copts, compopts.WithExperimentalFuncs())
			tag = "1"
		}
		names := []string{}
		for k := range table {
			names = append(names, k)
		}
		sort.Strings(names)
		for _, name := range names {
			fn := table[name]
			shape := n1Shapes[name]
			for n := fn.MinArity; n <= fn.MaxArity; n++ {
				args := []string{}
				for i := 0; i < n; i++ {
					if i < len(shape.args) {
						args = append(args, shape.args[i])
					} else {
						args = append(args, "1")
					}
				}
				for _, em := range empties {
					src := "(" + em + ")." + name + "(" + strings.Join(args, ", ") + ")"
					if em == "{}" {
						src = "{}." + name + "(" + strings.Join(args, ", ") + ")"
					}
					o := evalSrc(src, copts...)
					out := outTokens(o)
					switch {
					case strings.HasPrefix(out, "err:"):
						out = "err"
					}
					exp := out
					if name == "iif" || name == "now" || name == "today" || name == "timeOfDay" {
						exp = "any"
					}
					c.Emit("emptyfn "+tag+" "+name, exp, true)
					c.Count("fn:" + name)
					if !aggregates[name] && funcName(fn.Func) != "funcs.unimplemented" {
						c.Law(out == "ok:[]", "C07/function-empty-input", "a non-aggregate function yields empty on an empty input", src, out)
					}
				}
				// an empty input is empty whatever the (String) arguments are — also arguments the function would reject
				// on a non-empty input (a pattern that is no regular expression, a unit that is none, ...)
				if n >= 1 && !aggregates[name] && funcName(fn.Func) != "funcs.unimplemented" && name != "iif" {
					for _, sa := range []string{"'['", "'('", "'*'", "'\\\\'", "''", "'(?'", "'x'", "'a{2,1}'", "'lightyears'", "' '",
						// ... and whatever else they are: no item, an item of another type, several items
						"{}", "1", "(-1)", "1.5", "true", "@2020", "Patient.name.given", "Patient.name", "Patient.nosuchchild.exists()"} {
						sargs := make([]string, n)
						for i := range sargs {
							sargs[i] = sa
						}
						for _, em := range empties {
							src := "(" + em + ")." + name + "(" + strings.Join(sargs, ", ") + ")"
							o := evalSrc(src, copts...)
							out := outTokens(o)
							c.Law(out == "ok:[]", "C07/function-empty-input", "a non-aggregate function yields empty on an empty input", src, out)
							c.Count("fn-odd-string-arg")
						}
					}
				}
				// an empty ARGUMENT where a single value is required: empty or an error, never a fabricated value
				if shape.recv != "" && n > 0 {
					for pos := 0; pos < n; pos++ {
						if name == "iif" || name == "where" || name == "select" || name == "all" || name == "exists" || name == "trace" || name == "repeat" {
							continue // criteria / projections legitimately may be empty
						}
						if name == "convertsToQuantity" {
							continue // reports convertibility (always a Boolean, cf. C13), not a value derived from the argument
						}
						// the receiver the shape table names, and a receiver of every other System type (the argument must be
						// looked at whatever the receiver is: `5.round({})` is not 5)
						for _, recv := range []string{shape.recv, "5", "(-7)", "2.5", "'abc'", "true", "@2020-01-01", "@2020-01-01T10:00:00Z", "@T10:00", "4 'mg'"} {
						if recv == shape.recv && recv == "5" {
							continue
						}
						for _, em := range empties {
							a2 := append([]string{}, args...)
							a2[pos] = em
							src := recv + "." + name + "(" + strings.Join(a2, ", ") + ")"
							o := evalSrc(src, copts...)
							out := outTokens(o)
							ok := out == "ok:[]" || strings.HasPrefix(out, "err:")
							if name == "intersect" || name == "exclude" || name == "combine" || name == "union" || name == "subsetOf" || name == "supersetOf" || name == "join" {
								ok = ok || strings.HasPrefix(out, "ok:") // collection-valued or defaulted arguments (skip and take need a single Integer: not exempt)
							}
							c.Law(ok, "C07/empty-argument-fabricates", "an empty argument where a single value is required yields empty or an error", src, out)
							c.Count("arg-empty")
						}
						}
					}
				}
			}
		}
	}
}

func opName(op string) string {
	m := map[string]string{"+": "add", "-": "sub", "*": "mul", "/": "div", "div": "floordiv", "mod": "mod", "<": "lt", "<=": "le", ">": "gt", ">=": "ge", "=": "eq", "!=": "ne"}
	return m[op]
}
