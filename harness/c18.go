package main

// C18 — FHIRPatch operations change exactly the targeted element, or nothing.
//
// Generated resources x element paths of their JSON tree (scalar, repeated, indexed, filtered by
// where/first/last/extension(url), choice, code, reference, contained / Bundle entry) x each
// operation x values of the right type, a sibling type, a wrong type and nil x indexes in
// [-1, len+1].  Every operation runs on a clone:
//   * the messages the operation reads (LastResult, BeforeLastResult, result; through the verif
//     hook VerifEvaluate) are described to the Lean model, which predicts the outcome class and the
//     content of every field of those messages afterwards (correspondence);
//   * an independent edit of another clone, driven by the JSON-name path, gives what the
//     operation must produce when it succeeds; an error must leave resource and value untouched.

import (
	"encoding/json"
	apb "github.com/google/fhir/go/proto/google/fhir/proto/annotations_go_proto"
	"regexp"
	"sync"
	"errors"
	"fmt"
	"sort"
	"strings"

	dtpb "github.com/google/fhir/go/proto/google/fhir/proto/r4/core/datatypes_go_proto"
	bcrpb "github.com/google/fhir/go/proto/google/fhir/proto/r4/core/resources/bundle_and_contained_resource_go_proto"
	"github.com/iancoleman/strcase"
	"github.com/verily-src/fhirpath-go/fhirpath"
	"github.com/verily-src/fhirpath-go/fhirpath/patch"
	"github.com/verily-src/fhirpath-go/fhirpath/system"
	"github.com/verily-src/fhirpath-go/internal/containedresource"
	"github.com/verily-src/fhirpath-go/internal/fhir"
	"google.golang.org/protobuf/proto"
	"google.golang.org/protobuf/reflect/protoreflect"
	"google.golang.org/protobuf/reflect/protoregistry"
	"google.golang.org/protobuf/types/known/anypb"
)

func init() { props["C18"] = runC18 }

// ---------------------------------------------------------------- description for the model

func unwrapIndep(m proto.Message) proto.Message {
	switch x := m.(type) {
	case *bcrpb.ContainedResource:
		if r := containedresource.Unwrap(x); r != nil {
			return r
		}
		return m
	case *anypb.Any:
		return m
	}
	d := m.ProtoReflect().Descriptor()
	if isChoiceMsg(d) && d.Oneofs().Len() == 1 {
		r := m.ProtoReflect()
		if fd := r.WhichOneof(d.Oneofs().Get(0)); fd != nil && fd.Kind() == protoreflect.MessageKind {
			return r.Get(fd).Message().Interface()
		}
	}
	return m
}

func b01(x bool) string {
	if x {
		return "1"
	}
	return "0"
}

type patchDesc struct {
	ids   *IDTable
	msgs  []proto.Message // described messages, in order
	types map[string]protoreflect.MessageDescriptor
}

func (p *patchDesc) addMsg(m proto.Message) {
	for _, x := range p.msgs {
		if x == m {
			return
		}
	}
	p.msgs = append(p.msgs, m)
}

func (p *patchDesc) describeMsg(m proto.Message, withFacts bool) string {
	r := m.ProtoReflect()
	d := r.Descriptor()
	var fs []string
	for i := 0; i < d.Fields().Len(); i++ {
		fd := d.Fields().Get(i)
		isMsg := fd.Kind() == protoreflect.MessageKind
		var vals []string
		if isMsg && r.Has(fd) {
			add := func(v protoreflect.Value) {
				sub := v.Message().Interface()
				if withFacts {
					vals = append(vals, fmt.Sprintf("%d:%d", p.ids.ID(sub), p.ids.ID(unwrapIndep(sub))))
				} else {
					vals = append(vals, fmt.Sprint(p.ids.ID(sub)))
				}
			}
			if fd.IsList() {
				l := r.Get(fd).List()
				for k := 0; k < l.Len(); k++ {
					add(l.Get(k))
				}
			} else {
				add(r.Get(fd))
			}
		}
		vt := "-"
		if len(vals) > 0 {
			vt = strings.Join(vals, "+")
		}
		if !withFacts {
			fs = append(fs, vt)
			continue
		}
		typ := ""
		if isMsg {
			typ = string(fd.Message().FullName())
			p.types[typ] = fd.Message()
		}
		fs = append(fs, fmt.Sprintf("%s,%s,%s,%s,%s,%s", fd.Name(), b01(fd.IsList()), b01(isMsg), b01(!isMsg && r.Has(fd)), typ, vt))
	}
	ft := "-"
	if len(fs) > 0 {
		ft = strings.Join(fs, ";")
	}
	return fmt.Sprintf("%d|%s", p.ids.ID(m), ft)
}

func (p *patchDesc) store(withFacts bool) string {
	if len(p.msgs) == 0 {
		return "-"
	}
	var out []string
	for _, m := range p.msgs {
		out = append(out, p.describeMsg(m, withFacts))
	}
	return strings.Join(out, "#")
}

func (p *patchDesc) coll(c system.Collection, describe bool) string {
	if len(c) == 0 {
		return "-"
	}
	var out []string
	for _, it := range c {
		if m, ok := it.(proto.Message); ok {
			if describe {
				p.addMsg(m)
			}
			out = append(out, fmt.Sprintf("m%d", p.ids.ID(m)))
		} else {
			out = append(out, "s")
		}
	}
	return strings.Join(out, ",")
}

type stringable interface{ GetValue() string }
type intable interface{ GetValue() int32 }

// valFacts renders the supplied value and what the code can learn about it for each
// destination type of the described messages.
func (p *patchDesc) valFacts(v fhir.Base) string {
	if v == nil {
		return "nil"
	}
	id := p.ids.ID(v)
	str, isStr := v.(stringable)
	iv, isInt := v.(intable)
	neg := isInt && iv.GetValue() < 0
	var names []string
	for t := range p.types {
		names = append(names, t)
	}
	sort.Strings(names)
	var ds []string
	vd := v.ProtoReflect().Descriptor()
	for _, t := range names {
		md := p.types[t]
		wrapper := md.Oneofs().Len() == 1 && md.Oneofs().ByName("reference") == nil
		member := false
		if wrapper {
			for i := 0; i < md.Fields().Len(); i++ {
				if f := md.Fields().Get(i); f.Kind() == protoreflect.MessageKind && !f.IsList() && f.Message() == vd {
					member = true
				}
			}
		}
		vf := md.Fields().ByName("value")
		isEnum := vf != nil && vf.Kind() == protoreflect.EnumKind
		kebabOk, enumFound := false, false
		if isStr && isEnum {
			kebabOk = strcase.ToKebab(str.GetValue()) == str.GetValue()
			enumFound = vf.Enum().Values().ByName(protoreflect.Name(strcase.ToScreamingSnake(str.GetValue()))) != nil
		}
		intKind := 0
		if vf != nil {
			switch vf.Kind() {
			case protoreflect.Int32Kind:
				intKind = 1
			case protoreflect.Uint32Kind:
				intKind = 2
			default:
				intKind = 3
			}
		}
		ds = append(ds, fmt.Sprintf("%s,%s,%s,%s,%s,%s,%s,%d", t, b01(wrapper), b01(member), b01(isEnum), b01(kebabOk), b01(enumFound), b01(md.FullName() == "google.fhir.r4.core.ReferenceId"), intKind))
	}
	dt := "-"
	if len(ds) > 0 {
		dt = strings.Join(ds, "&")
	}
	fresh := p.ids.next + 1
	return fmt.Sprintf("%d:%d/%s/%s/%s/%s/%d:%d/%s", id, id, vd.FullName(), b01(isStr), b01(isInt), b01(neg), fresh, fresh, dt)
}

func patchErrClass(err error, evalErr bool) string {
	switch {
	case err == nil:
		return "ok"
	case errors.Is(err, patch.ErrNotImplemented):
		return "err:not-implemented"
	case errors.Is(err, patch.ErrInvalidInput) && strings.Contains(err.Error(), "nil "):
		return "err:invalid-input" // the nil checks come before the evaluation
	case evalErr:
		return "err:eval-error"
	case errors.Is(err, patch.ErrInvalidInput):
		return "err:invalid-input"
	case errors.Is(err, patch.ErrInvalidEnum):
		return "err:invalid-enum"
	case errors.Is(err, patch.ErrInvalidUnsignedInt):
		return "err:invalid-unsigned-int"
	case errors.Is(err, patch.ErrNotSingleton):
		return "err:not-singleton"
	case errors.Is(err, patch.ErrNotPatchable):
		return "err:not-patchable"
	case errors.Is(err, patch.ErrInvalidField):
		return "err:invalid-field"
	}
	return "err:other"
}

// ---------------------------------------------------------------- independent expected edit

type pnode struct {
	parent proto.Message
	fd     protoreflect.FieldDescriptor
	idx    int           // position in the list, -1 for a single-valued element
	stored proto.Message // as stored (wrapper for choices)
	val    proto.Message // the element (through choice / resource wrappers)
}

func protoChildren(m proto.Message, name string) ([]pnode, bool) {
	r := m.ProtoReflect()
	fd := r.Descriptor().Fields().ByJSONName(name)
	if fd == nil || fd.Kind() != protoreflect.MessageKind || fd.ContainingOneof() != nil {
		return nil, false
	}
	var out []pnode
	if !r.Has(fd) {
		return nil, true
	}
	mk := func(v protoreflect.Value, idx int) {
		st := v.Message().Interface()
		if _, isAny := st.(*anypb.Any); isAny {
			return // contained resources are copies for the evaluator: not patchable by identity
		}
		out = append(out, pnode{m, fd, idx, st, unwrapIndep(st)})
	}
	if fd.IsList() {
		l := r.Get(fd).List()
		for k := 0; k < l.Len(); k++ {
			mk(l.Get(k), k)
		}
	} else {
		mk(r.Get(fd), -1)
	}
	return out, true
}

func protoWalk(root proto.Message, steps []jstep) ([]pnode, bool) {
	nodes := []pnode{{nil, nil, -1, root, root}}
	for _, s := range steps {
		var next []pnode
		for _, n := range nodes {
			ch, ok := protoChildren(n.val, s.name)
			if !ok {
				return nil, false
			}
			next = append(next, ch...)
		}
		if s.idx >= 0 {
			if s.idx < len(next) {
				next = next[s.idx : s.idx+1]
			} else {
				next = nil
			}
		}
		nodes = next
	}
	return nodes, true
}

// storable turns a supplied value into what the destination field stores, independently of the
// implementation: a choice wrapper around it, an enumerated code, a sized integer, or itself.
func storable(dest protoreflect.MessageDescriptor, v fhir.Base) (proto.Message, bool) {
	vd := v.ProtoReflect().Descriptor()
	if isChoiceMsg(dest) || dest.Name() == "ContainedResource" {
		w := newMessage(dest)
		for i := 0; i < dest.Fields().Len(); i++ {
			f := dest.Fields().Get(i)
			if f.Kind() == protoreflect.MessageKind && !f.IsList() && f.Message() == vd {
				w.ProtoReflect().Set(f, protoreflect.ValueOfMessage(proto.Clone(v).ProtoReflect()))
				return w, true
			}
		}
		return nil, false
	}
	vf := dest.Fields().ByName("value")
	if s, ok := v.(stringable); ok && vf != nil && vf.Kind() == protoreflect.EnumKind {
		vals := vf.Enum().Values()
		for i := 0; i < vals.Len(); i++ {
			ev := vals.Get(i)
			code := strings.ReplaceAll(strings.ToLower(string(ev.Name())), "_", "-")
			if code == s.GetValue() && ev.Number() != 0 {
				w := newMessage(dest)
				w.ProtoReflect().Set(vf, protoreflect.ValueOfEnum(ev.Number()))
				return w, true
			}
		}
		return nil, false
	}
	if iv, ok := v.(intable); ok && vf != nil && vd != dest {
		switch vf.Kind() {
		case protoreflect.Int32Kind:
			w := newMessage(dest)
			w.ProtoReflect().Set(vf, protoreflect.ValueOfInt32(iv.GetValue()))
			return w, true
		case protoreflect.Uint32Kind:
			if iv.GetValue() < 0 {
				return nil, false
			}
			w := newMessage(dest)
			w.ProtoReflect().Set(vf, protoreflect.ValueOfUint32(uint32(iv.GetValue())))
			return w, true
		}
	}
	if vd == dest {
		return proto.Clone(v), true
	}
	return nil, false
}

func newMessage(d protoreflect.MessageDescriptor) proto.Message {
	mt, err := protoregistry.GlobalTypes.FindMessageByName(d.FullName())
	if err != nil {
		return nil
	}
	return mt.New().Interface()
}

// protoPaths lists the dotted element paths (JSON names, arrays flattened) of a resource, read off
// the populated proto tree through choice and resource wrappers.
func protoPaths(root proto.Message) []string {
	seen := map[string]bool{}
	var out []string
	var rec func(m proto.Message, prefix string, depth int)
	rec = func(m proto.Message, prefix string, depth int) {
		if depth > 5 {
			return
		}
		r := m.ProtoReflect()
		fs := r.Descriptor().Fields()
		for i := 0; i < fs.Len(); i++ {
			fd := fs.Get(i)
			if fd.Kind() != protoreflect.MessageKind || fd.ContainingOneof() != nil || !r.Has(fd) {
				continue
			}
			p := fd.JSONName()
			if prefix != "" {
				p = prefix + "." + p
			}
			if !seen[p] {
				seen[p] = true
				out = append(out, p)
			}
			visit := func(v protoreflect.Value) {
				sub := v.Message().Interface()
				if _, isAny := sub.(*anypb.Any); isAny {
					return
				}
				rec(unwrapIndep(sub), p, depth+1)
			}
			if fd.IsList() {
				l := r.Get(fd).List()
				for k := 0; k < l.Len(); k++ {
					visit(l.Get(k))
				}
			} else {
				visit(r.Get(fd))
			}
		}
	}
	rec(root, "", 0)
	return out
}

// ---------------------------------------------------------------- the run

type patchOp struct {
	kind  string // add, insert, delete, replace, move
	path  string
	steps []jstep
	name  string // add: element name
	value fhir.Base
	vdesc string
	index int
	extURL string // the last step is written extension('<url>'): keep the extensions with that url
	// the path ends in .where(<whereChild> = '<whereVal>') (or != when whereNeg): keep the elements whose child has
	// (has not) that JSON text
	whereChild string
	whereVal   string
	whereNeg   bool
}

func runC18(c *Ctx) {
	c.meta.Rule = "generated resources (quick: 24 types, thorough: all 146) x element paths of their JSON tree (scalar, repeated, indexed, where(...)/first()/last()/extension(url) filters, choice, code, reference, Bundle entry / contained) x {add, insert, delete, replace, move} x values {right type (generated), sibling type, wrong type, nil} x indexes in [-1, len+1]; nil resource; sequences add-then-delete and replace-then-replace-back; each on a fresh clone; non-trivial = the operation succeeded and changed the resource; distinct by line"
	runC18Histories(c)
	types := resourceNames()
	if !c.thorough {
		pick := []string{"Patient", "Observation", "Encounter", "Bundle", "List", "Task", "DocumentReference", "Condition", "Claim", "MedicationRequest", "Questionnaire", "ValueSet", "CarePlan", "Appointment", "Organization", "Practitioner", "Location", "Procedure", "DiagnosticReport", "Immunization", "AllergyIntolerance", "Device", "Specimen", "Composition"}
		types = pick
	}
	per := 1
	if c.thorough {
		per = 2
	}
	for _, tn := range types {
		for k := 0; k < per; k++ {
			g := &ResGen{r: c.rng, maxDepth: 2, density: 35 + c.rng.Intn(40), NoExt: c.rng.Intn(3) == 0}
			res, js := g.GenValid(tn, c)
			if res == nil {
				continue
			}
			_ = js
			c.Count("resource:" + tn)
			ops := c18Ops(c, g, tn, res)
			for _, op := range ops {
				runPatchOp(c, res, op)
			}
		}
	}
	// hand-made resources: numeric and coded elements that carry an id and extensions of their own (a replacement
	// substitutes the whole element), lists of three and more (removing an item keeps the order of the others)
	for _, hm := range []struct{ tn, js string }{
		{"Patient", `{"resourceType":"Patient","id":"h1","multipleBirthInteger":2,"_multipleBirthInteger":{"id":"mb","extension":[{"url":"http://example.org/x","valueString":"kept?"}]},
		  "telecom":[{"value":"111","rank":1,"_rank":{"id":"rank-1","extension":[{"url":"http://example.org/r","valueCode":"a"}]}},{"value":"222","rank":2,"_rank":{"id":"rank-2"}},{"value":"333","rank":3},{"value":"444"}],
		  "name":[{"extension":[{"url":"http://example.org/n","valueString":"n0"}],"given":["Ada","Betty","Cleo","Dora"],"family":"F"},{"extension":[{"url":"http://example.org/n","valueString":"n1"},{"url":"http://example.org/m","valueString":"m1"}],"given":["Eve"]},{"extension":[{"url":"http://example.org/o","valueString":"o2"}],"given":["Fay","Gil","Hal"]}],
		  "address":[{"extension":[{"url":"http://example.org/a","valueString":"a0"}],"city":"X"},{"extension":[{"url":"http://example.org/b","valueString":"b1"}],"city":"Y"},{"city":"Z","line":["l1","l2"]}],"gender":"male","_gender":{"id":"g","extension":[{"url":"http://example.org/g","valueBoolean":true}]}}`},
		{"Encounter", `{"resourceType":"Encounter","id":"h4","status":"finished","class":{"code":"AMB"},"statusHistory":[{"status":"planned","period":{"start":"2020-01-01"}},{"status":"entered-in-error","period":{"start":"2020-01-02"}},{"status":"in-progress","period":{"start":"2020-01-03"}}],
		  "participant":[{"individual":{"reference":"Practitioner/1/_history/2"}},{"individual":{"reference":"Practitioner/1"}},{"individual":{"reference":"RelatedPerson/r"}}],"location":[{"location":{"reference":"Location/l"},"status":"completed"},{"location":{"reference":"Location/m"},"status":"active"}]}`},
		{"Observation", `{"resourceType":"Observation","id":"h5","status":"final","code":{"text":"c"},"performer":[{"reference":"Practitioner/1/_history/2"},{"reference":"Practitioner/1"},{"reference":"Organization/2"},{"reference":"#contained"}],
		  "category":[{"text":"a"},{"text":"b"}],"component":[{"code":{"text":"x"},"valueString":"v1"},{"code":{"text":"y"},"valueString":"v2"}]}`},
		{"OperationOutcome", `{"resourceType":"OperationOutcome","id":"h6","issue":[{"severity":"error","code":"not-found","diagnostics":"d1"},{"severity":"warning","code":"invalid","diagnostics":"d2"},{"severity":"error","code":"multiple-matches"}]}`},
		{"ImagingStudy", `{"resourceType":"ImagingStudy","id":"h2","status":"available","subject":{"reference":"Patient/h1"},"numberOfSeries":4,"_numberOfSeries":{"id":"nos","extension":[{"url":"http://example.org/n","valueInteger":9}]},
		  "numberOfInstances":7,"_numberOfInstances":{"extension":[{"url":"http://example.org/i","valueString":"z"}]},"series":[{"uid":"1.2","modality":{"code":"CT"},"number":1,"_number":{"id":"n1"}},{"uid":"1.3","modality":{"code":"MR"},"number":2},{"uid":"1.4","modality":{"code":"US"}}]}`},
	} {
		res := mustResource(hm.js)
		g := &ResGen{r: c.rng, maxDepth: 2, density: 50}
		c.Count("resource:hand-made " + hm.tn)
		for rep := 0; rep < 3; rep++ {
			for _, op := range c18Ops(c, g, hm.tn, res) {
				runPatchOp(c, res, op)
			}
		}
		if !proto.Equal(res, mustResource(hm.js)) {
			c.meta.Notes = append(c.meta.Notes, "HARNESS: the shared hand-made "+hm.tn+" was modified by an earlier operation")
			res = mustResource(hm.js)
		}
		// explicit where(child = 'text') / where(child != 'text') paths over the codes, strings and references of the
		// hand-made resources (present, absent, matching one item, matching several)
		for _, wc := range handWhere[hm.tn] {
			steps := []jstep{{wc.parent, -1}}
			for _, neg := range []bool{false, true} {
				opr := " = "
				if neg {
					opr = " != "
				}
				path := hm.tn + "." + wc.parent + ".where(" + fpName(wc.child) + opr + "'" + wc.text + "')"
				runPatchOp(c, res, patchOp{kind: "delete", path: path, steps: steps, whereChild: wc.child, whereVal: wc.text, whereNeg: neg})
			}
		}
		if hm.tn == "Patient" {
			// extension(url) over several parents: the url on two parents, on the first parent only, on the last only, on none;
			// a scalar child of a repeated parent that only a later parent has
			ext := func(parent, u string) []patchOp {
				steps := []jstep{{parent, -1}, {"extension", -1}}
				path := "Patient." + parent + ".extension('" + u + "')"
				return []patchOp{{kind: "delete", path: path, steps: steps, extURL: u},
					{kind: "replace", path: path, steps: steps, extURL: u, value: &dtpb.Extension{Url: fhir.URI("http://new")}, vdesc: "right type (Extension)"}}
			}
			var ops []patchOp
			for _, pu := range [][2]string{{"name", "http://example.org/n"}, {"name", "http://example.org/m"}, {"name", "http://example.org/o"}, {"address", "http://example.org/a"}, {"address", "http://example.org/b"}, {"address", "http://example.org/none"}, {"telecom", "http://example.org/none"}} {
				ops = append(ops, ext(pu[0], pu[1])...)
			}
			for _, pc := range [][2]string{{"name", "family"}, {"address", "city"}, {"telecom", "rank"}, {"telecom", "value"}} {
				steps := []jstep{{pc[0], -1}, {pc[1], -1}}
				ops = append(ops, patchOp{kind: "delete", path: "Patient." + pc[0] + "." + pc[1], steps: steps})
			}
			second := mustResource(`{"resourceType":"Patient","id":"h3","name":[{"given":["A"]},{"given":["B","C"],"family":"OnlyHere","period":{"start":"2020"}}],"telecom":[{"value":"1"},{"value":"2","rank":2}]}`)
			for _, op := range ops {
				runPatchOp(c, res, op)
			}
			for _, pc := range [][2]string{{"name", "family"}, {"name", "period"}, {"telecom", "rank"}} {
				steps := []jstep{{pc[0], -1}, {pc[1], -1}}
				runPatchOp(c, second, patchOp{kind: "delete", path: "Patient." + pc[0] + "." + pc[1], steps: steps})
				var v fhir.Base = fhir.String("New")
				if pc[1] == "period" {
					v = &dtpb.Period{}
				} else if pc[1] == "rank" {
					v = &dtpb.PositiveInt{Value: 9}
				}
				runPatchOp(c, second, patchOp{kind: "replace", path: "Patient." + pc[0] + "." + pc[1], steps: steps, value: v, vdesc: "right type"})
			}
		}
	}
	// nil resource
	for _, kind := range []string{"add", "insert", "delete", "replace"} {
		pe, err := patch.Compile("Patient.name")
		if err != nil {
			continue
		}
		var e error
		_, pan, _ := safeErr(func() error {
			switch kind {
			case "add":
				e = pe.Add(nil, "name", &dtpb.HumanName{})
			case "insert":
				e = pe.Insert(nil, &dtpb.HumanName{}, 0)
			case "delete":
				e = pe.Delete(nil)
			case "replace":
				e = pe.Replace(nil, &dtpb.HumanName{})
			}
			return nil
		})
		c.Law(!pan && e != nil, "C18/nil-resource", "a nil resource is an error, not a crash", kind+" on a nil resource", fmt.Sprint(pan, e))
	}
}

// c18Ops derives operations from the JSON tree of the resource.
func c18Ops(c *Ctx, g *ResGen, tn string, res fhir.Resource) []patchOp {
	paths := protoPaths(res)
	var ops []patchOp
	budget := 60
	if c.thorough {
		budget = 200
	}
	perm := c.rng.Perm(len(paths))
	for _, pi := range perm {
		if len(ops) > budget {
			break
		}
		names := strings.Split(paths[pi], ".")
		steps := make([]jstep, len(names))
		for i, n := range names {
			steps[i] = jstep{n, -1}
		}
		nodes, ok := protoWalk(res, steps)
		if !ok || len(nodes) == 0 {
			continue
		}
		// choose the selection form: plain, indexed last, indexed inner
		form := c.rng.Intn(4)
		sel := append([]jstep{}, steps...)
		suffix := ""
		switch form {
		case 1:
			sel[len(sel)-1].idx = c.rng.Intn(len(nodes) + 1)
		case 2:
			if len(sel) > 1 {
				k := c.rng.Intn(len(sel) - 1)
				pre, _ := protoWalk(res, steps[:k+1])
				if len(pre) > 0 {
					sel[k].idx = c.rng.Intn(len(pre))
				}
			}
		case 3:
			suffix = Pick(c.rng, []string{".first()", ".last()", ".where(true)", ".where($this.exists())", ".trace('t')"})
		}
		if names[len(names)-1] == "extension" && c.rng.Intn(2) == 0 {
			// extension(url) instead of the plain step
			if u := nodes[c.rng.Intn(len(nodes))].val.(*dtpb.Extension).GetUrl().GetValue(); u != "" {
				pp := pathString(tn, steps[:len(steps)-1])
				ep := pp + ".extension('" + u + "')"
				ops = append(ops, patchOp{kind: "delete", path: ep, steps: append([]jstep{}, steps...), extURL: u})
				ops = append(ops, patchOp{kind: "replace", path: ep, steps: append([]jstep{}, steps...), extURL: u, value: &dtpb.Extension{Url: fhir.URI("http://new")}, vdesc: "right type (Extension)"})
			}
		}
		// a real criterion: the elements whose code / string / reference child has a given text (taken from one of them)
		// (only over elements of ONE type: the values of a choice element are of different types, and what `child` means on
		// each of them — a scalar `value` of a primitive, no such element at all — is not what this oracle reads off)
		sameType := true
		for _, n := range nodes {
			sameType = sameType && n.val.ProtoReflect().Descriptor().FullName() == nodes[0].val.ProtoReflect().Descriptor().FullName()
		}
		if len(nodes) >= 1 && sameType && c.rng.Intn(2) == 0 {
			pick := nodes[c.rng.Intn(len(nodes))]
			if child, text, ok := someTextChild(c, pick.val); ok && !strings.ContainsAny(text, "'\\") {
				for _, neg := range []bool{false, true} {
					opr := " = "
					if neg {
						opr = " != "
					}
					wp := pathString(tn, steps) + ".where(" + fpName(child) + opr + "'" + text + "')"
					base := patchOp{path: wp, steps: append([]jstep{}, steps...), whereChild: child, whereVal: text, whereNeg: neg}
					d := base
					d.kind = "delete"
					ops = append(ops, d)
					if vs := c18Values(c, g, nodes[0].fd.Message()); len(vs) > 0 {
						r := base
						r.kind, r.value, r.vdesc = "replace", vs[0].v, vs[0].d
						ops = append(ops, r)
					}
				}
			}
		}
		path := pathString(tn, sel) + suffix
		selNodes, _ := protoWalk(res, sel)
		if suffix == ".first()" && len(selNodes) > 1 {
			selNodes = selNodes[:1]
		}
		if suffix == ".last()" && len(selNodes) > 1 {
			selNodes = selNodes[len(selNodes)-1:]
		}
		last := nodes[0]
		destType := last.fd.Message()
		vals := c18Values(c, g, destType)
		// delete
		ops = append(ops, patchOp{kind: "delete", path: path, steps: sel})
		// replace with each kind of value
		for _, v := range vals {
			if c.rng.Intn(2) == 0 {
				ops = append(ops, patchOp{kind: "replace", path: path, steps: sel, value: v.v, vdesc: v.d})
			}
		}
		// insert at every index in [-1, len+1] (lists) / once (scalars)
		if last.fd.IsList() {
			for idx := -1; idx <= len(selNodes)+1; idx++ {
				if c.rng.Intn(2) == 0 || idx == 0 {
					v := vals[0]
					if c.rng.Intn(4) == 0 {
						v = vals[c.rng.Intn(len(vals))]
					}
					ops = append(ops, patchOp{kind: "insert", path: path, steps: sel, value: v.v, vdesc: v.d, index: idx})
				}
			}
		} else if c.rng.Intn(3) == 0 {
			ops = append(ops, patchOp{kind: "insert", path: path, steps: sel, value: vals[0].v, vdesc: vals[0].d, index: 0})
		}
		// add below the parent: the same element name, and a random other element of the parent's type
		if len(sel) >= 1 {
			parentSteps := sel[:len(sel)-1]
			ppath := pathString(tn, parentSteps)
			name := steps[len(steps)-1].name
			for _, v := range vals {
				if c.rng.Intn(2) == 0 {
					ops = append(ops, patchOp{kind: "add", path: ppath, steps: parentSteps, name: name, value: v.v, vdesc: v.d})
				}
			}
			if pn, ok := protoWalk(res, parentSteps); ok && len(pn) > 0 {
				d := pn[0].val.ProtoReflect().Descriptor()
				fd := d.Fields().Get(c.rng.Intn(d.Fields().Len()))
				if fd.Kind() == protoreflect.MessageKind && fd.ContainingOneof() == nil {
					ov := c18Values(c, g, fd.Message())
					ops = append(ops, patchOp{kind: "add", path: ppath, steps: parentSteps, name: fd.JSONName(), value: ov[0].v, vdesc: ov[0].d})
				}
				if c.rng.Intn(6) == 0 {
					ops = append(ops, patchOp{kind: "add", path: ppath, steps: parentSteps, name: Pick(c.rng, []string{"zzNope", "given_name", "Value", "value"}), value: vals[0].v, vdesc: vals[0].d})
				}
			}
		}
		if c.rng.Intn(10) == 0 {
			ops = append(ops, patchOp{kind: "move", path: path, steps: sel})
		}
	}
	// a path that selects nothing, and a bad path
	ops = append(ops, patchOp{kind: "delete", path: tn + ".extension.where(url = 'http://nope')", steps: nil})
	ops = append(ops, patchOp{kind: "delete", path: tn + ".zzNope", steps: nil})
	return ops
}

type namedVal struct {
	v fhir.Base
	d string
}

// c18Values: a value of the right type (generated), a sibling type, a wrong type, nil.
var (
	sameNameOnce sync.Once
	sameName     = map[string][]protoreflect.MessageType{}
)

func c18Values(c *Ctx, g *ResGen, dest protoreflect.MessageDescriptor) []namedVal {
	var out []namedVal
	target := dest
	if isChoiceMsg(dest) && dest.Oneofs().Len() == 1 {
		oo := dest.Oneofs().Get(0)
		target = oo.Fields().Get(c.rng.Intn(oo.Fields().Len())).Message()
	}
	if dest.Name() == "ContainedResource" {
		out = append(out, namedVal{mustResource(`{"resourceType":"Patient","id":"new"}`), "right type (Patient resource)"})
	} else if m := newMessage(target); m != nil {
		save := g.NoExt
		g.NoExt = true
		_, pan, _ := safeErr(func() error { g.Fill(m.ProtoReflect(), 1); return nil })
		g.NoExt = save
		if !pan {
			if b, ok := m.(fhir.Base); ok {
				out = append(out, namedVal{b, "right type (" + string(target.Name()) + ")"})
			}
		}
	}
	vf := target.Fields().ByName("value")
	switch {
	case vf != nil && vf.Kind() == protoreflect.EnumKind:
		vals := vf.Enum().Values()
		ev := vals.Get(1 + c.rng.Intn(vals.Len()-1))
		code := strings.ReplaceAll(strings.ToLower(string(ev.Name())), "_", "-")
		out = append(out, namedVal{fhir.Code(code), "sibling: Code " + code}, namedVal{fhir.String(code), "sibling: String " + code}, namedVal{fhir.Code("No_Such"), "sibling: invalid code"}, namedVal{fhir.Code("nosuch"), "sibling: unknown code"})
		// near-misses of a valid code: other separators, stray blanks, other letter case
		multi := code
		for i := 1; i < vals.Len(); i++ {
			if n := string(vals.Get(i).Name()); strings.Contains(n, "_") {
				multi = strings.ReplaceAll(strings.ToLower(n), "_", "-")
				break
			}
		}
		for _, bad := range []string{strings.ReplaceAll(multi, "-", "_"), strings.ReplaceAll(multi, "-", " "), multi + " ", " " + multi, strings.ToUpper(multi), multi + "-", strings.ReplaceAll(multi, "-", "--")} {
			if bad != multi {
				out = append(out, namedVal{fhir.Code(bad), fmt.Sprintf("sibling: near-miss code %q", bad)})
			}
		}
	case vf != nil && (vf.Kind() == protoreflect.Int32Kind || vf.Kind() == protoreflect.Uint32Kind):
		out = append(out, namedVal{fhir.Integer(7), "sibling: Integer 7"}, namedVal{fhir.Integer(-3), "sibling: Integer -3"}, namedVal{&dtpb.PositiveInt{Value: 2}, "sibling: PositiveInt"})
	case vf != nil && vf.Kind() == protoreflect.StringKind:
		out = append(out, namedVal{fhir.String("s"), "sibling: String"}, namedVal{fhir.Code("c"), "sibling: Code"}, namedVal{fhir.Markdown("m"), "sibling: Markdown"})
	}
	out = append(out, namedVal{fhir.Integer(5), "wrong: Integer"}, namedVal{&dtpb.HumanName{Family: fhir.String("W")}, "wrong: HumanName"}, namedVal{fhir.Boolean(true), "wrong: Boolean"})
	// a message of ANOTHER type with the same short name (Patient.Contact vs Organization.Contact, X.GenderCode ...)
	sameNameOnce.Do(func() {
		protoregistry.GlobalTypes.RangeMessages(func(mt protoreflect.MessageType) bool {
			d := mt.Descriptor()
			if strings.HasPrefix(string(d.FullName()), "google.fhir.r4.core.") {
				sameName[string(d.Name())] = append(sameName[string(d.Name())], mt)
			}
			return true
		})
	})
	for _, mt := range sameName[string(target.Name())] {
		if mt.Descriptor() != target {
			if b, ok := mt.New().Interface().(fhir.Base); ok {
				out = append(out, namedVal{b, "wrong: same-name sibling " + string(mt.Descriptor().FullName())})
				break
			}
		}
	}
	out = append(out, namedVal{nil, "nil"})
	return out
}

func runPatchOp(c *Ctx, shared fhir.Resource, op patchOp) {
	// a private copy of the resource for this operation: the inverse-pair checks put elements of `orig` back into the
	// patched copy, so a later step could otherwise reach into the caller's resource through them
	orig := proto.Clone(shared).(fhir.Resource)
	res := proto.Clone(orig).(fhir.Resource)
	var value fhir.Base
	if op.value != nil {
		value = proto.Clone(op.value).(fhir.Base)
	}
	in := fmt.Sprintf("%s %s", op.kind, op.path)
	switch op.kind {
	case "add":
		in += fmt.Sprintf(" name=%s value=%s", op.name, op.vdesc)
	case "insert":
		in += fmt.Sprintf(" index=%d value=%s", op.index, op.vdesc)
	case "replace":
		in += " value=" + op.vdesc
	}
	c.Count("op:" + op.kind)
	if op.whereChild != "" {
		c.Count("op-where-criterion:" + op.kind)
	}
	pe, err := patch.Compile(op.path)
	if err != nil {
		c.Count("op:path-does-not-compile")
		return
	}
	desc := &patchDesc{ids: NewIDTable(), types: map[string]protoreflect.MessageDescriptor{}}
	var last, before, result system.Collection
	var evalErr error
	_, pan, pmsg := safeErr(func() error { last, before, result, evalErr = pe.VerifEvaluate(res); return nil })
	if pan {
		c.Law(false, "C18/panic", "patch operations never crash", in, "evaluation: "+pmsg)
		return
	}
	var line string
	switch op.kind {
	case "add":
		rs := desc.coll(result, true)
		st := desc.store(true)
		line = fmt.Sprintf("padd %s %s 0 %s %s %s %s", st, b01(strcase.ToLowerCamel(op.name) == op.name), desc.valFacts(value), b01(evalErr != nil), rs, hexs(strcase.ToSnake(op.name)))
	case "delete":
		ls, bs := desc.coll(last, true), desc.coll(before, true)
		rs := desc.coll(result, false)
		line = fmt.Sprintf("pdel %s 0 %s %s %s %s", desc.store(true), b01(evalErr != nil), ls, bs, rs)
	case "insert":
		ls := desc.coll(last, true)
		rs := desc.coll(result, false)
		st := desc.store(true)
		line = fmt.Sprintf("pins %s 0 %s %s %s %s %d", st, b01(evalErr != nil), ls, rs, desc.valFacts(value), op.index)
	case "replace":
		ls, bs := desc.coll(last, true), desc.coll(before, true)
		rs := desc.coll(result, false)
		st := desc.store(true)
		line = fmt.Sprintf("prep %s 0 %s %s %s %s %s", st, b01(evalErr != nil), ls, bs, rs, desc.valFacts(value))
	case "move":
		line = "pmove " + desc.store(true)
	}
	var valueBefore proto.Message
	if value != nil {
		valueBefore = proto.Clone(value)
	}
	var operr error
	_, pan, pmsg = safeErr(func() error {
		switch op.kind {
		case "add":
			operr = pe.Add(res, op.name, value)
		case "delete":
			operr = pe.Delete(res)
		case "insert":
			operr = pe.Insert(res, value, op.index)
		case "replace":
			operr = pe.Replace(res, value)
		case "move":
			operr = pe.Move(res, 0, 1)
			for _, ix := range [][2]int{{0, 0}, {1, 1}, {1, 0}, {-1, -1}, {-3, -3}, {7, 7}, {2147483647, 2147483647}} {
				if e2 := pe.Move(res, ix[0], ix[1]); !errors.Is(e2, patch.ErrNotImplemented) {
					operr = fmt.Errorf("Move(%d, %d) returned %v", ix[0], ix[1], e2)
				}
			}
		}
		return nil
	})
	if pan {
		c.Emit(line, "panic", false)
		c.Law(false, "C18/panic", "patch operations never crash", in, pmsg)
		return
	}
	changed := !proto.Equal(res, orig)
	c.Emit(line, patchErrClass(operr, evalErr != nil)+" "+desc.store(false), operr == nil && changed)
	c.Count("outcome:" + op.kind + ":" + patchErrClass(operr, evalErr != nil))
	if op.kind == "move" {
		c.Law(errors.Is(operr, patch.ErrNotImplemented) && !changed, "C18/move", "Move always reports not-implemented", in, fmt.Sprint(operr))
		return
	}
	if value != nil {
		c.Law(proto.Equal(value, valueBefore), "C18/value-modified", "the supplied value is left exactly as it was", in, "value changed")
	}
	if operr != nil {
		same := !changed
		if same {
			a, e1 := marshalJSON(res)
			b, e2 := marshalJSON(orig)
			same = e1 == nil && e2 == nil && string(a) == string(b)
		}
		c.Law(same, "C18/error-modified", "an operation that returns an error leaves the resource exactly as it was", in+" -> "+operr.Error(), "resource changed")
		// measurement: operations the JSON tree can perform with a right-typed value but the implementation refuses
		if op.steps != nil && (value == nil || strings.HasPrefix(op.vdesc, "right type")) {
			exp := proto.Clone(orig).(fhir.Resource)
			feasible := false
			func() {
				defer func() { _ = recover() }()
				feasible, _ = expectedEdit(exp, op, value, orig)
			}()
			if feasible {
				suffix := "plain"
				for _, sf := range []string{".first()", ".last()", ".where(true)", ".where($this.exists())", ".trace('t')"} {
					if strings.HasSuffix(op.path, sf) {
						suffix = sf
					}
				}
				if op.extURL != "" {
					suffix = "extension(url)"
				}
				c.Count("refused-feasible:" + op.kind + ":" + suffix + ":" + patchErrClass(operr, evalErr != nil))
				// a single existing element selected through a filter is patchable like the element itself:
				// delete / replace of it with a right-typed value is not refused
				if (op.kind == "delete" || op.kind == "replace") && suffix == "plain" && errors.Is(operr, patch.ErrNotPatchable) {
					// the same single element named with explicit indices: if that is patched, the refusal was not about the target
					if alt := indexedAccepted(orig, op, value); alt != "" {
						c.Law(false, "C18/refused", "an element the implementation patches when it is named with indices is patched when the same single element is named without them", in, "refused: "+operr.Error()+"; accepted as "+alt)
					} else {
						c.Count("refused-by-index-too:" + op.kind)
					}
				}
				if (op.kind == "delete" || op.kind == "replace") && (suffix == ".where(true)" || suffix == ".where($this.exists())" || suffix == ".first()" || suffix == ".last()") {
					// ... whenever the implementation patches that element when it is named by its index
					// (targets it refuses by any route, e.g. extensions of primitive elements, are
					// "unpatchable targets" in the property's sense)
					if plainAccepted(orig, op, suffix, value) {
						c.Law(false, "C18/refused", "delete / replace of the single element selected by a where(), first() or last() filter is performed when the same element named by index is", in, "refused: "+operr.Error())
					} else {
						c.Count("refused-by-index-too:" + op.kind)
					}
				}
			}
		}
		return
	}
	// success: compare with the independent edit
	if op.steps == nil {
		c.Law(!changed, "C18/absent-delete", "deleting an absent element succeeds without change", in, "resource changed")
		return
	}
	exp := proto.Clone(orig).(fhir.Resource)
	ok, why := expectedEdit(exp, op, value, orig)
	if !ok {
		c.Count("oracle:" + why)
		if why == "must-fail" {
			c.Law(false, "C18/should-fail", "an operation the JSON tree cannot perform must fail", in, "succeeded")
		}
		return
	}
	eq := proto.Equal(res, exp)
	detail := ""
	if !eq {
		a, _ := marshalJSON(res)
		b, _ := marshalJSON(exp)
		detail = "got " + string(a) + " want " + string(b)
	}
	c.Law(eq, "C18/wrong-edit", "a successful operation leaves the resource equal to the same operation on its JSON tree; every other element is unchanged", in, detail)
	if !eq {
		return
	}
	// inverse pairs: the operation followed by its inverse gives the original resource back
	var inv func() error
	var invDesc string
	switch op.kind {
	case "add":
		// added to a list: delete the last entry; set on a scalar: delete it
		nodes, _ := protoWalk(res, op.steps)
		if len(nodes) == 1 {
			fd := nodes[0].val.ProtoReflect().Descriptor().Fields().ByJSONName(op.name)
			if fd != nil {
				p := pathString(string(orig.ProtoReflect().Descriptor().Name()), append(append([]jstep{}, op.steps...), jstep{op.name, -1}))
				if fd.IsList() {
					n := nodes[0].val.ProtoReflect().Get(fd).List().Len()
					p = fmt.Sprintf("%s[%d]", p, n-1)
				}
				invDesc = "delete " + p
				inv = func() error { return patch.Delete(res, p) }
			}
		}
	case "insert":
		if !strings.HasSuffix(op.path, ")") && op.steps[len(op.steps)-1].idx < 0 {
			p := fmt.Sprintf("%s[%d]", op.path, op.index)
			invDesc = "delete " + p
			inv = func() error { return patch.Delete(res, p) }
		}
	case "replace":
		on, _ := protoWalk(orig, op.steps)
		if strings.HasSuffix(op.path, ".first()") && len(on) > 1 {
			on = on[:1]
		}
		if strings.HasSuffix(op.path, ".last()") && len(on) > 1 {
			on = on[len(on)-1:]
		}
		if len(on) == 1 {
			if back, ok := proto.Clone(on[0].val).(fhir.Base); ok {
				invDesc = "replace " + op.path + " with the original value"
				inv = func() error { return patch.Replace(res, op.path, back) }
			}
		}
	}
	if inv != nil {
		var ierr error
		_, pan, pmsg := safeErr(func() error { ierr = inv(); return nil })
		c.Count("inverse:" + op.kind)
		if pan {
			c.Law(false, "C18/panic", "patch operations never crash", in+" then "+invDesc, pmsg)
			return
		}
		if ierr != nil {
			// enumerated codes cannot be replaced by their own element (the enum-typed message): counted, not a failure
			c.Count("inverse-failed:" + op.kind + ":" + patchErrClass(ierr, false))
			return
		}
		back := proto.Equal(res, orig)
		d := ""
		if !back {
			a, _ := marshalJSON(res)
			b, _ := marshalJSON(orig)
			d = "got " + string(a) + " want " + string(b)
		}
		c.Law(back, "C18/inverse", "an operation followed by its inverse restores the resource", in+" then "+invDesc, d)
	}
}

// expectedEdit applies the operation to `exp` by the JSON-name path; ok=false with a reason when
// the oracle has no expectation ("unsupported") or the tree operation is impossible ("must-fail").
func expectedEdit(exp fhir.Resource, op patchOp, value fhir.Base, orig fhir.Resource) (bool, string) {
	sel := op.steps
	if strings.HasSuffix(op.path, ".trace('t')") || strings.HasSuffix(op.path, ".where(true)") || strings.HasSuffix(op.path, ".where($this.exists())") {
		// filters that keep everything
	}
	nodes, ok := protoWalk(exp, sel)
	if !ok {
		return false, "unsupported"
	}
	if strings.HasSuffix(op.path, ".first()") && len(nodes) > 1 {
		nodes = nodes[:1]
	}
	if strings.HasSuffix(op.path, ".last()") && len(nodes) > 1 {
		nodes = nodes[len(nodes)-1:]
	}
	if op.extURL != "" {
		var keep []pnode
		for _, n := range nodes {
			if e, ok := n.val.(*dtpb.Extension); ok && e.GetUrl().GetValue() == op.extURL {
				keep = append(keep, n)
			}
		}
		nodes = keep
	}
	if op.whereChild != "" {
		var keep []pnode
		for _, n := range nodes {
			text, has := textOfChild(n.val, op.whereChild)
			if has && (text == op.whereVal) != op.whereNeg {
				keep = append(keep, n)
			}
		}
		nodes = keep
	}
	switch op.kind {
	case "delete":
		if len(nodes) == 0 {
			return true, ""
		}
		if len(nodes) != 1 {
			return false, "must-fail"
		}
		n := nodes[0]
		removeAt(n)
		return true, ""
	case "replace":
		if len(nodes) != 1 {
			return false, "must-fail"
		}
		n := nodes[0]
		st, ok := storable(n.fd.Message(), value)
		if !ok {
			return false, "must-fail"
		}
		r := n.parent.ProtoReflect()
		if n.idx >= 0 {
			r.Mutable(n.fd).List().Set(n.idx, protoreflect.ValueOfMessage(st.ProtoReflect()))
		} else {
			r.Set(n.fd, protoreflect.ValueOfMessage(st.ProtoReflect()))
		}
		return true, ""
	case "insert":
		if len(nodes) == 0 {
			return false, "must-fail"
		}
		n := nodes[0]
		for _, m := range nodes {
			if m.parent != n.parent || m.fd != n.fd {
				return false, "unsupported"
			}
		}
		if !n.fd.IsList() {
			return false, "must-fail"
		}
		l := n.parent.ProtoReflect().Mutable(n.fd).List()
		if op.index < 0 || op.index > l.Len() {
			return false, "must-fail"
		}
		if value.ProtoReflect().Descriptor() != n.fd.Message() {
			return false, "must-fail"
		}
		var items []protoreflect.Value
		for i := 0; i < l.Len(); i++ {
			items = append(items, l.Get(i))
		}
		l.Truncate(0)
		for i := 0; i <= len(items); i++ {
			if i == op.index {
				l.Append(protoreflect.ValueOfMessage(proto.Clone(value).ProtoReflect()))
			}
			if i < len(items) {
				l.Append(items[i])
			}
		}
		return true, ""
	case "add":
		if len(nodes) != 1 {
			return false, "must-fail"
		}
		tgt := nodes[0].val
		r := tgt.ProtoReflect()
		fd := r.Descriptor().Fields().ByJSONName(op.name)
		if fd == nil || fd.Kind() != protoreflect.MessageKind || fd.ContainingOneof() != nil {
			return false, "unsupported"
		}
		st, ok := storable(fd.Message(), value)
		if !ok {
			return false, "must-fail"
		}
		if fd.IsList() {
			r.Mutable(fd).List().Append(protoreflect.ValueOfMessage(st.ProtoReflect()))
		} else {
			if r.Has(fd) {
				return false, "must-fail"
			}
			r.Set(fd, protoreflect.ValueOfMessage(st.ProtoReflect()))
		}
		return true, ""
	}
	return false, "unsupported"
}

func removeAt(n pnode) {
	r := n.parent.ProtoReflect()
	if n.idx < 0 {
		r.Clear(n.fd)
		return
	}
	l := r.Mutable(n.fd).List()
	var items []protoreflect.Value
	for i := 0; i < l.Len(); i++ {
		if i != n.idx {
			items = append(items, l.Get(i))
		}
	}
	l.Truncate(0)
	for _, it := range items {
		l.Append(it)
	}
	if len(items) == 0 {
		r.Clear(n.fd)
	}
}

// plainAccepted reports whether the operation succeeds on a copy of the resource when the filter
// suffix of its path is replaced by the index of the element the filter selects.
func plainAccepted(orig fhir.Resource, op patchOp, suffix string, value fhir.Base) bool {
	base := strings.TrimSuffix(op.path, suffix)
	cp := proto.Clone(orig).(fhir.Resource)
	idx := 0
	if suffix == ".last()" {
		ce, err := fhirpath.Compile(base + ".count()")
		if err != nil {
			return false
		}
		r, err := ce.Evaluate([]fhir.Resource{cp})
		if err != nil || len(r) != 1 {
			return false
		}
		n, ok := r[0].(system.Integer)
		if !ok || n < 1 {
			return false
		}
		idx = int(n) - 1
	}
	pe, err := patch.Compile(fmt.Sprintf("%s[%d]", base, idx))
	if err != nil {
		return false
	}
	var operr error
	_, pan, _ := safeErr(func() error {
		if op.kind == "delete" {
			operr = pe.Delete(cp)
		} else {
			var v fhir.Base
			if value != nil {
				v = proto.Clone(value).(fhir.Base)
			}
			operr = pe.Replace(cp, v)
		}
		return nil
	})
	return !pan && operr == nil
}

var plainPathRe = regexp.MustCompile(`^[A-Za-z]+(\.[A-Za-z]+(\[\d+\])?)*$`)

// indexedAccepted looks for a spelling of the operation's path with explicit indices that selects the very same single
// element and on which the operation succeeds (on copies of the resource); it returns that spelling, or "".
func indexedAccepted(orig fhir.Resource, op patchOp, value fhir.Base) string {
	if !plainPathRe.MatchString(op.path) {
		return ""
	}
	segs := strings.Split(op.path, ".")
	probe := proto.Clone(orig).(fhir.Resource)
	target := func(path string, res fhir.Resource) (any, bool) {
		e, err := fhirpath.Compile(path)
		if err != nil {
			return nil, false
		}
		r, err := e.Evaluate([]fhir.Resource{res})
		if err != nil || len(r) != 1 {
			return nil, false
		}
		return r[0], true
	}
	want, ok := target(op.path, probe)
	if !ok {
		return ""
	}
	var found string
	var rec func(i int, acc []string, budget *int)
	rec = func(i int, acc []string, budget *int) {
		if found != "" || *budget <= 0 {
			return
		}
		if i == len(segs) {
			cand := strings.Join(acc, ".")
			if cand == op.path {
				return
			}
			*budget--
			got, ok := target(cand, probe)
			if !ok || got != want {
				return
			}
			cp := proto.Clone(orig).(fhir.Resource)
			pe, err := patch.Compile(cand)
			if err != nil {
				return
			}
			var operr error
			_, pan, _ := safeErr(func() error {
				if op.kind == "delete" {
					operr = pe.Delete(cp)
				} else {
					var v fhir.Base
					if value != nil {
						v = proto.Clone(value).(fhir.Base)
					}
					operr = pe.Replace(cp, v)
				}
				return nil
			})
			if !pan && operr == nil {
				found = cand
			}
			return
		}
		if i == 0 || strings.HasSuffix(segs[i], "]") {
			rec(i+1, append(acc, segs[i]), budget)
			return
		}
		for _, ix := range []string{"", "[0]", "[1]", "[2]", "[3]"} {
			rec(i+1, append(append([]string{}, acc...), segs[i]+ix), budget)
		}
	}
	budget := 400
	rec(0, nil, &budget)
	return found
}

// textOfChild: the JSON text of the single-valued primitive child `name` of m (a string-valued primitive, an enumerated
// code by its FHIR code, the `reference` of a Reference by its rendering) — read off the protos, not through the evaluator.
func textOfChild(m proto.Message, name string) (string, bool) {
	if ref, ok := m.(*dtpb.Reference); ok && name == "reference" {
		return expectedRefString(ref)
	}
	r := m.ProtoReflect()
	fds := r.Descriptor().Fields()
	for i := 0; i < fds.Len(); i++ {
		fd := fds.Get(i)
		if fd.JSONName() != name || fd.Kind() != protoreflect.MessageKind || fd.IsList() || fd.ContainingOneof() != nil || !r.Has(fd) {
			continue
		}
		return primitiveText(r.Get(fd).Message())
	}
	return "", false
}

func primitiveText(cm protoreflect.Message) (string, bool) {
	vf := cm.Descriptor().Fields().ByName("value")
	if vf == nil {
		return "", false
	}
	switch vf.Kind() {
	case protoreflect.StringKind:
		switch cm.Descriptor().Name() {
		case "Decimal", "Xhtml":
			return "", false
		}
		return cm.Get(vf).String(), true
	case protoreflect.EnumKind:
		ev := vf.Enum().Values().ByNumber(cm.Get(vf).Enum())
		if ev == nil || ev.Number() == 0 {
			return "", false
		}
		if orig, _ := proto.GetExtension(ev.Options(), apb.E_FhirOriginalCode).(string); orig != "" {
			return orig, true
		}
		return strings.ReplaceAll(strings.ToLower(string(ev.Name())), "_", "-"), true
	}
	return "", false
}

// someTextChild picks a child of m that has such a text.
func someTextChild(c *Ctx, m proto.Message) (string, string, bool) {
	type cand struct{ name, text string }
	var cs []cand
	if ref, ok := m.(*dtpb.Reference); ok {
		if t, ok := expectedRefString(ref); ok && t != "" {
			cs = append(cs, cand{"reference", t})
		}
	}
	r := m.ProtoReflect()
	fds := r.Descriptor().Fields()
	for i := 0; i < fds.Len(); i++ {
		fd := fds.Get(i)
		if fd.Kind() != protoreflect.MessageKind || fd.IsList() || fd.ContainingOneof() != nil || !r.Has(fd) || fd.JSONName() == "id" {
			continue
		}
		if t, ok := primitiveText(r.Get(fd).Message()); ok && t != "" {
			cs = append(cs, cand{fd.JSONName(), t})
		}
	}
	if len(cs) == 0 {
		return "", "", false
	}
	k := cs[c.rng.Intn(len(cs))]
	return k.name, k.text, true
}

type whereCase struct{ parent, child, text string }

var handWhere = map[string][]whereCase{
	"Encounter": {{"statusHistory", "status", "entered-in-error"}, {"statusHistory", "status", "planned"}, {"statusHistory", "status", "entered-in_error"}, {"statusHistory", "status", "cancelled"},
		{"location", "status", "completed"}, {"location", "status", "active"}},
	"Observation": {{"performer", "reference", "Practitioner/1/_history/2"}, {"performer", "reference", "Practitioner/1"}, {"performer", "reference", "Organization/2"}, {"performer", "reference", "#contained"},
		{"performer", "reference", "Practitioner/2"}, {"category", "text", "a"}, {"category", "text", "z"}},
	"OperationOutcome": {{"issue", "code", "not-found"}, {"issue", "code", "invalid"}, {"issue", "code", "multiple-matches"}, {"issue", "code", "multiple-matches_"}, {"issue", "severity", "warning"}, {"issue", "severity", "error"},
		{"issue", "diagnostics", "d1"}},
	"Patient": {{"telecom", "value", "222"}, {"telecom", "value", "999"}, {"address", "city", "Y"}},
}


// runC18Histories: sequences of operations in which an element put into the resource is patched afterwards and the
// same value is supplied again — what the second operation substitutes is the value supplied, nothing that an earlier
// operation (on this or on another resource) left behind; also the code 'invalid-uninitialized' is no code.
func runC18Histories(c *Ctx) {
	ext := func(u, v string) *dtpb.Extension {
		return &dtpb.Extension{Url: &dtpb.Uri{Value: u}, Value: &dtpb.Extension_ValueX{Choice: &dtpb.Extension_ValueX_StringValue{StringValue: &dtpb.String{Value: v}}}}
	}
	js := func(r fhir.Resource) string { return canonJSONOf(r) }
	step := func(what string, err error) bool {
		c.Observe("history "+what, true)
		if err != nil {
			c.Law(false, "C18/history", "an operation with a right value on an existing element succeeds", what, err.Error())
			return false
		}
		return true
	}
	for _, code := range []string{"female", "male", "other", "unknown"} {
		other := "male"
		if code == "male" {
			other = "female"
		}
		p := mustResource(`{"resourceType":"Patient","id":"h1","gender":"` + other + `"}`)
		q := mustResource(`{"resourceType":"Patient","id":"h2"}`)
		ok := step("replace gender "+code, patch.Replace(p, "Patient.gender", &dtpb.Code{Value: code})) &&
			step("add gender on the second resource", patch.Add(q, "Patient", "gender", &dtpb.Code{Value: code}, &patch.Options{}))
		qBefore := js(q)
		ok = ok && step("add extension inside gender", patch.Add(p, "Patient.gender", "extension", ext("http://x/e", "v"), &patch.Options{}))
		c.Law(js(q) == qBefore, "C18/history", "patching inside an element of one resource leaves every other resource unchanged", "replace Patient.gender '"+code+"' on A; add it on B; add Patient.gender.extension on A", js(q)+" was "+qBefore)
		ok = ok && step("replace gender "+other, patch.Replace(p, "Patient.gender", &dtpb.Code{Value: other})) &&
			step("replace gender back "+code, patch.Replace(p, "Patient.gender", &dtpb.Code{Value: code}))
		if ok {
			want := `{"gender":"` + code + `","id":"h1","resourceType":"Patient"}`
			c.Law(js(p) == want, "C18/history", "replace substitutes the value supplied: nothing an earlier operation left behind comes back", "replace '"+code+"', add extension inside it, replace '"+other+"', replace '"+code+"' again", js(p)+" want "+want)
		}
		// lists: a value added, patched, deleted and added again
		r := mustResource(`{"resourceType":"Patient","id":"h3","name":[{"family":"A"}]}`)
		ok = step("add name.use", patch.Add(r, "Patient.name[0]", "use", &dtpb.Code{Value: "official"}, &patch.Options{})) &&
			step("add name.use.extension", patch.Add(r, "Patient.name[0].use", "extension", ext("http://x/e", "w"), &patch.Options{})) &&
			step("delete name.use", patch.Delete(r, "Patient.name[0].use")) &&
			step("add name.use again", patch.Add(r, "Patient.name[0]", "use", &dtpb.Code{Value: "official"}, &patch.Options{}))
		if ok {
			want := `{"id":"h3","name":[{"family":"A","use":"official"}],"resourceType":"Patient"}`
			c.Law(js(r) == want, "C18/history", "add stores the value supplied: nothing an earlier operation left behind comes back", "add use 'official', add extension inside it, delete it, add 'official' again", js(r)+" want "+want)
		}
	}
	// an element whose content also occurs nested inside an earlier sibling: the operation is on the element named
	{
		mkRes := func() fhir.Resource {
			return mustResource(`{"resourceType":"Patient","id":"h6","extension":[{"url":"http://x/outer","extension":[{"url":"http://x/flag","valueString":"x"}]},{"url":"http://x/flag","valueString":"x"},{"url":"http://x/last","valueBoolean":true}]}`)
		}
		outer := `{"extension":[{"url":"http://x/flag","valueString":"x"}],"url":"http://x/outer"}`
		flag, last := `{"url":"http://x/flag","valueString":"x"}`, `{"url":"http://x/last","valueBoolean":true}`
		wrap := func(exts ...string) string { return `{"extension":[` + strings.Join(exts, ",") + `],"id":"h6","resourceType":"Patient"}` }
		type tc struct {
			what string
			run  func(r fhir.Resource) error
			want string
		}
		repl := ext("http://x/new", "n")
		newJS := `{"url":"http://x/new","valueString":"n"}`
		for _, t := range []tc{
			{"delete Patient.extension[1]", func(r fhir.Resource) error { return patch.Delete(r, "Patient.extension[1]") }, wrap(outer, last)},
			{"delete Patient.extension.where(url = 'http://x/flag')", func(r fhir.Resource) error { return patch.Delete(r, "Patient.extension.where(url = 'http://x/flag')") }, wrap(outer, last)},
			{"replace Patient.extension[1]", func(r fhir.Resource) error { return patch.Replace(r, "Patient.extension[1]", repl) }, wrap(outer, newJS, last)},
			{"replace Patient.extension.where(url = 'http://x/flag')", func(r fhir.Resource) error {
				return patch.Replace(r, "Patient.extension.where(url = 'http://x/flag')", repl)
			}, wrap(outer, newJS, last)},
			{"delete Patient.extension[0].extension[0]", func(r fhir.Resource) error { return patch.Delete(r, "Patient.extension[0].extension[0]") }, wrap(`{"url":"http://x/outer"}`, flag, last)},
		} {
			r := mkRes()
			before := js(r)
			var err error
			_, pan, _ := safeErr(func() error { err = t.run(r); return nil })
			c.Observe("nested twin "+t.what, true)
			c.Law(!pan, "C18/history", "a patch operation returns", t.what, "panic")
			if err == nil {
				c.Law(js(r) == t.want, "C18/wrong-edit", "the operation changes exactly the element the path names, also when an earlier sibling contains an element with the same content", t.what+" on "+before, js(r))
			} else {
				c.Law(js(r) == before, "C18/error-modified", "a refused operation leaves the resource as it was", t.what, js(r))
			}
		}
	}
	// paths that go through a contained resource: the operation lands in the resource handed in, or is refused
	{
		mkRes := func() fhir.Resource {
			return mustResource(`{"resourceType":"Patient","id":"h7","contained":[{"resourceType":"Patient","id":"c1","birthDate":"1980-02-29","name":[{"family":"A"},{"family":"B"}]}],"birthDate":"2000-01-01"}`)
		}
		type tc struct {
			what string
			run  func(r fhir.Resource) error
			want string
		}
		cont := func(body string) string {
			return `{"birthDate":"2000-01-01","contained":[{` + body + `"id":"c1",` + `"resourceType":"Patient"}],"id":"h7","resourceType":"Patient"}`
		}
		for _, t := range []tc{
			{"delete Patient.contained[0].birthDate", func(r fhir.Resource) error { return patch.Delete(r, "Patient.contained[0].birthDate") }, cont(`"name":[{"family":"A"},{"family":"B"}],`)},
			{"delete Patient.contained[0].name[0]", func(r fhir.Resource) error { return patch.Delete(r, "Patient.contained[0].name[0]") }, ""},
			{"replace Patient.contained[0].birthDate", func(r fhir.Resource) error {
				return patch.Replace(r, "Patient.contained[0].birthDate", fhir.MustParseDate("1990-05-05"))
			}, ""},
			{"add Patient.contained[0] active", func(r fhir.Resource) error {
				return patch.Add(r, "Patient.contained[0]", "active", fhir.Boolean(true), &patch.Options{})
			}, ""},
		} {
			r := mkRes()
			before := js(r)
			var err error
			_, pan, _ := safeErr(func() error { err = t.run(r); return nil })
			c.Observe("contained "+t.what, true)
			c.Law(!pan, "C18/history", "a patch operation returns", t.what, "panic")
			if err == nil {
				good := js(r) != before
				if t.want != "" {
					good = js(r) == t.want
				}
				c.Law(good, "C18/contained-copy", "an operation that reports success has changed the resource it was given (a path through `contained` must not be applied to an unpacked copy)", t.what+" on "+before, "returned nil; resource afterwards: "+js(r))
			} else {
				c.Law(js(r) == before, "C18/error-modified", "a refused operation leaves the resource as it was", t.what, js(r))
			}
		}
	}
	// ... also when the resource with the packed contained resource is itself embedded (a Bundle entry; the JSON
	// parser of google/fhir does not read Parameters.parameter.resource): the root has no `contained` of its own
	{
		roots := []struct{ name, json, prefix string }{
			{"Bundle", `{"resourceType":"Bundle","id":"b7","type":"collection","entry":[{"resource":{"resourceType":"Patient","id":"h7","contained":[{"resourceType":"Patient","id":"c1","birthDate":"1980-02-29","name":[{"family":"A"},{"family":"B"}]}],"birthDate":"2000-01-01"}}]}`, "Bundle.entry[0].resource"},
			{"Bundle (un-indexed)", `{"resourceType":"Bundle","id":"b8","type":"collection","entry":[{"resource":{"resourceType":"Patient","id":"h7","contained":[{"resourceType":"Patient","id":"c1","birthDate":"1980-02-29","name":[{"family":"A"}]}]}}]}`, "Bundle.entry.resource"},
		}
		for _, root := range roots {
			type tc struct {
				what string
				run  func(r fhir.Resource) error
			}
			pre := root.prefix
			for _, t := range []tc{
				{"delete " + pre + ".contained[0].birthDate", func(r fhir.Resource) error { return patch.Delete(r, pre+".contained[0].birthDate") }},
				{"delete " + pre + ".contained[0].name[0]", func(r fhir.Resource) error { return patch.Delete(r, pre+".contained[0].name[0]") }},
				{"replace " + pre + ".contained[0].birthDate", func(r fhir.Resource) error {
					return patch.Replace(r, pre+".contained[0].birthDate", fhir.MustParseDate("1990-05-05"))
				}},
				{"replace " + pre + ".contained[0].name[0].family", func(r fhir.Resource) error {
					return patch.Replace(r, pre+".contained[0].name[0].family", &dtpb.String{Value: "Z"})
				}},
				{"add " + pre + ".contained[0] active", func(r fhir.Resource) error {
					return patch.Add(r, pre+".contained[0]", "active", fhir.Boolean(true), &patch.Options{})
				}},
				{"insert " + pre + ".contained[0].name", func(r fhir.Resource) error {
					return patch.Insert(r, pre+".contained[0].name", &dtpb.HumanName{Family: &dtpb.String{Value: "N"}}, 0)
				}},
				{"delete " + pre + ".contained.name.family", func(r fhir.Resource) error { return patch.Delete(r, pre+".contained.name.family.first()") }},
			} {
				r := mustResource(root.json)
				before := js(r)
				var err error
				_, pan, _ := safeErr(func() error { err = t.run(r); return nil })
				c.Observe("embedded contained "+t.what, true)
				c.Law(!pan, "C18/history", "a patch operation returns", t.what, "panic")
				if err == nil {
					c.Law(js(r) != before, "C18/contained-copy", "an operation that reports success has changed the resource it was given (a path through `contained` must not be applied to an unpacked copy)", t.what+" on "+before, "returned nil; resource afterwards: "+js(r))
				} else {
					c.Law(js(r) == before, "C18/error-modified", "a refused operation leaves the resource as it was", t.what, js(r))
				}
			}
		}
	}
	// one code text on same-named elements of different resource types: every resource type has its own value set (and its own
	// enum numbering), whatever was patched before in this process
	{
		types := []struct{ name, json string }{
			{"Observation", `{"resourceType":"Observation","id":"o","status":"%s","code":{"text":"x"}}`},
			{"DiagnosticReport", `{"resourceType":"DiagnosticReport","id":"d","status":"%s","code":{"text":"x"}}`},
			{"Encounter", `{"resourceType":"Encounter","id":"e","status":"%s","class":{"code":"AMB"}}`},
			{"Task", `{"resourceType":"Task","id":"t","status":"%s","intent":"order"}`},
			{"MedicationRequest", `{"resourceType":"MedicationRequest","id":"m","status":"%s","intent":"order","medicationCodeableConcept":{"text":"x"},"subject":{"reference":"Patient/1"}}`},
		}
		first := map[string]string{"Observation": "registered", "DiagnosticReport": "registered", "Encounter": "planned", "Task": "draft", "MedicationRequest": "active"}
		codes := []string{"final", "appended", "amended", "registered", "preliminary", "corrected", "cancelled", "entered-in-error", "unknown", "planned", "arrived", "in-progress", "finished", "draft", "requested", "completed", "partial", "active", "on-hold", "stopped", "triaged", "onleave", "rejected", "failed", "ready", "accepted", "received"}
		valid := func(tj, code string) (string, bool) {
			var r fhir.Resource
			_, pan, _ := safeErr(func() error { r = mustResource(fmt.Sprintf(tj, code)); return nil })
			if pan || r == nil {
				return "", false
			}
			return canonJSONOf(r), true
		}
		for round := 0; round < 2; round++ {
			for _, code := range codes {
				for _, ty := range types {
					r := mustResource(fmt.Sprintf(ty.json, first[ty.name]))
					before := js(r)
					want, ok := valid(ty.json, code)
					var err error
					_, pan, _ := safeErr(func() error { err = patch.Replace(r, ty.name+".status", &dtpb.Code{Value: code}); return nil })
					what := "replace " + ty.name + ".status with '" + code + "' (after the same code text was patched on other resource types)"
					c.Observe("cross-type code "+ty.name+" "+code, true)
					c.Law(!pan, "C18/history", "a patch operation returns", what, "panic")
					if ok {
						c.Law(err == nil && js(r) == want, "C18/wrong-edit", "replace stores the code supplied, read in the value set of the element it is stored in", what, fmt.Sprint(err)+" "+js(r)+" want "+want)
					} else {
						c.Law(err != nil && js(r) == before, "C18/invalid-code-accepted", "a code outside the element's value set is refused and the resource left as it was", what, fmt.Sprint(err)+" "+js(r))
					}
				}
			}
		}
	}
	// the protos' placeholder enum value is not a code of any value set
	for _, v := range []string{"invalid-uninitialized", "INVALID_UNINITIALIZED", "invalid_uninitialized"} {
		p := mustResource(`{"resourceType":"Patient","id":"h4","gender":"male"}`)
		before := js(p)
		err := patch.Replace(p, "Patient.gender", &dtpb.Code{Value: v})
		c.Observe("placeholder code "+v, true)
		c.Law(err != nil && js(p) == before, "C18/invalid-code-accepted", "an invalid code is an error and leaves the resource as it was", "replace Patient.gender with the code '"+v+"'", fmt.Sprint(err)+" "+js(p))
		p2 := mustResource(`{"resourceType":"Patient","id":"h5"}`)
		err = patch.Add(p2, "Patient", "gender", &dtpb.Code{Value: v}, &patch.Options{})
		c.Law(err != nil && js(p2) == `{"id":"h5","resourceType":"Patient"}`, "C18/invalid-code-accepted", "an invalid code is an error and leaves the resource as it was", "add Patient.gender with the code '"+v+"'", fmt.Sprint(err)+" "+js(p2))
	}
}

// canonJSONOf: the resource's FHIR JSON with object keys sorted
func canonJSONOf(r fhir.Resource) (out string) {
	// a resource whose enum number is outside its value set makes the JSON marshaller panic: that is a rendering
	// ("unmarshalable") every law then compares with the expected JSON, not the end of the run
	defer func() {
		if p := recover(); p != nil {
			out = fmt.Sprintf("unmarshalable: panic in the JSON marshaller: %v", p)
		}
	}()
	b, err := marshalJSON(r)
	if err != nil {
		return "unmarshalable: " + err.Error()
	}
	var v any
	if json.Unmarshal(b, &v) != nil {
		return string(b)
	}
	o, _ := json.Marshal(v)
	return string(o)
}
