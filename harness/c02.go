package main

// C02 — path navigation returns exactly the elements of the resource's FHIR JSON tree.
//
// Layer A (model correspondence): one navigation step, FieldExpression.Evaluate, on every message
// of generated resources x a set of names (real element names, their snake/capitalised forms,
// `value`, `reference`, the fake date fields, names of other types, bogus names), described to
// the Lean model FP.Model.Navigate by the facts of its descriptor and content.
// Layer B (JSON oracle on the implementation): the resource is rendered with google/fhir's
// jsonformat, the JSON tree is walked in parallel with the descriptors, and every dotted path
// (and prefixes, indexed and un-indexed) is evaluated through fhirpath.Compile/Evaluate and
// compared with the JSON nodes: number, order, type and primitive values.

import (
	apb "github.com/google/fhir/go/proto/google/fhir/proto/annotations_go_proto"
	"google.golang.org/protobuf/reflect/protoregistry"
	ppb "github.com/google/fhir/go/proto/google/fhir/proto/r4/core/resources/patient_go_proto"
	"bytes"
	"encoding/json"
	"errors"
	"fmt"
	"regexp"
	"sort"
	"strings"
	"time"

	"github.com/iancoleman/strcase"
	"github.com/shopspring/decimal"
	dtpb "github.com/google/fhir/go/proto/google/fhir/proto/r4/core/datatypes_go_proto"
	bcrpb "github.com/google/fhir/go/proto/google/fhir/proto/r4/core/resources/bundle_and_contained_resource_go_proto"
	"github.com/verily-src/fhirpath-go/fhirpath"
	"github.com/verily-src/fhirpath-go/fhirpath/internal/expr"
	"github.com/verily-src/fhirpath-go/fhirpath/system"
	"github.com/verily-src/fhirpath-go/internal/containedresource"
	"github.com/verily-src/fhirpath-go/internal/fhir"
	"github.com/verily-src/fhirpath-go/internal/fhirconv"
	"github.com/verily-src/fhirpath-go/internal/protofields"
	"google.golang.org/protobuf/proto"
	"google.golang.org/protobuf/reflect/protoreflect"
	"google.golang.org/protobuf/types/known/anypb"
)

func init() { props["C02"] = runC02 }

// ---------------------------------------------------------------- layer A

type navCtx struct {
	ids    *IDTable
	anyRes []anyEntry // resources unpacked (by the harness) from Any values
	anyOf  map[*anypb.Any]proto.Message
}
type anyEntry struct {
	id  int
	res proto.Message
}

func isDateLike(m proto.Message) bool {
	switch m.(type) {
	case *dtpb.Date, *dtpb.DateTime, *dtpb.Time, *dtpb.Instant:
		return true
	}
	return false
}

// expectedRefString: what `reference` must read back as, computed from the descriptor facts
// (independent of the implementation): uri verbatim, '#'+fragment, Type/id[/_history/v].
func expectedRefString(ref *dtpb.Reference) (string, bool) {
	r := ref.ProtoReflect()
	oo := r.Descriptor().Oneofs().ByName("reference")
	fd := r.WhichOneof(oo)
	if fd == nil {
		return "", false
	}
	switch string(fd.Name()) {
	case "uri":
		return ref.GetUri().GetValue(), true
	case "fragment":
		return "#" + ref.GetFragment().GetValue(), true
	}
	rid := r.Get(fd).Message().Interface().(*dtpb.ReferenceId)
	jn := fd.JSONName() // patientId
	tn := strings.ToUpper(jn[:1]) + strings.TrimSuffix(jn[1:], "Id")
	s := tn + "/" + rid.GetValue()
	if rid.GetHistory() != nil {
		s += "/_history/" + rid.GetHistory().GetValue()
	}
	return s, true
}

func (n *navCtx) unpackAny(a *anypb.Any) proto.Message {
	if n.anyOf == nil {
		n.anyOf = map[*anypb.Any]proto.Message{}
	}
	if r, ok := n.anyOf[a]; ok {
		return r
	}
	r := n.unpackAny1(a)
	n.anyOf[a] = r
	if r != nil {
		n.anyRes = append(n.anyRes, anyEntry{n.ids.ID(r), r})
	}
	return r
}

func (n *navCtx) unpackAny1(a *anypb.Any) proto.Message {
	cr := &bcrpb.ContainedResource{}
	if a.UnmarshalTo(cr) != nil {
		return nil
	}
	res := containedresource.Unwrap(cr)
	if res == nil {
		return nil
	}
	return res
}

func (n *navCtx) child(v proto.Message) string {
	switch x := v.(type) {
	case *anypb.Any:
		id := n.ids.ID(x)
		res := n.unpackAny(x)
		if res == nil {
			return fmt.Sprintf("r%d:-", id)
		}
		return fmt.Sprintf("r%d:%d", id, n.ids.ID(res))
	case *bcrpb.ContainedResource:
		id := n.ids.ID(x)
		res := containedresource.Unwrap(x)
		if res == nil {
			return fmt.Sprintf("r%d:-", id)
		}
		return fmt.Sprintf("r%d:%d", id, n.ids.ID(res))
	}
	if ext, ok := v.(*dtpb.Extension); ok && ext.GetUrl().GetValue() == noValueMarkerURL {
		return fmt.Sprintf("x%d", n.ids.ID(v))
	}
	d := v.ProtoReflect().Descriptor()
	if isChoiceMsg(d) {
		r := v.ProtoReflect()
		var chosen protoreflect.FieldDescriptor
		for i := 0; i < d.Oneofs().Len(); i++ {
			if fd := r.WhichOneof(d.Oneofs().Get(i)); fd != nil {
				chosen = fd
			}
		}
		if chosen == nil || chosen.Kind() != protoreflect.MessageKind {
			return fmt.Sprintf("c%d:-", n.ids.ID(v))
		}
		return fmt.Sprintf("c%d:%d", n.ids.ID(v), n.ids.ID(r.Get(chosen).Message().Interface()))
	}
	return fmt.Sprintf("p%d", n.ids.ID(v))
}

// describe renders the model's MsgDesc token of a message (already unwrapped).
func (n *navCtx) describe(m proto.Message) string {
	r := m.ProtoReflect()
	d := r.Descriptor()
	b := func(x bool) string {
		if x {
			return "1"
		}
		return "0"
	}
	refTok := "-"
	_, isRef := m.(*dtpb.Reference)
	if isRef {
		if _, ok := expectedRefString(m.(*dtpb.Reference)); ok {
			refTok = "0"
		}
	}
	var fs []string
	for i := 0; i < d.Fields().Len(); i++ {
		fd := d.Fields().Get(i)
		isMsg := fd.Kind() == protoreflect.MessageKind
		var vals []string
		if isMsg && r.Has(fd) {
			if fd.IsList() {
				l := r.Get(fd).List()
				for k := 0; k < l.Len(); k++ {
					vals = append(vals, n.child(l.Get(k).Message().Interface()))
				}
			} else {
				vals = append(vals, n.child(r.Get(fd).Message().Interface()))
			}
		}
		vt := "-"
		if len(vals) > 0 {
			vt = strings.Join(vals, "+")
		}
		fs = append(fs, fmt.Sprintf("%s,%s,%s,%s,%s", fd.Name(), fd.JSONName(), b(fd.IsList()), b(isMsg), vt))
	}
	ft := "-"
	if len(fs) > 0 {
		ft = strings.Join(fs, ";")
	}
	_, fromErr := system.From(m)
	return fmt.Sprintf("%d|%s|%s|%s|%s|%s|%s|%s", n.ids.ID(m), d.Name(), b(isDateLike(m)), b(isRef), refTok, b(fromErr == nil), b(hasNoValueMarker(m)), ft)
}

// the extension google/fhir's JSON parser puts on a primitive that has an id or extensions but no value (read off the
// protos here, independently of the repository's own test for it)
const noValueMarkerURL = "https://g.co/fhir/StructureDefinition/primitiveHasNoValue"

func hasNoValueMarker(m proto.Message) bool {
	fd := m.ProtoReflect().Descriptor().Fields().ByName("extension")
	if fd == nil || !fd.IsList() || fd.Message() == nil || fd.Message().Name() != "Extension" {
		return false
	}
	l := m.ProtoReflect().Get(fd).List()
	for i := 0; i < l.Len(); i++ {
		if ext, ok := l.Get(i).Message().Interface().(*dtpb.Extension); ok && ext.GetUrl().GetValue() == noValueMarkerURL {
			return true
		}
	}
	return false
}

func dateLikeString(m proto.Message) (string, bool) {
	switch v := m.(type) {
	case *dtpb.Date:
		return fhirconv.DateToString(v), true
	case *dtpb.DateTime:
		return fhirconv.DateTimeToString(v), true
	case *dtpb.Time:
		return fhirconv.TimeToString(v), true
	case *dtpb.Instant:
		return fhirconv.InstantToString(v), true
	}
	return "", false
}

// stepOut canonicalises what the real step produced for the messages `msgs`.
func (n *navCtx) stepOut(c *Ctx, name string, msgs []proto.Message, out system.Collection, err error, pan bool) string {
	if pan {
		return "panic"
	}
	if err != nil {
		if errors.Is(err, expr.ErrInvalidField) {
			return "err:invalid-field"
		}
		return "err:" + errClass(err)
	}
	var toks []string
	usedAny := map[int]bool{}
	cursor := 0
	for _, it := range out {
		switch v := it.(type) {
		case proto.Message:
			if id, ok := n.ids.m[v]; ok {
				toks = append(toks, fmt.Sprintf("n%d", id))
				continue
			}
			matched := false
			for ai, a := range n.anyRes {
				if !usedAny[ai] && proto.Equal(a.res, v) {
					usedAny[ai] = true
					toks = append(toks, fmt.Sprintf("n%d", a.id))
					matched = true
					break
				}
			}
			if matched {
				continue
			}
			if s, ok := v.(*dtpb.String); ok {
				// synthesised reference string: must be the expected rendering of one of the inputs
				good := false
				for _, m := range msgs {
					if ref, ok := m.(*dtpb.Reference); ok {
						if want, ok := expectedRefString(ref); ok && want == s.GetValue() {
							good = true
						}
					}
				}
				c.Law(good, "C02/reference-string", "typed references read back as Type/id[/_history/v], untyped ones verbatim, fragments as #id", fmt.Sprintf("%s on %v", name, msgs), s.GetValue())
				toks = append(toks, "S0")
				continue
			}
			toks = append(toks, "n?")
		default:
			// a System value: the primitive's own value, or the rendered date/time string
			tok := "P?"
			for mi := cursor; mi < len(msgs); mi++ {
				m := msgs[mi]
				if want, e := system.From(m); e == nil && valToken(want) == valToken(v.(system.Any)) && !(isDateLike(m) && name == "value") {
					tok = fmt.Sprintf("P%d", n.ids.ID(m))
					cursor = mi + 1
					break
				}
				if s, ok := dateLikeString(m); ok && name == "value" {
					if sv, ok := v.(system.String); ok && string(sv) == s {
						tok = "V"
						cursor = mi + 1
						break
					}
				}
			}
			toks = append(toks, tok)
		}
	}
	return "ok:" + strings.Join(toks, " ")
}

func (n *navCtx) runStep(c *Ctx, name string, msgs []proto.Message) {
	snake := strcase.ToSnake(name)
	var coll system.Collection
	var descs []string
	for _, m := range msgs {
		coll = append(coll, m)
		descs = append(descs, n.describe(m))
	}
	var out system.Collection
	var err error
	_, pan, _ := safeErr(func() error {
		out, err = (&expr.FieldExpression{FieldName: name}).Evaluate(expr.InitializeContext(coll), coll)
		return nil
	})
	got := n.stepOut(c, name, msgs, out, err, pan)
	c.Emit("fstep "+hexs(name)+" "+hexs(snake)+" "+strings.Join(descs, " "), got, err == nil && len(out) > 0)
	switch {
	case pan:
		c.Count("step:panic")
	case err != nil:
		c.Count("step:error")
	case len(out) == 0:
		c.Count("step:empty")
	default:
		c.Count("step:values")
	}
}

// ---------------------------------------------------------------- layer B

type jnode struct {
	d   protoreflect.MessageDescriptor
	v   any            // JSON value: object, string, json.Number, bool, or nil (extension-only primitive)
	ext map[string]any // the `_name` companion of a primitive
	sys bool           // the System value of a primitive (`.value`), not an element
}

type jstep struct {
	name string
	idx  int // -1: no indexer
}

var identRe = regexp.MustCompile(`^([A-Za-z]|_)([A-Za-z0-9]|_)*$`)
var fpKeywords = map[string]bool{"div": true, "mod": true, "and": true, "or": true, "xor": true, "implies": true, "true": true, "false": true,
	"day": true, "days": true, "year": true, "years": true, "month": true, "months": true, "week": true, "weeks": true, "hour": true, "hours": true,
	"minute": true, "minutes": true, "second": true, "seconds": true, "millisecond": true, "milliseconds": true}

func fpName(n string) string {
	if !identRe.MatchString(n) || fpKeywords[n] {
		return "`" + n + "`"
	}
	return n
}

func pathString(root string, steps []jstep) string {
	var b strings.Builder
	b.WriteString(root)
	for _, s := range steps {
		if b.Len() > 0 {
			b.WriteString(".")
		}
		b.WriteString(fpName(s.name))
		if s.idx >= 0 {
			fmt.Fprintf(&b, "[%d]", s.idx)
		}
	}
	return b.String()
}

func upperFirst(s string) string {
	if s == "" {
		return s
	}
	return strings.ToUpper(s[:1]) + s[1:]
}

func isResourceHolder(d protoreflect.MessageDescriptor) bool {
	return d.FullName() == "google.protobuf.Any" || d.Name() == "ContainedResource"
}

func resourceDescriptor(name string) protoreflect.MessageDescriptor {
	if r, ok := protofields.Resources[name]; ok {
		return r.New().ProtoReflect().Descriptor()
	}
	return nil
}

func isPrimitiveDesc(d protoreflect.MessageDescriptor) bool {
	return sdKind(d).String() == "KIND_PRIMITIVE_TYPE" || d.Name() == "Xhtml"
}

// jsonNames: FHIRPath element names available below a node (from the JSON keys).
func jsonNames(n jnode) []string {
	seen := map[string]bool{}
	add := func(k string) {
		k = strings.TrimPrefix(k, "_")
		if k == "resourceType" {
			return
		}
		if n.d.Fields().ByJSONName(k) != nil {
			seen[k] = true
			return
		}
		// choice: longest field JSON name that prefixes k and is a choice
		for i := 0; i < n.d.Fields().Len(); i++ {
			fd := n.d.Fields().Get(i)
			if fd.Kind() == protoreflect.MessageKind && isChoiceMsg(fd.Message()) && strings.HasPrefix(k, fd.JSONName()) && len(k) > len(fd.JSONName()) {
				seen[fd.JSONName()] = true
			}
		}
	}
	if isPrimitiveDesc(n.d) {
		for k := range n.ext {
			add(k)
		}
	} else if o, ok := n.v.(map[string]any); ok {
		for k := range o {
			add(k)
		}
	}
	out := make([]string, 0, len(seen))
	for k := range seen {
		out = append(out, k)
	}
	sort.Strings(out)
	return out
}

// jstepNodes: the JSON nodes below `n` named `name`; known=false if the type has no such element.
func jstepNodes(c *Ctx, n jnode, name string) (children []jnode, known bool) {
	if n.sys {
		return nil, false
	}
	if isPrimitiveDesc(n.d) && name == "value" {
		if n.v == nil {
			return nil, true
		}
		return []jnode{{n.d, n.v, nil, true}}, true
	}
	if n.d.Name() == "Reference" && name == "reference" {
		// FHIR's Reference.reference (a string) is stored in the proto as a oneof of typed ids
		obj, _ := n.v.(map[string]any)
		v, hasV := obj["reference"]
		e, hasE := obj["_reference"].(map[string]any)
		if !hasV && !hasE {
			return nil, true
		}
		return []jnode{{(&dtpb.String{}).ProtoReflect().Descriptor(), v, e, false}}, true
	}
	fd := n.d.Fields().ByJSONName(name)
	if fd == nil || fd.Kind() != protoreflect.MessageKind || fd.ContainingOneof() != nil {
		return nil, false // (members of Reference's oneof are proto-only names, not elements)
	}
	var obj map[string]any
	if isPrimitiveDesc(n.d) {
		obj = n.ext
	} else {
		obj, _ = n.v.(map[string]any)
	}
	if obj == nil {
		return nil, true
	}
	md := fd.Message()
	switch {
	case isChoiceMsg(md):
		for k, v := range obj {
			key := strings.TrimPrefix(k, "_")
			if strings.HasPrefix(k, "_") {
				if _, both := obj[key]; both {
					continue
				}
			}
			if !strings.HasPrefix(key, name) || len(key) <= len(name) || n.d.Fields().ByJSONName(key) != nil {
				continue
			}
			rest := key[len(name):]
			var member protoreflect.FieldDescriptor
			oo := md.Oneofs().Get(0)
			for i := 0; i < oo.Fields().Len(); i++ {
				m := oo.Fields().Get(i)
				jn := upperFirst(m.JSONName())
				if jn == rest || strings.TrimSuffix(jn, "Value") == rest || (m.Message() != nil && string(m.Message().Name()) == rest) {
					member = m
					break
				}
			}
			if member == nil {
				c.Count("oracle:choice-key-unmatched")
				continue
			}
			val := v
			if strings.HasPrefix(k, "_") {
				val = nil
			}
			e, _ := obj["_"+key].(map[string]any)
			children = append(children, jnode{member.Message(), val, e, false})
		}
		return children, true
	case isResourceHolder(md):
		add := func(v any) {
			o, ok := v.(map[string]any)
			if !ok {
				return
			}
			rt, _ := o["resourceType"].(string)
			if d := resourceDescriptor(rt); d != nil {
				children = append(children, jnode{d, o, nil, false})
			}
		}
		switch x := obj[name].(type) {
		case []any:
			for _, v := range x {
				add(v)
			}
		default:
			add(x)
		}
		return children, true
	}
	val, hasV := obj[name]
	ext, hasE := obj["_"+name]
	if !hasV && !hasE {
		return nil, true
	}
	if fd.IsList() {
		va, _ := val.([]any)
		ea, _ := ext.([]any)
		ln := len(va)
		if len(ea) > ln {
			ln = len(ea)
		}
		for i := 0; i < ln; i++ {
			var v any
			var e map[string]any
			if i < len(va) {
				v = va[i]
			}
			if i < len(ea) {
				e, _ = ea[i].(map[string]any)
			}
			children = append(children, jnode{md, v, e, false})
		}
		return children, true
	}
	e, _ := ext.(map[string]any)
	return append(children, jnode{md, val, e, false}), true
}

// jwalk: expected nodes of a path; invalid=true if some step names no element of some node's type.
func jwalk(c *Ctx, root jnode, steps []jstep) (nodes []jnode, invalid bool) {
	nodes = []jnode{root}
	for _, s := range steps {
		var next []jnode
		for _, n := range nodes {
			ch, known := jstepNodes(c, n, s.name)
			if !known {
				return nil, true
			}
			next = append(next, ch...)
		}
		if s.idx >= 0 {
			if s.idx < len(next) {
				next = next[s.idx : s.idx+1]
			} else {
				next = nil
			}
		}
		nodes = next
	}
	return nodes, false
}

// sameValue compares a result item with the JSON value of the node.
func sameValue(it any, n jnode) (ok bool, why string) {
	var sv system.Any
	if n.sys {
		v, isSys := it.(system.Any)
		if !isSys {
			return false, fmt.Sprintf("item is %T, not a System value", it)
		}
		switch n.d.Name() {
		case "Date", "DateTime", "Time", "Instant":
			s, ok := v.(system.String)
			return ok && string(s) == n.v, fmt.Sprintf("%v vs JSON %v", v, n.v)
		}
		sv = v
	} else {
		m, isMsg := it.(proto.Message)
		if !isMsg {
			return false, fmt.Sprintf("item is %T, not an element", it)
		}
		d := m.ProtoReflect().Descriptor()
		if d.FullName() != n.d.FullName() {
			return false, fmt.Sprintf("element is a %s, JSON position is a %s", d.Name(), n.d.Name())
		}
		if !isPrimitiveDesc(n.d) || n.v == nil {
			return true, ""
		}
		v, err := system.From(m)
		if err != nil {
			return false, "system.From: " + err.Error()
		}
		sv = v
	}
	switch jv := n.v.(type) {
	case bool:
		b, ok := sv.(system.Boolean)
		return ok && bool(b) == jv, fmt.Sprintf("%v vs JSON %v", sv, jv)
	case json.Number:
		want, err := decimal.NewFromString(jv.String())
		if err != nil {
			return false, "bad JSON number " + jv.String()
		}
		switch x := sv.(type) {
		case system.Integer:
			return decimal.NewFromInt32(int32(x)).Equal(want), fmt.Sprintf("%v vs JSON %v", sv, jv)
		case system.Decimal:
			return decimal.Decimal(x).Equal(want), fmt.Sprintf("%v vs JSON %v", sv, jv)
		}
		return false, fmt.Sprintf("%T for a JSON number", sv)
	case string:
		switch x := sv.(type) {
		case system.String:
			return string(x) == jv, fmt.Sprintf("%q vs JSON %q", string(x), jv)
		case system.Date, system.DateTime, system.Time:
			want, ok := expectTemporal(jv, string(n.d.Name()))
			if !ok {
				return false, "JSON date/time not understood by the oracle: " + jv
			}
			got := observeTemporal(x)
			return got == want, fmt.Sprintf("%s vs JSON %s (%s)", got, jv, want)
		}
		return false, fmt.Sprintf("%T for a JSON string", sv)
	}
	return false, fmt.Sprintf("unexpected JSON value %T", n.v)
}

type compiled struct {
	e   *fhirpath.Expression
	err error
}

// runC02History: a resource belongs to its owner, who may change it between two evaluations; every evaluation yields the
// elements the resource holds NOW.  The oracle is the same path on a deep copy made after the change (fresh objects that no
// earlier evaluation has seen).
func runC02History(c *Ctx) {
	render := func(o Outcome) string {
		if o.Panicked || o.TimedOut || o.Err != nil {
			return canonOutcome(o, nil)
		}
		parts := []string{}
		for _, it := range o.Coll {
			if m, ok := it.(proto.Message); ok {
				b, _ := proto.MarshalOptions{Deterministic: true}.Marshal(m)
				parts = append(parts, fmt.Sprintf("%s:%x", m.ProtoReflect().Descriptor().Name(), b))
			} else {
				parts = append(parts, fmt.Sprintf("%T:%v", it, it))
			}
		}
		return "[" + strings.Join(parts, " ") + "]"
	}
	eval := func(src string, r fhir.Resource) string {
		return render(safeEval(func() (system.Collection, error) { return fhirpath.MustCompile(src).Evaluate([]fhir.Resource{r}) }))
	}
	pat := func(id, family string) *ppb.Patient {
		return &ppb.Patient{Id: &dtpb.Id{Value: id}, Name: []*dtpb.HumanName{{Family: &dtpb.String{Value: family}, Given: []*dtpb.String{{Value: "G"}}}}}
	}
	paths := []string{"Patient.contained.id", "Patient.contained.name.family", "Patient.contained[0].name[0].family", "Patient.contained", "Patient.contained.name.given", "contained.id",
		"Patient.contained.where(id = 'p2').name.family", "Patient.descendants().count()", "Patient.name.family", "Patient.id", "Patient.name.given", "Patient.active", "Patient.birthDate", "Patient.contained.count()"}
	type change struct {
		what string
		do   func(r *ppb.Patient)
	}
	repack := func(a *anypb.Any, p *ppb.Patient) { _ = anypb.MarshalFrom(a, containedresource.Wrap(p), proto.MarshalOptions{}) }
	changes := []change{
		{"the packed contained resource is packed again into the same Any (same encoded length)", func(r *ppb.Patient) { repack(r.Contained[0], pat("p2", "Smyth")) }},
		{"the packed contained resource is packed again into the same Any (another length)", func(r *ppb.Patient) { repack(r.Contained[0], pat("p22", "Smythe")) }},
		{"the bytes of the Any are overwritten in place", func(r *ppb.Patient) {
			n, _ := anypb.New(containedresource.Wrap(pat("p2", "Smyth")))
			copy(r.Contained[0].Value, n.Value)
		}},
		{"the contained slot gets another Any", func(r *ppb.Patient) { r.Contained[0], _ = anypb.New(containedresource.Wrap(pat("p2", "Smyth"))) }},
		{"a second contained resource is appended", func(r *ppb.Patient) {
			a, _ := anypb.New(containedresource.Wrap(pat("p2", "Smyth")))
			r.Contained = append(r.Contained, a)
		}},
		{"a string value is overwritten in place", func(r *ppb.Patient) { r.Name[0].Family.Value = "Other" }},
		{"an element is replaced by another of the same content length", func(r *ppb.Patient) { r.Name[0] = &dtpb.HumanName{Family: &dtpb.String{Value: "Brown"}} }},
		{"an element is set that was absent", func(r *ppb.Patient) { r.Active = &dtpb.Boolean{Value: true} }},
		{"an element is removed", func(r *ppb.Patient) { r.Name = nil }},
		{"the id is overwritten", func(r *ppb.Patient) { r.Id.Value = "q9" }},
	}
	for _, ch := range changes {
		packed, _ := anypb.New(containedresource.Wrap(pat("p1", "Smith")))
		r := &ppb.Patient{Id: &dtpb.Id{Value: "o1"}, Contained: []*anypb.Any{packed}, Name: []*dtpb.HumanName{{Family: &dtpb.String{Value: "White"}, Given: []*dtpb.String{{Value: "A"}, {Value: "B"}}}}}
		for round := 0; round < 2; round++ { // evaluated twice before the change: a memo filled by the first evaluation is hit by the second
			for _, src := range paths {
				before := eval(src, r)
				fresh := eval(src, proto.Clone(r).(*ppb.Patient))
				c.Observe("history before "+ch.what+" "+src, true)
				c.Law(before == fresh, "C02/history-dependent", "a path yields the elements the resource holds now, whatever was evaluated before", src+" (repeated evaluation, before any change)", before+" vs on a fresh copy "+fresh)
			}
		}
		ch.do(r)
		for _, src := range paths {
			after := eval(src, r)
			fresh := eval(src, proto.Clone(r).(*ppb.Patient))
			c.Observe("history after "+ch.what+" "+src, after != "[]")
			c.Law(after == fresh, "C02/history-dependent", "a path yields the elements the resource holds now, whatever was evaluated before", src+" after: "+ch.what, after+" vs on a fresh copy "+fresh)
		}
	}
}

// runC02Valueless: a primitive element may have an id or extensions and no value (`"_birthDate": {"extension": [...]}`): the
// path to its extensions yields the extensions of the JSON rendering (google/fhir's parser marks such a primitive with an
// internal extension, which is no element of the resource), and `.value` yields nothing — there is no value in the JSON.
func runC02Valueless(c *Ctx) {
	type el struct{ path, jsonKey string }
	ext := func(u string) string { return `{"url":"` + u + `","valueString":"v"}` }
	cases := []struct {
		json  string
		paths []el
	}{
		{`{"resourceType":"Patient","id":"p","_birthDate":{"extension":[` + ext("http://x/b") + `]},"_active":{"id":"a1"},"_gender":{"extension":[` + ext("http://x/g1") + `,` + ext("http://x/g2") + `]},"_deceasedDateTime":{"extension":[` + ext("http://x/d") + `]},"name":[{"_family":{"extension":[` + ext("http://x/f") + `]},"given":["A",null],"_given":[null,{"extension":[` + ext("http://x/n") + `]}]}],"_multipleBirthInteger":{"id":"m1"}}`,
			[]el{{"Patient.birthDate", "http://x/b"}, {"Patient.active", ""}, {"Patient.gender", "http://x/g1 http://x/g2"}, {"Patient.deceased", "http://x/d"}, {"Patient.name.family", "http://x/f"}, {"Patient.name.given[1]", "http://x/n"}, {"Patient.multipleBirth", ""}}},
		{`{"resourceType":"Observation","id":"o","status":"final","code":{"text":"x","_id":{"extension":[` + ext("http://x/i") + `]}},"_effectiveInstant":{"extension":[` + ext("http://x/e") + `]},"_issued":{"extension":[` + ext("http://x/s") + `]},"valueQuantity":{"_value":{"extension":[` + ext("http://x/q") + `]},"_system":{"extension":[` + ext("http://x/u") + `]}},"_valueTime":{"id":"t"}}`,
			[]el{{"Observation.issued", "http://x/s"}, {"Observation.value.value", "http://x/q"}, {"Observation.value.system", "http://x/u"}}},
	}
	for _, cs := range cases {
		var r fhir.Resource
		_, pan, _ := safeErr(func() error { r = mustResource(cs.json); return nil })
		if pan || r == nil {
			c.Count("valueless-fixture-rejected")
			continue
		}
		eval := func(src string) (Outcome, string) {
			o := safeEval(func() (system.Collection, error) { return fhirpath.MustCompile(src).Evaluate([]fhir.Resource{r}) })
			if o.Panicked || o.TimedOut || o.Err != nil {
				return o, canonOutcome(o, nil)
			}
			parts := []string{}
			for _, it := range o.Coll {
				if s, err := system.From(it); err == nil {
					parts = append(parts, fmt.Sprint(s))
				} else {
					parts = append(parts, fmt.Sprintf("%T", it))
				}
			}
			return o, strings.Join(parts, " ")
		}
		// the same fixtures through the navigation MODEL: every message of the resource, stepped into by each of its
		// element names and by value / extension / id (the marker extension is described to the model as what it is)
		{
			nav := &navCtx{ids: NewIDTable()}
			msgs := []proto.Message{r}
			walkElementsRaw(r, func(parent proto.Message, fd protoreflect.FieldDescriptor, vals []proto.Message) { msgs = append(msgs, vals...) })
			for _, m := range msgs {
				if _, isAny := m.(*anypb.Any); isAny {
					continue
				}
				names := []string{"value", "extension", "id", "url"}
				d := m.ProtoReflect().Descriptor()
				for i := 0; i < d.Fields().Len(); i++ {
					if m.ProtoReflect().Has(d.Fields().Get(i)) {
						names = append(names, d.Fields().Get(i).JSONName())
					}
				}
				for _, nm := range names {
					nav.runStep(c, nm, []proto.Message{m})
				}
			}
		}
		for _, e := range cs.paths {
			_, urls := eval(e.path + ".extension.url")
			c.Observe("valueless "+e.path, true)
			c.Law(urls == e.jsonKey, "C02/valueless-primitive", "a primitive without a value yields the extensions its JSON rendering has, and no value", e.path+".extension.url on "+cs.json, "["+urls+"] want ["+e.jsonKey+"]")
			o, vals := eval(e.path + ".value")
			c.Law(o.Err == nil && !o.Panicked && len(o.Coll) == 0, "C02/valueless-primitive", "a primitive without a value yields the extensions its JSON rendering has, and no value", e.path+".value on "+cs.json, "["+vals+"] want nothing")
			o, _ = eval(e.path)
			c.Law(o.Err == nil && !o.Panicked && len(o.Coll) == 1, "C02/valueless-primitive", "a primitive without a value is an element of the resource (it has an id or extensions)", e.path+" on "+cs.json, fmt.Sprint(len(o.Coll))+" items")
		}
	}
}

func runC02(c *Ctx) {
	runC02History(c)
	runC02Valueless(c)
	c.meta.Rule = "layer A: every message of generated resources (all 146 R4 types; quick 1 per type, thorough 4) x {each element's JSON name (sampled), snake and capitalised forms, value, reference, valueUs/precision/timezone, names of other types, bogus names}, single messages and runs of 2-3 sibling messages, plus hand-built wrappers (empty ContainedResource, unset choice); layer B: every dotted path of the jsonformat rendering (capped per resource, sampled beyond) with and without root type name, random indexers at any step, foreign root type names, a bogus name appended; non-trivial = a step or path yielding at least one element; distinct by line / by (type, path)"
	// ---- every member of Reference's oneof: a typed reference (with and without a version) reads
	// back as Type/id[/_history/v]
	{
		refDesc := (&dtpb.Reference{}).ProtoReflect().Descriptor()
		members := refDesc.Oneofs().ByName("reference").Fields()
		readRef := fhirpath.MustCompile("Patient.generalPractitioner.reference")
		for i := 0; i < members.Len(); i++ {
			fd := members.Get(i)
			if fd.Message() == nil || fd.Message().Name() != "ReferenceId" {
				continue
			}
			for _, hist := range []string{"", "7"} {
				ref := &dtpb.Reference{}
				rid := &dtpb.ReferenceId{Value: "a-1.b"}
				if hist != "" {
					rid.History = &dtpb.Id{Value: hist}
				}
				ref.ProtoReflect().Set(fd, protoreflect.ValueOfMessage(rid.ProtoReflect()))
				want, _ := expectedRefString(ref)
				o := safeEval(func() (system.Collection, error) {
					return readRef.Evaluate([]fhir.Resource{&ppb.Patient{GeneralPractitioner: []*dtpb.Reference{ref}}})
				})
				got := canonOutcome(o, nil)
				if o.Err == nil && len(o.Coll) == 1 {
					if s, ok := o.Coll[0].(*dtpb.String); ok {
						got = s.GetValue()
					}
				}
				c.Observe("typed-reference "+string(fd.Name())+" "+hist, true)
				c.Law(got == want, "C02/reference-string", "typed references read back as Type/id[/_history/v], untyped ones verbatim, fragments as #id", "reference of a typed reference set through "+string(fd.Name())+" (want "+want+")", got)
			}
		}
	}
	// ---- every enumerated code of every R4 code-valued message: its System value is the FHIR code
	// (the original-code annotation, or the lower-kebab form of the enum name) — for every value of
	// every such message, whatever was rendered before
	{
		var codeTypes []protoreflect.MessageType
		protoregistry.GlobalTypes.RangeMessages(func(mt protoreflect.MessageType) bool {
			d := mt.Descriptor()
			if strings.HasPrefix(string(d.FullName()), "google.fhir.r4.core.") {
				if f := d.Fields().ByName("value"); f != nil && f.Kind() == protoreflect.EnumKind {
					codeTypes = append(codeTypes, mt)
				}
			}
			return true
		})
		sort.Slice(codeTypes, func(i, j int) bool { return codeTypes[i].Descriptor().FullName() < codeTypes[j].Descriptor().FullName() })
		n := 0
		for _, mt := range codeTypes {
			f := mt.Descriptor().Fields().ByName("value")
			vals := f.Enum().Values()
			for i := 0; i < vals.Len(); i++ {
				ev := vals.Get(i)
				if ev.Number() == 0 {
					continue
				}
				msg := mt.New()
				msg.Set(f, protoreflect.ValueOfEnum(ev.Number()))
				want := strings.ReplaceAll(strings.ToLower(string(ev.Name())), "_", "-")
				if orig, _ := proto.GetExtension(ev.Options(), apb.E_FhirOriginalCode).(string); orig != "" {
					want = orig
				}
				got := "?"
				if v, err := system.From(msg.Interface()); err == nil {
					got = fmt.Sprint(v)
				} else {
					got = "error: " + err.Error()
				}
				n++
				c.Law(got == want, "C02/code-value", "an enumerated code reads as its FHIR code, whatever was read before", string(mt.Descriptor().FullName())+" "+string(ev.Name()), got+" vs "+want)
			}
		}
		c.Observe(fmt.Sprintf("enumerated codes of %d code types: %d values", len(codeTypes), n), true)
	}
	types := resourceNames()
	per := 1
	if c.thorough {
		per = 4
	}
	cache := map[string]compiled{}
	compile := func(src string) compiled {
		if v, ok := cache[src]; ok {
			return v
		}
		e, err := fhirpath.Compile(src)
		if len(cache) > 200000 {
			cache = map[string]compiled{}
		}
		cache[src] = compiled{e, err}
		return cache[src]
	}
	var otherNames []string
	for _, t := range []string{"Patient", "Observation", "Timing", "Dosage"} {
		var d protoreflect.MessageDescriptor
		if r, ok := protofields.Resources[t]; ok {
			d = r.New().ProtoReflect().Descriptor()
		} else if e, ok := protofields.Elements[t]; ok {
			d = e.New().ProtoReflect().Descriptor()
		}
		if d == nil {
			continue
		}
		for i := 0; i < d.Fields().Len(); i++ {
			otherNames = append(otherNames, d.Fields().Get(i).JSONName())
		}
	}
	fixed := []string{"value", "reference", "valueUs", "precision", "timezone", "zzNope", "fooBar", "Value", "id", "extension", "x", "resourceType"}

	for _, tn := range types {
		for k := 0; k < per; k++ {
			g := &ResGen{r: c.rng, maxDepth: 2 + c.rng.Intn(2), density: 25 + c.rng.Intn(50)}
			res, js := g.GenValid(tn, c)
			if res == nil {
				c.Count("gen-failed")
				continue
			}
			c.Count("resource:" + tn)
			// ---------------- layer A
			nav := &navCtx{ids: NewIDTable()}
			msgs := []proto.Message{res}
			groups := [][]proto.Message{}
			walkElementsRaw(res, func(parent proto.Message, fd protoreflect.FieldDescriptor, vals []proto.Message) {
				msgs = append(msgs, vals...)
				if len(vals) >= 2 {
					groups = append(groups, vals)
				}
			})
			budget := 400
			if c.thorough {
				budget = 1500
			}
			stepsDone := 0
			for _, mi := range c.rng.Perm(len(msgs)) {
				if stepsDone > budget {
					break
				}
				m := msgs[mi]
				if _, isAny := m.(*anypb.Any); isAny {
					continue
				}
				if _, isCR := m.(*bcrpb.ContainedResource); isCR {
					continue
				}
				d := m.ProtoReflect().Descriptor()
				var names []string
				for i := 0; i < d.Fields().Len(); i++ {
					fd := d.Fields().Get(i)
					populated := m.ProtoReflect().Has(fd)
					if populated || c.rng.Intn(6) == 0 {
						names = append(names, fd.JSONName())
						if c.rng.Intn(8) == 0 {
							names = append(names, string(fd.Name()), upperFirst(fd.JSONName()), strcase.ToLowerCamel(string(fd.Name())))
						}
						if strings.HasSuffix(string(fd.Name()), "_value") && c.rng.Intn(2) == 0 {
							names = append(names, strcase.ToLowerCamel(strings.TrimSuffix(string(fd.Name()), "_value")))
						}
					}
				}
				names = append(names, Pick(c.rng, fixed), Pick(c.rng, fixed), Pick(c.rng, otherNames))
				if isDateLike(m) || d.Name() == "Reference" {
					names = append(names, fixed[:5]...)
				}
				for _, nm := range names {
					nav.runStep(c, nm, []proto.Message{m})
					stepsDone++
				}
			}
			for _, grp := range groups {
				if len(grp) > 3 {
					grp = grp[:3]
				}
				d := grp[0].ProtoReflect().Descriptor()
				if isResourceHolder(d) {
					continue
				}
				nm := d.Fields().Get(c.rng.Intn(d.Fields().Len())).JSONName()
				if c.rng.Intn(5) == 0 {
					nm = Pick(c.rng, fixed)
				}
				nav.runStep(c, nm, grp)
			}
			// ---------------- layer B
			dec := json.NewDecoder(bytes.NewReader(js))
			dec.UseNumber()
			var tree map[string]any
			if dec.Decode(&tree) != nil {
				c.Count("oracle:json-undecodable")
				continue
			}
			root := jnode{res.ProtoReflect().Descriptor(), tree, nil, false}
			input := []fhir.Resource{res}
			// enumerate un-indexed paths breadth-first
			type state struct {
				steps []jstep
				nodes []jnode
			}
			queue := []state{{nil, []jnode{root}}}
			var all []state
			cap := 250
			if c.thorough {
				cap = 1200
			}
			for len(queue) > 0 && len(all) < cap {
				st := queue[0]
				queue = queue[1:]
				nameSet := map[string]bool{}
				for _, n := range st.nodes {
					for _, nm := range jsonNames(n) {
						nameSet[nm] = true
					}
				}
				var nms []string
				for nm := range nameSet {
					nms = append(nms, nm)
				}
				sort.Strings(nms)
				for _, nm := range nms {
					steps := append(append([]jstep{}, st.steps...), jstep{nm, -1})
					nodes, invalid := jwalk(c, root, steps)
					ns := state{steps, nodes}
					all = append(all, ns)
					if !invalid && len(nodes) > 0 && len(steps) < 9 {
						queue = append(queue, ns)
					}
				}
			}
			check := func(src string, steps []jstep, what string) {
				want, invalid := jwalk(c, root, steps)
				ce := compile(src)
				if ce.err != nil {
					c.Law(false, "C02/path-does-not-compile", "every element of every resource type is reachable", tn+" :: "+src, ce.err.Error())
					return
				}
				o := safeEval(func() (system.Collection, error) { return ce.e.Evaluate(input) })
				c.Observe(tn+" "+src, !invalid && len(want) > 0)
				c.Count("path:" + what)
				in := tn + " :: " + src + " :: " + string(js)
				if o.Panicked || o.TimedOut {
					c.Law(false, "C02/panic", "navigation never crashes", in, o.PanicMsg)
					return
				}
				if invalid {
					c.Count("path:expected-invalid-field")
					class := "C02/unknown-name-not-rejected"
					if what == "reference-proto-name" {
						class = "C02/reference-proto-name-accepted"
					}
					c.Law(o.Err != nil && errors.Is(o.Err, expr.ErrInvalidField), class, "a name that is not an element of the type fails with ErrInvalidField", in, canonOutcome(o, nil))
					return
				}
				if o.Err != nil {
					c.Law(false, "C02/path-fails", "every path of the JSON tree evaluates", in, o.Err.Error())
					return
				}
				if len(o.Coll) != len(want) {
					c.Law(false, "C02/count", "a path yields exactly the elements at that path (same number, flattened)", in, fmt.Sprintf("got %d elements, JSON has %d", len(o.Coll), len(want)))
					return
				}
				c.Law(true, "C02/count", "", "", "")
				for i := range want {
					ok, why := sameValue(o.Coll[i], want[i])
					c.Law(ok, "C02/value", "elements come in document order with the JSON values (strings exactly, numbers numerically, dates and times as the same instant, precision and offset)", in, fmt.Sprintf("element %d: %s", i, why))
					if !ok {
						break
					}
				}
			}
			foreign := types[(sort.SearchStrings(types, tn)+1+c.rng.Intn(len(types)-1))%len(types)]
			for _, st := range all {
				src := pathString(tn, st.steps)
				check(src, st.steps, "rooted")
				if c.rng.Intn(3) == 0 {
					check(pathString("", st.steps), st.steps, "unrooted")
				}
				if len(st.nodes) == 0 {
					continue
				}
				// indexers: on the last step, and on a random earlier step
				if c.rng.Intn(2) == 0 {
					steps := append([]jstep{}, st.steps...)
					steps[len(steps)-1].idx = c.rng.Intn(len(st.nodes) + 1)
					check(pathString(tn, steps), steps, "indexed-last")
				}
				if len(st.steps) > 1 && c.rng.Intn(2) == 0 {
					steps := append([]jstep{}, st.steps...)
					k := c.rng.Intn(len(steps) - 1)
					pre, _ := jwalk(c, root, st.steps[:k+1])
					steps[k].idx = c.rng.Intn(len(pre) + 1)
					if c.rng.Intn(3) == 0 {
						steps[len(steps)-1].idx = 0
					}
					check(pathString(tn, steps), steps, "indexed-inner")
				}
				// a root type name that does not match yields empty
				if c.rng.Intn(6) == 0 {
					fsrc := pathString(foreign, st.steps)
					if ce := compile(fsrc); ce.err == nil {
						o := safeEval(func() (system.Collection, error) { return ce.e.Evaluate(input) })
						c.Observe(tn+" "+fsrc, false)
						c.Count("path:foreign-root")
						c.Law(!o.Panicked && o.Err == nil && len(o.Coll) == 0, "C02/foreign-root", "a root type name that does not match the resource yields empty", tn+" :: "+fsrc, canonOutcome(o, nil))
					}
				}
				// proto-only names of Reference (the members of its oneof) are not elements
				if st.nodes[0].d.Name() == "Reference" && c.rng.Intn(2) == 0 {
					steps := append(append([]jstep{}, st.steps...), jstep{Pick(c.rng, []string{"uri", "fragment", "patientId", "organizationId"}), -1})
					check(pathString(tn, steps), steps, "reference-proto-name")
				}
				// a non-existent name appended fails
				if c.rng.Intn(4) == 0 {
					steps := append(append([]jstep{}, st.steps...), jstep{Pick(c.rng, []string{"zzNope", "fooBar", "valu", "Id", "family_name"}), -1})
					check(pathString(tn, steps), steps, "bogus-name")
				}
			}
		}
	}
	runC02TemporalValues(c)
	runC02SchemaSweep(c)
	runC02ForeignRoots(c)
	// hand-built wrappers
	nav := &navCtx{ids: NewIDTable()}
	entry := &bcrpb.Bundle_Entry{Resource: &bcrpb.ContainedResource{}}
	nav.runStep(c, "resource", []proto.Message{entry})
	bundle := &bcrpb.Bundle{Entry: []*bcrpb.Bundle_Entry{entry, {Resource: containedresource.Wrap(mustResource(`{"resourceType":"Patient","id":"p"}`))}}}
	for _, src := range []string{"Bundle.entry.resource", "Bundle.entry.resource.id"} {
		ce := compile(src)
		if ce.err != nil {
			continue
		}
		o := safeEval(func() (system.Collection, error) { return ce.e.Evaluate([]fhir.Resource{bundle}) })
		c.Law(!o.Panicked && o.Err == nil && len(o.Coll) == 1, "C02/empty-wrapper", "an empty resource wrapper holds no element", src+" on a Bundle with an empty entry.resource and a Patient", canonOutcome(o, nil))
	}
}

// walkElementsRaw visits every populated message-valued field with its stored values
// (choice wrappers, Any and ContainedResource as stored), then descends: into the chosen
// member of choices and into the resource inside wrappers.
func walkElementsRaw(root proto.Message, f func(parent proto.Message, fd protoreflect.FieldDescriptor, vals []proto.Message)) {
	var rec func(m proto.Message, depth int)
	rec = func(m proto.Message, depth int) {
		if depth > 12 {
			return
		}
		r := m.ProtoReflect()
		fields := r.Descriptor().Fields()
		for i := 0; i < fields.Len(); i++ {
			fd := fields.Get(i)
			if fd.Kind() != protoreflect.MessageKind || !r.Has(fd) {
				continue
			}
			var vals []proto.Message
			if fd.IsList() {
				l := r.Get(fd).List()
				for k := 0; k < l.Len(); k++ {
					vals = append(vals, l.Get(k).Message().Interface())
				}
			} else {
				vals = append(vals, r.Get(fd).Message().Interface())
			}
			f(m, fd, vals)
			for _, v := range vals {
				switch x := v.(type) {
				case *anypb.Any:
					cr := &bcrpb.ContainedResource{}
					if x.UnmarshalTo(cr) == nil {
						if res := containedresource.Unwrap(cr); res != nil {
							rec(res, depth+1)
						}
					}
				case *bcrpb.ContainedResource:
					if res := containedresource.Unwrap(x); res != nil {
						rec(res, depth+1)
					}
				default:
					rec(v, depth+1)
				}
			}
		}
	}
	rec(root, 0)
}

var (
	jsonDateTimeRe = regexp.MustCompile(`^(\d{4})(?:-(\d\d)(?:-(\d\d)(?:T(\d\d):(\d\d):(\d\d)(?:\.(\d+))?(Z|[+-]\d\d:\d\d))?)?)?$`)
	jsonTimeRe     = regexp.MustCompile(`^(\d\d):(\d\d):(\d\d)(?:\.(\d+))?$`)
)

func atoi(s string) int {
	n := 0
	for _, c := range s {
		n = n*10 + int(c-'0')
	}
	return n
}

func fracNanos(f string) int {
	for len(f) < 9 {
		f += "0"
	}
	return atoi(f[:9])
}

// expectTemporal: what a FHIR JSON date / dateTime / instant / time denotes, computed without the
// library: kind, precision, offset (seconds), instant (UTC tuple).
func expectTemporal(js string, fhirType string) (string, bool) {
	if fhirType == "Time" {
		m := jsonTimeRe.FindStringSubmatch(js)
		if m == nil {
			return "", false
		}
		prec := "second"
		if m[4] != "" {
			prec = "millisecond"
		}
		return fmt.Sprintf("time %s %02d:%02d:%02d.%09d", prec, atoi(m[1]), atoi(m[2]), atoi(m[3]), fracNanos(m[4])), true
	}
	m := jsonDateTimeRe.FindStringSubmatch(js)
	if m == nil {
		return "", false
	}
	kind := "dateTime"
	if fhirType == "Date" {
		kind = "date"
		if m[4] != "" {
			return "", false
		}
	}
	mo, d := 1, 1
	prec := "year"
	if m[2] != "" {
		mo, prec = atoi(m[2]), "month"
	}
	if m[3] != "" {
		d, prec = atoi(m[3]), "day"
	}
	if m[4] == "" {
		t := time.Date(atoi(m[1]), time.Month(mo), d, 0, 0, 0, 0, time.UTC)
		return fmt.Sprintf("%s %s offset=0 %s", kind, prec, utcTuple(t)), true
	}
	prec = "second"
	if m[7] != "" {
		prec = "millisecond"
	}
	off := 0
	if tz := m[8]; tz != "Z" {
		off = atoi(tz[1:3])*3600 + atoi(tz[4:6])*60
		if tz[0] == '-' {
			off = -off
		}
	}
	t := time.Date(atoi(m[1]), time.Month(mo), d, atoi(m[4]), atoi(m[5]), atoi(m[6]), fracNanos(m[7]), time.FixedZone("", off))
	return fmt.Sprintf("%s %s offset=%d %s", kind, prec, off, utcTuple(t)), true
}

// observeTemporal renders a System date/time the same way from its representation.
func observeTemporal(v system.Any) string {
	precOf := map[string]string{"2006": "year", "2006-01": "month", "2006-01-02": "day", "2006T": "year", "2006-01T": "month", "2006-01-02T": "day",
		"2006-01-02T15Z07:00": "hour", "2006-01-02T15:04Z07:00": "minute", "2006-01-02T15:04:05Z07:00": "second", "2006-01-02T15:04:05.000Z07:00": "millisecond",
		"2006-01-02T15": "hour", "2006-01-02T15:04": "minute", "2006-01-02T15:04:05": "second", "2006-01-02T15:04:05.000": "millisecond",
		"15": "hour", "15:04": "minute", "15:04:05": "second", "15:04:05.000": "millisecond"}
	switch x := v.(type) {
	case system.Date:
		p := dateParts(x)
		_, off := p.t.Zone()
		return fmt.Sprintf("date %s offset=%d %s", precOf[p.l], off, utcTuple(p.t))
	case system.DateTime:
		p := dateTimeParts(x)
		_, off := p.t.Zone()
		return fmt.Sprintf("dateTime %s offset=%d %s", precOf[p.l], off, utcTuple(p.t))
	case system.Time:
		p := timeParts(x)
		return fmt.Sprintf("time %s %02d:%02d:%02d.%09d", precOf[p.l], p.t.Hour(), p.t.Minute(), p.t.Second(), p.t.Nanosecond())
	}
	return "?"
}
