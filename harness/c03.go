package main

// C03 — evaluation never mutates its inputs.  Generated programs (every node kind, every
// function) x generated resources x environment variables that alias the resource or carry
// spare slice capacity; deterministic serialisation, proto.Equal and the backing arrays of every
// input slice (up to capacity, with sentinels) are compared before and after, on success and on error.

import (
	"bytes"
	"fmt"

	dtpb "github.com/google/fhir/go/proto/google/fhir/proto/r4/core/datatypes_go_proto"
	"github.com/verily-src/fhirpath-go/fhirpath"
	"github.com/verily-src/fhirpath-go/fhirpath/evalopts"
	"github.com/verily-src/fhirpath-go/fhirpath/system"
	"github.com/verily-src/fhirpath-go/internal/fhir"
	"google.golang.org/protobuf/proto"
)

func init() { props["C03"] = runC03 }

type sentinel struct{ tag int }

func detBytes(m proto.Message) []byte {
	b, _ := proto.MarshalOptions{Deterministic: true}.Marshal(m)
	return b
}

// snapshotSlice copies the whole backing array (up to capacity) of a collection.
func snapshotSlice(c system.Collection) []any {
	full := c[:cap(c)]
	out := make([]any, len(full))
	copy(out, full)
	return out
}

func sameSnapshot(a []any, c system.Collection) bool {
	full := c[:cap(c)]
	if len(full) != len(a) {
		return false
	}
	for i := range a {
		pa, ok1 := a[i].(proto.Message)
		pb, ok2 := full[i].(proto.Message)
		if ok1 || ok2 {
			if !(ok1 && ok2 && pa == pb) {
				return false
			}
			continue
		}
		if fmt.Sprintf("%T|%v", a[i], a[i]) != fmt.Sprintf("%T|%v", full[i], full[i]) {
			return false
		}
	}
	return true
}

func withCapacity(items system.Collection, spare int) system.Collection {
	c := make(system.Collection, len(items), len(items)+spare)
	copy(c, items)
	full := c[:cap(c)]
	for i := len(items); i < len(full); i++ {
		full[i] = sentinel{i}
	}
	return c
}

func runC03(c *Ctx) {
	c.meta.Rule = "generated programs (depth 1..4 over every node kind and table function) x generated resources of 8 types x environment variables {%r = the resource itself, %n = a path result aliasing its elements, %ec = empty collection with spare capacity, %nc = non-empty collection with spare capacity, %e = empty}; before/after: deterministic bytes, proto.Equal, full backing arrays incl. sentinels beyond len, the input slice; result elements must be input nodes; non-trivial = program evaluated without compile error; distinct by program text"
	g := &ResGen{r: c.rng, maxDepth: 3, density: 60}
	types := []string{"Patient", "Observation", "Encounter", "Bundle", "MedicationRequest", "Condition", "Practitioner", "Questionnaire"}
	nRes, nProg := 16, 120
	if c.thorough {
		nRes, nProg = 80, 400
	}
	for ri := 0; ri < nRes; ri++ {
		rn := types[ri%len(types)]
		res, js := g.GenValid(rn, c)
		if res == nil {
			continue
		}
		pg := NewProgGen(c.rng, js, []string{"r", "n", "ec", "nc", "e"})
		// the set of message pointers that make up the input
		nodes := map[proto.Message]bool{res: true}
		hasContained := false
		walkElements(res, func(e Elem) {
			nodes[e.Msg] = true
			if string(e.Field.Name()) == "contained" || string(e.Msg.ProtoReflect().Descriptor().Name()) == "ContainedResource" || e.Field.Message().FullName() == "google.fhir.r4.core.ContainedResource" {
				hasContained = true
			}
		})
		nameColl := system.Collection{}
		if o := compileEval(rn+".descendants().take(5)", []fhir.Resource{res}); o.Err == nil {
			nameColl = o.Coll
		}
		for pi := 0; pi < nProg; pi++ {
			src := pg.Any(1 + c.rng.Intn(4))
			e, err := fhirpath.Compile(src)
			if err != nil {
				c.Count("compile-error")
				continue
			}
			// inputs with spare capacity and sentinels
			inSlice := make([]fhir.Resource, 1, 4)
			inSlice[0] = res
			ec := withCapacity(system.Collection{}, 4)
			nc := withCapacity(system.Collection{system.Integer(1), fhir.String("s")}, 3)
			n := withCapacity(nameColl, 2)
			before := detBytes(res)
			snapEC, snapNC, snapN := snapshotSlice(ec), snapshotSlice(nc), snapshotSlice(n)
			clone := proto.Clone(res)
			o := safeEval(func() (system.Collection, error) {
				return e.Evaluate(inSlice, evalopts.EnvVariable("r", res), evalopts.EnvVariable("n", n), evalopts.EnvVariable("ec", ec),
					evalopts.EnvVariable("nc", nc), evalopts.EnvVariable("e", system.Collection{}))
			})
			c.Observe(src, true)
			switch {
			case o.Panicked:
				c.Count("outcome:panic")
			case o.Err != nil:
				c.Count("outcome:err:" + errClass(o.Err))
			default:
				c.Count("outcome:ok")
			}
			c.Law(bytes.Equal(before, detBytes(res)) && proto.Equal(clone, res), "C03/resource-mutated", "evaluation leaves the input resource unchanged", rn+" :: "+src, "serialisation differs")
			c.Law(sameSnapshot(snapEC, ec), "C03/env-backing-array", "evaluation leaves the backing array of an environment collection unchanged", "%ec (empty, spare capacity) :: "+src, fmt.Sprint(ec[:cap(ec)]))
			c.Law(sameSnapshot(snapNC, nc), "C03/env-backing-array", "evaluation leaves the backing array of an environment collection unchanged", "%nc :: "+src, fmt.Sprint(nc[:cap(nc)]))
			c.Law(sameSnapshot(snapN, n), "C03/env-backing-array", "evaluation leaves the backing array of an environment collection unchanged", "%n :: "+src, "changed")
			c.Law(len(inSlice) == 1 && inSlice[0] == res && inSlice[:4][1] == nil, "C03/input-slice", "the input slice is unchanged", src, "changed")
			// result elements are the input's own nodes (or synthesised strings / unpacked contained copies)
			if o.Err == nil && !o.Panicked && !hasContained {
				for _, it := range o.Coll {
					m, ok := it.(proto.Message)
					if !ok {
						continue
					}
					if _, isStr := m.(*dtpb.String); isStr {
						continue
					}
					if nodes[m] || m == proto.Message(nc[1].(proto.Message)) {
						continue
					}
					c.Law(false, "C03/foreign-element", "FHIR elements in a result are the input's own nodes", rn+" :: "+src, fmt.Sprintf("%T", m))
					break
				}
			}
		}
		for k, v := range pg.counts {
			c.meta.Dist["node:"+k] += v
		}
	}
}
