package main

// C03 — evaluation never mutates its inputs.  Generated programs (every node kind, every
// function) x generated resources x environment variables that alias the resource or carry
// spare slice capacity; deterministic serialisation, proto.Equal and the backing arrays of every
// input slice (up to capacity, with sentinels) are compared before and after, on success and on error.

import (
	"bytes"
	"fmt"
	"reflect"
	"sort"
	"strings"
	"unsafe"

	dtpb "github.com/google/fhir/go/proto/google/fhir/proto/r4/core/datatypes_go_proto"
	epb "github.com/google/fhir/go/proto/google/fhir/proto/r4/core/resources/encounter_go_proto"
	opb "github.com/google/fhir/go/proto/google/fhir/proto/r4/core/resources/observation_go_proto"
	"github.com/verily-src/fhirpath-go/fhirpath"
	"github.com/verily-src/fhirpath-go/fhirpath/compopts"
	"github.com/verily-src/fhirpath-go/fhirpath/evalopts"
	"github.com/verily-src/fhirpath-go/fhirpath/internal/funcs"
	"github.com/verily-src/fhirpath-go/fhirpath/system"
	"github.com/verily-src/fhirpath-go/internal/fhir"
	"google.golang.org/protobuf/proto"
)

func init() { props["C03"] = runC03 }

type sentinel struct{ tag int }

func detBytes(m proto.Message) []byte {
	b, _ := proto.MarshalOptions{Deterministic: true}.Marshal(m)
	return b
}

// snapshotSlice copies the whole backing array (up to capacity) of a collection.
func snapshotSlice(c system.Collection) []any {
	full := c[:cap(c)]
	out := make([]any, len(full))
	copy(out, full)
	return out
}

func sameSnapshot(a []any, c system.Collection) bool {
	full := c[:cap(c)]
	if len(full) != len(a) {
		return false
	}
	for i := range a {
		pa, ok1 := a[i].(proto.Message)
		pb, ok2 := full[i].(proto.Message)
		if ok1 || ok2 {
			if !(ok1 && ok2 && pa == pb) {
				return false
			}
			continue
		}
		if fmt.Sprintf("%T|%v", a[i], a[i]) != fmt.Sprintf("%T|%v", full[i], full[i]) {
			return false
		}
	}
	return true
}

func withCapacity(items system.Collection, spare int) system.Collection {
	c := make(system.Collection, len(items), len(items)+spare)
	copy(c, items)
	full := c[:cap(c)]
	for i := len(items); i < len(full); i++ {
		full[i] = sentinel{i}
	}
	return c
}

// deepDump renders every field (exported or not) reachable from v, so that two dumps are equal
// exactly when nothing reachable changed; proto messages are rendered by their deterministic bytes
// (their Go structs carry lazily initialised internal state), functions by identity only.
func deepDump(v any) string {
	var b strings.Builder
	seen := map[uintptr]bool{}
	var walk func(rv reflect.Value, depth int)
	protoType := reflect.TypeOf((*proto.Message)(nil)).Elem()
	walk = func(rv reflect.Value, depth int) {
		if depth > 200 {
			b.WriteString("<deep>")
			return
		}
		switch rv.Kind() {
		case reflect.Invalid:
			b.WriteString("<nil>")
		case reflect.Bool:
			fmt.Fprint(&b, rv.Bool())
		case reflect.Int, reflect.Int8, reflect.Int16, reflect.Int32, reflect.Int64:
			fmt.Fprint(&b, rv.Int())
		case reflect.Uint, reflect.Uint8, reflect.Uint16, reflect.Uint32, reflect.Uint64, reflect.Uintptr:
			fmt.Fprint(&b, rv.Uint())
		case reflect.Float32, reflect.Float64:
			fmt.Fprint(&b, rv.Float())
		case reflect.String:
			fmt.Fprintf(&b, "%q", rv.String())
		case reflect.Func, reflect.Chan, reflect.UnsafePointer:
			b.WriteString("<" + rv.Kind().String() + ">")
		case reflect.Interface:
			if rv.IsNil() {
				b.WriteString("<nil>")
				return
			}
			b.WriteString(rv.Elem().Type().String() + ":")
			walk(rv.Elem(), depth+1)
		case reflect.Ptr:
			if rv.IsNil() {
				b.WriteString("<nil>")
				return
			}
			if rv.Type().Implements(protoType) {
				m := reflect.NewAt(rv.Type().Elem(), unsafe.Pointer(rv.Pointer())).Interface().(proto.Message)
				fmt.Fprintf(&b, "proto(%x)", detBytes(m))
				return
			}
			if seen[rv.Pointer()] {
				b.WriteString("<seen>")
				return
			}
			seen[rv.Pointer()] = true
			b.WriteString("&")
			walk(rv.Elem(), depth+1)
		case reflect.Slice, reflect.Array:
			fmt.Fprintf(&b, "[%d:", rv.Len())
			for i := 0; i < rv.Len(); i++ {
				walk(rv.Index(i), depth+1)
				b.WriteString(",")
			}
			b.WriteString("]")
		case reflect.Map:
			var parts []string
			it := rv.MapRange()
			for it.Next() {
				var kb strings.Builder
				old := b
				b = kb
				walk(it.Key(), depth+1)
				b.WriteString("=>")
				walk(it.Value(), depth+1)
				parts = append(parts, b.String())
				b = old
			}
			sort.Strings(parts)
			b.WriteString("map{" + strings.Join(parts, ";") + "}")
		case reflect.Struct:
			b.WriteString(rv.Type().String() + "{")
			for i := 0; i < rv.NumField(); i++ {
				b.WriteString(rv.Type().Field(i).Name + ":")
				walk(rv.Field(i), depth+1)
				b.WriteString(";")
			}
			b.WriteString("}")
		default:
			b.WriteString("<" + rv.Kind().String() + ">")
		}
	}
	walk(reflect.ValueOf(v), 0)
	return b.String()
}

// programs aimed at the places where a result could share storage with an input: collections that
// come from environment variables (spare capacity, sub-slices), indexers with computed indices,
// references (whose string form is synthesised), and functions that sort / de-duplicate / combine
func c03Targeted(rn string) []string {
	multi := []string{rn + ".descendants().take(3)", rn + ".children()", "%nc", "%n"}
	var out []string
	for _, x := range multi {
		for _, t := range []string{"X.select(%nc)", "X.select(%nc.take(1))", "X.select(%n)", "X.select(%ec)", "X.select(%nc.skip(1))", "X.repeat(%nc.take(1))", "X.where(true).select(%nc)",
			"X.select($this).select(%nc.tail())", "X.combine(%nc)", "%nc.combine(X)", "X.union(%nc)", "%nc.union(X)", "X.exclude(%nc)", "%nc.exclude(X)", "X.intersect(%nc)", "%nc.intersect(X)",
			"X.distinct()", "X.tail()", "X.skip(1)", "X.take(1)", "X.first()", "X.last()", "X.where(true)", "X.ofType(Integer)", "X.children()", "X.trace('t')", "iif(true, %nc, X)", "iif(false, X, %nc)",
			"X.aggregate($total.combine($this), %nc)", "X.aggregate($total.combine($this), %ec)", "X[count() - 1]", "X[0 + 1]", "X[-1 + 1]", "X[%nc.first()]", "X[%nc.first() - 1]", "X[count() div 2]",
			"X.select($this)[$index]", "X.toString()", "X.first() & 'x'", "X.isDistinct()", "X.exists($this = %nc.first())", "X.all($this.exists())", "X.subsetOf(%nc)", "%nc.supersetOf(X)"} {
			out = append(out, strings.ReplaceAll(t, "X", x))
		}
	}
	// type casts hand on the input's own nodes (also where the target type is a base of the node's type); variables
	// written with a delimited or quoted name
	out = append(out, rn+".descendants().select($this as Quantity)", rn+".descendants().select($this as FHIR.Quantity)", rn+".descendants().select($this as Element)", rn+".descendants().select($this as Age)",
		rn+".descendants().select($this as Duration)", rn+".descendants().select($this as string)", rn+".descendants().select($this as BackboneElement)", rn+".children().select($this as Resource)",
		rn+".descendants().where($this is Quantity)", rn+".descendants().select($this.as(Quantity))", rn+".descendants().select(($this as Quantity).value)",
		"%`nc`", "%'nc'", "%`nc`.count()", "%'r'.id", "%`nosuch`", "%'nosuch'", "%`n`.first()", "%`e` | %'ec'")
	out = append(out, rn+".descendants().reference", rn+".descendants().ofType(Reference).reference", rn+".descendants().ofType(Reference).children()", rn+".descendants().ofType(Reference)",
		rn+".descendants().where(reference.exists()).reference", rn+".descendants().value", rn+".descendants().select(reference)", rn+".children().children().reference")
	return out
}

func runC03(c *Ctx) {
	c.meta.Rule = "generated programs (depth 1..4 over every node kind and table function) x generated resources of 8 types x environment variables {%r = the resource itself, %n = a path result aliasing its elements, %ec = empty collection with spare capacity, %nc = non-empty collection with spare capacity, %e = empty}; plus ~190 targeted programs per resource (projection / combination / subsetting over environment collections and their sub-slices, computed indices, synthesised reference strings); before/after: the compiled expression (every reachable field), deterministic bytes, proto.Equal, full backing arrays incl. sentinels beyond len, the input slice; result elements must be input nodes; non-trivial = program evaluated without compile error; distinct by program text"
	g := &ResGen{r: c.rng, maxDepth: 3, density: 60}
	types := []string{"Patient", "Observation", "Encounter", "Bundle", "MedicationRequest", "Condition", "Practitioner", "Questionnaire"}
	nRes, nProg := 16, 120
	if c.thorough {
		nRes, nProg = 80, 400
	}
	// hand-made resources with the reference forms whose string is synthesised on navigation
	type fixedRes struct{ rn, js string }
	fixed := []fixedRes{
		{"Patient", `{"resourceType":"Patient","id":"p","managingOrganization":{"reference":"Organization/org1/_history/3","display":"d"},"generalPractitioner":[{"reference":"Practitioner/pr/_history/1"},{"reference":"#c1"},{"reference":"urn:uuid:53fefa32-fcbb-4ff8-8a92-55ee120877b7"}],"link":[{"other":{"reference":"RelatedPerson/r/_history/22"},"type":"seealso"}],"name":[{"given":["a","b"]},{"given":["a","b"]}]}`},
		{"Condition", `{"resourceType":"Condition","id":"c","subject":{"reference":"Patient/1"},"onsetAge":{"value":40,"unit":"a","system":"http://unitsofmeasure.org","code":"a"},"abatementRange":{"low":{"value":1,"unit":"mg"},"high":{"value":2,"unit":"mg"}}}`},
		{"Observation", `{"resourceType":"Observation","id":"o","status":"final","code":{"text":"c"},"subject":{"reference":"Patient/123/_history/4"},"performer":[{"reference":"Practitioner/x"},{"reference":"Organization/y/_history/9"}],"valueQuantity":{"value":1.50,"unit":"mg"},"referenceRange":[{"low":{"value":1.5},"high":{"value":1.50}}]}`},
	}
	// resources built directly as protos, with fields a JSON document cannot leave unset: temporal
	// elements without a precision, a Quantity without a value, an extension without a value
	built := map[int]fhir.Resource{
		len(fixed): &epb.Encounter{Id: fhir.ID("e"), Period: &dtpb.Period{Start: &dtpb.DateTime{ValueUs: 1600000000000000, Timezone: "+05:30"}, End: &dtpb.DateTime{ValueUs: 1600003600000000, Timezone: "Z"}},
			Extension: []*dtpb.Extension{{Url: fhir.URI("u"), Value: &dtpb.Extension_ValueX{Choice: &dtpb.Extension_ValueX_Date{Date: &dtpb.Date{ValueUs: 1600000000000000}}}}, {Url: fhir.URI("v"), Value: &dtpb.Extension_ValueX{Choice: &dtpb.Extension_ValueX_Time{Time: &dtpb.Time{ValueUs: 3600000000}}}},
				{Url: fhir.URI("w"), Value: &dtpb.Extension_ValueX{Choice: &dtpb.Extension_ValueX_Instant{Instant: &dtpb.Instant{ValueUs: 1600000000000000}}}}, {Url: fhir.URI("q"), Value: &dtpb.Extension_ValueX{Choice: &dtpb.Extension_ValueX_Quantity{Quantity: &dtpb.Quantity{Unit: fhir.String("mg")}}}}}},
	}
	// references in the hand-built `uri` layout (what a caller who fills the proto directly writes) next to the
	// layout the JSON parser produces: comparing them must not normalise either in place
	built[len(fixed)+1] = &opb.Observation{Id: fhir.ID("o2"),
		Subject:   &dtpb.Reference{Reference: &dtpb.Reference_Uri{Uri: fhir.String("Patient/123")}},
		Performer: []*dtpb.Reference{{Reference: &dtpb.Reference_PatientId{PatientId: &dtpb.ReferenceId{Value: "123"}}}, {Reference: &dtpb.Reference_Uri{Uri: fhir.String("Practitioner/x/_history/2")}}, {Reference: &dtpb.Reference_Uri{Uri: fhir.String("#frag")}}, {Reference: &dtpb.Reference_Fragment{Fragment: fhir.String("frag")}}},
		Focus:     []*dtpb.Reference{{Reference: &dtpb.Reference_Uri{Uri: fhir.String("Patient/124")}}, {Reference: &dtpb.Reference_PractitionerId{PractitionerId: &dtpb.ReferenceId{Value: "x", History: &dtpb.Id{Value: "2"}}}}},
	}
	refPrograms := []string{"Observation.subject = Observation.performer.first()", "Observation.subject != Observation.performer.first()", "Observation.performer[1] = Observation.focus[1]", "Observation.focus[1] != Observation.performer[1]",
		"Observation.performer[2] = Observation.performer[3]", "Observation.subject = Observation.focus.first()", "Observation.focus.first() != Observation.subject", "Observation.performer.where($this = %context.subject)", "Observation.performer.select($this != %context.subject)",
		"Observation.performer = Observation.performer", "Observation.focus = Observation.performer", "(Observation.subject | Observation.performer).count()", "Observation.performer.distinct()", "Observation.performer.intersect(Observation.focus)",
		"Observation.subject = %r.subject", "%r.subject != Observation.subject", "Observation.subject.reference = Observation.performer.first().reference", "Observation.performer.exclude(Observation.subject)"}
	builtPrograms := []string{"Encounter.period.start < Encounter.period.end", "Encounter.period.start = Encounter.period.end", "Encounter.period.start.toString()", "Encounter.period.descendants().distinct()", "Encounter.descendants().toString()", "Encounter.extension.value",
		"Encounter.extension.value.toString()", "Encounter.extension.value = Encounter.extension.value", "Encounter.extension.value.distinct()", "Encounter.period.start + 1 day", "Encounter.period.start.toDate()", "Encounter.period.start is DateTime", "Encounter.extension.value.select($this < $this)",
		"Encounter.extension.value.where($this = $this)", "Encounter.descendants().isDistinct()", "Encounter.extension.value.toDateTime()", "Encounter.extension.value.toTime()", "Encounter.extension.value.convertsToDate()"}
	for ri := 0; ri < nRes+len(fixed)+len(built); ri++ {
		var rn string
		var res fhir.Resource
		var js []byte
		if b, ok := built[ri]; ok {
			rn = string(b.ProtoReflect().Descriptor().Name())
			res, js = b, []byte(`{"resourceType":"`+rn+`","id":"e"}`)
		} else if ri < len(fixed) {
			rn = fixed[ri].rn
			res = mustResource(fixed[ri].js)
			js = []byte(fixed[ri].js)
		} else {
			rn = types[ri%len(types)]
			res, js = g.GenValid(rn, c)
		}
		if res == nil {
			continue
		}
		// the resource as generated, before anything is evaluated over it (the set-up below
		// evaluates too): every later comparison is against this
		pristine, pristineClone := detBytes(res), proto.Clone(res)
		pg := NewProgGen(c.rng, js, []string{"r", "n", "ec", "nc", "e"})
		// the set of message pointers that make up the input
		nodes := map[proto.Message]bool{res: true}
		hasContained := false
		walkElements(res, func(e Elem) {
			nodes[e.Msg] = true
			if string(e.Field.Name()) == "contained" || string(e.Msg.ProtoReflect().Descriptor().Name()) == "ContainedResource" || e.Field.Message().FullName() == "google.fhir.r4.core.ContainedResource" {
				hasContained = true
			}
		})
		nameColl := system.Collection{}
		if o := compileEval(rn+".descendants().take(5)", []fhir.Resource{res}); o.Err == nil {
			nameColl = o.Coll
		}
		targeted := c03Targeted(rn)
		if ri == 0 {
			targeted = append(targeted, c03KindPrograms()...)
		}
		if _, ok := built[ri]; ok {
			if rn == "Encounter" {
				targeted = append(builtPrograms, targeted...)
			} else {
				targeted = append(refPrograms, targeted...)
			}
		}
		for pi := 0; pi < nProg+len(targeted); pi++ {
			var src string
			if pi < len(targeted) {
				src = targeted[pi]
			} else {
				src = pg.Any(1 + c.rng.Intn(4))
			}
			e, err := fhirpath.Compile(src, compopts.WithExperimentalFuncs())
			if err != nil {
				e, err = fhirpath.Compile(src)
			}
			if err != nil {
				c.Count("compile-error")
				continue
			}
			// inputs with spare capacity and sentinels
			inSlice := make([]fhir.Resource, 1, 4)
			inSlice[0] = res
			ec := withCapacity(system.Collection{}, 4)
			nc := withCapacity(system.Collection{system.Integer(1), fhir.String("s")}, 3)
			n := withCapacity(nameColl, 2)
			pk := withCapacity(primitiveKinds(), 3)
			before := pristine
			snapEC, snapNC, snapN := snapshotSlice(ec), snapshotSlice(nc), snapshotSlice(n)
			snapPK, pkBytes := snapshotSlice(pk), collBytes(pk)
			clone := pristineClone
			exprBefore := deepDump(e)
			o := safeEval(func() (system.Collection, error) {
				return e.Evaluate(inSlice, evalopts.EnvVariable("r", res), evalopts.EnvVariable("n", n), evalopts.EnvVariable("ec", ec),
					evalopts.EnvVariable("nc", nc), evalopts.EnvVariable("e", system.Collection{}), evalopts.EnvVariable("pk", pk))
			})
			c.Observe(src, true)
			switch {
			case o.Panicked:
				c.Count("outcome:panic")
			case o.Err != nil:
				c.Count("outcome:err:" + errClass(o.Err))
			default:
				c.Count("outcome:ok")
			}
			c.Law(bytes.Equal(before, detBytes(res)) && proto.Equal(clone, res), "C03/resource-mutated", "evaluation leaves the input resource unchanged", rn+" :: "+src, "serialisation differs")
			c.Law(sameSnapshot(snapEC, ec), "C03/env-backing-array", "evaluation leaves the backing array of an environment collection unchanged", "%ec (empty, spare capacity) :: "+src, fmt.Sprint(ec[:cap(ec)]))
			c.Law(sameSnapshot(snapNC, nc), "C03/env-backing-array", "evaluation leaves the backing array of an environment collection unchanged", "%nc :: "+src, fmt.Sprint(nc[:cap(nc)]))
			c.Law(sameSnapshot(snapPK, pk) && collBytes(pk) == pkBytes, "C03/env-backing-array", "evaluation leaves the backing array of an environment collection unchanged", "%pk (one element of every primitive kind) :: "+src, fmt.Sprint(pk[:cap(pk)]))
			c.Law(sameSnapshot(snapN, n), "C03/env-backing-array", "evaluation leaves the backing array of an environment collection unchanged", "%n :: "+src, "changed")
			c.Law(len(inSlice) == 1 && inSlice[0] == res && inSlice[:4][1] == nil, "C03/input-slice", "the input slice is unchanged", src, "changed")
			// an input slice with a hole (a caller error: the evaluation may fail, even crash) is left as it was
			if pi%16 == 0 {
				holed := []fhir.Resource{res, nil, res, nil}
				_, _, _ = safeErr(func() error { _, err := e.Evaluate(holed); return err })
				c.Law(len(holed) == 4 && holed[0] == res && holed[1] == nil && holed[2] == res && holed[3] == nil, "C03/input-slice", "the input slice is unchanged", src+" on the input [r, nil, r, nil]", "changed")
			}
			c.Law(deepDump(e) == exprBefore, "C03/expression-mutated", "evaluation leaves the compiled expression unchanged", rn+" :: "+src, "a field reachable from the Expression changed")
			// result elements are the input's own nodes (or synthesised strings / unpacked contained copies)
			if o.Err == nil && !o.Panicked && !hasContained {
				for _, it := range o.Coll {
					m, ok := it.(proto.Message)
					if !ok {
						continue
					}
					if _, isStr := m.(*dtpb.String); isStr {
						continue
					}
					if nodes[m] || m == proto.Message(nc[1].(proto.Message)) {
						continue
					}
					fromPK := false
					for _, x := range pk {
						if pm, ok := x.(proto.Message); ok && pm == m {
							fromPK = true
						}
					}
					if fromPK {
						continue
					}
					c.Law(false, "C03/foreign-element", "FHIR elements in a result are the input's own nodes", rn+" :: "+src, fmt.Sprintf("%T", m))
					break
				}
			}
		}
		for k, v := range pg.counts {
			c.meta.Dist["node:"+k] += v
		}
	}
}

// primitiveKinds returns a collection holding one FHIR element of every primitive kind (and a complex
// one, and System values): whatever an implementation converts "in place" shows up here.
func primitiveKinds() system.Collection {
	return system.Collection{fhir.Boolean(true), fhir.Boolean(false), fhir.String("s"), fhir.Integer(1), &dtpb.Decimal{Value: "1.50"}, fhir.Code("c"),
		&dtpb.Date{ValueUs: 1600000000000000, Timezone: "UTC", Precision: dtpb.Date_DAY}, &dtpb.DateTime{ValueUs: 1600000000000000, Timezone: "+05:30", Precision: dtpb.DateTime_SECOND},
		&dtpb.Time{ValueUs: 3600000000, Precision: dtpb.Time_SECOND}, &dtpb.Quantity{Value: &dtpb.Decimal{Value: "2"}, Unit: fhir.String("mg")}, &dtpb.PositiveInt{Value: 3}, &dtpb.UnsignedInt{Value: 0},
		fhir.URI("u"), &dtpb.Id{Value: "i"}, &dtpb.Instant{ValueUs: 1600000000000000, Timezone: "Z", Precision: dtpb.Instant_MILLISECOND}, &dtpb.HumanName{Family: fhir.String("f")},
		system.Boolean(true), system.Integer(2), system.String("t")}
}

func collBytes(c system.Collection) string {
	var b strings.Builder
	for _, it := range c[:cap(c)] {
		if m, ok := it.(proto.Message); ok && m != nil {
			b.Write(detBytes(m))
			b.WriteString("|")
		} else {
			fmt.Fprintf(&b, "%T:%v|", it, it)
		}
	}
	return b.String()
}

// c03KindPrograms applies every function of the table (0 and 1 argument) to %pk and to sub-slices of it.
func c03KindPrograms() []string {
	table := funcs.Clone()
	var names []string
	for n := range table {
		names = append(names, n)
	}
	sort.Strings(names)
	var out []string
	for _, fn := range names {
		f := table[fn]
		for _, recv := range []string{"%pk", "%pk.tail()", "%pk.take(4)", "%pk.skip(1).take(3)", "%pk.take(2)", "%pk.skip(2).take(1)"} {
			if f.MinArity == 0 {
				out = append(out, recv+"."+fn+"()")
			}
			if f.MinArity <= 1 && f.MaxArity >= 1 {
				out = append(out, recv+"."+fn+"($this)", recv+"."+fn+"(true)", recv+"."+fn+"(%pk)", recv+"."+fn+"(1)")
			}
		}
	}
	for _, op := range []string{"=", "!=", "~", "<", "|", "in", "contains", "&", "+", "and", "or"} {
		out = append(out, "%pk "+op+" %pk", "%pk.take(1) "+op+" %pk.skip(1).take(1)", "%pk.skip(2).take(1) "+op+" 's'", "%pk.select($this "+op+" $this)")
	}
	return out
}
