package main

// C08 — exact Integer/Decimal arithmetic.  Operands travel as environment variables
// (System values or FHIR numeric elements) through the real Compile/Evaluate; the model gets
// the System values `system.From` yields.  Direct oracle: math/big.

import (
	"fmt"
	"math/big"
	"strings"

	"github.com/shopspring/decimal"
	"github.com/verily-src/fhirpath-go/fhirpath"
	"github.com/verily-src/fhirpath-go/fhirpath/evalopts"
	"github.com/verily-src/fhirpath-go/fhirpath/system"
	"github.com/verily-src/fhirpath-go/internal/fhir"
)

func init() { props["C08"] = runC08 }

var arithOps = []struct{ name, src string }{{"add", "+"}, {"sub", "-"}, {"mul", "*"}, {"div", "/"}, {"floordiv", "div"}, {"mod", "mod"}}

func ratOf(v system.Any) *big.Rat {
	switch x := v.(type) {
	case system.Integer:
		return new(big.Rat).SetInt64(int64(x))
	case system.Decimal:
		return decimal.Decimal(x).Rat()
	}
	return nil
}

func truncRat(r *big.Rat) *big.Int {
	q := new(big.Int).Quo(r.Num(), r.Denom()) // Quo truncates toward zero
	return q
}

func inI32(z *big.Int) bool { return z.IsInt64() && z.Int64() >= minI32 && z.Int64() <= maxI32 }

// checkArith compares one result with exact arithmetic; returns "" when it agrees.
func checkArith(op string, a, b system.Any, o Outcome) string {
	ra, rb := ratOf(a), ratOf(b)
	if ra == nil || rb == nil {
		return ""
	}
	if o.Panicked || o.TimedOut {
		return "crash"
	}
	_, aInt := a.(system.Integer)
	_, bInt := b.(system.Integer)
	bothInt := aInt && bInt
	single := func() (system.Any, bool) {
		if o.Err != nil || len(o.Coll) != 1 {
			return nil, false
		}
		v, err := system.From(o.Coll[0])
		return v, err == nil
	}
	empty := o.Err == nil && len(o.Coll) == 0
	switch op {
	case "add", "sub", "mul":
		want := new(big.Rat)
		switch op {
		case "add":
			want.Add(ra, rb)
		case "sub":
			want.Sub(ra, rb)
		case "mul":
			want.Mul(ra, rb)
		}
		if bothInt {
			if !inI32(want.Num()) {
				if !empty {
					return "overflow must give empty"
				}
				return ""
			}
			v, ok := single()
			if !ok {
				return "expected one Integer"
			}
			if i, isI := v.(system.Integer); !isI || big.NewInt(int64(i)).Cmp(want.Num()) != 0 {
				return "wrong Integer, want " + want.Num().String()
			}
			return ""
		}
		v, ok := single()
		if !ok {
			return "expected one Decimal"
		}
		d, isD := v.(system.Decimal)
		if !isD || decimal.Decimal(d).Rat().Cmp(want) != 0 {
			return "inexact result, want " + want.RatString()
		}
	case "div":
		if rb.Sign() == 0 {
			if !empty {
				return "division by zero must give empty"
			}
			return ""
		}
		want := new(big.Rat).Quo(ra, rb)
		v, ok := single()
		if !ok {
			return "expected one Decimal"
		}
		d, isD := v.(system.Decimal)
		if !isD {
			return "expected a Decimal"
		}
		diff := new(big.Rat).Sub(decimal.Decimal(d).Rat(), want)
		diff.Abs(diff)
		half := new(big.Rat).SetFrac(big.NewInt(1), new(big.Int).Mul(big.NewInt(2), new(big.Int).Exp(big.NewInt(10), big.NewInt(16), nil)))
		if diff.Cmp(half) > 0 {
			return "quotient not correct to 16 places, want " + want.FloatString(20)
		}
	case "floordiv":
		if rb.Sign() == 0 {
			if !empty {
				return "div by zero must give empty"
			}
			return ""
		}
		q := truncRat(new(big.Rat).Quo(ra, rb))
		if !inI32(q) {
			if !empty {
				return "unrepresentable quotient must give empty"
			}
			return ""
		}
		v, ok := single()
		if !ok {
			return "expected one Integer"
		}
		if i, isI := v.(system.Integer); !isI || big.NewInt(int64(i)).Cmp(q) != 0 {
			return "wrong truncated quotient, want " + q.String()
		}
	case "mod":
		if rb.Sign() == 0 {
			if !empty {
				return "mod by zero must give empty"
			}
			return ""
		}
		q := truncRat(new(big.Rat).Quo(ra, rb))
		want := new(big.Rat).Sub(ra, new(big.Rat).Mul(new(big.Rat).SetInt(q), rb))
		v, ok := single()
		if !ok {
			return "expected one number"
		}
		got := ratOf(v)
		if got == nil || got.Cmp(want) != 0 {
			return "a != (a div b)*b + a mod b, want remainder " + want.RatString()
		}
	}
	return ""
}

func checkMath(fn string, a system.Any, o Outcome) string {
	ra := ratOf(a)
	if ra == nil {
		return ""
	}
	if o.Panicked || o.TimedOut {
		return "crash"
	}
	empty := o.Err == nil && len(o.Coll) == 0
	floor := func(r *big.Rat) *big.Int {
		q := new(big.Int).Div(r.Num(), r.Denom()) // Euclidean: floor for positive denominators
		return q
	}
	var want *big.Int
	switch fn {
	case "abs":
		w := new(big.Rat).Abs(ra)
		if _, isI := a.(system.Integer); isI && !inI32(w.Num()) {
			if !empty {
				return "abs overflow must give empty"
			}
			return ""
		}
		if o.Err != nil || len(o.Coll) != 1 {
			return "expected one number"
		}
		v, _ := system.From(o.Coll[0])
		if g := ratOf(v); g == nil || g.Cmp(w) != 0 {
			return "wrong abs, want " + w.RatString()
		}
		return ""
	case "floor":
		want = floor(ra)
	case "ceiling":
		want = new(big.Int).Neg(floor(new(big.Rat).Neg(ra)))
	case "truncate":
		want = truncRat(ra)
	case "round":
		// half away from zero
		two := big.NewRat(1, 2)
		if ra.Sign() >= 0 {
			want = floor(new(big.Rat).Add(ra, two))
		} else {
			want = new(big.Int).Neg(floor(new(big.Rat).Add(new(big.Rat).Neg(ra), two)))
		}
		if o.Err != nil || len(o.Coll) != 1 {
			return "expected one number"
		}
		v, _ := system.From(o.Coll[0])
		if g := ratOf(v); g == nil || g.Cmp(new(big.Rat).SetInt(want)) != 0 {
			return "wrong round, want " + want.String()
		}
		return ""
	}
	if !inI32(want) {
		if !(empty || o.Err != nil) {
			return "result does not fit an Integer: must be empty or an error"
		}
		return ""
	}
	if o.Err != nil || len(o.Coll) != 1 {
		return "expected one Integer " + want.String()
	}
	v, _ := system.From(o.Coll[0])
	if i, isI := v.(system.Integer); !isI || big.NewInt(int64(i)).Cmp(want) != 0 {
		return "wrong result, want " + want.String()
	}
	return ""
}

func runC08(c *Ctx) {
	c.meta.Rule = "operand pairs: the full Integer boundary set squared (exhaustive), ~2000 decimal pairs whose quotient / remainder / rounding lies within 10^-14 .. 10^-25 of an integer or of a tie (exhaustive), then random int32, decimals (0..30 fractional digits, up to 40 significant digits, ties, zero, both signs) and mixed pairs, each operand as a System value or a FHIR integer/positiveInt/unsignedInt/decimal element; every operator, unary minus, abs/ceiling/floor/truncate/round; non-trivial = both operands numeric; distinct by (op, operands)"
	input := []fhir.Resource{mustResource(`{"resourceType":"Patient","id":"p"}`)}
	n := 4000
	if c.thorough {
		n = 60000
	}
	type pair struct{ a, b system.Any }
	var pairs []pair
	for _, a := range intBoundary {
		for _, b := range intBoundary {
			pairs = append(pairs, pair{system.Integer(a), system.Integer(b)})
		}
	}
	// decimals whose quotient, remainder or rounding lies within 10^-k of an integer or of a tie:
	// where an implementation that rounds an intermediate result (16 places, float64) goes wrong
	dec := func(s string) system.Any { return system.Decimal(decimal.RequireFromString(s)) }
	for _, k := range []int{14, 15, 16, 17, 18, 20, 25} {
		eps := "0." + strings.Repeat("0", k-1) + "1"
		nines := "0." + strings.Repeat("9", k)
		for _, q := range []string{"0", "1", "5", "6", "-1", "-3", "46341", "2147483647", "-2147483648"} {
			qd := decimal.RequireFromString(q)
			below, above := qd.Sub(decimal.RequireFromString(eps)), qd.Add(decimal.RequireFromString(eps))
			for _, a := range []decimal.Decimal{below, above, qd.Add(decimal.RequireFromString("0.5")).Sub(decimal.RequireFromString(eps)), qd.Add(decimal.RequireFromString("0.5")).Add(decimal.RequireFromString(eps)), qd.Add(decimal.RequireFromString("0.5"))} {
				for _, b := range []system.Any{system.Integer(1), dec("1.0"), system.Integer(-1), system.Integer(3), dec("0.7"), dec("1.25")} {
					bd := decimal.NewFromInt(1)
					switch v := b.(type) {
					case system.Integer:
						bd = decimal.NewFromInt(int64(v))
					case system.Decimal:
						bd = decimal.Decimal(v)
					}
					pairs = append(pairs, pair{system.Decimal(a.Mul(bd)), b})
				}
			}
		}
		pairs = append(pairs, pair{system.Integer(1), dec("1" + eps[1:])}, pair{system.Integer(-1), dec("1" + eps[1:])}, pair{dec(nines), system.Integer(1)}, pair{dec("-" + nines), dec("1.0")},
			pair{dec("5" + nines[1:]), dec("1.0")}, pair{dec("-2" + nines[1:]), system.Integer(1)}, pair{system.Integer(2), dec("3" + eps[1:])}, pair{dec("1" + eps[1:]), dec("1" + eps[1:])})
	}
	exhaustive := len(pairs)
	for i := 0; i < n; i++ {
		var a, b system.Any
		switch c.rng.Intn(4) {
		case 0:
			a, b = system.Integer(randInt32(c.rng)), system.Integer(randInt32(c.rng))
		case 1:
			a, b = system.Decimal(randDecimal(c.rng)), system.Decimal(randDecimal(c.rng))
		case 2:
			a, b = system.Integer(randInt32(c.rng)), system.Decimal(randDecimal(c.rng))
		default:
			a, b = system.Decimal(randDecimal(c.rng)), system.Integer(randInt32(c.rng))
		}
		pairs = append(pairs, pair{a, b})
	}
	exprs := map[string]*fhirpath.Expression{}
	compiled := func(src string) *fhirpath.Expression {
		if e, ok := exprs[src]; ok {
			return e
		}
		e, err := fhirpath.Compile(src)
		if err != nil {
			panic(fmt.Sprintf("C08 program %q does not compile: %v", src, err))
		}
		exprs[src] = e
		return e
	}
	evalWith := func(src string, a, b any) Outcome {
		e := compiled(src)
		return safeEval(func() (system.Collection, error) {
			opts := []fhirpath.EvaluateOption{evalopts.EnvVariable("a", a)}
			if b != nil {
				opts = append(opts, evalopts.EnvVariable("b", b))
			}
			return e.Evaluate(input, opts...)
		})
	}
	kind := func(v system.Any) string { return strings.SplitN(valToken(v), ":", 2)[0] }
	// an operand that is read twice (`$this`, a collection-valued variable) has the same value both times, and the
	// caller's collection is left as supplied: (x op b) op2 x is computed from x, not from an intermediate result
	{
		small := []system.Any{system.Integer(7), system.Integer(-3), system.Integer(2147483646), system.Integer(0), system.Decimal(decimal.RequireFromString("2.5")), system.Decimal(decimal.RequireFromString("-0.75"))}
		for _, x := range small {
			for _, b := range []system.Any{system.Integer(1), system.Integer(2), system.Decimal(decimal.RequireFromString("0.5"))} {
				for _, op1 := range arithOps {
					first := evalWith("%a "+op1.src+" %b", x, b)
					if first.Err != nil || first.Panicked || len(first.Coll) != 1 {
						continue
					}
					mid, _ := first.Coll[0].(system.Any)
					for _, op2 := range arithOps {
						coll := system.Collection{x}
						forms := []struct {
							src string
							a   any
						}{
							{"(%a " + op1.src + " %b) " + op2.src + " %a", coll},
							{"%a.select(($this " + op1.src + " %b) " + op2.src + " $this)", x},
							{"(%a.first() " + op1.src + " %b) " + op2.src + " %a.first()", coll},
						}
						for _, f := range forms {
							o := evalWith(f.src, f.a, b)
							msg := checkArith(op2.name, mid, x, o)
							c.Observe("operand-reuse "+op1.name+"/"+op2.name, true)
							c.Law(msg == "", "C08/operand-reuse", "an operand read twice has the same value both times: (x op b) op2 x is exact arithmetic on x",
								fmt.Sprintf("%s with a=%v b=%v", f.src, x, b), msg+"; got "+outTokens(o))
						}
						c.Law(len(coll) == 1 && coll[0] == x, "C08/operand-reuse", "the collection supplied as a variable is left as supplied", fmt.Sprintf("(%%a %s %%b) %s %%a with a={%v}", op1.src, op2.src, x), fmt.Sprint(coll))
						// the same collection supplied to a second evaluation
						again := evalWith("%a "+op1.src+" %b", coll, b)
						c.Law(outTokens(again) == outTokens(first), "C08/operand-reuse", "a second evaluation over the same supplied collection gives the same result", fmt.Sprintf("%%a %s %%b with a={%v} b=%v", op1.src, x, b), outTokens(first)+" then "+outTokens(again))
					}
				}
			}
		}
	}
	for pi, p := range pairs {
		ea, eb := asElement(c.rng, p.a), asElement(c.rng, p.b)
		for _, op := range arithOps {
			if pi >= exhaustive && c.rng.Intn(3) != 0 {
				continue
			}
			o := evalWith("%a "+op.src+" %b", ea, eb)
			out := outTokens(o)
			c.Emit("arith "+op.name+" "+valToken(p.a)+" "+valToken(p.b), out, true)
			c.Count("op:" + op.name + "/" + kind(p.a) + kind(p.b))
			c.Count("outcome:" + strings.SplitN(out, ":", 2)[0])
			if out == "ok:[]" {
				c.Count("empty-result")
			}
			msg := checkArith(op.name, p.a, p.b, o)
			c.Law(msg == "", "C08/arith-"+op.name, "result of `a "+op.src+" b` equals exact arithmetic (math/big)",
				fmt.Sprintf("%v %s %v", p.a, op.src, p.b), msg+"; got "+out)
		}
		// unary operators and numeric functions on a
		if pi%3 == 0 {
			o := evalWith("-%a", ea, nil)
			c.Emit("neg "+valToken(p.a), outTokens(o), true)
			if i, ok := p.a.(system.Integer); ok {
				okk := (i == minI32 && o.Err == nil && len(o.Coll) == 0) || (i != minI32 && outTokens(o) == fmt.Sprintf("ok:[I:%d]", -int64(i)))
				c.Law(okk, "C08/negation", "-a is exact or empty on overflow", fmt.Sprintf("-(%v)", p.a), outTokens(o))
			}
			for _, fn := range []string{"abs", "ceiling", "floor", "truncate", "round"} {
				o := evalWith("%a."+fn+"()", ea, nil)
				c.Emit("math "+fn+" "+valToken(p.a), outTokens(o), true)
				c.Count("fn:" + fn)
				msg := checkMath(fn, p.a, o)
				c.Law(msg == "", "C08/math-"+fn, fn+"() agrees with exact decimal arithmetic (or is empty/error when it does not fit)",
					fmt.Sprintf("(%v).%s()", p.a, fn), msg+"; got "+outTokens(o))
			}
		}
	}
}
