package main

// C05 — equality and ordering.  All ordered pairs (and sampled triples) from a value pool
// covering every System type, temporal precision x offset form, numeric scale variants,
// quantities, FHIR primitive elements, complex elements; collections of length 0..4.

import (
	"crypto/sha1"
	"fmt"
	"sort"
	"strings"

	dtpb "github.com/google/fhir/go/proto/google/fhir/proto/r4/core/datatypes_go_proto"
	"github.com/verily-src/fhirpath-go/fhirpath"
	"github.com/verily-src/fhirpath-go/fhirpath/evalopts"
	"github.com/verily-src/fhirpath-go/fhirpath/system"
	"github.com/verily-src/fhirpath-go/internal/fhir"
	apb "github.com/google/fhir/go/proto/google/fhir/proto/annotations_go_proto"
	"google.golang.org/protobuf/proto"
	"google.golang.org/protobuf/reflect/protoreflect"
	"google.golang.org/protobuf/reflect/protoregistry"
)

func init() { props["C05"] = runC05 }

type poolItem struct {
	src  string // how it was made (for replay)
	val  any    // item handed to the evaluator (System value or FHIR element)
	tok  string // model token: P<value> | C<digest> | N
	kind string
}

func itemToken(it any) (string, string) {
	if system.IsPrimitive(it) {
		if v, err := system.From(it); err == nil {
			t := valToken(v)
			return "P" + t, strings.SplitN(t, ":", 2)[0]
		}
		return "N", "N"
	}
	if m, ok := it.(proto.Message); ok {
		b, _ := proto.MarshalOptions{Deterministic: true}.Marshal(m)
		return fmt.Sprintf("C%x", sha1.Sum(append([]byte(string(m.ProtoReflect().Descriptor().FullName())), b...)))[:17], "C"
	}
	return "N", "N"
}

func collToken(items []poolItem) string {
	if len(items) == 0 {
		return "-"
	}
	parts := make([]string, len(items))
	for i, it := range items {
		parts[i] = it.tok
	}
	return strings.Join(parts, ";")
}

func buildPool(c *Ctx, input []fhir.Resource) []poolItem {
	var pool []poolItem
	lits := []string{
		"0", "1", "-1", "2", "2147483647", "1.0", "1.00", "0.5", "1.5", "-1.0", "100.0", "0.0", "2.0", "1.000000000000000000001",
		"'a'", "'b'", "''", "'ab'", "'é'", "'z'", "'A'", "true", "false",
		"@1500-06-15", "@1500-06-16", "@9999-12-31", "@2300-01-02T03:04:05Z", "@1990-01-01", "'+/8='", "'-_8='", "'/w=='", "'0'",
		"@2020", "@2020-01", "@2020-01-01", "@2020-02", "@2019-12-31", "@2021", "@2020-01-02",
		"@2020T", "@2020-01T", "@2020-01-01T", "@2020-01-01T10", "@2020-01-01T10:00", "@2020-01-01T10:00:00", "@2020-01-01T10:00:00.000",
		"@2020-01-01T10:00:00Z", "@2020-01-01T15:30:00+05:30", "@2019-12-31T23:00:00-11:00", "@2020-01-01T10:00Z", "@2020-01-01T10:00+05:30",
		"@2020-01-01T10Z", "@2020-01-01T10:00:00.500Z", "@2020-01-01T10:00:01Z", "@2020-01-01T09:59:59Z", "@2021T", "@2020-02T", "@2020-01-02T",
		"@2020-01-01T10:00:00.000+00:00", "@2020-01-01T04:30:00-05:30", "@2020-01-01T11",
		// hour precision at offsets that are not whole hours: equal layouts, different instants, equal components
		"@2020-01-01T10+00:30", "@2020-01-01T09Z", "@2020-01-01T09", "@2020-01-01T15+05:30", "@2020-01-01T04-05:30", "@2020-01-01T09+00:00",
		"@T10", "@T10:00", "@T10:00:00", "@T10:00:00.000", "@T10:30", "@T09", "@T10:00:00.500", "@T11:00", "@T10:00:00.0001", "@T10:00:00.000100", "@T10:00:00.0005", "@2020-01-01T10:00:00.0001Z", "@2020-01-01T10:00:00.000100Z",
		"1 'mg'", "1.0 'mg'", "2 'mg'", "1 'kg'", "1 year", "1 'a'", "12 months", "1 day", "1 days", "0 'mg'",
		// units are case sensitive (mg / Mg are milligram and megagram)
		"1 'Mg'", "2 'Mg'", "1 'MG'", "1 'm'", "1 'M'",
		// strings are ordered by code point: private-use / fullwidth characters (U+E000..U+FFFF) come before the supplementary planes
		"'x\uFF21'", "'x\U0001F600'", "'\uFFFD'", "'\uE000'", "'\U00010000'", "'x'", "'\uD7FF'",
	}
	for _, src := range lits {
		o := compileEval(src, input)
		if o.Err != nil || o.Panicked || len(o.Coll) != 1 {
			c.meta.Notes = append(c.meta.Notes, "pool literal does not evaluate: "+src)
			continue
		}
		tok, kind := itemToken(o.Coll[0])
		pool = append(pool, poolItem{src, o.Coll[0], tok, kind})
	}
	mkDate := func(y, m, d int, tz string, p dtpb.Date_Precision) *dtpb.Date {
		t := timeDate(y, m, d, 0, 0, 0, 0, tz)
		return &dtpb.Date{ValueUs: t.UnixMicro(), Timezone: tz, Precision: p}
	}
	mkDT := func(y, m, d, h, mi, s, us int, tz string, p dtpb.DateTime_Precision) *dtpb.DateTime {
		t := timeDate(y, m, d, h, mi, s, us, tz)
		return &dtpb.DateTime{ValueUs: t.UnixMicro(), Timezone: tz, Precision: p}
	}
	elems := []struct {
		src string
		v   any
	}{
		{"fhir.Integer(1)", fhir.Integer(1)}, {"fhir.Integer(2)", fhir.Integer(2)}, {"PositiveInt(1)", &dtpb.PositiveInt{Value: 1}}, {"UnsignedInt(0)", &dtpb.UnsignedInt{Value: 0}},
		{"fhir.Decimal 1.0", &dtpb.Decimal{Value: "1.0"}}, {"fhir.Decimal 1.50", &dtpb.Decimal{Value: "1.50"}},
		{"fhir.String a", fhir.String("a")}, {"fhir.Code a", &dtpb.Code{Value: "a"}}, {"fhir.Uri b", &dtpb.Uri{Value: "b"}}, {"fhir.Id a", &dtpb.Id{Value: "a"}},
		{"fhir.Boolean true", fhir.Boolean(true)}, {"fhir.Boolean false", fhir.Boolean(false)},
		{"Date 2020-01-01 UTC", mkDate(2020, 1, 1, "UTC", dtpb.Date_DAY)}, {"Date 2020-01-01 +05:30", mkDate(2020, 1, 1, "+05:30", dtpb.Date_DAY)},
		{"Date 2020-01 -11:00", mkDate(2020, 1, 1, "-11:00", dtpb.Date_MONTH)}, {"Date 2020 Z", mkDate(2020, 1, 1, "Z", dtpb.Date_YEAR)},
		{"DateTime 2020-01-01T10:00:00Z s", mkDT(2020, 1, 1, 10, 0, 0, 0, "Z", dtpb.DateTime_SECOND)},
		{"DateTime 2020-01-01T15:30:00+05:30 s", mkDT(2020, 1, 1, 15, 30, 0, 0, "+05:30", dtpb.DateTime_SECOND)},
		{"DateTime 2020-01-01T10:00:00.000Z ms", mkDT(2020, 1, 1, 10, 0, 0, 0, "Z", dtpb.DateTime_MILLISECOND)},
		{"DateTime 2020-01-01 day +05:30", mkDT(2020, 1, 1, 0, 0, 0, 0, "+05:30", dtpb.DateTime_DAY)},
		{"DateTime 2020 year", mkDT(2020, 1, 1, 0, 0, 0, 0, "UTC", dtpb.DateTime_YEAR)},
		{"DateTime 2020-01-01 day -11:00", mkDT(2020, 1, 1, 0, 0, 0, 0, "-11:00", dtpb.DateTime_DAY)}, {"DateTime 2020-01-01 day +14:00", mkDT(2020, 1, 1, 0, 0, 0, 0, "+14:00", dtpb.DateTime_DAY)},
		{"DateTime 2020-01 month +05:30", mkDT(2020, 1, 1, 0, 0, 0, 0, "+05:30", dtpb.DateTime_MONTH)}, {"DateTime 2020 year +14:00", mkDT(2020, 1, 1, 0, 0, 0, 0, "+14:00", dtpb.DateTime_YEAR)},
		{"DateTime 2020-01-01T10:00:00.000100Z us", mkDT(2020, 1, 1, 10, 0, 0, 100, "Z", dtpb.DateTime_MICROSECOND)},
		{"Time 10:00:00.000100", &dtpb.Time{ValueUs: 36000e6 + 100, Precision: dtpb.Time_MICROSECOND}},
		{"Time 10:00:00", &dtpb.Time{ValueUs: 36000e6, Precision: dtpb.Time_SECOND}}, {"Time 10:00:00.000", &dtpb.Time{ValueUs: 36000e6, Precision: dtpb.Time_MILLISECOND}},
		// years far from the epoch; binary data whose text uses every character of the standard base64 alphabet
		{"Date 1500-06-15 UTC", mkDate(1500, 6, 15, "UTC", dtpb.Date_DAY)}, {"Date 9999-12-31 UTC", mkDate(9999, 12, 31, "UTC", dtpb.Date_DAY)}, {"Date 0001-01 UTC", mkDate(1, 1, 1, "UTC", dtpb.Date_MONTH)},
		{"DateTime 2300-01-02T03:04:05Z s", mkDT(2300, 1, 2, 3, 4, 5, 0, "Z", dtpb.DateTime_SECOND)}, {"DateTime 1600-02-29T10:00:00+05:30 s", mkDT(1600, 2, 29, 10, 0, 0, 0, "+05:30", dtpb.DateTime_SECOND)},
		{"Base64Binary FBFF", &dtpb.Base64Binary{Value: []byte{0xFB, 0xFF}}}, {"Base64Binary FF", &dtpb.Base64Binary{Value: []byte{0xFF}}}, {"Base64Binary 00", &dtpb.Base64Binary{Value: []byte{0x00}}},
		{"Quantity 1 mg", &dtpb.Quantity{Value: &dtpb.Decimal{Value: "1"}, Code: &dtpb.Code{Value: "mg"}}},
		{"Quantity 1.0 kg", &dtpb.Quantity{Value: &dtpb.Decimal{Value: "1.0"}, Code: &dtpb.Code{Value: "kg"}}},
		{"HumanName A", &dtpb.HumanName{Family: fhir.String("A")}}, {"HumanName A'", &dtpb.HumanName{Family: fhir.String("A")}}, {"HumanName B", &dtpb.HumanName{Family: fhir.String("B")}},
		{"Coding x", &dtpb.Coding{Code: &dtpb.Code{Value: "x"}}}, {"Period", &dtpb.Period{}},
	}
	for _, e := range elems {
		tok, kind := itemToken(e.v)
		pool = append(pool, poolItem{e.src, e.v, tok, kind})
	}
	return pool
}

func runC05(c *Ctx) {
	c.meta.Rule = "all ordered pairs of the value pool (every System type, every temporal precision x offset form, numeric scale variants, quantities with equal/different/calendar units, FHIR primitive elements, complex elements) under = != < <= > >=; sampled triples for transitivity; collections of length 0..4 built from the pool that differ at each position; non-trivial = both operands non-empty; distinct by (operator, operand tokens)"
	input := []fhir.Resource{mustResource(`{"resourceType":"Patient","id":"p"}`)}
	pool := buildPool(c, input)
	for _, p := range pool {
		c.Count("pool:" + p.kind)
	}
	runC05Codes(c, input)
	// truncations of one value: the same date-time written to two different precisions has all shared components equal,
	// so `=`, `!=`, `<`, `<=`, `>`, `>=` are all empty; written twice to the same precision it is equal to itself — for
	// every precision, with and without an offset, for Date, DateTime and Time
	{
		type form struct {
			text string
			prec int
		}
		mk := func(date, tm, off string) []form {
			var out []form
			// (the date-level forms carry no offset: they are truncations of the value only when it is written in UTC)
			if date != "" && (off == "" || off == "Z") {
				out = append(out, form{"@" + date[:4] + tm0(tm, "T"), 0}, form{"@" + date[:7] + tm0(tm, "T"), 1}, form{"@" + date + tm0(tm, "T"), 2})
			}
			if tm != "" {
				pre := "@T"
				if date != "" {
					pre = "@" + date + "T"
				}
				out = append(out, form{pre + tm[:2] + off, 3}, form{pre + tm[:5] + off, 4}, form{pre + tm[:8] + off, 5}, form{pre + tm + off, 6})
			}
			return out
		}
		var groups [][]form
		// (whole-hour offsets: an hour-precision value at a half-hour offset has no hour of its own in UTC, where the
		// implementation — like the model — compares)
		for _, off := range []string{"", "Z", "+02:00", "-11:00"} {
			groups = append(groups, mk("2020-03-09", "10:30:59.123", off))
		}
		groups = append(groups, mk("2020-03-09", "", ""), mk("", "10:30:59.123", ""), mk("1999-12-31", "23:59:59.999", "Z"), mk("2024-02-29", "00:00:00.000", "+14:00"))
		for _, g := range groups {
			for _, a := range g {
				for _, b := range g {
					for _, op := range []string{"=", "!=", "<", "<=", ">", ">="} {
						want := "ok:[]"
						if a.prec == b.prec || (a.prec >= 5 && b.prec >= 5) {
							// the same text (seconds and milliseconds are one precision: the fraction belongs to the seconds)
							if a.prec == b.prec {
								want = map[string]string{"=": "ok:[B:true]", "!=": "ok:[B:false]", "<": "ok:[B:false]", "<=": "ok:[B:true]", ">": "ok:[B:false]", ">=": "ok:[B:true]"}[op]
							} else {
								continue
							}
						}
						src := a.text + " " + op + " " + b.text
						o := compileEval(src, input)
						got := canonOutcome(o, nil)
						c.Observe("truncation "+src, true)
						c.Law(got == want, "C05/precision-truncation", "a value written to two different precisions compares as empty with itself, written twice to one precision as equal", src, got+" want "+want)
					}
				}
			}
		}
	}
	// hour precision at an offset that is not a whole number of hours: after normalisation to UTC the components down
	// to the hour decide — T10+00:30, T15+05:30, T04-05:30 are all hour 9 in UTC, like T09Z and the offset-less T09
	{
		same := []string{"@2020-01-01T10+00:30", "@2020-01-01T15+05:30", "@2020-01-01T04-05:30", "@2020-01-01T09Z", "@2020-01-01T09+00:00", "@2020-01-01T09"}
		later := []string{"@2020-01-01T11+00:30", "@2020-01-01T10Z", "@2020-01-01T16+05:30", "@2020-01-01T10"}
		wantSame := map[string]string{"=": "ok:[B:true]", "!=": "ok:[B:false]", "<": "ok:[B:false]", "<=": "ok:[B:true]", ">": "ok:[B:false]", ">=": "ok:[B:true]"}
		wantLess := map[string]string{"=": "ok:[B:false]", "!=": "ok:[B:true]", "<": "ok:[B:true]", "<=": "ok:[B:true]", ">": "ok:[B:false]", ">=": "ok:[B:false]"}
		for _, op := range []string{"=", "!=", "<", "<=", ">", ">="} {
			for _, a := range same {
				for _, b := range same {
					src := a + " " + op + " " + b
					got := canonOutcome(compileEval(src, input), nil)
					c.Observe("hour-offset "+src, true)
					c.Law(got == wantSame[op], "C05/hour-offset", "hour-precision values are compared component-wise after offset normalisation, whatever the offset", src, got+" want "+wantSame[op])
				}
				for _, b := range later {
					src := a + " " + op + " " + b
					got := canonOutcome(compileEval(src, input), nil)
					c.Observe("hour-offset "+src, true)
					c.Law(got == wantLess[op], "C05/hour-offset", "hour-precision values are compared component-wise after offset normalisation, whatever the offset", src, got+" want "+wantLess[op])
				}
			}
		}
	}
	// a FHIR primitive element denotes the value of its JSON text: compared with the literal of that
	// text it is equal (and neither less nor greater)
	elemLiteral := map[string]string{
		"fhir.Integer(1)": "1", "fhir.Integer(2)": "2", "PositiveInt(1)": "1", "UnsignedInt(0)": "0", "fhir.Decimal 1.0": "1.0", "fhir.Decimal 1.50": "1.50", "fhir.String a": "'a'", "fhir.Code a": "'a'", "fhir.Uri b": "'b'", "fhir.Id a": "'a'",
		"fhir.Boolean true": "true", "fhir.Boolean false": "false", "Date 2020-01-01 UTC": "@2020-01-01", "Date 2020-01-01 +05:30": "@2020-01-01", "Date 2020-01 -11:00": "@2020-01", "Date 2020 Z": "@2020",
		"DateTime 2020-01-01T10:00:00Z s": "@2020-01-01T10:00:00Z", "DateTime 2020-01-01T15:30:00+05:30 s": "@2020-01-01T15:30:00+05:30", "DateTime 2020-01-01T10:00:00.000Z ms": "@2020-01-01T10:00:00.000Z",
		"DateTime 2020-01-01 day +05:30": "@2020-01-01T", "DateTime 2020 year": "@2020T", "DateTime 2020-01-01 day -11:00": "@2020-01-01T", "DateTime 2020-01-01 day +14:00": "@2020-01-01T", "DateTime 2020-01 month +05:30": "@2020-01T",
		"DateTime 2020 year +14:00": "@2020T", "DateTime 2020-01-01T10:00:00.000100Z us": "@2020-01-01T10:00:00.000100Z", "Time 10:00:00": "@T10:00:00", "Time 10:00:00.000": "@T10:00:00.000", "Time 10:00:00.000100": "@T10:00:00.000100",
		"Quantity 1 mg": "1 'mg'", "Quantity 1.0 kg": "1.0 'kg'",
		"Date 1500-06-15 UTC": "@1500-06-15", "Date 9999-12-31 UTC": "@9999-12-31", "Date 0001-01 UTC": "@0001-01", "DateTime 2300-01-02T03:04:05Z s": "@2300-01-02T03:04:05Z", "DateTime 1600-02-29T10:00:00+05:30 s": "@1600-02-29T10:00:00+05:30",
		"Base64Binary FBFF": "'+/8='", "Base64Binary FF": "'/w=='", "Base64Binary 00": "'AA=='",
	}
	for _, p := range pool {
		lit, ok := elemLiteral[p.src]
		if !ok {
			continue
		}
		for _, op := range []string{"=", "!=", "<", ">", "<=", ">="} {
			want := map[string]string{"=": "ok:t", "!=": "ok:f", "<": "ok:f", ">": "ok:f", "<=": "ok:t", ">=": "ok:t"}[op]
			if p.kind == "B" || strings.HasPrefix(p.src, "fhir.Uri") || strings.HasPrefix(p.src, "fhir.Id") || strings.HasPrefix(p.src, "fhir.Code") {
				if op != "=" && op != "!=" {
					continue
				}
			}
			for _, src := range []string{"%x " + op + " " + lit, lit + " " + op + " %x"} {
				o := safeEval(func() (system.Collection, error) {
					e, err := fhirpath.Compile(src)
					if err != nil {
						return nil, err
					}
					return e.Evaluate(input, evalopts.EnvVariable("x", p.val))
				})
				got := "err"
				if o.Err == nil && !o.Panicked {
					got = "ok:-"
					if len(o.Coll) == 1 {
						if b, ok := o.Coll[0].(system.Boolean); ok {
							got = map[bool]string{true: "ok:t", false: "ok:f"}[bool(b)]
						}
					}
				}
				c.Observe("element-literal "+p.src+" "+src, true)
				c.Law(got == want, "C05/element-literal", "a FHIR primitive element compares as the value of its JSON text", src+" with %x = "+p.src, got+" want "+want)
			}
		}
	}
	ops := map[string]*fhirpath.Expression{}
	for _, op := range []string{"=", "!=", "<", "<=", ">", ">="} {
		ops[op] = fhirpath.MustCompile("%a " + op + " %b")
	}
	eval := func(op string, a, b any) string {
		o := safeEval(func() (system.Collection, error) {
			return ops[op].Evaluate(input, evalopts.EnvVariable("a", a), evalopts.EnvVariable("b", b))
		})
		return boolOut(o)
	}
	asColl := func(items []poolItem) any {
		if len(items) == 1 {
			return items[0].val
		}
		col := system.Collection{}
		for _, it := range items {
			col = append(col, it.val)
		}
		return col
	}
	cmpNames := map[string]string{"<": "lt", "<=": "le", ">": "gt", ">=": "ge"}
	cmpTok := func(items []poolItem) string {
		// ComparisonExpression applies From itself: P-items stay, complex items are `N`
		parts := []string{}
		for _, it := range items {
			if strings.HasPrefix(it.tok, "P") {
				parts = append(parts, it.tok)
			} else {
				parts = append(parts, "N")
			}
		}
		if len(parts) == 0 {
			return "-"
		}
		return strings.Join(parts, ";")
	}
	emitPair := func(l, r []poolItem, lawful bool) (res map[string]string) {
		res = map[string]string{}
		la, ra := asColl(l), asColl(r)
		for _, op := range []string{"=", "!="} {
			out := eval(op, la, ra)
			res[op] = out
			not := "0"
			if op == "!=" {
				not = "1"
			}
			c.Emit("eq "+not+" "+collToken(l)+" "+collToken(r), out, len(l) > 0 && len(r) > 0)
		}
		for _, op := range []string{"<", "<=", ">", ">="} {
			out := eval(op, la, ra)
			res[op] = out
			c.Emit("cmp "+cmpNames[op]+" "+cmpTok(l)+" "+cmpTok(r), out, len(l) > 0 && len(r) > 0)
		}
		return res
	}
	desc := func(items []poolItem) string {
		parts := []string{}
		for _, it := range items {
			parts = append(parts, it.src)
		}
		return "(" + strings.Join(parts, " | ") + ")"
	}
	// number-vs-quantity pairs are the recorded finding C05-number-quantity-promotion
	isNum := func(p poolItem) bool { return p.kind == "I" || p.kind == "D" }
	results := map[[2]int]map[string]string{}
	for i, a := range pool {
		for j, b := range pool {
			r := emitPair([]poolItem{a}, []poolItem{b}, true)
			results[[2]int{i, j}] = r
			c.Count("pair:" + a.kind + b.kind)
		}
	}
	// laws on single items
	for i, a := range pool {
		for j, b := range pool {
			r, rr := results[[2]int{i, j}], results[[2]int{j, i}]
			in := desc([]poolItem{a}) + " , " + desc([]poolItem{b})
			cls := ""
			if (isNum(a) && b.kind == "Q") || (a.kind == "Q" && isNum(b)) {
				cls = "-number-vs-quantity"
			}
			c.Law(r["="] == rr["="], "C05/eq-symmetry"+cls, "a = b iff b = a", in, r["="]+" vs "+rr["="])
			neg := map[string]string{"ok:t": "ok:f", "ok:f": "ok:t", "ok:-": "ok:-"}
			if want, ok := neg[r["="]]; ok {
				c.Law(r["!="] == want, "C05/ne-negation"+cls, "a != b is the negation of a = b, or both empty", in, r["="]+" vs "+r["!="])
			}
			c.Law(r["<"] == rr[">"], "C05/lt-gt-dual"+cls, "a < b iff b > a", in, r["<"]+" vs "+rr[">"])
			if want, ok := neg[r[">"]]; ok {
				c.Law(r["<="] == want, "C05/le-not-gt"+cls, "a <= b iff not a > b", in, r[">"]+" vs "+r["<="])
			}
			n := 0
			for _, op := range []string{"<", "=", ">"} {
				if r[op] == "ok:t" {
					n++
				}
			}
			c.Law(n <= 1, "C05/at-most-one"+cls, "at most one of <, =, > holds", in, fmt.Sprint(r))
		}
	}
	// transitivity on all triples (results are already in hand)
	for i := range pool {
		for j := range pool {
			if results[[2]int{i, j}]["<"] != "ok:t" {
				continue
			}
			for k := range pool {
				if results[[2]int{j, k}]["<"] == "ok:t" {
					cls := ""
					q, nn := 0, 0
					for _, x := range []poolItem{pool[i], pool[j], pool[k]} {
						if x.kind == "Q" {
							q++
						}
						if isNum(x) {
							nn++
						}
					}
					if q > 0 && nn > 0 {
						cls = "-number-vs-quantity"
					}
					got := results[[2]int{i, k}]["<"]
					c.Law(got == "ok:t", "C05/lt-transitive"+cls, "a < b and b < c imply a < c", desc([]poolItem{pool[i]})+" , "+desc([]poolItem{pool[j]})+" , "+desc([]poolItem{pool[k]}), "a<c is "+got)
				}
			}
		}
	}
	// collections: equal prefix/suffix with one differing position, lengths 0..4
	trials := 600
	if c.thorough {
		trials = 6000
	}
	for t := 0; t < trials; t++ {
		n := c.rng.Intn(5)
		var l, r []poolItem
		for i := 0; i < n; i++ {
			it := Pick(c.rng, pool)
			l = append(l, it)
			r = append(r, it)
		}
		mode := c.rng.Intn(4)
		switch {
		case mode == 0 && n > 0: // differ at one position
			r[c.rng.Intn(n)] = Pick(c.rng, pool)
		case mode == 1: // differ in length
			r = append(r, Pick(c.rng, pool))
		case mode == 2 && n > 1: // differ at the last position only
			r[n-1] = Pick(c.rng, pool)
		}
		res := emitPair(l, r, true)
		c.Count(fmt.Sprintf("coll:len%d/mode%d", n, mode))
		// pairwise oracle: equal iff same length and every pair equal (every pair, not just the first)
		if len(l) > 0 && len(r) > 0 && len(l) == len(r) {
			all := true
			for i := range l {
				pe := eval("=", l[i].val, r[i].val)
				if pe != "ok:t" {
					all = false
				}
			}
			c.Law((res["="] == "ok:t") == all, "C05/collection-pairwise", "collections are equal iff every corresponding pair is equal", desc(l)+" = "+desc(r), res["="])
		}
		if len(l) != len(r) && len(l) > 0 && len(r) > 0 {
			c.Law(res["="] == "ok:f", "C05/collection-length", "collections of different length are not equal", desc(l)+" = "+desc(r), res["="])
		}
	}
}

// runC05Codes: every enumerated code element compares as its FHIR code with the String literal of that
// code — exhaustive over every enum-valued code type of the R4 protos.
func runC05Codes(c *Ctx, input []fhir.Resource) {
	var codeTypes []protoreflect.MessageType
	protoregistry.GlobalTypes.RangeMessages(func(mt protoreflect.MessageType) bool {
		d := mt.Descriptor()
		if strings.HasPrefix(string(d.FullName()), "google.fhir.r4.core.") {
			if f := d.Fields().ByName("value"); f != nil && f.Kind() == protoreflect.EnumKind {
				codeTypes = append(codeTypes, mt)
			}
		}
		return true
	})
	sort.Slice(codeTypes, func(i, j int) bool { return codeTypes[i].Descriptor().FullName() < codeTypes[j].Descriptor().FullName() })
	eq := fhirpath.MustCompile("%x = %s")
	ne := fhirpath.MustCompile("%x != %s")
	le := fhirpath.MustCompile("%x <= %s and %x >= %s and (%x < %s).not() and (%x > %s).not()")
	n := 0
	for ti, mt := range codeTypes {
		f := mt.Descriptor().Fields().ByName("value")
		vals := f.Enum().Values()
		for i := 0; i < vals.Len(); i++ {
			ev := vals.Get(i)
			if ev.Number() == 0 {
				continue
			}
			// quick tier: codes with two or more separators everywhere, the others on a rotating sample of types
			many := strings.Count(string(ev.Name()), "_") >= 2
			if !c.thorough && !many && (ti+int(c.seed))%8 != 0 {
				continue
			}
			msg := mt.New()
			msg.Set(f, protoreflect.ValueOfEnum(ev.Number()))
			want := strings.ReplaceAll(strings.ToLower(string(ev.Name())), "_", "-")
			if orig, _ := proto.GetExtension(ev.Options(), apb.E_FhirOriginalCode).(string); orig != "" {
				want = orig
			}
			n++
			for name, e := range map[string]*fhirpath.Expression{"=": eq, "!=": ne, "order": le} {
				o := safeEval(func() (system.Collection, error) {
					return e.Evaluate(input, evalopts.EnvVariable("x", msg.Interface()), evalopts.EnvVariable("s", system.String(want)))
				})
				wantB := name != "!="
				ok := !o.Panicked && o.Err == nil && len(o.Coll) == 1 && o.Coll[0] == system.Boolean(wantB)
				c.Law(ok, "C05/element-literal", "a FHIR primitive element compares as the value of its JSON text", fmt.Sprintf("%%x %s '%s' with %%x = %s %s", name, want, mt.Descriptor().FullName(), ev.Name()), canonOutcome(o, nil))
			}
		}
	}
	c.Observe(fmt.Sprintf("enumerated codes compared with their literal: %d values of %d code types", n, len(codeTypes)), true)
}

// tm0: the partial-dateTime marker — a date written without a time is a Date; with a time part present in the group the
// date forms are written as DateTimes ("@2020T") so that the whole group is of one type.
func tm0(tm, marker string) string {
	if tm == "" {
		return ""
	}
	return marker
}
