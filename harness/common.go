package main

import (
	"sync/atomic"
	"encoding/hex"
	"errors"
	"fmt"
	"strings"
	"time"

	dtpb "github.com/google/fhir/go/proto/google/fhir/proto/r4/core/datatypes_go_proto"
	bcrpb "github.com/google/fhir/go/proto/google/fhir/proto/r4/core/resources/bundle_and_contained_resource_go_proto"
	"github.com/google/fhir/go/fhirversion"
	"github.com/google/fhir/go/jsonformat"
	"github.com/shopspring/decimal"
	"github.com/verily-src/fhirpath-go/fhirpath"
	"github.com/verily-src/fhirpath-go/fhirpath/evalopts"
	"github.com/verily-src/fhirpath-go/fhirpath/internal/expr"
	"github.com/verily-src/fhirpath-go/fhirpath/internal/funcs/impl"
	"github.com/verily-src/fhirpath-go/fhirpath/system"
	"github.com/verily-src/fhirpath-go/internal/containedresource"
	"github.com/verily-src/fhirpath-go/internal/fhir"
	"google.golang.org/protobuf/proto"
)

// ---------------------------------------------------------------- PRNG (splitmix64)

type RNG struct{ s uint64 }

func NewRNG(seed uint64) *RNG { return &RNG{seed*0x9E3779B97F4A7C15 + 0x1234567} }
func (r *RNG) Next() uint64 {
	r.s += 0x9E3779B97F4A7C15
	z := r.s
	z = (z ^ (z >> 30)) * 0xBF58476D1CE4E5B9
	z = (z ^ (z >> 27)) * 0x94D049BB133111EB
	return z ^ (z >> 31)
}
func (r *RNG) Intn(n int) int { return int(r.Next() % uint64(n)) }
func (r *RNG) Bool() bool     { return r.Next()&1 == 1 }
func Pick[T any](r *RNG, xs []T) T { return xs[r.Intn(len(xs))] }

// ---------------------------------------------------------------- safe calls

type Outcome struct {
	Coll     system.Collection
	Err      error
	Panicked bool
	PanicMsg string
	TimedOut bool
}

// safeEval runs f under recover() with a wall-clock budget.
func safeEval(f func() (system.Collection, error)) (o Outcome) {
	return safeEvalWithin(10*time.Second, f)
}

// safeEvalWithin is safeEval with an explicit wall-clock budget.
func safeEvalWithin(budget time.Duration, f func() (system.Collection, error)) (o Outcome) {
	done := make(chan Outcome, 1)
	go func() {
		var r Outcome
		defer func() {
			if p := recover(); p != nil {
				r = Outcome{Panicked: true, PanicMsg: fmt.Sprint(p)}
			}
			done <- r
		}()
		c, err := f()
		r = Outcome{Coll: c, Err: err}
	}()
	select {
	case o = <-done:
		return o
	case <-time.After(budget):
		// The wall-clock guard is not part of any property: on a loaded machine a job can be slow without
		// hanging.  The first few jobs of a process that run out of time get a second, longer wait on the same
		// job; only what is still running after that is reported as not returning.  (A code change that makes
		// evaluation hang is still reported; it costs at most lateGraces long waits per process.)
		if atomic.AddInt32(&lateGraceUsed, 1) <= lateGraces {
			select {
			case o = <-done:
				return o
			case <-time.After(3 * budget):
			}
		}
		return Outcome{TimedOut: true}
	}
}

const lateGraces = 2

var lateGraceUsed int32

func safeErr(f func() error) (err error, panicked bool, msg string) {
	defer func() {
		if p := recover(); p != nil {
			panicked, msg = true, fmt.Sprint(p)
		}
	}()
	return f(), false, ""
}

// compileEval compiles src and evaluates it on input.
func compileEval(src string, input []fhir.Resource, opts ...fhirpath.EvaluateOption) Outcome {
	return safeEval(func() (system.Collection, error) {
		e, err := fhirpath.Compile(src)
		if err != nil {
			return nil, fmt.Errorf("compile: %w", err)
		}
		return e.Evaluate(input, opts...)
	})
}

func compileEvalOpts(src string, input []fhir.Resource, opts []fhirpath.EvaluateOption) Outcome {
	return compileEval(src, input, opts...)
}

// ---------------------------------------------------------------- error classes

// errClass maps an error to the small enum the model uses (what errors.Is can observe).
func errClass(err error) string {
	switch {
	case err == nil:
		return ""
	case strings.HasPrefix(err.Error(), "compile:"):
		return "compile"
	case errors.Is(err, expr.ErrNotSingleton):
		return "not-singleton"
	case errors.Is(err, impl.ErrWrongArity):
		return "arity"
	case errors.Is(err, expr.ErrInvalidField):
		return "invalid-field"
	case errors.Is(err, system.ErrTypeMismatch):
		return "type-mismatch"
	case errors.Is(err, expr.ErrInvalidType):
		return "invalid-type"
	case errors.Is(err, expr.ErrConstantNotFound):
		return "constant-not-found"
	case errors.Is(err, expr.ErrToBeImplemented):
		return "to-be-implemented"
	case errors.Is(err, fhirpath.ErrExistingConstant):
		return "existing-constant"
	case errors.Is(err, fhirpath.ErrUnsupportedType):
		return "unsupported-type"
	case errors.Is(err, system.ErrMismatchedUnit):
		return "mismatched-unit"
	case errors.Is(err, impl.ErrInvalidReturnType):
		return "invalid-return-type"
	case errors.Is(err, impl.ErrInvalidInput):
		return "invalid-input"
	case errors.Is(err, system.ErrNotConvertible):
		return "not-convertible"
	case errors.Is(err, system.ErrCantBeCast):
		return "cant-be-cast"
	case strings.Contains(err.Error(), "can't evaluate to bool") || strings.Contains(err.Error(), "not singleton"):
		return "not-singleton"
	case strings.Contains(err.Error(), "not yet implemented"):
		return "not-implemented"
	}
	return "other"
}

// ---------------------------------------------------------------- canonical values

func hexs(s string) string { return "x" + hex.EncodeToString([]byte(s)) }

// canonDec renders a decimal as coeff 'e' exp with trailing zeros of coeff removed
// (numeric value only; scale is reported separately where it matters).
func canonDec(d decimal.Decimal) string {
	c := d.Coefficient()
	e := int64(d.Exponent())
	if c.Sign() == 0 {
		return "0e0"
	}
	s := c.String()
	for strings.HasSuffix(s, "0") {
		s = s[:len(s)-1]
		e++
	}
	return fmt.Sprintf("%se%d", s, e)
}

// canonItem renders one result item.  System values by kind and value; FHIR elements by
// message name and (for primitives) their System value; other messages by name + pointer id.
func canonItem(it any, ids *IDTable) string {
	switch v := it.(type) {
	case nil:
		return "NIL"
	case system.Boolean:
		if v {
			return "B:true"
		}
		return "B:false"
	case system.Integer:
		return fmt.Sprintf("I:%d", int32(v))
	case system.Decimal:
		return "D:" + canonDec(decimal.Decimal(v))
	case system.String:
		return "S:" + hexs(string(v))
	case system.Date:
		return "Da:" + v.String()
	case system.DateTime:
		return "DT:" + v.String()
	case system.Time:
		return "T:" + v.String()
	case system.Quantity:
		return "Q:" + hexs(v.String())
	case proto.Message:
		name := string(v.ProtoReflect().Descriptor().Name())
		if sv, err := system.From(v); err == nil {
			return "F(" + name + ")" + canonItem(sv, ids)
		}
		if ids != nil {
			return fmt.Sprintf("M(%s)#%d", name, ids.ID(v))
		}
		return "M(" + name + ")"
	}
	return fmt.Sprintf("?%T", it)
}

func canonOutcome(o Outcome, ids *IDTable) string {
	switch {
	case o.TimedOut:
		return "timeout"
	case o.Panicked:
		return "panic"
	case o.Err != nil:
		return "err:" + errClass(o.Err)
	}
	parts := make([]string, len(o.Coll))
	for i, it := range o.Coll {
		parts[i] = canonItem(it, ids)
	}
	return "ok:[" + strings.Join(parts, ",") + "]"
}

// IDTable gives stable small ids to proto message pointers (pointer identity).
type IDTable struct {
	m    map[any]int
	next int
}

func NewIDTable() *IDTable { return &IDTable{m: map[any]int{}} }
func (t *IDTable) ID(m proto.Message) int {
	if id, ok := t.m[m]; ok {
		return id
	}
	t.next++
	t.m[m] = t.next
	return t.next
}

// ---------------------------------------------------------------- fixtures

func mustResource(js string) fhir.Resource {
	um, err := jsonformat.NewUnmarshaller("UTC", fhirversion.R4)
	if err != nil {
		panic(err)
	}
	m, err := um.Unmarshal([]byte(js))
	if err != nil {
		panic(fmt.Sprintf("fixture %s: %v", js, err))
	}
	return containedresource.Unwrap(m.(*bcrpb.ContainedResource))
}

var _ = dtpb.Boolean{}

func mustDec(s string) decimal.Decimal {
	d, err := decimal.NewFromString(s)
	if err != nil {
		panic(err)
	}
	return d
}

func mustElementHumanName(family string) *dtpb.HumanName {
	return &dtpb.HumanName{Family: fhir.String(family)}
}

func envVar(name string, v any) fhirpath.EvaluateOption { return evalopts.EnvVariable(name, v) }

// Perm returns a random permutation of 0..n-1.
func (r *RNG) Perm(n int) []int {
	p := make([]int, n)
	for i := range p {
		p[i] = i
	}
	for i := n - 1; i > 0; i-- {
		k := r.Intn(i + 1)
		p[i], p[k] = p[k], p[i]
	}
	return p
}

func mustElementDecimal(v string) *dtpb.Decimal { return &dtpb.Decimal{Value: v} }
