package main

// C01 — Compile, Evaluate and Patch are total: never panic or hang on any input.
// Input families (all under recover() with a wall-clock budget):
//   (a) type-directed generated programs over generated resources of every R4 type;
//   (b) every (function, arity 0..3) of the function table x arguments from a boundary pool,
//       applied to boundary inputs (System values, elements, {}, multi-item collections);
//   (c) every operator x operands from the boundary pool;
//   (d) byte-mutated sources;
//   (e) the EvaluateAs* helpers;
//   (f) FHIRPatch operations with right / wrong / nil values and a nil resource.

import (
	"context"
	"fmt"
	"os"
	"os/exec"
	"sort"
	"strings"
	"time"

	dtpb "github.com/google/fhir/go/proto/google/fhir/proto/r4/core/datatypes_go_proto"
	bcrpb "github.com/google/fhir/go/proto/google/fhir/proto/r4/core/resources/bundle_and_contained_resource_go_proto"
	orgpb "github.com/google/fhir/go/proto/google/fhir/proto/r4/core/resources/organization_go_proto"
	ppb "github.com/google/fhir/go/proto/google/fhir/proto/r4/core/resources/patient_go_proto"
	perpb "github.com/google/fhir/go/proto/google/fhir/proto/r4/core/resources/person_go_proto"
	"github.com/shopspring/decimal"
	"google.golang.org/protobuf/types/known/anypb"
	"github.com/verily-src/fhirpath-go/fhirpath"
	"github.com/verily-src/fhirpath-go/fhirpath/evalopts"
	"github.com/verily-src/fhirpath-go/fhirpath/internal/funcs"
	"github.com/verily-src/fhirpath-go/fhirpath/patch"
	"github.com/verily-src/fhirpath-go/fhirpath/system"
	"github.com/verily-src/fhirpath-go/internal/fhir"
)

func init() {
	props["C01"] = runC01
	props["hugeprobe"] = runHugeProbe
}

// runHugeProbe (child process, killed by the parent after its budget): arithmetic on a Decimal whose
// exponent is 10^8 — a value a FHIR decimal element ("1e100000000") or an environment variable can carry.
func runHugeProbe(c *Ctx) {
	big := system.Decimal(decimal.New(1, 100000000))
	e := fhirpath.MustCompile("%big + 1")
	_, err := e.Evaluate([]fhir.Resource{}, evalopts.EnvVariable("big", big))
	fmt.Printf("HUGEPROBE\tdone\t%v\n", err)
	c.Emit("noop", "x", false)
}

// boundary literals usable inside source text
var c01Lits = []string{"0", "1", "-1", "2147483647", "-2147483648", "2147483648", "0.0", "1.5", "-0.5", "1e3", "99999999999999999999.99999999", "0.00000000000000000001",
	"''", "'a'", "'é日😀'", "'%'", "'\\u0041'", "'a\\'b'", "true", "false", "{}", "@2020", "@2020-02", "@2020-02-29", "@2020-02-29T", "@2020-02-29T10", "@2020-02-29T10:30:00.123+05:30", "@2020-02-29T23:59:59Z", "@T10", "@T23:59:59.999",
	"1 'mg'", "0 days", "5 years", "1.5 'kg'", "-3 months", "%v", "%e", "%m", "%missing", "$this", "Patient", "Patient.name", "Patient.name.given", "Patient.birthDate", "Patient.active", "Patient.name.first()", "(1 | 2)", "Patient.nosuch"}

func runC01(c *Ctx) {
	c.meta.Rule = "(a) generated programs (ProgGen, depth 1..4) over generated resources of every R4 type (quick: 40 types x 6 programs, thorough: all x 25); (b) every function of the table x arities 0..3 x argument texts from a 48-entry boundary pool x 6 input expressions; (c) 22 binary operators, polarity, is/as, indexer x boundary operands; (d) byte-mutated sources; (e) EvaluateAsBool/String/Int32 on a sample; (b') every 1-/2-argument function x the square of 8 boundary integers x 5 receivers; string literals cut inside an escape; (c') 22 operators x the full square of 21 numeric/quantity operands; (f) patch add/insert/delete/replace/move x paths x {right, wrong, nil} values x nil resource; (g) evaluation and patch over messages whose choice / contained-resource wrappers and primitives are empty; (h) elements without a System value (quantity without value, non-numeric decimals, unreadable zones, unset precisions, enum numbers outside the value set) x every operator on both sides, every 0/1-argument function, is/as/ofType, the typed helpers and the System comparison API; non-trivial = call returned a value; distinct by source text"
	input := []fhir.Resource{mustResource(`{"resourceType":"Patient","id":"p","active":true,"birthDate":"1980-02-29","name":[{"family":"Smith","given":["a","b"]},{"given":["c"]}],"extension":[{"url":"u","valueQuantity":{"unit":"mg"}}]}`)}
	env := []fhirpath.EvaluateOption{
		envVar("v", system.Collection{system.Integer(3), system.String("s")}),
		envVar("e", &dtpb.HumanName{Family: fhir.String("x")}),
		envVar("m", system.Collection{}),
	}
	run := func(class, src string, in []fhir.Resource) {
		var e *fhirpath.Expression
		var cerr error
		_, pan, msg := safeErr(func() error { e, cerr = fhirpath.Compile(src); return nil })
		c.Observe(class+" "+src, false)
		if pan {
			c.Law(false, "C01/compile-panic", "Compile returns an expression or an error", src, msg)
			return
		}
		c.Law(true, "C01/compile-panic", "", "", "")
		if cerr != nil {
			c.Count(class + ":compile-error")
			return
		}
		o := safeEval(func() (system.Collection, error) { return e.Evaluate(in, env...) })
		switch {
		case o.Panicked:
			c.Law(false, "C01/evaluate-panic", "Evaluate returns a collection or an error", src, o.PanicMsg)
		case o.TimedOut:
			c.Law(false, "C01/evaluate-hang", "Evaluate terminates", src, "no result within the budget")
		default:
			c.Law(true, "C01/evaluate-panic", "", "", "")
			if o.Err != nil {
				c.Count(class + ":error")
				// a failed evaluation leaves nothing behind: the same expression evaluated again, and the same source
				// compiled and evaluated again, fail (or succeed) without a crash (a cache filled by the failing run)
				o2 := safeEval(func() (system.Collection, error) { return e.Evaluate(in, env...) })
				o3 := compileEvalOpts(src, in, env)
				c.Law(!o2.Panicked && !o2.TimedOut, "C01/evaluate-panic", "Evaluate returns a collection or an error, also when the same evaluation failed before", src+"  (second evaluation)", o2.PanicMsg)
				c.Law(!o3.Panicked && !o3.TimedOut, "C01/evaluate-panic", "Evaluate returns a collection or an error, also when the same evaluation failed before", src+"  (compiled and evaluated again)", o3.PanicMsg)
			} else {
				c.Count(class + ":value")
			}
		}
	}
	// patterns that are not regular expressions, twice each (through two different expressions)
	for _, pat := range []string{"(unclosed", "[z-a]", "a{2,1}", "*a", "\\", "(?P<x", "[[:nope:]]"} {
		for _, src := range []string{"'abc'.matches('" + pat + "')", "'abc'.matches('" + pat + "').not()", "'abc'.replaceMatches('" + pat + "', 'x')", "Patient.name.given.where($this.matches('" + pat + "'))"} {
			run("bad-regex", src, nil)
			run("bad-regex", src, nil)
		}
	}
	// ---- (a) generated programs
	types := resourceNames()
	nTypes, nProg := 40, 6
	if c.thorough {
		nTypes, nProg = len(types), 25
	}
	for k := 0; k < nTypes; k++ {
		tn := types[(k*7)%len(types)]
		g := &ResGen{r: c.rng, maxDepth: 2, density: 40}
		res, js := g.GenValid(tn, c)
		if res == nil {
			continue
		}
		pg := NewProgGen(c.rng, js, []string{"v", "e", "m"})
		for i := 0; i < nProg; i++ {
			run("prog", pg.Any(1+c.rng.Intn(4)), []fhir.Resource{res})
		}
	}
	// ---- (b) every function x arity x boundary arguments
	table := funcs.Clone()
	var names []string
	for n := range table {
		names = append(names, n)
	}
	sort.Strings(names)
	inputs := []string{"Patient.name", "Patient.name.given", "{}", "%v", "1", "'abc'", "@2020-02-29", "Patient", "1.5", "true", "1 'mg'", "@T10:30", "Patient.name.given.first()", "(-2147483648)", "'é日😀'", "@2020-02-29T10:30:00Z", "Patient.birthDate", "Patient.extension.value"}
	perFn := 10
	if c.thorough {
		perFn = 80
	}
	typeArgs := []string{"Integer", "System.String", "FHIR.Patient", "HumanName", "string", "Quantity", "Foo"}
	for _, fn := range names {
		f := table[fn]
		for arity := 0; arity <= 3; arity++ {
			inRange := arity >= f.MinArity && arity <= f.MaxArity
			n := 1
			if inRange {
				n = perFn
			}
			for k := 0; k < n; k++ {
				var args []string
				for a := 0; a < arity; a++ {
					if f.IsTypeFunction {
						args = append(args, Pick(c.rng, typeArgs))
					} else {
						args = append(args, Pick(c.rng, c01Lits))
					}
				}
				run("fn", Pick(c.rng, inputs)+"."+fn+"("+strings.Join(args, ", ")+")", input)
				if arity == 0 && k >= len(inputs) {
					break
				}
			}
		}
		// criteria-style arguments
		for _, a := range []string{"$this", "$this = 1", "$this.exists()", "given", "$index", "$total", "true", "{}", "$this + 1", "$this.length() > 0"} {
			run("fn", Pick(c.rng, inputs)+"."+fn+"("+a+")", input)
		}
	}
	for _, src := range c01Targeted {
		run("targeted", src, input)
	}
	// every evaluate option with boundary values: clock values the System types cannot hold, and
	// environment variables of every shape (nested / empty / mixed collections, elements, resources)
	clockSrcs := []string{"now()", "today()", "timeOfDay()", "now() - 1 day", "today() + 1 year", "now().toString()", "now() = now()", "today() < now()", "timeOfDay() + 1 hour"}
	for _, tm := range []time.Time{time.Date(10000, 1, 1, 0, 0, 0, 0, time.UTC), time.Date(9999, 12, 31, 23, 59, 59, 999999999, time.UTC), time.Date(0, 1, 1, 0, 0, 0, 0, time.UTC), time.Date(-1, 6, 1, 0, 0, 0, 0, time.UTC), time.Date(1, 1, 1, 0, 0, 0, 0, time.UTC),
		time.Date(2020, 1, 1, 0, 0, 0, 0, time.FixedZone("x", 25*3600)), time.Date(2020, 1, 1, 0, 0, 0, 0, time.FixedZone("x", 24*3600)), time.Date(2020, 1, 1, 0, 0, 0, 0, time.FixedZone("x", -24*3600)), time.Date(2020, 1, 1, 0, 0, 0, 0, time.FixedZone("x", 23*3600+59*60)),
		time.Date(2020, 1, 1, 0, 0, 0, 0, time.FixedZone("x", 3601)), time.Date(2020, 1, 1, 0, 0, 0, 0, time.FixedZone("x", -1)), time.Date(292277026596, 12, 4, 15, 30, 7, 0, time.UTC), {}} {
		for _, src := range clockSrcs {
			e, err := fhirpath.Compile(src)
			if err != nil {
				continue
			}
			o := safeEval(func() (system.Collection, error) { return e.Evaluate(input, evalopts.OverrideTime(tm)) })
			c.Observe("clock "+src+" @ "+tm.String(), false)
			c.Law(!o.Panicked && !o.TimedOut, "C01/evaluate-panic", "Evaluate returns a collection or an error", src+" with OverrideTime("+tm.String()+")", o.PanicMsg)
		}
	}
	// date / time arithmetic over month ends, leap days and the year boundary, in both directions
	for _, d := range []string{"@2021-01-31", "@2021-03-31", "@2021-05-31T10:00:00", "@2020-02-29", "@2021-12-31", "@9999-12-31", "@0001-01-31", "@2021-01-30", "@2021-03-29T23:59:59.999+14:00", "@2021-01", "@2021", "@T23:59:59", "@T00:00"} {
		for _, n := range []string{"1", "2", "6", "11", "12", "13", "14", "25", "1200", "0", "-1", "-13", "1.5", "2147483647"} {
			for _, u := range []string{"months", "years", "days", "weeks", "hours", "minutes", "'mo'", "'a'", "'d'", "'wk'", "milliseconds", "seconds"} {
				for _, op := range []string{"+", "-"} {
					src := d + " " + op + " " + n + " " + u
					if strings.HasPrefix(n, "-") {
						src = d + " " + op + " (" + n + " " + u + ")"
					}
					run("date-arith", src, input)
				}
			}
		}
	}
	envShapes := map[string]any{
		"emptyContained": &bcrpb.ContainedResource{},
		"containedPatient": &bcrpb.ContainedResource{OneofResource: &bcrpb.ContainedResource_Patient{Patient: &ppb.Patient{}}},
		"emptyBundleEntry": &bcrpb.Bundle_Entry{Resource: &bcrpb.ContainedResource{}},
		"emptyExtension":   &dtpb.Extension{Value: &dtpb.Extension_ValueX{}},
		"precisionlessDateTime": &dtpb.DateTime{ValueUs: 1600000000000000, Timezone: "+05:30"},
		"precisionlessDate":     &dtpb.Date{ValueUs: 1600000000000000},
		"emptyReference":        &dtpb.Reference{},
		"nested":      system.Collection{system.Collection{system.Integer(1)}},
		"nested2":     system.Collection{system.Integer(1), system.Collection{system.Collection{}}},
		"emptyInside": system.Collection{system.Collection{}},
		"mixed":       system.Collection{system.Integer(1), fhir.String("s"), &dtpb.HumanName{}, system.Boolean(true)},
		"resource":    input[0],
		"emptyElem":   &dtpb.HumanName{},
		"bigColl":     make(system.Collection, 0, 8),
	}
	var shapeNames []string
	for k := range envShapes {
		shapeNames = append(shapeNames, k)
	}
	sort.Strings(shapeNames)
	for _, k := range shapeNames {
		for _, src := range []string{"%x", "%x = %x", "%x != %x", "%x.count()", "%x.first()", "%x.distinct()", "%x.where($this = 1)", "%x.select($this)", "%x.exists()", "%x.toString()", "%x & 'a'", "%x + 1", "%x < 1", "%x is Integer", "%x.children()", "%x.descendants()", "%x.intersect(%x)", "%x.exclude(%x)", "%x.isDistinct()", "%x.name", "Patient.where(%x.exists())", "iif(%x.exists(), %x, 1)", "%x[0]", "-%x", "%x.not()", "%x and true"} {
			e, err := fhirpath.Compile(src)
			if err != nil {
				continue
			}
			o := safeEval(func() (system.Collection, error) { return e.Evaluate(input, evalopts.EnvVariable("x", envShapes[k])) })
			c.Observe("env "+k+" "+src, false)
			c.Law(!o.Panicked && !o.TimedOut, "C01/evaluate-panic", "Evaluate returns a collection or an error", src+" with %x = "+k+" "+fmt.Sprint(envShapes[k]), o.PanicMsg)
		}
	}
	// a Decimal with a huge exponent (in a child process, so that nothing is left running here)
	{
		ctx, cancel := context.WithTimeout(context.Background(), 8*time.Second)
		out, _ := exec.CommandContext(ctx, os.Args[0], "hugeprobe", "quick", "0", os.Args[4]+"/huge").Output()
		cancel()
		c.Observe("targeted %big + 1", false)
		c.Law(strings.Contains(string(out), "HUGEPROBE\tdone"), "C01/evaluate-hang-huge-exponent", "Evaluate terminates", "%big + 1 with %big = Decimal 1e100000000 (the value of a FHIR decimal element \"1e100000000\")", "no result within 8 s (child process killed)")
	}
	// every function that accepts one or two arguments x the square of a small integer boundary set,
	// on receivers of three shapes: sums, differences and positions computed from two arguments are
	// where an intermediate int32 wraps
	ints := []string{"0", "1", "3", "-1", "2147483647", "2147483645", "(-2147483648)", "2147483646"}
	for _, fn := range names {
		f := table[fn]
		if f.IsTypeFunction {
			continue
		}
		for _, recv := range []string{"'abcdef'", "'héllo'", "Patient.name.given", "(10 | 20 | 30)", "12.5"} {
			if f.MinArity <= 1 && f.MaxArity >= 1 {
				for _, a := range ints {
					run("fn-int", recv+"."+fn+"("+a+")", input)
				}
			}
			if f.MinArity <= 2 && f.MaxArity >= 2 {
				for _, a := range ints {
					for _, b := range ints {
						run("fn-int", recv+"."+fn+"("+a+", "+b+")", input)
					}
				}
			}
		}
	}
	// string literals that stop in the middle of an escape, with and without the closing quote
	bsl := string(rune(92))
	for _, pre := range []string{"", "a", "é"} {
		for _, esc := range []string{bsl, bsl + "u", bsl + "u0", bsl + "u00", bsl + "u00e", bsl + "u00e9", bsl + "uD83D", bsl + "uZZZZ", bsl + "x", bsl + bsl, bsl + "'", bsl + "u00e" + bsl, bsl + "u" + bsl + "u0041"} {
			for _, post := range []string{"'", "", "z'", "'.length()", "' = 'x'"} {
				run("escape", "'"+pre+esc+post, input)
				run("escape", "Patient.name.where(family = '"+pre+esc+post+")", input)
			}
		}
	}
	// ---- (c) operators x boundary operands
	ops := []string{"+", "-", "*", "/", "div", "mod", "&", "|", "<", "<=", ">", ">=", "=", "!=", "~", "!~", "in", "contains", "and", "or", "xor", "implies"}
	perOp := 40
	if c.thorough {
		perOp = 400
	}
	for _, op := range ops {
		for k := 0; k < perOp; k++ {
			run("op", Pick(c.rng, c01Lits)+" "+op+" "+Pick(c.rng, c01Lits), input)
		}
	}
	// every operator over the full square of numeric and quantity operands
	numeric := append(append([]string{}, c01Lits[:12]...), "1 'mg'", "0 days", "5 years", "1.5 'kg'", "-3 months", "0 'mg'", "0.0 'mg'", "(2.5 - 2.5)", "(1 - 1)")
	for _, op := range ops {
		for _, a := range numeric {
			for _, b := range numeric {
				run("op", a+" "+op+" "+b, input)
			}
		}
	}
	for k := 0; k < perOp*2; k++ {
		a := Pick(c.rng, c01Lits)
		run("op", Pick(c.rng, []string{"-" + a, "+" + a, a + " is " + Pick(c.rng, []string{"Integer", "System.String", "FHIR.Patient", "Quantity", "Foo", "string"}), a + " as " + Pick(c.rng, []string{"Integer", "HumanName", "Foo"}),
			a + "[" + Pick(c.rng, c01Lits) + "]", "(" + a + ")." + Pick(c.rng, []string{"value", "id", "name", "unit", "nosuch"})}), input)
	}
	// ---- (d) byte-mutated sources
	seeds := []string{"Patient.name.where(given = 'a').family", "Patient.name.given.first() & 'x'", "(1 + 2) * 3 > 4 and true", "@2020-02-29T10:30:00Z + 1 month", "%v.select($this + 1)", "Patient.extension('u').value as Quantity", "iif(Patient.active, 1, 2)", "'abc'.substring(1, 2).length()", "1 'mg' + 2 'mg'", "Patient.name[0].given[1]"}
	nMut := 600
	if c.thorough {
		nMut = 12000
	}
	alpha := "()[].,+-*/&|<>=!~'`@%$ 0aT:{}\n\\"
	for k := 0; k < nMut; k++ {
		bs := []byte(Pick(c.rng, seeds))
		for m := 0; m <= c.rng.Intn(3); m++ {
			if len(bs) == 0 {
				break
			}
			p := c.rng.Intn(len(bs))
			switch c.rng.Intn(4) {
			case 0:
				bs[p] = alpha[c.rng.Intn(len(alpha))]
			case 1:
				bs = append(bs[:p], bs[p+1:]...)
			case 2:
				bs = append(bs[:p], append([]byte{alpha[c.rng.Intn(len(alpha))]}, bs[p:]...)...)
			default:
				bs[p] = byte(c.rng.Intn(256))
			}
		}
		run("mut", string(bs), input)
	}
	// ---- (e) EvaluateAs* helpers
	for _, src := range []string{"Patient.active", "Patient.name.given", "{}", "1", "'x'", "Patient.name", "1.5", "@2020", "Patient.nosuch", "1 / 0", "2147483647 + 1"} {
		e, err := fhirpath.Compile(src)
		if err != nil {
			continue
		}
		_, pan, msg := safeErr(func() error {
			_, _ = e.EvaluateAsBool(input)
			_, _ = e.EvaluateAsString(input)
			_, _ = e.EvaluateAsInt32(input)
			_, _ = e.EvaluateAsCanonical(input)
			_, _ = e.Evaluate(nil)
			_, _ = e.Evaluate([]fhir.Resource{})
			_, _ = e.Evaluate(input, evalopts.EnvVariable("x", nil))
			return nil
		})
		c.Observe("as "+src, false)
		c.Law(!pan, "C01/helper-panic", "the EvaluateAs* helpers return a value or an error", src, msg)
	}
	// ---- (f) patch operations
	paths := []string{"Patient", "Patient.name", "Patient.name[0]", "Patient.name.given", "Patient.name[0].given[1]", "Patient.active", "Patient.active.value", "Patient.birthDate", "Patient.nosuch", "Patient.name.where(family = 'Smith')", "Patient.extension[0].value", "Patient.id", "1 + 1", "{}", "Patient.name.given.first()", "Patient.name.count()",
		// paths that go on for several steps after a step that found nothing
		"Patient.contact.name.family", "Patient.contact.name.given.first()", "Patient.name.where(use = 'official').given.first()", "Patient.link.other.reference", "Patient.contact.address.line[0]",
		"Patient.contact.telecom.where(system = 'phone').value", "Patient.managingOrganization.identifier.assigner.display", "Patient.name.where(false).given.where(true).first()", "Patient.photo.data.value", "Patient.nosuch.name.family"}
	values := []fhir.Base{&dtpb.HumanName{Family: fhir.String("N")}, fhir.String("s"), fhir.Integer(-1), fhir.Boolean(true), fhir.Code("male"), &dtpb.Decimal{Value: "1.5"}, &dtpb.Quantity{}, nil, fhir.Date(timeDate(2020, 1, 1, 0, 0, 0, 0, "UTC"))}
	for _, p := range paths {
		for _, v := range values {
			for _, op := range []string{"add", "insert", "delete", "replace", "move"} {
				res := mustResource(`{"resourceType":"Patient","id":"p","active":true,"birthDate":"1980-02-29","name":[{"family":"Smith","given":["a","b"]},{"given":["c"]}],"extension":[{"url":"u","valueString":"x"}]}`)
				_, pan, msg := safeErr(func() error {
					switch op {
					case "add":
						_ = patch.Add(res, p, Pick(c.rng, []string{"given", "name", "active", "value", "nosuch", "birthDate", "gender", "given_name", ""}), v, &patch.Options{})
					case "insert":
						_ = patch.Insert(res, p, v, c.rng.Intn(4)-1)
					case "delete":
						_ = patch.Delete(res, p)
					case "replace":
						_ = patch.Replace(res, p, v)
					case "move":
						_ = patch.Move(res, p, 0, 1)
					}
					return nil
				})
				c.Observe(fmt.Sprintf("patch %s %s %T", op, p, v), false)
				c.Law(!pan, "C01/patch-panic", "every FHIRPatch call returns nil or an error", fmt.Sprintf("%s %s value=%T", op, p, v), msg)
			}
		}
	}
	// structurally unusual but valid messages: choice and contained-resource wrappers with nothing set
	odd := map[string]func() fhir.Resource{
		"Patient(empty deceased[x])": func() fhir.Resource {
			return &ppb.Patient{Name: []*dtpb.HumanName{{Given: []*dtpb.String{fhir.String("B")}}}, Deceased: &ppb.Patient_DeceasedX{}, MultipleBirth: &ppb.Patient_MultipleBirthX{},
				Address: []*dtpb.Address{{City: fhir.String("S")}}, MaritalStatus: &dtpb.CodeableConcept{Text: fhir.String("m")}, Extension: []*dtpb.Extension{{Url: fhir.URI("u"), Value: &dtpb.Extension_ValueX{}}}}
		},
		"Bundle(empty contained resource)": func() fhir.Resource {
			return &bcrpb.Bundle{Entry: []*bcrpb.Bundle_Entry{{Resource: &bcrpb.ContainedResource{}, Request: &bcrpb.Bundle_Entry_Request{Url: fhir.URI("Patient/1")}}, {}}}
		},
		"Patient(empty messages)": func() fhir.Resource {
			return &ppb.Patient{Name: []*dtpb.HumanName{{}, {Given: []*dtpb.String{{}}}}, Active: &dtpb.Boolean{}, BirthDate: &dtpb.Date{}, Contained: []*anypb.Any{{}}, Id: &dtpb.Id{}}
		},
	}
	oddPaths := map[string][]string{
		"Patient(empty deceased[x])":       {"Patient.address[0]", "Patient.maritalStatus", "Patient.address", "Patient.deceased", "Patient.multipleBirth", "Patient.extension[0].value", "Patient.extension[0]", "Patient.name[0].given[0]", "Patient"},
		"Bundle(empty contained resource)": {"Bundle.entry[0].request", "Bundle.entry[0].resource", "Bundle.entry[1]", "Bundle.entry", "Bundle.entry[0]", "Bundle"},
		"Patient(empty messages)":          {"Patient.name[0]", "Patient.name[1].given[0]", "Patient.active", "Patient.birthDate", "Patient.contained[0]", "Patient.id", "Patient.name"},
	}
	var oddNames []string
	for n := range odd {
		oddNames = append(oddNames, n)
	}
	sort.Strings(oddNames)
	for _, n := range oddNames {
		for _, p := range oddPaths[n] {
			run("odd", p, []fhir.Resource{odd[n]()})
			run("odd", p+".descendants().count()", []fhir.Resource{odd[n]()})
			run("odd", p+".children().exists() or "+p+".toString().exists()", []fhir.Resource{odd[n]()})
			for _, v := range values {
				for _, op := range []string{"add", "insert", "delete", "replace", "move"} {
					res := odd[n]()
					_, pan, msg := safeErr(func() error {
						switch op {
						case "add":
							_ = patch.Add(res, p, Pick(c.rng, []string{"given", "name", "active", "value", "deceased", "resource", "request", "city", "text"}), v, &patch.Options{})
						case "insert":
							_ = patch.Insert(res, p, v, c.rng.Intn(3)-1)
						case "delete":
							_ = patch.Delete(res, p)
						case "replace":
							_ = patch.Replace(res, p, v)
						case "move":
							_ = patch.Move(res, p, 0, 1)
						}
						return nil
					})
					c.Observe(fmt.Sprintf("patch %s %s %s %T", op, n, p, v), false)
					c.Law(!pan, "C01/patch-panic", "every FHIRPatch call returns nil or an error", fmt.Sprintf("%s on %s at %s value=%T", op, n, p, v), msg)
				}
			}
		}
	}
	// values of a sibling type with the same short name (components of other resources), and values of
	// every primitive kind, against paths of many kinds
	sameName := []fhir.Base{&orgpb.Organization_Contact{}, &perpb.Person_Link{}, &perpb.Person_GenderCode{}, &orgpb.Organization_Contact{Purpose: &dtpb.CodeableConcept{}}, &dtpb.Address_UseCode{}, &dtpb.ContactPoint_UseCode{},
		&dtpb.Uri{Value: "u"}, &dtpb.Id{Value: "i"}, &dtpb.Markdown{Value: "m"}, &dtpb.PositiveInt{Value: 1}, &dtpb.UnsignedInt{Value: 1}, &dtpb.DateTime{}, &dtpb.Instant{}, &dtpb.Time{}, &dtpb.Base64Binary{}, &dtpb.Reference{}, &dtpb.Extension{}, &dtpb.Coding{}, &dtpb.Period{}}
	for _, v := range sameName {
		for _, tgt := range []struct{ path, name string }{{"Patient", "contact"}, {"Patient", "link"}, {"Patient", "gender"}, {"Patient", "address"}, {"Patient", "telecom"}, {"Patient.contact[0]", "gender"}, {"Patient.name[0]", "use"}, {"Patient", "birthDate"}, {"Patient", "deceased"}, {"Patient", "extension"}, {"Patient", "managingOrganization"}, {"Patient.name[0]", "period"}} {
			for _, op := range []string{"add", "replace", "insert"} {
				res := mustResource(`{"resourceType":"Patient","id":"p","gender":"male","name":[{"family":"S","use":"official"}],"contact":[{"gender":"female"}],"link":[{"other":{"reference":"Patient/2"},"type":"seealso"}],"address":[{"use":"home"}],"telecom":[{"use":"home"}]}`)
				_, pan, msg := safeErr(func() error {
					switch op {
					case "add":
						_ = patch.Add(res, tgt.path, tgt.name, v, &patch.Options{})
					case "replace":
						_ = patch.Replace(res, tgt.path+"."+tgt.name, v)
						_ = patch.Replace(res, tgt.path+"."+tgt.name+"[0]", v)
					case "insert":
						_ = patch.Insert(res, tgt.path+"."+tgt.name, v, 0)
					}
					return nil
				})
				c.Observe(fmt.Sprintf("patch-sibling %s %s.%s %T", op, tgt.path, tgt.name, v), false)
				c.Law(!pan, "C01/patch-panic", "every FHIRPatch call returns nil or an error", fmt.Sprintf("%s %s.%s value=%T", op, tgt.path, tgt.name, v), msg)
			}
		}
	}
	for _, op := range []string{"add", "insert", "delete", "replace"} {
		_, pan, msg := safeErr(func() error {
			switch op {
			case "add":
				_ = patch.Add(nil, "Patient", "name", &dtpb.HumanName{}, &patch.Options{})
			case "insert":
				_ = patch.Insert(nil, "Patient.name", &dtpb.HumanName{}, 0)
			case "delete":
				_ = patch.Delete(nil, "Patient.name")
			case "replace":
				_ = patch.Replace(nil, "Patient.name", &dtpb.HumanName{})
			}
			return nil
		})
		c.Law(!pan, "C01/patch-panic", "every FHIRPatch call returns nil or an error", op+" on a nil resource", msg)
	}
	// typed nil pointers (a nil *dtpb.Boolean is a non-nil fhir.Base) as value and as resource, and nil options
	{
		mkPatient := func() *ppb.Patient {
			return &ppb.Patient{Active: &dtpb.Boolean{Value: true}, Name: []*dtpb.HumanName{{Family: &dtpb.String{Value: "a"}}}}
		}
		probes := []struct {
			what string
			f    func() error
		}{
			{"replace Patient.active value=(*Boolean)(nil)", func() error { return patch.Replace(mkPatient(), "Patient.active", (*dtpb.Boolean)(nil)) }},
			{"add Patient.deceased value=(*Boolean)(nil)", func() error { return patch.Add(mkPatient(), "Patient", "deceased", (*dtpb.Boolean)(nil), &patch.Options{}) }},
			{"add Patient.name value=(*HumanName)(nil)", func() error { return patch.Add(mkPatient(), "Patient", "name", (*dtpb.HumanName)(nil), &patch.Options{}) }},
			{"insert Patient.name value=(*HumanName)(nil)", func() error { return patch.Insert(mkPatient(), "Patient.name", (*dtpb.HumanName)(nil), 0) }},
			{"replace Patient.name[0] value=(*HumanName)(nil)", func() error { return patch.Replace(mkPatient(), "Patient.name[0]", (*dtpb.HumanName)(nil)) }},
			{"add with nil *Options", func() error { return patch.Add(mkPatient(), "Patient", "gender", &dtpb.Code{Value: "male"}, nil) }},
			{"add on (*Patient)(nil)", func() error { return patch.Add((*ppb.Patient)(nil), "Patient", "name", &dtpb.HumanName{}, &patch.Options{}) }},
			{"insert on (*Patient)(nil)", func() error { return patch.Insert((*ppb.Patient)(nil), "Patient.name", &dtpb.HumanName{}, 0) }},
			{"delete on (*Patient)(nil)", func() error { return patch.Delete((*ppb.Patient)(nil), "Patient.name") }},
			{"replace on (*Patient)(nil)", func() error { return patch.Replace((*ppb.Patient)(nil), "Patient.active", &dtpb.Boolean{}) }},
			{"move on (*Patient)(nil)", func() error { return patch.Move((*ppb.Patient)(nil), "Patient.name", 0, 1) }},
		}
		for _, pr := range probes {
			_, pan, msg := safeErr(pr.f)
			c.Observe("typed-nil "+pr.what, true)
			c.Law(!pan, "C01/patch-panic", "every FHIRPatch call returns nil or an error", pr.what, msg)
		}
	}
	// ---- (h) ill-formed primitive elements x every way of converting them
	runC01Ill(c, run)
	_ = decimal.Zero
}
