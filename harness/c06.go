package main

// C06 — Boolean operators, every operand form.
//
// For every operator and every ordered pair of operand forms (value x source) the harness
// (1) evaluates each operand expression alone through the real Compile/Evaluate and
// abstracts its result to the model's item alphabet (t, f, o = non-Boolean item),
// (2) evaluates `L op R` and sends `bool <op> <L-items> <R-items>` to the model.
// Direct oracles on the implementation: commutativity, De Morgan, implies = not-or.

import (
	"fmt"
	"strings"

	dtpb "github.com/google/fhir/go/proto/google/fhir/proto/r4/core/datatypes_go_proto"
	"github.com/verily-src/fhirpath-go/fhirpath"
	"github.com/verily-src/fhirpath-go/fhirpath/evalopts"
	"github.com/verily-src/fhirpath-go/fhirpath/system"
	"github.com/verily-src/fhirpath-go/internal/fhir"
)

func init() { props["C06"] = runC06 }

type operand struct {
	src   string // FHIRPath source of the operand
	value string // intended value class (for the distribution only)
	via   string // source kind
}

func boolAbs(c system.Collection) string {
	if len(c) == 0 {
		return "-"
	}
	var b strings.Builder
	for _, it := range c {
		switch v := it.(type) {
		case system.Boolean:
			if v {
				b.WriteByte('t')
			} else {
				b.WriteByte('f')
			}
		case *dtpb.Boolean:
			if v.GetValue() {
				b.WriteByte('t')
			} else {
				b.WriteByte('f')
			}
		default:
			b.WriteByte('o')
		}
	}
	return b.String()
}

func boolOut(o Outcome) string {
	switch {
	case o.TimedOut:
		return "timeout"
	case o.Panicked:
		return "panic"
	case o.Err != nil:
		return "err:" + errClass(o.Err)
	}
	return "ok:" + boolAbs(o.Coll)
}

func runC06(c *Ctx) {
	c.meta.Rule = "exhaustive: 4 operators x every ordered pair of operand forms (5 value classes x 5 sources; the non-Boolean single items include 'false', 'no', 0, 0.0 and elements without a System value), plus not(), where/exists/all/iif criteria and EvaluateAsBool on each form; a case is non-trivial when at least one operand is non-empty; distinct by (op, abstracted operands)"
	c.meta.Exhaustive = true
	patient := mustResource(`{"resourceType":"Patient","id":"p1","active":true,"deceasedBoolean":false,
	  "name":[{"family":"A","given":["x","y"]},{"family":"B"}],
	  "contact":[{"name":{"family":"C"}}],
	  "multipleBirthInteger":2}`)
	patientF := mustResource(`{"resourceType":"Patient","id":"p2","active":false,"name":[{"family":"A"}]}`)
	input := []fhir.Resource{patient}
	inputF := []fhir.Resource{patientF}
	_ = inputF
	envs := []fhirpath.EvaluateOption{
		evalopts.EnvVariable("vt", system.Boolean(true)),
		evalopts.EnvVariable("vf", system.Boolean(false)),
		evalopts.EnvVariable("ve", system.Collection{}),
		evalopts.EnvVariable("vo", system.String("s")),
		evalopts.EnvVariable("vm", system.Collection{system.Boolean(true), system.Boolean(false)}),
		evalopts.EnvVariable("vft", fhir.Boolean(true)),
		evalopts.EnvVariable("vff", fhir.Boolean(false)),
		evalopts.EnvVariable("vfm", system.Collection{fhir.Boolean(false), fhir.Boolean(true)}),
		evalopts.EnvVariable("pf", patientF),
		// Boolean elements that also carry an extension / an id are Booleans like the others
		evalopts.EnvVariable("pfx", mustResource(`{"resourceType":"Patient","id":"p3","active":false,"_active":{"id":"a1","extension":[{"url":"http://example.org/x","valueString":"why"}]},"deceasedBoolean":true,"_deceasedBoolean":{"extension":[{"url":"http://example.org/y","valueCode":"c"}]}}`)),
		evalopts.EnvVariable("vfx", &dtpb.Boolean{Value: false, Extension: []*dtpb.Extension{{Url: fhir.URI("http://example.org/x"), Value: &dtpb.Extension_ValueX{Choice: &dtpb.Extension_ValueX_StringValue{StringValue: fhir.String("why")}}}}}),
		evalopts.EnvVariable("vtx", &dtpb.Boolean{Value: true, Id: fhir.String("t1")}),
		// single items that are not Booleans: some look like one, some have no System value at all
		evalopts.EnvVariable("vq", &dtpb.Quantity{Unit: fhir.String("mg")}),
		evalopts.EnvVariable("vd", &dtpb.Decimal{Value: ""}),
		evalopts.EnvVariable("vfs", fhir.String("false")),
		evalopts.EnvVariable("vi0", fhir.Integer(0)),
	}
	forms := []operand{
		// literals
		{"true", "true", "literal"}, {"false", "false", "literal"}, {"{}", "empty", "literal"}, {"'s'", "other", "literal"}, {"1", "other", "literal"},
		// FHIR boolean elements
		{"Patient.active", "true", "element"}, {"%pf.active", "false", "element"}, {"Patient.gender", "empty", "element"},
		{"Patient.name.first()", "other", "element"}, {"Patient.name", "multi", "element"}, {"Patient.name.given", "multi", "element"},
		{"%vft", "true", "element"}, {"%vff", "false", "element"}, {"%vfm", "multi", "element"},
		// computed System Booleans
		{"(1 = 1)", "true", "computed"}, {"(1 = 2)", "false", "computed"}, {"(1 = {})", "empty", "computed"}, {"(1 + 1)", "other", "computed"},
		{"(true and true)", "true", "computed"}, {"(false or {})", "empty", "computed"},
		// environment variables
		{"%vt", "true", "variable"}, {"%vf", "false", "variable"}, {"%ve", "empty", "variable"}, {"%vo", "other", "variable"}, {"%vm", "multi", "variable"},
		// function results
		{"Patient.name.exists()", "true", "function"}, {"Patient.name.empty()", "false", "function"}, {"Patient.name.where(false)", "empty", "function"},
		{"Patient.name.count()", "other", "function"}, {"Patient.name.select(family.exists())", "multi", "function"},
		{"true.not()", "false", "function"}, {"Patient.active.not()", "false", "function"},
		{"%pfx.active", "false", "element"}, {"%pfx.deceased", "true", "element"}, {"%vfx", "false", "element"}, {"%vtx", "true", "element"},
		// operands that contain other operators and operator names
		{"(true xor false)", "true", "computed"}, {"(true xor true)", "false", "computed"}, {"(false implies false)", "true", "computed"}, {"(true implies false)", "false", "computed"},
		{"(false and true)", "false", "computed"}, {"'xor'", "other", "literal"}, {"'or'", "other", "literal"}, {"('and' = 'and')", "true", "computed"}, {"'implies'", "other", "literal"},
		// a single non-Boolean item is true in a Boolean context, whatever it looks like
		{"'false'", "other", "literal"}, {"'true'", "other", "literal"}, {"0", "other", "literal"}, {"0.0", "other", "literal"}, {"'no'", "other", "literal"}, {"'F'", "other", "literal"},
		{"%vq", "other", "variable"}, {"%vd", "other", "variable"}, {"%vfs", "other", "variable"}, {"%vi0", "other", "variable"}, {"(1 - 1)", "other", "computed"},
	}
	eval := func(src string) Outcome { return compileEval(src, input, envs...) }
	abs := make([]string, len(forms))
	for i, f := range forms {
		o := eval(f.src)
		if o.Err != nil || o.Panicked {
			c.meta.Notes = append(c.meta.Notes, fmt.Sprintf("operand %s does not evaluate: %v %v", f.src, o.Err, o.PanicMsg))
			abs[i] = "!"
			continue
		}
		abs[i] = boolAbs(o.Coll)
		c.Count("form:" + f.via + "/" + f.value)
		// the operand form has the value class it was written to have (an empty variable is empty, ...)
		okForm := map[string]bool{"true": abs[i] == "t", "false": abs[i] == "f", "empty": abs[i] == "-", "other": abs[i] == "o", "multi": len(abs[i]) > 1}[f.value]
		c.Law(okForm, "C06/operand-form", "every source of an operand (literal, element, computed, variable, function) yields the value it denotes: empty stays empty, a Boolean stays that Boolean", f.src+" ("+f.via+", meant to be "+f.value+")", boolOut(o))
	}
	ops := []string{"and", "or", "xor", "implies"}
	for _, op := range ops {
		for i, l := range forms {
			for j, r := range forms {
				if abs[i] == "!" || abs[j] == "!" {
					continue
				}
				src := l.src + " " + op + " " + r.src
				o := eval(src)
				out := boolOut(o)
				c.Emit("bool "+op+" "+abs[i]+" "+abs[j], out, abs[i] != "-" || abs[j] != "-")
				c.Count("op:" + op)
				c.Count("outcome:" + strings.SplitN(out, ":", 2)[0])
				// direct oracles on the implementation
				if op != "implies" {
					rev := boolOut(eval(r.src + " " + op + " " + l.src))
					c.Law(out == rev, "C06/commutativity", "a "+op+" b = b "+op+" a", src, out+" vs "+rev)
				} else {
					alt := boolOut(eval("(" + l.src + ").not() or " + r.src))
					c.Law(out == alt, "C06/implies-not-or", "a implies b = a.not() or b", src, out+" vs "+alt)
				}
				if op == "and" || op == "or" {
					dual := map[string]string{"and": "or", "or": "and"}[op]
					lhs := boolOut(eval("(" + src + ").not()"))
					rhs := boolOut(eval("(" + l.src + ").not() " + dual + " (" + r.src + ").not()"))
					c.Law(lhs == rhs, "C06/de-morgan", "(a "+op+" b).not() = a.not() "+dual+" b.not()", src, lhs+" vs "+rhs)
				}
			}
		}
	}
	// exists(criteria) is where(criteria).exists(): the same value, and the same failure when a criterion value is not a
	// single Boolean-able item — wherever in the collection that item stands
	{
		later := []fhir.Resource{mustResource(`{"resourceType":"Patient","id":"p3","name":[{"given":["Ann"],"family":"A"},{"given":["Bob","Carl"]},{"family":"C"}],"telecom":[{"value":"1","rank":1},{"value":"2"}]}`)}
		for _, in := range [][]fhir.Resource{input, later} {
			for _, coll := range []string{"Patient.name", "Patient.telecom", "Patient", "Patient.name.given", "Patient.name.tail()", "Patient.name.take(1)"} {
				for _, crit := range []string{"given", "family", "given.first()", "given.exists()", "family = 'A'", "rank", "value", "$this", "true", "false", "{}", "given.count() > 1", "given | family", "name.given", "active", "(given).first() = 'Ann'"} {
					a := boolOut(compileEval(coll+".exists("+crit+")", in, envs...))
					b := boolOut(compileEval(coll+".where("+crit+").exists()", in, envs...))
					c.Observe("exists-where "+coll+" "+crit, true)
					c.Law(a == b, "C06/exists-where", "exists(criteria) = where(criteria).exists(), errors included", coll+".exists("+crit+")", a+" vs "+b)
				}
			}
		}
	}
	// not(), criteria and EvaluateAsBool on each form
	for i, f := range forms {
		if abs[i] == "!" {
			continue
		}
		c.Emit("not "+abs[i], boolOut(eval("("+f.src+").not()")), abs[i] != "-")
		// iif(criterion, 'T', 'F'): criterion follows ToBool
		o := eval("iif(" + f.src + ", true, false)")
		c.Emit("crit "+abs[i], boolOut(o), abs[i] != "-")
		// where(criterion) on a one-item collection: kept iff ToBool
		rel := strings.ReplaceAll(f.src, "Patient.", "") // inside a function argument the root type name is not re-resolved
		o = eval("Patient.where(" + rel + ").exists()")
		c.Emit("crit "+abs[i], boolOut(o), abs[i] != "-")
		o = eval("Patient.all(" + rel + ")")
		c.Emit("crit "+abs[i], boolOut(o), abs[i] != "-")
		// EvaluateAsBool
		ob := safeEval(func() (system.Collection, error) {
			e, err := fhirpath.Compile(f.src)
			if err != nil {
				return nil, fmt.Errorf("compile: %w", err)
			}
			b, err := e.EvaluateAsBool(input, envs...)
			if err != nil {
				return nil, err
			}
			return system.Collection{system.Boolean(b)}, nil
		})
		c.Emit("crit "+abs[i], boolOut(ob), abs[i] != "-")
		c.Count("criteria")
		if len(abs[i]) > 1 {
			c.Law(strings.HasPrefix(boolOut(ob), "err"), "C06/multi-item-accepted", "more than one item in a Boolean context is an error, never silently its first item", "EvaluateAsBool("+f.src+")", boolOut(ob))
			for _, wsrc := range []string{"(" + f.src + ").not()", "(" + f.src + ") and true", "true or (" + f.src + ")", "iif(" + f.src + ", 1, 2)"} {
				wo := boolOut(eval(wsrc))
				c.Law(strings.HasPrefix(wo, "err"), "C06/multi-item-accepted", "more than one item in a Boolean context is an error, never silently its first item", wsrc, wo)
			}
		}
	}
}
