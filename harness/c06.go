package main

// C06 — Boolean operators, every operand form.
//
// For every operator and every ordered pair of operand forms (value x source) the harness
// (1) evaluates each operand expression alone through the real Compile/Evaluate and
// abstracts its result to the model's item alphabet (t, f, o = non-Boolean item),
// (2) evaluates `L op R` and sends `bool <op> <L-items> <R-items>` to the model.
// Direct oracles on the implementation: commutativity, De Morgan, implies = not-or.

import (
	"fmt"
	"strings"

	dtpb "github.com/google/fhir/go/proto/google/fhir/proto/r4/core/datatypes_go_proto"
	"github.com/verily-src/fhirpath-go/fhirpath"
	"github.com/verily-src/fhirpath-go/fhirpath/evalopts"
	"github.com/verily-src/fhirpath-go/fhirpath/system"
	"github.com/verily-src/fhirpath-go/internal/fhir"
)

func init() { props["C06"] = runC06 }

type operand struct {
	src   string // FHIRPath source of the operand
	value string // intended value class (for the distribution only)
	via   string // source kind
}

func boolAbs(c system.Collection) string {
	if len(c) == 0 {
		return "-"
	}
	var b strings.Builder
	for _, it := range c {
		switch v := it.(type) {
		case system.Boolean:
			if v {
				b.WriteByte('t')
			} else {
				b.WriteByte('f')
			}
		case *dtpb.Boolean:
			if v.GetValue() {
				b.WriteByte('t')
			} else {
				b.WriteByte('f')
			}
		default:
			b.WriteByte('o')
		}
	}
	return b.String()
}

func boolOut(o Outcome) string {
	switch {
	case o.TimedOut:
		return "timeout"
	case o.Panicked:
		return "panic"
	case o.Err != nil:
		return "err:" + errClass(o.Err)
	}
	return "ok:" + boolAbs(o.Coll)
}

func runC06(c *Ctx) {
	c.meta.Rule = "exhaustive: 4 operators x every ordered pair of operand forms (5 value classes x 5 sources; the non-Boolean single items include 'false', 'no', 0, 0.0 and elements without a System value), plus not(), where/exists/all/iif criteria and EvaluateAsBool on each form; a case is non-trivial when at least one operand is non-empty; distinct by (op, abstracted operands)"
	c.meta.Exhaustive = true
	patient := mustResource(`{"resourceType":"Patient","id":"p1","active":true,"deceasedBoolean":false,
	  "name":[{"family":"A","given":["x","y"]},{"family":"B"}],
	  "contact":[{"name":{"family":"C"}}],
	  "multipleBirthInteger":2}`)
	patientF := mustResource(`{"resourceType":"Patient","id":"p2","active":false,"name":[{"family":"A"}]}`)
	input := []fhir.Resource{patient}
	inputF := []fhir.Resource{patientF}
	_ = inputF
	envs := []fhirpath.EvaluateOption{
		evalopts.EnvVariable("vt", system.Boolean(true)),
		evalopts.EnvVariable("vf", system.Boolean(false)),
		evalopts.EnvVariable("ve", system.Collection{}),
		evalopts.EnvVariable("vo", system.String("s")),
		evalopts.EnvVariable("vm", system.Collection{system.Boolean(true), system.Boolean(false)}),
		evalopts.EnvVariable("vft", fhir.Boolean(true)),
		evalopts.EnvVariable("vff", fhir.Boolean(false)),
		evalopts.EnvVariable("vfm", system.Collection{fhir.Boolean(false), fhir.Boolean(true)}),
		evalopts.EnvVariable("pf", patientF),
		// single items that are not Booleans: some look like one, some have no System value at all
		evalopts.EnvVariable("vq", &dtpb.Quantity{Unit: fhir.String("mg")}),
		evalopts.EnvVariable("vd", &dtpb.Decimal{Value: ""}),
		evalopts.EnvVariable("vfs", fhir.String("false")),
		evalopts.EnvVariable("vi0", fhir.Integer(0)),
	}
	forms := []operand{
		// literals
		{"true", "true", "literal"}, {"false", "false", "literal"}, {"{}", "empty", "literal"}, {"'s'", "other", "literal"}, {"1", "other", "literal"},
		// FHIR boolean elements
		{"Patient.active", "true", "element"}, {"%pf.active", "false", "element"}, {"Patient.gender", "empty", "element"},
		{"Patient.name.first()", "other", "element"}, {"Patient.name", "multi", "element"}, {"Patient.name.given", "multi", "element"},
		{"%vft", "true", "element"}, {"%vff", "false", "element"}, {"%vfm", "multi", "element"},
		// computed System Booleans
		{"(1 = 1)", "true", "computed"}, {"(1 = 2)", "false", "computed"}, {"(1 = {})", "empty", "computed"}, {"(1 + 1)", "other", "computed"},
		{"(true and true)", "true", "computed"}, {"(false or {})", "empty", "computed"},
		// environment variables
		{"%vt", "true", "variable"}, {"%vf", "false", "variable"}, {"%ve", "empty", "variable"}, {"%vo", "other", "variable"}, {"%vm", "multi", "variable"},
		// function results
		{"Patient.name.exists()", "true", "function"}, {"Patient.name.empty()", "false", "function"}, {"Patient.name.where(false)", "empty", "function"},
		{"Patient.name.count()", "other", "function"}, {"Patient.name.select(family.exists())", "multi", "function"},
		{"true.not()", "false", "function"}, {"Patient.active.not()", "false", "function"},
		// a single non-Boolean item is true in a Boolean context, whatever it looks like
		{"'false'", "other", "literal"}, {"'true'", "other", "literal"}, {"0", "other", "literal"}, {"0.0", "other", "literal"}, {"'no'", "other", "literal"}, {"'F'", "other", "literal"},
		{"%vq", "other", "variable"}, {"%vd", "other", "variable"}, {"%vfs", "other", "variable"}, {"%vi0", "other", "variable"}, {"(1 - 1)", "other", "computed"},
	}
	eval := func(src string) Outcome { return compileEval(src, input, envs...) }
	abs := make([]string, len(forms))
	for i, f := range forms {
		o := eval(f.src)
		if o.Err != nil || o.Panicked {
			c.meta.Notes = append(c.meta.Notes, fmt.Sprintf("operand %s does not evaluate: %v %v", f.src, o.Err, o.PanicMsg))
			abs[i] = "!"
			continue
		}
		abs[i] = boolAbs(o.Coll)
		c.Count("form:" + f.via + "/" + f.value)
	}
	ops := []string{"and", "or", "xor", "implies"}
	for _, op := range ops {
		for i, l := range forms {
			for j, r := range forms {
				if abs[i] == "!" || abs[j] == "!" {
					continue
				}
				src := l.src + " " + op + " " + r.src
				o := eval(src)
				out := boolOut(o)
				c.Emit("bool "+op+" "+abs[i]+" "+abs[j], out, abs[i] != "-" || abs[j] != "-")
				c.Count("op:" + op)
				c.Count("outcome:" + strings.SplitN(out, ":", 2)[0])
				// direct oracles on the implementation
				if op != "implies" {
					rev := boolOut(eval(r.src + " " + op + " " + l.src))
					c.Law(out == rev, "C06/commutativity", "a "+op+" b = b "+op+" a", src, out+" vs "+rev)
				} else {
					alt := boolOut(eval("(" + l.src + ").not() or " + r.src))
					c.Law(out == alt, "C06/implies-not-or", "a implies b = a.not() or b", src, out+" vs "+alt)
				}
				if op == "and" || op == "or" {
					dual := map[string]string{"and": "or", "or": "and"}[op]
					lhs := boolOut(eval("(" + src + ").not()"))
					rhs := boolOut(eval("(" + l.src + ").not() " + dual + " (" + r.src + ").not()"))
					c.Law(lhs == rhs, "C06/de-morgan", "(a "+op+" b).not() = a.not() "+dual+" b.not()", src, lhs+" vs "+rhs)
				}
			}
		}
	}
	// not(), criteria and EvaluateAsBool on each form
	for i, f := range forms {
		if abs[i] == "!" {
			continue
		}
		c.Emit("not "+abs[i], boolOut(eval("("+f.src+").not()")), abs[i] != "-")
		// iif(criterion, 'T', 'F'): criterion follows ToBool
		o := eval("iif(" + f.src + ", true, false)")
		c.Emit("crit "+abs[i], boolOut(o), abs[i] != "-")
		// where(criterion) on a one-item collection: kept iff ToBool
		rel := strings.ReplaceAll(f.src, "Patient.", "") // inside a function argument the root type name is not re-resolved
		o = eval("Patient.where(" + rel + ").exists()")
		c.Emit("crit "+abs[i], boolOut(o), abs[i] != "-")
		o = eval("Patient.all(" + rel + ")")
		c.Emit("crit "+abs[i], boolOut(o), abs[i] != "-")
		// EvaluateAsBool
		ob := safeEval(func() (system.Collection, error) {
			e, err := fhirpath.Compile(f.src)
			if err != nil {
				return nil, fmt.Errorf("compile: %w", err)
			}
			b, err := e.EvaluateAsBool(input, envs...)
			if err != nil {
				return nil, err
			}
			return system.Collection{system.Boolean(b)}, nil
		})
		c.Emit("crit "+abs[i], boolOut(ob), abs[i] != "-")
		c.Count("criteria")
	}
}
