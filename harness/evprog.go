package main

// Whole-program correspondence with the ASSEMBLED evaluator model (lean/FP/Model/Eval.lean):
// a type-directed generator of FHIRPath programs over environment collections of System values
// (Boolean, Integer, Decimal, String) — operators of every level, criteria functions with $this,
// subsetting, set functions, iif, string and math functions — plus a smaller stream of programs
// that Compile must reject or that fail at evaluation.  The source text goes to the real
// Compile + Evaluate and, character for character, to the model's lexer → parser → visitor →
// evaluator; outcomes are compared as result collections / "err:compile" / "err:eval".

import (
	"fmt"
	"strings"
	"time"

	"github.com/shopspring/decimal"
	"github.com/verily-src/fhirpath-go/fhirpath"
	"github.com/verily-src/fhirpath-go/fhirpath/compopts"
	"github.com/verily-src/fhirpath-go/fhirpath/evalopts"
	"github.com/verily-src/fhirpath-go/fhirpath/system"
	"github.com/verily-src/fhirpath-go/internal/fhir"
)

type evGen struct {
	r    *RNG
	vars map[string]system.Collection
	hit  map[string]int
	clock time.Time
}

var evInts = []int32{0, 1, 2, 3, -1, 5, 7, 10, 46341, -46341, 65536, maxI32, minI32 + 1, 2, 1}
var evDecs = []string{"0.0", "1.0", "1.5", "2.50", "0.1", "3.14", "-0.5", "100.00", "0.3333333333333333", "2.0", "1.00"}
var evStrs = []string{"", "a", "ab", "abc", "b", "héllo", "日本語", "a b", "x😀y", "abab", "A", "1"}

func (g *evGen) note(k string) { g.hit[k]++ }

func (g *evGen) intLit() string {
	v := Pick(g.r, evInts)
	if v < 0 {
		return fmt.Sprintf("(%d)", v)
	}
	return fmt.Sprintf("%d", v)
}
func (g *evGen) decLit() string {
	s := Pick(g.r, evDecs)
	if strings.HasPrefix(s, "-") {
		return "(" + s + ")"
	}
	return s
}
func (g *evGen) strLit() string {
	s := Pick(g.r, evStrs)
	switch g.r.Intn(12) {
	case 0:
		return `'it\'s'`
	case 1:
		return `'a\\b'`
	case 2:
		return `'été'`
	case 3:
		return `'tab\there'`
	}
	return "'" + s + "'"
}

func (g *evGen) wrap(s string) string {
	if g.r.Intn(10) < 7 {
		return "(" + s + ")"
	}
	return s
}

// collections ------------------------------------------------------------

func (g *evGen) collVar(kind string) string {
	switch kind {
	case "int":
		return Pick(g.r, []string{"%i", "%i2", "%m"})
	case "dec":
		return Pick(g.r, []string{"%d", "%m"})
	case "str":
		return Pick(g.r, []string{"%s", "%s2"})
	case "bool":
		return "%b"
	}
	return Pick(g.r, []string{"%i", "%i2", "%d", "%s", "%s2", "%b", "%m", "%e", "%one"})
}

func (g *evGen) crit(kind string, d int) string {
	switch kind {
	case "int", "dec":
		switch g.r.Intn(6) {
		case 0:
			return "$this > " + g.intLit()
		case 1:
			return "$this <= " + g.decLit()
		case 2:
			return "$this = " + g.intLit()
		case 3:
			return "$this mod 2 = 0"
		case 4:
			return "$this != " + g.intExpr(d-1)
		}
		return "$this * 2 > 3 and $this < 100"
	case "str":
		switch g.r.Intn(5) {
		case 0:
			return "$this.length() > 1"
		case 1:
			return "$this.startsWith('a')"
		case 2:
			return "$this = " + g.strLit()
		case 3:
			return "$this.contains('b').not()"
		}
		return "$this > 'ab'"
	case "bool":
		return Pick(g.r, []string{"$this", "$this.not()", "$this = true", "$this or false"})
	}
	// any: may be type-wrong for some items (errors are part of the comparison)
	return Pick(g.r, []string{"$this.exists()", "$this = 1", "$this != 'a'", "$this > 1", "true", "false", "{}", "$this.empty().not()", "%i", "1"})
}

func (g *evGen) coll(kind string, d int) string {
	if d <= 0 || g.r.Intn(4) == 0 {
		return g.collVar(kind)
	}
	base := g.coll(kind, d-1)
	switch g.r.Intn(16) {
	case 0:
		g.note("where")
		return base + ".where(" + g.crit(kind, d) + ")"
	case 1:
		g.note("tail")
		return base + ".tail()"
	case 2:
		g.note("skip")
		return base + ".skip(" + g.intExpr(d-1) + ")"
	case 3:
		g.note("take")
		return base + ".take(" + g.intExpr(d-1) + ")"
	case 4:
		g.note("distinct")
		return base + ".distinct()"
	case 5:
		g.note("intersect")
		return base + ".intersect(" + g.coll(kind, d-1) + ")"
	case 6:
		g.note("exclude")
		return base + ".exclude(" + g.coll(kind, d-1) + ")"
	case 7:
		g.note("first/last")
		return base + Pick(g.r, []string{".first()", ".last()"})
	case 8:
		g.note("indexer")
		return base + "[" + g.intExpr(d-1) + "]"
	case 9:
		g.note("iif")
		if g.r.Bool() {
			return "iif(" + g.boolExpr(d-1) + ", " + base + ", " + g.coll(kind, d-1) + ")"
		}
		return "iif(" + g.boolExpr(d-1) + ", " + base + ")"
	case 10:
		g.note("select")
		switch kind {
		case "int":
			return base + ".select(" + Pick(g.r, []string{"$this + 1", "$this * $this", "-$this", "$this div 2", "$this mod 3", "iif($this > 1, $this)"}) + ")"
		case "dec":
			return base + ".select(" + Pick(g.r, []string{"$this * 2", "$this / 4", "$this + 0.5", "$this.floor()"}) + ")"
		case "str":
			return base + ".select(" + Pick(g.r, []string{"$this & 'x'", "$this.substring(1)", "$this.toChars()", "$this + $this"}) + ")"
		}
		return base + ".select(" + Pick(g.r, []string{"$this", "$this.exists()", "{}", "$this | $this", "%i"}) + ")"
	case 11:
		g.note("select-chain")
		return base + ".select($this).where($this.exists())"
	}
	return base
}

// scalars ----------------------------------------------------------------

func (g *evGen) intExpr(d int) string {
	if d <= 0 || g.r.Intn(3) == 0 {
		if g.r.Intn(6) == 0 {
			return Pick(g.r, []string{"%one", "%i.first()", "%i.count()", "%e.count()"})
		}
		return g.intLit()
	}
	switch g.r.Intn(12) {
	case 0, 1:
		g.note("int-arith")
		return g.wrap(g.intExpr(d-1) + " " + Pick(g.r, []string{"+", "-", "*", "div", "mod"}) + " " + g.intExpr(d-1))
	case 2:
		g.note("count")
		return g.coll("", d-1) + ".count()"
	case 3:
		g.note("polarity")
		return "-" + g.intExpr(d-1)
	case 4:
		g.note("length")
		return g.strExpr(d-1) + ".length()"
	case 5:
		g.note("indexOf")
		return g.strExpr(d-1) + ".indexOf(" + g.strExpr(d-1) + ")"
	case 6:
		g.note("math")
		return g.numExpr(d-1) + Pick(g.r, []string{".floor()", ".ceiling()", ".truncate()", ".abs()"})
	case 7:
		return g.coll("int", d-1) + Pick(g.r, []string{".first()", ".last()", "[0]", "[1]"})
	case 8:
		g.note("toInteger")
		return g.anyScalar(d-1) + ".toInteger()"
	case 9:
		g.note("as")
		return g.wrap(g.anyScalar(d-1) + " as " + Pick(g.r, []string{"Integer", "System.Integer", "Decimal", "String", "integer"}))
	}
	return g.intLit()
}

func (g *evGen) numExpr(d int) string {
	if d <= 0 || g.r.Intn(3) == 0 {
		if g.r.Bool() {
			return g.decLit()
		}
		return g.intLit()
	}
	switch g.r.Intn(8) {
	case 0, 1:
		g.note("num-arith")
		return g.wrap(g.numExpr(d-1) + " " + Pick(g.r, []string{"+", "-", "*", "/", "div", "mod"}) + " " + g.numExpr(d-1))
	case 2:
		return g.intExpr(d - 1)
	case 3:
		return g.coll("dec", d-1) + Pick(g.r, []string{".first()", ".last()", "[0]"})
	case 4:
		return "-" + g.numExpr(d-1)
	case 5:
		g.note("toDecimal")
		return g.anyScalar(d-1) + ".toDecimal()"
	case 7:
		g.note("power")
		if g.r.Intn(3) == 0 {
			return g.anyScalar(d-1) + ".power(" + g.intExpr(d-1) + ")"
		}
		return g.intExpr(d-1) + ".power(" + Pick(g.r, []string{"0", "1", "2", "3", "5", "15", "16", "30", "31", "32", "33", "(-1)", "(-2)", "2147483647", "%e", "%i", "%i.first()", "46341", "2147483646"}) + ")"
	case 6:
		g.note("round")
		switch g.r.Intn(4) {
		case 0:
			return g.numExpr(d-1) + ".round()"
		case 1:
			return g.anyScalar(d-1) + ".round(" + g.intExpr(d-1) + ")"
		case 2:
			return g.wrap(g.numExpr(d-1)+" / "+g.numExpr(d-1)) + ".round(" + Pick(g.r, []string{"0", "1", "2", "3", "15", "16", "17", "2147483647", "-1", "%e", "%i"}) + ")"
		}
		return g.numExpr(d-1) + ".round(" + Pick(g.r, []string{"0", "1", "2", "5"}) + ")"
	}
	return g.decLit()
}

func (g *evGen) strExpr(d int) string {
	if d <= 0 || g.r.Intn(3) == 0 {
		return g.strLit()
	}
	switch g.r.Intn(9) {
	case 0:
		g.note("concat")
		return g.wrap(g.strExpr(d-1) + " & " + g.strExpr(d-1))
	case 1:
		g.note("str-plus")
		return g.wrap(g.strExpr(d-1) + " + " + g.strExpr(d-1))
	case 2:
		g.note("substring")
		if g.r.Bool() {
			return g.strExpr(d-1) + ".substring(" + g.intExpr(d-1) + ")"
		}
		return g.strExpr(d-1) + ".substring(" + g.intExpr(d-1) + ", " + g.intExpr(d-1) + ")"
	case 3:
		g.note("replace")
		return g.strExpr(d-1) + ".replace(" + g.strExpr(d-1) + ", " + g.strExpr(d-1) + ")"
	case 4:
		return g.coll("str", d-1) + Pick(g.r, []string{".first()", ".last()", "[0]", "[2]"})
	case 6:
		g.note("toString")
		return g.anyScalar(d-1) + ".toString()"
	case 7:
		g.note("as")
		return g.wrap(g.anyScalar(d-1) + " as " + Pick(g.r, []string{"String", "System.String", "string", "Boolean"}))
	case 5:
		g.note("concat-empty")
		return g.wrap(g.strExpr(d-1) + " & " + Pick(g.r, []string{"{}", "%e", "%s.where(false)"}))
	case 8:
		if g.r.Intn(3) == 0 {
			g.note("join")
			switch g.r.Intn(4) {
			case 0:
				return g.coll("str", d-1) + ".join()"
			case 1:
				return g.coll("str", d-1) + ".join(" + g.strExpr(d-1) + ")"
			case 2:
				return g.coll("", d-1) + ".join(" + Pick(g.r, []string{"', '", "''", "%e", "%s", "1", "'é'"}) + ")"
			}
			return g.strExpr(d-1) + ".toChars().join(" + Pick(g.r, []string{"'-'", "''", "', '"}) + ")"
		}
		g.note("upper-lower")
		if g.r.Intn(4) == 0 {
			return g.anyScalar(d-1) + Pick(g.r, []string{".upper()", ".lower()"})
		}
		return g.strExpr(d-1) + Pick(g.r, []string{".upper()", ".lower()", ".upper().lower()", ".lower().upper()"})
	}
	return g.strLit()
}

func (g *evGen) boolExpr(d int) string {
	if d <= 0 || g.r.Intn(4) == 0 {
		return Pick(g.r, []string{"true", "false", "{}", "%e", "%b.first()", "%one", "%s.first()"})
	}
	switch g.r.Intn(16) {
	case 0, 1:
		g.note("connective")
		return g.wrap(g.boolExpr(d-1) + " " + Pick(g.r, []string{"and", "or", "xor", "implies"}) + " " + g.boolExpr(d-1))
	case 2:
		g.note("not")
		return g.wrap(g.boolExpr(d-1)) + ".not()"
	case 3:
		g.note("compare-num")
		return g.wrap(g.numExpr(d-1) + " " + Pick(g.r, []string{"<", "<=", ">", ">=", "=", "!="}) + " " + g.numExpr(d-1))
	case 4:
		g.note("compare-str")
		return g.wrap(g.strExpr(d-1) + " " + Pick(g.r, []string{"<", "<=", ">", ">=", "=", "!="}) + " " + g.strExpr(d-1))
	case 5:
		g.note("coll-eq")
		k := Pick(g.r, []string{"int", "dec", "str", "bool", ""})
		return g.wrap(g.coll(k, d-1) + " " + Pick(g.r, []string{"=", "!="}) + " " + g.coll(k, d-1))
	case 6:
		g.note("empty/exists")
		return g.coll("", d-1) + Pick(g.r, []string{".empty()", ".exists()", ".isDistinct()"})
	case 7:
		g.note("exists(c)")
		k := Pick(g.r, []string{"int", "dec", "str", "bool", ""})
		return g.coll(k, d-1) + ".exists(" + g.crit(k, d) + ")"
	case 8:
		g.note("all(c)")
		k := Pick(g.r, []string{"int", "dec", "str", "bool", ""})
		return g.coll(k, d-1) + ".all(" + g.crit(k, d) + ")"
	case 9:
		g.note("allTrue..")
		return g.coll(Pick(g.r, []string{"bool", "bool", ""}), d-1) + Pick(g.r, []string{".allTrue()", ".anyTrue()", ".allFalse()", ".anyFalse()"})
	case 10:
		g.note("str-pred")
		return g.strExpr(d-1) + Pick(g.r, []string{".startsWith(", ".endsWith(", ".contains("}) + g.strExpr(d-1) + ")"
	case 12:
		g.note("is")
		return g.wrap(g.anyScalar(d-1) + " is " + Pick(g.r, evTypes))
	case 13:
		g.note("convertsTo")
		return g.anyScalar(d-1) + Pick(g.r, []string{".convertsToString()", ".convertsToInteger()", ".convertsToDecimal()", ".convertsToBoolean()"})
	case 11:
		g.note("mixed-compare")
		return g.wrap(g.anyScalar(d-1) + " " + Pick(g.r, []string{"<", ">", "=", "!=", "<=", ">="}) + " " + g.anyScalar(d-1))
	}
	return "true"
}

func (g *evGen) anyScalar(d int) string {
	switch g.r.Intn(5) {
	case 0:
		return g.intExpr(d)
	case 1:
		return g.numExpr(d)
	case 2:
		return g.strExpr(d)
	case 3:
		return g.boolExpr(d)
	}
	return g.coll("", d)
}

var evTypes = []string{"Integer", "Decimal", "String", "Boolean", "System.Integer", "System.Decimal", "System.String", "System.Boolean", "System.Any", "Any", "Quantity", "System.Quantity", "FHIR.Quantity",
	"integer", "string", "decimal", "boolean", "FHIR.string", "FHIR.integer", "Element", "Resource", "Patient", "FHIR.Patient", "code", "Date", "DateTime", "Time", "System.Date"}

// programs that must not compile, or that fail / behave specially at evaluation
var evOdd = []string{
	"1 | 2", "%i | %i2", "1 in %i", "%i contains 1", "'a' ~ 'A'", "1 !~ 2", "$index", "$total", "%i.select($index)",
	"%i.nosuch()", "%i.count(1)", "%i.where()", "%i.where(true, false)", "%i.skip()", "iif(true)", "iif(true, 1, 2, 3)", "%i.first(1)",
	"%i.combine(%i2)", "%i.ofType(Integer)", "%i.repeat($this)", "%i.aggregate($this)", "%i.union(%i2)", "%i.subsetOf(%i2)", "%i.trace('x')",
	"2147483648", "-2147483648", "1 +", "(1", "1)", "1 2", "''.", "%", "%i.", "1..2", "1 .. 2",
	"Patient", "Patient.name", "%i.Patient", "%i.where(Patient.exists())", "%i.select(Patient)", "Patient.Patient", "name", "%i.name", "%e.name", "name.Patient",
	"%i.where(name)", "%e.where(name)", "%i.select(name)", "1 + Patient", "Patient + 1", "(Patient).Patient", "Patient.count() + Patient.count()", "%i.exists(Patient.empty())",
	"%unknown", "%unknown.count()", "%e.where(%unknown)", "%i.where(%unknown)", "%context", "%context.count()", "%ucum", "%ucum.length()", "%`i`", "%'i'",
	"$this", "$this.count()", "$this.empty()", "%i.select($this.select($this + 1))", "%i.where($this > 1).select($this.where($this > 2))",
	"%i.skip(%e)", "%i.take(%i)", "%i.skip('a')", "%i.take(1.0)", "%e.skip('a')", "%e.take(%i)", "%i[%e]", "%i['a']", "%i[%i]", "%e[%i]", "%i[1.0]",
	"%i.intersect(%unknown)", "%e.intersect(%unknown)", "%e.exclude(%unknown)",
	"%s.length()", "%s2.first().length()", "%i.first().length()", "%e.length()", "'abc'.substring(%e)", "'abc'.substring(1, %e)", "'abc'.substring(5, 'x')", "'abc'.substring(1, 'x')",
	"'abc'.indexOf(%e)", "'abc'.indexOf(%s)", "'abc'.startsWith(%e)", "'abc'.startsWith(%s)", "'abc'.replace(%e, 'x')", "'abc'.replace('b', %e)", "'abc'.replace('', '-')", "''.replace('', '-')",
	"'abc'.contains(1)", "1.contains('a')", "%e.contains(1)", "''.toChars()", "'héllo'.toChars().count()", "'x😀y'.substring(1, 1)", "'x😀y'.indexOf('y')",
	"-'a'", "-true", "-%e", "-%i", "+'a'", "+%i", "-(1.5)", "- - 1", "-2147483647 - 1", "-(-2147483647 - 1)", "(-2147483647 - 1).abs()", "2147483647 + 1", "46341 * 46341", "1 / 0", "1 div 0", "1 mod 0", "1.0 / 0.0", "1 / 0.0", "5 div 0.0",
	"1 + 'a'", "'a' + 1", "true + true", "1 & 2", "'a' & 1", "%i & 'a'", "%e & %e", "{} & 'a'", "1 = 1.0", "1.0 = 1.00", "'a' = 1", "true = 'true'", "%i = %i2", "%i != %i", "%e = %e", "%e != 1", "1 < 'a'", "true < false", "%i < 1", "%e < 1",
	"%b.allTrue()", "%m.allTrue()", "%e.allTrue()", "%e.anyTrue()", "%e.allFalse()", "%e.anyFalse()", "%s.allFalse()", "%m.distinct()", "%m.isDistinct()", "%m.intersect(%i)", "%i.intersect(%m)", "%m.exclude(%d)",
	"%i and true", "%e and false", "%e or true", "%one and true", "'a' and true", "%s.first() or false", "%e xor true", "%e implies false", "false implies %i", "true implies %i", "%i.not()", "%e.not()", "'a'.not()", "1.not()", "0.not()",
	"iif(%e, 1, 2)", "iif(%i, 1, 2)", "iif('a', 1, 2)", "iif(1, %unknown, 2)", "iif(false, %unknown, 2)", "iif(true, 1, %unknown)", "iif(false, 1)", "iif({}, 1)", "%i.iif($this.count() > 1, $this.first(), $this.last())",
	"%i.where($this)", "%b.where($this)", "%s.where($this)", "%i.where(%i)", "%i.where({})", "%i.all({})", "%i.all(%i)", "%i.all(1)", "%i.exists({})", "%i.exists(%i)", "%e.all(%unknown)", "%e.where(%i.nosuchfield)", "%e.exists(%i)",
	"1.5.floor()", "(-1.5).floor()", "(-1.5).ceiling()", "(-1.5).truncate()", "1.5.abs()", "'a'.abs()", "%i.abs()", "%e.abs()", "true.floor()", "99999999999.5.floor()", "(-99999999999.5).ceiling()",
	"1.count()", "1.first()", "'a'.tail()", "1.0.skip(1)", "true.take(1)", "1.where($this = 1)", "1.select($this + 1)", "(1).empty()", "{}.empty()", "{}.count()", "{}.first()", "{}.where(true)", "{}.select($this)", "{}[0]", "{} + 1", "1 + {}", "{} = {}", "{} and {}", "-{}",
	"1 is Integer", "1 is System.Integer", "1 is integer", "1 is FHIR.integer", "1 is Decimal", "1.0 is Decimal", "1.0 is Integer", "'a' is String", "'a' is string", "true is Boolean", "true is boolean", "1 is Any", "1 is System.Any", "1 is FHIR.Any",
	"1 is Foo", "1 is System.Foo", "1 is Foo.Integer", "1 is FHIR.System.Integer", "1 is a.b.c", "1 is system.Integer", "1 is fhir.integer", "1 is INTEGER", "1 is Xhtml", "1 is xhtml", "1 is FHIR.String", "1 is System.string", "1 is Element", "1 is Resource", "1 is Patient", "1 is Quantity",
	"%i is Integer", "%e is Integer", "%one is Integer", "%i.first() is Integer", "{} is Integer", "%i as Integer", "%e as Integer", "%one as Integer", "%one as String", "%one as Any", "1 as Decimal", "1 as Integer", "1 as integer", "'a' as String", "(1 as String).empty()", "1 as Foo",
	"%m.select($this is Integer)", "%m.where($this is String)", "%m.select($this as Decimal)", "%m.where($this is Decimal).count()", "1 is Integer is Boolean", "1 is Integer = true", "1 + 2 is Integer", "(1 + 2) is Integer", "1 | 2 is Integer", "1 is Integer and true", "-1 is Integer", "1 is Integer.not()",
	"1.toString()", "1.5.toString()", "true.toString()", "'a'.toString()", "1.50.toString()", "(-0.0).toString()", "100.00.toString()", "'7'.toInteger()", "'x'.toInteger()", "' 7'.toInteger()", "'+7'.toInteger()", "'007'.toInteger()", "'2147483648'.toInteger()", "'1.0'.toInteger()", "true.toInteger()", "1.5.toInteger()",
	"'1.5'.toDecimal()", "'1e3'.toDecimal()", "'.5'.toDecimal()", "'5.'.toDecimal()", "'-0.50'.toDecimal()", "'abc'.toDecimal()", "true.toDecimal()", "7.toDecimal()", "'true'.toBoolean()", "'T'.toBoolean()", "'yes'.toBoolean()", "'maybe'.toBoolean()", "1.toBoolean()", "2.toBoolean()", "1.0.toBoolean()", "0.0.toBoolean()", "0.5.toBoolean()",
	"%i.toString()", "%e.toString()", "%e.toInteger()", "%i.toInteger()", "%m.select($this.toString())", "%m.select($this.toInteger())", "%m.select($this.toDecimal())", "%m.select($this.toBoolean())", "%m.select($this.convertsToInteger())", "%m.select($this.convertsToDecimal())", "%m.select($this.convertsToBoolean())", "%m.select($this.convertsToString())",
	"%i.convertsToInteger()", "%e.convertsToInteger()", "'x'.convertsToInteger()", "'7'.convertsToInteger()", "1.toString(1)", "1.toInteger(1)",
	"'abc'.upper()", "'aBc'.lower()", "''.upper()", "'a1-Z'.upper()", "'héllo'.upper()", "%e.upper()", "%s.upper()", "1.upper()", "true.lower()", "'abc'.upper(1)", "'ab'.upper().lower() = 'ab'", "%s.select($this.upper())", "%m.select($this.lower())", "'z{`@['.upper()", "'Z{`@['.lower()",
	"1.5.round()", "2.5.round()", "(-2.5).round()", "(-0.5).round()", "1.round()", "1.round(2)", "1.round(-1)", "1.5.round(-1)", "'a'.round()", "true.round()", "%e.round()", "%i.round()", "%e.round(-1)", "1.25.round(1)", "1.35.round(1)", "(-1.25).round(1)", "1.5.round(1)", "1.50.round(1)", "1.50.round(5).toString()", "1.5.round(2147483647)",
	"1.5.round(%e)", "1.5.round(%i)", "1.5.round('a')", "1.5.round(1.0)", "1.5.round(%unknown)", "%e.round(%unknown)", "(1 'mg').round()", "(10 / 3).round(3)", "(2 / 3).round(16)", "(2 / 3).round(15)", "0.5.round()", "0.49999.round()", "1.005.round(2)", "99999999999.5.round()", "1.5.round(1, 2)", "1.round().toString()", "(1.0 * 1.0).round(1).toString()",
	"now()", "today()", "timeOfDay()", "now() = now()", "today() = today()", "timeOfDay() = timeOfDay()", "now().toDate() = today()", "now().toString()", "today().toString()", "timeOfDay().toString()", "now() > today()", "now() >= today()", "today() + 1 day > today()", "now() + 1 month", "today() - 1 year", "timeOfDay() + 1 hour",
	"%e.now()", "%i.today()", "%i.select(now())", "%i.where(today() = today())", "now(1)", "today({})", "now().toTime()", "now() is DateTime", "today() is Date", "timeOfDay() is Time", "now().toDateTime() = now()", "%t.select($this < today())", "%dt.select($this < now())", "%tm.select($this < timeOfDay())", "now().count()", "iif(now() = now(), 1, 2)",
	"%s.join()", "%s.join(', ')", "%s.join('')", "%e.join()", "%e.join(',')", "%e.join(%unknown)", "%i.join()", "%m.join(',')", "'a'.join()", "'abc'.toChars().join('-')", "'héllo'.toChars().join('')", "%s.join(%e)", "%s.join(%s)", "%s.join(1)", "%s.join(',', ';')",
	"%s.join(', ').length()", "%s.select($this.toChars().join('.'))", "%s2.join('x') = %s2.first()", "%s.tail().join('|')", "%s.join({})", "%s.where($this.length() > 1).join('+')", "%s.join('\\n')", "('a' & 'b').toChars().join()", "1.toString().toChars().join(',')",
	"2.power(10)", "2.power(30)", "2.power(31)", "(-2).power(31)", "(-2).power(32)", "2.power(-1)", "0.power(0)", "0.power(5)", "0.power(-1)", "1.power(2147483647)", "(-1).power(2147483647)", "(-1).power(2147483646)", "3.power(2147483647)", "46340.power(2)", "46341.power(2)", "(-46341).power(2)",
	"2.power(%e)", "%e.power(2)", "%i.power(2)", "2.power(%i)", "2.power('a')", "'a'.power(2)", "true.power(2)", "2.power(true)", "%e.power(%unknown)", "2.power(%unknown)", "2.power(1, 2)", "2.power()", "%i.select($this.power(2))", "%i.select($this.power($this))", "10.power(9)", "10.power(10)", "(2.power(10) + 1).power(3)",
	"@2020 + 1", "1 + @2020", "@2020 + @2021", "@2020 * 2 days", "@2020 / 0", "2 days + @2020", "@2020 - @2019", "@T10 + 1 day", "@T23:30 + 1 hour", "@T00:30 - 1 hour", "@T10 + 90 minutes", "@T10:30 + 30 seconds",
	"@2020-01-31 + 1 month", "@2020-02-29 + 1 year", "@2020-02-29 - 4 years", "@2020-02-29 + 100 years", "@2020-03-31 - 1 month", "@2020 + 11 months", "@2020 + 12 months", "@2020-01 + 45 days", "@2020-01-01 + 1 hour", "@2020-01-01 + 1.5 days", "@2020-01-01 + 1 'mg'", "@2020-01-01 + 1 'd'",
	"@2020-01-31T10:00:00+05:30 + 1 month", "@2019-12-31T23:30:00-03:30 + 1 hour", "@2020-02-29T10:30 + 36 hours", "@2020-02-29T10 + 90 minutes", "@2020T + 1 day", "@2020-02-29T10:30:00 + 500 milliseconds", "@2020-02-29T10:30:00.000 + 1 millisecond", "@2020-02-29T10:30:00Z - 1 second",
	"@2020 = @2020", "@2020 = @2020-01", "@2020 < @2021", "@2020 < @2020-06", "@2020-02 > @2020-01-15", "@2020T = @2020", "@2020-01-01T10Z = @2020-01-01T11+01:00", "@2020-01-01T10:00 = @2020-01-01T10:00Z", "@T10 = @T10:00", "@T10 < @T11:30", "@2020 = @T10", "@2020 < @T10", "@2020 < 1",
	"1 year = 1 'a'", "1 'mg' = 1 'kg'", "1 'mg' < 2 'mg'", "1 'mg' < 2", "2 < 3 'kg'", "1 'mg' + 1 'mg'", "1 'mg' + 1 'kg'", "1 'mg' + 1", "1 'mg' * 2", "-(1 'mg')", "(1 'mg').abs()", "1 year + 1 month", "1 'mg'.toString()", "@2020.toString()", "@2020 is Date", "@2020T is DateTime", "@T10 is Time", "1 'mg' is Quantity", "1 year is Quantity",
	"@2020.toDate()", "@2020-02T.toDate()", "@2020-02-29T10:30:00+05:30.toDate()", "@2020-02.toDateTime()", "@2020-02-29.toDateTime()", "@2020-02-29T10:30.toDateTime()", "@T10:30.toTime()", "@2020.toTime()", "@T10.toDate()", "@T10.toDateTime()",
	"'2020-02-29'.toDate()", "'2020-02'.toDate()", "'2020-02-29T10:30:00Z'.toDate()", "'2020-02-30'.toDate()", "'@2020'.toDate()", "'2020'.toDateTime()", "'2020-02-29T10:30:00+05:30'.toDateTime()", "'2020-02-29T10'.toDateTime()", "'10:30'.toTime()", "'T10:30'.toTime()", "'10:30:00.5'.toTime()", "'25:00'.toTime()", "'abc'.toTime()",
	"'5 mg'.toQuantity()", "'5'.toQuantity()", "'5 \\'mg\\''.toQuantity()", "'1 year'.toQuantity()", "5.toQuantity()", "5.5.toQuantity()", "true.toQuantity()", "(1 'mg').toQuantity()", "'abc'.toQuantity()", "'5 mg'.toQuantity('g')", "@2020.toQuantity()",
	"@2020.convertsToDate()", "@2020T.convertsToDate()", "'2020-02-30'.convertsToDate()", "'2020'.convertsToDateTime()", "@T10.convertsToTime()", "'10:30'.convertsToTime()", "1.convertsToDate()", "1.convertsToQuantity()", "'5 mg'.convertsToQuantity()", "'abc'.convertsToQuantity()", "@2020.convertsToQuantity()",
	"@2020-02-29T10:30:00+05:30.toString()", "@2020-02.toString()", "@T10:30:00.500.toString()", "@2020-02-29T10:30:00.5Z.toString()", "(1.50 'mg').toString()", "(1 year).toString()", "(@2020-01-31 + 1 month).toString()", "(@2020-02-29T10:30:00 + 500 milliseconds).toString()",
	"%t.toDate()", "%t.first().toDateTime()", "%dt.first().toDate()", "%dt.first().toString()", "%tm.first().toString()", "%q.first().toString()", "%t.select($this.toString())", "%t.select($this.toDateTime())", "%dt.select($this.toDate())", "%m.select($this.toDate())", "%m.select($this.convertsToQuantity())", "%m.select($this.toQuantity())", "%s.select($this.toTime())",
	"@2020-13", "@2020-02-30", "@T25", "@2020-01-01T10:00:00+25:00", "@2020-01-01T", "@T10:60", "@2020-02-29T10:30:00.1234567891", "1 'it\\'s'", "1 years", "1 foo",
	"007", "007 + 1", "1.50", "1.50 = 1.5", "0.10 + 0.20", "0.1 + 0.2 = 0.3", "1.0 div 0.3", "7 mod 2.5", "-7 div 2", "-7 mod 2", "7 div -2", "7 mod -2", "(-7.5) div 2", "(-7.5) mod 2", "10 / 4", "10 / 3", "2 / 3", "(-2) / 3", "1 / 3 * 3",
}

// evOutTokens: as outTokens, with Date / DateTime / Time results as the payload the model computes
// (layout, components, instant, offset) instead of their text.
func evOutTokens(o Outcome) string {
	if o.TimedOut || o.Panicked || o.Err != nil {
		return outTokens(o)
	}
	parts := []string{}
	for _, it := range o.Coll {
		if a, ok := it.(system.Any); ok {
			if t, ok := temporalToken(a); ok {
				parts = append(parts, t)
				continue
			}
		}
		parts = append(parts, outToken(it))
	}
	return "ok:[" + strings.Join(parts, ",") + "]"
}

// temporal and quantity literals -------------------------------------------

var evDates = []string{"@2020", "@2020-02", "@2020-02-29", "@2019-12-31", "@2021-01-31", "@2000-02-29", "@1900-03-01", "@2020-01-01", "@2020-03"}
var evDateTimes = []string{"@2020T", "@2020-02T", "@2020-02-29T", "@2020-02-29T10", "@2020-02-29T10:30", "@2020-02-29T10:30:00", "@2020-02-29T10:30:00.5", "@2020-02-29T10:30:00.000",
	"@2020-02-29T10:30:00Z", "@2020-02-29T10:30:00+05:30", "@2020-02-29T23:30:00-03:30", "@2020-03-01T00:30:00+02:00", "@2019-12-31T23:59:59.999Z", "@2020-02-29T10Z", "@2020-02-29T10:30+01:00", "@2020-01-31T12:00:00+14:00", "@2020-02-29T10:30:00.123456"}
var evTimes = []string{"@T10", "@T10:30", "@T10:30:00", "@T10:30:00.5", "@T23:59:59.999", "@T00:00", "@T10:30:00.000", "@T12:00:00.123456"}
var evQtys = []string{"1 year", "2 years", "1 month", "13 months", "1 week", "3 days", "1 day", "36 hours", "90 minutes", "1 hour", "30 seconds", "1500 milliseconds", "1 'mg'", "2.5 'mg'", "1 'kg'", "1.5 years", "0.5 days",
	"1 'year'", "1 'a'", "1 'mo'", "1 'd'", "1 'h'", "1 'min'", "1 's'", "1 'ms'", "1 'wk'", "1 '1'", "0 days", "12 months", "400 years", "1 second", "1 millisecond"}

func (g *evGen) temporalLit() string {
	switch g.r.Intn(3) {
	case 0:
		return Pick(g.r, evDates)
	case 1:
		return Pick(g.r, evDateTimes)
	}
	return Pick(g.r, evTimes)
}

// temporalExpr: a temporal value, possibly shifted by quantities (signs of the amounts included)
func (g *evGen) temporalExpr(d int) string {
	g.note("temporal")
	base := g.temporalLit()
	if g.r.Intn(5) == 0 {
		base = Pick(g.r, []string{"%t.first()", "%t.last()", "%t[1]", "%dt.first()", "%tm.first()"})
	} else if g.r.Intn(6) == 0 {
		g.note("clock")
		base = Pick(g.r, []string{"now()", "today()", "timeOfDay()", "%e.now()", "%t.today()", "%i.timeOfDay()"})
	}
	for k := g.r.Intn(3); k > 0 && d > 0; k-- {
		q := Pick(g.r, evQtys)
		if g.r.Intn(6) == 0 {
			q = "(-" + q + ")"
		}
		base = "(" + base + " " + Pick(g.r, []string{"+", "-"}) + " " + q + ")"
	}
	return base
}

// temporalProg: comparison / equality / collection functions over temporal values and quantities
func (g *evGen) temporalProg(d int) string {
	switch g.r.Intn(10) {
	case 0, 1:
		return g.temporalExpr(d)
	case 2, 3:
		return g.temporalExpr(d) + " " + Pick(g.r, []string{"=", "!=", "<", ">", "<=", ">="}) + " " + g.temporalExpr(d)
	case 4:
		return Pick(g.r, evQtys) + " " + Pick(g.r, []string{"=", "!=", "<", ">", "<=", ">=", "+", "-"}) + " " + Pick(g.r, evQtys)
	case 5:
		return "%t.where($this " + Pick(g.r, []string{"<", ">", "<=", ">=", "=", "!="}) + " " + g.temporalExpr(d-1) + ")"
	case 6:
		return Pick(g.r, []string{"%t", "%dt", "%tm", "%q"}) + "." + Pick(g.r, []string{"distinct()", "isDistinct()", "count()", "first()", "tail()", "exists($this = $this)", "select($this = $this)"})
	case 7:
		return "%t.select($this + " + Pick(g.r, evQtys) + ")"
	case 8:
		return "%t.intersect(%t.tail())"
	}
	if g.r.Intn(2) == 0 {
		return g.temporalExpr(d) + "." + Pick(g.r, []string{"toString()", "toDate()", "toDateTime()", "toTime()", "convertsToDate()", "convertsToDateTime()", "toString().toDate()", "toString().toDateTime()", "toString().toTime()", "toDateTime().toDate()", "toQuantity()"})
	}
	return g.temporalExpr(d) + " is " + Pick(g.r, []string{"Date", "DateTime", "Time", "System.Date", "Quantity", "System.Any", "dateTime", "date"})
}

// clock readings handed to Evaluate through OverrideTime; the model gets the text ctx.Now.Format(...) gives
var evClocks = []string{"2020-02-29T10:30:00.000Z", "2020-02-29T23:59:59.999+05:30", "2019-12-31T23:30:00.123-03:30", "2021-01-01T00:00:00.000+14:00",
	"2000-02-29T12:00:00.500-11:00", "1999-12-31T23:59:59.999Z", "2024-03-10T02:30:00.001-00:30", "0001-01-01T00:00:00.000Z", "9999-12-31T23:59:59.999Z"}

const evClockLayout = "2006-01-02T15:04:05.000Z07:00"

func (g *evGen) envLine() string {
	names := []string{"i", "i2", "d", "s", "s2", "b", "m", "e", "one", "t", "dt", "tm", "q"}
	parts := []string{}
	for _, n := range names {
		toks := []string{}
		for _, v := range g.vars[n] {
			toks = append(toks, strings.ReplaceAll(valToken(v.(system.Any)), ",", "/"))
		}
		parts = append(parts, hexs(n)+"="+strings.Join(toks, ","))
	}
	parts = append(parts, hexs("\x00now")+"=S:"+hexs(g.clock.Format(evClockLayout)))
	return strings.Join(parts, ";")
}

func (g *evGen) newEnv() {
	n := func(max int) int { return g.r.Intn(max + 1) }
	g.vars = map[string]system.Collection{}
	g.clock, _ = time.Parse(evClockLayout, Pick(g.r, evClocks))
	mk := func(name string, k int, f func() system.Any) {
		c := system.Collection{}
		for j := 0; j < k; j++ {
			c = append(c, f())
		}
		g.vars[name] = c
	}
	mk("i", 1+n(4), func() system.Any { return system.Integer(Pick(g.r, []int32{1, 2, 3, 2, 1, 0, -1, 5})) })
	mk("i2", n(3), func() system.Any { return system.Integer(Pick(g.r, []int32{2, 3, 4, 1, maxI32})) })
	mk("d", n(3), func() system.Any { return system.Decimal(mustDec(Pick(g.r, []string{"1.0", "1.5", "2.50", "0.1", "2", "-0.5", "1.00"}))) })
	mk("s", 1+n(3), func() system.Any { return system.String(Pick(g.r, evStrs)) })
	mk("s2", n(2), func() system.Any { return system.String(Pick(g.r, []string{"a", "ab", "", "héllo"})) })
	mk("b", n(3), func() system.Any { return system.Boolean(g.r.Bool()) })
	mk("m", 1+n(4), func() system.Any {
		switch g.r.Intn(5) {
		case 0:
			return system.Integer(Pick(g.r, []int32{1, 2, 0}))
		case 1:
			return system.Decimal(mustDec(Pick(g.r, []string{"1.0", "2.00", "0.5", "1"})))
		case 2:
			return system.String(Pick(g.r, []string{"1", "a", "true"}))
		case 3:
			return system.Boolean(g.r.Bool())
		}
		return system.Integer(1)
	})
	mk("t", 1+n(3), func() system.Any { return system.MustParseDate(Pick(g.r, evDates)) })
	mk("dt", n(3), func() system.Any { return system.MustParseDateTime(Pick(g.r, evDateTimes)) })
	mk("tm", n(3), func() system.Any { return system.MustParseTime(Pick(g.r, evTimes)) })
	mk("q", n(3), func() system.Any {
		return system.MustParseQuantity(Pick(g.r, []string{"1", "2.5", "1.0", "12"}), Pick(g.r, []string{"mg", "kg", "month", "year", "days"}))
	})
	g.vars["e"] = system.Collection{}
	g.vars["one"] = system.Collection{Pick(g.r, []system.Any{system.Integer(1), system.Integer(0), system.Boolean(true), system.Boolean(false), system.String("a"), system.Decimal(decimal.NewFromInt(2))})}
}

func (g *evGen) run(c *Ctx, src, envLine string, opts []fhirpath.EvaluateOption) {
	g.runWith(c, "ev", src, envLine, opts)
	// programs that use the experimental table's function — and one in sixteen of the others — also under
	// WithExperimentalFuncs() (`evx` lines: the model compiles against the table with the experimental entries added)
	if strings.Contains(src, "join") || g.r.Intn(16) == 0 {
		g.runWith(c, "evx", src, envLine, opts, compopts.WithExperimentalFuncs())
	}
}

func (g *evGen) runWith(c *Ctx, kind, src, envLine string, opts []fhirpath.EvaluateOption, copts ...fhirpath.CompileOption) {
	o := safeEval(func() (system.Collection, error) {
		e, err := fhirpath.Compile(src, copts...)
		if err != nil {
			return nil, fmt.Errorf("compile: %w", err)
		}
		return e.Evaluate([]fhir.Resource{}, opts...)
	})
	out := evOutTokens(o)
	if strings.HasPrefix(out, "err:") {
		if out == "err:compile" {
			c.Count("ev:compile-error")
		} else {
			c.Count("ev:eval-error:" + strings.TrimPrefix(out, "err:"))
			out = "err:eval"
		}
	} else if out == "ok:[]" {
		c.Count("ev:empty")
	} else {
		c.Count("ev:value")
	}
	c.Emit(kind+" "+hexs(src)+" "+envLine, out, strings.HasPrefix(out, "ok:[") && out != "ok:[]")
}

// evStream emits n generated programs (plus the fixed list) as `ev` lines.
func evStream(c *Ctx, n int) {
	g := &evGen{r: c.rng, hit: map[string]int{}}
	var opts []fhirpath.EvaluateOption
	var envLine string
	fresh := func() {
		g.newEnv()
		opts = opts[:0]
		for name, v := range g.vars {
			opts = append(opts, envVar(name, v))
		}
		opts = append(opts, evalopts.OverrideTime(g.clock))
		envLine = g.envLine()
	}
	fresh()
	for _, src := range evOdd {
		g.run(c, src, envLine, opts)
	}
	for k := 0; k < n; k++ {
		if k%8 == 0 {
			fresh()
			if k%64 == 0 { // the fixed list again, under another environment
				for _, src := range evOdd {
					g.run(c, src, envLine, opts)
				}
			}
		}
		d := 2 + g.r.Intn(3)
		var src string
		switch g.r.Intn(8) {
		case 6, 7:
			src = g.temporalProg(d)
		case 0:
			src = g.coll("", d)
		case 1:
			src = g.intExpr(d)
		case 2:
			src = g.strExpr(d)
		case 3:
			src = g.numExpr(d)
		default:
			src = g.boolExpr(d)
		}
		g.run(c, src, envLine, opts)
	}
	for k, v := range g.hit {
		c.meta.Dist["ev:gen:"+k] += v
	}
}
