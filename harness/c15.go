package main

// C15 — representations round-trip.  Part 1: integer narrowing over all 11x11 kind pairs.

import (
	"fmt"
	"math"

	"github.com/verily-src/fhirpath-go/internal/narrow"
	"golang.org/x/exp/constraints"
)

func init() { props["C15"] = runC15 }

func kindName[T constraints.Integer]() string {
	var v T
	return fmt.Sprintf("%T", v)
}

// narrowOne runs narrow.ToInteger[To](from) and reports (ok, value-preserved).
func narrowOne[From, To constraints.Integer](c *Ctx, from From) {
	var ok bool
	var got To
	_, pan, _ := safeErr(func() error { got, ok = narrow.ToInteger[To](from); return nil })
	fk, tk := kindName[From](), kindName[To]()
	var vs string
	if From(0)-1 < 0 {
		vs = fmt.Sprintf("%d", int64(from))
	} else {
		vs = fmt.Sprintf("%d", uint64(from))
	}
	out := fmt.Sprintf("%v", ok)
	if pan {
		out = "panic"
	}
	c.Emit("narrow "+fk+" "+tk+" "+vs, out, true)
	c.Count("to:" + tk)
	if ok {
		// success must preserve the value
		var back string
		if To(0)-1 < 0 {
			back = fmt.Sprintf("%d", int64(got))
		} else {
			back = fmt.Sprintf("%d", uint64(got))
		}
		c.Law(back == vs, "C15/narrow-value-changed", "a successful narrowing preserves the value", "narrow "+fk+"->"+tk+" "+vs, "got "+back)
	}
}

func narrowAllTo[From constraints.Integer](c *Ctx, from From) {
	narrowOne[From, int](c, from)
	narrowOne[From, int8](c, from)
	narrowOne[From, int16](c, from)
	narrowOne[From, int32](c, from)
	narrowOne[From, int64](c, from)
	narrowOne[From, uint](c, from)
	narrowOne[From, uint8](c, from)
	narrowOne[From, uint16](c, from)
	narrowOne[From, uint32](c, from)
	narrowOne[From, uint64](c, from)
	narrowOne[From, uintptr](c, from)
}

func runC15(c *Ctx) {
	defer func() {
		c.meta.Rule += "; string literals: bodies of up to 8 pieces from {every escape, malformed escapes, quotes, backslash, non-ASCII} (length <= 12) through ParseString vs the Lean decoder, writer-escaped literals through Compile/Evaluate; representations: Date/DateTime/Instant/Time elements of every precision enum x zones {UTC, +05:30, -11:00, -03:30, +14:00} (helper inverses, JSON agreement, System<->element, canonical string), decimals with leading/trailing zeros up to 30 digits"
	}()
	runC15Literals(c)
	runC15Representations(c)
	runC15Quantities(c)
	c.meta.Rule = "narrowing: all 11x11 integer kind pairs; source values exhaustive for 8-bit sources, every 16-bit value at stride (quick) or exhaustively (thorough), boundary and random 32/64-bit values; distinct by (from, to, value)"
	// 8-bit: exhaustive
	for v := math.MinInt8; v <= math.MaxInt8; v++ {
		narrowAllTo(c, int8(v))
	}
	for v := 0; v <= math.MaxUint8; v++ {
		narrowAllTo(c, uint8(v))
	}
	stride := 97
	if c.thorough {
		stride = 1
	}
	for v := math.MinInt16; v <= math.MaxInt16; v += stride {
		narrowAllTo(c, int16(v))
	}
	for v := 0; v <= math.MaxUint16; v += stride {
		narrowAllTo(c, uint16(v))
	}
	b64 := []int64{0, 1, -1, 127, 128, -128, -129, 255, 256, 32767, 32768, -32768, -32769, 65535, 65536,
		math.MaxInt32, math.MaxInt32 + 1, math.MinInt32, math.MinInt32 - 1, math.MaxUint32, math.MaxUint32 + 1, math.MaxInt64, math.MinInt64, math.MaxInt64 - 1}
	for i := 0; i < 200; i++ {
		b64 = append(b64, int64(c.rng.Next()))
	}
	for _, v := range b64 {
		narrowAllTo(c, int64(v))
		narrowAllTo(c, int(v))
		narrowAllTo(c, uint64(v))
		narrowAllTo(c, uint(v))
		narrowAllTo(c, uintptr(v))
		narrowAllTo(c, int32(v))
		narrowAllTo(c, uint32(v))
	}
}
