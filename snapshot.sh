#!/bin/bash
# Refreshes lean/FP/GenSnapshot/ from the freshly regenerated lean/FP/Gen/ (run after /repo changes on purpose,
# e.g. after a fix: commit).  The snapshot is only used when an extractor can no longer read the source.
cd "$(dirname "$0")"
mkdir -p lean/FP/GenSnapshot
cp lean/FP/Gen/*.lean lean/FP/GenSnapshot/
ls lean/FP/GenSnapshot | wc -l
