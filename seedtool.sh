#!/bin/bash
# seedtool.sh confirm <wt> <dir>   : in scratch worktree <wt>, confirm a seeded change in <dir> (patch.diff, demo_test.go):
#                                    demo passes without, fails with the patch; whole suite passes with the patch.
# seedtool.sh run <prop> <patch>   : apply <patch> to /repo, run ./check <prop> quick, undo.
export GOFLAGS=-mod=mod GOPROXY=off GOSUMDB=off GOTOOLCHAIN=local
case "$1" in
confirm)
  WT="$2"; D="$3"
  cd "$WT" || exit 2
  git checkout -q -- . ; git clean -fdq
  cp "$D/demo_test.go" fhirpath/zz_demo_test.go
  go test -vet=off -count=1 -run 'Test' ./fhirpath/ >/tmp/demo_pristine.log 2>&1; P=$?
  git apply "$D/patch.diff" || { echo "patch does not apply"; exit 2; }
  go test -vet=off -count=1 ./fhirpath/ >/tmp/demo_patched.log 2>&1; Q=$?
  rm -f fhirpath/zz_demo_test.go
  go build ./... && go test -vet=off -count=1 ./... >/tmp/suite_patched.log 2>&1; S=$?
  git checkout -q -- . ; git clean -fdq
  echo "demo-on-pristine-exit=$P demo-with-patch-exit=$Q suite-with-patch-exit=$S"
  [ $P -eq 0 ] && [ $Q -ne 0 ] && [ $S -eq 0 ] && echo CONFIRMED || echo NOT-CONFIRMED
  ;;
run)
  PROP="$2"; PATCH="$3"
  cd /verif
  git -C /repo apply "$PATCH" || { echo "patch does not apply to /repo"; exit 2; }
  ./check "$PROP" quick; RC=$?
  git -C /repo checkout -q -- .
  echo "check-exit=$RC"
  ;;
esac
