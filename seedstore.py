#!/usr/bin/env python3
"""seedstore.py <prop> <n> <srcdir> <detected-by> : stores a confirmed seeded change under /verif/seeded/<prop>-<n>/"""
import json, os, shutil, sys
prop, n, src, det = sys.argv[1:5]
d = f"/verif/seeded/{prop}-{n}"
os.makedirs(d, exist_ok=True)
shutil.copy(f"{src}/patch.diff", d)
shutil.copy(f"{src}/demo_test.go", d + "/demo_test.go.txt")  # .txt so no Go tool ever picks it up
notes = open(f"{src}/notes.txt").read() if os.path.exists(f"{src}/notes.txt") else ""
json.dump(dict(property=prop, breaks=notes.strip()[:1500],
               confirmed="seedtool.sh confirm: demo passes on the pristine tree, fails with the patch; full `go test ./...` passes with the patch",
               check_run=f"seedtool.sh run {prop} patch.diff (git -C /repo apply; ./check {prop} quick; git -C /repo checkout -- .)",
               detected_by=det), open(d + "/meta.json", "w"), indent=1)
print(d)
