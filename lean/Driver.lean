/-
  Driver — line protocol between the Go harness and the Lean model.
  One operation per input line, one canonical outcome per output line.
  `driver`      prints the MODEL's outcome (the code-following model the theorems are about);
  `driver ref`  prints the REFERENCE semantics' outcome where the property names one ("n/a" otherwise).
  Imports only core-Lean modules of FP (Model/Ref/Gen/Drv), so it links as an executable.
-/
import FP.Drv.All
open FP.Drv

def dispatch (hs : List (List String → Option String)) (dflt : String) (line : String) : String :=
  let toks := (line.splitOn " ").filter (· ≠ "")
  match hs.findSome? (fun h => h toks) with
  | some s => s
  | none => dflt

partial def loop (f : String → String) (h : IO.FS.Stream) (out : IO.FS.Stream) : IO Unit := do
  let line ← h.getLine
  if line.isEmpty then return ()
  let l := if line.back == '\n' then line.dropRight 1 else line
  out.putStrLn (f l)
  loop f h out

def main (args : List String) : IO Unit := do
  let stdin ← IO.getStdin
  let stdout ← IO.getStdout
  if args = ["ref"] then loop (dispatch refHandlers "n/a") stdin stdout
  else loop (dispatch handlers "bad-op") stdin stdout
