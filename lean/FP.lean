-- root of the library: every property module (so `lake build FP` checks all of them)
import FP.Props.C06
