/-
  FP.Lemmas.Case — the ASCII case mapping of FP.Model.Eval (`upper()` / `lower()` on receivers
  within U+0000..U+007F): what the mapping does to a character code, idempotence, lower after upper.
-/
import FP.Model.Eval
namespace FP.Lemmas.Case
open FP FP.Model FP.Model.Eval

theorem toNat_ofNat_small (n : Nat) (h : n < 55296) : (Char.ofNat n).toNat = n := by
  have hv : n.isValidChar := Or.inl h
  unfold Char.ofNat
  simp only [hv, dite_true]
  simp [Char.ofNatAux, Char.toNat, UInt32.toNat_ofNatLT]

theorem asciiUpper_toNat (c : Char) (h : 'a' ≤ c ∧ c ≤ 'z') : (asciiUpper c).toNat = c.toNat - 32 := by
  have h2 : c.toNat ≤ 122 := h.2
  simp only [asciiUpper, h, and_self, if_true]
  exact toNat_ofNat_small _ (by omega)

theorem asciiLower_toNat (c : Char) (h : 'A' ≤ c ∧ c ≤ 'Z') : (asciiLower c).toNat = c.toNat + 32 := by
  have h2 : c.toNat ≤ 90 := h.2
  simp only [asciiLower, h, and_self, if_true]
  exact toNat_ofNat_small _ (by omega)

theorem asciiUpper_idem (c : Char) : asciiUpper (asciiUpper c) = asciiUpper c := by
  by_cases h : 'a' ≤ c ∧ c ≤ 'z'
  · have ht := asciiUpper_toNat c h
    have h2 : c.toNat ≤ 122 := h.2
    have : ¬ ('a' ≤ asciiUpper c ∧ asciiUpper c ≤ 'z') := by
      intro ⟨ha, _⟩
      have : 97 ≤ (asciiUpper c).toNat := ha
      omega
    generalize asciiUpper c = d at *
    simp [asciiUpper, this]
  · simp [asciiUpper, h]

theorem asciiLower_idem (c : Char) : asciiLower (asciiLower c) = asciiLower c := by
  by_cases h : 'A' ≤ c ∧ c ≤ 'Z'
  · have ht := asciiLower_toNat c h
    have h1 : 65 ≤ c.toNat := h.1
    have : ¬ ('A' ≤ asciiLower c ∧ asciiLower c ≤ 'Z') := by
      intro ⟨_, hb⟩
      have : (asciiLower c).toNat ≤ 90 := hb
      omega
    generalize asciiLower c = d at *
    simp [asciiLower, this]
  · simp [asciiLower, h]

/-- lower-casing after upper-casing is lower-casing -/
theorem asciiLower_upper (c : Char) : asciiLower (asciiUpper c) = asciiLower c := by
  by_cases h : 'a' ≤ c ∧ c ≤ 'z'
  · have ht := asciiUpper_toNat c h
    have h1 : 97 ≤ c.toNat := h.1
    have h2 : c.toNat ≤ 122 := h.2
    have hu : 'A' ≤ asciiUpper c ∧ asciiUpper c ≤ 'Z' := by
      constructor
      · show 65 ≤ (asciiUpper c).toNat; omega
      · show (asciiUpper c).toNat ≤ 90; omega
    have hl := asciiLower_toNat _ hu
    have hc : ¬ ('A' ≤ c ∧ c ≤ 'Z') := by
      intro ⟨_, hb⟩; have : c.toNat ≤ 90 := hb; omega
    have : asciiLower c = c := by simp [asciiLower, hc]
    rw [this]
    apply Char.toNat_inj.mp ; omega
  · simp [asciiUpper, h]

theorem ascii_stays_ascii (c : Char) (h : c.toNat < 128) : (asciiUpper c).toNat < 128 ∧ (asciiLower c).toNat < 128 := by
  constructor
  · by_cases hc : 'a' ≤ c ∧ c ≤ 'z'
    · rw [asciiUpper_toNat c hc]; omega
    · simp [asciiUpper, hc, h]
  · by_cases hc : 'A' ≤ c ∧ c ≤ 'Z'
    · have h2 : c.toNat ≤ 90 := hc.2
      rw [asciiLower_toNat c hc]; omega
    · simp [asciiLower, hc, h]

end FP.Lemmas.Case
