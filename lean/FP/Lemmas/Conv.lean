/- Lemmas tying the layout tables to the text round-trip theorem. -/
import FP.Model.Conv
import FP.Lemmas.Text
namespace FP.Lemmas.Conv
open FP FP.Model FP.Model.Text FP.Model.Conv FP.Lemmas.Text

def startsWithDigit (l : List Elem) : Bool := tzvs.all fun v => (l.flatMap (elemShape v)).head? == some none

/-- everything the round-trip theorem needs from a parser's layout table: no earlier layout accepts
    the shape a later one renders, every layout is within the modelled subset and splits its own
    rendering, renderings start with a digit and the trimmed prefix does not -/
def tableOK (ls : List String) (pfx : String) : Bool :=
  let lls := layoutsOf ls
  prefixesDistinct lls && lls.all fracOKb && lls.all shapeOKb && lls.all startsWithDigit &&
  (match pfx.toList with | c :: _ => !isDigit c | [] => true)

theorem trimPrefix_digit (p s : S) (hs : (shapeOf s).head? = some none)
    (hp : (match p with | c :: _ => !isDigit c | [] => true) = true) : trimPrefix p s = s := by
  cases p with
  | nil => simp [trimPrefix]
  | cons c r =>
    cases s with
    | nil => simp [shapeOf] at hs
    | cons d t =>
      simp only [shapeOf, List.map_cons, List.head?_cons, Option.some.injEq, symOf] at hs
      have hd : isDigit d = true := by
        by_cases h : isDigit d = true
        · exact h
        · simp [h] at hs
      have hne : (c == d) = false := by
        simp only [beq_eq_false_iff_ne]; intro h; subst h; simp [hd] at hp
      simp [trimPrefix, List.isPrefixOf, hne]

theorem formatT_plain (l : String) (w : Wall) (hn : w.nanos % 1000000 = 0) :
    formatT l w = format (goLayout l.toList) w := by
  simp [formatT, fractionLayout, hn]

theorem table_roundtrip (ls : List String) (pfx : String) (hok : tableOK ls pfx = true)
    (i : Nat) (l : String) (hl : ls[i]? = some l) (w : Wall) (hb : Bounded w)
    (hx : Expressible (goLayout l.toList) w) (hn : w.nanos % 1000000 = 0) :
    parseFirst (layoutsOf ls) (trimPrefix pfx.toList (formatT l w)) = some (i, w) := by
  rw [formatT_plain l w hn]
  simp only [tableOK, Bool.and_eq_true, List.all_eq_true] at hok
  obtain ⟨⟨⟨⟨hd, hf⟩, hs⟩, hsd⟩, hp⟩ := hok
  have hmem : goLayout l.toList ∈ layoutsOf ls := by
    simp only [layoutsOf, List.mem_map]
    exact ⟨l, List.mem_of_getElem? hl, rfl⟩
  have hi : (layoutsOf ls)[i]? = some (goLayout l.toList) := by simp [layoutsOf, hl]
  have hfl := hf _ hmem
  have hshape := shape_format w hb (goLayout l.toList) (fracOK_of _ hfl)
  have hhead : (shapeOf (format (goLayout l.toList) w)).head? = some none := by
    rw [hshape]
    have := hsd _ hmem
    simp only [startsWithDigit, List.all_eq_true] at this
    have := this (tzv w) (by cases tzv w <;> simp [tzvs])
    simpa using this
  rw [trimPrefix_digit _ _ hhead hp]
  exact parseFirst_format (layoutsOf ls) i (goLayout l.toList) hi hd hfl (hs _ hmem) w hb hx

theorem parseFirstOk_of (ok : Wall → Bool) (ls : List (List Elem)) (s : S) (i : Nat) (w : Wall)
    (h : parseFirst ls s = some (i, w)) (hok : ok w = true) : parseFirstOk ok ls s = some (i, w) := by
  induction ls generalizing i with
  | nil => simp [parseFirst] at h
  | cons l r ih =>
    simp only [parseFirst] at h
    simp only [parseFirstOk]
    split at h
    · rename_i w' hw
      cases h
      simp [hok]
    · rename_i hn
      simp only [Option.map_eq_some_iff] at h
      obtain ⟨⟨j, w'⟩, hj, hjw⟩ := h
      cases hjw
      simp [ih j hj]

theorem offsetInRange_of_bounded (w : Wall) (hb : Bounded w) : offsetInRange w = true := by
  have := hb.offset
  simp [offsetInRange]; omega

/-- a reading that a layout without a fraction element can express has no sub-second part, so
    the parser's layout widening leaves its layout alone -/
theorem widen_id (l : String) (w : Wall) (hx : Expressible (goLayout l.toList) w) : widenLayout l w = l := by
  unfold widenLayout
  by_cases h0 : w.nanos = 0
  · simp [h0]
  · have key : ∀ l0 : String, (∀ n, Elem.frac0 n ∉ goLayout l0.toList) → l = l0 → False := by
      intro l0 hno hl
      subst hl
      have := hx.2 .nanos (by
        intro e he a ha
        cases e <;> simp [assign] at ha <;> subst ha <;> simp
        exact hno _ he)
      exact h0 this
    have n1 : ∀ n, Elem.frac0 n ∉ goLayout "2006-01-02T15:04:05Z07:00".toList := by intro n h; simp [goLayout] at h
    have n2 : ∀ n, Elem.frac0 n ∉ goLayout "2006-01-02T15:04:05".toList := by intro n h; simp [goLayout] at h
    have n3 : ∀ n, Elem.frac0 n ∉ goLayout "15:04:05".toList := by intro n h; simp [goLayout] at h
    simp only [h0, if_false]
    split
    · rename_i h; exact absurd (by simpa using h) (fun h' => key _ n1 h')
    · split
      · rename_i h; exact absurd (by simpa using h) (fun h' => key _ n2 h')
      · split
        · rename_i h; exact absurd (by simpa using h) (fun h' => key _ n3 h')
        · rfl

end FP.Lemmas.Conv
