/-
  FP.Lemmas.Lexer — the lexer model on decorated sources.  A source is a list of pieces: white
  space characters, block comments, line comments and tokens.  One step of `lexAux` consumes one
  piece; a token piece is read back as that token whenever what follows it is the end of the
  input, a white-space character or the start of a comment (and the token is not `/`, which would
  fuse with the comment's own `/`).
-/
import FP.Model.Syntax
namespace FP.Lemmas.Lexer
open FP FP.Model.Syntax

/-! ### characters that end every token -/

def isStop (c : Char) : Bool := isWs c || c == '/'

theorem isWs_cases {c : Char} (h : isWs c = true) : c = ' ' ∨ c = '\r' ∨ c = '\n' ∨ c = '\t' := by
  simp only [isWs, Bool.or_eq_true, beq_iff_eq] at h
  rcases h with ((h | h) | h) | h <;> simp [h]

theorem isStop_cases {c : Char} (h : isStop c = true) : c = ' ' ∨ c = '\r' ∨ c = '\n' ∨ c = '\t' ∨ c = '/' := by
  simp only [isStop, Bool.or_eq_true, beq_iff_eq] at h
  rcases h with h | h
  · rcases isWs_cases h with h | h | h | h <;> simp [h]
  · simp [h]

/-- what follows a token: nothing, or a stop character -/
def StopsAt (rest : List Char) : Prop := ∀ c, rest.head? = some c → isStop c = true

/-- the next character, if there is one, does not satisfy `p` -/
def NotHead (p : Char → Bool) (rest : List Char) : Prop := ∀ c, rest.head? = some c → p c = false

/-- characters that would extend an integer, a word, a temporal literal, a one-character symbol -/
def intFollow (x : Char) : Bool := isDigitC x || x == '.'
def tempFollow (x : Char) : Bool :=
  isDigitC x || x == '-' || x == ':' || x == '.' || x == 'T' || x == 'Z' || x == '+'
def symFollow (c x : Char) : Bool :=
  symbols2.contains (String.ofList [c, x]) || (c == '/' && (x == '*' || x == '/'))

theorem stop_not_digit {c : Char} (h : isStop c = true) : isDigitC c = false := by
  rcases isStop_cases h with h | h | h | h | h <;> subst h <;> decide
theorem stop_not_idChar {c : Char} (h : isStop c = true) : isIdChar c = false := by
  rcases isStop_cases h with h | h | h | h | h <;> subst h <;> decide

theorem takeWhile_stop (p : Char → Bool) (w rest : List Char) (hw : ∀ a ∈ w, p a = true)
    (hr : ∀ c, rest.head? = some c → p c = false) : (w ++ rest).takeWhile p = w := by
  rw [List.takeWhile_append_of_pos hw]
  cases rest with
  | nil => simp
  | cons x r => simp [List.takeWhile_cons, hr x rfl]

theorem dropWhile_stop (p : Char → Bool) (w rest : List Char) (hw : ∀ a ∈ w, p a = true)
    (hr : ∀ c, rest.head? = some c → p c = false) : (w ++ rest).dropWhile p = rest := by
  induction w with
  | nil =>
    cases rest with
    | nil => rfl
    | cons x r => simp [hr x rfl]
  | cons a w ih =>
    simp only [List.cons_append, List.dropWhile_cons, hw a (by simp), if_true]
    exact ih (fun b hb => hw b (List.mem_cons_of_mem _ hb))

/-! ### white space and comments -/

theorem lex_nil (f : Nat) (acc : List Tok) : lexAux f [] acc = acc.reverse := by
  cases f <;> rfl

theorem step_ws (f : Nat) (c : Char) (r : List Char) (acc : List Tok) (h : isWs c = true) :
    lexAux (f + 1) (c :: r) acc = lexAux f r acc := by
  simp only [lexAux, h, if_true]

/-- a block-comment body: the first "*/" of body ++ "*/" is the closing one -/
def blockOK (b : List Char) : Bool := !hasClose (b ++ ['*'])

theorem hasClose_cons (x : Char) (y : List Char) (h : hasClose y = true) : hasClose (x :: y) = true := by
  unfold hasClose
  split
  · rfl
  · rename_i heq; cases heq; exact h
  · rename_i heq; cases heq

theorem hasClose_body (b rest : List Char) : hasClose (b ++ '*' :: '/' :: rest) = true := by
  induction b with
  | nil => rfl
  | cons x b ih => exact hasClose_cons x _ ih

theorem skipClose_body (b rest : List Char) (hb : hasClose (b ++ ['*']) = false) (n : Nat) (hn : b.length < n) :
    skipClose n (b ++ '*' :: '/' :: rest) = rest := by
  induction b generalizing n with
  | nil =>
    cases n with
    | zero => omega
    | succ n => rfl
  | cons x b ih =>
    cases n with
    | zero => omega
    | succ n =>
      have hb' : hasClose (b ++ ['*']) = false := by
        cases h : hasClose (b ++ ['*']) with
        | false => rfl
        | true => rw [show (x :: b) ++ ['*'] = x :: (b ++ ['*']) from rfl, hasClose_cons x _ h] at hb; cases hb
      simp only [List.cons_append, skipClose]
      split
      · -- x = '*' and the next character is '/': then the body itself closes
        rename_i y heq
        exfalso
        cases b with
        | nil => simp at heq
        | cons z b' =>
          simp only [List.cons_append, List.cons.injEq] at heq
          obtain ⟨hx, hz, _⟩ := heq
          subst hx; subst hz
          simp [hasClose] at hb
      · rename_i z y hne heq
        cases heq
        exact ih hb' n (by simp at hn; omega)
      · rename_i heq; cases heq

theorem step_block (f : Nat) (b rest : List Char) (acc : List Tok) (hb : blockOK b = true) :
    lexAux (f + 1) ('/' :: '*' :: (b ++ '*' :: '/' :: rest)) acc = lexAux f rest acc := by
  have hb' : hasClose (b ++ ['*']) = false := by simpa [blockOK] using hb
  have h1 : isWs '/' = false := by decide
  simp only [lexAux, h1, List.head?_cons, List.drop_succ_cons, List.drop_zero, hasClose_body, beq_self_eq_true,
    Bool.and_self, if_true, Bool.false_eq_true, if_false]
  rw [skipClose_body b rest hb' _ (by simp; omega)]

/-- a line-comment body has no line end -/
def lineOK (b : List Char) : Bool := b.all fun x => !(x == '\r' || x == '\n')

theorem step_line (f : Nat) (b rest : List Char) (acc : List Tok) (hb : lineOK b = true)
    (hr : ∀ c, rest.head? = some c → c = '\r' ∨ c = '\n') :
    lexAux (f + 1) ('/' :: '/' :: (b ++ rest)) acc = lexAux f rest acc := by
  have h1 : isWs '/' = false := by decide
  have h2 : ((some '/' : Option Char) == some '*') = false := by decide
  simp only [lexAux, h1, List.head?_cons, beq_self_eq_true, Bool.true_and, Bool.and_true, if_true, Bool.false_eq_true, if_false,
    h2, Bool.false_and]
  have : ('/' :: (b ++ rest)).dropWhile (fun x => !(x == '\r' || x == '\n')) = rest := by
    have := dropWhile_stop (fun x => !(x == '\r' || x == '\n')) ('/' :: b) rest
      (by
        intro a ha
        rcases List.mem_cons.mp ha with h | h
        · subst h; decide
        · simp only [lineOK, List.all_eq_true] at hb; exact hb a h)
      (by
        intro c hc
        rcases hr c hc with h | h <;> subst h <;> decide)
    simpa using this
  simp only [this]


/-! ### branch selection: which branch of `lexAux` a first character takes -/

theorem ne_of_pred {p : Char → Bool} {c d : Char} (hc : p c = true) (hd : p d = false) : (c == d) = false := by
  cases hcd : c == d with
  | false => rfl
  | true => rw [beq_iff_eq] at hcd; subst hcd; rw [hc] at hd; cases hd

theorem digit_not_ws {c : Char} (h : isDigitC c = true) : isWs c = false := by
  simp only [isWs, ne_of_pred h (show isDigitC ' ' = false by decide), ne_of_pred h (show isDigitC '\r' = false by decide),
    ne_of_pred h (show isDigitC '\n' = false by decide), ne_of_pred h (show isDigitC '\t' = false by decide), Bool.or_self]

theorem idStart_not_ws {c : Char} (h : isIdStart c = true) : isWs c = false := by
  simp only [isWs, ne_of_pred h (show isIdStart ' ' = false by decide), ne_of_pred h (show isIdStart '\r' = false by decide),
    ne_of_pred h (show isIdStart '\n' = false by decide), ne_of_pred h (show isIdStart '\t' = false by decide), Bool.or_self]

theorem idStart_not_digit {c : Char} (h : isIdStart c = true) : isDigitC c = false := by
  cases hd : isDigitC c with
  | false => rfl
  | true =>
    exfalso
    simp only [isDigitC, Bool.and_eq_true, decide_eq_true_eq] at hd
    simp only [isIdStart, Char.isAlpha, Char.isUpper, Char.isLower, Bool.or_eq_true, Bool.and_eq_true, decide_eq_true_eq,
      beq_iff_eq] at h
    have e : c.val.toNat = c.toNat := rfl
    rcases h with (h | h) | h
    · have h1 := h.1
      rw [ge_iff_le, UInt32.le_iff_toNat_le] at h1
      have : ('A' : Char).val.toNat = 65 := rfl
      omega
    · have h1 := h.1
      rw [ge_iff_le, UInt32.le_iff_toNat_le] at h1
      have : ('a' : Char).val.toNat = 97 := rfl
      omega
    · subst h; simp at hd


/-! ### quoted tokens: strings and delimited identifiers -/

/-- a quoted body: every backslash is followed by a character, and no unescaped closing quote -/
def quotedOK (q : Char) : List Char → Bool
  | [] => true
  | c :: r =>
    if c == q then false
    else if c == '\\' then
      match r with
      | _ :: r' => quotedOK q r'
      | [] => false
    else quotedOK q r

theorem lexQuoted_body (q : Char) (b rest acc : List Char) (hb : quotedOK q b = true) :
    lexQuoted q (b ++ q :: rest) acc = some (acc.reverse ++ b, rest) := by
  fun_induction quotedOK q b generalizing acc with
  | case1 => unfold lexQuoted; simp
  | case2 c r hc => cases hb
  | case3 c hc hbs e r' ih =>
    have hc' : (c == q) = false := by simpa using hc
    rw [List.cons_append, List.cons_append, lexQuoted]
    simp only [hc', hbs, if_true, Bool.false_eq_true, if_false]
    rw [ih _ hb]; simp
  | case4 c hc hbs => cases hb
  | case5 c r hc hbs ih =>
    have hc' : (c == q) = false := by simpa using hc
    have hbs' : (c == '\\') = false := by simpa using hbs
    rw [List.cons_append, lexQuoted.eq_def]
    simp only [hc', hbs', Bool.false_eq_true, if_false]
    rw [ih _ hb]; simp

theorem step_str (f : Nat) (b rest : List Char) (acc : List Tok) (hb : quotedOK '\'' b = true) :
    lexAux (f + 1) ('\'' :: (b ++ '\'' :: rest)) acc = lexAux f rest (.str (String.ofList b) :: acc) := by
  have h1 : isWs '\'' = false := by decide
  have h2 : (('\'' : Char) == '/') = false := by decide
  simp only [lexAux, h1, h2, Bool.false_and, Bool.false_eq_true, if_false, beq_self_eq_true, if_true,
    lexQuoted_body '\'' b rest [] hb, List.reverse_nil, List.nil_append]

theorem step_delim (f : Nat) (b rest : List Char) (acc : List Tok) (hb : quotedOK '`' b = true) :
    lexAux (f + 1) ('`' :: (b ++ '`' :: rest)) acc = lexAux f rest (.delim (String.ofList b) :: acc) := by
  have h1 : isWs '`' = false := by decide
  have h2 : (('`' : Char) == '/') = false := by decide
  have h3 : (('`' : Char) == '\'') = false := by decide
  simp only [lexAux, h1, h2, h3, Bool.false_and, Bool.false_eq_true, if_false, beq_self_eq_true, if_true,
    lexQuoted_body '`' b rest [] hb, List.reverse_nil, List.nil_append]


/-! ### numbers -/

theorem digit_dispatch (f : Nat) (c : Char) (r : List Char) (acc : List Tok) (hd : isDigitC c = true) :
    lexAux (f + 1) (c :: r) acc =
      (let s := c :: r
       let ds := s.takeWhile isDigitC
       let r1 := s.drop ds.length
       match r1 with
       | '.' :: r2 =>
         let fs := r2.takeWhile isDigitC
         if fs.isEmpty then lexAux f r1 (.num (String.ofList ds) :: acc)
         else lexAux f (r2.drop fs.length) (.num (String.ofList (ds ++ '.' :: fs)) :: acc)
       | _ => lexAux f r1 (.num (String.ofList ds) :: acc)) := by
  have h1 := digit_not_ws hd
  have h2 := ne_of_pred hd (show isDigitC '/' = false by decide)
  have h3 := ne_of_pred hd (show isDigitC '\'' = false by decide)
  have h4 := ne_of_pred hd (show isDigitC '`' = false by decide)
  have h5 := ne_of_pred hd (show isDigitC '@' = false by decide)
  have h6 := ne_of_pred hd (show isDigitC '$' = false by decide)
  simp only [lexAux, h1, h2, h3, h4, h5, h6, hd, Bool.false_and, Bool.false_eq_true, if_false, if_true]
  rfl

theorem stops_not_digit {rest : List Char} (hr : StopsAt rest) : ∀ c, rest.head? = some c → isDigitC c = false :=
  fun c hc => stop_not_digit (hr c hc)
theorem stops_not_idChar {rest : List Char} (hr : StopsAt rest) : ∀ c, rest.head? = some c → isIdChar c = false :=
  fun c hc => stop_not_idChar (hr c hc)

theorem step_int (f : Nat) (c : Char) (ds rest : List Char) (acc : List Tok) (hc : isDigitC c = true)
    (hds : ∀ a ∈ ds, isDigitC a = true) (hr : NotHead intFollow rest) :
    lexAux (f + 1) (c :: (ds ++ rest)) acc = lexAux f rest (.num (String.ofList (c :: ds)) :: acc) := by
  have hnd : NotHead isDigitC rest := fun y hy => by
    have := hr y hy; simp only [intFollow, Bool.or_eq_false_iff] at this; exact this.1
  rw [digit_dispatch f c _ acc hc]
  have htw : (c :: (ds ++ rest)).takeWhile isDigitC = c :: ds := by
    have := takeWhile_stop isDigitC (c :: ds) rest (by
      intro a ha; rcases List.mem_cons.mp ha with h | h
      · subst h; exact hc
      · exact hds a h) hnd
    simpa using this
  have hdr : (c :: (ds ++ rest)).drop (c :: ds).length = rest := by
    rw [show c :: (ds ++ rest) = (c :: ds) ++ rest from rfl, List.drop_left]
  simp only [htw, hdr]
  cases rest with
  | nil => rfl
  | cons y r' =>
    have := hr y rfl
    simp only [intFollow, Bool.or_eq_false_iff] at this
    split
    · rename_i heq; cases heq; exact absurd this.2 (by decide)
    · rfl

theorem step_dec (f : Nat) (c x : Char) (ds fs rest : List Char) (acc : List Tok) (hc : isDigitC c = true)
    (hds : ∀ a ∈ ds, isDigitC a = true) (hx : isDigitC x = true) (hfs : ∀ a ∈ fs, isDigitC a = true) (hr : NotHead isDigitC rest) :
    lexAux (f + 1) (c :: (ds ++ '.' :: x :: (fs ++ rest))) acc =
      lexAux f rest (.num (String.ofList (c :: ds ++ '.' :: x :: fs)) :: acc) := by
  rw [digit_dispatch f c _ acc hc]
  have htw : (c :: (ds ++ '.' :: x :: (fs ++ rest))).takeWhile isDigitC = c :: ds := by
    have := takeWhile_stop isDigitC (c :: ds) ('.' :: x :: (fs ++ rest)) (by
      intro a ha; rcases List.mem_cons.mp ha with h | h
      · subst h; exact hc
      · exact hds a h) (by intro y hy; cases hy; decide)
    simpa using this
  have hdr : (c :: (ds ++ '.' :: x :: (fs ++ rest))).drop (c :: ds).length = '.' :: x :: (fs ++ rest) := by
    rw [show c :: (ds ++ '.' :: x :: (fs ++ rest)) = (c :: ds) ++ '.' :: x :: (fs ++ rest) from rfl, List.drop_left]
  simp only [htw, hdr]
  have htw2 : (x :: (fs ++ rest)).takeWhile isDigitC = x :: fs := by
    have := takeWhile_stop isDigitC (x :: fs) rest (by
      intro a ha; rcases List.mem_cons.mp ha with h | h
      · subst h; exact hx
      · exact hfs a h) hr
    simpa using this
  have hdr2 : (x :: (fs ++ rest)).drop (x :: fs).length = rest := by
    rw [show x :: (fs ++ rest) = (x :: fs) ++ rest from rfl, List.drop_left]
  simp only [htw2, hdr2, List.isEmpty_cons, Bool.false_eq_true, if_false]

/-! ### words: identifiers and word keywords -/

theorem word_dispatch (f : Nat) (c : Char) (r : List Char) (acc : List Tok) (hs : isIdStart c = true) :
    lexAux (f + 1) (c :: r) acc =
      (let s := c :: r
       let w := s.takeWhile isIdChar
       let ws := String.ofList w
       lexAux f (s.drop w.length) ((if wordKeywords.contains ws then .kw ws else .ident ws) :: acc)) := by
  have h1 := idStart_not_ws hs
  have h2 := ne_of_pred hs (show isIdStart '/' = false by decide)
  have h3 := ne_of_pred hs (show isIdStart '\'' = false by decide)
  have h4 := ne_of_pred hs (show isIdStart '`' = false by decide)
  have h5 := ne_of_pred hs (show isIdStart '@' = false by decide)
  have h6 := ne_of_pred hs (show isIdStart '$' = false by decide)
  have h7 := idStart_not_digit hs
  simp only [lexAux, h1, h2, h3, h4, h5, h6, h7, hs, Bool.false_and, Bool.false_eq_true, if_false, if_true]

theorem idStart_idChar {c : Char} (h : isIdStart c = true) : isIdChar c = true := by
  simp only [isIdStart, Bool.or_eq_true, beq_iff_eq] at h
  simp only [isIdChar, Char.isAlphanum, Bool.or_eq_true, beq_iff_eq]
  rcases h with h | h
  · exact Or.inl (Or.inl h)
  · exact Or.inr h

theorem step_word (f : Nat) (c : Char) (w rest : List Char) (acc : List Tok) (hc : isIdStart c = true)
    (hw : ∀ a ∈ w, isIdChar a = true) (hr : NotHead isIdChar rest) :
    lexAux (f + 1) (c :: (w ++ rest)) acc =
      lexAux f rest ((if wordKeywords.contains (String.ofList (c :: w)) then .kw (String.ofList (c :: w))
        else .ident (String.ofList (c :: w))) :: acc) := by
  rw [word_dispatch f c _ acc hc]
  have htw : (c :: (w ++ rest)).takeWhile isIdChar = c :: w := by
    have := takeWhile_stop isIdChar (c :: w) rest (by
      intro a ha; rcases List.mem_cons.mp ha with h | h
      · subst h; exact idStart_idChar hc
      · exact hw a h) hr
    simpa using this
  have hdr : (c :: (w ++ rest)).drop (c :: w).length = rest := by
    rw [show c :: (w ++ rest) = (c :: w) ++ rest from rfl, List.drop_left]
  simp only [htw, hdr]


/-! ### symbols and the `$` keywords -/

theorem step_sym2 (f : Nat) (s : String) (rest : List Char) (acc : List Tok) (hs : symbols2.contains s = true) :
    lexAux (f + 1) (s.toList ++ rest) acc = lexAux f rest (.kw s :: acc) := by
  simp only [symbols2, List.contains_cons, List.contains_nil, Bool.or_false, Bool.or_eq_true, beq_iff_eq] at hs
  rcases hs with h | h | h | h <;> subst h <;>
    simp [lexAux, isWs, isDigitC, isIdStart, symbols2]

theorem step_sym1 (f : Nat) (c : Char) (rest : List Char) (acc : List Tok) (hc : symbols1.contains c = true)
    (hr : NotHead (symFollow c) rest) :
    lexAux (f + 1) (c :: rest) acc = lexAux f rest (.kw (String.singleton c) :: acc) := by
  simp only [symbols1, List.contains_cons, List.contains_nil, Bool.or_false, Bool.or_eq_true, beq_iff_eq] at hc
  cases rest with
  | nil =>
    rcases hc with h | h | h | h | h | h | h | h | h | h | h | h | h | h | h | h | h | h | h <;> subst h <;>
      simp [lexAux, isWs, isDigitC, isIdStart, symbols2, symbols1]
  | cons x r =>
    have hx := hr x rfl
    simp only [symFollow, Bool.or_eq_false_iff] at hx
    obtain ⟨h2, hsl⟩ := hx
    have htake : String.ofList ((c :: x :: r).take 2) = String.ofList [c, x] := rfl
    rcases hc with h | h | h | h | h | h | h | h | h | h | h | h | h | h | h | h | h | h | h <;> subst h <;>
      simp at h2 hsl <;>
      simp [lexAux, isWs, isDigitC, isIdStart, symbols1, h2, hsl]

theorem step_this (f : Nat) (rest : List Char) (acc : List Tok) :
    lexAux (f + 1) ("$this".toList ++ rest) acc = lexAux f rest (.kw "$this" :: acc) := by
  simp [lexAux, isWs]
theorem step_index (f : Nat) (rest : List Char) (acc : List Tok) :
    lexAux (f + 1) ("$index".toList ++ rest) acc = lexAux f rest (.kw "$index" :: acc) := by
  simp [lexAux, isWs]
theorem step_total (f : Nat) (rest : List Char) (acc : List Tok) :
    lexAux (f + 1) ("$total".toList ++ rest) acc = lexAux f rest (.kw "$total" :: acc) := by
  simp [lexAux, isWs]


/-! ### temporal literals -/

def digitsN (n : Nat) (l : List Char) : Bool := l.length == n && l.all isDigitC

theorem takeDigits_append (n : Nat) (ds r : List Char) (h : digitsN n ds = true) :
    takeDigits n (ds ++ r) = some (ds, r) := by
  simp only [digitsN, Bool.and_eq_true, beq_iff_eq] at h
  obtain ⟨hl, ha⟩ := h
  unfold takeDigits
  have ht : (ds ++ r).take n = ds := by rw [← hl, List.take_left]
  have hd : (ds ++ r).drop n = r := by rw [← hl, List.drop_left]
  simp [ht, hd, hl, ha]

/-- `takeDigits` fails when the text is empty or starts with a stop character -/
theorem takeDigits_stop (n : Nat) (rest : List Char) (hn : 0 < n) (hr : NotHead isDigitC rest) : takeDigits n rest = none := by
  unfold takeDigits
  cases rest with
  | nil =>
    have : n ≠ 0 := by omega
    simp [this]
    intro h; exact absurd h.symm this
  | cons x r =>
    have hx := hr x rfl
    cases n with
    | zero => omega
    | succ n => simp [List.take_succ_cons, hx]

/-- the date part of a literal -/
inductive DateS where
  | year (y : List Char)
  | month (y m : List Char)
  | day (y m d : List Char)

def DateS.text : DateS → List Char
  | .year y => y
  | .month y m => y ++ '-' :: m
  | .day y m d => y ++ '-' :: m ++ '-' :: d

def DateS.ok : DateS → Bool
  | .year y => digitsN 4 y
  | .month y m => digitsN 4 y && digitsN 2 m
  | .day y m d => digitsN 4 y && digitsN 2 m && digitsN 2 d

theorem lexDate_text (d : DateS) (rest : List Char) (hd : d.ok = true) (hr : NotHead (· == '-') rest) :
    lexDateFormat (d.text ++ rest) = some (d.text, rest) := by
  cases d with
  | year y =>
    simp only [DateS.ok] at hd
    simp only [DateS.text, lexDateFormat, takeDigits_append 4 y rest hd, Option.bind_eq_bind, Option.bind_some]
    cases rest with
    | nil => rfl
    | cons x r =>
      have := hr x rfl
      split
      · rename_i heq; cases heq; simp at this
      · rfl
  | month y m =>
    simp only [DateS.ok, Bool.and_eq_true] at hd
    simp only [DateS.text, lexDateFormat, List.append_assoc, List.cons_append, takeDigits_append 4 y _ hd.1,
      Option.bind_eq_bind, Option.bind_some, takeDigits_append 2 m _ hd.2]
    cases rest with
    | nil => rfl
    | cons x r =>
      have := hr x rfl
      split
      · rename_i heq; cases heq; simp at this
      · rfl
  | day y m d =>
    simp only [DateS.ok, Bool.and_eq_true] at hd
    simp only [DateS.text, lexDateFormat, List.append_assoc, List.cons_append, takeDigits_append 4 y _ hd.1.1,
      Option.bind_eq_bind, Option.bind_some, takeDigits_append 2 m _ hd.1.2, takeDigits_append 2 d _ hd.2]
    rfl


/-- the time part of a literal -/
inductive TimeS where
  | hour (h : List Char)
  | minute (h m : List Char)
  | second (h m s : List Char)
  | frac (h m s : List Char) (x : Char) (fr : List Char)

def TimeS.text : TimeS → List Char
  | .hour h => h
  | .minute h m => h ++ ':' :: m
  | .second h m s => h ++ ':' :: m ++ ':' :: s
  | .frac h m s x fr => h ++ ':' :: m ++ ':' :: s ++ '.' :: x :: fr

def TimeS.ok : TimeS → Bool
  | .hour h => digitsN 2 h
  | .minute h m => digitsN 2 h && digitsN 2 m
  | .second h m s => digitsN 2 h && digitsN 2 m && digitsN 2 s
  | .frac h m s x fr => digitsN 2 h && digitsN 2 m && digitsN 2 s && isDigitC x && fr.all isDigitC

/-- what may follow a time part: not ':', not '.', not a digit -/
def afterTime (c : Char) : Bool := c == ':' || c == '.' || isDigitC c

theorem lexTime_text (t : TimeS) (rest : List Char) (ht : t.ok = true) (hr : NotHead afterTime rest) :
    lexTimeFormat (t.text ++ rest) = some (t.text, rest) := by
  have hcolon : ∀ x r, rest = x :: r → (x == ':') = false := by
    intro x r h; have := hr x (by rw [h]; rfl); simp only [afterTime, Bool.or_eq_false_iff] at this; exact this.1.1
  have hdot : ∀ x r, rest = x :: r → (x == '.') = false := by
    intro x r h; have := hr x (by rw [h]; rfl); simp only [afterTime, Bool.or_eq_false_iff] at this; exact this.1.2
  have hdig : ∀ c, rest.head? = some c → isDigitC c = false := by
    intro x h; have := hr x h; simp only [afterTime, Bool.or_eq_false_iff] at this; exact this.2
  cases t with
  | hour h =>
    simp only [TimeS.ok] at ht
    simp only [TimeS.text, lexTimeFormat, takeDigits_append 2 h rest ht, Option.bind_eq_bind, Option.bind_some]
    cases rest with
    | nil => rfl
    | cons x r =>
      have := hcolon x r rfl
      split
      · rename_i heq; cases heq; simp at this
      · rfl
  | minute h m =>
    simp only [TimeS.ok, Bool.and_eq_true] at ht
    simp only [TimeS.text, lexTimeFormat, List.append_assoc, List.cons_append, takeDigits_append 2 h _ ht.1,
      Option.bind_eq_bind, Option.bind_some, takeDigits_append 2 m _ ht.2]
    cases rest with
    | nil => rfl
    | cons x r =>
      have := hcolon x r rfl
      split
      · rename_i heq; cases heq; simp at this
      · rfl
  | second h m s =>
    simp only [TimeS.ok, Bool.and_eq_true] at ht
    simp only [TimeS.text, lexTimeFormat, List.append_assoc, List.cons_append, takeDigits_append 2 h _ ht.1.1,
      Option.bind_eq_bind, Option.bind_some, takeDigits_append 2 m _ ht.1.2, takeDigits_append 2 s _ ht.2]
    cases rest with
    | nil => rfl
    | cons x r =>
      have := hdot x r rfl
      split
      · rename_i heq; cases heq; simp at this
      · rfl
  | frac h m s x fr =>
    simp only [TimeS.ok, Bool.and_eq_true, List.all_eq_true] at ht
    obtain ⟨⟨⟨⟨h1, h2⟩, h3⟩, hx⟩, hfr⟩ := ht
    have htw : (x :: (fr ++ rest)).takeWhile isDigitC = x :: fr := by
      have := takeWhile_stop isDigitC (x :: fr) rest (by
        intro a ha; rcases List.mem_cons.mp ha with h | h
        · subst h; exact hx
        · exact hfr a h) hdig
      simpa using this
    have hdr : (x :: (fr ++ rest)).drop (x :: fr).length = rest := by
      rw [show x :: (fr ++ rest) = (x :: fr) ++ rest from rfl, List.drop_left]
    simp only [TimeS.text, lexTimeFormat, List.append_assoc, List.cons_append, takeDigits_append 2 h _ h1,
      Option.bind_eq_bind, Option.bind_some, takeDigits_append 2 m _ h2, takeDigits_append 2 s _ h3, htw, hdr,
      List.isEmpty_cons, Bool.false_eq_true, if_false]
    rfl

/-- the zone part of a literal -/
inductive ZoneS where
  | none
  | z
  | off (sg : Char) (h m : List Char)

def ZoneS.text : ZoneS → List Char
  | .none => []
  | .z => ['Z']
  | .off sg h m => sg :: h ++ ':' :: m

def ZoneS.ok : ZoneS → Bool
  | .none => true
  | .z => true
  | .off sg h m => (sg == '+' || sg == '-') && digitsN 2 h && digitsN 2 m

theorem lexTz_text (z : ZoneS) (rest : List Char) (hz : z.ok = true) (hr : NotHead tempFollow rest) :
    lexTz (z.text ++ rest) = (z.text, rest) := by
  cases z with
  | none =>
    simp only [ZoneS.text, List.nil_append]
    cases rest with
    | nil => rfl
    | cons x r =>
      have := hr x rfl
      simp only [tempFollow, Bool.or_eq_false_iff, beq_eq_false_iff_ne, ne_eq] at this
      obtain ⟨⟨⟨⟨⟨⟨_, hm⟩, _⟩, _⟩, _⟩, hZ⟩, hp⟩ := this
      unfold lexTz
      split
      · rename_i heq; cases heq; exact absurd rfl hZ
      · rename_i sg r' heq; cases heq
        have : (x == '+' || x == '-') = false := by simp [hp, hm]
        simp [this]
      · rename_i heq; cases heq
  | z => simp [ZoneS.text, lexTz]
  | off sg h m =>
    simp only [ZoneS.ok, Bool.and_eq_true, Bool.or_eq_true, beq_iff_eq] at hz
    obtain ⟨⟨hs, hh⟩, hm⟩ := hz
    rcases hs with hs | hs <;> subst hs <;>
      simp [ZoneS.text, lexTz, takeDigits_append 2 h _ hh, takeDigits_append 2 m _ hm]


/-- a whole temporal literal (after the '@') -/
inductive TempS where
  | time (t : TimeS)
  | date (d : DateS)
  | dateT (d : DateS)
  | full (d : DateS) (t : TimeS) (z : ZoneS)

def TempS.text : TempS → List Char
  | .time t => 'T' :: t.text
  | .date d => d.text
  | .dateT d => d.text ++ ['T']
  | .full d t z => d.text ++ 'T' :: (t.text ++ z.text)

def TempS.ok : TempS → Bool
  | .time t => t.ok
  | .date d => d.ok
  | .dateT d => d.ok
  | .full d t z => d.ok && t.ok && z.ok

theorem digitsN_head {n : Nat} {l : List Char} (h : digitsN (n + 1) l = true) : ∃ c tl, l = c :: tl ∧ isDigitC c = true := by
  simp only [digitsN, Bool.and_eq_true, beq_iff_eq, List.all_eq_true] at h
  cases l with
  | nil => simp at h
  | cons c tl => exact ⟨c, tl, rfl, h.2 c (by simp)⟩

theorem date_head (d : DateS) (hd : d.ok = true) : ∃ c tl, d.text = c :: tl ∧ isDigitC c = true := by
  cases d with
  | year y =>
    simp only [DateS.ok] at hd
    obtain ⟨c, tl, h, hc⟩ := digitsN_head hd
    exact ⟨c, tl, by simp [DateS.text, h], hc⟩
  | month y m =>
    simp only [DateS.ok, Bool.and_eq_true] at hd
    obtain ⟨c, tl, h, hc⟩ := digitsN_head hd.1
    exact ⟨c, tl ++ '-' :: m, by simp [DateS.text, h], hc⟩
  | day y m d =>
    simp only [DateS.ok, Bool.and_eq_true] at hd
    obtain ⟨c, tl, h, hc⟩ := digitsN_head hd.1.1
    exact ⟨c, tl ++ '-' :: m ++ '-' :: d, by simp [DateS.text, h], hc⟩

theorem time_head (t : TimeS) (ht : t.ok = true) : ∃ c tl, t.text = c :: tl ∧ isDigitC c = true := by
  cases t with
  | hour h =>
    simp only [TimeS.ok] at ht
    obtain ⟨c, tl, hh, hc⟩ := digitsN_head ht
    exact ⟨c, tl, by simp [TimeS.text, hh], hc⟩
  | minute h m =>
    simp only [TimeS.ok, Bool.and_eq_true] at ht
    obtain ⟨c, tl, hh, hc⟩ := digitsN_head ht.1
    exact ⟨c, _, by simp only [TimeS.text, hh, List.cons_append]; rfl, hc⟩
  | second h m s =>
    simp only [TimeS.ok, Bool.and_eq_true] at ht
    obtain ⟨c, tl, hh, hc⟩ := digitsN_head ht.1.1
    exact ⟨c, _, by simp only [TimeS.text, hh, List.cons_append]; rfl, hc⟩
  | frac h m s x fr =>
    simp only [TimeS.ok, Bool.and_eq_true] at ht
    obtain ⟨c, tl, hh, hc⟩ := digitsN_head ht.1.1.1.1
    exact ⟨c, _, by simp only [TimeS.text, hh, List.cons_append]; rfl, hc⟩

theorem lexTemporal_date (s : List Char) (c : Char) (tl : List Char) (hs : s = c :: tl) (hc : isDigitC c = true) :
    lexTemporal s =
      (match lexDateFormat s with
       | none => none
       | some (d, r) =>
         match r with
         | 'T' :: r1 =>
           match lexTimeFormat r1 with
           | some (t, r2) => let (z, r3) := lexTz r2; some (d ++ 'T' :: t ++ z, r3)
           | none => some (d ++ ['T'], r1)
         | _ => some (d, r)) := by
  subst hs
  unfold lexTemporal
  split
  · rename_i heq; cases heq; exact absurd hc (by decide)
  · rfl

theorem temp_notDash {rest : List Char} (hr : NotHead tempFollow rest) : NotHead (· == '-') rest := by
  intro c hc
  have := hr c hc
  simp only [tempFollow, Bool.or_eq_false_iff] at this
  exact this.1.1.1.1.1.2

theorem temp_afterTime {rest : List Char} (hr : NotHead tempFollow rest) : NotHead afterTime rest := by
  intro c hc
  have := hr c hc
  simp only [tempFollow, Bool.or_eq_false_iff] at this
  simp only [afterTime, this.1.1.1.1.2, this.1.1.1.2, this.1.1.1.1.1.1, Bool.or_self]

theorem temp_notDigit {rest : List Char} (hr : NotHead tempFollow rest) : NotHead isDigitC rest := by
  intro c hc
  have := hr c hc
  simp only [tempFollow, Bool.or_eq_false_iff] at this
  exact this.1.1.1.1.1.1

theorem stops_temp {rest : List Char} (hr : StopsAt rest) : NotHead tempFollow rest := by
  intro c hc
  rcases isStop_cases (hr c hc) with h | h | h | h | h <;> subst h <;> decide

theorem lexTime_stop (rest : List Char) (hr : NotHead tempFollow rest) : lexTimeFormat rest = none := by
  simp [lexTimeFormat, takeDigits_stop 2 rest (by omega) (temp_notDigit hr)]

theorem lexTemporal_text (ts : TempS) (rest : List Char) (hok : ts.ok = true) (hr : NotHead tempFollow rest) :
    lexTemporal (ts.text ++ rest) = some (ts.text, rest) := by
  cases ts with
  | time t =>
    simp only [TempS.ok] at hok
    simp only [TempS.text, List.cons_append, lexTemporal, lexTime_text t rest hok (temp_afterTime hr), Option.map_some]
  | date d =>
    simp only [TempS.ok] at hok
    obtain ⟨c, tl, htext, hc⟩ := date_head d hok
    rw [lexTemporal_date (TempS.text (.date d) ++ rest) c (tl ++ rest) (by simp [TempS.text, htext]) hc]
    simp only [TempS.text, lexDate_text d rest hok (temp_notDash hr)]
    cases rest with
    | nil => rfl
    | cons x r =>
      have := hr x rfl
      simp only [tempFollow, Bool.or_eq_false_iff, beq_eq_false_iff_ne, ne_eq] at this
      split
      · rename_i heq; cases heq; exact absurd rfl this.1.1.2
      · rfl
  | dateT d =>
    simp only [TempS.ok] at hok
    obtain ⟨c, tl, htext, hc⟩ := date_head d hok
    rw [lexTemporal_date (TempS.text (.dateT d) ++ rest) c (tl ++ 'T' :: rest) (by simp [TempS.text, htext]) hc]
    have : TempS.text (.dateT d) ++ rest = d.text ++ 'T' :: rest := by simp [TempS.text]
    rw [this, lexDate_text d ('T' :: rest) hok (by intro y hy; cases hy; decide)]
    simp only [lexTime_stop rest hr, TempS.text]
  | full d t zn =>
    simp only [TempS.ok, Bool.and_eq_true] at hok
    obtain ⟨⟨hd, ht⟩, hz⟩ := hok
    obtain ⟨c, tl, htext, hc⟩ := date_head d hd
    rw [lexTemporal_date (TempS.text (.full d t zn) ++ rest) c (tl ++ 'T' :: (t.text ++ zn.text) ++ rest)
      (by simp [TempS.text, htext]) hc]
    have : TempS.text (.full d t zn) ++ rest = d.text ++ 'T' :: (t.text ++ (zn.text ++ rest)) := by simp [TempS.text]
    rw [this, lexDate_text d _ hd (by intro y hy; cases hy; decide)]
    have hz' : NotHead afterTime (zn.text ++ rest) := by
      cases zn with
      | none => simpa [ZoneS.text] using temp_afterTime hr
      | z => intro y hy; cases hy; decide
      | off sg h m =>
        simp only [ZoneS.ok, Bool.and_eq_true, Bool.or_eq_true, beq_iff_eq] at hz
        intro y hy
        simp only [ZoneS.text, List.cons_append, List.head?_cons, Option.some.injEq] at hy
        subst hy
        rcases hz.1.1 with h | h <;> subst h <;> decide
    simp only [lexTime_text t _ ht hz', lexTz_text zn rest hz hr, TempS.text, List.append_assoc, List.cons_append]


theorem step_temporal (f : Nat) (ts : TempS) (rest : List Char) (acc : List Tok) (hok : ts.ok = true) (hr : NotHead tempFollow rest) :
    lexAux (f + 1) ('@' :: (ts.text ++ rest)) acc = lexAux f rest (.temporal (String.ofList ('@' :: ts.text)) :: acc) := by
  have h1 : isWs '@' = false := by decide
  have h2 : (('@' : Char) == '/') = false := by decide
  have h3 : (('@' : Char) == '\'') = false := by decide
  have h4 : (('@' : Char) == '`') = false := by decide
  simp only [lexAux, h1, h2, h3, h4, Bool.false_and, Bool.false_eq_true, if_false, beq_self_eq_true, if_true,
    lexTemporal_text ts rest hok hr]

/-! ### tokens with their source text -/

def wordOK : List Char → Bool
  | c :: w => isIdStart c && w.all isIdChar
  | [] => false

theorem keywords_are_words : ∀ s ∈ wordKeywords, wordOK s.toList = true := by decide

/-- `Written t txt`: the token `t` is written `txt` in a source -/
inductive Written : Tok → List Char → Prop where
  | int (s : String) (c : Char) (ds : List Char) (hs : s.toList = c :: ds) (hc : isDigitC c = true)
      (hds : ∀ a ∈ ds, isDigitC a = true) : Written (.num s) s.toList
  | dec (s : String) (c x : Char) (ds fs : List Char) (hs : s.toList = c :: ds ++ '.' :: x :: fs) (hc : isDigitC c = true)
      (hds : ∀ a ∈ ds, isDigitC a = true) (hx : isDigitC x = true) (hfs : ∀ a ∈ fs, isDigitC a = true) :
      Written (.num s) s.toList
  | str (s : String) (h : quotedOK '\'' s.toList = true) : Written (.str s) ('\'' :: s.toList ++ ['\''])
  | delim (s : String) (h : quotedOK '`' s.toList = true) : Written (.delim s) ('`' :: s.toList ++ ['`'])
  | ident (s : String) (hw : wordOK s.toList = true) (hk : wordKeywords.contains s = false) : Written (.ident s) s.toList
  | word (s : String) (hk : wordKeywords.contains s = true) : Written (.kw s) s.toList
  | sym2 (s : String) (h : symbols2.contains s = true) : Written (.kw s) s.toList
  | sym1 (c : Char) (h : symbols1.contains c = true) : Written (.kw (String.singleton c)) [c]
  | this : Written (.kw "$this") "$this".toList
  | index : Written (.kw "$index") "$index".toList
  | total : Written (.kw "$total") "$total".toList
  | temporal (ts : TempS) (h : ts.ok = true) : Written (.temporal (String.ofList ('@' :: ts.text))) ('@' :: ts.text)

theorem wordOK_split {l : List Char} (h : wordOK l = true) :
    ∃ c w, l = c :: w ∧ isIdStart c = true ∧ ∀ a ∈ w, isIdChar a = true := by
  cases l with
  | nil => cases h
  | cons c w =>
    simp only [wordOK, Bool.and_eq_true, List.all_eq_true] at h
    exact ⟨c, w, rfl, h.1, h.2⟩

theorem written_nonempty {t : Tok} {txt : List Char} (h : Written t txt) : 1 ≤ txt.length := by
  cases h with
  | int s c ds hs => rw [hs]; simp
  | dec s c x ds fs hs => rw [hs]; simp
  | str s => simp
  | delim s => simp
  | ident s hw => obtain ⟨c, w, hl, _⟩ := wordOK_split hw; rw [hl]; simp
  | word s hk =>
    have := keywords_are_words s (by simpa using hk)
    obtain ⟨c, w, hl, _⟩ := wordOK_split this; rw [hl]; simp
  | sym2 s h =>
    simp only [symbols2, List.contains_cons, List.contains_nil, Bool.or_false, Bool.or_eq_true, beq_iff_eq] at h
    rcases h with h | h | h | h <;> subst h <;> simp
  | sym1 c => simp
  | this => simp
  | index => simp
  | total => simp
  | temporal ts => simp

/-- a written token never is the error token -/
theorem written_not_bad {t : Tok} {txt : List Char} (h : Written t txt) : ∀ s, t ≠ .bad s := by
  intro s hs; subst hs; cases h

/-- characters that must not come directly after a token: they would extend it or fuse with it -/
def follow (t : Tok) (x : Char) : Bool :=
  match t with
  | .num s => isDigitC x || (x == '.' && !s.toList.contains '.')
  | .ident _ => isIdChar x
  | .temporal _ => tempFollow x
  | .kw s =>
    if wordKeywords.contains s then isIdChar x
    else match s.toList with
      | [c] => symFollow c x
      | _ => false
  | _ => false

theorem digits_no_dot (l : List Char) (h : ∀ a ∈ l, isDigitC a = true) : l.contains '.' = false := by
  induction l with
  | nil => rfl
  | cons a l ih =>
    have ha := ne_of_pred (h a (by simp)) (show isDigitC '.' = false by decide)
    have ha' : (('.' : Char) == a) = false := by
      cases hh : ('.' : Char) == a with
      | false => rfl
      | true => rw [beq_iff_eq] at hh; subst hh; simp at ha
    simp only [List.contains_cons, ha', Bool.false_or]
    exact ih (fun b hb => h b (List.mem_cons_of_mem _ hb))

theorem sym1_not_word (c : Char) (h : symbols1.contains c = true) :
    wordKeywords.contains (String.singleton c) = false := by
  simp only [symbols1, List.contains_cons, List.contains_nil, Bool.or_false, Bool.or_eq_true, beq_iff_eq] at h
  rcases h with h | h | h | h | h | h | h | h | h | h | h | h | h | h | h | h | h | h | h <;> subst h <;> decide

/-- ONE TOKEN: the lexer reads a written token back, and goes on after it, whenever the next
    character (if there is one) is not one that would extend the token or fuse with it -/
theorem step_tok {t : Tok} {txt : List Char} (h : Written t txt) (f : Nat) (rest : List Char) (acc : List Tok)
    (hr : NotHead (follow t) rest) :
    lexAux (f + 1) (txt ++ rest) acc = lexAux f rest (t :: acc) := by
  cases h with
  | int s c ds hs hc hds =>
    have hnd : (s.toList.contains '.') = false := by
      rw [hs]; apply digits_no_dot
      intro a ha; rcases List.mem_cons.mp ha with h | h
      · subst h; exact hc
      · exact hds a h
    have hr' : NotHead intFollow rest := by
      intro y hy; have := hr y hy
      simp only [follow, hnd, Bool.not_false, Bool.and_true] at this
      exact this
    rw [hs, List.cons_append, step_int f c ds rest acc hc hds hr', ← hs, String.ofList_toList]
  | dec s c x ds fs hs hc hds hx hfs =>
    have hnd : (s.toList.contains '.') = true := by rw [hs]; simp
    have hr' : NotHead isDigitC rest := by
      intro y hy; have := hr y hy
      simp only [follow, hnd, Bool.not_true, Bool.and_false, Bool.or_false] at this
      exact this
    rw [hs]
    have := step_dec f c x ds fs rest acc hc hds hx hfs hr'
    simp only [List.cons_append, List.append_assoc] at this ⊢
    rw [this]
    have e : c :: (ds ++ '.' :: x :: fs) = s.toList := by rw [hs]; simp
    rw [e, String.ofList_toList]
  | str s hq =>
    have := step_str f s.toList rest acc hq
    simp only [List.cons_append, List.append_assoc, List.nil_append] at this ⊢
    rw [this, String.ofList_toList]
  | delim s hq =>
    have := step_delim f s.toList rest acc hq
    simp only [List.cons_append, List.append_assoc, List.nil_append] at this ⊢
    rw [this, String.ofList_toList]
  | ident s hw hk =>
    obtain ⟨c, w, hl, hc, hw'⟩ := wordOK_split hw
    rw [hl, List.cons_append, step_word f c w rest acc hc hw' hr, ← hl, String.ofList_toList, hk]
    rfl
  | word s hk =>
    have hw := keywords_are_words s (by simpa using hk)
    obtain ⟨c, w, hl, hc, hw'⟩ := wordOK_split hw
    have hr' : NotHead isIdChar rest := by
      intro y hy; have := hr y hy
      simp only [follow, hk, if_true] at this
      exact this
    rw [hl, List.cons_append, step_word f c w rest acc hc hw' hr', ← hl, String.ofList_toList, hk]
    rfl
  | sym2 s h => exact step_sym2 f s rest acc h
  | sym1 c h =>
    have hr' : NotHead (symFollow c) rest := by
      intro y hy; have := hr y hy
      simp only [follow, sym1_not_word c h, Bool.false_eq_true, if_false, String.toList_singleton] at this
      exact this
    exact step_sym1 f c rest acc h hr'
  | this => exact step_this f rest acc
  | index => exact step_index f rest acc
  | total => exact step_total f rest acc
  | temporal ts hok => exact step_temporal f ts rest acc hok hr

/-- white space always separates, and so does the start of a comment except after `/` -/
theorem follow_of_stop {t : Tok} {txt : List Char} (h : Written t txt) (x : Char) (hx : isStop x = true)
    (hdiv : t = .kw "/" → isWs x = true) : follow t x = false := by
  cases h with
  | int s c ds hs hc hds =>
    rcases isStop_cases hx with h | h | h | h | h <;> subst h <;> simp [follow, isDigitC]
  | dec s c x' ds fs hs hc hds hx' hfs =>
    rcases isStop_cases hx with h | h | h | h | h <;> subst h <;> simp [follow, isDigitC]
  | str s hq => rfl
  | delim s hq => rfl
  | ident s hw hk => exact stop_not_idChar hx
  | word s hk => simp only [follow, hk, if_true]; exact stop_not_idChar hx
  | sym2 s h =>
    simp only [symbols2, List.contains_cons, List.contains_nil, Bool.or_false, Bool.or_eq_true, beq_iff_eq] at h
    rcases h with h | h | h | h <;> subst h <;> simp [follow, wordKeywords]
  | sym1 c h =>
    simp only [follow, sym1_not_word c h, Bool.false_eq_true, if_false, String.toList_singleton]
    simp only [symbols1, List.contains_cons, List.contains_nil, Bool.or_false, Bool.or_eq_true, beq_iff_eq] at h
    rcases isStop_cases hx with hx | hx | hx | hx | hx <;> subst hx <;>
    rcases h with h | h | h | h | h | h | h | h | h | h | h | h | h | h | h | h | h | h | h <;> subst h <;>
      first
      | decide
      | (exfalso; have := hdiv rfl; revert this; decide)
  | this => simp [follow, wordKeywords]
  | index => simp [follow, wordKeywords]
  | total => simp [follow, wordKeywords]
  | temporal ts hok =>
    rcases isStop_cases hx with h | h | h | h | h <;> subst h <;> (show tempFollow _ = false) <;> decide

/-! ### decorated sources -/

inductive Piece where
  | ws (c : Char)
  | block (b : List Char)
  | line (b : List Char)
  | tok (t : Tok) (txt : List Char)

def Piece.text : Piece → List Char
  | .ws c => [c]
  | .block b => '/' :: '*' :: (b ++ ['*', '/'])
  | .line b => '/' :: '/' :: b
  | .tok _ txt => txt

def Piece.toks : Piece → List Tok
  | .tok t _ => [t]
  | _ => []

def Piece.OK : Piece → Prop
  | .ws c => isWs c = true
  | .block b => blockOK b = true
  | .line b => lineOK b = true
  | .tok t txt => Written t txt

/-- what may follow a piece -/
def After : Piece → List Char → Prop
  | .ws _, _ => True
  | .block _, _ => True
  | .line _, rest => ∀ c, rest.head? = some c → c = '\r' ∨ c = '\n'
  | .tok t _, rest => NotHead (follow t) rest

def srcText (ps : List Piece) : List Char := ps.flatMap Piece.text
def srcToks (ps : List Piece) : List Tok := ps.flatMap Piece.toks

def SrcOK : List Piece → Prop
  | [] => True
  | p :: ps => p.OK ∧ After p (srcText ps) ∧ SrcOK ps

theorem piece_nonempty {p : Piece} (h : p.OK) : 1 ≤ p.text.length := by
  cases p with
  | ws c => simp [Piece.text]
  | block b => simp [Piece.text]
  | line b => simp [Piece.text]
  | tok t txt => exact written_nonempty h

theorem step_piece {p : Piece} (hp : p.OK) (f : Nat) (rest : List Char) (acc : List Tok) (ha : After p rest) :
    lexAux (f + 1) (p.text ++ rest) acc = lexAux f rest (p.toks.reverse ++ acc) := by
  cases p with
  | ws c => exact step_ws f c rest acc hp
  | block b =>
    have := step_block f b rest acc hp
    simpa [Piece.text, Piece.toks] using this
  | line b =>
    have := step_line f b rest acc hp ha
    simpa [Piece.text, Piece.toks] using this
  | tok t txt => exact step_tok hp f rest acc ha

theorem lexAux_pieces (ps : List Piece) (h : SrcOK ps) (f : Nat) (hf : (srcText ps).length ≤ f) (acc : List Tok) :
    lexAux f (srcText ps) acc = acc.reverse ++ srcToks ps := by
  induction ps generalizing f acc with
  | nil => simp [srcText, srcToks, lex_nil]
  | cons p ps ih =>
    obtain ⟨hp, ha, hs⟩ := h
    have hlen := piece_nonempty hp
    have e : srcText (p :: ps) = p.text ++ srcText ps := by simp [srcText]
    rw [e] at hf ⊢
    simp only [List.length_append] at hf
    cases f with
    | zero => omega
    | succ f =>
      rw [step_piece hp f _ acc ha, ih hs f (by omega)]
      simp [srcToks]

/-- THE LEXER ON A DECORATED SOURCE: white space and comments vanish, every token is read back -/
theorem lex_pieces (ps : List Piece) (h : SrcOK ps) : lex (String.ofList (srcText ps)) = srcToks ps := by
  unfold lex
  rw [String.toList_ofList, String.length_ofList, lexAux_pieces ps h _ (by omega)]
  rfl

end FP.Lemmas.Lexer
