/- Helper lemmas about int32 arithmetic as translated from Go (`wrap32`, `gdiv32`).  Core Lean only. -/
import FP.Go
namespace FP.Lemmas
open FP.Go

theorem gand_some_some (a b : Bool) : gand (some a) (some b) = some (a && b) := by
  cases a <;> rfl

theorem wrap32_id {x : Int} (h : inInt32 x) : wrap32 x = x := by
  unfold inInt32 minInt32 maxInt32 at h; unfold wrap32; omega

theorem wrap32_in (x : Int) : inInt32 (wrap32 x) := by
  unfold inInt32 minInt32 maxInt32 wrap32; omega

theorem sign_mul (i j : Int) (hi0 : i ≠ 0) (hj0 : j ≠ 0) :
    (i * j < 0 ↔ ¬((i < 0) ↔ (j < 0))) ∧ i * j ≠ 0 := by
  rcases Int.lt_trichotomy i 0 with hi | hi | hi
  · rcases Int.lt_trichotomy j 0 with hj | hj | hj
    · have := Int.mul_pos_of_neg_of_neg hi hj; constructor <;> omega
    · exact absurd hj hj0
    · have := Int.mul_neg_of_neg_of_pos hi hj; constructor <;> omega
  · exact absurd hi hi0
  · rcases Int.lt_trichotomy j 0 with hj | hj | hj
    · have := Int.mul_neg_of_pos_of_neg hi hj; constructor <;> omega
    · exact absurd hj hj0
    · have := Int.mul_pos hi hj; constructor <;> omega

/-- The heart of `Integer.Mul`'s overflow test: with `r` the wrapped product and `q`, `m` the
    truncated quotient and remainder of `r` by `j`, "sign is right and `q` wraps to `i`" holds
    exactly when the true product fits in 32 bits. -/
theorem mul_core (i j p r q m : Int) (hi : inInt32 i) (hj : inInt32 j) (hi0 : i ≠ 0) (hj0 : j ≠ 0)
    (hp' : j * i = p) (hr : r = wrap32 p) (hqm : j * q + m = r)
    (hm : m.natAbs < j.natAbs) (hq : q.natAbs ≤ r.natAbs)
    (hc : r = p → q = i)
    (hsign : (p < 0 ↔ ¬((i < 0) ↔ (j < 0)))) (hp0 : p ≠ 0) :
    (((decide (r < 0)) == !((decide (i < 0)) == (decide (j < 0)))) && decide (wrap32 q = i)) = decide (inInt32 p) := by
  unfold inInt32 minInt32 maxInt32 wrap32 at *
  by_cases h : (-2147483648 ≤ p ∧ p ≤ 2147483647)
  · have e : r = p := by omega
    have hq' := hc e
    subst hq'
    simp only [h, decide_true, and_self]
    have : (q + 2147483648) % 4294967296 - 2147483648 = q := by omega
    simp only [this, decide_true, Bool.and_true]
    by_cases a : q < 0 <;> by_cases b : j < 0 <;> simp [a, b] <;> omega
  · simp only [h, decide_false]
    by_cases hw : (q + 2147483648) % 4294967296 - 2147483648 = q
    · by_cases hqi : q = i
      · subst hqi
        rw [hp'] at hqm
        exfalso; omega
      · simp [hw, hqi]
    · have hq2 : q = 2147483648 := by omega
      subst hq2
      have hj1 : j = -1 := by omega
      subst hj1
      by_cases a : i < 0 <;> simp [a] <;> omega

end FP.Lemmas
