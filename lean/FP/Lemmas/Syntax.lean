/- Lemmas about the parser model: the generic level loop. Core Lean only. -/
import FP.Model.Printer
namespace FP.Lemmas.Syntax
open FP FP.Model.Syntax

/-- from any iteration budget ≥ k0 the loop turns `left` followed by `ts` into `res` -/
def LoopsTo (step : Step) (k0 : Nat) (left : Ex) (ts : List Tok) (res : Ex × List Tok) : Prop :=
  ∀ k, k0 ≤ k → loopG step k left ts = some res

/-- head of the remaining tokens does not trigger the loop -/
def NoTrigger (step : Step) (ts : List Tok) : Prop := ∀ o r, ts = .kw o :: r → step o = none

theorem loops_stop (step : Step) (left : Ex) (ts : List Tok) (h : NoTrigger step ts) :
    LoopsTo step 0 left ts (left, ts) := by
  intro k _
  cases k with
  | zero =>
    unfold loopG
    split
    · rename_i o r
      simp [h o r rfl]
    · rfl
  | succ k =>
    unfold loopG
    split
    · rename_i o r
      simp [h o r rfl]
    · rfl

theorem loops_step (step : Step) (o : String) (rhs : List Tok → Option ((Ex → Ex) × List Tok)) (hstep : step o = some rhs)
    (r r' : List Tok) (build : Ex → Ex) (hr : rhs r = some (build, r')) (k0 : Nat) (left : Ex) (res : Ex × List Tok)
    (h : LoopsTo step k0 (build left) r' res) : LoopsTo step (k0 + 1) left (.kw o :: r) res := by
  intro k hk
  cases k with
  | zero => omega
  | succ k =>
    unfold loopG
    simp only [hstep, hr]
    exact h k (by omega)

theorem levelG_of (step : Step) (next : Parser) (ts : List Tok) (x : Ex) (r : List Tok) (k0 : Nat) (res : Ex × List Tok)
    (hn : next ts = some (x, r)) (hl : LoopsTo step k0 x r res) (hk : k0 ≤ r.length) : levelG step next ts = some res := by
  unfold levelG
  simp only [hn]
  exact hl _ hk

end FP.Lemmas.Syntax

namespace FP.Lemmas.Syntax
open FP FP.Model.Syntax

/-! ### the level table -/

def specialToks : List String := ["(", ")", "[", "]", ",", ".", "{", "}", "%"]

/-- what the round-trip proof needs from the level table: operators occur in one level only, and
    none of them is a bracket, separator or calendar keyword -/
def tableOK : Bool :=
  ((List.range nLevels).all fun i => (List.range nLevels).all fun j =>
      i == j || ((binLevels.getD i ([], false)).1.all fun o => !((binLevels.getD j ([], false)).1.contains o))) &&
  (binLevels.all fun l => l.1.all fun o => !(specialToks.contains o) && !(unitKeywords.contains o))

theorem ops_disjoint (h : tableOK = true) (i j : Nat) (li lj : List String × Bool) (hi : binLevels[i]? = some li)
    (hj : binLevels[j]? = some lj) (o : String) (hoi : li.1.contains o = true) (hoj : lj.1.contains o = true) : i = j := by
  simp only [tableOK, Bool.and_eq_true, List.all_eq_true, List.mem_range] at h
  have hil : i < nLevels := by
    rcases Nat.lt_or_ge i binLevels.length with h1 | h1
    · exact h1
    · rw [List.getElem?_eq_none h1] at hi; cases hi
  have hjl : j < nLevels := by
    rcases Nat.lt_or_ge j binLevels.length with h1 | h1
    · exact h1
    · rw [List.getElem?_eq_none h1] at hj; cases hj
  have := h.1 i hil j hjl
  rcases Bool.or_eq_true _ _ |>.mp this with h1 | h1
  · simpa using h1
  · have gi : binLevels.getD i ([], false) = li := by simp [List.getD, hi]
    have gj : binLevels.getD j ([], false) = lj := by simp [List.getD, hj]
    rw [gi, gj] at h1
    have hmem : o ∈ li.1 := by simpa using hoi
    rw [List.all_eq_true] at h1
    have := h1 o hmem
    have hm2 : o ∈ lj.1 := by simpa using hoj
    simp at this
    exact absurd hm2 this

theorem op_not_special (h : tableOK = true) (i : Nat) (li : List String × Bool) (hi : binLevels[i]? = some li)
    (o : String) (ho : li.1.contains o = true) : specialToks.contains o = false ∧ unitKeywords.contains o = false := by
  simp only [tableOK, Bool.and_eq_true, List.all_eq_true] at h
  have hmem : li ∈ binLevels := List.mem_of_getElem? hi
  have := h.2 li hmem o (by simpa using ho)
  simp only [Bool.and_eq_true, Bool.not_eq_true'] at this
  exact this

/-! ### parsers by level -/

/-- the parser of level c (0 … nLevels-1 binary/type levels, nLevels polarity, +1 postfix, +2 term)
    over the nested-expression parser `exprP f` -/
def Lc (f c : Nat) : Lv := levelsL (binLevels.drop c) (exprP f)

def Pc (f c : Nat) : Parser :=
  if c ≤ nLevels then (Lc f c).parser
  else if c = nLevels + 1 then postfixP (exprP f) else termP (exprP f)

/-- the loops of level c and of all tighter levels, as a builder -/
def Cc (f c : Nat) : Cont := (Lc f c).cont

theorem exprP_succ (f : Nat) : exprP (f + 1) = Pc f 0 := by
  simp [exprP, Pc, Lc, levelsP]

theorem Lc_level (f c : Nat) (lvl : List String × Bool) (h : binLevels[c]? = some lvl) :
    Lc f c = { parser := levelG (levelStep lvl (Lc f (c + 1))) (Lc f (c + 1)).parser,
               cont := contThen (Lc f (c + 1)).cont (levelStep lvl (Lc f (c + 1))) } := by
  have hc : c < binLevels.length := by
    rcases Nat.lt_or_ge c binLevels.length with h1 | h1
    · exact h1
    · rw [List.getElem?_eq_none h1] at h; cases h
  have hd : binLevels.drop c = lvl :: binLevels.drop (c + 1) := by
    have hg : binLevels[c] = lvl := by
      have := List.getElem?_eq_getElem hc; rw [this] at h; exact Option.some.inj h
    rw [← hg]; exact (List.drop_eq_getElem_cons hc)
  simp only [Lc, hd, levelsL, List.foldr_cons]

theorem Pc_unary (f : Nat) : Pc f nLevels = unaryP (exprP f) := by
  simp [Pc, Lc, levelsL, nLevels]

theorem Pc_post (f : Nat) : Pc f (nLevels + 1) = postfixP (exprP f) := by
  have : ¬ (nLevels + 1 ≤ nLevels) := by omega
  simp [Pc, this]

theorem Pc_term (f : Nat) : Pc f (nLevels + 2) = termP (exprP f) := by
  have : ¬ (nLevels + 2 ≤ nLevels) := by omega
  simp [Pc, this]

/-! ### what may follow -/

/-- the rest cannot extend an expression of level ≥ c: nothing, a closing bracket or separator, or
    an operator of a looser level -/
def Stop (c : Nat) (rest : List Tok) : Prop :=
  rest = [] ∨ ∃ o r, rest = .kw o :: r ∧
    (o = ")" ∨ o = "]" ∨ o = "," ∨ ∃ i lvl, i < c ∧ binLevels[i]? = some lvl ∧ lvl.1.contains o = true)

theorem Stop.mono {c c' : Nat} {rest : List Tok} (h : Stop c rest) (hc : c ≤ c') : Stop c' rest := by
  rcases h with h | ⟨o, r, h1, h2⟩
  · exact Or.inl h
  · refine Or.inr ⟨o, r, h1, ?_⟩
    rcases h2 with h | h | h | ⟨i, lvl, hi, hl, ho⟩
    · exact Or.inl h
    · exact Or.inr (Or.inl h)
    · exact Or.inr (Or.inr (Or.inl h))
    · exact Or.inr (Or.inr (Or.inr ⟨i, lvl, Nat.lt_of_lt_of_le hi hc, hl, ho⟩))

/-- the first token of `rest`, when a keyword, is neither a bracket opener, '.', a unit nor an
    operator of level ≥ c -/
theorem Stop.head (hT : tableOK = true) {c : Nat} {rest : List Tok} (h : Stop c rest) (o : String) (r : List Tok)
    (hr : rest = .kw o :: r) :
    o ≠ "." ∧ o ≠ "[" ∧ o ≠ "(" ∧ unitKeywords.contains o = false ∧
    (∀ j lvl, c ≤ j → binLevels[j]? = some lvl → lvl.1.contains o = false) := by
  rcases h with h | ⟨o', r', h1, h2⟩
  · rw [h] at hr; cases hr
  · rw [h1] at hr
    cases hr
    rcases h2 with h | h | h | ⟨i, lvl, hi, hl, ho⟩
    · subst h
      refine ⟨by decide, by decide, by decide, by decide, ?_⟩
      intro j lvl _ hj
      cases hc : lvl.1.contains ")" with
      | false => rfl
      | true => have := (op_not_special hT j lvl hj ")" hc).1; simp [specialToks] at this
    · subst h
      refine ⟨by decide, by decide, by decide, by decide, ?_⟩
      intro j lvl _ hj
      cases hc : lvl.1.contains "]" with
      | false => rfl
      | true => have := (op_not_special hT j lvl hj "]" hc).1; simp [specialToks] at this
    · subst h
      refine ⟨by decide, by decide, by decide, by decide, ?_⟩
      intro j lvl _ hj
      cases hc : lvl.1.contains "," with
      | false => rfl
      | true => have := (op_not_special hT j lvl hj "," hc).1; simp [specialToks] at this
    · have hs := op_not_special hT i lvl hl o ho
      have hne : ∀ x, x ∈ specialToks → o ≠ x := by
        intro x hx e; subst e
        have : specialToks.contains o = true := by simpa using hx
        rw [hs.1] at this; cases this
      refine ⟨hne "." (by simp [specialToks]), hne "[" (by simp [specialToks]), hne "(" (by simp [specialToks]), hs.2, ?_⟩
      intro j lvl' hcj hj
      cases hc : lvl'.1.contains o with
      | false => rfl
      | true =>
        have := ops_disjoint hT i j lvl lvl' hl hj o ho hc
        omega

end FP.Lemmas.Syntax

namespace FP.Lemmas.Syntax
open FP FP.Model.Syntax

/-! ### the trees of the round-trip theorem -/

/-- an argument list (not empty) whose minimal rendering `e₁ , e₂ , …` is read back by the argument
    parser, with nesting fuel from its depth; stated on the parser so that `Inv`/`Atom`/`Core` stay
    plain inductive predicates — `core_of_wf` (FP.Lemmas.SyntaxFull) shows that every list of core
    trees has it -/
def ArgsOK (as : Ex) : Prop :=
  as ≠ .argNil ∧ depth as ≤ (printArgs as).length + 1 ∧ printArgs as ≠ [] ∧ (∀ r, printArgs as ≠ .kw ")" :: r) ∧
  ∀ f k rest, 2 * depth as ≤ f → (printArgs as).length ≤ k →
    argsP (exprP f) k (printArgs as ++ .kw ")" :: rest) = some (as, .kw ")" :: rest)

/-- invocations: member, $this/$index/$total, function without arguments, function with arguments -/
inductive Inv : Ex → Prop where
  | member (n : String) : Inv (.member n)
  | this : Inv (.special "$this")
  | index : Inv (.special "$index")
  | total : Inv (.special "$total")
  | call0 (n : String) : Inv (.call n .argNil)
  | callArgs (n : String) (as : Ex) (h : ArgsOK as) : Inv (.call n as)

/-- terms that are a fixed token sequence -/
inductive Atom : Ex → Prop where
  | num (n : String) : Atom (.lit (.num n))
  | str (s : String) : Atom (.lit (.str s))
  | temporal (s : String) : Atom (.lit (.temporal s))
  | tt : Atom (.lit (.kw "true"))
  | ff : Atom (.lit (.kw "false"))
  | null : Atom (.lit (.kw "{}"))
  | qtyStr (n s : String) : Atom (.qty n (.str s))
  | qtyUnit (n u : String) (h : unitKeywords.contains u = true) : Atom (.qty n (.kw u))
  | ext (n : String) : Atom (.ext n)
  | inv (e : Ex) (h : Inv e) : Atom e

/-- expression trees over atoms, every operator of the level table, polarity, type operators,
    member/function invocation and indexers -/
inductive Core : Ex → Prop where
  | atom (e : Ex) (h : Atom e) : Core e
  | bin (o : String) (l r : Ex) (ho : levelIdx o false < nLevels) (hl : Core l) (hr : Core r) : Core (.bin o l r)
  | typ (o : String) (e : Ex) (q : List String) (ho : levelIdx o true < nLevels) (hq : q ≠ []) (he : Core e) : Core (.typ o e q)
  | pol (s : String) (e : Ex) (hs : s = "+" ∨ s = "-") (he : Core e) : Core (.pol s e)
  | dot (e i : Ex) (he : Core e) (hi : Inv i) : Core (.dot e i)
  | idx (e i : Ex) (he : Core e) (hi : Core i) : Core (.idx e i)

theorem inv_parse (f : Nat) (i : Ex) (hi : Inv i) (c : Nat) (rest : List Tok) (hf : 2 * depth i ≤ f + 2)
    (hrest : ∀ r, rest ≠ .kw "(" :: r) : invocationP (exprP f) (printAt c i ++ rest) = some (i, rest) := by
  cases hi with
  | member n =>
    simp only [printAt, List.cons_append, List.nil_append]
    rcases rest with _ | ⟨t, r⟩
    · simp [invocationP, isIdentTok]
    · cases t with
      | kw s =>
        have hs : s ≠ "(" := by intro e'; subst e'; exact hrest r rfl
        simp [invocationP, isIdentTok, hs]
      | _ => simp [invocationP, isIdentTok]
  | this => simp [printAt, invocationP]
  | index => simp [printAt, invocationP]
  | total => simp [printAt, invocationP]
  | call0 n => simp [printAt, printArgs, invocationP, isIdentTok]
  | callArgs n as h =>
    obtain ⟨_, _, hne, hcl, hparse⟩ := h
    simp only [depth] at hf
    have hargs := hparse f (printArgs as ++ .kw ")" :: rest).length rest (by omega) (by simp)
    simp only [printAt, List.cons_append, List.append_assoc, List.nil_append]
    generalize hAS : printArgs as = AS at hne hcl hargs
    cases AS with
    | nil => exact absurd rfl hne
    | cons a AS' =>
      have hcl' : a ≠ .kw ")" := by intro h; exact hcl AS' (by rw [h])
      simp only [List.cons_append] at hargs ⊢
      unfold invocationP
      simp only [isIdentTok]
      split
      · rename_i heq; simp at heq; exact absurd heq.1 hcl'
      · rename_i r1 heq
        simp only [List.cons.injEq, true_and] at heq
        subst heq
        simp only [hargs]
      · rename_i h1 h2
        exact absurd rfl (h2 _)

end FP.Lemmas.Syntax

namespace FP.Lemmas.Syntax
open FP FP.Model.Syntax

/-- what may follow a term without being absorbed by it -/
def RestOK (rest : List Tok) : Prop :=
  (∀ r, rest ≠ .kw "(" :: r) ∧ (∀ s r, rest ≠ .str s :: r) ∧ (∀ u r, rest = .kw u :: r → unitKeywords.contains u = false)

theorem restOK_of_stop (hT : tableOK = true) {c : Nat} {rest : List Tok} (h : Stop c rest) : RestOK rest := by
  refine ⟨?_, ?_, ?_⟩
  · intro r hr
    exact (Stop.head hT h "(" r hr).2.2.1 rfl
  · intro s r hr
    rcases h with h | ⟨o, r', h1, _⟩
    · rw [h] at hr; cases hr
    · rw [h1] at hr; cases hr
  · intro u r hr
    exact (Stop.head hT h u r hr).2.2.2.1

theorem atom_term (f : Nat) (a : Ex) (ha : Atom a) (c : Nat) (rest : List Tok) (hf : 2 * depth a ≤ f + 2) (hr : RestOK rest) :
    termP (exprP f) (printAt c a ++ rest) = some (a, rest) := by
  obtain ⟨h1, h2, h3⟩ := hr
  cases ha with
  | num n =>
    simp only [printAt, List.cons_append, List.nil_append]
    rcases rest with _ | ⟨t, r⟩
    · simp [termP]
    · cases t with
      | kw u =>
        have hu : ¬ u ∈ unitKeywords := by have := h3 u r rfl; simpa using this
        simp [termP, hu]
      | str s => exact absurd rfl (h2 s r)
      | _ => simp [termP]
  | str s => simp [printAt, termP]
  | temporal s => simp [printAt, termP]
  | tt => simp [printAt, termP]
  | ff => simp [printAt, termP]
  | null => simp [printAt, termP]
  | qtyStr n s => simp [printAt, termP]
  | qtyUnit n u h =>
    have hu : u ∈ unitKeywords := by simpa using h
    simp [printAt, termP, hu]
  | ext n => simp [printAt, termP, isIdentTok]
  | inv _ hi =>
    have := inv_parse f a hi c rest hf h1
    cases hi with
    | member n => simpa [printAt, termP] using this
    | this => simpa [printAt, termP] using this
    | index => simpa [printAt, termP] using this
    | total => simpa [printAt, termP] using this
    | call0 n => simpa [printAt, printArgs, termP] using this
    | callArgs n as h => simpa [printAt, termP] using this

end FP.Lemmas.Syntax

namespace FP.Lemmas.Syntax
open FP FP.Model.Syntax

def stepAt (f i : Nat) (lvl : List String × Bool) : Step :=
  if lvl.2 then stepTyp lvl.1 (Cc f (i + 1)) else stepBin lvl.1 (Pc f (i + 1))

theorem lvl_lt' (i : Nat) (lvl : List String × Bool) (hl : binLevels[i]? = some lvl) : i < nLevels := by
  rcases Nat.lt_or_ge i binLevels.length with h1 | h1
  · exact h1
  · rw [List.getElem?_eq_none h1] at hl; cases hl

theorem stepAt_eq (f c : Nat) (lvl : List String × Bool) (h : binLevels[c]? = some lvl) :
    levelStep lvl (Lc f (c + 1)) = stepAt f c lvl := by
  have h2 : c + 1 ≤ nLevels := lvl_lt' c lvl h
  unfold levelStep stepAt Cc Pc
  simp only [h2, if_true]

theorem Pc_levelG (f c : Nat) (lvl : List String × Bool) (h : binLevels[c]? = some lvl) :
    Pc f c = levelG (stepAt f c lvl) (Pc f (c + 1)) := by
  have h1 : c ≤ nLevels := Nat.le_of_lt (lvl_lt' c lvl h)
  have h2 : c + 1 ≤ nLevels := lvl_lt' c lvl h
  rw [← stepAt_eq f c lvl h]
  simp only [Pc, h1, h2, if_true, Lc_level f c lvl h]

theorem Cc_level (f c : Nat) (lvl : List String × Bool) (h : binLevels[c]? = some lvl) :
    Cc f c = contThen (Cc f (c + 1)) (stepAt f c lvl) := by
  rw [← stepAt_eq f c lvl h]
  simp only [Cc, Lc_level f c lvl h]

theorem Cc_unary (f : Nat) : Cc f nLevels = fun ts => loopB (stepPostfix (exprP f)) ts.length ts := by
  simp [Cc, Lc, levelsL, nLevels]

theorem stepAt_none (f i : Nat) (lvl : List String × Bool) (o : String) (h : lvl.1.contains o = false) :
    stepAt f i lvl o = none := by
  have hm : ¬ o ∈ lvl.1 := by simpa using h
  unfold stepAt stepTyp stepBin
  split <;> simp [hm]

theorem noTrigger_level (hT : tableOK = true) (f c : Nat) (lvl : List String × Bool) (hl : binLevels[c]? = some lvl)
    (rest : List Tok) (hs : Stop c rest) : NoTrigger (stepAt f c lvl) rest := by
  intro o r hr
  exact stepAt_none f c lvl o ((Stop.head hT hs o r hr).2.2.2.2 c lvl (Nat.le_refl _) hl)

theorem noTrigger_postfix (hT : tableOK = true) (e : Parser) (c : Nat) (rest : List Tok) (hs : Stop c rest) :
    NoTrigger (stepPostfix e) rest := by
  intro o r hr
  have := Stop.head hT hs o r hr
  simp [stepPostfix, this.1, this.2.1]

theorem termP_nil (e : Parser) : termP e [] = none := by simp [termP, invocationP]

/-- a loop that is not triggered builds nothing -/
theorem loopB_stop (step : Step) (ts : List Tok) (h : NoTrigger step ts) (k : Nat) : loopB step k ts = some (id, ts) := by
  cases k with
  | zero =>
    unfold loopB
    split
    · rename_i o r; simp [h o r rfl]
    · rfl
  | succ k =>
    unfold loopB
    split
    · rename_i o r; simp [h o r rfl]
    · rfl

/-- nothing that can follow an expression of level ≥ c continues it: the continuation after a
    suffix operator is empty on minimal renderings -/
theorem Cc_stop (hT : tableOK = true) (f : Nat) (d c : Nat) (hc : c + d = nLevels) (rest : List Tok) (hs : Stop c rest) :
    Cc f c rest = some (id, rest) := by
  induction d generalizing c with
  | zero =>
    have : c = nLevels := by omega
    subst this
    rw [Cc_unary]
    exact loopB_stop _ _ (noTrigger_postfix hT _ _ rest hs) _
  | succ d ih =>
    have hcN : c < nLevels := by omega
    obtain ⟨lvl, hl⟩ : ∃ lvl, binLevels[c]? = some lvl := ⟨binLevels[c], List.getElem?_eq_getElem hcN⟩
    rw [Cc_level f c lvl hl]
    unfold contThen
    rw [ih (c + 1) (by omega) (hs.mono (Nat.le_succ _))]
    simp only [loopB_stop _ _ (noTrigger_level hT f c lvl hl rest hs), Option.map_some]
    rfl

/-- a result at a tighter level is the result at a looser level when nothing can extend it and
    no sign precedes it -/
theorem descend (hT : tableOK = true) (f : Nat) (d c : Nat) (hc : c + d ≤ nLevels + 2) (X rest : List Tok) (t : Ex)
    (hres : Pc f (c + d) X = some (t, rest)) (hs : Stop c rest)
    (hsign : nLevels < c + d → ∀ r, X ≠ .kw "+" :: r ∧ X ≠ .kw "-" :: r) : Pc f c X = some (t, rest) := by
  induction d generalizing c with
  | zero => simpa using hres
  | succ d ih =>
    have h1 : Pc f (c + 1) X = some (t, rest) := by
      apply ih (c + 1) (by omega) (by rw [Nat.add_assoc, Nat.add_comm 1 d]; exact hres) (hs.mono (Nat.le_succ _))
      intro h; exact hsign (by omega)
    by_cases hcN : c < nLevels
    · -- a binary / type level
      obtain ⟨lvl, hl⟩ : ∃ lvl, binLevels[c]? = some lvl := ⟨binLevels[c], List.getElem?_eq_getElem hcN⟩
      rw [Pc_levelG f c lvl hl]
      exact levelG_of _ _ X t rest 0 (t, rest) h1 (loops_stop _ _ _ (noTrigger_level hT f c lvl hl rest hs)) (Nat.zero_le _)
    · by_cases hcU : c = nLevels
      · -- polarity
        subst hcU
        rw [Pc_unary]
        rw [Pc_post] at h1
        unfold unaryP
        rcases X with _ | ⟨x, xs⟩
        · simp [postfixP, levelG, termP_nil] at h1
        · simp only [List.length_cons, unary]
          have hsign' := hsign (by omega)
          split
          · rename_i r heq; exact absurd heq (hsign' r).1
          · rename_i r heq; exact absurd heq (hsign' r).2
          · exact h1
      · -- postfix
        have hcP : c = nLevels + 1 := by omega
        subst hcP
        rw [Pc_post]
        rw [Pc_term] at h1
        exact levelG_of _ _ X t rest 0 (t, rest) h1 (loops_stop _ _ _ (noTrigger_postfix hT _ _ rest hs)) (Nat.zero_le _)

end FP.Lemmas.Syntax

namespace FP.Lemmas.Syntax
open FP FP.Model.Syntax

/-- enough nesting fuel: two per tree level, one less when no parentheses are printed at c -/
def fuelOK (c : Nat) (t : Ex) (f : Nat) : Prop := if levelOf t < c then 2 * depth t ≤ f else 2 * depth t ≤ f + 1

theorem depth_pos (t : Ex) : 1 ≤ depth t := by cases t <;> simp [depth]

theorem levelIdx_le (o : String) (b : Bool) : levelIdx o b ≤ nLevels + 2 := by
  unfold levelIdx
  cases h : binLevels.findIdx? (fun l => l.2 == b && l.1.contains o) with
  | none => simp
  | some i =>
    have := (List.findIdx?_eq_some_iff_getElem.mp h).1
    simp [nLevels]; omega

theorem levelOf_le (t : Ex) : levelOf t ≤ nLevels + 2 := by
  cases t <;> simp [levelOf, levelIdx_le]

/-- the level's own operators -/
theorem levelIdx_spec (o : String) (b : Bool) (h : levelIdx o b < nLevels) :
    ∃ lvl, binLevels[levelIdx o b]? = some lvl ∧ lvl.2 = b ∧ lvl.1.contains o = true := by
  unfold levelIdx at h ⊢
  generalize hf : binLevels.findIdx? (fun l => l.2 == b && l.1.contains o) = res at h ⊢
  cases res with
  | none => simp at h; omega
  | some i =>
    obtain ⟨hlt, hp, _⟩ := List.findIdx?_eq_some_iff_getElem.mp hf
    simp only [Option.getD_some]
    refine ⟨binLevels[i], List.getElem?_eq_getElem hlt, ?_, ?_⟩
    · simp only [Bool.and_eq_true, beq_iff_eq] at hp; exact hp.1
    · simp only [Bool.and_eq_true] at hp; exact hp.2

/-- printing at a context: the body at the tree's own level, parenthesised when the context is tighter -/
theorem printAt_paren (t : Ex) (hc : Core t) (c : Nat) (hcle : c ≤ nLevels + 2) :
    printAt c t = paren (decide (levelOf t < c)) (printAt (levelOf t) t) := by
  cases hc with
  | atom _ ha =>
    have hl : ∀ a, Atom a → levelOf a = nLevels + 2 := by
      intro a h; cases h <;> (try rfl)
      rename_i hi; cases hi <;> rfl
    have hlt : ¬ (levelOf t < c) := by rw [hl t ha]; omega
    simp only [hlt, decide_false, paren, Bool.false_eq_true, if_false]
    cases ha <;> (try simp [printAt, levelOf])
    rename_i hi; cases hi <;> simp [printAt, levelOf]
  | bin o l r ho hl hr => by_cases h : levelIdx o false < c <;> simp [printAt, levelOf, paren, h]
  | typ o e q ho hq he => by_cases h : levelIdx o true < c <;> simp [printAt, levelOf, paren, h]
  | pol s e hs he => by_cases h : nLevels < c <;> simp [printAt, levelOf, paren, h]
  | dot e i he hi => by_cases h : nLevels + 1 < c <;> simp [printAt, levelOf, paren, h]
  | idx e i he hi => by_cases h : nLevels + 1 < c <;> simp [printAt, levelOf, paren, h]

/-- what a rendering at a postfix or term context starts with is not a sign -/
theorem head_not_sign (t : Ex) (hc : Core t) (c : Nat) (hcN : nLevels < c) (hcle : c ≤ nLevels + 2) (rest r : List Tok) :
    printAt c t ++ rest ≠ .kw "+" :: r ∧ printAt c t ++ rest ≠ .kw "-" :: r := by
  induction hc generalizing c rest r with
  | atom e ha =>
    cases ha <;> (try (simp [printAt]))
    rename_i hi; cases hi <;> simp [printAt]
  | bin o l r' ho hl hr _ _ =>
    have : levelIdx o false < c := by omega
    simp [printAt, paren, this]
  | typ o e q ho hq he _ =>
    have : levelIdx o true < c := by omega
    simp [printAt, paren, this]
  | pol s e hs he _ => simp [printAt, paren, hcN]
  | dot e i he hi ih =>
    by_cases hp : nLevels + 1 < c
    · simp [printAt, paren, hp]
    · simp only [printAt, paren, hp, decide_false, Bool.false_eq_true, if_false, List.append_assoc]
      exact ih (nLevels + 1) (by omega) (by omega) _ r
  | idx e i he hi ih _ =>
    by_cases hp : nLevels + 1 < c
    · simp [printAt, paren, hp]
    · simp only [printAt, paren, hp, decide_false, Bool.false_eq_true, if_false, List.append_assoc]
      exact ih (nLevels + 1) (by omega) (by omega) _ r

end FP.Lemmas.Syntax

namespace FP.Lemmas.Syntax
open FP FP.Model.Syntax

/-- the three facts carried through the induction over trees -/
structure Good (t : Ex) : Prop where
  rt : ∀ c f rest, c ≤ nLevels + 2 → fuelOK c t f → Stop c rest → Pc f c (printAt c t ++ rest) = some (t, rest)
  gl : ∀ i lvl f rest2 res k0, binLevels[i]? = some lvl → fuelOK i t f → Stop (i + 1) rest2 →
        LoopsTo (stepAt f i lvl) k0 t rest2 res → k0 ≤ rest2.length →
        ∃ x r k1, Pc f (i + 1) (printAt i t ++ rest2) = some (x, r) ∧ LoopsTo (stepAt f i lvl) k1 x r res ∧ k1 ≤ r.length
  gp : ∀ f rest2 res k0, fuelOK (nLevels + 1) t f → RestOK rest2 →
        LoopsTo (stepPostfix (exprP f)) k0 t rest2 res → k0 ≤ rest2.length →
        ∃ x r k1, termP (exprP f) (printAt (nLevels + 1) t ++ rest2) = some (x, r) ∧
          LoopsTo (stepPostfix (exprP f)) k1 x r res ∧ k1 ≤ r.length

theorem stop_close (c : Nat) (rest : List Tok) : Stop c (.kw ")" :: rest) := Or.inr ⟨")", rest, rfl, Or.inl rfl⟩
theorem stop_bracket (c : Nat) (rest : List Tok) : Stop c (.kw "]" :: rest) := Or.inr ⟨"]", rest, rfl, Or.inr (Or.inl rfl)⟩

/-- from the parse at the tree's own level to every context -/
theorem rt_of_core (hT : tableOK = true) (t : Ex) (hcore : Core t)
    (core : ∀ f rest, 2 * depth t ≤ f + 1 → Stop (levelOf t) rest →
      Pc f (levelOf t) (printAt (levelOf t) t ++ rest) = some (t, rest)) :
    ∀ c f rest, c ≤ nLevels + 2 → fuelOK c t f → Stop c rest → Pc f c (printAt c t ++ rest) = some (t, rest) := by
  have hle := levelOf_le t
  have unpar : ∀ c f rest, c ≤ levelOf t → 2 * depth t ≤ f + 1 → Stop c rest →
      Pc f c (printAt (levelOf t) t ++ rest) = some (t, rest) := by
    intro c f rest hc hf hs
    obtain ⟨d, hd⟩ : ∃ d, levelOf t = c + d := ⟨levelOf t - c, by omega⟩
    apply descend hT f d c (by omega) _ rest t (by rw [← hd]; exact core f rest hf (hs.mono hc)) hs
    intro hN r
    exact head_not_sign t hcore (levelOf t) (by omega) hle rest r
  intro c f rest hc hf hs
  rw [printAt_paren t hcore c hc]
  by_cases hlt : levelOf t < c
  · simp only [fuelOK, hlt, if_true] at hf
    have hdp := depth_pos t
    obtain ⟨f', hf'⟩ : ∃ f', f = f' + 1 := ⟨f - 1, by omega⟩
    subst hf'
    have inner := unpar 0 f' (.kw ")" :: rest) (Nat.zero_le _) (by omega) (stop_close 0 rest)
    have hterm : Pc (f' + 1) (nLevels + 2) (.kw "(" :: (printAt (levelOf t) t ++ .kw ")" :: rest)) = some (t, rest) := by
      rw [Pc_term]
      simp only [termP, exprP_succ, inner]
    simp only [hlt, decide_true, paren, if_true, List.cons_append, List.append_assoc, List.nil_append]
    obtain ⟨d, hd⟩ : ∃ d, nLevels + 2 = c + d := ⟨nLevels + 2 - c, by omega⟩
    apply descend hT (f' + 1) d c (by omega) _ rest t (by rw [← hd]; exact hterm) hs
    intro _ r
    simp
  · simp only [fuelOK, hlt, if_false] at hf
    simp only [hlt, decide_false, paren, Bool.false_eq_true, if_false]
    exact unpar c f rest (by omega) hf hs

end FP.Lemmas.Syntax

namespace FP.Lemmas.Syntax
open FP FP.Model.Syntax

abbrev RT (t : Ex) : Prop :=
  ∀ c f rest, c ≤ nLevels + 2 → fuelOK c t f → Stop c rest → Pc f c (printAt c t ++ rest) = some (t, rest)

theorem atom_level (a : Ex) (h : Atom a) : levelOf a = nLevels + 2 := by
  cases h <;> (try rfl)
  rename_i hi; cases hi <;> rfl

theorem nonatom_level (t : Ex) (hc : Core t) (hna : ¬ Atom t) : levelOf t < nLevels + 2 := by
  cases hc with
  | atom _ ha => exact absurd ha hna
  | bin o l r ho _ _ => simp [levelOf]; omega
  | typ o e q ho _ _ => simp [levelOf]; omega
  | pol s e _ _ => simp [levelOf]
  | dot e i _ _ => simp [levelOf]
  | idx e i _ _ => simp [levelOf]

/-- a term: an atom as it stands, anything else in parentheses -/
theorem term_any (t : Ex) (hcore : Core t) (rt : RT t) (f : Nat) (rest2 : List Tok)
    (hf : fuelOK (nLevels + 2) t f) (hr : RestOK rest2) :
    termP (exprP f) (printAt (nLevels + 2) t ++ rest2) = some (t, rest2) := by
  by_cases ha : Atom t
  · have hlv := atom_level t ha
    simp only [fuelOK, hlv, Nat.lt_irrefl, if_false] at hf
    exact atom_term _ t ha _ rest2 (by omega) hr
  · have hlt := nonatom_level t hcore ha
    simp only [fuelOK, hlt, if_true] at hf
    have hdp := depth_pos t
    obtain ⟨f', hf'⟩ : ∃ f', f = f' + 1 := ⟨f - 1, by omega⟩
    subst hf'
    rw [printAt_paren t hcore _ (Nat.le_refl _)]
    simp only [hlt, decide_true, paren, if_true, List.cons_append, List.append_assoc, List.nil_append]
    have h0 := rt 0 f' (.kw ")" :: rest2) (Nat.zero_le _) (by simp [fuelOK]; omega) (stop_close 0 rest2)
    rw [printAt_paren t hcore 0 (Nat.zero_le _)] at h0
    simp only [Nat.not_lt_zero, decide_false, paren, Bool.false_eq_true, if_false] at h0
    simp only [termP, exprP_succ, h0]

theorem printAt_succ (t : Ex) (hcore : Core t) (i : Nat) (hi : i + 1 ≤ nLevels + 2) (hne : levelOf t ≠ i) :
    printAt i t = printAt (i + 1) t := by
  rw [printAt_paren t hcore i (by omega), printAt_paren t hcore (i + 1) hi]
  have : decide (levelOf t < i) = decide (levelOf t < i + 1) := by
    by_cases h : levelOf t < i
    · have : levelOf t < i + 1 := by omega
      simp [h, this]
    · have : ¬ levelOf t < i + 1 := by omega
      simp [h, this]
  rw [this]

theorem fuelOK_succ (t : Ex) (i f : Nat) (hne : levelOf t ≠ i) (h : fuelOK i t f) : fuelOK (i + 1) t f := by
  unfold fuelOK at *
  by_cases h1 : levelOf t < i
  · have : levelOf t < i + 1 := by omega
    simp [h1, this] at *; exact h
  · have : ¬ levelOf t < i + 1 := by omega
    simp [h1, this] at *; exact h

/-- a tree that is not an operator application of level i is an operand of that level as it stands -/
theorem gl_default (t : Ex) (hcore : Core t) (rt : RT t) (i : Nat) (lvl : List String × Bool) (f : Nat) (rest2 : List Tok)
    (res : Ex × List Tok) (k0 : Nat) (hl : binLevels[i]? = some lvl) (hne : levelOf t ≠ i) (hf : fuelOK i t f)
    (hs : Stop (i + 1) rest2) (hloop : LoopsTo (stepAt f i lvl) k0 t rest2 res) (hk : k0 ≤ rest2.length) :
    ∃ x r k1, Pc f (i + 1) (printAt i t ++ rest2) = some (x, r) ∧ LoopsTo (stepAt f i lvl) k1 x r res ∧ k1 ≤ r.length := by
  have hi : i < nLevels := by
    rcases Nat.lt_or_ge i binLevels.length with h1 | h1
    · exact h1
    · rw [List.getElem?_eq_none h1] at hl; cases hl
  refine ⟨t, rest2, k0, ?_, hloop, hk⟩
  rw [printAt_succ t hcore i (by omega) hne]
  exact rt (i + 1) f rest2 (by omega) (fuelOK_succ t i f hne hf) hs

theorem gp_default (t : Ex) (hcore : Core t) (rt : RT t) (f : Nat) (rest2 : List Tok) (res : Ex × List Tok) (k0 : Nat)
    (hne : levelOf t ≠ nLevels + 1) (hf : fuelOK (nLevels + 1) t f) (hr : RestOK rest2)
    (hloop : LoopsTo (stepPostfix (exprP f)) k0 t rest2 res) (hk : k0 ≤ rest2.length) :
    ∃ x r k1, termP (exprP f) (printAt (nLevels + 1) t ++ rest2) = some (x, r) ∧
      LoopsTo (stepPostfix (exprP f)) k1 x r res ∧ k1 ≤ r.length := by
  refine ⟨t, rest2, k0, ?_, hloop, hk⟩
  rw [printAt_succ t hcore (nLevels + 1) (by omega) hne]
  exact term_any t hcore rt f rest2 (fuelOK_succ t _ f hne hf) hr

end FP.Lemmas.Syntax

namespace FP.Lemmas.Syntax
open FP FP.Model.Syntax

theorem qualified_parse (q : List String) (hq : q ≠ []) (rest2 : List Tok) (hr : ∀ r, rest2 ≠ .kw "." :: r)
    (hp : ∀ r, rest2 ≠ .kw "(" :: r) (k : Nat)
    (hk : q.length ≤ k) : qualified k (qualToks q ++ rest2) = some (q, rest2) := by
  induction q generalizing k with
  | nil => exact absurd rfl hq
  | cons n q' ih =>
    cases k with
    | zero => simp at hk
    | succ k =>
      cases q' with
      | nil =>
        simp only [qualToks, List.cons_append, List.nil_append, qualified, isIdentTok]
        rcases rest2 with _ | ⟨t, r⟩
        · rfl
        · cases t with
          | kw s =>
            have hs : s ≠ "." := by intro e; subst e; exact hr r rfl
            rcases r with _ | ⟨t2, r2⟩ <;> simp [hs]
          | _ => rfl
      | cons m q'' =>
        have ih' := ih (by simp) k (by simp at hk ⊢; omega)
        have hq2 : ∃ tl, qualToks (m :: q'') = .ident m :: tl ∧ startsParen (tl ++ rest2) = false := by
          cases q'' with
          | nil =>
            refine ⟨[], rfl, ?_⟩
            rcases rest2 with _ | ⟨t, r⟩
            · rfl
            · cases t with
              | kw s =>
                have hs : s ≠ "(" := by intro e; subst e; exact hp r rfl
                simp [startsParen, hs]
              | _ => rfl
          | cons a b => exact ⟨_, rfl, rfl⟩
        obtain ⟨tl, htl, hsp⟩ := hq2
        have e1 : qualToks (n :: m :: q'') = .ident n :: .kw "." :: qualToks (m :: q'') := rfl
        rw [e1]
        rw [htl] at ih' ⊢
        simp only [List.cons_append] at ih' ⊢
        simp only [qualified, isIdentTok, Option.isSome_some, hsp, Bool.not_false, Bool.and_self, if_true, ih']

end FP.Lemmas.Syntax

namespace FP.Lemmas.Syntax
open FP FP.Model.Syntax

theorem lvl_lt (i : Nat) (lvl : List String × Bool) (hl : binLevels[i]? = some lvl) : i < nLevels := by
  rcases Nat.lt_or_ge i binLevels.length with h1 | h1
  · exact h1
  · rw [List.getElem?_eq_none h1] at hl; cases hl

/-! ### atoms -/

theorem good_atom (hT : tableOK = true) (a : Ex) (ha : Atom a) : Good a := by
  have hcore : Core a := Core.atom a ha
  have hlv := atom_level a ha
  have rt : RT a := by
    apply rt_of_core hT a hcore
    intro f rest hf hs
    rw [hlv, Pc_term]
    exact atom_term _ a ha _ rest (by omega) (restOK_of_stop hT hs)
  refine ⟨rt, ?_, ?_⟩
  · intro i lvl f rest2 res k0 hl hf hs hloop hk
    have := lvl_lt i lvl hl
    exact gl_default a hcore rt i lvl f rest2 res k0 hl (by omega) hf hs hloop hk
  · intro f rest2 res k0 hf hr hloop hk
    exact gp_default a hcore rt f rest2 res k0 (by omega) hf hr hloop hk

/-! ### polarity -/

theorem good_pol (hT : tableOK = true) (s : String) (e : Ex) (hs : s = "+" ∨ s = "-") (he : Core e) (ge : Good e) :
    Good (.pol s e) := by
  have hcore : Core (.pol s e) := Core.pol s e hs he
  have rt : RT (.pol s e) := by
    apply rt_of_core hT _ hcore
    intro f rest hf hst
    have hlv : levelOf (.pol s e) = nLevels := rfl
    rw [hlv]
    have hinner := ge.rt nLevels f rest (by omega) (by
      simp only [depth] at hf
      unfold fuelOK; split <;> omega) hst
    rw [Pc_unary] at hinner ⊢
    have hp : printAt nLevels (.pol s e) = .kw s :: printAt nLevels e := by simp [printAt, paren]
    rw [hp]
    unfold unaryP at hinner ⊢
    simp only [List.cons_append, List.length_cons]
    rcases hs with h | h <;> subst h <;> simp only [unary, hinner, Option.map_some]
  refine ⟨rt, ?_, ?_⟩
  · intro i lvl f rest2 res k0 hl hf hst hloop hk
    have := lvl_lt i lvl hl
    exact gl_default _ hcore rt i lvl f rest2 res k0 hl (by simp [levelOf]; omega) hf hst hloop hk
  · intro f rest2 res k0 hf hr hloop hk
    exact gp_default _ hcore rt f rest2 res k0 (by simp [levelOf]) hf hr hloop hk

end FP.Lemmas.Syntax

namespace FP.Lemmas.Syntax
open FP FP.Model.Syntax

/-! ### postfix: invocation and indexer -/

theorem restOK_dot (r : List Tok) : RestOK (.kw "." :: r) := by
  refine ⟨?_, ?_, ?_⟩
  · intro r' h; simp at h
  · intro s r' h; simp at h
  · intro u r' h
    simp only [List.cons.injEq, Tok.kw.injEq] at h
    rw [← h.1]; decide

theorem restOK_bracket (r : List Tok) : RestOK (.kw "[" :: r) := by
  refine ⟨?_, ?_, ?_⟩
  · intro r' h; simp at h
  · intro s r' h; simp at h
  · intro u r' h
    simp only [List.cons.injEq, Tok.kw.injEq] at h
    rw [← h.1]; decide

/-- core of a postfix tree from its chain fact -/
theorem postfix_core (hT : tableOK = true) (t : Ex) (hlv : levelOf t = nLevels + 1)
    (gp : ∀ f rest2 res k0, fuelOK (nLevels + 1) t f → RestOK rest2 →
        LoopsTo (stepPostfix (exprP f)) k0 t rest2 res → k0 ≤ rest2.length →
        ∃ x r k1, termP (exprP f) (printAt (nLevels + 1) t ++ rest2) = some (x, r) ∧
          LoopsTo (stepPostfix (exprP f)) k1 x r res ∧ k1 ≤ r.length)
    (f : Nat) (rest : List Tok) (hf : 2 * depth t ≤ f + 1) (hs : Stop (levelOf t) rest) :
    Pc f (levelOf t) (printAt (levelOf t) t ++ rest) = some (t, rest) := by
  rw [hlv] at hs ⊢
  obtain ⟨x, r, k1, h1, h2, h3⟩ := gp f rest (t, rest) 0 (by unfold fuelOK; simp [hlv]; exact hf)
    (restOK_of_stop hT hs) (loops_stop _ _ _ (noTrigger_postfix hT _ _ rest hs)) (Nat.zero_le _)
  rw [Pc_post]
  exact levelG_of _ _ _ x r k1 (t, rest) h1 h2 h3

theorem good_dot (hT : tableOK = true) (e i : Ex) (he : Core e) (hi : Inv i) (ge : Good e) : Good (.dot e i) := by
  have hcore : Core (.dot e i) := Core.dot e i he hi
  have hlv : levelOf (.dot e i) = nLevels + 1 := rfl
  have hp : printAt (nLevels + 1) (.dot e i) = printAt (nLevels + 1) e ++ .kw "." :: printAt (nLevels + 2) i := by
    simp [printAt, paren]
  have gp : ∀ f rest2 res k0, fuelOK (nLevels + 1) (.dot e i) f → RestOK rest2 →
        LoopsTo (stepPostfix (exprP f)) k0 (.dot e i) rest2 res → k0 ≤ rest2.length →
        ∃ x r k1, termP (exprP f) (printAt (nLevels + 1) (.dot e i) ++ rest2) = some (x, r) ∧
          LoopsTo (stepPostfix (exprP f)) k1 x r res ∧ k1 ≤ r.length := by
    intro f rest2 res k0 hf hr hloop hk
    have hfe : fuelOK (nLevels + 1) e f := by
      unfold fuelOK at hf ⊢
      simp only [hlv, Nat.lt_irrefl, if_false, depth] at hf
      split <;> omega
    have hstep : stepPostfix (exprP f) "." = some (dotRhs (exprP f)) := by simp [stepPostfix]
    have hrhs : dotRhs (exprP f) (printAt (nLevels + 2) i ++ rest2) = some ((fun left => Ex.dot left i), rest2) := by
      have hfi : 2 * depth i ≤ f + 2 := by
        unfold fuelOK at hf
        simp only [hlv, Nat.lt_irrefl, if_false, depth] at hf
        omega
      simp only [dotRhs, inv_parse f i hi (nLevels + 2) rest2 hfi hr.1, Option.map_some]
    have hl2 := loops_step _ "." _ hstep _ rest2 _ hrhs k0 e res hloop
    obtain ⟨x, r, k1, h1, h2, h3⟩ := ge.gp f (.kw "." :: (printAt (nLevels + 2) i ++ rest2)) res (k0 + 1) hfe
      (restOK_dot _) hl2 (by simp; omega)
    refine ⟨x, r, k1, ?_, h2, h3⟩
    rw [hp, List.append_assoc]
    exact h1
  have rt : RT (.dot e i) := rt_of_core hT _ hcore (fun f rest hf hs => postfix_core hT _ hlv gp f rest hf hs)
  refine ⟨rt, ?_, gp⟩
  intro j lvl f rest2 res k0 hl hf hst hloop hk
  have := lvl_lt j lvl hl
  exact gl_default _ hcore rt j lvl f rest2 res k0 hl (by rw [hlv]; omega) hf hst hloop hk

theorem good_idx (hT : tableOK = true) (e ix : Ex) (he : Core e) (hix : Core ix) (ge : Good e) (gix : Good ix) :
    Good (.idx e ix) := by
  have hcore : Core (.idx e ix) := Core.idx e ix he hix
  have hlv : levelOf (.idx e ix) = nLevels + 1 := rfl
  have hp : printAt (nLevels + 1) (.idx e ix) = printAt (nLevels + 1) e ++ .kw "[" :: (printAt 0 ix ++ [.kw "]"]) := by
    simp [printAt, paren]
  have gp : ∀ f rest2 res k0, fuelOK (nLevels + 1) (.idx e ix) f → RestOK rest2 →
        LoopsTo (stepPostfix (exprP f)) k0 (.idx e ix) rest2 res → k0 ≤ rest2.length →
        ∃ x r k1, termP (exprP f) (printAt (nLevels + 1) (.idx e ix) ++ rest2) = some (x, r) ∧
          LoopsTo (stepPostfix (exprP f)) k1 x r res ∧ k1 ≤ r.length := by
    intro f rest2 res k0 hf hr hloop hk
    have hf' : 2 * (max (depth e) (depth ix) + 1) ≤ f + 1 := by
      unfold fuelOK at hf
      simpa only [hlv, Nat.lt_irrefl, if_false, depth] using hf
    have hfe : fuelOK (nLevels + 1) e f := by
      unfold fuelOK; split <;> omega
    obtain ⟨f', hf'eq⟩ : ∃ f', f = f' + 1 := ⟨f - 1, by have := depth_pos e; omega⟩
    subst hf'eq
    have hinner := gix.rt 0 f' (.kw "]" :: rest2) (Nat.zero_le _) (by unfold fuelOK; simp; omega) (stop_bracket 0 rest2)
    have hstep : stepPostfix (exprP (f' + 1)) "[" = some (idxRhs (exprP (f' + 1))) := by simp [stepPostfix]
    have hrhs : idxRhs (exprP (f' + 1)) (printAt 0 ix ++ .kw "]" :: rest2) = some ((fun left => Ex.idx left ix), rest2) := by
      simp only [idxRhs, exprP_succ, hinner]
    have hl2 := loops_step _ "[" _ hstep _ rest2 _ hrhs k0 e res hloop
    obtain ⟨x, r, k1, h1, h2, h3⟩ := ge.gp (f' + 1) (.kw "[" :: (printAt 0 ix ++ .kw "]" :: rest2)) res (k0 + 1) hfe
      (restOK_bracket _) hl2 (by simp; omega)
    refine ⟨x, r, k1, ?_, h2, h3⟩
    rw [hp]
    simp only [List.append_assoc, List.cons_append, List.nil_append]
    exact h1
  have rt : RT (.idx e ix) := rt_of_core hT _ hcore (fun f rest hf hs => postfix_core hT _ hlv gp f rest hf hs)
  refine ⟨rt, ?_, gp⟩
  intro j lvl f rest2 res k0 hl hf hst hloop hk
  have := lvl_lt j lvl hl
  exact gl_default _ hcore rt j lvl f rest2 res k0 hl (by rw [hlv]; omega) hf hst hloop hk

end FP.Lemmas.Syntax

namespace FP.Lemmas.Syntax
open FP FP.Model.Syntax

/-! ### binary and type levels -/

/-- core of an operator application of level i from its chain fact -/
theorem level_core (hT : tableOK = true) (t : Ex) (i : Nat) (lvl : List String × Bool) (hl : binLevels[i]? = some lvl)
    (hlv : levelOf t = i)
    (gl : ∀ f rest2 res k0, fuelOK i t f → Stop (i + 1) rest2 → LoopsTo (stepAt f i lvl) k0 t rest2 res → k0 ≤ rest2.length →
        ∃ x r k1, Pc f (i + 1) (printAt i t ++ rest2) = some (x, r) ∧ LoopsTo (stepAt f i lvl) k1 x r res ∧ k1 ≤ r.length)
    (f : Nat) (rest : List Tok) (hf : 2 * depth t ≤ f + 1) (hs : Stop (levelOf t) rest) :
    Pc f (levelOf t) (printAt (levelOf t) t ++ rest) = some (t, rest) := by
  rw [hlv] at hs ⊢
  obtain ⟨x, r, k1, h1, h2, h3⟩ := gl f rest (t, rest) 0 (by unfold fuelOK; simp [hlv]; exact hf)
    (hs.mono (Nat.le_succ _)) (loops_stop _ _ _ (noTrigger_level hT f i lvl hl rest hs)) (Nat.zero_le _)
  rw [Pc_levelG f i lvl hl]
  exact levelG_of _ _ _ x r k1 (t, rest) h1 h2 h3

theorem good_bin (hT : tableOK = true) (o : String) (l r : Ex) (ho : levelIdx o false < nLevels) (hl : Core l) (hr : Core r)
    (gl' : Good l) (gr : Good r) : Good (.bin o l r) := by
  have hcore : Core (.bin o l r) := Core.bin o l r ho hl hr
  obtain ⟨lvl, hlvl, hty, hcont⟩ := levelIdx_spec o false ho
  have hlv : levelOf (.bin o l r) = levelIdx o false := rfl
  have hp : printAt (levelIdx o false) (.bin o l r) =
      printAt (levelIdx o false) l ++ .kw o :: printAt (levelIdx o false + 1) r := by
    simp [printAt, paren]
  have chain : ∀ f rest2 res k0, fuelOK (levelIdx o false) (.bin o l r) f → Stop (levelIdx o false + 1) rest2 →
      LoopsTo (stepAt f (levelIdx o false) lvl) k0 (.bin o l r) rest2 res → k0 ≤ rest2.length →
      ∃ x r' k1, Pc f (levelIdx o false + 1) (printAt (levelIdx o false) (.bin o l r) ++ rest2) = some (x, r') ∧
        LoopsTo (stepAt f (levelIdx o false) lvl) k1 x r' res ∧ k1 ≤ r'.length := by
    intro f rest2 res k0 hf hs hloop hk
    have hf' : 2 * (max (depth l) (depth r) + 1) ≤ f + 1 := by
      unfold fuelOK at hf
      simpa only [hlv, Nat.lt_irrefl, if_false, depth] using hf
    have hfl : fuelOK (levelIdx o false) l f := by unfold fuelOK; split <;> omega
    have hfr : fuelOK (levelIdx o false + 1) r f := by unfold fuelOK; split <;> omega
    have hright := gr.rt (levelIdx o false + 1) f rest2 (by omega) hfr hs
    have hmem : o ∈ lvl.1 := by simpa using hcont
    have hstep : stepAt f (levelIdx o false) lvl o = some (binRhs o (Pc f (levelIdx o false + 1))) := by
      simp [stepAt, hty, stepBin, hmem]
    have hrhs : binRhs o (Pc f (levelIdx o false + 1)) (printAt (levelIdx o false + 1) r ++ rest2) =
        some ((fun left => Ex.bin o left r), rest2) := by
      simp only [binRhs, hright, Option.map_some]
    have hl2 := loops_step _ o _ hstep _ rest2 _ hrhs k0 l res hloop
    have hs2 : Stop (levelIdx o false + 1) (.kw o :: (printAt (levelIdx o false + 1) r ++ rest2)) :=
      Or.inr ⟨o, _, rfl, Or.inr (Or.inr (Or.inr ⟨levelIdx o false, lvl, Nat.lt_succ_self _, hlvl, hcont⟩))⟩
    obtain ⟨x, r', k1, h1, h2, h3⟩ := gl'.gl (levelIdx o false) lvl f _ res (k0 + 1) hlvl hfl hs2 hl2 (by simp; omega)
    refine ⟨x, r', k1, ?_, h2, h3⟩
    rw [hp, List.append_assoc]
    exact h1
  have rt : RT (.bin o l r) :=
    rt_of_core hT _ hcore (fun f rest hf hs => level_core hT _ _ lvl hlvl hlv chain f rest hf hs)
  refine ⟨rt, ?_, ?_⟩
  · intro j lvl' f rest2 res k0 hl' hf hst hloop hk
    by_cases hj : j = levelIdx o false
    · subst hj
      have : lvl' = lvl := by rw [hlvl] at hl'; exact (Option.some.inj hl').symm
      subst this
      exact chain f rest2 res k0 hf hst hloop hk
    · exact gl_default _ hcore rt j lvl' f rest2 res k0 hl' (by rw [hlv]; exact fun h => hj h.symm) hf hst hloop hk
  · intro f rest2 res k0 hf hrr hloop hk
    exact gp_default _ hcore rt f rest2 res k0 (by rw [hlv]; omega) hf hrr hloop hk

theorem good_typ (hT : tableOK = true) (o : String) (e : Ex) (q : List String) (ho : levelIdx o true < nLevels) (hq : q ≠ [])
    (he : Core e) (ge : Good e) : Good (.typ o e q) := by
  have hcore : Core (.typ o e q) := Core.typ o e q ho hq he
  obtain ⟨lvl, hlvl, hty, hcont⟩ := levelIdx_spec o true ho
  have hlv : levelOf (.typ o e q) = levelIdx o true := rfl
  have hp : printAt (levelIdx o true) (.typ o e q) = printAt (levelIdx o true) e ++ .kw o :: qualToks q := by
    simp [printAt, paren]
  have chain : ∀ f rest2 res k0, fuelOK (levelIdx o true) (.typ o e q) f → Stop (levelIdx o true + 1) rest2 →
      LoopsTo (stepAt f (levelIdx o true) lvl) k0 (.typ o e q) rest2 res → k0 ≤ rest2.length →
      ∃ x r' k1, Pc f (levelIdx o true + 1) (printAt (levelIdx o true) (.typ o e q) ++ rest2) = some (x, r') ∧
        LoopsTo (stepAt f (levelIdx o true) lvl) k1 x r' res ∧ k1 ≤ r'.length := by
    intro f rest2 res k0 hf hs hloop hk
    have hf' : 2 * (depth e + 1) ≤ f + 1 := by
      unfold fuelOK at hf
      simpa only [hlv, Nat.lt_irrefl, if_false, depth] using hf
    have hfe : fuelOK (levelIdx o true) e f := by unfold fuelOK; split <;> omega
    have hnodot : ∀ r, rest2 ≠ .kw "." :: r := by
      intro r hr
      exact (Stop.head hT hs "." r hr).1 rfl
    have hmem : o ∈ lvl.1 := by simpa using hcont
    have hstep : stepAt f (levelIdx o true) lvl o = some (typRhs o (Cc f (levelIdx o true + 1))) := by
      simp [stepAt, hty, stepTyp, hmem]
    have hcs : Cc f (levelIdx o true + 1) rest2 = some (id, rest2) := by
      obtain ⟨d, hd⟩ : ∃ d, levelIdx o true + 1 + d = nLevels := ⟨nLevels - (levelIdx o true + 1), by omega⟩
      exact Cc_stop hT f d _ hd rest2 hs
    have hrhs : typRhs o (Cc f (levelIdx o true + 1)) (qualToks q ++ rest2) = some ((fun left => Ex.typ o left q), rest2) := by
      have hlen : q.length ≤ (qualToks q ++ rest2).length := by
        have : ∀ q : List String, q.length ≤ (qualToks q).length := by
          intro q; induction q with
          | nil => simp [qualToks]
          | cons a b ih => cases b with
            | nil => simp [qualToks]
            | cons c d => simp only [qualToks, List.length_cons] at ih ⊢; omega
        have := this q; simp; omega
      simp only [typRhs, qualified_parse q hq rest2 hnodot (fun r hr => (Stop.head hT hs "(" r hr).2.2.1 rfl) _ hlen, hcs, Option.map_some]
      rfl
    have hl2 := loops_step _ o _ hstep _ rest2 _ hrhs k0 e res hloop
    have hs2 : Stop (levelIdx o true + 1) (.kw o :: (qualToks q ++ rest2)) :=
      Or.inr ⟨o, _, rfl, Or.inr (Or.inr (Or.inr ⟨levelIdx o true, lvl, Nat.lt_succ_self _, hlvl, hcont⟩))⟩
    obtain ⟨x, r', k1, h1, h2, h3⟩ := ge.gl (levelIdx o true) lvl f _ res (k0 + 1) hlvl hfe hs2 hl2 (by simp; omega)
    refine ⟨x, r', k1, ?_, h2, h3⟩
    rw [hp, List.append_assoc]
    exact h1
  have rt : RT (.typ o e q) :=
    rt_of_core hT _ hcore (fun f rest hf hs => level_core hT _ _ lvl hlvl hlv chain f rest hf hs)
  refine ⟨rt, ?_, ?_⟩
  · intro j lvl' f rest2 res k0 hl' hf hst hloop hk
    by_cases hj : j = levelIdx o true
    · subst hj
      have : lvl' = lvl := by rw [hlvl] at hl'; exact (Option.some.inj hl').symm
      subst this
      exact chain f rest2 res k0 hf hst hloop hk
    · exact gl_default _ hcore rt j lvl' f rest2 res k0 hl' (by rw [hlv]; exact fun h => hj h.symm) hf hst hloop hk
  · intro f rest2 res k0 hf hrr hloop hk
    exact gp_default _ hcore rt f rest2 res k0 (by rw [hlv]; omega) hf hrr hloop hk

/-! ### all trees -/

theorem good_of_core (hT : tableOK = true) (t : Ex) (h : Core t) : Good t := by
  induction h with
  | atom e ha => exact good_atom hT e ha
  | bin o l r ho hl hr ihl ihr => exact good_bin hT o l r ho hl hr ihl ihr
  | typ o e q ho hq he ih => exact good_typ hT o e q ho hq he ih
  | pol s e hs he ih => exact good_pol hT s e hs he ih
  | dot e i he hi ih => exact good_dot hT e i he hi ih
  | idx e i he hi ihe ihi => exact good_idx hT e i he hi ihe ihi

end FP.Lemmas.Syntax

namespace FP.Lemmas.Syntax
open FP FP.Model.Syntax

theorem paren_length (b : Bool) (ts : List Tok) : ts.length ≤ (paren b ts).length := by
  unfold paren; split <;> simp; omega

/-- every level of a tree shows in its rendering: the nesting depth is at most the number of tokens -/
theorem depth_le_length (t : Ex) (h : Core t) : ∀ c, depth t ≤ (printAt c t).length := by
  induction h with
  | atom e ha =>
    intro c
    cases ha <;> (try simp [depth, printAt])
    rename_i hi; cases hi <;> (try simp [depth, printAt, printArgs])
    rename_i h; have := h.2.1
    omega
  | bin o l r ho hl hr ihl ihr =>
    intro c
    have h1 := ihl (levelIdx o false); have h2 := ihr (levelIdx o false + 1)
    have := paren_length (decide (levelIdx o false < c)) (printAt (levelIdx o false) l ++ .kw o :: printAt (levelIdx o false + 1) r)
    simp only [printAt, depth] at this ⊢
    simp only [List.length_append, List.length_cons] at this
    omega
  | typ o e q ho hq he ih =>
    intro c
    have h1 := ih (levelIdx o true)
    have := paren_length (decide (levelIdx o true < c)) (printAt (levelIdx o true) e ++ .kw o :: qualToks q)
    simp only [printAt, depth] at this ⊢
    simp only [List.length_append, List.length_cons] at this
    omega
  | pol s e hs he ih =>
    intro c
    have h1 := ih nLevels
    have := paren_length (decide (nLevels < c)) (.kw s :: printAt nLevels e)
    simp only [printAt, depth] at this ⊢
    simp only [List.length_cons] at this
    omega
  | dot e i he hi ih =>
    intro c
    have h1 := ih (nLevels + 1)
    have h2 : depth i ≤ (printAt (nLevels + 2) i).length := by
      cases hi <;> (try simp [depth, printAt, printArgs])
      rename_i h; have := h.2.1
      omega
    have h3 : 1 ≤ depth i := depth_pos i
    have := paren_length (decide (nLevels + 1 < c)) (printAt (nLevels + 1) e ++ .kw "." :: printAt (nLevels + 2) i)
    simp only [printAt, depth] at this ⊢
    simp only [List.length_append, List.length_cons] at this
    have hd := depth_pos e
    omega
  | idx e i he hi ihe ihi =>
    intro c
    have h1 := ihe (nLevels + 1); have h2 := ihi 0
    simp only [printAt, depth]
    refine Nat.le_trans ?_ (paren_length _ _)
    simp only [List.length_append, List.length_cons, List.length_nil]
    omega

end FP.Lemmas.Syntax
