/-
  FP.Lemmas.DecText — the decimal text round trip: shopspring `Decimal.String()` followed by
  `NewFromString` gives back a decimal of the same value, for every coefficient and every exponent
  an int32 can hold (the library's own limit).
-/
import FP.Lemmas.Text
import FP.Model.Conv
namespace FP.Lemmas.DecText
open FP.Model FP.Model.Text FP.Model.Conv FP.Lemmas.Text

/-! ### small list facts -/

theorem indexWhere_none (p : Char → Bool) (s : S) (h : ∀ c ∈ s, p c = false) : indexWhere p s = none := by
  induction s with
  | nil => rfl
  | cons c r ih =>
    have hc := h c (List.mem_cons_self ..)
    have := ih (fun x hx => h x (List.mem_cons_of_mem _ hx))
    simp [indexWhere, hc, this]

theorem indexWhere_hit (p : Char → Bool) (a b : S) (c : Char) (ha : ∀ x ∈ a, p x = false) (hc : p c = true) :
    indexWhere p (a ++ c :: b) = some a.length := by
  induction a with
  | nil => simp [indexWhere, hc]
  | cons x r ih =>
    have hx := ha x (List.mem_cons_self ..)
    have := ih (fun y hy => ha y (List.mem_cons_of_mem _ hy))
    simp [indexWhere, hx, this]

theorem takeWhile_zero (l : S) : l.takeWhile (· == '0') = List.replicate (l.takeWhile (· == '0')).length '0' := by
  induction l with
  | nil => rfl
  | cons c r ih =>
    by_cases h : c = '0'
    · subst h; simp only [List.takeWhile_cons, beq_self_eq_true, if_true, List.length_cons, List.replicate_succ]
      rw [← ih]
    · have : (c == '0') = false := by simp [h]
      simp [this]

/-- a text is its trimmed form followed by zeros -/
theorem trimZeros_spec (s : S) : ∃ m, s = trimZeros s ++ List.replicate m '0' ∧ s.length = (trimZeros s).length + m := by
  have h := (List.takeWhile_append_dropWhile (p := (· == '0')) (l := s.reverse))
  have hs : s = (s.reverse.dropWhile (· == '0')).reverse ++ (s.reverse.takeWhile (· == '0')).reverse := by
    have := congrArg List.reverse h
    rw [List.reverse_append, List.reverse_reverse] at this
    exact this.symm
  refine ⟨(s.reverse.takeWhile (· == '0')).length, ?_, ?_⟩
  · have hz := takeWhile_zero s.reverse
    have : (s.reverse.takeWhile (· == '0')).reverse = List.replicate (s.reverse.takeWhile (· == '0')).length '0' := by
      rw [hz, List.reverse_replicate, List.length_replicate]
    unfold trimZeros
    rw [← this]; exact hs
  · have := congrArg List.length hs
    simp only [List.length_append, List.length_reverse] at this
    unfold trimZeros; simp only [List.length_reverse]; exact this

theorem allDigits_trim (s : S) (h : s.all isDigit = true) : (trimZeros s).all isDigit = true := by
  rw [List.all_eq_true] at h ⊢
  intro x hx
  unfold trimZeros at hx
  rw [List.mem_reverse] at hx
  have := (List.dropWhile_suffix (fun x => x == '0')).subset hx
  exact h x (List.mem_reverse.mp this)

theorem allDigits_replicate (m : Nat) : (List.replicate m '0').all isDigit = true := by
  rw [List.all_eq_true]; intro x hx; rw [List.mem_replicate] at hx; rw [hx.2]; decide

theorem digitsVal_trail (a : S) (m : Nat) : digitsVal (a ++ List.replicate m '0') = digitsVal a * 10 ^ m := by
  rw [digitsVal_append, List.length_replicate]
  have := digitsVal_zeros m []
  simp only [List.append_nil] at this
  rw [this]; simp [digitsVal]

/-! ### `NewFromString` on plain decimal notation -/

def signS (neg : Bool) : S := if neg then ['-'] else []
def signed (neg : Bool) (n : Nat) : Int := if neg then -(n : Int) else (n : Int)

theorem digit_not_sign (c : Char) (h : isDigit c = true) : c ≠ '+' ∧ c ≠ '-' ∧ c ≠ '.' ∧ c ≠ 'e' ∧ c ≠ 'E' := by
  refine ⟨?_, ?_, ?_, ?_, ?_⟩ <;> (intro hc; rw [hc] at h; exact absurd h (by decide))

theorem parseBig_signed (neg : Bool) (b : S) (hne : b ≠ []) (hd : b.all isDigit = true) :
    parseBig (signS neg ++ b) = some (signed neg (digitsVal b)) := by
  cases neg with
  | true =>
    have he : b.isEmpty = false := by cases b <;> simp_all
    simp [signS, signed, parseBig, he, hd]
  | false =>
    cases b with
    | nil => exact absurd rfl hne
    | cons c r =>
      have hc : isDigit c = true := by simp only [List.all_cons, Bool.and_eq_true] at hd; exact hd.1
      obtain ⟨hp, hm, -, -, -⟩ := digit_not_sign c hc
      simp only [signS, signed, List.nil_append, Bool.false_eq_true, if_false]
      unfold parseBig
      split
      · rename_i heq; simp at heq; exact absurd heq.1 hp
      · rename_i heq; simp at heq; exact absurd heq.1 hm
      · split
        · rename_i heq; simp at heq; exact absurd heq.1 hm
        · simp [hd]

theorem no_mark (p : Char → Bool) (hp : ∀ c, isDigit c = true → p c = false) (hm : p '-' = false)
    (neg : Bool) (b : S) (hd : b.all isDigit = true) : ∀ c ∈ signS neg ++ b, p c = false := by
  intro c hc
  rw [List.mem_append] at hc
  rcases hc with hc | hc
  · cases neg <;> simp [signS] at hc; rw [hc]; exact hm
  · rw [List.all_eq_true] at hd; exact hp c (hd c hc)

def isE (c : Char) : Bool := c == 'E' || c == 'e'
def isDot (c : Char) : Bool := c == '.'

theorem isE_digit (c : Char) (h : isDigit c = true) : isE c = false := by
  obtain ⟨-, -, -, h1, h2⟩ := digit_not_sign c h; simp [isE, h1, h2]
theorem isDot_digit (c : Char) (h : isDigit c = true) : isDot c = false := by
  obtain ⟨-, -, h1, -, -⟩ := digit_not_sign c h; simp [isDot, h1]

theorem filter_dot_digits (s : S) (h : ∀ c ∈ s, isDot c = false) : s.filter (· == '.') = [] := by
  rw [List.filter_eq_nil_iff]; intro c hc; have := h c hc; simpa [isDot] using this

/-- an integer text -/
theorem parse_int_text (neg : Bool) (ip : S) (hne : ip ≠ []) (hd : ip.all isDigit = true) :
    parseDecGo (signS neg ++ ip) = some ⟨signed neg (digitsVal ip), 0⟩ := by
  have hE : indexWhere (fun c => c == 'E' || c == 'e') (signS neg ++ ip) = none :=
    indexWhere_none _ _ (no_mark isE isE_digit (by decide) neg ip hd)
  have hD : indexWhere (· == '.') (signS neg ++ ip) = none :=
    indexWhere_none _ _ (no_mark isDot isDot_digit (by decide) neg ip hd)
  have hF : (signS neg ++ ip).filter (· == '.') = [] :=
    filter_dot_digits _ (no_mark isDot isDot_digit (by decide) neg ip hd)
  have hB := parseBig_signed neg ip hne hd
  unfold parseDecGo
  simp only [hE, hD, hF, hB, List.length_nil]
  simp

/-- a text with a fraction -/
theorem parse_frac_text (neg : Bool) (ip fp : S) (hne : ip ≠ []) (hd : ip.all isDigit = true)
    (hf : fp.all isDigit = true) (hl : fp.length ≤ 2147483648) :
    parseDecGo (signS neg ++ ip ++ '.' :: fp) = some ⟨signed neg (digitsVal (ip ++ fp)), -(fp.length : Int)⟩ := by
  have hall : (ip ++ fp).all isDigit = true := by simp [List.all_append, hd, hf]
  have hne2 : ip ++ fp ≠ [] := by simp [hne]
  have hE : indexWhere (fun c => c == 'E' || c == 'e') (signS neg ++ ip ++ '.' :: fp) = none := by
    apply indexWhere_none
    intro c hc
    rw [List.mem_append] at hc
    rcases hc with hc | hc
    · exact no_mark isE isE_digit (by decide) neg ip hd c hc
    · rcases List.mem_cons.mp hc with hc | hc
      · rw [hc]; decide
      · rw [List.all_eq_true] at hf; exact isE_digit c (hf c hc)
  have hD : indexWhere (· == '.') (signS neg ++ ip ++ '.' :: fp) = some (signS neg ++ ip).length :=
    indexWhere_hit _ _ _ _ (no_mark isDot isDot_digit (by decide) neg ip hd) (by decide)
  have hF : ((signS neg ++ ip ++ '.' :: fp).filter (· == '.')).length = 1 := by
    rw [List.filter_append, filter_dot_digits _ (no_mark isDot isDot_digit (by decide) neg ip hd)]
    have : fp.filter (· == '.') = [] := filter_dot_digits _ (fun c hc => by rw [List.all_eq_true] at hf; exact isDot_digit c (hf c hc))
    simp [this]
  have hB := parseBig_signed neg (ip ++ fp) hne2 hall
  have htake : (signS neg ++ ip ++ '.' :: fp).take (signS neg ++ ip).length = signS neg ++ ip := by
    rw [List.take_append_of_le_length (Nat.le_refl _), List.take_length]
  have hdrop : (signS neg ++ ip ++ '.' :: fp).drop ((signS neg ++ ip).length + 1) = fp := by
    rw [← List.drop_drop, List.drop_append_of_le_length (Nat.le_refl _), List.drop_length]; rfl
  unfold parseDecGo
  simp only [hE, hD, hF, htake, hdrop]
  rw [List.append_assoc, hB]
  simp
  omega


/-! ### `Decimal.String()` -/

theorem renderInt_signed (i : Int) : renderInt i = signS (decide (i < 0)) ++ natDigits i.natAbs := by
  unfold renderInt signS; by_cases h : i < 0 <;> simp [h]

theorem signed_natAbs (i : Int) : signed (decide (i < 0)) i.natAbs = i := by
  unfold signed; by_cases h : i < 0 <;> simp [h] <;> omega

/-- the shape of the rendering for a negative exponent: sign, integer digits, and the fraction digits
    with the trailing zeros (`m` of them) removed -/
theorem render_neg_exp (d : Dec) (h : d.exp < 0) :
    ∃ ip fp' : S, ∃ m : Nat, ip ≠ [] ∧ ip.all isDigit = true ∧ fp'.all isDigit = true ∧
      digitsVal (ip ++ fp') * 10 ^ m = d.coeff.natAbs ∧ fp'.length + m = (-d.exp).toNat ∧
      renderDec d = signS (decide (d.coeff < 0)) ++ (if fp'.isEmpty then ip else ip ++ '.' :: fp') := by
  have hnot : ¬ (0 ≤ d.exp) := by omega
  have had := allDigits_natDigits d.coeff.natAbs
  have hne := natDigits_ne_nil d.coeff.natAbs
  have hval := digitsVal_natDigits d.coeff.natAbs
  generalize hstr : natDigits d.coeff.natAbs = str at had hne hval
  generalize hk : (-d.exp).toNat = k
  -- the two pieces before trimming
  let ip : S := if k < str.length then str.take (str.length - k) else ['0']
  let fp : S := if k < str.length then str.drop (str.length - k) else List.replicate (k - str.length) '0' ++ str
  have hip_ne : ip ≠ [] := by
    by_cases hc : k < str.length
    · simp only [ip, hc, if_true]; intro h0
      have := congrArg List.length h0; simp at this; omega
    · simp [ip, hc]
  have hip_d : ip.all isDigit = true := by
    by_cases hc : k < str.length
    · simp only [ip, hc, if_true]; rw [List.all_eq_true] at had ⊢; intro x hx; exact had x (List.mem_of_mem_take hx)
    · simp only [ip, hc, if_false]; decide
  have hfp_d : fp.all isDigit = true := by
    by_cases hc : k < str.length
    · simp only [fp, hc, if_true]; rw [List.all_eq_true] at had ⊢; intro x hx; exact had x (List.mem_of_mem_drop hx)
    · simp only [fp, hc, if_false, List.all_append, allDigits_replicate, had, Bool.and_self]
  have hfp_len : fp.length = k := by
    by_cases hc : k < str.length
    · simp only [fp, hc, if_true, List.length_drop]; omega
    · simp only [fp, hc, if_false, List.length_append, List.length_replicate]; omega
  have hwhole : digitsVal (ip ++ fp) = d.coeff.natAbs := by
    by_cases hc : k < str.length
    · simp only [ip, fp, hc, if_true, List.take_append_drop]; exact hval
    · simp only [ip, fp, hc, if_false]
      have : ['0'] ++ (List.replicate (k - str.length) '0' ++ str) = List.replicate (k - str.length + 1) '0' ++ str := by
        rw [List.replicate_succ]; rfl
      rw [this, digitsVal_zeros]; exact hval
  obtain ⟨m, hm, hlen⟩ := trimZeros_spec fp
  refine ⟨ip, trimZeros fp, m, hip_ne, hip_d, allDigits_trim fp hfp_d, ?_, by omega, ?_⟩
  · rw [← digitsVal_trail, List.append_assoc, ← hm]; exact hwhole
  · unfold renderDec
    simp only [hnot, if_false, hstr, hk]
    by_cases hneg : d.coeff < 0 <;> simp [hneg, signS, ip, fp]

theorem pow10_nat (n : Nat) : Dec.pow10 (n : Int) = (10 : Int) ^ n := by simp [Dec.pow10]

/-- the same number written with `m` more fraction digits -/
theorem eq_scaled_l (c e : Int) (m : Nat) : Dec.eq ⟨c, e⟩ ⟨c * (10 : Int) ^ m, e - m⟩ = true := by
  unfold Dec.eq Dec.cmp Dec.rescalePair Dec.rescale
  by_cases hm : m = 0
  · subst hm; simp
  · have h1 : ¬ (e < e - (m : Int)) := by omega
    have h2 : e > e - (m : Int) := by omega
    have h3 : ¬ (e = e - (m : Int)) := by omega
    have hp : Dec.pow10 (e - (e - (m : Int))) = (10 : Int) ^ m := by
      have : e - (e - (m : Int)) = (m : Int) := by omega
      rw [this]; exact pow10_nat m
    simp only [h1, h2, h3, if_true, if_false, hp]
    simp

theorem eq_scaled_r (c e : Int) (m : Nat) : Dec.eq ⟨c * (10 : Int) ^ m, e - m⟩ ⟨c, e⟩ = true := by
  unfold Dec.eq Dec.cmp Dec.rescalePair Dec.rescale
  by_cases hm : m = 0
  · subst hm; simp
  · have h1 : e - (m : Int) < e := by omega
    have h3 : ¬ (e = e - (m : Int)) := by omega
    have h4 : ¬ (e - (m : Int) > e) := by omega
    have hp : Dec.pow10 (e - (e - (m : Int))) = (10 : Int) ^ m := by
      have : e - (e - (m : Int)) = (m : Int) := by omega
      rw [this]; exact pow10_nat m
    simp only [h1, h3, h4, if_true, if_false, hp]
    simp

theorem coeff_of_abs (c : Int) (a m : Nat) (hv : a * 10 ^ m = c.natAbs) :
    c = signed (decide (c < 0)) a * (10 : Int) ^ m := by
  have hv' : (a : Int) * (10 : Int) ^ m = (c.natAbs : Int) := by rw [← hv]; simp
  unfold signed
  by_cases hn : c < 0
  · simp only [hn, decide_true, if_true, Int.neg_mul, hv']; omega
  · simp only [hn, decide_false, Bool.false_eq_true, if_false, hv']; omega

/-- **`NewFromString(d.String())` has the value of `d`**, for every coefficient and every exponent
    in the library's range -/
theorem parseDecGo_renderDec (d : Dec) (hexp : -2147483648 ≤ d.exp ∧ d.exp ≤ 2147483647) :
    ∃ d', parseDecGo (renderDec d) = some d' ∧ Dec.eq d' d = true := by
  by_cases h0 : 0 ≤ d.exp
  · -- an integer
    refine ⟨⟨d.coeff * (10 : Int) ^ d.exp.toNat, 0⟩, ?_, ?_⟩
    · unfold renderDec; simp only [h0, if_true]
      rw [renderInt_signed, parse_int_text _ _ (natDigits_ne_nil _) (allDigits_natDigits _), digitsVal_natDigits, signed_natAbs]
    · have := eq_scaled_r d.coeff d.exp d.exp.toNat
      have he : d.exp - (d.exp.toNat : Int) = 0 := by omega
      rw [he] at this; exact this
  · have hneg : d.exp < 0 := by omega
    obtain ⟨ip, fp', m, hne, hd, hf, hv, hl, hr⟩ := render_neg_exp d hneg
    have hc := coeff_of_abs d.coeff _ m hv
    by_cases he : fp'.isEmpty
    · -- every fraction digit was a zero
      have hnil : fp' = [] := List.isEmpty_iff.mp he
      subst hnil
      simp only [List.isEmpty_nil, if_true] at hr
      simp only [List.append_nil, List.length_nil, Nat.zero_add] at hv hl hc
      refine ⟨⟨signed (decide (d.coeff < 0)) (digitsVal ip), 0⟩, by rw [hr]; exact parse_int_text _ _ hne hd, ?_⟩
      have := eq_scaled_l (signed (decide (d.coeff < 0)) (digitsVal ip)) 0 m
      rw [← hc] at this
      have hexpm : (0 : Int) - (m : Int) = d.exp := by omega
      rw [hexpm] at this; exact this
    · have he' : fp'.isEmpty = false := by simpa using he
      simp only [he', Bool.false_eq_true, if_false] at hr
      have hlen : fp'.length ≤ 2147483648 := by omega
      refine ⟨⟨signed (decide (d.coeff < 0)) (digitsVal (ip ++ fp')), -(fp'.length : Int)⟩, ?_, ?_⟩
      · rw [hr, ← List.append_assoc]; exact parse_frac_text _ ip fp' hne hd hf hlen
      · have := eq_scaled_l (signed (decide (d.coeff < 0)) (digitsVal (ip ++ fp'))) (-(fp'.length : Int)) m
        rw [← hc] at this
        have hexpm : -(fp'.length : Int) - (m : Int) = d.exp := by omega
        rw [hexpm] at this; exact this


/-! ### the rendering, as sign / integer digits / optional fraction digits -/

/-- every rendering is `[-]digits` or `[-]digits.digits` (fraction non-empty, no trailing zero lost
    in value): the form accepted by the decimal and quantity regular expressions -/
theorem render_shape (d : Dec) :
    ∃ neg : Bool, ∃ ip fp : S, ip ≠ [] ∧ ip.all isDigit = true ∧ fp.all isDigit = true ∧
      renderDec d = signS neg ++ ip ++ (if fp.isEmpty then [] else '.' :: fp) := by
  by_cases h0 : 0 ≤ d.exp
  · refine ⟨decide (d.coeff * (10 : Int) ^ d.exp.toNat < 0), natDigits (d.coeff * (10 : Int) ^ d.exp.toNat).natAbs, [],
      natDigits_ne_nil _, allDigits_natDigits _, rfl, ?_⟩
    unfold renderDec; simp only [h0, if_true, List.isEmpty_nil, List.append_nil]
    exact renderInt_signed _
  · obtain ⟨ip, fp', m, hne, hd, hf, -, -, hr⟩ := render_neg_exp d (by omega)
    refine ⟨decide (d.coeff < 0), ip, fp', hne, hd, hf, ?_⟩
    rw [hr]; by_cases he : fp'.isEmpty <;> simp [he]

theorem takeWhile_digits_all (a : S) (h : a.all isDigit = true) : a.takeWhile isDigit = a := by
  induction a with
  | nil => rfl
  | cons x r ih =>
    simp only [List.all_cons, Bool.and_eq_true] at h
    simp [h.1, ih h.2]

theorem takeWhile_digits_stop (a b : S) (c : Char) (h : a.all isDigit = true) (hc : isDigit c = false) :
    (a ++ c :: b).takeWhile isDigit = a := by
  induction a with
  | nil => simp [hc]
  | cons x r ih =>
    simp only [List.all_cons, Bool.and_eq_true] at h
    simp [h.1, ih h.2]

/-- the decimal regular expression accepts every rendering -/
theorem matchesDecimal_render (d : Dec) : matchesDecimal (renderDec d) = true := by
  obtain ⟨neg, ip, fp, hne, hd, hf, hr⟩ := render_shape d
  rw [hr]
  cases ip with
  | nil => exact absurd rfl hne
  | cons c r =>
    have hc : isDigit c = true := by simp only [List.all_cons, Bool.and_eq_true] at hd; exact hd.1
    obtain ⟨hp, hm, -, -, -⟩ := digit_not_sign c hc
    -- the text after the sign
    have hbody : ∀ body : S, body = (c :: r) ++ (if fp.isEmpty then [] else '.' :: fp) →
        (let ds := body.takeWhile isDigit
         if ds.isEmpty then false else
         match body.drop ds.length with
         | [] => true
         | '.' :: r => !r.isEmpty && r.all isDigit
         | _ => false) = true := by
      intro body hb
      by_cases he : fp.isEmpty
      · simp only [he, if_true, List.append_nil] at hb
        have htw : body.takeWhile isDigit = c :: r := by rw [hb]; exact takeWhile_digits_all _ hd
        have hdr : body.drop (c :: r).length = [] := by rw [hb]; exact List.drop_length
        simp only [htw, hdr]; simp
      · have he' : fp.isEmpty = false := by simpa using he
        simp only [he', Bool.false_eq_true, if_false] at hb
        have htw : body.takeWhile isDigit = c :: r := by rw [hb]; exact takeWhile_digits_stop (c :: r) fp '.' hd (by decide)
        have hdr : body.drop (c :: r).length = '.' :: fp := by rw [hb]; exact List.drop_left
        simp only [htw, hdr]; simp [hf, he']
    cases neg with
    | true =>
      simp only [signS, if_true, List.cons_append, List.nil_append]
      unfold matchesDecimal
      exact hbody _ rfl
    | false =>
      simp only [signS, Bool.false_eq_true, if_false, List.nil_append]
      unfold matchesDecimal
      split
      · rename_i heq; simp at heq; exact absurd heq.1 hp
      · rename_i heq; simp at heq; exact absurd heq.1 hm
      · exact hbody _ rfl


/-! ### the quantity regular expression on `<decimal> <word>` -/

def mqFrac (r1 : S) : S :=
  match r1 with
  | '.' :: r => let fs := r.takeWhile isDigit; if fs.isEmpty then [] else '.' :: fs
  | _ => []

def mqTail (value r3 : S) : Option (S × S × S) :=
  match r3 with
  | [] => some (value, [], [])
  | '\'' :: r =>
    let u := r.takeWhile (· != '\'')
    if u.isEmpty then none else
    if r.drop u.length == ['\''] then some (value, u, []) else none
  | _ =>
    let t := r3.takeWhile isAlpha
    if t.isEmpty then none else
    if r3.drop t.length == [] then some (value, [], t) else none

/-- `matchQuantity` after the sign has been looked at -/
def mqBody (sign r0 : S) : Option (S × S × S) :=
  let ds := r0.takeWhile isDigit
  if ds.isEmpty then none else
  let r1 := r0.drop ds.length
  mqTail (sign ++ ds ++ mqFrac r1) ((r1.drop (mqFrac r1).length).dropWhile isSpaceRe)

theorem matchQuantity_eq (s : S) :
    matchQuantity s = mqBody (match s with | '+' :: _ => ['+'] | '-' :: _ => ['-'] | _ => [])
      (s.drop (match s with | '+' :: _ => ['+'] | '-' :: _ => ['-'] | _ => [] : S).length) := rfl

theorem alpha_plain (c : Char) (h : isAlpha c = true) : c ≠ '\'' ∧ isSpaceRe c = false ∧ c ≠ ' ' := by
  refine ⟨?_, ?_, ?_⟩
  · intro hc; rw [hc] at h; exact absurd h (by decide)
  · cases hs : isSpaceRe c with
    | false => rfl
    | true =>
      simp only [isSpaceRe, Bool.or_eq_true, beq_iff_eq] at hs
      rcases hs with (((hs | hs) | hs) | hs) | hs <;> (rw [hs] at h; exact absurd h (by decide))
  · intro hc; rw [hc] at h; exact absurd h (by decide)

theorem takeWhile_alpha_all (a : S) (h : a.all isAlpha = true) : a.takeWhile isAlpha = a := by
  induction a with
  | nil => rfl
  | cons x r ih =>
    simp only [List.all_cons, Bool.and_eq_true] at h
    simp [h.1, ih h.2]

/-- the tail `" word"` of a quantity text -/
theorem mq_tail (value : S) (a : Char) (t : S) (hu : (a :: t).all isAlpha = true) :
    mqTail value ((' ' :: a :: t).dropWhile isSpaceRe) = some (value, [], a :: t) := by
  have ha : isAlpha a = true := by simp only [List.all_cons, Bool.and_eq_true] at hu; exact hu.1
  obtain ⟨hq, hs, -⟩ := alpha_plain a ha
  have hdw : (' ' :: a :: t).dropWhile isSpaceRe = a :: t := by
    have h1 : isSpaceRe ' ' = true := by decide
    simp [h1, hs]
  rw [hdw]
  unfold mqTail
  split
  · rename_i heq; simp at heq
  · rename_i heq; simp at heq; exact absurd heq.1 hq
  · simp [takeWhile_alpha_all _ hu]

theorem mqFrac_space (u : S) : mqFrac (' ' :: u) = [] := rfl
theorem mqFrac_dot (fp u : S) (hf : fp.all isDigit = true) (hne : fp.isEmpty = false) :
    mqFrac ('.' :: (fp ++ ' ' :: u)) = '.' :: fp := by
  simp [mqFrac, takeWhile_digits_stop fp u ' ' hf (by decide), hne]

theorem mqBody_word (sign ip fp : S) (a : Char) (t : S) (hne : ip ≠ []) (hd : ip.all isDigit = true)
    (hf : fp.all isDigit = true) (hu : (a :: t).all isAlpha = true) :
    mqBody sign (ip ++ (if fp.isEmpty then [] else '.' :: fp) ++ ' ' :: a :: t)
      = some (sign ++ ip ++ (if fp.isEmpty then [] else '.' :: fp), [], a :: t) := by
  have hipe : ip.isEmpty = false := by cases ip <;> simp_all
  by_cases he : fp.isEmpty
  · simp only [he, if_true, List.append_nil]
    have htw : (ip ++ ' ' :: a :: t).takeWhile isDigit = ip := takeWhile_digits_stop ip _ ' ' hd (by decide)
    have hdr : (ip ++ ' ' :: a :: t).drop ip.length = ' ' :: a :: t := List.drop_left
    unfold mqBody
    simp only [htw, hdr, hipe, Bool.false_eq_true, if_false, mqFrac_space, List.length_nil, List.drop_zero, List.append_nil]
    exact mq_tail _ a t hu
  · have he' : fp.isEmpty = false := by simpa using he
    simp only [he', Bool.false_eq_true, if_false]
    have htw : (ip ++ '.' :: fp ++ ' ' :: a :: t).takeWhile isDigit = ip := by
      rw [List.append_assoc]; exact takeWhile_digits_stop ip _ '.' hd (by decide)
    have hdr : (ip ++ '.' :: fp ++ ' ' :: a :: t).drop ip.length = '.' :: (fp ++ ' ' :: a :: t) := by
      rw [List.append_assoc]; exact List.drop_left
    have hdr2 : ('.' :: (fp ++ ' ' :: a :: t)).drop ('.' :: fp).length = ' ' :: a :: t := by
      simp
    unfold mqBody
    simp only [htw, hdr, hipe, Bool.false_eq_true, if_false, mqFrac_dot fp (a :: t) hf he', hdr2]
    exact mq_tail _ a t hu

/-- `matchQuantity` on a rendering followed by a space and a word -/
theorem matchQuantity_render_word (d : Dec) (a : Char) (t : S) (hu : (a :: t).all isAlpha = true) :
    matchQuantity (renderDec d ++ ' ' :: a :: t) = some (renderDec d, [], a :: t) := by
  obtain ⟨neg, ip, fp, hne, hd, hf, hr⟩ := render_shape d
  rw [matchQuantity_eq, hr]
  cases neg with
  | true =>
    simp only [signS, if_true, List.cons_append, List.nil_append, List.length_cons, List.length_nil, List.drop_succ_cons, List.drop_zero]
    have := mqBody_word ['-'] ip fp a t hne hd hf hu
    simp only [List.cons_append, List.nil_append, List.append_assoc] at this ⊢
    exact this
  | false =>
    cases ip with
    | nil => exact absurd rfl hne
    | cons c r =>
      have hc : isDigit c = true := by simp only [List.all_cons, Bool.and_eq_true] at hd; exact hd.1
      obtain ⟨hp, hm, -, -, -⟩ := digit_not_sign c hc
      have hsign : (match (signS false ++ (c :: r) ++ (if fp.isEmpty then [] else '.' :: fp) ++ ' ' :: a :: t : S) with
          | '+' :: _ => ['+'] | '-' :: _ => ['-'] | _ => ([] : S)) = [] := by
        simp only [signS, Bool.false_eq_true, if_false, List.nil_append, List.cons_append]
        split
        · rename_i heq; simp at heq; exact absurd heq.1 hp
        · rename_i heq; simp at heq; exact absurd heq.1 hm
        · rfl
      rw [hsign]
      have := mqBody_word [] (c :: r) fp a t hne hd hf hu
      simp only [signS, Bool.false_eq_true, if_false, List.nil_append, List.length_nil, List.drop_zero] at this ⊢
      exact this

theorem indexWhere_space_render (d : Dec) (u : S) :
    indexWhere (· == ' ') (renderDec d ++ ' ' :: u) = some (renderDec d).length := by
  apply indexWhere_hit _ _ _ _ _ (by decide)
  obtain ⟨neg, ip, fp, -, hd, hf, hr⟩ := render_shape d
  intro x hx
  rw [hr] at hx
  have hdig : ∀ c, isDigit c = true → (c == ' ') = false := by
    intro c hc; cases hcc : (c == ' ') with
    | false => rfl
    | true => rw [beq_iff_eq] at hcc; rw [hcc] at hc; exact absurd hc (by decide)
  rw [List.mem_append] at hx
  rcases hx with hx | hx
  · exact no_mark (· == ' ') hdig (by decide) neg ip hd x hx
  · by_cases he : fp.isEmpty
    · simp [he] at hx
    · simp only [he] at hx
      rcases List.mem_cons.mp hx with hx | hx
      · rw [hx]; decide
      · rw [List.all_eq_true] at hf; exact hdig x (hf x hx)

theorem trim_quotes_word (u : S) (hu : u.all isAlpha = true) :
    ((u.dropWhile (· == '\'')).reverse.dropWhile (· == '\'')).reverse = u := by
  have hq : ∀ c ∈ u, (c == '\'') = false := by
    intro c hc; rw [List.all_eq_true] at hu
    have := (alpha_plain c (hu c hc)).1; simpa using this
  have h1 : ∀ l : S, (∀ c ∈ l, (c == '\'') = false) → l.dropWhile (· == '\'') = l := by
    intro l hl; cases l with
    | nil => rfl
    | cons c r => simp [hl c (List.mem_cons_self ..)]
  rw [h1 u hq, h1 u.reverse (fun c hc => hq c (List.mem_reverse.mp hc)), List.reverse_reverse]

end FP.Lemmas.DecText
