/- Helper lemmas about the decimal model: `num d s` is the value of `d` scaled by 10^s.  Core Lean only. -/
import FP.Model.Dec
namespace FP.Lemmas
open FP FP.Model

def num (d : Dec) (s : Int) : Int := d.coeff * Dec.pow10 (s + d.exp)

theorem pow10_add (x y : Int) (hx : 0 ≤ x) (hy : 0 ≤ y) : Dec.pow10 (x + y) = Dec.pow10 x * Dec.pow10 y := by
  unfold Dec.pow10
  rw [Int.toNat_add hx hy, Int.pow_add]

theorem rescale_down_num (d : Dec) (e s : Int) (he : e ≤ d.exp) (hs : 0 ≤ s + e) :
    num (d.rescale e) s = num d s ∧ (d.rescale e).exp = e := by
  unfold Dec.rescale num
  by_cases h : d.exp = e
  · subst h; simp
  · have h2 : ¬ e > d.exp := by omega
    simp only [h, h2, if_false]
    refine ⟨?_, trivial⟩
    have : s + d.exp = (d.exp - e) + (s + e) := by omega
    rw [this, pow10_add _ _ (by omega) hs, Int.mul_assoc]


theorem pow10_pos (n : Int) : 0 < Dec.pow10 n := by
  unfold Dec.pow10; exact Int.pow_pos (by decide)

/-- `cmp` compares the exact values: with both decimals scaled by a common 10^s -/
theorem cmp_spec (a b : Dec) (s : Int) (ha : 0 ≤ s + a.exp) (hb : 0 ≤ s + b.exp) :
    Dec.cmp a b = (if num a s < num b s then -1 else if num a s = num b s then 0 else 1) := by
  have key : ∀ (x y : Dec), x.exp = y.exp → 0 ≤ s + x.exp →
      ((x.coeff < y.coeff ↔ num x s < num y s) ∧ (x.coeff = y.coeff ↔ num x s = num y s)) := by
    intro x y he hx
    unfold num; rw [← he]
    have hp := pow10_pos (s + x.exp)
    constructor
    · constructor
      · intro h; exact Int.mul_lt_mul_of_pos_right h hp
      · intro h; exact Int.lt_of_mul_lt_mul_right h (Int.le_of_lt hp)
    · constructor
      · intro h; rw [h]
      · intro h; exact Int.eq_of_mul_eq_mul_right (Int.ne_of_gt hp) h
  unfold Dec.cmp Dec.rescalePair
  by_cases h1 : a.exp < b.exp
  · have r := rescale_down_num b a.exp s (by omega) ha
    simp only [h1, if_true]
    have k := key a (b.rescale a.exp) r.2.symm ha
    rw [r.1] at k
    by_cases c1 : a.coeff < (b.rescale a.exp).coeff
    · simp [c1, k.1.mp c1]
    · have c1' : ¬ num a s < num b s := fun h => c1 (k.1.mpr h)
      by_cases c2 : a.coeff = (b.rescale a.exp).coeff
      · simp [c1, c1', c2, k.2.mp c2]
      · have c2' : ¬ num a s = num b s := fun h => c2 (k.2.mpr h)
        simp [c1, c1', c2, c2']
  · by_cases h2 : a.exp > b.exp
    · have r := rescale_down_num a b.exp s (by omega) hb
      simp only [h1, h2, if_false, if_true]
      have k := key (a.rescale b.exp) b r.2 (by rw [r.2]; exact hb)
      rw [r.1] at k
      by_cases c1 : (a.rescale b.exp).coeff < b.coeff
      · simp [c1, k.1.mp c1]
      · have c1' : ¬ num a s < num b s := fun h => c1 (k.1.mpr h)
        by_cases c2 : (a.rescale b.exp).coeff = b.coeff
        · simp [c1, c1', c2, k.2.mp c2]
        · have c2' : ¬ num a s = num b s := fun h => c2 (k.2.mpr h)
          simp [c1, c1', c2, c2']
    · have he : a.exp = b.exp := by omega
      simp only [h1, h2, if_false]
      have k := key a b he ha
      by_cases c1 : a.coeff < b.coeff
      · simp [c1, k.1.mp c1]
      · have c1' : ¬ num a s < num b s := fun h => c1 (k.1.mpr h)
        by_cases c2 : a.coeff = b.coeff
        · simp [c1, c1', c2, k.2.mp c2]
        · have c2' : ¬ num a s = num b s := fun h => c2 (k.2.mpr h)
          simp [c1, c1', c2, c2']

end FP.Lemmas
