/- Lemmas about the text model: decimal digits, padding, shapes. -/
import FP.Model.Text
namespace FP.Lemmas.Text
open FP.Model.Text
theorem digitVal_digitChar : ∀ d, d < 10 → digitVal (digitChar d) = d := by decide
theorem isDigit_digitChar : ∀ d, d < 10 → isDigit (digitChar d) = true := by decide
theorem digitsVal_append1 (s : S) (c : Char) : digitsVal (s ++ [c]) = digitsVal s * 10 + digitVal c := by
  simp [digitsVal, List.foldl_append]
theorem digitsVal_natDigits (n : Nat) : digitsVal (natDigits n) = n := by
  induction n using Nat.strongRecOn with
  | _ n ih =>
    rw [natDigits]
    split
    · rename_i h; simp [digitsVal, digitVal_digitChar n h]
    · rename_i h
      rw [digitsVal_append1, ih (n / 10) (by omega), digitVal_digitChar _ (Nat.mod_lt _ (by omega))]
      omega
theorem allDigits_natDigits (n : Nat) : (natDigits n).all isDigit = true := by
  induction n using Nat.strongRecOn with
  | _ n ih =>
    rw [natDigits]
    split
    · rename_i h; simp [isDigit_digitChar n h]
    · rename_i h
      simp only [List.all_append, ih (n / 10) (by omega), List.all_cons, List.all_nil, Bool.and_true, Bool.true_and]
      exact isDigit_digitChar _ (Nat.mod_lt _ (by omega))
theorem natDigits_ne_nil (n : Nat) : natDigits n ≠ [] := by
  rw [natDigits]; split <;> simp

theorem natDigits_length_le (k : Nat) : ∀ n, n < 10 ^ k → 1 ≤ k → (natDigits n).length ≤ k := by
  induction k with
  | zero => intro n _ h; omega
  | succ k ih =>
    intro n hn _
    rw [natDigits]
    split
    · simp
    · rename_i h
      have hk : 1 ≤ k := by
        rcases k with _ | k
        · simp at hn; omega
        · omega
      have : n / 10 < 10 ^ k := by
        rw [Nat.pow_succ] at hn; omega
      have := ih (n / 10) this hk
      simp; omega

theorem digitsVal_zeros (k : Nat) (d : S) : digitsVal (List.replicate k '0' ++ d) = digitsVal d := by
  induction k with
  | zero => simp
  | succ k ih =>
    have : digitsVal (List.replicate (k + 1) '0' ++ d) = digitsVal (List.replicate k '0' ++ d) := by
      simp only [digitsVal, List.replicate_succ, List.cons_append, List.foldl_cons]
      have : (0 * 10 + digitVal '0') = 0 := by decide
      rw [this]
    rw [this, ih]

theorem padNat_length (w n : Nat) (h : n < 10 ^ w) (hw : 1 ≤ w) : (padNat w n).length = w := by
  have := natDigits_length_le w n h hw
  simp [padNat]; omega
theorem padNat_val (w n : Nat) : digitsVal (padNat w n) = n := by
  simp only [padNat]; rw [digitsVal_zeros, digitsVal_natDigits]
theorem padNat_allDigits (w n : Nat) : (padNat w n).all isDigit = true := by
  simp only [padNat, List.all_append, allDigits_natDigits, Bool.and_true]
  simp [List.all_replicate]; right; decide

theorem padNat2 (n : Nat) (h : n < 100) : padNat 2 n = [digitChar (n / 10), digitChar (n % 10)] := by
  unfold padNat
  rw [natDigits]
  split
  · rename_i h1
    have : n / 10 = 0 := by omega
    have h2 : n % 10 = n := by omega
    simp [this, h2]; decide
  · rename_i h1
    rw [natDigits]
    have : n / 10 < 10 := by omega
    simp [this]

theorem shapeOf_allDigits (s : S) (h : s.all isDigit = true) : shapeOf s = List.replicate s.length none := by
  induction s with
  | nil => rfl
  | cons c r ih =>
    simp only [List.all_cons, Bool.and_eq_true] at h
    obtain ⟨h1, h2⟩ := h
    have := ih h2
    simp only [shapeOf] at this
    simp [shapeOf, symOf, h1, List.replicate_succ, this]


theorem foldl_digits (s : S) (a : Nat) :
    s.foldl (fun a c => a * 10 + digitVal c) a = a * 10 ^ s.length + digitsVal s := by
  induction s generalizing a with
  | nil => simp [digitsVal]
  | cons c r ih =>
    simp only [List.foldl_cons, digitsVal, List.length_cons]
    rw [ih, ih (0 * 10 + digitVal c)]
    simp only [digitsVal, Nat.pow_succ]
    rw [Nat.add_mul, Nat.zero_mul, Nat.zero_add, Nat.mul_assoc, Nat.mul_comm 10]
    omega

theorem digitsVal_cons (c : Char) (r : S) : digitsVal (c :: r) = digitVal c * 10 ^ r.length + digitsVal r := by
  have := foldl_digits r (0 * 10 + digitVal c)
  simp only [digitsVal, List.foldl_cons] at this ⊢
  rw [this]; simp

theorem digitsVal_lt (s : S) (h : s.all isDigit = true) : digitsVal s < 10 ^ s.length := by
  induction s with
  | nil => simp [digitsVal]
  | cons c r ih =>
    simp only [List.all_cons, Bool.and_eq_true] at h
    have h1 := ih h.2
    rw [digitsVal_cons]
    have hc : digitVal c < 10 := by
      have := h.1; simp only [isDigit, Bool.and_eq_true, decide_eq_true_eq] at this
      unfold digitVal; omega
    simp only [List.length_cons, Nat.pow_succ]
    have : digitVal c * 10 ^ r.length ≤ 9 * 10 ^ r.length := Nat.mul_le_mul_right _ (by omega)
    omega

theorem digitsVal_append (a b : S) : digitsVal (a ++ b) = digitsVal a * 10 ^ b.length + digitsVal b := by
  simp only [digitsVal, List.foldl_append]
  rw [foldl_digits]; rfl

theorem digitsVal_take (s : S) (h : s.all isDigit = true) (k : Nat) :
    digitsVal (s.take k) = digitsVal s / 10 ^ (s.length - k) := by
  have hs : s = s.take k ++ s.drop k := (List.take_append_drop k s).symm
  have hd : (s.drop k).all isDigit = true := by
    rw [List.all_eq_true] at h ⊢; intro x hx; exact h x (List.mem_of_mem_drop hx)
  have hlt := digitsVal_lt _ hd
  have hl : (s.drop k).length = s.length - k := by simp
  have := digitsVal_append (s.take k) (s.drop k)
  rw [← hs, hl] at this
  rw [hl] at hlt
  rw [this, Nat.add_comm, Nat.add_mul_div_right _ _ (Nat.pow_pos (by omega)), Nat.div_eq_of_lt hlt]; simp


inductive TZV | z | plus | minus deriving DecidableEq, Repr

def tzv (w : Wall) : TZV := if w.offset = 0 then .z else if w.offset < 0 then .minus else .plus

structure Bounded (w : Wall) : Prop where
  year : 0 ≤ w.year ∧ w.year ≤ 9999
  month : 1 ≤ w.month ∧ w.month ≤ 12
  day : 1 ≤ w.day ∧ w.day ≤ daysIn w.month w.year
  hour : 0 ≤ w.hour ∧ w.hour < 24
  minute : 0 ≤ w.minute ∧ w.minute < 60
  second : 0 ≤ w.second ∧ w.second < 60
  nanos : 0 ≤ w.nanos ∧ w.nanos < 1000000000
  offset : w.offset % 60 = 0 ∧ -86400 < w.offset ∧ w.offset < 86400

def elemShape (v : TZV) : Elem → List Sym
  | .year4 => [none, none, none, none]
  | .month2 | .day2 | .hour | .minute2 | .second2 => [none, none]
  | .frac0 n => some '.' :: List.replicate n none
  | .tzColon => match v with
    | .z => [some 'Z']
    | .plus => [some '+', none, none, some ':', none, none]
    | .minus => [some '-', none, none, some ':', none, none]
  | .lit c => [symOf c]

theorem daysIn_le (m y : Int) : daysIn m y ≤ 31 := by
  unfold daysIn; split <;> (try split) <;> omega

theorem shape_pad (w n : Nat) (h : n < 10 ^ w) (hw : 1 ≤ w) : shapeOf (padNat w n) = List.replicate w none := by
  rw [shapeOf_allDigits _ (padNat_allDigits w n), padNat_length w n h hw]

theorem shape_formatElem (w : Wall) (hb : Bounded w) (e : Elem) (he : ∀ n, e = .frac0 n → n ≤ 9) :
    shapeOf (formatElem w e) = elemShape (tzv w) e := by
  have hd := daysIn_le w.month w.year
  cases e with
  | year4 => simp only [formatElem, elemShape]; rw [shape_pad 4 _ (by have := hb.year; omega) (by omega)]; rfl
  | month2 => simp only [formatElem, elemShape]; rw [shape_pad 2 _ (by have := hb.month; omega) (by omega)]; rfl
  | day2 => simp only [formatElem, elemShape]; rw [shape_pad 2 _ (by have := hb.day; omega) (by omega)]; rfl
  | hour => simp only [formatElem, elemShape]; rw [shape_pad 2 _ (by have := hb.hour; omega) (by omega)]; rfl
  | minute2 => simp only [formatElem, elemShape]; rw [shape_pad 2 _ (by have := hb.minute; omega) (by omega)]; rfl
  | second2 => simp only [formatElem, elemShape]; rw [shape_pad 2 _ (by have := hb.second; omega) (by omega)]; rfl
  | frac0 n =>
    have hn := he n rfl
    simp only [formatElem, elemShape, shapeOf, List.map_cons, List.map_take]
    have := shape_pad 9 w.nanos.toNat (by have := hb.nanos; omega) (by omega)
    simp only [shapeOf] at this
    rw [this]
    have key : ∀ n, n ≤ 9 → List.take n (List.replicate 9 (none : Sym)) = List.replicate n none := by decide
    rw [key n hn]
    simp [symOf, isDigit]
  | tzColon =>
    simp only [formatElem, elemShape, tzv]
    have ho := hb.offset
    by_cases h0 : w.offset = 0
    · simp [h0, shapeOf, symOf, isDigit]
    · simp only [h0, if_false]
      have htd : Int.tdiv w.offset 60 = w.offset / 60 := Int.tdiv_eq_ediv_of_dvd (by omega)
      rw [htd]
      have hz : (w.offset / 60 < 0) ↔ w.offset < 0 := by omega
      have hq : (w.offset / 60).natAbs / 60 < 100 := by omega
      have hr : (w.offset / 60).natAbs % 60 < 100 := by omega
      by_cases hneg : w.offset < 0
      · have : w.offset / 60 < 0 := hz.mpr hneg
        simp only [this, hneg, if_true, shapeOf, List.map_cons, List.map_append]
        have h1 := shape_pad 2 _ hq (by omega); have h2 := shape_pad 2 _ hr (by omega)
        simp only [shapeOf] at h1 h2
        rw [h1, h2]; simp [symOf, isDigit]
      · have : ¬ w.offset / 60 < 0 := fun h => hneg (hz.mp h)
        simp only [this, hneg, if_false, shapeOf, List.map_cons, List.map_append]
        have h1 := shape_pad 2 _ hq (by omega); have h2 := shape_pad 2 _ hr (by omega)
        simp only [shapeOf] at h1 h2
        rw [h1, h2]; simp [symOf, isDigit]
  | lit c => simp [formatElem, elemShape, shapeOf]


theorem length_formatElem (w : Wall) (hb : Bounded w) (e : Elem) (he : ∀ n, e = .frac0 n → n ≤ 9) :
    (formatElem w e).length = (elemShape (tzv w) e).length := by
  rw [← shape_formatElem w hb e he]; simp [shapeOf]

theorem splitBy_flatten (ps : List S) : splitBy (ps.map List.length) ps.flatten = ps := by
  induction ps with
  | nil => rfl
  | cons p r ih => simp [splitBy, ih]

theorem atoiTime_digits (s : S) (h : s.all isDigit = true) : atoiTime s = some (digitsVal s : Int) := by
  cases s with
  | nil => simp [atoiTime, digitsVal]
  | cons c r =>
    simp only [List.all_cons, Bool.and_eq_true] at h
    have hp : c ≠ '+' := by intro hc; rw [hc] at h; exact absurd h.1 (by decide)
    have hm : c ≠ '-' := by intro hc; rw [hc] at h; exact absurd h.1 (by decide)
    unfold atoiTime
    split
    · rename_i heq; simp at heq; exact absurd heq.1 hp
    · rename_i heq; simp at heq; exact absurd heq.1 hm
    · split
      · rename_i heq; simp at heq; exact absurd heq.1 hm
      · simp [h.1, h.2]

/-- what reading the rendered element assigns -/
def assign (w : Wall) : Elem → List (Kind × Int)
  | .lit _ => []
  | .year4 => [(.year, w.year)]
  | .month2 => [(.month, w.month)]
  | .day2 => [(.day, w.day)]
  | .hour => [(.hour, w.hour)]
  | .minute2 => [(.minute, w.minute)]
  | .second2 => [(.second, w.second)]
  | .frac0 n => [(.nanos, w.nanos / pow10 (9 - n) * pow10 (9 - n))]
  | .tzColon => [(.offset, w.offset)]

theorem readElem_formatElem (w : Wall) (hb : Bounded w) (e : Elem) (he : ∀ n, e = .frac0 n → 1 ≤ n ∧ n ≤ 9) :
    readElem e (formatElem w e) = some (assign w e) := by
  have hd := daysIn_le w.month w.year
  cases e with
  | lit c => simp [readElem, assign]
  | year4 =>
    have hk := hb.year
    simp only [readElem, formatElem, assign, padNat_val, Int.toNat_of_nonneg (show (0:Int) ≤ w.year by omega)]
    try (rw [if_neg (by simp; omega)])
  | month2 =>
    have hk := hb.month
    simp only [readElem, formatElem, assign, padNat_val, Int.toNat_of_nonneg (show (0:Int) ≤ w.month by omega)]
    try (rw [if_neg (by simp; omega)])
  | day2 =>
    have hk := hb.day
    simp only [readElem, formatElem, assign, padNat_val, Int.toNat_of_nonneg (show (0:Int) ≤ w.day by omega)]
    try (rw [if_neg (by simp; omega)])
  | hour =>
    have hk := hb.hour
    simp only [readElem, formatElem, assign, padNat_val, Int.toNat_of_nonneg (show (0:Int) ≤ w.hour by omega)]
    try (rw [if_neg (by simp; omega)])
  | minute2 =>
    have hk := hb.minute
    simp only [readElem, formatElem, assign, padNat_val, Int.toNat_of_nonneg (show (0:Int) ≤ w.minute by omega)]
    try (rw [if_neg (by simp; omega)])
  | second2 =>
    have hl : (padNat 2 w.second.toNat).length = 2 := padNat_length 2 _ (by have := hb.second; omega) (by omega)
    have hk := hb.second
    have ht : (padNat 2 w.second.toNat).take 2 = padNat 2 w.second.toNat := List.take_of_length_le (by omega)
    simp only [readElem, readSecond, formatElem, assign, ht, padNat_val, hl, Int.toNat_of_nonneg (show (0:Int) ≤ w.second by omega)]
    rw [if_neg (by omega), if_pos (by omega)]
  | frac0 n =>
    obtain ⟨h1, h9⟩ := he n rfl
    have hl : (padNat 9 w.nanos.toNat).length = 9 := padNat_length 9 _ (by have := hb.nanos; omega) (by omega)
    have had := padNat_allDigits 9 w.nanos.toNat
    have hta : ((padNat 9 w.nanos.toNat).take n).all isDigit = true := by
      rw [List.all_eq_true] at had ⊢; intro x hx; exact had x (List.mem_of_mem_take hx)
    have hlen : ((padNat 9 w.nanos.toNat).take n).length = n := by simp [hl]; omega
    simp only [readElem, formatElem, assign, parseNanos]
    rw [List.take_of_length_le (by omega), atoiTime_digits _ hta, digitsVal_take _ had, padNat_val, hl, hlen]
    have hn := hb.nanos
    simp only [Option.map_some]
    have hp : (0 : Int) < pow10 (9 - n) := by unfold pow10; exact Int.pow_pos (by omega)
    have hcast : ((w.nanos.toNat / 10 ^ (9 - n) : Nat) : Int) = w.nanos / pow10 (9 - n) := by
      unfold pow10; rw [Int.natCast_ediv]; simp [Int.toNat_of_nonneg hn.1]
    rw [hcast]
    have hnn : 0 ≤ w.nanos / pow10 (9 - n) := Int.ediv_nonneg hn.1 (by omega)
    simp [Int.not_lt.mpr hnn]
  | tzColon =>
    have ho := hb.offset
    simp only [formatElem, assign, readElem]
    by_cases h0 : w.offset = 0
    · simp [h0, readTz]
    · simp only [h0, if_false]
      have htd : Int.tdiv w.offset 60 = w.offset / 60 := Int.tdiv_eq_ediv_of_dvd (by omega)
      rw [htd, padNat2 _ (by omega), padNat2 _ (by omega)]
      have e1 : ∀ a b, a < 10 → b < 10 → (digitsVal [digitChar a, digitChar b] : Int) = (a * 10 + b : Nat) := by
        intro a b ha hb'
        simp [digitsVal, digitVal_digitChar a ha, digitVal_digitChar b hb']
      have hnz : ∀ c : Char, ((c :: ([digitChar ((w.offset / 60).natAbs / 60 / 10), digitChar ((w.offset / 60).natAbs / 60 % 10)] ++
          ':' :: [digitChar ((w.offset / 60).natAbs % 60 / 10), digitChar ((w.offset / 60).natAbs % 60 % 10)])) == ['Z']) = false := by
        intro c; simp
      simp only [readTz, hnz, List.cons_append, List.nil_append, List.length_cons, List.length_nil, List.drop_succ_cons, List.drop_zero,
        List.take_succ_cons, List.take_zero, List.head?_cons]
      rw [e1 _ _ (by omega) (by omega), e1 _ _ (by omega) (by omega)]
      have hr : ¬ ((24 : Int) < ((((w.offset / 60).natAbs / 60 / 10 * 10 + (w.offset / 60).natAbs / 60 % 10 : Nat)) : Int) ||
          (60 : Int) < (((w.offset / 60).natAbs % 60 / 10 * 10 + (w.offset / 60).natAbs % 60 % 10 : Nat) : Int)) = true := by
        simp; omega
      by_cases hneg : w.offset / 60 < 0
      · simp [hneg, hr]; omega
      · have : ('+' == '-') = false := by decide
        simp [hneg, hr]; omega


def FracOK (l : List Elem) : Prop := ∀ e ∈ l, ∀ n, e = .frac0 n → 1 ≤ n ∧ n ≤ 9

theorem shapeOf_append (a b : S) : shapeOf (a ++ b) = shapeOf a ++ shapeOf b := by simp [shapeOf]

theorem shape_format (w : Wall) (hb : Bounded w) (l : List Elem) (hl : FracOK l) :
    shapeOf (format l w) = l.flatMap (elemShape (tzv w)) := by
  induction l with
  | nil => rfl
  | cons e r ih =>
    have he : ∀ n, e = .frac0 n → n ≤ 9 := fun n h => (hl e (by simp) n h).2
    simp only [format, List.flatMap_cons] at ih ⊢
    rw [shapeOf_append, shape_formatElem w hb e he, ih (fun e' h' => hl e' (List.mem_cons_of_mem _ h'))]

theorem readAll_format (w : Wall) (hb : Bounded w) (l : List Elem) (hl : FracOK l) :
    readAll l (l.map (formatElem w)) = some (l.flatMap (assign w)) := by
  induction l with
  | nil => rfl
  | cons e r ih =>
    simp only [List.map_cons, readAll, List.flatMap_cons]
    rw [readElem_formatElem w hb e (hl e (by simp)), ih (fun e' h' => hl e' (List.mem_cons_of_mem _ h'))]
    rfl

theorem get_set (w : Wall) (k k' : Kind) (v : Int) : (w.set k v).get k' = if k' = k then v else w.get k' := by
  cases k <;> cases k' <;> simp [Wall.set, Wall.get]

theorem get_applyAll (f : Kind → Int) (as : List (Kind × Int)) (h : ∀ a ∈ as, a.2 = f a.1) (w0 : Wall) (k : Kind) :
    (applyAll as w0).get k = if as.any (fun a => a.1 == k) then f k else w0.get k := by
  induction as generalizing w0 with
  | nil => simp [applyAll]
  | cons a r ih =>
    have ha := h a (by simp)
    have hr := ih (fun a' h' => h a' (List.mem_cons_of_mem _ h')) (w0.set a.1 a.2)
    simp only [applyAll, List.foldl_cons] at hr ⊢
    rw [hr, get_set]
    by_cases hk : a.1 = k
    · have hb : (a.1 == k) = true := by simp [hk]
      simp only [List.any_cons, hb, Bool.true_or, if_true]
      rw [if_pos hk.symm, ha, hk]
      split <;> rfl
    · have hb : (a.1 == k) = false := by simp [hk]
      simp only [List.any_cons, hb, Bool.false_or]
      rw [if_neg (Ne.symm hk)]

theorem Wall.ext_get (a b : Wall) (h : ∀ k, a.get k = b.get k) : a = b := by
  cases a; cases b
  have h1 := h .year; have h2 := h .month; have h3 := h .day; have h4 := h .hour
  have h5 := h .minute; have h6 := h .second; have h7 := h .nanos; have h8 := h .offset
  simp [Wall.get] at h1 h2 h3 h4 h5 h6 h7 h8
  simp [*]

/-- the layout can express the reading: every field it writes is written exactly (no truncation)
    and every field it does not write has the value `time.Parse` starts from -/
def Expressible (l : List Elem) (w : Wall) : Prop :=
  (∀ e ∈ l, ∀ a ∈ assign w e, a.2 = w.get a.1) ∧
  (∀ k, (∀ e ∈ l, ∀ a ∈ assign w e, a.1 ≠ k) → w.get k = Wall.zero.get k)

theorem applyAll_assign (l : List Elem) (w : Wall) (hx : Expressible l w) :
    applyAll (l.flatMap (assign w)) Wall.zero = w := by
  apply Wall.ext_get
  intro k
  rw [get_applyAll w.get]
  · split
    · rfl
    · rename_i hany
      apply (hx.2 k _).symm
      intro e he a ha hk
      apply hany
      simp only [List.any_eq_true, List.mem_flatMap]
      exact ⟨a, ⟨e, he, ha⟩, by simp [hk]⟩
  · intro a ha
    simp only [List.mem_flatMap] at ha
    obtain ⟨e, he, hae⟩ := ha
    exact hx.1 e he a hae

def ShapeOK (l : List Elem) : Prop :=
  ∀ v : TZV, splitW l (l.flatMap (elemShape v)) = some (l.map fun e => (elemShape v e).length)

instance (l : List Elem) : Decidable (ShapeOK l) :=
  decidable_of_iff (∀ v ∈ [TZV.z, .plus, .minus], splitW l (l.flatMap (elemShape v)) = some (l.map fun e => (elemShape v e).length))
    ⟨fun h v => h v (by cases v <;> simp), fun h v _ => h v⟩

theorem parseWith_format (l : List Elem) (hl : FracOK l) (hs : ShapeOK l) (w : Wall) (hb : Bounded w)
    (hx : Expressible l w) : parseWith l (format l w) = some w := by
  unfold parseWith
  rw [shape_format w hb l hl, hs (tzv w)]
  have hw : (l.map fun e => (elemShape (tzv w) e).length) = (l.map (formatElem w)).map List.length := by
    rw [List.map_map]; apply List.map_congr_left
    intro e he; simp only [Function.comp]
    exact (length_formatElem w hb e (fun n h => (hl e he n h).2)).symm
  have hf : format l w = (l.map (formatElem w)).flatten := by simp [format, List.flatMap]
  simp only [hw, hf, splitBy_flatten, readAll_format w hb l hl, applyAll_assign l w hx]
  have := hb.day
  rw [if_neg (by simp; omega)]


theorem parseWith_none_of_shape (l : List Elem) (s : S) (h : splitW l (shapeOf s) = none) : parseWith l s = none := by
  simp [parseWith, h]

theorem parseFirst_skip (pre : List (List Elem)) (l : List Elem) (post : List (List Elem)) (s : S) (w : Wall)
    (hpre : ∀ lj ∈ pre, parseWith lj s = none) (hl : parseWith l s = some w) :
    parseFirst (pre ++ l :: post) s = some (pre.length, w) := by
  induction pre with
  | nil => simp [parseFirst, hl]
  | cons p r ih =>
    have := ih (fun lj h => hpre lj (List.mem_cons_of_mem _ h))
    simp [parseFirst, hpre p (by simp), this]

def fracOKb (l : List Elem) : Bool := l.all fun e => match e with | .frac0 n => decide (1 ≤ n) && decide (n ≤ 9) | _ => true

theorem fracOK_of (l : List Elem) (h : fracOKb l = true) : FracOK l := by
  intro e he n hn
  simp only [fracOKb, List.all_eq_true] at h
  have := h e he
  subst hn
  simpa using this

def tzvs : List TZV := [.z, .plus, .minus]

/-- no earlier layout of the list accepts the shape of a string rendered with a later one -/
def prefixesDistinct (ls : List (List Elem)) : Bool :=
  (List.range ls.length).all fun i =>
    match ls[i]? with
    | some l => (ls.take i).all fun lj => tzvs.all fun v => (splitW lj (l.flatMap (elemShape v))).isNone
    | none => true

def shapeOKb (l : List Elem) : Bool :=
  tzvs.all fun v => splitW l (l.flatMap (elemShape v)) == some (l.map fun e => (elemShape v e).length)

theorem shapeOK_of (l : List Elem) (h : shapeOKb l = true) : ShapeOK l := by
  intro v
  simp only [shapeOKb, tzvs, List.all_cons, List.all_nil, Bool.and_true, Bool.and_eq_true, beq_iff_eq] at h
  cases v
  · exact h.1
  · exact h.2.1
  · exact h.2.2

/-- rendering with the i-th layout of an ordered list and re-parsing with the list returns the
    same layout and the same reading -/
theorem parseFirst_format (ls : List (List Elem)) (i : Nat) (l : List Elem) (hi : ls[i]? = some l)
    (hd : prefixesDistinct ls = true) (hf : fracOKb l = true) (hs : shapeOKb l = true)
    (w : Wall) (hb : Bounded w) (hx : Expressible l w) :
    parseFirst ls (format l w) = some (i, w) := by
  have hlt : i < ls.length := by
    rcases Nat.lt_or_ge i ls.length with h | h
    · exact h
    · rw [List.getElem?_eq_none h] at hi; cases hi
  have hsplit : ls = ls.take i ++ l :: ls.drop (i + 1) := by
    have hget : ls[i] = l := by
      have := List.getElem?_eq_getElem hlt; rw [this] at hi; exact Option.some.inj hi
    rw [← hget]; simp
  have hlen : (ls.take i).length = i := by simp; omega
  have hpw := parseWith_format l (fracOK_of l hf) (shapeOK_of l hs) w hb hx
  have hpre : ∀ lj ∈ ls.take i, parseWith lj (format l w) = none := by
    intro lj hlj
    apply parseWith_none_of_shape
    rw [shape_format w hb l (fracOK_of l hf)]
    simp only [prefixesDistinct, List.all_eq_true, List.mem_range] at hd
    have := hd i hlt
    rw [hi] at this
    simp only [List.all_eq_true] at this
    have h3 := this lj hlj (tzv w) (by cases tzv w <;> simp [tzvs])
    simpa using h3
  have := parseFirst_skip (ls.take i) l (ls.drop (i + 1)) (format l w) w hpre hpw
  rw [← hsplit, hlen] at this
  exact this

def kindOf : Elem → List Kind
  | .lit _ => [] | .year4 => [.year] | .month2 => [.month] | .day2 => [.day] | .hour => [.hour]
  | .minute2 => [.minute] | .second2 => [.second] | .frac0 _ => [.nanos] | .tzColon => [.offset]

theorem expressible_of (l : List Elem) (w : Wall)
    (h1 : ∀ n, Elem.frac0 n ∈ l → w.nanos % pow10 (9 - n) = 0)
    (h2 : ∀ k, k ∉ l.flatMap kindOf → w.get k = Wall.zero.get k) : Expressible l w := by
  constructor
  · intro e he a ha
    cases e <;> simp [assign] at ha <;> subst ha <;> simp [Wall.get]
    rename_i n
    exact Int.ediv_mul_cancel (Int.dvd_of_emod_eq_zero (h1 n he))
  · intro k hk
    apply h2
    intro hmem
    simp only [List.mem_flatMap] at hmem
    obtain ⟨e, he, hke⟩ := hmem
    cases e <;> simp [kindOf] at hke <;> subst hke <;> exact hk _ he (_, _) (by simp only [assign]; exact List.mem_singleton.mpr rfl) rfl


theorem natDigits_head_digit (n : Nat) : ∃ c r, natDigits n = c :: r ∧ isDigit c = true := by
  have hne := natDigits_ne_nil n
  have had := allDigits_natDigits n
  cases h : natDigits n with
  | nil => exact absurd h hne
  | cons c r => rw [h] at had; simp only [List.all_cons, Bool.and_eq_true] at had; exact ⟨c, r, rfl, had.1⟩

theorem parseIntGo_renderInt (i : Int) (h : -2147483648 ≤ i ∧ i < 2147483648) :
    parseIntGo (renderInt i) 32 = some i := by
  have had := allDigits_natDigits i.natAbs
  have hne := natDigits_ne_nil i.natAbs
  have hval := digitsVal_natDigits i.natAbs
  unfold renderInt
  by_cases hneg : i < 0
  · simp only [hneg, if_true, parseIntGo]
    have he : (natDigits i.natAbs).isEmpty = false := by simp [hne]
    simp only [he, had, Bool.not_true, Bool.or_false, hval]
    have hi : -(i.natAbs : Int) = i := by omega
    have h2 : ((2:Int) ^ (32 - 1)) = 2147483648 := by rfl
    simp only [if_true, hi, h2]
    simp; omega
  · simp only [hneg, if_false]
    obtain ⟨c, r, hcr, hc⟩ := natDigits_head_digit i.natAbs
    have hp : c ≠ '+' := by intro hc'; rw [hc'] at hc; exact absurd hc (by decide)
    have hm : c ≠ '-' := by intro hc'; rw [hc'] at hc; exact absurd hc (by decide)
    rw [hcr] at had hval ⊢
    unfold parseIntGo
    split
    · rename_i heq; simp at heq; exact absurd heq.1 hp
    · rename_i heq; simp at heq; exact absurd heq.1 hm
    · split
      · rename_i heq; simp at heq; exact absurd heq.1 hm
      · have h2 : ((2:Int) ^ (32 - 1)) = 2147483648 := by rfl
        have hi : (i.natAbs : Int) = i := by omega
        simp only [had, hval, h2, hi]
        simp; omega

end FP.Lemmas.Text
