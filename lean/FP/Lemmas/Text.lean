/- Lemmas about the text model: decimal digits, padding, shapes. -/
import FP.Model.Text
namespace FP.Lemmas.Text
open FP.Model.Text
theorem digitVal_digitChar : ∀ d, d < 10 → digitVal (digitChar d) = d := by decide
theorem isDigit_digitChar : ∀ d, d < 10 → isDigit (digitChar d) = true := by decide
theorem digitsVal_append1 (s : S) (c : Char) : digitsVal (s ++ [c]) = digitsVal s * 10 + digitVal c := by
  simp [digitsVal, List.foldl_append]
theorem digitsVal_natDigits (n : Nat) : digitsVal (natDigits n) = n := by
  induction n using Nat.strongRecOn with
  | _ n ih =>
    rw [natDigits]
    split
    · rename_i h; simp [digitsVal, digitVal_digitChar n h]
    · rename_i h
      rw [digitsVal_append1, ih (n / 10) (by omega), digitVal_digitChar _ (Nat.mod_lt _ (by omega))]
      omega
theorem allDigits_natDigits (n : Nat) : (natDigits n).all isDigit = true := by
  induction n using Nat.strongRecOn with
  | _ n ih =>
    rw [natDigits]
    split
    · rename_i h; simp [isDigit_digitChar n h]
    · rename_i h
      simp only [List.all_append, ih (n / 10) (by omega), List.all_cons, List.all_nil, Bool.and_true, Bool.true_and]
      exact isDigit_digitChar _ (Nat.mod_lt _ (by omega))
theorem natDigits_ne_nil (n : Nat) : natDigits n ≠ [] := by
  rw [natDigits]; split <;> simp

theorem natDigits_length_le (k : Nat) : ∀ n, n < 10 ^ k → 1 ≤ k → (natDigits n).length ≤ k := by
  induction k with
  | zero => intro n _ h; omega
  | succ k ih =>
    intro n hn _
    rw [natDigits]
    split
    · simp
    · rename_i h
      have hk : 1 ≤ k := by
        rcases k with _ | k
        · simp at hn; omega
        · omega
      have : n / 10 < 10 ^ k := by
        rw [Nat.pow_succ] at hn; omega
      have := ih (n / 10) this hk
      simp; omega

theorem digitsVal_zeros (k : Nat) (d : S) : digitsVal (List.replicate k '0' ++ d) = digitsVal d := by
  induction k with
  | zero => simp
  | succ k ih =>
    have : digitsVal (List.replicate (k + 1) '0' ++ d) = digitsVal (List.replicate k '0' ++ d) := by
      simp only [digitsVal, List.replicate_succ, List.cons_append, List.foldl_cons]
      have : (0 * 10 + digitVal '0') = 0 := by decide
      rw [this]
    rw [this, ih]

theorem padNat_length (w n : Nat) (h : n < 10 ^ w) (hw : 1 ≤ w) : (padNat w n).length = w := by
  have := natDigits_length_le w n h hw
  simp [padNat]; omega
theorem padNat_val (w n : Nat) : digitsVal (padNat w n) = n := by
  simp only [padNat]; rw [digitsVal_zeros, digitsVal_natDigits]
theorem padNat_allDigits (w n : Nat) : (padNat w n).all isDigit = true := by
  simp only [padNat, List.all_append, allDigits_natDigits, Bool.and_true]
  simp [List.all_replicate]; right; decide

theorem padNat2 (n : Nat) (h : n < 100) : padNat 2 n = [digitChar (n / 10), digitChar (n % 10)] := by
  unfold padNat
  rw [natDigits]
  split
  · rename_i h1
    have : n / 10 = 0 := by omega
    have h2 : n % 10 = n := by omega
    simp [this, h2]; decide
  · rename_i h1
    rw [natDigits]
    have : n / 10 < 10 := by omega
    simp [this]

theorem shapeOf_allDigits (s : S) (h : s.all isDigit = true) : shapeOf s = List.replicate s.length none := by
  induction s with
  | nil => rfl
  | cons c r ih =>
    simp only [List.all_cons, Bool.and_eq_true] at h
    obtain ⟨h1, h2⟩ := h
    have := ih h2
    simp only [shapeOf] at this
    simp [shapeOf, symOf, h1, List.replicate_succ, this]


theorem foldl_digits (s : S) (a : Nat) :
    s.foldl (fun a c => a * 10 + digitVal c) a = a * 10 ^ s.length + digitsVal s := by
  induction s generalizing a with
  | nil => simp [digitsVal]
  | cons c r ih =>
    simp only [List.foldl_cons, digitsVal, List.length_cons]
    rw [ih, ih (0 * 10 + digitVal c)]
    simp only [digitsVal, Nat.pow_succ]
    rw [Nat.add_mul, Nat.zero_mul, Nat.zero_add, Nat.mul_assoc, Nat.mul_comm 10]
    omega

theorem digitsVal_cons (c : Char) (r : S) : digitsVal (c :: r) = digitVal c * 10 ^ r.length + digitsVal r := by
  have := foldl_digits r (0 * 10 + digitVal c)
  simp only [digitsVal, List.foldl_cons] at this ⊢
  rw [this]; simp

theorem digitsVal_lt (s : S) (h : s.all isDigit = true) : digitsVal s < 10 ^ s.length := by
  induction s with
  | nil => simp [digitsVal]
  | cons c r ih =>
    simp only [List.all_cons, Bool.and_eq_true] at h
    have h1 := ih h.2
    rw [digitsVal_cons]
    have hc : digitVal c < 10 := by
      have := h.1; simp only [isDigit, Bool.and_eq_true, decide_eq_true_eq] at this
      unfold digitVal; omega
    simp only [List.length_cons, Nat.pow_succ]
    have : digitVal c * 10 ^ r.length ≤ 9 * 10 ^ r.length := Nat.mul_le_mul_right _ (by omega)
    omega

theorem digitsVal_append (a b : S) : digitsVal (a ++ b) = digitsVal a * 10 ^ b.length + digitsVal b := by
  simp only [digitsVal, List.foldl_append]
  rw [foldl_digits]; rfl

theorem digitsVal_take (s : S) (h : s.all isDigit = true) (k : Nat) :
    digitsVal (s.take k) = digitsVal s / 10 ^ (s.length - k) := by
  have hs : s = s.take k ++ s.drop k := (List.take_append_drop k s).symm
  have hd : (s.drop k).all isDigit = true := by
    rw [List.all_eq_true] at h ⊢; intro x hx; exact h x (List.mem_of_mem_drop hx)
  have hlt := digitsVal_lt _ hd
  have hl : (s.drop k).length = s.length - k := by simp
  have := digitsVal_append (s.take k) (s.drop k)
  rw [← hs, hl] at this
  rw [hl] at hlt
  rw [this, Nat.add_comm, Nat.add_mul_div_right _ _ (Nat.pow_pos (by omega)), Nat.div_eq_of_lt hlt]; simp


inductive TZV | z | plus | minus deriving DecidableEq, Repr

def tzv (w : Wall) : TZV := if w.offset = 0 then .z else if w.offset < 0 then .minus else .plus

structure Bounded (w : Wall) : Prop where
  year : 0 ≤ w.year ∧ w.year ≤ 9999
  month : 1 ≤ w.month ∧ w.month ≤ 12
  day : 1 ≤ w.day ∧ w.day ≤ daysIn w.month w.year
  hour : 0 ≤ w.hour ∧ w.hour < 24
  minute : 0 ≤ w.minute ∧ w.minute < 60
  second : 0 ≤ w.second ∧ w.second < 60
  nanos : 0 ≤ w.nanos ∧ w.nanos < 1000000000
  offset : w.offset % 60 = 0 ∧ -86400 < w.offset ∧ w.offset < 86400

def elemShape (v : TZV) : Elem → List Sym
  | .year4 => [none, none, none, none]
  | .month2 | .day2 | .hour | .minute2 | .second2 => [none, none]
  | .frac0 n => some '.' :: List.replicate n none
  | .tzColon => match v with
    | .z => [some 'Z']
    | .plus => [some '+', none, none, some ':', none, none]
    | .minus => [some '-', none, none, some ':', none, none]
  | .lit c => [symOf c]

theorem daysIn_le (m y : Int) : daysIn m y ≤ 31 := by
  unfold daysIn; split <;> (try split) <;> omega

theorem shape_pad (w n : Nat) (h : n < 10 ^ w) (hw : 1 ≤ w) : shapeOf (padNat w n) = List.replicate w none := by
  rw [shapeOf_allDigits _ (padNat_allDigits w n), padNat_length w n h hw]

theorem shape_formatElem (w : Wall) (hb : Bounded w) (e : Elem) (he : ∀ n, e = .frac0 n → n ≤ 9) :
    shapeOf (formatElem w e) = elemShape (tzv w) e := by
  have hd := daysIn_le w.month w.year
  cases e with
  | year4 => simp only [formatElem, elemShape]; rw [shape_pad 4 _ (by have := hb.year; omega) (by omega)]; rfl
  | month2 => simp only [formatElem, elemShape]; rw [shape_pad 2 _ (by have := hb.month; omega) (by omega)]; rfl
  | day2 => simp only [formatElem, elemShape]; rw [shape_pad 2 _ (by have := hb.day; omega) (by omega)]; rfl
  | hour => simp only [formatElem, elemShape]; rw [shape_pad 2 _ (by have := hb.hour; omega) (by omega)]; rfl
  | minute2 => simp only [formatElem, elemShape]; rw [shape_pad 2 _ (by have := hb.minute; omega) (by omega)]; rfl
  | second2 => simp only [formatElem, elemShape]; rw [shape_pad 2 _ (by have := hb.second; omega) (by omega)]; rfl
  | frac0 n =>
    have hn := he n rfl
    simp only [formatElem, elemShape, shapeOf, List.map_cons, List.map_take]
    have := shape_pad 9 w.nanos.toNat (by have := hb.nanos; omega) (by omega)
    simp only [shapeOf] at this
    rw [this]
    have key : ∀ n, n ≤ 9 → List.take n (List.replicate 9 (none : Sym)) = List.replicate n none := by decide
    rw [key n hn]
    simp [symOf, isDigit]
  | tzColon =>
    simp only [formatElem, elemShape, tzv]
    have ho := hb.offset
    by_cases h0 : w.offset = 0
    · simp [h0, shapeOf, symOf, isDigit]
    · simp only [h0, if_false]
      have htd : Int.tdiv w.offset 60 = w.offset / 60 := Int.tdiv_eq_ediv_of_dvd (by omega)
      rw [htd]
      have hz : (w.offset / 60 < 0) ↔ w.offset < 0 := by omega
      have hq : (w.offset / 60).natAbs / 60 < 100 := by omega
      have hr : (w.offset / 60).natAbs % 60 < 100 := by omega
      by_cases hneg : w.offset < 0
      · have : w.offset / 60 < 0 := hz.mpr hneg
        simp only [this, hneg, if_true, shapeOf, List.map_cons, List.map_append]
        have h1 := shape_pad 2 _ hq (by omega); have h2 := shape_pad 2 _ hr (by omega)
        simp only [shapeOf] at h1 h2
        rw [h1, h2]; simp [symOf, isDigit]
      · have : ¬ w.offset / 60 < 0 := fun h => hneg (hz.mp h)
        simp only [this, hneg, if_false, shapeOf, List.map_cons, List.map_append]
        have h1 := shape_pad 2 _ hq (by omega); have h2 := shape_pad 2 _ hr (by omega)
        simp only [shapeOf] at h1 h2
        rw [h1, h2]; simp [symOf, isDigit]
  | lit c => simp [formatElem, elemShape, shapeOf]


theorem length_formatElem (w : Wall) (hb : Bounded w) (e : Elem) (he : ∀ n, e = .frac0 n → n ≤ 9) :
    (formatElem w e).length = (elemShape (tzv w) e).length := by
  rw [← shape_formatElem w hb e he]; simp [shapeOf]

theorem splitBy_flatten (ps : List S) : splitBy (ps.map List.length) ps.flatten = ps := by
  induction ps with
  | nil => rfl
  | cons p r ih => simp [splitBy, ih]

theorem atoiTime_digits (s : S) (h : s.all isDigit = true) : atoiTime s = some (digitsVal s : Int) := by
  cases s with
  | nil => simp [atoiTime, digitsVal]
  | cons c r =>
    simp only [List.all_cons, Bool.and_eq_true] at h
    have hp : c ≠ '+' := by intro hc; rw [hc] at h; exact absurd h.1 (by decide)
    have hm : c ≠ '-' := by intro hc; rw [hc] at h; exact absurd h.1 (by decide)
    unfold atoiTime
    split
    · rename_i heq; simp at heq; exact absurd heq.1 hp
    · rename_i heq; simp at heq; exact absurd heq.1 hm
    · split
      · rename_i heq; simp at heq; exact absurd heq.1 hm
      · simp [h.1, h.2]

/-- what reading the rendered element assigns -/
def assign (w : Wall) : Elem → List (Kind × Int)
  | .lit _ => []
  | .year4 => [(.year, w.year)]
  | .month2 => [(.month, w.month)]
  | .day2 => [(.day, w.day)]
  | .hour => [(.hour, w.hour)]
  | .minute2 => [(.minute, w.minute)]
  | .second2 => [(.second, w.second)]
  | .frac0 n => [(.nanos, w.nanos / pow10 (9 - n) * pow10 (9 - n))]
  | .tzColon => [(.offset, w.offset)]

theorem readElem_formatElem (w : Wall) (hb : Bounded w) (e : Elem) (he : ∀ n, e = .frac0 n → 1 ≤ n ∧ n ≤ 9) :
    readElem e (formatElem w e) = some (assign w e) := by
  have hd := daysIn_le w.month w.year
  cases e with
  | lit c => simp [readElem, assign]
  | year4 =>
    have hk := hb.year
    simp only [readElem, formatElem, assign, padNat_val, Int.toNat_of_nonneg (show (0:Int) ≤ w.year by omega)]
    try (rw [if_neg (by simp; omega)])
  | month2 =>
    have hk := hb.month
    simp only [readElem, formatElem, assign, padNat_val, Int.toNat_of_nonneg (show (0:Int) ≤ w.month by omega)]
    try (rw [if_neg (by simp; omega)])
  | day2 =>
    have hk := hb.day
    simp only [readElem, formatElem, assign, padNat_val, Int.toNat_of_nonneg (show (0:Int) ≤ w.day by omega)]
    try (rw [if_neg (by simp; omega)])
  | hour =>
    have hk := hb.hour
    simp only [readElem, formatElem, assign, padNat_val, Int.toNat_of_nonneg (show (0:Int) ≤ w.hour by omega)]
    try (rw [if_neg (by simp; omega)])
  | minute2 =>
    have hk := hb.minute
    simp only [readElem, formatElem, assign, padNat_val, Int.toNat_of_nonneg (show (0:Int) ≤ w.minute by omega)]
    try (rw [if_neg (by simp; omega)])
  | second2 =>
    have hl : (padNat 2 w.second.toNat).length = 2 := padNat_length 2 _ (by have := hb.second; omega) (by omega)
    have hk := hb.second
    have ht : (padNat 2 w.second.toNat).take 2 = padNat 2 w.second.toNat := List.take_of_length_le (by omega)
    simp only [readElem, readSecond, formatElem, assign, ht, padNat_val, hl, Int.toNat_of_nonneg (show (0:Int) ≤ w.second by omega)]
    rw [if_neg (by omega), if_pos (by omega)]
  | frac0 n =>
    obtain ⟨h1, h9⟩ := he n rfl
    have hl : (padNat 9 w.nanos.toNat).length = 9 := padNat_length 9 _ (by have := hb.nanos; omega) (by omega)
    have had := padNat_allDigits 9 w.nanos.toNat
    have hta : ((padNat 9 w.nanos.toNat).take n).all isDigit = true := by
      rw [List.all_eq_true] at had ⊢; intro x hx; exact had x (List.mem_of_mem_take hx)
    have hlen : ((padNat 9 w.nanos.toNat).take n).length = n := by simp [hl]; omega
    simp only [readElem, formatElem, assign, parseNanos]
    rw [List.take_of_length_le (by omega), atoiTime_digits _ hta, digitsVal_take _ had, padNat_val, hl, hlen]
    have hn := hb.nanos
    simp only [Option.map_some]
    have hp : (0 : Int) < pow10 (9 - n) := by unfold pow10; exact Int.pow_pos (by omega)
    have hcast : ((w.nanos.toNat / 10 ^ (9 - n) : Nat) : Int) = w.nanos / pow10 (9 - n) := by
      unfold pow10; rw [Int.natCast_ediv]; simp [Int.toNat_of_nonneg hn.1]
    rw [hcast]
    have hnn : 0 ≤ w.nanos / pow10 (9 - n) := Int.ediv_nonneg hn.1 (by omega)
    simp [Int.not_lt.mpr hnn]
  | tzColon =>
    have ho := hb.offset
    simp only [formatElem, assign, readElem]
    by_cases h0 : w.offset = 0
    · simp [h0, readTz]
    · simp only [h0, if_false]
      have htd : Int.tdiv w.offset 60 = w.offset / 60 := Int.tdiv_eq_ediv_of_dvd (by omega)
      rw [htd, padNat2 _ (by omega), padNat2 _ (by omega)]
      have e1 : ∀ a b, a < 10 → b < 10 → (digitsVal [digitChar a, digitChar b] : Int) = (a * 10 + b : Nat) := by
        intro a b ha hb'
        simp [digitsVal, digitVal_digitChar a ha, digitVal_digitChar b hb']
      have hnz : ∀ c : Char, ((c :: ([digitChar ((w.offset / 60).natAbs / 60 / 10), digitChar ((w.offset / 60).natAbs / 60 % 10)] ++
          ':' :: [digitChar ((w.offset / 60).natAbs % 60 / 10), digitChar ((w.offset / 60).natAbs % 60 % 10)])) == ['Z']) = false := by
        intro c; simp
      simp only [readTz, hnz, List.cons_append, List.nil_append, List.length_cons, List.length_nil, List.drop_succ_cons, List.drop_zero,
        List.take_succ_cons, List.take_zero, List.head?_cons]
      rw [e1 _ _ (by omega) (by omega), e1 _ _ (by omega) (by omega)]
      have hr : ¬ ((24 : Int) < ((((w.offset / 60).natAbs / 60 / 10 * 10 + (w.offset / 60).natAbs / 60 % 10 : Nat)) : Int) ||
          (60 : Int) < (((w.offset / 60).natAbs % 60 / 10 * 10 + (w.offset / 60).natAbs % 60 % 10 : Nat) : Int)) = true := by
        simp; omega
      by_cases hneg : w.offset / 60 < 0
      · simp [hneg, hr]; omega
      · have : ('+' == '-') = false := by decide
        simp [hneg, hr]; omega

end FP.Lemmas.Text
