/- Helper lemmas about the component loops of temporal TryEqual/Less and about lexLt.  Core Lean only. -/
import FP.Model.Compare
namespace FP.Lemmas
open FP FP.Model

theorem eqLoopF_symm (k : TKind) (fa fb : Nat → Int) (i n : Nat) : eqLoopF k fa fb i n = eqLoopF k fb fa i n := by
  induction n generalizing i with
  | zero => rfl
  | succ n ih =>
    unfold eqLoopF
    by_cases h : fa i = fb i
    · simp [h, ih]
    · have h' : ¬ fb i = fa i := fun e => h e.symm
      simp [h, h']

/-- the loops fall through together: both stop at the first differing (or `second`) index -/
theorem ltLoopF_none_iff (k : TKind) (fa fb : Nat → Int) (i n : Nat) :
    ltLoopF k fa fb i n = none ↔ eqLoopF k fa fb i n = none := by
  induction n generalizing i with
  | zero => simp [ltLoopF, eqLoopF]
  | succ n ih =>
    unfold ltLoopF eqLoopF
    split <;> simp_all

theorem ltLoopF_none_symm (k : TKind) (fa fb : Nat → Int) (i n : Nat) :
    ltLoopF k fa fb i n = none ↔ ltLoopF k fb fa i n = none := by
  rw [ltLoopF_none_iff, ltLoopF_none_iff, eqLoopF_symm]

/-- asymmetry: never both `a < b` and `b < a` -/
theorem ltLoopF_asymm (k : TKind) (fa fb : Nat → Int) (i n : Nat) :
    ltLoopF k fa fb i n = some true → ltLoopF k fb fa i n ≠ some true := by
  induction n generalizing i with
  | zero => simp [ltLoopF]
  | succ n ih =>
    unfold ltLoopF
    by_cases h : fa i = fb i
    · by_cases hs : secondIdx k = some i
      · simp [h, hs]
      · simp [h, hs]; exact ih (i + 1)
    · have h' : ¬ fb i = fa i := fun e => h e.symm
      simp [h, h']; omega

/-- `<` excludes `=` -/
theorem ltLoopF_excludes_eq (k : TKind) (fa fb : Nat → Int) (i n : Nat) :
    ltLoopF k fa fb i n = some true → eqLoopF k fa fb i n ≠ some true := by
  induction n generalizing i with
  | zero => simp [ltLoopF]
  | succ n ih =>
    unfold ltLoopF eqLoopF
    by_cases h : fa i = fb i
    · by_cases hs : secondIdx k = some i
      · simp [h, hs]
      · simp [h, hs]; exact ih (i + 1)
    · simp [h]; cases k <;> simp

/-- transitivity across (possibly different) shared precisions -/
theorem ltLoopF_trans (k : TKind) (fa fb fc : Nat → Int) (i n1 n2 n3 : Nat) (h3 : min n1 n2 ≤ n3) :
    ltLoopF k fa fb i n1 = some true → ltLoopF k fb fc i n2 = some true → ltLoopF k fa fc i n3 = some true := by
  induction n1 generalizing i n2 n3 with
  | zero => simp [ltLoopF]
  | succ n1 ih =>
    cases n2 with
    | zero => simp [ltLoopF]
    | succ n2 =>
      cases n3 with
      | zero => omega
      | succ n3 =>
        unfold ltLoopF
        by_cases hs : secondIdx k = some i
        · simp [hs]; omega
        · by_cases hab : fa i = fb i
          · by_cases hbc : fb i = fc i
            · have hac : fa i = fc i := hab.trans hbc
              simp [hab, hbc, hs]
              exact ih (i + 1) n2 n3 (by omega)
            · have hac : ¬ fa i = fc i := by rw [hab]; exact hbc
              simp [hab, hbc, hs]
          · by_cases hbc : fb i = fc i
            · have hac : ¬ fa i = fc i := by rw [← hbc]; exact hab
              simp [hab, hbc, hs, hac]
              rw [← hbc]; intro h _; exact h
            · simp [hab, hbc, hs]
              intro h1 h2
              have : ¬ fa i = fc i := by omega
              simp [this]; omega

theorem slowLess_true_iff (k : TKind) (a b : Tmp) :
    slowLess k a b = .ok true ↔ ltLoopF k (nth a.comps) (nth b.comps) 0 (min (prec k a) (prec k b) + 1) = some true := by
  unfold slowLess ltLoop
  cases ltLoopF k (nth a.comps) (nth b.comps) 0 (min (prec k a) (prec k b) + 1) with
  | some r => simp
  | none => simp; split <;> simp

theorem slowLess_error_iff (k : TKind) (a b : Tmp) (e : String) :
    slowLess k a b = .error e ↔
      (ltLoopF k (nth a.comps) (nth b.comps) 0 (min (prec k a) (prec k b) + 1) = none ∧
        ¬ (k = .dateTime ∧ prec k a = prec k b) ∧ e = "ErrMismatchedPrecision") := by
  unfold slowLess ltLoop
  cases ltLoopF k (nth a.comps) (nth b.comps) 0 (min (prec k a) (prec k b) + 1) with
  | some r => simp
  | none =>
    by_cases c : k = .dateTime ∧ prec k a = prec k b
    · have c' : ((k == TKind.dateTime && prec k a == prec k b) = true) := by simpa using c
      simp only [c', if_true]
      constructor
      · intro h; cases h
      · intro h; exact absurd c h.2.1
    · have c' : ¬ ((k == TKind.dateTime && prec k a == prec k b) = true) := by simpa using c
      simp only [c']
      constructor
      · intro h; cases h; exact ⟨trivial, c, rfl⟩
      · intro h; rw [h.2.2]; rfl

theorem slowEq_true_iff (k : TKind) (a b : Tmp) :
    slowEq k a b = (true, true) ↔
      (eqLoopF k (nth a.comps) (nth b.comps) 0 (min (prec k a) (prec k b) + 1) = some true ∨
       (eqLoopF k (nth a.comps) (nth b.comps) 0 (min (prec k a) (prec k b) + 1) = none ∧ k = .dateTime ∧ prec k a = prec k b)) := by
  unfold slowEq eqLoop
  cases eqLoopF k (nth a.comps) (nth b.comps) 0 (min (prec k a) (prec k b) + 1) with
  | some r => simp
  | none =>
    by_cases c : k = .dateTime ∧ prec k a = prec k b
    · simp [c]
    · have c' : ¬ ((k == TKind.dateTime && prec k a == prec k b) = true) := by simpa using c
      simp [c', c]

theorem lexLt_irrefl (a : List Int) : lexLt a a = false := by
  induction a with
  | nil => rfl
  | cons x xs ih => simp [lexLt, ih]

theorem lexLt_asymm (a b : List Int) : lexLt a b = true → lexLt b a = false := by
  induction a generalizing b with
  | nil => intro h; simp [lexLt] at h
  | cons x xs ih =>
    cases b with
    | nil => intro h; simp [lexLt] at h
    | cons y ys =>
      simp only [lexLt, Bool.or_eq_true, decide_eq_true_eq, Bool.and_eq_true, beq_iff_eq, Bool.or_eq_false_iff,
        decide_eq_false_iff_not, Bool.and_eq_false_iff]
      intro h
      rcases h with h | ⟨h1, h2⟩
      · constructor
        · omega
        · left; simp; omega
      · constructor
        · omega
        · right; exact ih ys h2

theorem lexLt_trans (a b c : List Int) : lexLt a b = true → lexLt b c = true → lexLt a c = true := by
  induction a generalizing b c with
  | nil => intro h; simp [lexLt] at h
  | cons x xs ih =>
    cases b with
    | nil => intro h; simp [lexLt] at h
    | cons y ys =>
      cases c with
      | nil => intro _ h; simp [lexLt] at h
      | cons z zs =>
        simp only [lexLt, Bool.or_eq_true, decide_eq_true_eq, Bool.and_eq_true, beq_iff_eq]
        intro h1 h2
        rcases h1 with h1 | ⟨e1, t1⟩ <;> rcases h2 with h2 | ⟨e2, t2⟩
        · left; omega
        · left; omega
        · left; omega
        · right; exact ⟨by omega, ih ys zs t1 t2⟩

theorem lexLt_ne (a b : List Int) : lexLt a b = true → a ≠ b := by
  intro h e; subst e; rw [lexLt_irrefl] at h; exact Bool.false_ne_true h

end FP.Lemmas
