import FP.Model.Path
namespace FP.Lemmas.Path
open FP FP.Model

/-- combining the outcomes of two adjacent parts of a collection: first error wins -/
def seq {α : Type} (a b : Res (List α)) : Res (List α) :=
  match a with
  | .ok x => (match b with | .ok y => .ok (x ++ y) | e => e)
  | e => e

theorem stepAll_append {α : Type} (f : α → Res (List α)) (a b : List α) :
    stepAll f (a ++ b) = seq (stepAll f a) (stepAll f b) := by
  induction a with
  | nil => simp only [List.nil_append, stepAll, seq]; cases stepAll f b <;> simp
  | cons x r ih =>
    simp only [List.cons_append, stepAll, ih]
    cases hx : f x with
    | ok out =>
      cases hr : stepAll f r with
      | ok m1 =>
        cases hb : stepAll f b with
        | ok m2 => simp [seq, List.append_assoc]
        | err e => simp [seq]
        | panic => simp [seq]
      | err e => simp [seq]
      | panic => simp [seq]
    | err e => simp [seq]
    | panic => simp [seq]

theorem evalPath_append {α : Type} (s t : List (α → Res (List α))) (c : List α) :
    evalPath (s ++ t) c = (evalPath s c).bind (evalPath t) := by
  induction s generalizing c with
  | nil => simp [evalPath, Res.bind]
  | cons f fs ih =>
    simp only [List.cons_append, evalPath]
    cases stepAll f c with
    | ok c' => exact ih c'
    | err e => rfl
    | panic => rfl

/-- a path over a collection that is the concatenation of two parts: when both parts succeed, the
    result is the concatenation of the two results — document order and flattening hold for whole
    paths, not only for one step -/
theorem evalPath_distributes {α : Type} (fs : List (α → Res (List α))) (a b ra rb : List α)
    (ha : evalPath fs a = .ok ra) (hb : evalPath fs b = .ok rb) : evalPath fs (a ++ b) = .ok (ra ++ rb) := by
  induction fs generalizing a b with
  | nil => simp only [evalPath] at ha hb ⊢; cases ha; cases hb; rfl
  | cons f fs ih =>
    simp only [evalPath] at ha hb ⊢
    rw [stepAll_append]
    cases h1 : stepAll f a with
    | ok a' =>
      rw [h1] at ha
      cases h2 : stepAll f b with
      | ok b' => rw [h2] at hb; simp only [seq]; exact ih a' b' ha hb
      | err e => rw [h2] at hb; cases hb
      | panic => rw [h2] at hb; cases hb
    | err e => rw [h1] at ha; cases ha
    | panic => rw [h1] at ha; cases ha

/-- an error anywhere along the path is the outcome of the path: no later step runs -/
theorem evalPath_error {α : Type} (s t : List (α → Res (List α))) (c : List α) (e : String)
    (h : evalPath s c = .err e) : evalPath (s ++ t) c = .err e := by
  rw [evalPath_append, h]; rfl

/-- a path yields exactly what its last step yields on the result of the path before it -/
theorem evalPath_snoc {α : Type} (s : List (α → Res (List α))) (f : α → Res (List α)) (c c' : List α)
    (h : evalPath s c = .ok c') : evalPath (s ++ [f]) c = stepAll f c' := by
  rw [evalPath_append, h]
  simp only [Res.bind, evalPath]
  cases stepAll f c' <;> rfl

/-- the empty collection stays empty along any path (no step fabricates an element) -/
theorem evalPath_nil {α : Type} (fs : List (α → Res (List α))) : evalPath fs [] = .ok [] := by
  induction fs with
  | nil => rfl
  | cons f fs ih => simp [evalPath, stepAll, ih]

/-- on elements of the tree, `stepAll` of the tree step is the collection step of FP.Model.Navigate
    (the one the correspondence check runs against the real `FieldExpression.Evaluate`) -/
theorem stepAll_nodes (t : Tree) (name snake : String) (ms : List (Nat × MsgDesc)) (h : ∀ p ∈ ms, t p.1 = some p.2) :
    stepAll (treeStep t name snake) (ms.map fun p => Out.node p.1) = fieldStepAll name snake ms := by
  induction ms with
  | nil => rfl
  | cons p r ih =>
    have hp := h p (List.mem_cons_self ..)
    have hr := ih (fun q hq => h q (List.mem_cons_of_mem _ hq))
    obtain ⟨id, m⟩ := p
    simp only [List.map_cons, stepAll, treeStep, fieldStepAll] at hp hr ⊢
    rw [hp, hr]
    dsimp only
    generalize fieldStep name snake id m = a
    generalize fieldStepAll name snake r = b
    cases a <;> cases b <;> rfl

/-- a System value has no elements: a further name is an error, whatever it is -/
theorem step_into_value (t : Tree) (name snake : String) (o : Out) (h : (∃ i, o = .prim i) ∨ o = .synthValue) :
    treeStep t name snake o = .err "not-an-element" := by
  rcases h with ⟨i, h⟩ | h <;> subst h <;> rfl

end FP.Lemmas.Path
