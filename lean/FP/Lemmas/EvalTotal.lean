/-
  FP.Lemmas.EvalTotal — the assembled evaluator (FP.Model.Eval) has no crash outcome: for every
  compiled expression, environment and input, `eval` yields a collection or a named error.
  No hypothesis on the operands: the translated int32 arithmetic never traps on any pair of
  integers, zero divisors are caught before the division, the conversions are total.
-/
import FP.Model.Eval
import FP.Lemmas.Arith
import FP.Props.C06
namespace FP.Lemmas.EvalTotal
open FP FP.Go FP.Model FP.Model.Eval

/-! ### the pieces -/

theorem bind_ne_panic {α β : Type} (r : Res α) (f : α → Res β) (hr : r ≠ .panic) (hf : ∀ a, f a ≠ .panic) :
    r.bind f ≠ .panic := by
  cases r with
  | ok a => exact hf a
  | err e => simp [Res.bind]
  | panic => exact absurd rfl hr

theorem mapRes_ne_panic {α β : Type} (f : α → β) (r : Res α) (hr : r ≠ .panic) : mapRes f r ≠ .panic := by
  cases r <;> simp_all [mapRes]

theorem add_some (a b : Int) : (Gen.IntArith.add a b).isSome := by unfold Gen.IntArith.add; simp only []; split <;> rfl
theorem sub_some (a b : Int) : (Gen.IntArith.sub a b).isSome := by unfold Gen.IntArith.sub; simp only []; split <;> rfl
theorem mul_some (a b : Int) : (Gen.IntArith.mul a b).isSome := by
  unfold Gen.IntArith.mul
  split
  · rfl
  · rename_i h
    have hb : b ≠ 0 := by
      intro e; apply h; simp [e]
    simp only [gdiv32, hb, if_false, Option.bind]
    cases (decide (wrap32 (a * b) < 0) == !(decide (a < 0) == decide (b < 0))) <;> simp [gand]
    split <;> rfl

/-- arithmetic never traps, on any two values (no range hypothesis) -/
theorem evalOp_ne_panic (op : ArithOp) (l r : Val) : evalOp op l r ≠ .panic := by
  cases op
  case add =>
    cases l <;> cases r <;> simp [evalOp]
    case int.int a b => exact liftInt_ne_panic _ (add_some a b)
    case quantity.quantity => split <;> simp
  case sub =>
    cases l <;> cases r <;> simp [evalOp]
    case int.int a b => exact liftInt_ne_panic _ (sub_some a b)
    case quantity.quantity => split <;> simp
  case mul =>
    cases l <;> cases r <;> simp [evalOp]
    case int.int a b => exact liftInt_ne_panic _ (mul_some a b)
  case div =>
    unfold evalOp
    by_cases hz : isZeroVal r = true
    · simp [hz]
    · simp only [hz]
      cases l <;> cases r <;> simp [Res.ofOption, Res.bind]
      case int.int a b =>
        have : (Dec.div (Dec.ofInt a) (Dec.ofInt b)).isSome := divRound_some _ _ _ (by simpa [isZeroVal, Dec.ofInt] using hz)
        cases h : Dec.div (Dec.ofInt a) (Dec.ofInt b) <;> simp_all
      case dec.dec a b =>
        have : (Dec.div a b).isSome := divRound_some _ _ _ (by simpa [isZeroVal, Dec.isZero] using hz)
        cases h : Dec.div a b <;> simp_all
  case floorDiv =>
    unfold evalOp
    by_cases hz : isZeroVal r = true
    · simp [hz]
    · simp only [hz]
      cases l <;> cases r <;> simp [Res.ofOption, Res.bind]
      case int.int a b =>
        split
        · simp
        · have hb : b ≠ 0 := by simpa [isZeroVal] using hz
          simp [Gen.IntArith.floorDiv, gdiv32, hb]
      case dec.dec a b =>
        have hb : b.coeff ≠ 0 := by simpa [isZeroVal, Dec.isZero] using hz
        simp [decFloorDiv, Dec.quoRem, hb]
        split <;> split <;> simp
  case mod =>
    unfold evalOp
    by_cases hz : isZeroVal r = true
    · simp [hz]
    · simp only [hz]
      cases l <;> cases r <;> simp [Res.ofOption, Res.bind]
      case int.int a b =>
        have hb : b ≠ 0 := by simpa [isZeroVal] using hz
        simp [Gen.IntArith.mod, gmod32, hb]
      case dec.dec a b =>
        have hb : b.coeff ≠ 0 := by simpa [isZeroVal, Dec.isZero] using hz
        simp [Dec.mod, Dec.quoRem, hb]

theorem arithColl_ne_panic (op : ArithOp) (l r : List Val) : arithColl op l r ≠ .panic := by
  unfold arithColl
  split
  · simp
  · split
    · intro h
      unfold arithExpr at h
      rw [mapErr_panic] at h
      exact evalOp_ne_panic _ _ _ h
    · simp

theorem shift_ne_panic (r : Res Text.Wall) (h : r ≠ .panic) (f : Text.Wall → Val) :
    (r.bind fun w => .ok (f w)) ≠ .panic := bind_ne_panic _ _ h (fun _ => by simp)

theorem shiftDate_ne_panic (p : Calendar.Prec) (w : Text.Wall) (v : Dec) (u : String) (sg : Int) : Calendar.shiftDate p w v u sg ≠ .panic := by
  unfold Calendar.shiftDate; split
  · simp
  · split <;> simp
theorem shiftDateTime_ne_panic (p : Calendar.Prec) (w : Text.Wall) (v : Dec) (u : String) (sg : Int) : Calendar.shiftDateTime p w v u sg ≠ .panic := by
  unfold Calendar.shiftDateTime; split <;> simp
theorem shiftTime_ne_panic (p : Calendar.Prec) (w : Text.Wall) (v : Dec) (u : String) (sg : Int) : Calendar.shiftTime p w v u sg ≠ .panic := by
  unfold Calendar.shiftTime; split
  · simp
  · split <;> simp

theorem shiftVal_ne_panic (sg : Int) (l : Val) (v : Dec) (u : List UInt8) : Temporal.shiftVal sg l v u ≠ .panic := by
  unfold Temporal.shiftVal
  split
  · simp
  · split
    · split
      · simp
      · exact shift_ne_panic _ (shiftDate_ne_panic _ _ _ _ _) _
    · split
      · simp
      · exact shift_ne_panic _ (shiftDateTime_ne_panic _ _ _ _ _) _
    · split
      · simp
      · exact shift_ne_panic _ (shiftTime_ne_panic _ _ _ _ _) _
    · simp

theorem mapArithErr_ne_panic (x : Res Val) (h : x ≠ .panic) : mapArithErr x ≠ .panic := by
  unfold mapArithErr; split <;> simp_all

theorem arithEv_ne_panic (op : ArithOp) (l r : List Val) : arithEv op l r ≠ .panic := by
  unfold arithEv
  split
  · split
    · exact mapArithErr_ne_panic _ (shiftVal_ne_panic _ _ _ _)
    · exact arithColl_ne_panic _ _ _
  · split
    · exact mapArithErr_ne_panic _ (shiftVal_ne_panic _ _ _ _)
    · exact arithColl_ne_panic _ _ _
  · exact arithColl_ne_panic _ _ _

theorem negColl_ne_panic (c : List Val) : negColl c ≠ .panic := by
  unfold negColl
  split
  · simp
  · rename_i v
    cases v <;> simp [negate]
    case int i =>
      have := mul_some i (-1)
      cases h : Gen.IntArith.mul i (-1) with
      | none => simp [h] at this
      | some x => cases x <;> simp_all <;> split <;> simp_all
  · simp

theorem concatColl_ne_panic (l r : List Val) : concatColl l r ≠ .panic := by
  unfold concatColl
  simp only []
  split <;> simp

theorem indexColl_ne_panic (i input : List Val) : indexColl i input ≠ .panic := by
  unfold indexColl; split <;> simp

theorem typeOpColl_ne_panic (f : Val → List Val) (c : List Val) : typeOpColl f c ≠ .panic := by
  unfold typeOpColl; split <;> simp

theorem toSingletonBoolean_ne_panic (c : List BItem) : toSingletonBoolean c ≠ .panic := by
  unfold toSingletonBoolean; split <;> simp
theorem toBool_ne_panic (c : List BItem) : Model.toBool c ≠ .panic := by
  unfold Model.toBool; split <;> simp

theorem boolExpr_ne_panic (op : BoolOp) (l r : List BItem) : boolExpr op l r ≠ .panic :=
  FP.Props.C06.boolExpr_never_panics op l r


/-! ### functions -/

theorem notFn_ne_panic (c : List BItem) : notFn c ≠ .panic := by
  unfold notFn
  cases h : toSingletonBoolean c with
  | panic => exact absurd h (toSingletonBoolean_ne_panic c)
  | err e => simp
  | ok b => simp

theorem toStr_ne_panic (c : List Val) : toStr c ≠ .panic := by unfold toStr; split <;> simp
theorem toInt32_ne_panic (c : List Val) : toInt32 c ≠ .panic := by unfold toInt32; split <;> simp
theorem chars_ne_panic (b : List UInt8) : chars? b ≠ .panic := by unfold chars?; split <;> simp

theorem strStep_ne_panic (c : List Val) (k : Str → Res (List Val)) (hk : ∀ s, k s ≠ .panic) :
    ((toStr c).bind fun b => (chars? b).bind k) ≠ .panic :=
  bind_ne_panic _ _ (toStr_ne_panic c) fun b => bind_ne_panic _ _ (chars_ne_panic b) hk

theorem onString_ne_panic (input : List Val) (k : Str → Res (List Val)) (hk : ∀ s, k s ≠ .panic) :
    onString input k ≠ .panic := by
  unfold onString
  split
  · simp
  · exact strStep_ne_panic _ k hk
  · simp

theorem strArg1_ne_panic (a : List Val) (k : Str → Res (List Val)) (hk : ∀ s, k s ≠ .panic) : strArg1 a k ≠ .panic := by
  unfold strArg1
  split
  · exact strStep_ne_panic _ k hk
  · simp

theorem strArg01_ne_panic (a : List Val) (k : Str → Res (List Val)) (hk : ∀ s, k s ≠ .panic) : strArg01 a k ≠ .panic := by
  unfold strArg01
  split
  · simp
  · exact strStep_ne_panic _ k hk
  · simp

theorem intArg1_ne_panic (a : List Val) (k : Int → Res (List Val)) (hk : ∀ s, k s ≠ .panic) : intArg1 a k ≠ .panic := by
  unfold intArg1
  split
  · exact bind_ne_panic _ _ (toInt32_ne_panic _) hk
  · simp

theorem mathOn_ne_panic (f : MathFn) (input : List Val) : mathOn f input ≠ .panic := by
  unfold mathOn
  split
  · simp
  · rename_i v
    cases f <;> cases v <;> simp [mathFn] <;> (try split) <;> simp
  · simp

theorem convTo_ne_panic (t : Conv.Ty) (x : Conv.CV) : Conv.convTo t x ≠ .panic := by
  cases t <;> cases x <;>
    simp [Conv.convTo, Conv.toBooleanV, Conv.toIntegerV, Conv.toDecimalV, Conv.toStringV, Conv.toDateV, Conv.toDateTimeV,
      Conv.toTimeV, Conv.toQuantityV]
  all_goals (try (split <;> simp))

theorem convOn_ne_panic (t : Conv.Ty) (input : List Val) : convOn t input ≠ .panic := by
  unfold convOn
  split
  · simp
  · split
    · simp
    · rename_i cv _
      cases h : Conv.convTo t cv with
      | panic => exact absurd h (convTo_ne_panic t cv)
      | err e => simp
      | ok r => cases r <;> simp <;> split <;> simp
  · simp

theorem convertsOn_ne_panic (t : Conv.Ty) (input : List Val) : convertsOn t input ≠ .panic := by
  unfold convertsOn
  split
  · simp
  · split <;> simp
  · simp

theorem roundVal_ne_panic (p : Int) (v : Val) : roundVal p v ≠ .panic := by
  unfold roundVal; split <;> simp

theorem caseOn_ne_panic (f : Char → Char) (input : List Val) : caseOn f input ≠ .panic := by
  unfold caseOn
  split
  · simp
  · exact bind_ne_panic _ _ (toStr_ne_panic _) fun b => bind_ne_panic _ _ (chars_ne_panic _) fun s => by split <;> simp
  · simp

theorem joinOn_ne_panic (d : List UInt8) (input : List Val) : joinOn d input ≠ .panic := by
  unfold joinOn
  split
  · simp
  · split <;> simp

theorem clockFn_ne_panic (name : String) (env : Env) : clockFn name env ≠ .panic := by
  unfold clockFn
  split
  · exact bind_ne_panic _ _ (chars_ne_panic _) fun t => by
      simp only []; split <;> simp
  · simp

theorem apply0_ne_panic (name : String) (input : List Val) : apply0 name input ≠ .panic := by
  unfold apply0
  split <;> first
    | (simp; done)
    | (split <;> first | (simp; done) | exact roundVal_ne_panic _ _)
    | exact caseOn_ne_panic _ _
    | exact joinOn_ne_panic _ _
    | exact mapRes_ne_panic _ _ (notFn_ne_panic _)
    | exact onString_ne_panic _ _ (fun s => by simp)
    | exact mathOn_ne_panic _ _
    | exact convOn_ne_panic _ _
    | exact convertsOn_ne_panic _ _

section Criteria
variable (crit : Val → Res (List BItem)) (h : ∀ x, crit x ≠ .panic)
include h

theorem whereFn_ne_panic (c : List Val) : whereFn crit c ≠ .panic := by
  induction c with
  | nil => simp [whereFn]
  | cons x xs ih =>
    unfold whereFn
    cases hx : crit x with
    | panic => exact absurd hx (h x)
    | err e => simp
    | ok out =>
      simp only []
      split
      · exact ih
      · cases ht : toSingletonBoolean out with
        | panic => exact absurd ht (toSingletonBoolean_ne_panic out)
        | err e => simp
        | ok pass =>
          cases hw : whereFn crit xs with
          | panic => exact absurd hw ih
          | err e => simp
          | ok rest => simp

theorem existsFn_ne_panic (c : List Val) : existsFn crit c ≠ .panic := by
  unfold existsFn
  cases hw : whereFn crit c with
  | panic => exact absurd hw (whereFn_ne_panic crit h c)
  | err e => simp
  | ok r => simp

theorem allFn_ne_panic (c : List Val) : allFn crit c ≠ .panic := by
  induction c with
  | nil => simp [allFn]
  | cons x xs ih =>
    unfold allFn
    cases hx : crit x with
    | panic => exact absurd hx (h x)
    | err e => simp
    | ok out =>
      cases ht : Model.toBool out with
      | panic => exact absurd ht (toBool_ne_panic out)
      | err e => simp [ht]
      | ok b => cases b <;> simp [ht, ih]
end Criteria

theorem selectFn_ne_panic (proj : Val → Res (List Val)) (h : ∀ x, proj x ≠ .panic) (c : List Val) : selectFn proj c ≠ .panic := by
  induction c with
  | nil => simp [selectFn]
  | cons x xs ih =>
    unfold selectFn
    cases hx : proj x with
    | panic => exact absurd hx (h x)
    | err e => simp
    | ok out =>
      cases hw : selectFn proj xs with
      | panic => exact absurd hw ih
      | err e => simp
      | ok rest => simp

theorem crit_ne_panic (p : Ev) (hp : ∀ i, p i ≠ .panic) (x : Val) : crit p x ≠ .panic :=
  mapRes_ne_panic _ _ (hp [x])

theorem apply1_ne_panic (name : String) (a : Ev) (ha : ∀ i, a i ≠ .panic) (input : List Val) : apply1 name a input ≠ .panic := by
  unfold apply1
  split
  · exact whereFn_ne_panic _ (crit_ne_panic a ha) _
  · exact mapRes_ne_panic _ _ (existsFn_ne_panic _ (crit_ne_panic a ha) _)
  · exact mapRes_ne_panic _ _ (allFn_ne_panic _ (crit_ne_panic a ha) _)
  · exact selectFn_ne_panic _ (fun x => ha [x]) _
  · split
    · simp
    · exact bind_ne_panic _ _ (ha _) fun av => bind_ne_panic _ _ (toInt32_ne_panic _) fun n => by simp
  · split
    · simp
    · exact bind_ne_panic _ _ (ha _) fun av => bind_ne_panic _ _ (toInt32_ne_panic _) fun n => by simp
  · split
    · simp
    · exact bind_ne_panic _ _ (ha _) fun av => by simp
  · split
    · simp
    · exact bind_ne_panic _ _ (ha _) fun av => by simp
  · exact onString_ne_panic _ _ fun s => bind_ne_panic _ _ (ha _) fun av => strArg1_ne_panic _ _ fun p => by simp
  · exact onString_ne_panic _ _ fun s => bind_ne_panic _ _ (ha _) fun av => strArg1_ne_panic _ _ fun p => by simp
  · exact onString_ne_panic _ _ fun s => bind_ne_panic _ _ (ha _) fun av => strArg1_ne_panic _ _ fun p => by simp
  · exact onString_ne_panic _ _ fun s => bind_ne_panic _ _ (ha _) fun av => strArg01_ne_panic _ _ fun p => by simp
  · exact onString_ne_panic _ _ fun s => bind_ne_panic _ _ (ha _) fun av => intArg1_ne_panic _ _ fun st => by simp
  · split
    · simp
    · exact bind_ne_panic _ _ (ha _) fun av => bind_ne_panic _ _ (toStr_ne_panic _) fun d => joinOn_ne_panic _ _
  · split
    · simp
    · exact bind_ne_panic _ _ (ha _) fun av => by
        split
        · simp
        · split
          · exact bind_ne_panic _ _ (toInt32_ne_panic _) fun b => bind_ne_panic _ _ (toInt32_ne_panic _) fun e => by simp
          · simp
  · split
    · simp
    · exact bind_ne_panic _ _ (ha _) fun av => bind_ne_panic _ _ (toInt32_ne_panic _) fun p => by
        split
        · simp
        · exact roundVal_ne_panic _ _
    · simp
  · simp

theorem apply2_ne_panic (name : String) (a b : Ev) (ha : ∀ i, a i ≠ .panic) (hb : ∀ i, b i ≠ .panic) (input : List Val) :
    apply2 name a b input ≠ .panic := by
  unfold apply2
  split
  · exact bind_ne_panic _ _ (ha _) fun cv => bind_ne_panic _ _ (toBool_ne_panic _) fun t => by split <;> simp [hb]
  · exact onString_ne_panic _ _ fun s => bind_ne_panic _ _ (ha _) fun av => intArg1_ne_panic _ _ fun st => by
      split
      · simp
      · exact bind_ne_panic _ _ (hb _) fun bv => intArg1_ne_panic _ _ fun ln => by simp
  · exact onString_ne_panic _ _ fun s => bind_ne_panic _ _ (ha _) fun av => strArg01_ne_panic _ _ fun p =>
      bind_ne_panic _ _ (hb _) fun bv => strArg01_ne_panic _ _ fun r => by simp
  · simp

theorem apply3_ne_panic (name : String) (a b c : Ev) (ha : ∀ i, a i ≠ .panic) (hb : ∀ i, b i ≠ .panic) (hc : ∀ i, c i ≠ .panic)
    (input : List Val) : apply3 name a b c input ≠ .panic := by
  unfold apply3
  split
  · exact bind_ne_panic _ _ (ha _) fun cv => bind_ne_panic _ _ (toBool_ne_panic _) fun t => by split <;> simp [hb, hc]
  · simp


/-! ### the whole evaluator -/

theorem cmpExpr_ne_panic (op : CmpOp) (l r : List (Option Val)) : cmpExpr op l r ≠ .panic := by
  have hc : cmpCore l r ≠ .panic := by
    unfold cmpCore
    split
    · simp
    · split
      · simp only []
        split <;> (try simp)
        split <;> simp
      all_goals simp
  unfold cmpExpr
  cases h : cmpCore l r with
  | panic => exact absurd h hc
  | err e => simp
  | ok x => cases x <;> simp

/-- every argument of an argument chain evaluates without a crash -/
def ArgsOK (env : Env) : E → Prop
  | .argCons a r => (∀ i, eval env a i ≠ .panic) ∧ ArgsOK env r
  | _ => True

theorem eval_ne_panic_aux (env : Env) (e : E) : (∀ input, eval env e input ≠ .panic) ∧ ArgsOK env e := by
  induction e with
  | lit v => exact ⟨fun _ => by simp [eval], trivial⟩
  | null => exact ⟨fun _ => by simp [eval], trivial⟩
  | this => exact ⟨fun _ => by simp [eval], trivial⟩
  | ext n => exact ⟨fun _ => by simp only [eval]; split <;> simp, trivial⟩
  | typeRoot n => exact ⟨fun _ => by simp [eval], trivial⟩
  | field n => exact ⟨fun _ => by simp only [eval]; split <;> simp, trivial⟩
  | seq a b iha ihb =>
    exact ⟨fun input => by simp only [eval]; exact bind_ne_panic _ _ (iha.1 _) fun mid => ihb.1 _, trivial⟩
  | index i ih =>
    exact ⟨fun input => by simp only [eval]; exact bind_ne_panic _ _ (ih.1 _) fun iv => indexColl_ne_panic _ _, trivial⟩
  | neg e ih =>
    exact ⟨fun input => by simp only [eval]; exact bind_ne_panic _ _ (ih.1 _) fun r => negColl_ne_panic _, trivial⟩
  | bool op l r ihl ihr =>
    exact ⟨fun input => by
      simp only [eval]
      exact bind_ne_panic _ _ (ihl.1 _) fun lv => bind_ne_panic _ _ (ihr.1 _) fun rv => mapRes_ne_panic _ _ (boolExpr_ne_panic _ _ _), trivial⟩
  | eq n l r ihl ihr =>
    exact ⟨fun input => by
      simp only [eval]
      exact bind_ne_panic _ _ (ihl.1 _) fun lv => bind_ne_panic _ _ (ihr.1 _) fun rv => by simp, trivial⟩
  | cmp op l r ihl ihr =>
    exact ⟨fun input => by
      simp only [eval]
      exact bind_ne_panic _ _ (ihl.1 _) fun lv => bind_ne_panic _ _ (ihr.1 _) fun rv => mapRes_ne_panic _ _ (cmpExpr_ne_panic _ _ _), trivial⟩
  | arith op l r ihl ihr =>
    exact ⟨fun input => by
      simp only [eval]
      exact bind_ne_panic _ _ (ihl.1 _) fun lv => bind_ne_panic _ _ (ihr.1 _) fun rv => arithEv_ne_panic _ _ _, trivial⟩
  | concat l r ihl ihr =>
    exact ⟨fun input => by
      simp only [eval]
      exact bind_ne_panic _ _ (ihl.1 _) fun lv => bind_ne_panic _ _ (ihr.1 _) fun rv => concatColl_ne_panic _ _, trivial⟩
  | isT e t ih =>
    exact ⟨fun input => by simp only [eval]; exact bind_ne_panic _ _ (ih.1 _) fun r => typeOpColl_ne_panic _ _, trivial⟩
  | asT e t ih =>
    exact ⟨fun input => by simp only [eval]; exact bind_ne_panic _ _ (ih.1 _) fun r => typeOpColl_ne_panic _ _, trivial⟩
  | argNil => exact ⟨fun _ => by simp [eval], trivial⟩
  | argCons a r iha ihr => exact ⟨fun _ => by simp [eval], ⟨iha.1, ihr.2⟩⟩
  | fn name args ih =>
    refine ⟨fun input => ?_, trivial⟩
    have hargs := ih.2
    by_cases hn : name = "unimplemented!"
    · subst hn; simp [eval]
    · cases args with
      | argNil =>
        have : eval env (.fn name .argNil) input = if isClockFn name then clockFn name env else apply0 name input := by
          simp [eval, hn]
        rw [this]; split
        · exact clockFn_ne_panic _ _
        · exact apply0_ne_panic _ _
      | argCons a r =>
        simp only [ArgsOK] at hargs
        cases r with
        | argNil => simp [eval, hn]; exact apply1_ne_panic _ _ hargs.1 _
        | argCons b r2 =>
          simp only [ArgsOK] at hargs
          cases r2 with
          | argNil => simp [eval, hn]; exact apply2_ne_panic _ _ _ hargs.1 hargs.2.1 _
          | argCons c r3 =>
            simp only [ArgsOK] at hargs
            cases r3 with
            | argNil => simp [eval, hn]; exact apply3_ne_panic _ _ _ _ hargs.1 hargs.2.1 hargs.2.2.1 _
            | _ => simp [eval, hn]
          | _ => simp [eval, hn]
        | _ => simp [eval, hn]
      | _ => simp [eval, hn]

/-- THE ASSEMBLED EVALUATOR NEVER CRASHES: for every compiled expression, every environment and every
    input collection, evaluation yields a collection or a named error -/
theorem eval_ne_panic (env : Env) (e : E) (input : List Val) : eval env e input ≠ .panic :=
  (eval_ne_panic_aux env e).1 input

end FP.Lemmas.EvalTotal
