/-
  FP.Lemmas.ConvFine — the parser tables and values with digits below the millisecond: the
  rendering (".000" widened to six or nine digits) is read back by the sibling layout without a
  fraction element, which `widenLayout` maps back to the millisecond layout.
-/
import FP.Lemmas.Conv
import FP.Lemmas.TextFine
namespace FP.Lemmas.Conv
open FP FP.Model FP.Model.Text FP.Model.Conv FP.Lemmas.Text FP.Lemmas.TextFine

/-- the layout with ".000" widened to n digits -/
def widenTo (n : Nat) (l : List Elem) : List Elem :=
  l.map fun e => match e with | .frac0 3 => .frac0 n | e => e

theorem fractionLayout_eq (l : List Elem) (w : Wall) (hn : w.nanos % 1000000 ≠ 0) :
    fractionLayout l w = widenTo (if w.nanos % 1000 = 0 then 6 else 9) l := by
  unfold fractionLayout widenTo
  simp only [hn, if_false]
  apply List.map_congr_left
  intro e _
  split <;> (split <;> simp_all)

def onlyMilli (l : List Elem) : Bool := l.all fun e => match e with | .frac0 m => m == 3 | _ => true

/-- a reading with a non-zero sub-second part -/
def w1 : Wall := ⟨0, 0, 0, 0, 0, 0, 1, 0⟩

/-- what the fine round trip needs from the i-th layout of a table, for n fraction digits -/
def fineAt (ls : List String) (i n : Nat) : Bool :=
  let l := ls.getD i ""
  let ll := goLayout l.toList
  onlyMilli ll &&
  (!(ll.contains (.frac0 3)) ||
    (let lf := widenTo n ll
     let lls := layoutsOf ls
     let sib := dropFrac lf
     let j := lls.idxOf sib
     decide (j < lls.length) && fracOKb lf && startsWithDigit lf &&
     (tzvs.all fun v =>
        let sh := lf.flatMap (elemShape v)
        (lls.take j).all (fun lk => (splitW lk sh).isNone) &&
        (splitW sib sh == some ((mergeL lf (lf.map (elemShape v))).map List.length))) &&
     (widenLayout (ls.getD j "") w1 == l)))

def fineOK (ls : List String) : Bool :=
  (List.range ls.length).all fun i => fineAt ls i 6 && fineAt ls i 9

theorem widenLayout_w1 (l : String) (w : Wall) (h : w.nanos ≠ 0) : widenLayout l w = widenLayout l w1 := by
  unfold widenLayout
  have : w1.nanos ≠ 0 := by decide
  simp only [h, this, if_false]

theorem fine_parse (ls : List String) (pfx : String) (hok : tableOK ls pfx = true)
    (i : Nat) (l : String) (hl : ls[i]? = some l) (n : Nat) (hfa : fineAt ls i n = true)
    (hc : (goLayout l.toList).contains (.frac0 3) = true) (w : Wall) (hb : Bounded w)
    (hx : Expressible (widenTo n (goLayout l.toList)) w) :
    ∃ j, parseFirst (layoutsOf ls) (trimPrefix pfx.toList (format (widenTo n (goLayout l.toList)) w)) = some (j, w) ∧
      widenLayout (ls.getD j "") w1 = l := by
  have hget : ls.getD i "" = l := by simp [List.getD, hl]
  simp only [fineAt, hget, hc, Bool.not_true, Bool.false_or, Bool.and_eq_true, decide_eq_true_eq, List.all_eq_true,
    beq_iff_eq] at hfa
  obtain ⟨_, ⟨⟨⟨hj, hf⟩, hsd⟩, hv⟩, hwl⟩ := hfa
  simp only [tableOK, Bool.and_eq_true] at hok
  have hp := hok.2
  generalize hlf : widenTo n (goLayout l.toList) = lf at *
  generalize hjdef : (layoutsOf ls).idxOf (dropFrac lf) = j at *
  have hvw := hv (tzv w) (by cases tzv w <;> simp [tzvs])
  obtain ⟨hpre, hsplit⟩ := hvw
  have hsib : (layoutsOf ls)[j]? = some (dropFrac lf) := by
    rw [← hjdef]
    have hlt : (layoutsOf ls).idxOf (dropFrac lf) < (layoutsOf ls).length := by rw [hjdef]; exact hj
    rw [List.getElem?_eq_getElem hlt]
    exact congrArg some (List.getElem_idxOf hlt)
  have hfl := fracOK_of lf hf
  have hshape := shape_format w hb lf hfl
  have hhead : (shapeOf (format lf w)).head? = some none := by
    rw [hshape]
    simp only [startsWithDigit, List.all_eq_true] at hsd
    have := hsd (tzv w) (by cases tzv w <;> simp [tzvs])
    simpa using this
  rw [trimPrefix_digit _ _ hhead hp]
  have hpw := parseWith_merged lf hfl w hb hx hsplit
  have hsplitL : layoutsOf ls = (layoutsOf ls).take j ++ dropFrac lf :: (layoutsOf ls).drop (j + 1) := by
    have hget2 : (layoutsOf ls)[j] = dropFrac lf := by
      have := List.getElem?_eq_getElem hj; rw [this] at hsib; exact Option.some.inj hsib
    rw [← hget2]; simp
  have hlen : ((layoutsOf ls).take j).length = j := by simp; omega
  have hpre' : ∀ lk ∈ (layoutsOf ls).take j, parseWith lk (format lf w) = none := by
    intro lk hlk
    apply parseWith_none_of_shape
    rw [hshape]
    have := hpre lk hlk
    simpa using this
  have := parseFirst_skip ((layoutsOf ls).take j) (dropFrac lf) ((layoutsOf ls).drop (j + 1)) (format lf w) w hpre' hpw
  rw [← hsplitL, hlen] at this
  exact ⟨j, this, hwl⟩


/-- a reading with a sub-second part is expressible only by a layout with a fraction element -/
theorem has_milli (ll : List Elem) (n : Nat) (hm : onlyMilli ll = true) (w : Wall)
    (hx : Expressible (widenTo n ll) w) (h0 : w.nanos ≠ 0) : ll.contains (.frac0 3) = true := by
  cases hc : ll.contains (.frac0 3) with
  | true => rfl
  | false =>
    exfalso
    apply h0
    have hno : ∀ e ∈ widenTo n ll, ∀ m, e ≠ .frac0 m := by
      intro e he m hem
      simp only [widenTo, List.mem_map] at he
      obtain ⟨e0, he0, hee⟩ := he
      simp only [onlyMilli, List.all_eq_true] at hm
      have h3 := hm e0 he0
      have hnc : e0 ≠ .frac0 3 := by
        intro h; subst h
        have : ll.contains (.frac0 3) = true := by simp [he0]
        rw [hc] at this; cases this
      cases e0 with
      | frac0 k =>
        simp only [beq_iff_eq] at h3
        subst h3; exact hnc rfl
      | _ => simp at hee; subst hee; cases hem
    have := hx.2 .nanos (by
      intro e he a ha
      cases e <;> simp [assign] at ha <;> subst ha <;> simp
      exact hno _ he _ rfl)
    simpa [Wall.get, Wall.zero] using this

/-- the fine round trip for a parser table: a value with digits below the millisecond, rendered
    (`formatT` widens ".000"), is read back with the same reading, and the layout the parser
    reports is the value's own -/
theorem table_roundtrip_fine (ls : List String) (pfx : String) (hok : tableOK ls pfx = true) (hfine : fineOK ls = true)
    (i : Nat) (l : String) (hl : ls[i]? = some l) (w : Wall) (hb : Bounded w)
    (hn : w.nanos % 1000000 ≠ 0) (hx : Expressible (fractionLayout (goLayout l.toList) w) w) :
    ∃ j, parseFirst (layoutsOf ls) (trimPrefix pfx.toList (formatT l w)) = some (j, w) ∧
      widenLayout (ls.getD j "") w = l := by
  have hlt : i < ls.length := by
    rcases Nat.lt_or_ge i ls.length with h | h
    · exact h
    · rw [List.getElem?_eq_none h] at hl; cases hl
  have h0 : w.nanos ≠ 0 := by intro h; rw [h] at hn; exact hn rfl
  simp only [fineOK, List.all_eq_true, List.mem_range, Bool.and_eq_true] at hfine
  obtain ⟨h6, h9⟩ := hfine i hlt
  have hget : ls.getD i "" = l := by simp [List.getD, hl]
  rw [fractionLayout_eq _ w hn] at hx
  have hfmt : formatT l w = format (widenTo (if w.nanos % 1000 = 0 then 6 else 9) (goLayout l.toList)) w := by
    simp only [formatT]; rw [fractionLayout_eq _ w hn]
  rw [hfmt]
  have hfa : fineAt ls i (if w.nanos % 1000 = 0 then 6 else 9) = true := by split <;> assumption
  have hm : onlyMilli (goLayout l.toList) = true := by
    have := hfa; simp only [fineAt, hget, Bool.and_eq_true] at this; exact this.1
  have hc := has_milli _ _ hm w hx h0
  obtain ⟨j, hj, hw⟩ := fine_parse ls pfx hok i l hl _ hfa hc w hb hx
  exact ⟨j, hj, by rw [widenLayout_w1 _ w h0]; exact hw⟩

end FP.Lemmas.Conv
