/- Helper lemmas for C19: segment splitting and the REST recogniser on well-formed inputs.  Core Lean only. -/
import FP.Model.Refs
namespace FP.Lemmas
open FP FP.Model

theorem lastSeg_noslash (s : S) (h : '/' ∉ s) : lastSeg s = (none, s) := by
  induction s with
  | nil => rfl
  | cons c cs ih =>
    have hc : c ≠ '/' := fun e => h (by simp [e])
    have hcs : '/' ∉ cs := fun m => h (List.mem_cons_of_mem _ m)
    simp [lastSeg, ih hcs, hc]

theorem lastSeg_append (p s : S) (h : '/' ∉ s) : lastSeg (p ++ '/' :: s) = (some p, s) := by
  induction p with
  | nil => simp [lastSeg, lastSeg_noslash s h]
  | cons c cs ih => simp [lastSeg, ih]

theorem isID_noslash (s : S) (h : isID s = true) : '/' ∉ s := by
  intro m
  simp only [isID, Bool.and_eq_true, List.all_eq_true] at h
  have := h.2 '/' m
  simp [isIdChar] at this

theorem types_alpha : FP.Gen.Schema.resourceTypes.all (fun r => r.name.toList.all Char.isAlpha) = true := by decide +kernel

theorem isType_alpha (t : S) (h : isType t = true) : t.all Char.isAlpha = true := by
  simp only [isType, FP.Gen.Schema.isValidResourceType, List.any_eq_true, beq_iff_eq] at h
  obtain ⟨r, hr, he⟩ := h
  have := List.all_eq_true.mp types_alpha r hr
  rw [he] at this
  simpa using this

theorem isType_noslash (t : S) (h : isType t = true) : '/' ∉ t := by
  intro m
  have := List.all_eq_true.mp (isType_alpha t h) '/' m
  simp [Char.isAlpha, Char.isUpper, Char.isLower] at this

theorem history_not_type : isType "_history".toList = false := by decide +kernel

theorem isType_ne_history (t : S) (h : isType t = true) : (t == "_history".toList) = false := by
  cases hq : (t == "_history".toList) with
  | false => rfl
  | true => rw [beq_iff_eq.mp hq] at h; rw [history_not_type] at h; cases h

theorem noHashBar_of_alnum (s : S) (h : ∀ c ∈ s, c.isAlphanum ∨ c = '-' ∨ c = '.' ∨ c = '/' ∨ c = '_') :
    s.contains '#' = false ∧ s.contains '|' = false := by
  constructor <;> (simp only [List.contains_eq_mem, decide_eq_false_iff_not]; intro m; have := h _ m; simp [Char.isAlphanum, Char.isAlpha, Char.isUpper, Char.isLower, Char.isDigit] at this)

/-- relative, unversioned -/
theorem parse_rel (t i : S) (ht : isType t = true) (hi : isID i = true) :
    restParse (t ++ '/' :: i) = some { ident := some ⟨t, i, []⟩ } := by
  have h1 := lastSeg_append t i (isID_noslash i hi)
  have h2 := lastSeg_noslash t (isType_noslash t ht)
  simp only [restParse, h1, h2, isType_ne_history t ht, Bool.false_and, Bool.false_eq_true, if_false, hi, ht, Bool.and_self, if_true]

/-- relative, versioned -/
theorem parse_rel_versioned (t i v : S) (ht : isType t = true) (hi : isID i = true) (hv : isID v = true) :
    restParse (t ++ '/' :: i ++ "/_history/".toList ++ v) = some { ident := some ⟨t, i, v⟩ } := by
  have e1 : t ++ '/' :: i ++ "/_history/".toList ++ v = (t ++ '/' :: i ++ "/_history".toList) ++ '/' :: v := by simp
  have h1 := lastSeg_append (t ++ '/' :: i ++ "/_history".toList) v (isID_noslash v hv)
  have e2 : t ++ '/' :: i ++ "/_history".toList = (t ++ '/' :: i) ++ '/' :: "_history".toList := by simp
  have h2 := lastSeg_append (t ++ '/' :: i) "_history".toList (by decide)
  have h3 := lastSeg_append t i (isID_noslash i hi)
  have h4 := lastSeg_noslash t (isType_noslash t ht)
  rw [e1]
  simp only [restParse, h1]
  rw [e2]
  simp only [h2, beq_self_eq_true, hv, Bool.and_self, if_true, h3, h4, hi, ht]

theorem trim_id (b : S) (h : b.getLast? ≠ some '/') : trimRightSlash b = b := by
  unfold trimRightSlash
  cases hb : b.reverse with
  | nil => have : b = [] := by simpa using hb
           subst this; rfl
  | cons c cs =>
    have hlast : b.getLast? = some c := by
      have : b = (c :: cs).reverse := by rw [← hb]; simp
      rw [this]; simp
    have hc : c ≠ '/' := by intro e; apply h; rw [hlast, e]
    simp only [List.dropWhile_cons, beq_iff_eq, hc, if_false]
    rw [← hb]; simp

/-- absolute, unversioned: the service base is recovered -/
theorem parse_abs (b t i : S) (hb : isBaseWithSlash (b ++ ['/']) = true) (hl : b.getLast? ≠ some '/')
    (ht : isType t = true) (hi : isID i = true) :
    restParse (b ++ '/' :: t ++ '/' :: i) = some { ident := some ⟨t, i, []⟩, base := b } := by
  have e1 : b ++ '/' :: t ++ '/' :: i = (b ++ '/' :: t) ++ '/' :: i := by simp
  have h1 := lastSeg_append (b ++ '/' :: t) i (isID_noslash i hi)
  have h2 := lastSeg_append b t (isType_noslash t ht)
  rw [e1]
  simp only [restParse, h1, h2, isType_ne_history t ht, Bool.false_and, Bool.false_eq_true, if_false, hi, ht, Bool.and_self, if_true, hb,
    trim_id b hl]

theorem parse_abs_versioned (b t i v : S) (hb : isBaseWithSlash (b ++ ['/']) = true) (hl : b.getLast? ≠ some '/')
    (ht : isType t = true) (hi : isID i = true) (hv : isID v = true) :
    restParse (b ++ '/' :: t ++ '/' :: i ++ "/_history/".toList ++ v) = some { ident := some ⟨t, i, v⟩, base := b } := by
  have e1 : b ++ '/' :: t ++ '/' :: i ++ "/_history/".toList ++ v = (b ++ '/' :: t ++ '/' :: i ++ "/_history".toList) ++ '/' :: v := by simp
  have h1 := lastSeg_append (b ++ '/' :: t ++ '/' :: i ++ "/_history".toList) v (isID_noslash v hv)
  have e2 : b ++ '/' :: t ++ '/' :: i ++ "/_history".toList = (b ++ '/' :: t ++ '/' :: i) ++ '/' :: "_history".toList := by simp
  have h2 := lastSeg_append (b ++ '/' :: t ++ '/' :: i) "_history".toList (by decide)
  have e3 : b ++ '/' :: t ++ '/' :: i = (b ++ '/' :: t) ++ '/' :: i := by simp
  have h3 := lastSeg_append (b ++ '/' :: t) i (isID_noslash i hi)
  have h4 := lastSeg_append b t (isType_noslash t ht)
  rw [e1]
  simp only [restParse, h1]
  rw [e2]
  simp only [h2, beq_self_eq_true, hv, Bool.and_self, if_true]
  rw [e3]
  simp only [h3, h4, hi, ht, Bool.and_self, if_true, hb, trim_id b hl]

end FP.Lemmas
