/-
  FP.Lemmas.SyntaxFull — renderings with parentheses that are *not* required: the fully
  parenthesised rendering, redundant parentheses around any sub-term, and function calls with
  arguments.  The facts are compositional: `TermR t X n` says the token list X is read by the term
  parser as the tree t (nothing left but what followed X) whenever the nesting fuel is at least n;
  `ExprR` says the same of the expression parser when a stop token follows.
-/
import FP.Lemmas.Syntax
namespace FP.Lemmas.Syntax
open FP FP.Model.Syntax

def TermR (t : Ex) (X : List Tok) (n : Nat) : Prop :=
  ∀ f rest, n ≤ f → RestOK rest → termP (exprP f) (X ++ rest) = some (t, rest)

def ExprR (t : Ex) (X : List Tok) (n : Nat) : Prop :=
  ∀ f rest, n ≤ f → Stop 0 rest → Pc f 0 (X ++ rest) = some (t, rest)

def InvR (i : Ex) (I : List Tok) (n : Nat) : Prop :=
  ∀ f rest, n ≤ f → (∀ r, rest ≠ .kw "(" :: r) → invocationP (exprP f) (I ++ rest) = some (i, rest)

def ArgsR (as : Ex) (AS : List Tok) (n : Nat) : Prop :=
  (∀ r, AS ≠ .kw ")" :: r) ∧
  ∀ f k rest, n ≤ f → AS.length ≤ k → argsP (exprP f) k (AS ++ .kw ")" :: rest) = some (as, .kw ")" :: rest)

theorem TermR.mono {t : Ex} {X : List Tok} {n m : Nat} (h : TermR t X n) (hm : n ≤ m) : TermR t X m :=
  fun f rest hf hr => h f rest (Nat.le_trans hm hf) hr
theorem ExprR.mono {t : Ex} {X : List Tok} {n m : Nat} (h : ExprR t X n) (hm : n ≤ m) : ExprR t X m :=
  fun f rest hf hr => h f rest (Nat.le_trans hm hf) hr
theorem InvR.mono {t : Ex} {X : List Tok} {n m : Nat} (h : InvR t X n) (hm : n ≤ m) : InvR t X m :=
  fun f rest hf hr => h f rest (Nat.le_trans hm hf) hr
theorem ArgsR.mono {t : Ex} {X : List Tok} {n m : Nat} (h : ArgsR t X n) (hm : n ≤ m) : ArgsR t X m :=
  ⟨h.1, fun f k rest hf hk => h.2 f k rest (Nat.le_trans hm hf) hk⟩

theorem restOK_nil : RestOK [] := by
  refine ⟨?_, ?_, ?_⟩
  · intro r h; cases h
  · intro s r h; cases h
  · intro u r h; cases h

/-- the term parser does not start with a sign or a closing bracket -/
theorem termP_sign (e : Parser) (s : String) (hs : s = "+" ∨ s = "-" ∨ s = ")" ∨ s = "]" ∨ s = ",") (r : List Tok) :
    termP e (.kw s :: r) = none := by
  rcases hs with h | h | h | h | h <;> subst h <;> simp [termP, invocationP, isIdentTok]

/-- a term rendering is read at every level, when what follows cannot extend it -/
theorem TermR.at_level (hT : tableOK = true) {t : Ex} {X : List Tok} {n : Nat} (h : TermR t X n)
    (f c : Nat) (rest : List Tok) (hf : n ≤ f) (hc : c ≤ nLevels + 2) (hs : Stop c rest) :
    Pc f c (X ++ rest) = some (t, rest) := by
  have hterm := h f rest hf (restOK_of_stop hT hs)
  obtain ⟨d, hd⟩ : ∃ d, nLevels + 2 = c + d := ⟨nLevels + 2 - c, by omega⟩
  apply descend hT f d c (by omega) (X ++ rest) rest t (by rw [← hd, Pc_term]; exact hterm) hs
  intro _ r
  constructor
  · intro heq; rw [heq, termP_sign _ "+" (Or.inl rfl)] at hterm; cases hterm
  · intro heq; rw [heq, termP_sign _ "-" (Or.inr (Or.inl rfl))] at hterm; cases hterm

theorem TermR.expr (hT : tableOK = true) {t : Ex} {X : List Tok} {n : Nat} (h : TermR t X n) : ExprR t X n :=
  fun f rest hf hs => h.at_level hT f 0 rest hf (Nat.zero_le _) hs

/-- REDUNDANT PARENTHESES: an expression rendering in parentheses is a term rendering of the same tree -/
theorem ExprR.wrap {t : Ex} {X : List Tok} {n : Nat} (h : ExprR t X n) :
    TermR t (.kw "(" :: X ++ [.kw ")"]) (n + 1) := by
  intro f rest hf hr
  obtain ⟨f', hf'⟩ : ∃ f', f = f' + 1 := ⟨f - 1, by omega⟩
  subst hf'
  have hin := h f' (.kw ")" :: rest) (by omega) (stop_close 0 rest)
  simp only [List.cons_append, List.append_assoc, List.nil_append]
  simp only [termP, exprP_succ, hin]

/-- the minimal rendering of a core tree is an expression rendering -/
theorem exprR_of_core (hT : tableOK = true) (t : Ex) (h : Core t) : ExprR t (printAt 0 t) (2 * depth t) := by
  intro f rest hf hs
  exact (good_of_core hT t h).rt 0 f rest (Nat.zero_le _) (by unfold fuelOK; simp; omega) hs

theorem termR_of_atom (a : Ex) (h : Atom a) (c : Nat) : TermR a (printAt c a) (2 * depth a - 2) :=
  fun f rest hf hr => atom_term f a h c rest (by omega) hr

theorem invR_of_inv (i : Ex) (h : Inv i) (c : Nat) : InvR i (printAt c i) (2 * depth i - 2) :=
  fun f rest hf hr => inv_parse f i h c rest (by omega) hr

/-! ### operators over term renderings -/

theorem stop_op (o : String) (r : List Tok) (b : Bool) (ho : levelIdx o b < nLevels) : Stop (levelIdx o b + 1) (.kw o :: r) := by
  obtain ⟨lvl, hlvl, _, hcont⟩ := levelIdx_spec o b ho
  exact Or.inr ⟨o, _, rfl, Or.inr (Or.inr (Or.inr ⟨levelIdx o b, lvl, Nat.lt_succ_self _, hlvl, hcont⟩))⟩

theorem exprR_bin (hT : tableOK = true) (o : String) (l r : Ex) (A B : List Tok) (na nb : Nat)
    (ho : levelIdx o false < nLevels) (hA : TermR l A na) (hB : TermR r B nb) :
    ExprR (.bin o l r) (A ++ .kw o :: B) (max na nb) := by
  intro f rest hf hs
  obtain ⟨lvl, hlvl, hty, hcont⟩ := levelIdx_spec o false ho
  have hmem : o ∈ lvl.1 := by simpa using hcont
  let i := levelIdx o false
  -- at the operator's own level
  have hlevel : Pc f i ((A ++ .kw o :: B) ++ rest) = some (.bin o l r, rest) := by
    rw [Pc_levelG f i lvl hlvl]
    have hleft : Pc f (i + 1) (A ++ (.kw o :: (B ++ rest))) = some (l, .kw o :: (B ++ rest)) :=
      hA.at_level hT f (i + 1) _ (by omega) (by omega) (stop_op o _ false ho)
    have hright : Pc f (i + 1) (B ++ rest) = some (r, rest) :=
      hB.at_level hT f (i + 1) rest (by omega) (by omega) (hs.mono (Nat.zero_le _))
    have hstep : stepAt f i lvl o = some (binRhs o (Pc f (i + 1))) := by
      simp [stepAt, hty, stepBin, hmem]
    have hrhs : binRhs o (Pc f (i + 1)) (B ++ rest) = some ((fun left => Ex.bin o left r), rest) := by
      simp only [binRhs, hright, Option.map_some]
    have hstop : LoopsTo (stepAt f i lvl) 0 (.bin o l r) rest (.bin o l r, rest) :=
      loops_stop _ _ _ (noTrigger_level hT f i lvl hlvl rest (hs.mono (Nat.zero_le _)))
    have hloop := loops_step _ o _ hstep _ rest _ hrhs 0 l _ hstop
    rw [List.append_assoc, List.cons_append]
    exact levelG_of _ _ _ l _ 1 _ hleft hloop (by simp)
  obtain ⟨d, hd⟩ : ∃ d, i = 0 + d := ⟨i, by omega⟩
  apply descend hT f d 0 (by omega) _ rest _ (by rw [← hd]; exact hlevel) hs
  intro hN; omega

theorem exprR_typ (hT : tableOK = true) (o : String) (e : Ex) (q : List String) (A : List Tok) (n : Nat)
    (ho : levelIdx o true < nLevels) (hq : q ≠ []) (hA : TermR e A n) :
    ExprR (.typ o e q) (A ++ .kw o :: qualToks q) n := by
  intro f rest hf hs
  obtain ⟨lvl, hlvl, hty, hcont⟩ := levelIdx_spec o true ho
  have hmem : o ∈ lvl.1 := by simpa using hcont
  let i := levelIdx o true
  have hlevel : Pc f i ((A ++ .kw o :: qualToks q) ++ rest) = some (.typ o e q, rest) := by
    rw [Pc_levelG f i lvl hlvl]
    have hleft : Pc f (i + 1) (A ++ (.kw o :: (qualToks q ++ rest))) = some (e, .kw o :: (qualToks q ++ rest)) :=
      hA.at_level hT f (i + 1) _ hf (by omega) (stop_op o _ true ho)
    have hnodot : ∀ r, rest ≠ .kw "." :: r := by
      intro r hr
      exact (Stop.head hT hs "." r hr).1 rfl
    have hstep : stepAt f i lvl o = some (typRhs o (Cc f (i + 1))) := by
      simp [stepAt, hty, stepTyp, hmem]
    have hcs : Cc f (i + 1) rest = some (id, rest) := by
      obtain ⟨d, hd⟩ : ∃ d, i + 1 + d = nLevels := ⟨nLevels - (i + 1), by omega⟩
      exact Cc_stop hT f d _ hd rest (hs.mono (Nat.zero_le _))
    have hrhs : typRhs o (Cc f (i + 1)) (qualToks q ++ rest) = some ((fun left => Ex.typ o left q), rest) := by
      have hlen : q.length ≤ (qualToks q ++ rest).length := by
        have : ∀ q : List String, q.length ≤ (qualToks q).length := by
          intro q; induction q with
          | nil => simp [qualToks]
          | cons a b ih => cases b with
            | nil => simp [qualToks]
            | cons c d => simp only [qualToks, List.length_cons] at ih ⊢; omega
        have := this q; simp; omega
      simp only [typRhs, qualified_parse q hq rest hnodot (fun r hr => (Stop.head hT hs "(" r hr).2.2.1 rfl) _ hlen, hcs, Option.map_some]
      rfl
    have hstop : LoopsTo (stepAt f i lvl) 0 (.typ o e q) rest (.typ o e q, rest) :=
      loops_stop _ _ _ (noTrigger_level hT f i lvl hlvl rest (hs.mono (Nat.zero_le _)))
    have hloop := loops_step _ o _ hstep _ rest _ hrhs 0 e _ hstop
    rw [List.append_assoc, List.cons_append]
    exact levelG_of _ _ _ e _ 1 _ hleft hloop (by simp)
  obtain ⟨d, hd⟩ : ∃ d, i = 0 + d := ⟨i, by omega⟩
  apply descend hT f d 0 (by omega) _ rest _ (by rw [← hd]; exact hlevel) hs
  intro hN; omega

theorem exprR_pol (hT : tableOK = true) (s : String) (e : Ex) (A : List Tok) (n : Nat)
    (hs' : s = "+" ∨ s = "-") (hA : TermR e A n) : ExprR (.pol s e) (.kw s :: A) n := by
  intro f rest hf hs
  have hinner := hA.at_level hT f nLevels rest hf (by omega) (hs.mono (Nat.zero_le _))
  have hlevel : Pc f nLevels ((.kw s :: A) ++ rest) = some (.pol s e, rest) := by
    rw [Pc_unary] at hinner ⊢
    unfold unaryP at hinner ⊢
    simp only [List.cons_append, List.length_cons]
    rcases hs' with h | h <;> subst h <;> simp only [unary, hinner, Option.map_some]
  obtain ⟨d, hd⟩ : ∃ d, nLevels = 0 + d := ⟨nLevels, by omega⟩
  apply descend hT f d 0 (by omega) _ rest _ (by rw [← hd]; exact hlevel) hs
  intro hN; omega

theorem exprR_dot (hT : tableOK = true) (e i : Ex) (A I : List Tok) (n m : Nat)
    (hA : TermR e A n) (hI : InvR i I m) : ExprR (.dot e i) (A ++ .kw "." :: I) (max n m) := by
  intro f rest hf hs
  have hro := restOK_of_stop hT hs
  have hlevel : Pc f (nLevels + 1) ((A ++ .kw "." :: I) ++ rest) = some (.dot e i, rest) := by
    rw [Pc_post]
    have hleft : termP (exprP f) (A ++ (.kw "." :: (I ++ rest))) = some (e, .kw "." :: (I ++ rest)) :=
      hA f _ (by omega) (restOK_dot _)
    have hstep : stepPostfix (exprP f) "." = some (dotRhs (exprP f)) := by simp [stepPostfix]
    have hrhs : dotRhs (exprP f) (I ++ rest) = some ((fun left => Ex.dot left i), rest) := by
      simp only [dotRhs, hI f rest (by omega) hro.1, Option.map_some]
    have hstop : LoopsTo (stepPostfix (exprP f)) 0 (.dot e i) rest (.dot e i, rest) :=
      loops_stop _ _ _ (noTrigger_postfix hT _ 0 rest hs)
    have hloop := loops_step _ "." _ hstep _ rest _ hrhs 0 e _ hstop
    rw [List.append_assoc, List.cons_append]
    exact levelG_of _ _ _ e _ 1 _ hleft hloop (by simp)
  obtain ⟨d, hd⟩ : ∃ d, nLevels + 1 = 0 + d := ⟨nLevels + 1, by omega⟩
  apply descend hT f d 0 (by omega) _ rest _ (by rw [← hd]; exact hlevel) hs
  intro _ r
  have hleft : termP (exprP f) (A ++ (.kw "." :: (I ++ rest))) = some (e, .kw "." :: (I ++ rest)) :=
    hA f _ (by omega) (restOK_dot _)
  constructor
  · intro heq
    rw [List.append_assoc, List.cons_append] at heq
    rw [heq, termP_sign _ "+" (Or.inl rfl)] at hleft; cases hleft
  · intro heq
    rw [List.append_assoc, List.cons_append] at heq
    rw [heq, termP_sign _ "-" (Or.inr (Or.inl rfl))] at hleft; cases hleft

theorem exprR_idx (hT : tableOK = true) (e ix : Ex) (A X : List Tok) (n m : Nat)
    (hA : TermR e A n) (hX : ExprR ix X m) : ExprR (.idx e ix) (A ++ .kw "[" :: X ++ [.kw "]"]) (max n (m + 1)) := by
  intro f rest hf hs
  obtain ⟨f', hf'⟩ : ∃ f', f = f' + 1 := ⟨f - 1, by omega⟩
  subst hf'
  have hleft : termP (exprP (f' + 1)) (A ++ (.kw "[" :: (X ++ .kw "]" :: rest))) = some (e, .kw "[" :: (X ++ .kw "]" :: rest)) :=
    hA (f' + 1) _ (by omega) (restOK_bracket _)
  have hlevel : Pc (f' + 1) (nLevels + 1) ((A ++ .kw "[" :: X ++ [.kw "]"]) ++ rest) = some (.idx e ix, rest) := by
    rw [Pc_post]
    have hinner := hX f' (.kw "]" :: rest) (by omega) (stop_bracket 0 rest)
    have hstep : stepPostfix (exprP (f' + 1)) "[" = some (idxRhs (exprP (f' + 1))) := by simp [stepPostfix]
    have hrhs : idxRhs (exprP (f' + 1)) (X ++ .kw "]" :: rest) = some ((fun left => Ex.idx left ix), rest) := by
      simp only [idxRhs, exprP_succ, hinner]
    have hstop : LoopsTo (stepPostfix (exprP (f' + 1))) 0 (.idx e ix) rest (.idx e ix, rest) :=
      loops_stop _ _ _ (noTrigger_postfix hT _ 0 rest hs)
    have hloop := loops_step _ "[" _ hstep _ rest _ hrhs 0 e _ hstop
    simp only [List.append_assoc, List.cons_append, List.nil_append]
    exact levelG_of _ _ _ e _ 1 _ hleft hloop (by simp)
  obtain ⟨d, hd⟩ : ∃ d, nLevels + 1 = 0 + d := ⟨nLevels + 1, by omega⟩
  apply descend hT (f' + 1) d 0 (by omega) _ rest _ (by rw [← hd]; exact hlevel) hs
  intro _ r
  constructor
  · intro heq
    simp only [List.append_assoc, List.cons_append, List.nil_append] at heq
    rw [heq, termP_sign _ "+" (Or.inl rfl)] at hleft; cases hleft
  · intro heq
    simp only [List.append_assoc, List.cons_append, List.nil_append] at heq
    rw [heq, termP_sign _ "-" (Or.inr (Or.inl rfl))] at hleft; cases hleft


/-! ### function calls with arguments -/

/-- what the term parser rejects, every level rejects (no sign in front) -/
theorem Pc_none (f : Nat) (d c : Nat) (hc : c + d = nLevels + 2) (X : List Tok)
    (hterm : termP (exprP f) X = none) (hsign : ∀ r, X ≠ .kw "+" :: r ∧ X ≠ .kw "-" :: r) : Pc f c X = none := by
  induction d generalizing c with
  | zero => have : c = nLevels + 2 := by omega
            subst this; rw [Pc_term]; exact hterm
  | succ d ih =>
    have h1 : Pc f (c + 1) X = none := ih (c + 1) (by omega)
    by_cases hcN : c < nLevels
    · obtain ⟨lvl, hl⟩ : ∃ lvl, binLevels[c]? = some lvl := ⟨binLevels[c], List.getElem?_eq_getElem hcN⟩
      rw [Pc_levelG f c lvl hl]; unfold levelG; simp only [h1]
    · by_cases hcU : c = nLevels
      · subst hcU
        rw [Pc_unary]; rw [Pc_post] at h1
        unfold unaryP
        rcases X with _ | ⟨x, xs⟩
        · simp [unary]
        · simp only [List.length_cons, unary]
          split
          · rename_i r heq; exact absurd heq (hsign r).1
          · rename_i r heq; exact absurd heq (hsign r).2
          · exact h1
      · have hcP : c = nLevels + 1 := by omega
        subst hcP
        rw [Pc_post]; rw [Pc_term] at h1
        unfold postfixP levelG; simp only [h1]

theorem ExprR.head (h : ExprR t X n) : X ≠ [] ∧ ∀ r, X ≠ .kw ")" :: r := by
  have h0 := h n [] (Nat.le_refl _) (Or.inl rfl)
  constructor
  · intro hx; subst hx
    rw [List.nil_append, Pc_none n (nLevels + 2) 0 (by omega) [] (termP_nil _) (by intro r; constructor <;> (intro h; cases h))] at h0
    cases h0
  · intro r hx; subst hx
    rw [List.append_nil, Pc_none n (nLevels + 2) 0 (by omega) _ (termP_sign _ ")" (Or.inr (Or.inr (Or.inl rfl))) _)
      (by intro r; constructor <;> (intro h; simp at h))] at h0
    cases h0

theorem stop_comma (c : Nat) (rest : List Tok) : Stop c (.kw "," :: rest) :=
  Or.inr ⟨",", rest, rfl, Or.inr (Or.inr (Or.inl rfl))⟩

theorem argsR_one {e : Ex} {X : List Tok} {n : Nat} (h : ExprR e X n) : ArgsR (.argCons e .argNil) X (n + 1) := by
  refine ⟨h.head.2, ?_⟩
  intro f k rest hf hk
  obtain ⟨f', hf'⟩ : ∃ f', f = f' + 1 := ⟨f - 1, by omega⟩
  subst hf'
  have hne : 1 ≤ X.length := by
    have := h.head.1
    cases X with
    | nil => exact absurd rfl this
    | cons _ _ => simp
  obtain ⟨k', hk'⟩ : ∃ k', k = k' + 1 := ⟨k - 1, by omega⟩
  subst hk'
  have hin := h f' (.kw ")" :: rest) (by omega) (stop_close 0 rest)
  simp [argsP, exprP_succ, hin]

theorem argsR_cons {e as : Ex} {X AS : List Tok} {n m : Nat} (h : ExprR e X n) (ha : ArgsR as AS m) :
    ArgsR (.argCons e as) (X ++ .kw "," :: AS) (max (n + 1) m) := by
  constructor
  · intro r hx
    obtain ⟨hne, hcl⟩ := h.head
    cases X with
    | nil => exact absurd rfl hne
    | cons x xs => simp only [List.cons_append, List.cons.injEq] at hx; exact hcl xs (by rw [hx.1])
  · intro f k rest hf hk
    obtain ⟨f', hf'⟩ : ∃ f', f = f' + 1 := ⟨f - 1, by omega⟩
    subst hf'
    simp only [List.length_append, List.length_cons] at hk
    obtain ⟨k', hk'⟩ : ∃ k', k = k' + 1 := ⟨k - 1, by omega⟩
    subst hk'
    have hin := h f' (.kw "," :: (AS ++ .kw ")" :: rest)) (by omega) (stop_comma 0 _)
    have hrest := ha.2 (f' + 1) k' rest (by omega) (by omega)
    rw [exprP_succ] at hrest
    simp only [List.append_assoc, List.cons_append]
    simp [argsP, exprP_succ, hin, hrest]

theorem invR_call {as : Ex} {AS : List Tok} {m : Nat} (n : String) (ha : ArgsR as AS m) :
    InvR (.call n as) (.ident n :: .kw "(" :: AS ++ [.kw ")"]) m := by
  intro f rest hf _
  have hne : AS ≠ [] := by
    intro hx; subst hx
    have := ha.2 f 0 rest hf (by simp)
    simp [argsP] at this
  have hargs := ha.2 f (AS ++ .kw ")" :: rest).length rest hf (by simp)
  cases AS with
  | nil => exact absurd rfl hne
  | cons a AS' =>
    have hcl : a ≠ .kw ")" := by intro h; exact ha.1 AS' (by rw [h])
    simp only [List.cons_append, List.append_assoc, List.nil_append] at hargs ⊢
    unfold invocationP
    simp only [isIdentTok]
    split
    · rename_i heq; simp at heq; exact absurd heq.1 hcl
    · rename_i r1 heq
      simp only [List.cons.injEq, true_and] at heq
      subst heq
      simp only [hargs]
    · rename_i h1 h2
      exact absurd rfl (h2 _)

theorem termR_call {i : Ex} {I : List Tok} {m : Nat} (n : String) (h : InvR i (.ident n :: I) m) :
    TermR i (.ident n :: I) m := by
  intro f rest hf hr
  have := h f rest hf hr.1
  simp only [List.cons_append] at this ⊢
  simp only [termP]
  exact this


/-! ### the fully parenthesised rendering -/

mutual
  /-- the trees of the full-rendering theorem: the core trees, and function calls whose arguments
      are such trees (anywhere a term or an invocation may stand) -/
  def WfE : Ex → Prop
    | .bin o l r => levelIdx o false < nLevels ∧ WfE l ∧ WfE r
    | .typ o e q => levelIdx o true < nLevels ∧ q ≠ [] ∧ WfE e
    | .pol s e => (s = "+" ∨ s = "-") ∧ WfE e
    | .dot e i => WfE e ∧ WfI i
    | .idx e i => WfE e ∧ WfE i
    | .call _ as => WfA as
    | .argNil => False
    | .argCons _ _ => False
    | .lit t => Atom (.lit t)
    | .qty n u => Atom (.qty n u)
    | .ext n => True
    | .special s => Inv (.special s)
    | .member _ => True
  def WfI : Ex → Prop
    | .call _ as => WfA as
    | .special s => Inv (.special s)
    | .member _ => True
    | _ => False
  def WfA : Ex → Prop
    | .argNil => True
    | .argCons e r => WfE e ∧ WfA r
    | _ => False
end

def fuelFull : Ex → Nat
  | .bin _ l r => max (fuelFull l) (fuelFull r) + 1
  | .typ _ e _ => fuelFull e + 1
  | .pol _ e => fuelFull e + 1
  | .dot e i => max (fuelFull e) (fuelFull i) + 1
  | .idx e i => max (fuelFull e) (fuelFull i + 1) + 1
  | .call _ as => fuelFull as + 2
  | .argCons e r => max (fuelFull e + 1) (fuelFull r)
  | _ => 0

theorem printFull_atom (a : Ex) (h : Atom a) (hnc : ∀ n as, a = .call n as → as = .argNil) : printFull a = printAt 0 a := by
  cases h with
  | inv _ hi =>
    cases hi <;> (try simp [printFull, printFullArgs, printAt, printArgs])
    rename_i n as h
    exact absurd (hnc n as rfl) h.1
  | _ => simp [printFull, printAt]

theorem full_all (hT : tableOK = true) : ∀ t : Ex,
    (WfE t → TermR t (printFull t) (fuelFull t)) ∧
    (WfI t → InvR t (printFull t) (fuelFull t)) ∧
    (WfA t → t ≠ .argNil → ArgsR t (printFullArgs t) (fuelFull t)) := by
  intro t
  induction t with
  | lit tk =>
    refine ⟨fun h => ?_, fun h => by simp [WfI] at h, fun h => by simp [WfA] at h⟩
    simp only [WfE] at h
    rw [printFull_atom _ h (by intro n as he; cases he)]; exact (termR_of_atom _ h 0).mono (by simp [depth, fuelFull])
  | qty n u =>
    refine ⟨fun h => ?_, fun h => by simp [WfI] at h, fun h => by simp [WfA] at h⟩
    simp only [WfE] at h
    rw [printFull_atom _ h (by intro n as he; cases he)]; exact (termR_of_atom _ h 0).mono (by simp [depth, fuelFull])
  | ext n =>
    refine ⟨fun _ => ?_, fun h => by simp [WfI] at h, fun h => by simp [WfA] at h⟩
    rw [printFull_atom _ (.ext n) (by intro n as he; cases he)]; exact (termR_of_atom _ (.ext n) 0).mono (by simp [depth, fuelFull])
  | special s =>
    refine ⟨fun h => ?_, fun h => ?_, fun h => by simp [WfA] at h⟩
    · simp only [WfE] at h
      rw [printFull_atom _ (.inv _ h) (by intro n as he; cases he)]; exact (termR_of_atom _ (.inv _ h) 0).mono (by simp [depth, fuelFull])
    · simp only [WfI] at h
      rw [printFull_atom _ (.inv _ h) (by intro n as he; cases he)]; exact (invR_of_inv _ h 0).mono (by simp [depth, fuelFull])
  | member n =>
    refine ⟨fun _ => ?_, fun _ => ?_, fun h => by simp [WfA] at h⟩
    · rw [printFull_atom _ (.inv _ (.member n)) (by intro n as he; cases he)]
      exact (termR_of_atom _ (.inv _ (.member n)) 0).mono (by simp [depth, fuelFull])
    · rw [printFull_atom _ (.inv _ (.member n)) (by intro n as he; cases he)]
      exact (invR_of_inv _ (.member n) 0).mono (by simp [depth, fuelFull])
  | call n as ih =>
    have hcall : WfA as → InvR (.call n as) (printFull (.call n as)) (fuelFull (.call n as)) ∧
        TermR (.call n as) (printFull (.call n as)) (fuelFull (.call n as)) := by
      intro h
      by_cases hnil : as = .argNil
      · subst hnil
        rw [printFull_atom _ (.inv _ (.call0 n)) (by intro n as he; cases he; rfl)]
        exact ⟨(invR_of_inv _ (.call0 n) 0).mono (by simp [depth, fuelFull]),
               (termR_of_atom _ (.inv _ (.call0 n)) 0).mono (by simp [depth, fuelFull])⟩
      · have ha := ih.2.2 h hnil
        have hi : InvR (.call n as) (.ident n :: .kw "(" :: printFullArgs as ++ [.kw ")"]) (fuelFull as + 2) :=
          (invR_call n ha).mono (by omega)
        simp only [printFull, fuelFull]
        exact ⟨hi, termR_call n hi⟩
    refine ⟨fun h => ?_, fun h => ?_, fun h => by simp [WfA] at h⟩
    · simp only [WfE] at h; exact (hcall h).2
    · simp only [WfI] at h; exact (hcall h).1
  | argNil =>
    refine ⟨fun h => by simp [WfE] at h, fun h => by simp [WfI] at h, fun _ h => absurd rfl h⟩
  | argCons e r ihe ihr =>
    refine ⟨fun h => by simp [WfE] at h, fun h => by simp [WfI] at h, fun h _ => ?_⟩
    simp only [WfA] at h
    have he := (ihe.1 h.1).expr hT
    by_cases hnil : r = .argNil
    · subst hnil
      have := argsR_one he
      simp only [printFullArgs, fuelFull]
      exact this.mono (by omega)
    · have hr := ihr.2.2 h.2 hnil
      have := argsR_cons he hr
      have hp : printFullArgs (.argCons e r) = printFull e ++ .kw "," :: printFullArgs r := by
        cases r <;> simp_all [printFullArgs]
      rw [hp]; simp only [fuelFull]
      exact this
  | dot e i ihe ihi =>
    refine ⟨fun h => ?_, fun h => by simp [WfI] at h, fun h => by simp [WfA] at h⟩
    simp only [WfE] at h
    have := (exprR_dot hT e i _ _ _ _ (ihe.1 h.1) (ihi.2.1 h.2)).wrap
    simp only [printFull, fuelFull]; exact this
  | idx e i ihe ihi =>
    refine ⟨fun h => ?_, fun h => by simp [WfI] at h, fun h => by simp [WfA] at h⟩
    simp only [WfE] at h
    have := (exprR_idx hT e i _ _ _ _ (ihe.1 h.1) ((ihi.1 h.2).expr hT)).wrap
    simp only [printFull, fuelFull]; exact this
  | pol s e ih =>
    refine ⟨fun h => ?_, fun h => by simp [WfI] at h, fun h => by simp [WfA] at h⟩
    simp only [WfE] at h
    have := (exprR_pol hT s e _ _ h.1 (ih.1 h.2)).wrap
    simp only [printFull, fuelFull]; exact this
  | bin o l r ihl ihr =>
    refine ⟨fun h => ?_, fun h => by simp [WfI] at h, fun h => by simp [WfA] at h⟩
    simp only [WfE] at h
    have := (exprR_bin hT o l r _ _ _ _ h.1 (ihl.1 h.2.1) (ihr.1 h.2.2)).wrap
    simp only [printFull, fuelFull]; exact this
  | typ o e q ih =>
    refine ⟨fun h => ?_, fun h => by simp [WfI] at h, fun h => by simp [WfA] at h⟩
    simp only [WfE] at h
    have := (exprR_typ hT o e q _ _ h.1 h.2.1 (ih.1 h.2.2)).wrap
    simp only [printFull, fuelFull]; exact this


theorem atom_tokens (a : Ex) (h : Atom a) : 1 ≤ (printFull a).length := by
  cases h with
  | inv _ hi => cases hi <;> simp [printFull, printFullArgs]
  | _ => simp [printFull]

/-- the nesting fuel a full rendering needs is below its length -/
theorem fuelFull_le : ∀ t : Ex,
    (WfE t → fuelFull t + 1 ≤ (printFull t).length) ∧
    (WfI t → fuelFull t + 1 ≤ (printFull t).length) ∧
    (WfA t → t ≠ .argNil → fuelFull t ≤ (printFullArgs t).length) := by
  intro t
  induction t with
  | lit tk =>
    refine ⟨fun h => ?_, fun h => by simp [WfI] at h, fun h => by simp [WfA] at h⟩
    simp only [WfE] at h; have := atom_tokens _ h; simp only [fuelFull]; omega
  | qty n u =>
    refine ⟨fun h => ?_, fun h => by simp [WfI] at h, fun h => by simp [WfA] at h⟩
    simp [printFull, fuelFull]
  | ext n => refine ⟨fun _ => by simp [printFull, fuelFull], fun h => by simp [WfI] at h, fun h => by simp [WfA] at h⟩
  | special s => refine ⟨fun _ => by simp [printFull, fuelFull], fun _ => by simp [printFull, fuelFull], fun h => by simp [WfA] at h⟩
  | member n => refine ⟨fun _ => by simp [printFull, fuelFull], fun _ => by simp [printFull, fuelFull], fun h => by simp [WfA] at h⟩
  | call n as ih =>
    have hc : WfA as → fuelFull (.call n as) + 1 ≤ (printFull (.call n as)).length := by
      intro h
      by_cases hnil : as = .argNil
      · subst hnil; simp [printFull, printFullArgs, fuelFull]
      · have := ih.2.2 h hnil
        simp only [printFull, fuelFull, List.length_cons, List.length_append, List.length_nil]; omega
    refine ⟨fun h => by simp only [WfE] at h; exact hc h, fun h => by simp only [WfI] at h; exact hc h, fun h => by simp [WfA] at h⟩
  | argNil => refine ⟨fun h => by simp [WfE] at h, fun h => by simp [WfI] at h, fun _ h => absurd rfl h⟩
  | argCons e r ihe ihr =>
    refine ⟨fun h => by simp [WfE] at h, fun h => by simp [WfI] at h, fun h _ => ?_⟩
    simp only [WfA] at h
    have he := ihe.1 h.1
    by_cases hnil : r = .argNil
    · subst hnil; simp only [printFullArgs, fuelFull]; omega
    · have hr := ihr.2.2 h.2 hnil
      have hp : printFullArgs (.argCons e r) = printFull e ++ .kw "," :: printFullArgs r := by
        cases r <;> simp_all [printFullArgs]
      rw [hp]; simp only [fuelFull, List.length_append, List.length_cons]; omega
  | dot e i ihe ihi =>
    refine ⟨fun h => ?_, fun h => by simp [WfI] at h, fun h => by simp [WfA] at h⟩
    simp only [WfE] at h
    have h1 := ihe.1 h.1; have h2 := ihi.2.1 h.2
    simp only [printFull, fuelFull, List.length_cons, List.length_append, List.length_nil]; omega
  | idx e i ihe ihi =>
    refine ⟨fun h => ?_, fun h => by simp [WfI] at h, fun h => by simp [WfA] at h⟩
    simp only [WfE] at h
    have h1 := ihe.1 h.1; have h2 := ihi.1 h.2
    simp only [printFull, fuelFull, List.length_cons, List.length_append, List.length_nil]; omega
  | pol s e ih =>
    refine ⟨fun h => ?_, fun h => by simp [WfI] at h, fun h => by simp [WfA] at h⟩
    simp only [WfE] at h
    have h1 := ih.1 h.2
    simp only [printFull, fuelFull, List.length_cons, List.length_append, List.length_nil]; omega
  | bin o l r ihl ihr =>
    refine ⟨fun h => ?_, fun h => by simp [WfI] at h, fun h => by simp [WfA] at h⟩
    simp only [WfE] at h
    have h1 := ihl.1 h.2.1; have h2 := ihr.1 h.2.2
    simp only [printFull, fuelFull, List.length_cons, List.length_append, List.length_nil]; omega
  | typ o e q ih =>
    refine ⟨fun h => ?_, fun h => by simp [WfI] at h, fun h => by simp [WfA] at h⟩
    simp only [WfE] at h
    have h1 := ih.1 h.2.2
    simp only [printFull, fuelFull, List.length_cons, List.length_append, List.length_nil]; omega

/-- a term rendering with enough fuel is a whole program -/
theorem parseProg_of_termR (hT : tableOK = true) {t : Ex} {X : List Tok} {n : Nat} (h : TermR t X n)
    (hn : n ≤ 2 * X.length + 1) : parseProg X = some t := by
  have := h.at_level hT (2 * X.length + 1) 0 [] hn (Nat.zero_le _) (Or.inl rfl)
  rw [List.append_nil] at this
  unfold parseProg
  rw [show 2 * X.length + 2 = (2 * X.length + 1) + 1 from rfl, exprP_succ, this]

theorem parseProg_of_exprR {t : Ex} {X : List Tok} {n : Nat} (h : ExprR t X n)
    (hn : n ≤ 2 * X.length + 1) : parseProg X = some t := by
  have := h (2 * X.length + 1) [] hn (Or.inl rfl)
  rw [List.append_nil] at this
  unfold parseProg
  rw [show 2 * X.length + 2 = (2 * X.length + 1) + 1 from rfl, exprP_succ, this]

theorem printArgs_cons (e r : Ex) (h : r ≠ .argNil) (hw : WfA r) :
    printArgs (.argCons e r) = printAt 0 e ++ .kw "," :: printArgs r := by
  cases r <;> simp_all [printArgs, WfA]

/-- every tree of `WfE` is a core tree: in particular every argument list of such trees is read
    back by the argument parser (`ArgsOK`), so function calls with arguments are atoms and
    invocations of the minimal-rendering theorem -/
theorem core_of_wf (hT : tableOK = true) : ∀ t : Ex,
    (WfE t → Core t) ∧ (WfI t → Inv t) ∧ (WfA t → t ≠ .argNil → ArgsOK t) := by
  intro t
  induction t with
  | lit tk => exact ⟨fun h => .atom _ (by simpa only [WfE] using h), fun h => by simp [WfI] at h, fun h => by simp [WfA] at h⟩
  | qty n u => exact ⟨fun h => .atom _ (by simpa only [WfE] using h), fun h => by simp [WfI] at h, fun h => by simp [WfA] at h⟩
  | ext n => exact ⟨fun _ => .atom _ (.ext n), fun h => by simp [WfI] at h, fun h => by simp [WfA] at h⟩
  | special s =>
    exact ⟨fun h => .atom _ (.inv _ (by simpa only [WfE] using h)), fun h => by simpa only [WfI] using h, fun h => by simp [WfA] at h⟩
  | member n => exact ⟨fun _ => .atom _ (.inv _ (.member n)), fun _ => .member n, fun h => by simp [WfA] at h⟩
  | call n as ih =>
    have hinv : WfA as → Inv (.call n as) := by
      intro h
      by_cases hnil : as = .argNil
      · subst hnil; exact .call0 n
      · exact .callArgs n as (ih.2.2 h hnil)
    exact ⟨fun h => .atom _ (.inv _ (hinv (by simpa only [WfE] using h))), fun h => hinv (by simpa only [WfI] using h),
      fun h => by simp [WfA] at h⟩
  | argNil => exact ⟨fun h => by simp [WfE] at h, fun h => by simp [WfI] at h, fun _ h => absurd rfl h⟩
  | argCons e r ihe ihr =>
    refine ⟨fun h => by simp [WfE] at h, fun h => by simp [WfI] at h, fun h _ => ?_⟩
    simp only [WfA] at h
    have hce := ihe.1 h.1
    have hxe := exprR_of_core hT e hce
    have hlen := depth_le_length e hce 0
    have hde := depth_pos e
    by_cases hnil : r = .argNil
    · subst hnil
      have ha := argsR_one hxe
      refine ⟨by simp, ?_, ?_, ?_, ?_⟩
      · simp only [depth, printArgs]; omega
      · simp only [printArgs]; exact hxe.head.1
      · simp only [printArgs]; exact hxe.head.2
      · intro f k rest hf hk
        simp only [printArgs] at hk ⊢
        simp only [depth] at hf
        exact ha.2 f k rest (by omega) hk
    · have hr := ihr.2.2 h.2 hnil
      obtain ⟨_, hrd, hrne, hrcl, hrp⟩ := hr
      have hR : ArgsR r (printArgs r) (2 * depth r) := ⟨hrcl, hrp⟩
      have ha := argsR_cons hxe hR
      have hp := printArgs_cons e r hnil h.2
      refine ⟨by simp, ?_, ?_, ?_, ?_⟩
      · rw [hp]; simp only [depth, List.length_append, List.length_cons]; omega
      · rw [hp]; intro hx; have := congrArg List.length hx; simp at this
      · rw [hp]; exact ha.1
      · intro f k rest hf hk
        rw [hp] at hk ⊢
        simp only [depth] at hf
        exact ha.2 f k rest (by omega) hk
  | dot e i ihe ihi => exact ⟨fun h => by simp only [WfE] at h; exact .dot _ _ (ihe.1 h.1) (ihi.2.1 h.2), fun h => by simp [WfI] at h, fun h => by simp [WfA] at h⟩
  | idx e i ihe ihi => exact ⟨fun h => by simp only [WfE] at h; exact .idx _ _ (ihe.1 h.1) (ihi.1 h.2), fun h => by simp [WfI] at h, fun h => by simp [WfA] at h⟩
  | pol s e ih => exact ⟨fun h => by simp only [WfE] at h; exact .pol _ _ h.1 (ih.1 h.2), fun h => by simp [WfI] at h, fun h => by simp [WfA] at h⟩
  | bin o l r ihl ihr => exact ⟨fun h => by simp only [WfE] at h; exact .bin _ _ _ h.1 (ihl.1 h.2.1) (ihr.1 h.2.2), fun h => by simp [WfI] at h, fun h => by simp [WfA] at h⟩
  | typ o e q ih => exact ⟨fun h => by simp only [WfE] at h; exact .typ _ _ _ h.1 h.2.1 (ih.1 h.2.2), fun h => by simp [WfI] at h, fun h => by simp [WfA] at h⟩

end FP.Lemmas.Syntax
