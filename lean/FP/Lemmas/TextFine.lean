/-
  FP.Lemmas.TextFine — temporal texts with digits below the millisecond.  A value rendered with
  a ".000" layout widened to six or nine fraction digits is *not* read back by that layout (it
  wants exactly three digits); `time.Parse` reads it with the sibling layout that has no fraction
  element, whose seconds element swallows a fraction of any length.  These lemmas show that this
  reading returns the same wall-clock value.
-/
import FP.Lemmas.Text
namespace FP.Lemmas.TextFine
open FP FP.Model FP.Model.Text FP.Lemmas.Text

/-- is this the seconds element followed by a fraction element? -/
def isSF (e : Elem) (r : List Elem) : Option Nat :=
  match e, r with
  | .second2, .frac0 n :: _ => some n
  | _, _ => none

theorem isSF_some {e : Elem} {r : List Elem} {n : Nat} (h : isSF e r = some n) :
    e = .second2 ∧ ∃ r', r = .frac0 n :: r' := by
  unfold isSF at h
  split at h
  · rename_i m r'; cases h; exact ⟨rfl, r', rfl⟩
  · cases h

/-- the layout without its (first) fraction element -/
def dropFrac : List Elem → List Elem
  | [] => []
  | e :: r => if (isSF e r).isSome then e :: r.tail else e :: dropFrac r

/-- the pieces of a rendering, with the seconds piece and the fraction piece joined -/
def mergeL {α : Type} : List Elem → List (List α) → List (List α)
  | [], ps => ps
  | e :: r, ps =>
    if (isSF e r).isSome then (match ps with | p1 :: p2 :: ps' => (p1 ++ p2) :: ps' | _ => ps)
    else (match ps with | p :: ps' => p :: mergeL r ps' | [] => [])

theorem mergeL_flatten {α : Type} (l : List Elem) (ps : List (List α)) : (mergeL l ps).flatten = ps.flatten := by
  induction l generalizing ps with
  | nil => rfl
  | cons e r ih =>
    unfold mergeL
    by_cases h : (isSF e r).isSome
    · simp only [h, if_true]
      rcases ps with _ | ⟨p1, _ | ⟨p2, ps'⟩⟩ <;> simp
    · simp only [h]
      rcases ps with _ | ⟨p, ps'⟩
      · rfl
      · simp [ih ps']

theorem mergeL_lengths {α β : Type} (l : List Elem) (ps : List (List α)) (qs : List (List β))
    (h : ps.map List.length = qs.map List.length) :
    (mergeL l ps).map List.length = (mergeL l qs).map List.length := by
  induction l generalizing ps qs with
  | nil => exact h
  | cons e r ih =>
    unfold mergeL
    by_cases hs : (isSF e r).isSome
    · simp only [hs, if_true]
      rcases ps with _ | ⟨p1, _ | ⟨p2, ps'⟩⟩ <;> rcases qs with _ | ⟨q1, _ | ⟨q2, qs'⟩⟩ <;> simp_all
    · simp only [hs]
      rcases ps with _ | ⟨p, ps'⟩ <;> rcases qs with _ | ⟨q, qs'⟩ <;> simp_all
      exact ih ps' qs' h.2

/-! ### reading the joined seconds piece -/

theorem second_piece_length (w : Wall) (hb : Bounded w) : (formatElem w .second2).length = 2 := by
  have := hb.second
  simp only [formatElem]
  exact padNat_length 2 _ (by omega) (by omega)

theorem readSecond_joined (w : Wall) (hb : Bounded w) (n : Nat) (hn : 1 ≤ n ∧ n ≤ 9) :
    readElem .second2 (formatElem w .second2 ++ formatElem w (.frac0 n)) = some (assign w .second2 ++ assign w (.frac0 n)) := by
  have h1 := readElem_formatElem w hb .second2 (by intro m h; cases h)
  have h2 := readElem_formatElem w hb (.frac0 n) (by intro m h; cases h; exact hn)
  have hlen := second_piece_length w hb
  simp only [readElem] at h1 h2 ⊢
  -- what the fraction piece gives
  cases hp : parseNanos (formatElem w (.frac0 n)) with
  | none => rw [hp] at h2; cases h2
  | some ns =>
    rw [hp] at h2
    simp only [Option.map_some, Option.some.injEq] at h2
    -- the seconds piece alone
    unfold readSecond at h1 ⊢
    have htake : (formatElem w .second2 ++ formatElem w (.frac0 n)).take 2 = formatElem w .second2 := by
      rw [← hlen, List.take_left]
    have hdrop : (formatElem w .second2 ++ formatElem w (.frac0 n)).drop 2 = formatElem w (.frac0 n) := by
      rw [← hlen, List.drop_left]
    have htake1 : (formatElem w .second2).take 2 = formatElem w .second2 := by
      rw [← hlen, List.take_length]
    have hlong : ¬ ((formatElem w .second2 ++ formatElem w (.frac0 n)).length ≤ 2) := by
      simp only [List.length_append, hlen]
      simp [formatElem]
    rw [htake1] at h1
    rw [htake, hdrop, hp]
    by_cases h60 : (60 : Int) ≤ (digitsVal (formatElem w .second2) : Int)
    · simp only [h60, if_true] at h1; cases h1
    · simp only [h60, if_false, hlen, Nat.le_refl, if_true, Option.some.injEq] at h1
      simp only [h60, if_false, hlong, Option.map_some]
      rw [← h2, ← h1]
      rfl

/-- `readAll` of the merged layout on the merged pieces is `readAll` of the layout on its pieces -/
theorem readAll_merged (w : Wall) (hb : Bounded w) (l : List Elem) (hl : FracOK l) :
    readAll (dropFrac l) (mergeL l (l.map (formatElem w))) = some (l.flatMap (assign w)) := by
  induction l with
  | nil => rfl
  | cons e r ih =>
    have hr : FracOK r := fun e' h' => hl e' (List.mem_cons_of_mem _ h')
    unfold dropFrac mergeL
    by_cases hs : (isSF e r).isSome
    · obtain ⟨n, hn⟩ := Option.isSome_iff_exists.mp hs
      obtain ⟨he, r', hr'⟩ := isSF_some hn
      subst he; subst hr'
      have hfn : 1 ≤ n ∧ n ≤ 9 := hl (.frac0 n) (by simp) n rfl
      have hr2 : FracOK r' := fun e' h' => hr e' (List.mem_cons_of_mem _ h')
      simp only [hs, if_true, List.map_cons, List.tail_cons, readAll, List.flatMap_cons]
      rw [readSecond_joined w hb n hfn, readAll_format w hb r' hr2]
      simp [List.append_assoc]
    · have hs' : (isSF e r).isSome = false := by simpa using hs
      simp only [hs', Bool.false_eq_true, if_false, List.map_cons, readAll, List.flatMap_cons]
      rw [readElem_formatElem w hb e (hl e (by simp)), ih hr]
      rfl

/-- parsing a rendering of `l` with the layout `dropFrac l` returns the value, when the shape
    splits as the merged pieces (a decidable condition on the layout, checked per zone form) -/
theorem parseWith_merged (l : List Elem) (hl : FracOK l) (w : Wall) (hb : Bounded w) (hx : Expressible l w)
    (hsplit : splitW (dropFrac l) (l.flatMap (elemShape (tzv w))) =
      some ((mergeL l (l.map (elemShape (tzv w)))).map List.length)) :
    parseWith (dropFrac l) (format l w) = some w := by
  unfold parseWith
  rw [shape_format w hb l hl, hsplit]
  have hw : (mergeL l (l.map (elemShape (tzv w)))).map List.length = (mergeL l (l.map (formatElem w))).map List.length := by
    apply mergeL_lengths
    rw [List.map_map, List.map_map]; apply List.map_congr_left
    intro e he; simp only [Function.comp]
    exact (length_formatElem w hb e (fun n h => (hl e he n h).2)).symm
  have hf : format l w = (mergeL l (l.map (formatElem w))).flatten := by
    rw [mergeL_flatten]; simp [format, List.flatMap]
  simp only [hw]
  rw [hf, splitBy_flatten, readAll_merged w hb l hl]
  simp only [applyAll_assign l w hx]
  have := hb.day
  rw [if_neg (by simp; omega)]

end FP.Lemmas.TextFine
